package simnet

import (
	"fmt"
	"math/big"
	"math/rand"

	g "github.com/zenon-network/go-zenon/chain/genesis/mock"
	"github.com/zenon-network/go-zenon/chain/nom"
	"github.com/zenon-network/go-zenon/common/types"
	"github.com/zenon-network/go-zenon/vm/constants"
	"github.com/zenon-network/go-zenon/vm/embedded/definition"
	"github.com/zenon-network/go-zenon/wallet"
)

// Workload submits seeded user activity to a node: transfers, receives and
// calls to embedded contracts (valid and invalid), so that histories contain
// refunds, token issue/mint/burn, fusions, stakes, delegations, deposits.
type Workload struct {
	R     *rand.Rand
	N     *Node
	Users []*wallet.KeyPair

	// Tokens issued by the workload (owner → zts), discovered after confirmation.
	Issued []IssuedToken
	// Accepted counts accepted blocks by action name; Rejected counts submit errors.
	Accepted map[string]int
	Rejected map[string]int

	// PillarNames: names used by Delegate calls (default: the mock genesis pillars).
	PillarNames []string
	// SporkKey: designated spork key (default g.Spork).
	SporkKey *wallet.KeyPair
	// Sporks: allow CreateSpork calls by the designated key.
	Sporks bool
	// ContractWeight: percentage of actions that are contract calls (default 35).
	ContractWeight int
	// Log of the last actions (for witnesses).
	Log []string

	pendingIssue []pendingIssue
	fuseIDs      []fuseRef
}

type IssuedToken struct {
	Owner *wallet.KeyPair
	ZTS   types.ZenonTokenStandard
}
type pendingIssue struct {
	owner *wallet.KeyPair
	hash  types.Hash
}
type fuseRef struct {
	owner *wallet.KeyPair
	id    types.Hash
}

// DefaultUsers: the funded accounts of the mock genesis.
func DefaultUsers() []*wallet.KeyPair {
	return []*wallet.KeyPair{g.User1, g.User2, g.User3, g.User4, g.User5, g.Pillar4, g.Pillar5, g.Pillar6, g.Spork, g.User6, g.User7}
}

func NewWorkload(r *rand.Rand, n *Node) *Workload {
	return &Workload{R: r, N: n, Users: DefaultUsers(), Accepted: map[string]int{}, Rejected: map[string]int{}, ContractWeight: 35}
}

func (w *Workload) note(action string, err error) {
	if err == nil {
		w.Accepted[action]++
	} else {
		w.Rejected[action]++
	}
	s := action
	if err != nil {
		s += " -> " + err.Error()
	}
	w.Log = append(w.Log, s)
	if len(w.Log) > 80 {
		w.Log = w.Log[len(w.Log)-80:]
	}
}

func (w *Workload) user() *wallet.KeyPair { return w.Users[w.R.Intn(len(w.Users))] }

func (w *Workload) balance(addr types.Address, zts types.ZenonTokenStandard) *big.Int {
	b, err := w.N.Chain.GetFrontierAccountStore(addr).GetBalance(zts)
	if err != nil || b == nil {
		return big.NewInt(0)
	}
	return b
}

func (w *Workload) smallAmount(max *big.Int) *big.Int {
	if max.Sign() <= 0 {
		return big.NewInt(0)
	}
	switch w.R.Intn(6) {
	case 0:
		return big.NewInt(0)
	case 1:
		return big.NewInt(1)
	case 2:
		return new(big.Int).Set(max) // everything
	default:
		lim := new(big.Int).Set(max)
		cap := big.NewInt(50 * g.Zexp)
		if lim.Cmp(cap) > 0 {
			lim = cap
		}
		return new(big.Int).Rand(w.R, new(big.Int).Add(lim, big.NewInt(1)))
	}
}

func (w *Workload) zts() types.ZenonTokenStandard {
	k := w.R.Intn(10)
	if k < 5 {
		return types.ZnnTokenStandard
	}
	if k < 8 || len(w.Issued) == 0 {
		return types.QsrTokenStandard
	}
	return w.Issued[w.R.Intn(len(w.Issued))].ZTS
}

// Unreceived lists up to n confirmed sends waiting for addr.
func (w *Workload) Unreceived(addr types.Address, n uint64) []types.Hash {
	l, err := w.N.Chain.GetFrontierMomentumStore().GetAccountMailbox(addr).GetUnreceivedAccountBlockHashes(n)
	if err != nil {
		return nil
	}
	return l
}

// Step submits between 0 and max user blocks.
func (w *Workload) Step(max int) {
	k := w.R.Intn(max + 1)
	for i := 0; i < k; i++ {
		w.One()
	}
	w.discoverIssued()
}

// One submits one random action.
func (w *Workload) One() {
	p := w.R.Intn(100)
	switch {
	case p < 30:
		w.receiveSome()
	case p < 30+w.ContractWeight:
		w.contractCall()
	default:
		w.transfer()
	}
}

func (w *Workload) transfer() {
	from := w.user()
	var to types.Address
	switch w.R.Intn(8) {
	case 0:
		// an address that never receives
		to = types.ParseAddressPanic("z1qqjnwjjpnue8xmmpanz6csze6tcmtzzdtfsww7")
	case 1:
		to = from.Address // to self
	default:
		to = w.user().Address
	}
	zts := w.zts()
	bal := w.balance(from.Address, zts)
	amt := w.smallAmount(bal)
	if w.R.Intn(25) == 0 {
		amt = new(big.Int).Add(bal, big.NewInt(1)) // more than the balance: must be refused
	}
	var data []byte
	if w.R.Intn(5) == 0 {
		data = make([]byte, w.R.Intn(40))
		w.R.Read(data)
	}
	_, err := w.N.Send(from, to, zts, amt, data)
	w.note("transfer", err)
}

func (w *Workload) receiveSome() {
	u := w.user()
	hashes := w.Unreceived(u.Address, 6)
	if len(hashes) == 0 {
		// try everybody once
		for _, x := range w.Users {
			if hashes = w.Unreceived(x.Address, 6); len(hashes) > 0 {
				u = x
				break
			}
		}
	}
	if len(hashes) == 0 {
		w.transfer()
		return
	}
	h := hashes[w.R.Intn(len(hashes))]
	_, err := w.N.Receive(u, h)
	w.note("receive", err)
	if w.R.Intn(10) == 0 {
		// a second receive of the same send must be refused
		_, err := w.N.Receive(u, h)
		w.note("double-receive", err)
	}
}

func (w *Workload) call(action string, from *wallet.KeyPair, to types.Address, zts types.ZenonTokenStandard, amount *big.Int, data []byte) (*nom.AccountBlock, error) {
	b, err := w.N.Send(from, to, zts, amount, data)
	w.note(action, err)
	return b, err
}

func (w *Workload) contractCall() {
	u := w.user()
	z := int64(g.Zexp)
	switch w.R.Intn(18) {
	case 0: // fuse plasma
		amt := big.NewInt((10 + int64(w.R.Intn(40))) * z)
		if w.R.Intn(6) == 0 {
			amt = big.NewInt(9 * z) // below the minimum: refused at send
		}
		b, err := w.call("plasma.Fuse", u, types.PlasmaContract, types.QsrTokenStandard, amt,
			definition.ABIPlasma.PackMethodPanic(definition.FuseMethodName, w.user().Address))
		if err == nil {
			w.fuseIDs = append(w.fuseIDs, fuseRef{owner: u, id: b.Hash})
		}
	case 1: // cancel a fusion (too early, unknown id or foreign owner → failed call)
		id := types.Hash{}
		owner := u
		if len(w.fuseIDs) > 0 && w.R.Intn(4) != 0 {
			f := w.fuseIDs[w.R.Intn(len(w.fuseIDs))]
			id = f.id
			if w.R.Intn(3) != 0 {
				owner = f.owner
			}
		} else {
			w.R.Read(id[:])
		}
		w.call("plasma.CancelFuse", owner, types.PlasmaContract, types.ZnnTokenStandard, big.NewInt(0),
			definition.ABIPlasma.PackMethodPanic(definition.CancelFuseMethodName, id))
	case 2: // stake
		dur := constants.StakeTimeUnitSec * int64(1+w.R.Intn(12))
		amt := big.NewInt((1 + int64(w.R.Intn(20))) * z)
		w.call("stake.Stake", u, types.StakeContract, types.ZnnTokenStandard, amt,
			definition.ABIStake.PackMethodPanic(definition.StakeMethodName, dur))
	case 3: // cancel an unknown stake, with value attached in a foreign token → refused or refunded
		id := types.Hash{}
		w.R.Read(id[:])
		w.call("stake.Cancel", u, types.StakeContract, types.ZnnTokenStandard, big.NewInt(0),
			definition.ABIStake.PackMethodPanic(definition.CancelStakeMethodName, id))
	case 4: // delegate / undelegate
		if w.R.Intn(3) == 0 {
			w.call("pillar.Undelegate", u, types.PillarContract, types.ZnnTokenStandard, big.NewInt(0),
				definition.ABIPillars.PackMethodPanic(definition.UndelegateMethodName))
		} else {
			names := []string{g.Pillar1Name, g.Pillar2Name, g.Pillar3Name, "no-such-pillar"}
			if len(w.PillarNames) > 0 {
				names = append(append([]string{}, w.PillarNames...), "no-such-pillar")
			}
			w.call("pillar.Delegate", u, types.PillarContract, types.ZnnTokenStandard, big.NewInt(0),
				definition.ABIPillars.PackMethodPanic(definition.DelegateMethodName, names[w.R.Intn(len(names))]))
		}
	case 5: // issue a token
		max := big.NewInt(int64(1000 + w.R.Intn(100000)))
		total := new(big.Int).Rand(w.R, new(big.Int).Add(max, big.NewInt(1)))
		mintable := w.R.Intn(3) != 0
		if !mintable {
			total = new(big.Int).Set(max)
		}
		name := fmt.Sprintf("Tok%d", w.R.Intn(100000))
		fee := big.NewInt(1 * z)
		if w.R.Intn(8) == 0 {
			fee = big.NewInt(z / 2) // wrong fee: refused at send
		}
		b, err := w.call("token.IssueToken", u, types.TokenContract, types.ZnnTokenStandard, fee,
			definition.ABIToken.PackMethodPanic(definition.IssueMethodName, name, "T"+fmt.Sprint(w.R.Intn(1000)), "example.com", total, max, uint8(w.R.Intn(19)), mintable, w.R.Intn(3) != 0, w.R.Intn(2) == 0))
		if err == nil {
			w.pendingIssue = append(w.pendingIssue, pendingIssue{owner: u, hash: b.Hash})
		}
	case 6: // mint an issued token (owner or stranger)
		if len(w.Issued) == 0 {
			w.transfer()
			return
		}
		t := w.Issued[w.R.Intn(len(w.Issued))]
		from := t.Owner
		if w.R.Intn(4) == 0 {
			from = u
		}
		amt := big.NewInt(int64(1 + w.R.Intn(5000)))
		if w.R.Intn(6) == 0 {
			amt = new(big.Int).Lsh(big.NewInt(1), 200) // above max supply → failed call
		}
		w.call("token.Mint", from, types.TokenContract, types.ZnnTokenStandard, big.NewInt(0),
			definition.ABIToken.PackMethodPanic(definition.MintMethodName, t.ZTS, amt, w.user().Address))
	case 7: // burn
		zts := w.zts()
		bal := w.balance(u.Address, zts)
		amt := w.smallAmount(bal)
		w.call("token.Burn", u, types.TokenContract, zts, amt,
			definition.ABIToken.PackMethodPanic(definition.BurnMethodName))
	case 8: // update token (transfer ownership / make non-mintable)
		if len(w.Issued) == 0 {
			w.transfer()
			return
		}
		i := w.R.Intn(len(w.Issued))
		t := w.Issued[i]
		newOwner := t.Owner
		if w.R.Intn(3) == 0 {
			newOwner = w.user()
		}
		from := t.Owner
		if w.R.Intn(5) == 0 {
			from = u
		}
		_, err := w.call("token.UpdateToken", from, types.TokenContract, types.ZnnTokenStandard, big.NewInt(0),
			definition.ABIToken.PackMethodPanic(definition.UpdateTokenMethodName, t.ZTS, newOwner.Address, w.R.Intn(4) != 0, w.R.Intn(4) != 0))
		_ = err
	case 9: // pillar / sentinel QSR deposit and withdraw
		target := types.PillarContract
		abi := definition.ABIPillars
		if w.R.Intn(2) == 0 {
			target = types.SentinelContract
			abi = definition.ABISentinel
		}
		if w.R.Intn(2) == 0 {
			w.call("DepositQsr", u, target, types.QsrTokenStandard, big.NewInt(int64(1+w.R.Intn(500))*z),
				abi.PackMethodPanic(definition.DepositQsrMethodName))
		} else {
			w.call("WithdrawQsr", u, target, types.ZnnTokenStandard, big.NewInt(0),
				abi.PackMethodPanic(definition.WithdrawQsrMethodName))
		}
	case 10: // collect rewards (usually nothing to collect)
		targets := []types.Address{types.PillarContract, types.StakeContract, types.SentinelContract}
		w.call("CollectReward", u, targets[w.R.Intn(len(targets))], types.ZnnTokenStandard, big.NewInt(0),
			definition.ABICommon.PackMethodPanic(definition.CollectRewardMethodName))
	case 11: // a call with value in the WRONG token: valid selector, contract refunds at receive or refuses at send
		w.call("plasma.Fuse(wrong token)", u, types.PlasmaContract, types.ZnnTokenStandard, big.NewInt(10*z),
			definition.ABIPlasma.PackMethodPanic(definition.FuseMethodName, u.Address))
	case 12: // garbage data to a contract
		data := make([]byte, w.R.Intn(70))
		w.R.Read(data)
		targets := types.EmbeddedContracts
		w.call("garbage-call", u, targets[w.R.Intn(len(targets))], types.ZnnTokenStandard, big.NewInt(int64(w.R.Intn(3))*z), data)
	case 13: // swap retrieve with a bogus signature → fails at receive
		w.call("swap.RetrieveAssets", u, types.SwapContract, types.ZnnTokenStandard, big.NewInt(0),
			definition.ABISwap.PackMethodPanic(definition.RetrieveAssetsMethodName, g.Secp1PubKeyB64, "AAAA"))
	case 14: // donate to accelerator-like contracts is spork gated; stake with odd duration → refused
		w.call("stake.Stake(bad duration)", u, types.StakeContract, types.ZnnTokenStandard, big.NewInt(2*z),
			definition.ABIStake.PackMethodPanic(definition.StakeMethodName, int64(12345)))
	case 16: // register a sentinel (needs 50 000 QSR deposited first and 5 000 ZNN): only the rich accounts can
		rich := []*wallet.KeyPair{g.User1, g.User2, g.Pillar4, g.Pillar5, g.Spork}
		o := rich[w.R.Intn(len(rich))]
		if w.R.Intn(2) == 0 {
			w.call("sentinel.DepositQsr(50k)", o, types.SentinelContract, types.QsrTokenStandard, new(big.Int).Set(constants.SentinelQsrDepositAmount),
				definition.ABISentinel.PackMethodPanic(definition.DepositQsrMethodName))
		} else {
			w.call("sentinel.Register", o, types.SentinelContract, types.ZnnTokenStandard, new(big.Int).Set(constants.SentinelZnnRegisterAmount),
				definition.ABISentinel.PackMethodPanic(definition.RegisterSentinelMethodName))
		}
	case 15: // the designated key creates a spork (never activated here: an unknown enforced spork halts the node by design)
		if !w.Sporks {
			w.transfer()
			return
		}
		sk := g.Spork
		if w.SporkKey != nil {
			sk = w.SporkKey
		}
		w.call("spork.CreateSpork", sk, types.SporkContract, types.ZnnTokenStandard, big.NewInt(0),
			definition.ABISpork.PackMethodPanic(definition.SporkCreateMethodName, fmt.Sprintf("spork-%d", w.R.Intn(100000)), "created by the workload"))
	default: // valid selector, value attached where none is expected → failed call with refund, or refusal
		w.call("pillar.Delegate(with value)", u, types.PillarContract, types.ZnnTokenStandard, big.NewInt(int64(1+w.R.Intn(3))*z),
			definition.ABIPillars.PackMethodPanic(definition.DelegateMethodName, g.Pillar1Name))
	}
}

// discoverIssued looks for the token standard created by confirmed IssueToken calls.
func (w *Workload) discoverIssued() {
	if len(w.pendingIssue) == 0 {
		return
	}
	st := w.N.Chain.GetFrontierMomentumStore()
	var still []pendingIssue
	for _, p := range w.pendingIssue {
		h, err := st.GetBlockConfirmationHeight(p.hash)
		if err != nil || h == 0 {
			still = append(still, p)
			continue
		}
		recv, err := st.GetBlockWhichReceives(p.hash)
		if err != nil || recv == nil {
			still = append(still, p)
			continue
		}
		// the token standard is derived from the send block hash
		zts := types.NewZenonTokenStandard(p.hash.Bytes())
		if info, err := st.GetTokenInfoByTs(zts); err == nil && info != nil {
			w.Issued = append(w.Issued, IssuedToken{Owner: p.owner, ZTS: zts})
		}
	}
	w.pendingIssue = still
}

// ActivateSpork creates and activates a spork with the designated key on node n and patches the
// process-wide spork id the way the repository's own tests do (the id is the hash of the create
// block, so it is only known at run time). Returns a function restoring the globals.
func ActivateSpork(n *Node, which *types.ImplementedSpork, name string) (restore func(), err error) {
	if _, err := n.Send(g.Spork, types.SporkContract, types.ZnnTokenStandard, big.NewInt(0),
		definition.ABISpork.PackMethodPanic(definition.SporkCreateMethodName, name, "activated by the harness")); err != nil {
		return nil, err
	}
	n.MustProduce(2)
	sporks, err := n.Chain.GetFrontierMomentumStore().GetAllDefinedSporks()
	if err != nil {
		return nil, err
	}
	var id types.Hash
	found := false
	for _, s := range sporks {
		if s.Name == name {
			id, found = s.Id, true
		}
	}
	if !found {
		return nil, fmt.Errorf("spork %s was not created", name)
	}
	if _, err := n.Send(g.Spork, types.SporkContract, types.ZnnTokenStandard, big.NewInt(0),
		definition.ABISpork.PackMethodPanic(definition.SporkActivateMethodName, id)); err != nil {
		return nil, err
	}
	old := which.SporkId
	which.SporkId = id
	types.ImplementedSporksMap[id] = true
	restore = func() {
		delete(types.ImplementedSporksMap, id)
		which.SporkId = old
	}
	n.MustProduce(int(constants.SporkMinHeightDelay) + 3)
	return restore, nil
}
