// Package simnet wires the REAL go-zenon components (LevelDB manager, chain,
// consensus, supervisor, verifier, chain bridge, pillar managers) into
// in-process nodes whose every boundary call goes through the harness.
package simnet

import (
	"encoding/hex"
	"fmt"
	"math/big"
	"os"
	"sync"
	"time"

	"github.com/ethereum/go-ethereum/rlp"
	"github.com/inconshreveable/log15"
	"github.com/syndtr/goleveldb/leveldb"
	"github.com/syndtr/goleveldb/leveldb/opt"

	"github.com/zenon-network/go-zenon/chain"
	"github.com/zenon-network/go-zenon/chain/genesis"
	g "github.com/zenon-network/go-zenon/chain/genesis/mock"
	"github.com/zenon-network/go-zenon/chain/nom"
	"github.com/zenon-network/go-zenon/chain/store"
	"github.com/zenon-network/go-zenon/common"
	"github.com/zenon-network/go-zenon/common/db"
	"github.com/zenon-network/go-zenon/common/types"
	"github.com/zenon-network/go-zenon/consensus"
	"github.com/zenon-network/go-zenon/pillar"
	"github.com/zenon-network/go-zenon/protocol"
	"github.com/zenon-network/go-zenon/verifier"
	"github.com/zenon-network/go-zenon/vm"
	"github.com/zenon-network/go-zenon/wallet"
)

// fixedClock is the process-wide common.Clock of the harness. It never moves:
// the pillar worker only compares it with "slot start + 3 s" to refuse late
// broadcasts, and slot times in the harness are virtual.
type fixedClock struct{ t time.Time }

func (c fixedClock) Now() time.Time { return c.t }

// WithClock runs f while the process-wide wall clock of the node software (common.Clock) shows t: a node that
// verifies, syncs or replays the chain at another moment than the one it was produced at. The clock is restored
// afterwards. Only for phases in which no node of the process produces (the pillar worker refuses to broadcast when
// its clock is past the slot start).
func WithClock(t time.Time, f func()) {
	old := common.Clock
	common.Clock = fixedClock{t: t}
	defer func() { common.Clock = old }()
	f()
}

// ClockSkews are the distances between "when the chain says it is" and "when the node's clock says it is" that
// followers are run with: none, a node that is late by minutes, hours, epochs, years, and one whose clock is behind.
var ClockSkews = []time.Duration{0, 95 * time.Minute, 26 * time.Hour, 9 * 24 * time.Hour, 5 * 365 * 24 * time.Hour, -36 * time.Hour, 7 * time.Second}

var setupOnce sync.Once

// Setup installs process globals once: a fixed clock, silent loggers, and the
// post-enforcement regime for the receiver-mismatch rule.
func Setup() {
	setupOnce.Do(func() {
		common.Clock = fixedClock{t: time.Unix(1000000000, 0)}
		Silence()
		verifier.ReceiverMismatchEnforcementHeight = 0
	})
}

var allLoggers = []common.Logger{
	common.ZenonLogger, common.ChainLogger, common.SupervisorLogger, common.P2PLogger,
	common.PillarLogger, common.RPCLogger, common.WalletLogger, common.EmbeddedLogger,
	common.VmLogger, common.ProtocolLogger, common.FetcherLogger, common.DownloaderLogger,
	common.ConsensusLogger, common.VerifierLogger,
}

func Silence() {
	for _, l := range allLoggers {
		l.SetHandler(log15.DiscardHandler())
	}
	if os.Getenv("VERIF_DEBUG_LOG") != "" {
		// debugging aid for replays: errors of the protocol layer (chain bridge) to the child log
		common.ProtocolLogger.SetHandler(log15.LvlFilterHandler(log15.LvlError, log15.StreamHandler(os.Stderr, log15.LogfmtFormat())))
	}
	// recovered VM panics are logged by the supervisor with their stack: keep those in the child log
	common.SupervisorLogger.SetHandler(log15.LvlFilterHandler(log15.LvlError, log15.StreamHandler(os.Stderr, log15.LogfmtFormat())))
}

// Event is one boundary call recorded by a node.
type Event struct {
	Seq   uint64
	Node  string
	Kind  string // create-block create-momentum insert-chain add-blocks rollback
	Hash  string
	Err   string
	Extra string
}

// Node is one full node made of the real components.
type Node struct {
	Name       string
	Dir        string
	Gen        store.Genesis
	Mgr        db.Manager
	Chain      chain.Chain
	Cons       consensus.Consensus
	Sup        *vm.Supervisor
	Ver        verifier.Verifier
	Bridge     protocol.ChainBridge
	Pillars    []pillar.Manager
	PillarKeys []*wallet.KeyPair

	// Observers (optional). Called at the client boundary, after the call returned.
	OnBlock    func(tx *nom.AccountBlock, changes db.Patch, err error)
	OnMomentum func(m *nom.Momentum, err error)

	// TemplateHook, if set, may edit a block template before the supervisor fills and signs it.
	TemplateHook func(tpl *nom.AccountBlock)

	// LastBlockErr / LastMomentumErr: result of the last Create* call.
	LastBlockErr    error
	LastMomentumErr error
	// Produced collects the momentums this node's pillars created (in order).
	Produced []*nom.Momentum

	stopped bool
	consLdb *leveldb.DB
}

// Open builds a node on dir (created if needed) with the given genesis and pillar keys.
func Open(name, dir string, gen store.Genesis, pillarKeys []*wallet.KeyPair) *Node {
	Setup()
	n := &Node{Name: name, Dir: dir, Gen: gen, PillarKeys: pillarKeys}
	n.open()
	return n
}

// MockGenesis is the repository's own test genesis.
func MockGenesis() store.Genesis { return genesis.NewGenesis(g.EmbeddedGenesis) }

func (n *Node) open() {
	n.Mgr = db.NewLevelDBManager(n.Dir)
	ch := chain.NewChain(n.Mgr, n.Gen)
	// the consensus cache is persistent, as in the real node (zenon.NewZenon: cfg.NewLevelDB("consensus")):
	// a restart reads election results and points back from disk
	consDB, consLdb := db.NewLevelDB(n.Dir + "-consensus")
	n.consLdb = consLdb
	cs := consensus.NewConsensus(consDB, ch, true)
	n.Chain = ch
	n.Cons = cs
	n.Sup = vm.NewSupervisor(ch, cs)
	n.Ver = verifier.NewVerifier(ch, cs)
	common.DealWithErr(ch.Init())
	common.DealWithErr(cs.Init())
	common.DealWithErr(ch.Start())
	common.DealWithErr(cs.Start())
	n.Bridge = protocol.NewChainBridge(ch, cs, n.Ver, n.Sup)
	n.Pillars = nil
	for _, key := range n.PillarKeys {
		p := pillar.NewPillar(ch, cs, n)
		p.SetCoinBase(key)
		common.DealWithErr(p.Init())
		common.DealWithErr(p.Start())
		n.Pillars = append(n.Pillars, p)
	}
	n.stopped = false
}

// Stop stops all components and closes the database.
func (n *Node) Stop() {
	if n.stopped {
		return
	}
	for _, p := range n.Pillars {
		_ = p.Stop()
	}
	_ = n.Cons.Stop()
	_ = n.Chain.Stop()
	if n.consLdb != nil {
		_ = n.consLdb.Close()
		n.consLdb = nil
	}
	n.stopped = true
}

// Restart stops the node and reopens the same directory with fresh caches.
func (n *Node) Restart() {
	n.Stop()
	n.open()
}

// RestartFresh stops the node, deletes its consensus cache directory and reopens the ledger: the ledger is warm,
// every election and statistic has to be recomputed on demand (an operator deleting the cache, or a first start
// of a newer version on an existing ledger).
func (n *Node) RestartFresh() {
	n.Stop()
	_ = os.RemoveAll(n.Dir + "-consensus")
	n.open()
}

// Destroy stops the node and removes its directory.
func (n *Node) Destroy() {
	n.Stop()
	_ = os.RemoveAll(n.Dir)
	_ = os.RemoveAll(n.Dir + "-consensus")
}

// ---- protocol.Broadcaster (the client boundary of the pillar) ----

func (n *Node) SyncInfo() *protocol.SyncInfo {
	return &protocol.SyncInfo{State: protocol.SyncDone}
}

func (n *Node) CreateMomentum(tx *nom.MomentumTransaction) {
	m := tx.Momentum
	insert := n.Chain.AcquireInsert("simnet create-momentum")
	err := n.Chain.AddMomentumTransaction(insert, tx)
	insert.Unlock()
	n.LastMomentumErr = err
	if err == nil {
		n.Produced = append(n.Produced, m)
	}
	if n.OnMomentum != nil {
		n.OnMomentum(m, err)
	}
}

func (n *Node) CreateAccountBlock(tx *nom.AccountBlockTransaction) {
	block := tx.Block
	changes := tx.Changes
	insert := n.Chain.AcquireInsert("simnet create-account-block")
	err := n.Chain.AddAccountBlockTransaction(insert, tx)
	insert.Unlock()
	n.LastBlockErr = err
	if n.OnBlock != nil {
		n.OnBlock(block, changes, err)
	}
}

// ---- queries ----

func (n *Node) Frontier() *nom.Momentum {
	m, err := n.Chain.GetFrontierMomentumStore().GetFrontierMomentum()
	common.DealWithErr(err)
	return m
}

func (n *Node) Height() uint64 { return n.Frontier().Height }

// Detailed returns the momentum at height with its prefetched account blocks (what a peer would send).
func (n *Node) Detailed(height uint64) *nom.DetailedMomentum {
	st := n.Chain.GetFrontierMomentumStore()
	m, err := st.GetMomentumByHeight(height)
	common.DealWithErr(err)
	if m == nil {
		return nil
	}
	d, err := st.PrefetchMomentum(m)
	common.DealWithErr(err)
	return d
}

// Range returns detailed momentums [from, to].
func (n *Node) Range(from, to uint64) []*nom.DetailedMomentum {
	var l []*nom.DetailedMomentum
	for h := from; h <= to; h++ {
		l = append(l, n.Detailed(h))
	}
	return l
}

// ---- production ----

// NextSlot returns the start time of the (skip+1)-th slot after the frontier momentum.
func (n *Node) NextSlot(skip int) time.Time {
	return n.Frontier().Timestamp.Add(time.Second * 10 * time.Duration(1+skip))
}

// ProducerFor returns the address elected for the slot starting at t.
func (n *Node) ProducerFor(t time.Time) (*types.Address, error) {
	return n.Cons.GetMomentumProducer(t)
}

// ProduceAt asks the elected producer (if this node owns its key) to process
// the slot starting at t: momentum, contract receives, contract updates.
// Returns the new momentum or nil when the node does not own the key or
// nothing was inserted.
func (n *Node) ProduceAt(t time.Time) (*nom.Momentum, error) {
	expected, err := n.Cons.GetMomentumProducer(t)
	if err != nil {
		return nil, err
	}
	before := len(n.Produced)
	for i, p := range n.Pillars {
		if n.PillarKeys[i].Address == *expected {
			n.LastMomentumErr = nil
			task := p.Process(consensus.ProducerEvent{Producer: *expected, StartTime: t, EndTime: t.Add(10 * time.Second)})
			if task != nil {
				task.Wait()
			}
			if len(n.Produced) > before {
				return n.Produced[len(n.Produced)-1], nil
			}
			if n.LastMomentumErr != nil {
				return nil, n.LastMomentumErr
			}
			return nil, fmt.Errorf("pillar produced nothing for slot %v", t.Unix())
		}
	}
	return nil, nil
}

// Produce produces the next slot (after skipping `skip` slots).
func (n *Node) Produce(skip int) (*nom.Momentum, error) {
	return n.ProduceAt(n.NextSlot(skip))
}

// MustProduce produces count consecutive momentums and panics on failure.
func (n *Node) MustProduce(count int) {
	for i := 0; i < count; i++ {
		m, err := n.Produce(0)
		if err != nil || m == nil {
			panic(fmt.Sprintf("simnet: cannot produce momentum on %s at height %d: %v", n.Name, n.Height()+1, err))
		}
	}
}

// ---- user blocks ----

// KeyFor finds one of the mock genesis key pairs by address.
func KeyFor(addr types.Address) *wallet.KeyPair {
	for _, kp := range g.AllKeyPairs {
		if kp.Address == addr {
			return kp
		}
	}
	return nil
}

// Generate builds (and signs) a block from a template with the real supervisor, without inserting it.
func (n *Node) Generate(tpl *nom.AccountBlock, kp *wallet.KeyPair) (tx *nom.AccountBlockTransaction, err error) {
	if n.TemplateHook != nil {
		n.TemplateHook(tpl)
	}
	// GenerateFromTemplate is a local convenience of the wallet side and panics on templates it cannot
	// resolve (unknown acknowledged momentum); that is not an acceptance path, so turn it into an error.
	defer func() {
		if r := recover(); r != nil {
			tx, err = nil, fmt.Errorf("generate panicked: %v", r)
		}
	}()
	return n.Sup.GenerateFromTemplate(tpl, kp.Signer)
}

// Submit generates and inserts a block; returns the block or the error of either step.
func (n *Node) Submit(tpl *nom.AccountBlock, kp *wallet.KeyPair) (*nom.AccountBlock, error) {
	tx, err := n.Generate(tpl, kp)
	if err != nil {
		return nil, err
	}
	n.LastBlockErr = nil
	n.CreateAccountBlock(tx)
	if n.LastBlockErr != nil {
		return nil, n.LastBlockErr
	}
	return tx.Block, nil
}

// Send submits a user send block.
func (n *Node) Send(kp *wallet.KeyPair, to types.Address, zts types.ZenonTokenStandard, amount *big.Int, data []byte) (*nom.AccountBlock, error) {
	return n.Submit(&nom.AccountBlock{
		BlockType: nom.BlockTypeUserSend, Address: kp.Address, ToAddress: to,
		TokenStandard: zts, Amount: amount, Data: data,
	}, kp)
}

// Receive submits a user receive block for a confirmed send.
func (n *Node) Receive(kp *wallet.KeyPair, from types.Hash) (*nom.AccountBlock, error) {
	return n.Submit(&nom.AccountBlock{
		BlockType: nom.BlockTypeUserReceive, Address: kp.Address, FromBlockHash: from,
	}, kp)
}

// ---- sync ----

// InsertChain delivers a batch as a peer would.
func (n *Node) InsertChain(batch []*nom.DetailedMomentum) (idx int, err error) {
	return n.Bridge.InsertChain(batch)
}

// CloneBatch passes a batch through protobuf so the receiver never shares pointers with the sender.
func CloneBatch(batch []*nom.DetailedMomentum) []*nom.DetailedMomentum {
	out := make([]*nom.DetailedMomentum, len(batch))
	for i, d := range batch {
		out[i] = CloneDetailed(d)
	}
	return out
}

func CloneDetailed(d *nom.DetailedMomentum) *nom.DetailedMomentum {
	data, err := d.Momentum.Serialize()
	common.DealWithErr(err)
	m, err := nom.DeserializeMomentum(data)
	common.DealWithErr(err)
	blocks := make([]*nom.AccountBlock, len(d.AccountBlocks))
	for i, b := range d.AccountBlocks {
		blocks[i] = CloneBlock(b)
	}
	return &nom.DetailedMomentum{Momentum: m, AccountBlocks: blocks}
}

func CloneBlock(b *nom.AccountBlock) *nom.AccountBlock {
	data, err := b.Serialize()
	common.DealWithErr(err)
	nb, err := nom.DeserializeAccountBlock(data)
	common.DealWithErr(err)
	return nb
}

// SyncFrom delivers everything `from` has above this node's frontier, in batches of the given size.
func (n *Node) SyncFrom(from *Node, batch int) error {
	if batch <= 0 {
		batch = 64
	}
	for {
		h := n.Height()
		top := from.Height()
		if h >= top {
			return nil
		}
		to := h + uint64(batch)
		if to > top {
			to = top
		}
		if idx, err := n.InsertChain(CloneBatch(from.Range(h+1, to))); err != nil {
			return fmt.Errorf("InsertChain [%d..%d] failed at %d: %w", h+1, to, idx, err)
		}
	}
}

// ---- dumps ----

// DumpDB lists every present key/value of a view (iterator entries with nil value are deletions and skipped).
func DumpDB(d db.DB) map[string]string {
	out := map[string]string{}
	it := d.NewIterator(nil)
	defer it.Release()
	for it.Next() {
		v := it.Value()
		if v == nil {
			continue
		}
		out[hex.EncodeToString(it.Key())] = hex.EncodeToString(v)
	}
	common.DealWithErr(it.Error())
	return out
}

// DumpFrontier is the logical content of the node's frontier store.
func (n *Node) DumpFrontier() map[string]string { return DumpDB(n.Mgr.Frontier()) }

// DiffDumps returns up to max differing keys between two dumps.
func DiffDumps(a, b map[string]string, max int) []string {
	var diffs []string
	for k, va := range a {
		vb, ok := b[k]
		if !ok {
			diffs = append(diffs, fmt.Sprintf("key %s only in first (value %s)", k, trunc(va)))
		} else if va != vb {
			diffs = append(diffs, fmt.Sprintf("key %s differs: %s vs %s", k, trunc(va), trunc(vb)))
		}
		if len(diffs) >= max {
			return diffs
		}
	}
	for k, vb := range b {
		if _, ok := a[k]; !ok {
			diffs = append(diffs, fmt.Sprintf("key %s only in second (value %s)", k, trunc(vb)))
			if len(diffs) >= max {
				return diffs
			}
		}
	}
	return diffs
}

func trunc(s string) string {
	if len(s) > 96 {
		return s[:96] + "…"
	}
	return s
}

// WireBatch passes a batch through RLP exactly as the protocol handler does (encode, decode, EnsureCache).
func WireBatch(batch []*nom.DetailedMomentum) ([]*nom.DetailedMomentum, error) {
	data, err := rlp.EncodeToBytes(batch)
	if err != nil {
		return nil, err
	}
	var out []*nom.DetailedMomentum
	if err := rlp.DecodeBytes(data, &out); err != nil {
		return nil, err
	}
	for _, d := range out {
		d.Momentum.EnsureCache()
	}
	return out, nil
}

// WireBlocks passes account blocks through RLP as the TxMsg handler does.
func WireBlocks(blocks []*nom.AccountBlock) ([]*nom.AccountBlock, error) {
	data, err := rlp.EncodeToBytes(blocks)
	if err != nil {
		return nil, err
	}
	var out []*nom.AccountBlock
	if err := rlp.DecodeBytes(data, &out); err != nil {
		return nil, err
	}
	return out, nil
}

// RawDump opens the LevelDB directory of a STOPPED node and returns every raw key/value (hex).
func RawDump(dir string) (map[string]string, error) {
	ldb, err := leveldb.OpenFile(dir, &opt.Options{ErrorIfMissing: true})
	if err != nil {
		return nil, err
	}
	defer ldb.Close()
	out := map[string]string{}
	it := ldb.NewIterator(nil, nil)
	defer it.Release()
	for it.Next() {
		out[hex.EncodeToString(it.Key())] = hex.EncodeToString(it.Value())
	}
	return out, it.Error()
}
