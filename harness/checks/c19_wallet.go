package checks

// C19 — wallet key files: exact round-trip, tamper-evident, deterministic derivation.
//
// The real code of /repo/wallet is driven through its exported surface only
// (KeyStore.Encrypt, KeyFile.Write, ReadKeyFile, KeyFile.Decrypt, Manager,
// KeyStore.DeriveForIndexPath / DeriveForFullPath / FindAddress, DeriveForPath,
// DeriveWithIndex, KeyPair.Sign / Signer, VerifySignature).
//
// Oracle (shares no code with package wallet):
//   - BIP-39 mnemonic: entropy bits || first ENT/32 bits of SHA-256(entropy), cut in
//     11-bit groups, looked up in the English word list (data only);
//   - BIP-39 seed: hand-written PBKDF2-HMAC-SHA512, 2048 iterations, salt "mnemonic";
//   - SLIP-0010 ed25519: HMAC-SHA512("ed25519 seed", seed), then for every hardened
//     index HMAC-SHA512(chain, 0x00 || key || be32(index));
//   - key pair: crypto/ed25519.NewKeyFromSeed; address: 0x00 || SHA3-256(pub)[:19];
//   - paths: an own parser (m, then one or more "/<decimal>'" with value < 2^31).
// The oracle is checked against the published SLIP-0010 / BIP-39 vectors before use.
//
// A key store can only be made from an entropy by decrypting a key file
// (keyStoreFromEntropy is unexported), so every key store is bootstrapped by
// KeyStore{Entropy}.Encrypt -> Decrypt, which is itself a monitored round trip.

import (
	"bytes"
	"crypto/ed25519"
	"crypto/hmac"
	"crypto/sha256"
	"crypto/sha512"
	"encoding/base64"
	"encoding/binary"
	"encoding/hex"
	"encoding/json"
	"errors"
	"fmt"
	"io"
	"math/big"
	"math/rand"
	"os"
	"os/exec"
	"path/filepath"
	"regexp"
	"strconv"
	"strings"
	"sync"
	"time"

	"github.com/btcsuite/btcd/btcutil/bech32"
	"github.com/inconshreveable/log15"
	"github.com/tyler-smith/go-bip39/wordlists"
	"golang.org/x/crypto/sha3"

	"github.com/zenon-network/go-zenon/common"
	"github.com/zenon-network/go-zenon/common/types"
	"github.com/zenon-network/go-zenon/wallet"

	"verif/harness/fw"
)

const c19FreshEnv = "VERIF_C19_FRESH_PROCESS_REQUEST"

func init() {
	// A "det" case re-executes the runner binary with this variable set: the fresh
	// process evaluates the wallet code on the request and prints the results.
	if p := os.Getenv(c19FreshEnv); p != "" {
		os.Exit(c19FreshMain(p))
	}
	fw.Register(&fw.Check{
		ID:    "C19",
		Level: "exploration",
		Rule: "cases are PRNG-generated (entropy size 16/20/24/28/32, password class empty/ascii/unicode/10KiB/whitespace/binary) key files made by the real Encrypt, then: " +
			"rt = write/read/decrypt round trip + wrong-password variants + wallet.Manager; flip = single-bit flips of cipherData/nonce/salt (positions partitioned over cases: thorough covers every bit of every field for every size several times, quick a seeded sample); " +
			"trunc = length changes and cross-file swaps of the three fields; text/textflip = corruptions of the JSON text judged with an own decoder; der = indices {0,1,127,128,2^31-1,random}, indices >= 2^31, valid hardened paths, malformed / non-hardened / overflowing paths, raw seeds, signatures; " +
			"det = the same inputs evaluated twice and in a freshly executed process; size = illegal entropy sizes. " +
			"distinct_nontrivial counts distinct (case kind, entropy size or path class, field/bit-in-byte or password class/variant or corruption kind, observed outcome class) tuples",
		Cases:       c19Cases,
		Run:         c19Run,
		MinDistinct: 60,
		Assumptions: []string{
			"salt and nonce of a key file come from crypto/rand inside the wallet code, so the bytes of a generated key file differ between runs; inputs, flipped positions and corruption kinds are seed-determined and every witness carries the whole file and password",
			"golang.org/x/crypto (argon2, sha3), crypto/ed25519, crypto/aes and the BIP-39 English word list are trusted primitives/data; the oracle is validated against the SLIP-0010 and BIP-39 published vectors at start-up",
			"a panic of Decrypt on a tampered file (Go's GCM panics on a nonce whose length is not 12) never yields a key store and is counted as 'does not decrypt' (DESIGN C19 S-note); it is reported in counters/sets",
			"for corruptions of the file text the verdict uses the statement only: a file that is refused or does not decrypt is fine; a file that still decrypts must yield the original entropy and must carry unchanged cipherData/nonce/salt (as parsed by the wallet and as parsed by an own decoder)",
			"illegal entropy sizes (not 16/20/24/28/32 bytes) must not yield a key store (DESIGN C19 W); paths with leading zeros or 'h' markers are unspecified: if accepted they must derive the key of the numerically equal hardened path",
			"ed25519 signatures are only required to verify (byte equality with an independent signer is counted, not demanded)",
		},
	})
}

var c19Sizes = []int{16, 20, 24, 28, 32}

const (
	c19FlipParts     = 16 // partition of the bit positions of one key file over flip cases
	c19TextFlipParts = 32
)

func c19Cases(tier string, seed int64) []string {
	r := rand.New(rand.NewSource(fw.SeedFor(seed, "c19-cases")))
	var l []string
	nRT, nFlipParts, nFlipReps, nTrunc, nText, nDer, nDet, nSize := 60, 8, 1, 10, 30, 30, 8, 3
	textFlipFiles, textFlipPartsUsed := 2, 3
	if tier == "thorough" {
		nRT, nFlipParts, nFlipReps, nTrunc, nText, nDer, nDet, nSize = 600, c19FlipParts, 10, 40, 250, 300, 40, 10
		textFlipFiles, textFlipPartsUsed = 2, c19TextFlipParts
	}
	for i := 0; i < nRT; i++ {
		l = append(l, fmt.Sprintf("rt:%d", i))
	}
	for rep := 0; rep < nFlipReps; rep++ {
		for _, size := range c19Sizes {
			parts := r.Perm(c19FlipParts)[:nFlipParts]
			for _, p := range parts {
				l = append(l, fmt.Sprintf("flip:%d:%d:%d", size, p, rep))
			}
		}
	}
	for i := 0; i < nTrunc; i++ {
		l = append(l, fmt.Sprintf("trunc:%d", i))
	}
	for i := 0; i < nText; i++ {
		l = append(l, fmt.Sprintf("text:%d", i))
	}
	for f := 0; f < textFlipFiles; f++ {
		parts := r.Perm(c19TextFlipParts)[:textFlipPartsUsed]
		for _, p := range parts {
			l = append(l, fmt.Sprintf("textflip:%d:%d", []int{16, 32}[f%2], p))
		}
	}
	for i := 0; i < nDer; i++ {
		l = append(l, fmt.Sprintf("der:%d", i))
	}
	for i := 0; i < nDet; i++ {
		l = append(l, fmt.Sprintf("det:%d", i))
	}
	for i := 0; i < nSize; i++ {
		l = append(l, fmt.Sprintf("size:%d", i))
	}
	// heavy and light cases are mixed so that the round-robin shards finish together
	r.Shuffle(len(l), func(i, j int) { l[i], l[j] = l[j], l[i] })
	return l
}

var c19Once sync.Once
var c19SelfTestErr error

func c19Run(c *fw.C, caseID string) {
	c19Once.Do(func() {
		common.WalletLogger.SetHandler(log15.DiscardHandler())
		c19SelfTestErr = c19OracleSelfTest()
	})
	if c19SelfTestErr != nil {
		c.Inconclusive("oracle self-test failed: " + c19SelfTestErr.Error())
		return
	}
	parts := strings.Split(caseID, ":")
	num := func(i int) int {
		if i >= len(parts) {
			return 0
		}
		n, _ := strconv.Atoi(parts[i])
		return n
	}
	// a panic that escapes a case runner (i.e. outside the guarded calls on tampered input) refutes the round trip
	defer func() {
		if rec := recover(); rec != nil {
			c.Violation("panic-in-wallet-call "+parts[0], map[string]interface{}{"panic": fmt.Sprint(rec)})
		}
	}()
	switch parts[0] {
	case "rt":
		c19RunRoundTrip(c, caseID, num(1))
	case "flip":
		c19RunFlip(c, caseID, num(1), num(2), num(3))
	case "trunc":
		c19RunTrunc(c, caseID, num(1))
	case "text":
		c19RunText(c, caseID, num(1))
	case "textflip":
		c19RunTextFlip(c, caseID, num(1), num(2))
	case "der":
		c19RunDer(c, caseID, num(1))
	case "det":
		c19RunDet(c, caseID, num(1))
	case "size":
		c19RunSize(c, caseID, num(1))
	default:
		c.Inconclusive("unknown case kind")
	}
}

// ---------------------------------------------------------------------------
// oracle

func c19OracleMnemonic(entropy []byte) (string, error) {
	n := len(entropy)
	if n < 16 || n > 32 || n%4 != 0 {
		return "", fmt.Errorf("entropy of %d bytes is not one of 16/20/24/28/32", n)
	}
	if len(wordlists.English) != 2048 {
		return "", fmt.Errorf("word list has %d entries", len(wordlists.English))
	}
	sum := sha256.Sum256(entropy)
	var bits []byte
	for _, b := range entropy {
		for i := 7; i >= 0; i-- {
			bits = append(bits, (b>>uint(i))&1)
		}
	}
	for i := 0; i < n*8/32; i++ {
		bits = append(bits, (sum[i/8]>>uint(7-i%8))&1)
	}
	var words []string
	for i := 0; i+11 <= len(bits); i += 11 {
		idx := 0
		for j := 0; j < 11; j++ {
			idx = idx<<1 | int(bits[i+j])
		}
		words = append(words, wordlists.English[idx])
	}
	return strings.Join(words, " "), nil
}

// PBKDF2 (RFC 8018) with HMAC-SHA512 for a 64-byte key, i.e. exactly one block
func c19OracleSeed(mnemonic string) []byte {
	mac := hmac.New(sha512.New, []byte(mnemonic))
	mac.Write([]byte("mnemonic"))
	mac.Write([]byte{0, 0, 0, 1})
	u := mac.Sum(nil)
	t := append([]byte{}, u...)
	for i := 1; i < 2048; i++ {
		mac.Reset()
		mac.Write(u)
		u = mac.Sum(nil)
		for j := range t {
			t[j] ^= u[j]
		}
	}
	return t
}

// c19OracleSlip10 walks hardened indices given WITHOUT the 2^31 offset (each < 2^31)
func c19OracleSlip10(seed []byte, indices []uint32) []byte {
	mac := hmac.New(sha512.New, []byte("ed25519 seed"))
	mac.Write(seed)
	i64 := mac.Sum(nil)
	k, cc := i64[:32], i64[32:]
	for _, idx := range indices {
		var ib [4]byte
		binary.BigEndian.PutUint32(ib[:], idx|0x80000000)
		m := hmac.New(sha512.New, cc)
		m.Write([]byte{0})
		m.Write(k)
		m.Write(ib[:])
		i64 = m.Sum(nil)
		k, cc = i64[:32], i64[32:]
	}
	return k
}

func c19OracleAddress(pub []byte) []byte {
	h := sha3.Sum256(pub)
	return append([]byte{0}, h[:19]...)
}

type c19OKey struct {
	priv ed25519.PrivateKey
	pub  ed25519.PublicKey
	addr []byte
}

func c19OracleKey(seed []byte, indices []uint32) c19OKey {
	priv := ed25519.NewKeyFromSeed(c19OracleSlip10(seed, indices))
	pub := priv.Public().(ed25519.PublicKey)
	return c19OKey{priv: priv, pub: pub, addr: c19OracleAddress(pub)}
}

func c19AccountPath(i uint32) []uint32 { return []uint32{44, 73404, i} }

// c19ParsePath is the oracle's path grammar. class: "valid" (indices returned),
// "unspecified" (leading zeros; indices returned) or a refusal reason.
func c19ParsePath(p string) (indices []uint32, class string) {
	if len(p) == 0 || p[0] != 'm' {
		return nil, "malformed"
	}
	rest := p[1:]
	if rest == "" {
		return nil, "malformed" // the master key itself is not a derivation path with segments
	}
	class = "valid"
	for len(rest) > 0 {
		if rest[0] != '/' {
			return nil, "malformed"
		}
		rest = rest[1:]
		j := 0
		for j < len(rest) && rest[j] >= '0' && rest[j] <= '9' {
			j++
		}
		if j == 0 {
			return nil, "malformed"
		}
		digits := rest[:j]
		rest = rest[j:]
		if len(rest) == 0 || rest[0] != '\'' {
			if len(rest) == 0 || rest[0] == '/' {
				return nil, "non-hardened"
			}
			return nil, "malformed"
		}
		rest = rest[1:]
		v, _ := new(big.Int).SetString(digits, 10)
		if v.Cmp(big.NewInt(1<<31)) >= 0 {
			return nil, "index-overflow"
		}
		if len(digits) > 1 && digits[0] == '0' {
			class = "unspecified"
		}
		indices = append(indices, uint32(v.Uint64()))
	}
	return indices, class
}

func c19Hex(s string) []byte {
	b, err := hex.DecodeString(s)
	if err != nil {
		panic(err)
	}
	return b
}

// published vectors: SLIP-0010 test vector 1 for ed25519, BIP-39 (Trezor) vectors
func c19OracleSelfTest() error {
	seed := c19Hex("000102030405060708090a0b0c0d0e0f")
	vec := []struct {
		idx       []uint32
		priv, pub string
	}{
		{nil, "2b4be7f19ee27bbf30c667b642d5f4aa69fd169872f8fc3059c08ebae2eb19e7", "a4b2856bfec510abab89753fac1ac0e1112364e7d250545963f135f2a33188ed"},
		{[]uint32{0}, "68e0fe46dfb67e368c75379acec591dad19df3cde26e63b93a8e704f1dade7a3", "8c8a13df77a28f3445213a0f432fde644acaa215fc72dcdf300d5efaa85d350c"},
		{[]uint32{0, 1, 2, 2, 1000000000}, "8f94d394a8e8fd6b1bc2f3f49f5c47e385281d5c17e65324b0f62483e37e8793", "3c24da049451555d51a7014a37337aa4e12d41e485abccfa46b47dfb2af54b7a"},
	}
	for _, v := range vec {
		k := c19OracleSlip10(seed, v.idx)
		if hex.EncodeToString(k) != v.priv {
			return fmt.Errorf("SLIP-0010 vector %v: private key %x", v.idx, k)
		}
		pub := ed25519.NewKeyFromSeed(k).Public().(ed25519.PublicKey)
		if hex.EncodeToString(pub) != v.pub {
			return fmt.Errorf("SLIP-0010 vector %v: public key %x", v.idx, pub)
		}
	}
	mn, err := c19OracleMnemonic(make([]byte, 16))
	if err != nil || mn != "abandon abandon abandon abandon abandon abandon abandon abandon abandon abandon abandon about" {
		return fmt.Errorf("BIP-39 vector 0: %q %v", mn, err)
	}
	if s := hex.EncodeToString(c19OracleSeed(mn)); s != "5eb00bbddcf069084889a8ab9155568165f5c453ccb85e70811aaed6f6da5fc19a5ac40b389cd370d086206dec8aa6c43daea6690f20ad3d8d48b2d2ce9e38e4" {
		return fmt.Errorf("BIP-39 seed vector: %s", s)
	}
	mn, _ = c19OracleMnemonic(bytes.Repeat([]byte{0xff}, 32))
	if mn != "zoo zoo zoo zoo zoo zoo zoo zoo zoo zoo zoo zoo zoo zoo zoo zoo zoo zoo zoo zoo zoo zoo zoo vote" {
		return fmt.Errorf("BIP-39 vector ff*32: %q", mn)
	}
	mn, _ = c19OracleMnemonic(bytes.Repeat([]byte{0x80}, 24))
	if mn != "letter advice cage absurd amount doctor acoustic avoid letter advice cage absurd amount doctor acoustic avoid letter always" {
		return fmt.Errorf("BIP-39 vector 80*24: %q", mn)
	}
	return nil
}

// ---------------------------------------------------------------------------
// inputs

var c19PwClasses = []string{"empty", "ascii", "unicode", "10KiB", "whitespace", "binary"}

var c19Runes = []rune{0xe9, 0xdf, 0x3a9, 0x436, 0x4e2d, 0x6587, 0x1f511, 0x627, 0x301, 0x200b, 0x130, 0xf1, 0xa0, 0x1d518}

func c19Password(r *rand.Rand, class string) string {
	ascii := func(n int) string {
		b := make([]byte, n)
		for i := range b {
			b[i] = byte(0x21 + r.Intn(0x7e-0x21))
		}
		return string(b)
	}
	switch class {
	case "empty":
		return ""
	case "ascii":
		return ascii(1 + r.Intn(40))
	case "unicode":
		s := "\u00e9"
		for i, n := 0, 2+r.Intn(14); i < n; i++ {
			if r.Intn(4) == 0 {
				s += ascii(1)
			} else {
				s += string(c19Runes[r.Intn(len(c19Runes))])
			}
		}
		return s
	case "10KiB":
		var sb strings.Builder
		for sb.Len() < 10240-8 {
			if r.Intn(16) == 0 {
				sb.WriteRune(c19Runes[r.Intn(len(c19Runes))])
			} else {
				sb.WriteString(ascii(1))
			}
		}
		for sb.Len() < 10240 {
			sb.WriteString(ascii(1))
		}
		return sb.String()
	case "whitespace":
		return []string{" ", "\t\n", "pass word ", " lead", "a\x00b", "\x00", "trail\n", "\r\n"}[r.Intn(8)]
	default: // binary: not valid UTF-8
		b := make([]byte, 1+r.Intn(24))
		r.Read(b)
		b[0] = 0xff
		return string(b)
	}
}

type c19PwVariant struct{ name, pw string }

// c19WrongPasswords: every variant differs from pw as a byte string
func c19WrongPasswords(r *rand.Rand, pw string) []c19PwVariant {
	var l []c19PwVariant
	add := func(name, s string) {
		if s != pw {
			l = append(l, c19PwVariant{name, s})
		}
	}
	add("append-x", pw+"x")
	add("append-nul", pw+"\x00")
	add("append-space", pw+" ")
	add("prepend-space", " "+pw)
	add("doubled", pw+pw)
	add("empty", "")
	add("other", "correct horse battery staple")
	if len(pw) > 0 {
		add("drop-last-byte", pw[:len(pw)-1])
		add("drop-first-byte", pw[1:])
		b := []byte(pw)
		b[len(b)-1] ^= 1
		add("flip-bit-last-byte", string(b))
		b = []byte(pw)
		b[0] ^= 0x80
		add("flip-bit-first-byte", string(b))
		b = []byte(pw)
		b[r.Intn(len(b))] ^= 1 << uint(r.Intn(8))
		add("flip-bit-random", string(b))
		add("upper", strings.ToUpper(pw))
		add("lower", strings.ToLower(pw))
		add("trim-space", strings.TrimSpace(pw))
	}
	if strings.Contains(pw, "\u00e9") {
		add("nfd-instead-of-nfc", strings.Replace(pw, "\u00e9", "e\u0301", 1))
	}
	for _, n := range []int{8, 32, 64, 72, 128, 1024} {
		if len(pw) > n {
			add(fmt.Sprintf("same-first-%d-bytes", n), pw[:n]+strings.Repeat("#", len(pw)-n))
			add(fmt.Sprintf("truncated-to-%d-bytes", n), pw[:n])
		}
	}
	return l
}

func c19Entropy(r *rand.Rand, n int) []byte {
	b := make([]byte, n)
	switch r.Intn(10) {
	case 0: // all zero
	case 1:
		for i := range b {
			b[i] = 0xff
		}
	default:
		r.Read(b)
	}
	return b
}

// ---------------------------------------------------------------------------
// guarded calls into the wallet

type c19Dec struct {
	ks       *wallet.KeyStore
	err      error
	panicMsg string
}

func (d c19Dec) ok() bool { return d.panicMsg == "" && d.err == nil && d.ks != nil }
func (d c19Dec) class() string {
	switch {
	case d.panicMsg != "":
		return "panic: " + d.panicMsg
	case d.err != nil:
		return "error: " + d.err.Error()
	case d.ks == nil:
		return "nil key store, nil error"
	}
	return "ok"
}

func c19Decrypt(kf *wallet.KeyFile, pw string) (d c19Dec) {
	defer func() {
		if rec := recover(); rec != nil {
			d = c19Dec{panicMsg: fmt.Sprint(rec)}
		}
	}()
	ks, err := kf.Decrypt(pw)
	return c19Dec{ks: ks, err: err}
}

func c19Read(path string) (kf *wallet.KeyFile, err error, panicMsg string) {
	defer func() {
		if rec := recover(); rec != nil {
			kf, err, panicMsg = nil, nil, fmt.Sprint(rec)
		}
	}()
	kf, err = wallet.ReadKeyFile(path)
	return kf, err, ""
}

func c19Clone(kf *wallet.KeyFile) *wallet.KeyFile {
	cp := *kf
	cp.Crypto.CipherData = append(cp.Crypto.CipherData[:0:0], kf.Crypto.CipherData...)
	cp.Crypto.AesNonce = append(cp.Crypto.AesNonce[:0:0], kf.Crypto.AesNonce...)
	cp.Crypto.Argon2Params.Salt = append(cp.Crypto.Argon2Params.Salt[:0:0], kf.Crypto.Argon2Params.Salt...)
	return &cp
}

func c19SameFields(a, b *wallet.KeyFile) bool {
	return bytes.Equal(a.Crypto.CipherData, b.Crypto.CipherData) && bytes.Equal(a.Crypto.AesNonce, b.Crypto.AesNonce) &&
		bytes.Equal(a.Crypto.Argon2Params.Salt, b.Crypto.Argon2Params.Salt)
}

func c19PwJSON(pw string) map[string]interface{} {
	m := map[string]interface{}{"len": len(pw), "base64": base64.StdEncoding.EncodeToString([]byte(pw))}
	if len(pw) <= 64 {
		m["quoted"] = strconv.Quote(pw)
	} else {
		m["base64"] = base64.StdEncoding.EncodeToString([]byte(pw[:48])) + "...(truncated; regenerate from case+seed)"
	}
	return m
}

func c19Witness(kf *wallet.KeyFile, pw string, entropy []byte, extra map[string]interface{}) map[string]interface{} {
	w := map[string]interface{}{"entropy": hex.EncodeToString(entropy), "password": c19PwJSON(pw)}
	if kf != nil {
		if data, err := json.Marshal(kf); err == nil {
			w["key_file"] = json.RawMessage(data)
		}
	}
	for k, v := range extra {
		w[k] = v
	}
	return w
}

// c19NewFile makes a key file from an entropy with the real Encrypt (the base address is whatever the caller's
// key store carries; a bare KeyStore{Entropy} has the zero address).
func c19NewFile(c *fw.C, entropy []byte, pw string) *wallet.KeyFile {
	kf, err := (&wallet.KeyStore{Entropy: append([]byte{}, entropy...)}).Encrypt(pw)
	if err != nil || kf == nil {
		c.Violation("encrypt-failed", c19Witness(nil, pw, entropy, map[string]interface{}{"error": fmt.Sprint(err)}))
		return nil
	}
	return kf
}

// c19Bootstrap: entropy -> key file -> Decrypt -> key store built by the wallet (keyStoreFromEntropy).
func c19Bootstrap(c *fw.C, entropy []byte, pw string) *wallet.KeyStore {
	kf := c19NewFile(c, entropy, pw)
	if kf == nil {
		return nil
	}
	d := c19Decrypt(kf, pw)
	c.Eval(1)
	if !d.ok() {
		c.Violation("roundtrip-decrypt-failed", c19Witness(kf, pw, entropy, map[string]interface{}{"outcome": d.class(), "path": "in-memory key file straight from Encrypt"}))
		return nil
	}
	if !c19CheckStore(c, d.ks, entropy, "bootstrap", kf, pw) {
		return nil
	}
	return d.ks
}

// c19CheckStore compares entropy, mnemonic, seed and base address of a decrypted key store with the oracle.
func c19CheckStore(c *fw.C, ks *wallet.KeyStore, entropy []byte, where string, kf *wallet.KeyFile, pw string) bool {
	c.Eval(1)
	if !bytes.Equal(ks.Entropy, entropy) {
		c.Violation("roundtrip-entropy-mismatch", c19Witness(kf, pw, entropy, map[string]interface{}{"where": where, "decrypted_entropy": hex.EncodeToString(ks.Entropy)}))
		return false
	}
	mn, err := c19OracleMnemonic(entropy)
	if err != nil {
		c.Violation("illegal-entropy-size-accepted", c19Witness(kf, pw, entropy, map[string]interface{}{"where": where, "mnemonic": ks.Mnemonic}))
		return false
	}
	if ks.Mnemonic != mn {
		c.Violation("mnemonic-mismatch", c19Witness(kf, pw, entropy, map[string]interface{}{"where": where, "wallet": ks.Mnemonic, "oracle": mn}))
		return false
	}
	seed := c19OracleSeed(mn)
	if !bytes.Equal(ks.Seed, seed) {
		c.Violation("seed-mismatch", c19Witness(kf, pw, entropy, map[string]interface{}{"where": where, "wallet": hex.EncodeToString(ks.Seed), "oracle": hex.EncodeToString(seed)}))
		return false
	}
	k0 := c19OracleKey(seed, c19AccountPath(0))
	if !bytes.Equal(ks.BaseAddress.Bytes(), k0.addr) {
		c.Violation("base-address-not-index-0", c19Witness(kf, pw, entropy, map[string]interface{}{"where": where, "wallet_base": ks.BaseAddress.String(), "oracle_index0": hex.EncodeToString(k0.addr)}))
		return false
	}
	return true
}

// c19CheckKey compares a derived key pair with the oracle's key for the same path.
func c19CheckKey(c *fw.C, kp *wallet.KeyPair, want c19OKey, how string, detail map[string]interface{}) bool {
	c.Eval(1)
	bad := ""
	switch {
	case kp == nil:
		bad = "nil key pair without error"
	case !bytes.Equal(kp.Public, want.pub):
		bad = "public key"
	case !bytes.Equal(kp.Private, want.priv):
		bad = "private key"
	case !bytes.Equal(kp.Address.Bytes(), want.addr):
		bad = "address"
	case !bytes.Equal(c19OracleAddress(kp.Public), kp.Address.Bytes()):
		bad = "address is not 0x00||sha3-256(pub)[:19] of its own public key"
	case types.PubKeyToAddress(kp.Public) != kp.Address:
		bad = "PubKeyToAddress(public) differs from the key pair's address"
	}
	if bad == "" {
		return true
	}
	d := map[string]interface{}{"differs": bad, "how": how, "oracle_pub": hex.EncodeToString(want.pub), "oracle_address": hex.EncodeToString(want.addr)}
	if kp != nil {
		d["wallet_pub"] = hex.EncodeToString(kp.Public)
		d["wallet_address"] = hex.EncodeToString(kp.Address.Bytes())
	}
	for k, v := range detail {
		d[k] = v
	}
	c.Violation("derived-key-mismatch "+how, d)
	return false
}

// c19CheckSig: a signature verifies under its own key (wallet verifier and crypto/ed25519 with the oracle's key)
// and under nothing else.
func c19CheckSig(c *fw.C, r *rand.Rand, kp *wallet.KeyPair, want c19OKey, other ed25519.PublicKey, tag string) {
	msg := make([]byte, r.Intn(200))
	r.Read(msg)
	sig := kp.Sign(msg)
	fail := func(what string) {
		c.Violation("signature-"+what, map[string]interface{}{"tag": tag, "message": hex.EncodeToString(msg), "signature": hex.EncodeToString(sig),
			"pub": hex.EncodeToString(kp.Public), "other_pub": hex.EncodeToString(other)})
	}
	c.Eval(5)
	if ok, err := wallet.VerifySignature(kp.Public, msg, sig); !ok || err != nil {
		fail("rejected-under-own-key")
		return
	}
	if !ed25519.Verify(want.pub, msg, sig) {
		fail("rejected-by-independent-verifier")
		return
	}
	if ok, _ := wallet.VerifySignature(other, msg, sig); ok {
		fail("accepted-under-other-key")
	}
	msg2 := append(append([]byte{}, msg...), 0)
	if ok, _ := wallet.VerifySignature(kp.Public, msg2, sig); ok {
		fail("accepted-for-other-message")
	}
	sig2 := append([]byte{}, sig...)
	sig2[r.Intn(len(sig2))] ^= 1 << uint(r.Intn(8))
	if ok, _ := wallet.VerifySignature(kp.Public, msg, sig2); ok {
		fail("accepted-after-bitflip")
	}
	if ok, err := wallet.VerifySignature(kp.Public[:31], msg, sig); ok || err == nil {
		fail("short-public-key-accepted")
	}
	s2, addr, pub, err := kp.Signer(msg)
	if err != nil || addr == nil || *addr != kp.Address || !bytes.Equal(pub, kp.Public) || !ed25519.Verify(want.pub, msg, s2) {
		fail("signer-inconsistent")
	}
	if bytes.Equal(sig, ed25519.Sign(want.priv, msg)) {
		c.Count("signatures_byte_equal_to_independent_signer", 1)
	}
	// a sequence of messages through ONE key pair, the way callers really do it: the same message again, a message
	// written into the buffer of the previous one, a sub-slice of it, an empty message in between, Sign and Signer mixed —
	// every signature must verify for the bytes that were in the buffer when it was made
	buf := make([]byte, 64+r.Intn(64))
	for round := 0; round < 6; round++ {
		var m []byte
		switch r.Intn(5) {
		case 0: // same content again
			m = buf
		case 1: // overwritten in place
			r.Read(buf)
			m = buf
		case 2: // one byte changed in place
			buf[r.Intn(len(buf))] ^= 0x55
			m = buf
		case 3: // a prefix of the same backing array
			r.Read(buf)
			m = buf[:r.Intn(len(buf))]
		default:
			m = []byte{}
		}
		snapshot := append([]byte{}, m...)
		var sg []byte
		if r.Intn(2) == 0 {
			sg = kp.Sign(m)
		} else {
			sg, _, _, _ = kp.Signer(m)
		}
		c.Eval(1)
		if !bytes.Equal(snapshot, m) {
			fail("sign-modified-the-message")
			return
		}
		if !ed25519.Verify(want.pub, snapshot, sg) {
			c.Violation("signature-rejected-by-independent-verifier reused-buffer", map[string]interface{}{"tag": tag, "round": round, "message": hex.EncodeToString(snapshot), "signature": hex.EncodeToString(sg), "pub": hex.EncodeToString(kp.Public)})
			return
		}
		if ok, err := wallet.VerifySignature(kp.Public, snapshot, sg); !ok || err != nil {
			fail("rejected-under-own-key")
			return
		}
	}
	c.Count("signatures_checked", 1)
	c.Distinct("sig/" + tag + "/verifies-own-only")
}

func c19ErrClass(err error) string {
	if err == nil {
		return "nil"
	}
	s := err.Error()
	if len(s) > 90 {
		s = s[:90]
	}
	return s
}

// ---------------------------------------------------------------------------
// rt: round trip, wrong passwords, manager

func c19RunRoundTrip(c *fw.C, caseID string, i int) {
	r := c.Rand(caseID)
	size := c19Sizes[i%len(c19Sizes)]
	pwClass := c19PwClasses[(i/len(c19Sizes))%len(c19PwClasses)]
	entropy := c19Entropy(r, size)
	pw := c19Password(r, pwClass)
	ks := c19Bootstrap(c, entropy, pw)
	if ks == nil {
		return
	}
	mn, _ := c19OracleMnemonic(entropy)
	k0 := c19OracleKey(c19OracleSeed(mn), c19AccountPath(0))

	// the file a user gets: made from the wallet-built key store
	kf, err := ks.Encrypt(pw)
	if err != nil || kf == nil {
		c.Violation("encrypt-failed", c19Witness(nil, pw, entropy, map[string]interface{}{"error": fmt.Sprint(err)}))
		return
	}
	c.Eval(1)
	if !bytes.Equal(kf.BaseAddress.Bytes(), k0.addr) {
		c.Violation("file-base-address-not-index-0", c19Witness(kf, pw, entropy, map[string]interface{}{"oracle_index0": hex.EncodeToString(k0.addr)}))
		return
	}
	c.SetAdd("field_lengths", fmt.Sprintf("entropy=%d cipherData=%d nonce=%d salt=%d", size, len(kf.Crypto.CipherData), len(kf.Crypto.AesNonce), len(kf.Crypto.Argon2Params.Salt)))
	if bytes.Contains(kf.Crypto.CipherData, entropy) {
		c.Count("ciphertext_contains_plain_entropy", 1)
	}
	dir := c.ScratchDir("c19rt")
	defer os.RemoveAll(dir)
	kf.Path = filepath.Join(dir, "kf.json")
	if err := kf.Write(); err != nil {
		c.Inconclusive("cannot write key file: " + err.Error())
		return
	}
	text, _ := os.ReadFile(kf.Path)
	// what is on disk, seen without the wallet's decoder
	c.Eval(1)
	tf, terr := c19TextFields(text)
	if terr != nil || !bytes.Equal(tf.ct, kf.Crypto.CipherData) || !bytes.Equal(tf.nonce, kf.Crypto.AesNonce) || !bytes.Equal(tf.salt, kf.Crypto.Argon2Params.Salt) {
		c.Violation("file-text-does-not-carry-fields", c19Witness(kf, pw, entropy, map[string]interface{}{"text": string(text), "own_decoder_error": fmt.Sprint(terr)}))
		return
	}
	if addr, err := c19TextBaseAddress(text); err != nil || !bytes.Equal(addr, k0.addr) {
		c.Violation("file-base-address-not-index-0", c19Witness(kf, pw, entropy, map[string]interface{}{"text": string(text), "decoded_from_text": hex.EncodeToString(addr), "decode_error": fmt.Sprint(err), "oracle_index0": hex.EncodeToString(k0.addr)}))
		return
	}
	rd, err, pmsg := c19Read(kf.Path)
	c.Eval(1)
	if err != nil || pmsg != "" || rd == nil {
		c.Violation("roundtrip-read-failed", c19Witness(kf, pw, entropy, map[string]interface{}{"error": fmt.Sprint(err), "panic": pmsg, "text": string(text)}))
		return
	}
	if !c19SameFields(rd, kf) || rd.BaseAddress != kf.BaseAddress {
		c.Violation("roundtrip-read-changed-fields", c19Witness(kf, pw, entropy, map[string]interface{}{"text": string(text)}))
		return
	}
	d := c19Decrypt(rd, pw)
	c.Eval(1)
	if !d.ok() {
		c.Violation("roundtrip-decrypt-failed", c19Witness(rd, pw, entropy, map[string]interface{}{"outcome": d.class(), "path": "Encrypt -> Write -> ReadKeyFile -> Decrypt"}))
		return
	}
	if !c19CheckStore(c, d.ks, entropy, "after write/read", rd, pw) {
		return
	}
	c.Distinct(fmt.Sprintf("rt/size=%d/pw=%s/exact", size, pwClass))
	c.Count("roundtrips_exact", 1)

	// one key store, several files (second backup, changed password): the store a caller hands to Encrypt lives in the
	// caller's memory — an entropy slice with spare capacity behind it, inside a larger buffer — and every file made
	// from it must decrypt to the entropy the store was created from.
	if !c19EncryptAgain(c, r, ks, entropy, pw, size, i) {
		return
	}

	// wrong passwords
	vars := c19WrongPasswords(r, pw)
	r.Shuffle(len(vars), func(a, b int) { vars[a], vars[b] = vars[b], vars[a] })
	n := 4
	if c.Thorough() {
		n = 6
	}
	// always: the last byte differs; for long passwords the variant that shares the longest prefix (and its truncation)
	var pick []c19PwVariant
	take := func(name string) {
		for _, v := range vars {
			if v.name == name && len(pick) < n {
				pick = append(pick, v)
			}
		}
	}
	take("flip-bit-last-byte")
	for _, k := range []int{1024, 128, 72, 64, 32, 8} {
		if len(pw) > k {
			take(fmt.Sprintf("same-first-%d-bytes", k))
			if c.Thorough() || r.Intn(2) == 0 {
				take(fmt.Sprintf("truncated-to-%d-bytes", k))
			}
			break
		}
	}
	for _, v := range vars {
		if len(pick) >= n {
			break
		}
		dup := false
		for _, p := range pick {
			dup = dup || p.name == v.name
		}
		if !dup {
			pick = append(pick, v)
		}
	}
	for _, v := range pick {
		dw := c19Decrypt(rd, v.pw)
		c.Eval(1)
		if dw.ok() {
			c.Violation("decrypt-succeeded-with-wrong-password "+c19VariantClass(v.name), c19Witness(rd, pw, entropy, map[string]interface{}{"variant": v.name, "wrong_password": c19PwJSON(v.pw),
				"decrypted_entropy": hex.EncodeToString(dw.ks.Entropy)}))
			continue
		}
		if dw.panicMsg != "" {
			c.Violation("panic-on-wrong-password", c19Witness(rd, pw, entropy, map[string]interface{}{"variant": v.name, "panic": dw.panicMsg}))
			continue
		}
		c.Count("wrong_passwords_refused", 1)
		c.SetAdd("wrong_password_outcomes", dw.class())
		c.SetAdd("wrong_password_variants", pwClass+" / "+v.name)
		c.Distinct(fmt.Sprintf("wrongpw/pw=%s/%s/refused", pwClass, v.name))
	}

	// the same file through wallet.Manager
	m := wallet.New(&wallet.Config{WalletDir: dir})
	if err := m.Start(); err != nil {
		c.Inconclusive("manager start: " + err.Error())
		return
	}
	defer m.Stop()
	c.Eval(2)
	if err := m.Unlock("kf.json", pw+"?"); err == nil {
		c.Violation("decrypt-succeeded-with-wrong-password manager-unlock", c19Witness(rd, pw, entropy, nil))
	}
	mks, err := m.GetKeyFileAndDecrypt("kf.json", pw)
	if err != nil || mks == nil {
		c.Violation("roundtrip-decrypt-failed", c19Witness(rd, pw, entropy, map[string]interface{}{"outcome": fmt.Sprint(err), "path": "Manager.Start -> GetKeyFileAndDecrypt"}))
		return
	}
	if c19CheckStore(c, mks, entropy, "manager", rd, pw) {
		c.Distinct(fmt.Sprintf("rt/manager/size=%d/exact", size))
	}
	if i < 2 {
		c.Sample(map[string]interface{}{"case": caseID, "entropy_bytes": size, "password_class": pwClass, "password_len": len(pw), "mnemonic_words": len(strings.Fields(mn)),
			"base_address": kf.BaseAddress.String(), "wrong_passwords_tried": len(pick)})
	}
}

func c19VariantClass(name string) string {
	switch {
	case strings.HasPrefix(name, "same-first-"), strings.HasPrefix(name, "truncated-to-"):
		return "long-password-prefix"
	case strings.HasPrefix(name, "flip-bit"):
		return "bit-flip"
	}
	return name
}

// ---------------------------------------------------------------------------
// flip: single-bit flips of the three binary fields

type c19Field struct {
	name string
	get  func(kf *wallet.KeyFile) []byte
}

var c19Fields = []c19Field{
	{"cipherData", func(kf *wallet.KeyFile) []byte { return kf.Crypto.CipherData }},
	{"nonce", func(kf *wallet.KeyFile) []byte { return kf.Crypto.AesNonce }},
	{"salt", func(kf *wallet.KeyFile) []byte { return kf.Crypto.Argon2Params.Salt }},
}

// c19JudgeTamperedStruct: a key file whose fields were changed in memory (and optionally written and read back) must not decrypt.
func c19JudgeTamperedStruct(c *fw.C, cp *wallet.KeyFile, viaFile string, pw string, entropy []byte, sig string, what map[string]interface{}) (outcome string) {
	use := cp
	if viaFile != "" {
		cp.Path = viaFile
		if err := cp.Write(); err != nil {
			c.Inconclusive("cannot write key file: " + err.Error())
			return "inconclusive"
		}
		rd, err, pmsg := c19Read(viaFile)
		if err != nil || pmsg != "" || rd == nil {
			// a refused file does not decrypt; (with valid hex fields this is not expected, so it is shown)
			c.Count("tampered_file_refused_by_ReadKeyFile", 1)
			c.SetAdd("tampered_outcomes", "read refused: "+c19ErrClass(err)+pmsg)
			return "read-refused"
		}
		if !c19SameFields(rd, cp) {
			c.Violation("keyfile-write-read-changed-fields", c19Witness(cp, pw, entropy, what))
			return "violation"
		}
		use = rd
	}
	d := c19Decrypt(use, pw)
	c.Eval(1)
	if d.ok() {
		w := c19Witness(use, pw, entropy, what)
		w["decrypted_entropy"] = hex.EncodeToString(d.ks.Entropy)
		w["decrypted_equals_original"] = bytes.Equal(d.ks.Entropy, entropy)
		c.Violation(sig, w)
		return "violation"
	}
	c.SetAdd("tampered_outcomes", d.class())
	if d.panicMsg != "" {
		c.Count("tampered_decrypt_panicked", 1)
		return "panic"
	}
	c.Count("tampered_decrypt_refused", 1)
	return "refused"
}

func c19RunFlip(c *fw.C, caseID string, size, part, rep int) {
	r := c.Rand(caseID)
	entropy := c19Entropy(r, size)
	pw := c19Password(r, []string{"ascii", "empty", "unicode"}[rep%3])
	kf := c19NewFile(c, entropy, pw)
	if kf == nil {
		return
	}
	dir := c.ScratchDir("c19flip")
	defer os.RemoveAll(dir)
	// half of the series works on a key file object that HAS been unlocked before (a wallet unlocks, something changes the
	// object or a copy of it, it is unlocked again): whatever the object remembers from the first time must not
	// outlive a change of ciphertext, nonce or salt
	if (part+rep)%2 == 1 {
		if d0 := c19Decrypt(kf, pw); !d0.ok() || !bytes.Equal(d0.ks.Entropy, entropy) {
			c.Violation("roundtrip-decrypt-failed", c19Witness(kf, pw, entropy, map[string]interface{}{"outcome": d0.class(), "path": "first unlock before the flip series"}))
			return
		}
		c.Count("flip_series_on_a_previously_unlocked_object", 1)
	}
	pos := 0
	for _, f := range c19Fields {
		nbits := len(f.get(kf)) * 8
		for b := 0; b < nbits; b++ {
			pos++
			if (pos-1)%c19FlipParts != part {
				continue
			}
			cp := c19Clone(kf)
			f.get(cp)[b/8] ^= 0x80 >> uint(b%8)
			via := ""
			if ((pos-1)/c19FlipParts)%2 == 0 {
				via = filepath.Join(dir, "flip.json")
			}
			oc := c19JudgeTamperedStruct(c, cp, via, pw, entropy, "decrypt-succeeded-after-bitflip "+f.name, map[string]interface{}{"field": f.name, "bit": b, "via_file": via != ""})
			if oc == "violation" {
				return
			}
			c.Count("bitflips_"+f.name, 1)
			c.SetAdd(fmt.Sprintf("flipped_positions_entropy%d", size), fmt.Sprintf("%s:%03d", f.name, b))
			c.Distinct(fmt.Sprintf("flip/size=%d/%s/bit%d/%s", size, f.name, b%8, oc))
		}
	}
	// the untouched file still decrypts: the refusals above were caused by the flips
	d := c19Decrypt(kf, pw)
	c.Eval(1)
	if !d.ok() || !bytes.Equal(d.ks.Entropy, entropy) {
		c.Violation("roundtrip-decrypt-failed", c19Witness(kf, pw, entropy, map[string]interface{}{"outcome": d.class(), "path": "original file after the flip series"}))
	}
	if part == 0 && rep == 0 && size == 16 {
		c.Sample(map[string]interface{}{"case": caseID, "positions_per_file": pos, "parts": c19FlipParts})
	}
}

// ---------------------------------------------------------------------------
// trunc: length changes, constant fills, cross-file swaps

func c19RunTrunc(c *fw.C, caseID string, i int) {
	r := c.Rand(caseID)
	size := c19Sizes[i%len(c19Sizes)]
	entropy := c19Entropy(r, size)
	pw := c19Password(r, c19PwClasses[r.Intn(3)])
	kf := c19NewFile(c, entropy, pw)
	other := c19NewFile(c, entropy, pw) // same entropy and password, fresh salt and nonce
	if kf == nil || other == nil {
		return
	}
	if c19SameFields(kf, other) {
		c.Count("two_encryptions_identical", 1)
	}
	dir := c.ScratchDir("c19trunc")
	defer os.RemoveAll(dir)
	type edit struct {
		name string
		f    func(b []byte) []byte
	}
	rnd := func(n int) []byte { b := make([]byte, n); r.Read(b); return b }
	edits := []edit{
		{"drop-last", func(b []byte) []byte { return b[:len(b)-1] }},
		{"drop-first", func(b []byte) []byte { return b[1:] }},
		{"empty", func(b []byte) []byte { return b[:0] }},
		{"append-zero", func(b []byte) []byte { return append(b, 0) }},
		{"prepend-zero", func(b []byte) []byte { return append([]byte{0}, b...) }},
		{"all-zero-same-length", func(b []byte) []byte { return make([]byte, len(b)) }},
		{"random-same-length", func(b []byte) []byte { return rnd(len(b)) }},
		{"reversed", func(b []byte) []byte {
			o := make([]byte, len(b))
			for k := range b {
				o[len(b)-1-k] = b[k]
			}
			return o
		}},
		{"doubled", func(b []byte) []byte { return append(append([]byte{}, b...), b...) }},
		{"first-half", func(b []byte) []byte { return b[:len(b)/2] }},
		{"last-12", func(b []byte) []byte { return b[len(b)-12:] }},
	}
	set := func(cp *wallet.KeyFile, field string, v []byte) {
		switch field {
		case "cipherData":
			cp.Crypto.CipherData = append(cp.Crypto.CipherData[:0:0], v...)
		case "nonce":
			cp.Crypto.AesNonce = append(cp.Crypto.AesNonce[:0:0], v...)
		default:
			cp.Crypto.Argon2Params.Salt = append(cp.Crypto.Argon2Params.Salt[:0:0], v...)
		}
	}
	k := 0
	for _, f := range c19Fields {
		for _, e := range edits {
			cp := c19Clone(kf)
			nv := e.f(append([]byte{}, f.get(cp)...))
			if bytes.Equal(nv, f.get(kf)) {
				continue // e.g. reversing a palindrome: not a change
			}
			set(cp, f.name, nv)
			k++
			via := ""
			if k%2 == 0 {
				via = filepath.Join(dir, "t.json")
			}
			oc := c19JudgeTamperedStruct(c, cp, via, pw, entropy, "decrypt-succeeded-after-field-edit "+f.name, map[string]interface{}{"field": f.name, "edit": e.name, "new_length": len(nv)})
			if oc == "violation" {
				return
			}
			if oc == "panic" {
				c.Count("panic_on_"+f.name+"_"+e.name, 1)
			}
			c.Distinct(fmt.Sprintf("trunc/%s/%s/%s", f.name, e.name, oc))
		}
	}
	// cross-file: every proper non-empty subset of (cipherData, nonce, salt) taken from the sibling file
	for mask := 1; mask < 7; mask++ {
		cp := c19Clone(kf)
		var from []string
		for bi, f := range c19Fields {
			if mask&(1<<uint(bi)) != 0 {
				set(cp, f.name, f.get(other))
				from = append(from, f.name)
			}
		}
		if c19SameFields(cp, kf) {
			continue
		}
		oc := c19JudgeTamperedStruct(c, cp, "", pw, entropy, "decrypt-succeeded-after-cross-file-swap", map[string]interface{}{"fields_from_sibling_file": from})
		if oc == "violation" {
			return
		}
		c.Distinct(fmt.Sprintf("trunc/cross-file/%s/%s", strings.Join(from, "+"), oc))
	}
	for _, f := range []*wallet.KeyFile{kf, other} {
		d := c19Decrypt(f, pw)
		c.Eval(1)
		if !d.ok() || !bytes.Equal(d.ks.Entropy, entropy) {
			c.Violation("roundtrip-decrypt-failed", c19Witness(f, pw, entropy, map[string]interface{}{"outcome": d.class(), "path": "original file after the edit series"}))
		}
	}
}

// ---------------------------------------------------------------------------
// size: illegal entropy sizes never yield a key store

func c19RunSize(c *fw.C, caseID string, i int) {
	r := c.Rand(caseID)
	pool := []int{0, 1, 4, 8, 12, 15, 17, 18, 19, 21, 22, 23, 25, 27, 29, 31, 33, 36, 40, 48, 64, 128}
	for k := 0; k < 8; k++ {
		n := pool[(i*8+k)%len(pool)]
		if k == 7 {
			n = r.Intn(100)
			if n >= 16 && n <= 32 && n%4 == 0 {
				n++
			}
		}
		entropy := c19Entropy(r, n)
		pw := c19Password(r, "ascii")
		var kf *wallet.KeyFile
		var err error
		pmsg := ""
		func() {
			defer func() {
				if rec := recover(); rec != nil {
					pmsg = fmt.Sprint(rec)
				}
			}()
			kf, err = (&wallet.KeyStore{Entropy: entropy}).Encrypt(pw)
		}()
		c.Eval(1)
		if pmsg != "" || err != nil || kf == nil {
			c.SetAdd("illegal_size_outcomes", "refused at Encrypt: "+c19ErrClass(err)+pmsg)
			c.Distinct(fmt.Sprintf("size/%d/refused-at-encrypt", n))
			continue
		}
		d := c19Decrypt(kf, pw)
		c.Eval(1)
		if d.ok() {
			c.Violation("illegal-entropy-size-accepted", c19Witness(kf, pw, entropy, map[string]interface{}{"entropy_bytes": n, "mnemonic": d.ks.Mnemonic}))
			continue
		}
		c.SetAdd("illegal_size_outcomes", "refused at Decrypt: "+d.class())
		c.Count("illegal_sizes_refused", 1)
		c.Distinct(fmt.Sprintf("size/%d/refused-at-decrypt", n))
	}
}

// c19EncryptAgain encrypts one key store twice; the store's entropy is a sub-slice of a sentinel-filled buffer with
// `spare` bytes of capacity behind it (what append-grown slices, decoded mnemonics and pooled buffers look like).
func c19EncryptAgain(c *fw.C, r *rand.Rand, ks *wallet.KeyStore, entropy []byte, pw string, size, i int) bool {
	spare := []int{16, 0, 64, 4, 33}[i%5]
	const lead = 4
	buf := bytes.Repeat([]byte{0xA5}, lead+size+spare)
	copy(buf[lead:], entropy)
	st := *ks
	st.Entropy = buf[lead : lead+size]
	pws := []string{pw, c19Password(r, "ascii")}
	var files []*wallet.KeyFile
	for n, p := range pws {
		kf, err := st.Encrypt(p)
		c.Eval(1)
		if err != nil || kf == nil {
			c.Violation("encrypt-failed", c19Witness(nil, p, entropy, map[string]interface{}{"error": fmt.Sprint(err), "encrypt_call": n + 1, "spare_capacity": spare}))
			return false
		}
		files = append(files, kf)
		if !bytes.Equal(st.Entropy, entropy) {
			c.Violation("encrypt-changes-the-key-store entropy", c19Witness(kf, p, entropy, map[string]interface{}{"encrypt_call": n + 1, "spare_capacity": spare,
				"entropy_in_store_after_encrypt": hex.EncodeToString(st.Entropy)}))
			return false
		}
		if !bytes.Equal(buf[:lead], bytes.Repeat([]byte{0xA5}, lead)) || !bytes.Equal(buf[lead+size:], bytes.Repeat([]byte{0xA5}, spare)) {
			c.Count("encrypt_wrote_around_the_entropy_slice", 1) // not a clause of the property: reported, not judged
		}
	}
	for n, kf := range files {
		d := c19Decrypt(kf, pws[n])
		c.Eval(1)
		if !d.ok() {
			c.Violation("roundtrip-decrypt-failed", c19Witness(kf, pws[n], entropy, map[string]interface{}{"outcome": d.class(), "path": fmt.Sprintf("file %d of one key store", n+1), "spare_capacity": spare}))
			return false
		}
		if !c19CheckStore(c, d.ks, entropy, fmt.Sprintf("file %d of one key store", n+1), kf, pws[n]) {
			return false
		}
		if !bytes.Equal(kf.BaseAddress.Bytes(), d.ks.BaseAddress.Bytes()) {
			c.Violation("file-base-address-not-index-0", c19Witness(kf, pws[n], entropy, map[string]interface{}{"path": fmt.Sprintf("file %d of one key store", n+1)}))
			return false
		}
	}
	c.Count("key_stores_encrypted_twice", 1)
	c.Distinct(fmt.Sprintf("rt/twice/size=%d/spare=%d", size, spare))
	return true
}

// ---------------------------------------------------------------------------
// own decoder of the key-file text (JSON via encoding/json's tokenizer as a codec; everything unusual is an error,
// and an error only ever makes the verdict more lenient)

type c19KV struct {
	key string
	val json.RawMessage
}

func c19JSONObject(raw []byte, top bool) ([]c19KV, error) {
	dec := json.NewDecoder(bytes.NewReader(raw))
	tok, err := dec.Token()
	if err != nil {
		return nil, err
	}
	if d, ok := tok.(json.Delim); !ok || d != '{' {
		return nil, errors.New("not an object")
	}
	var l []c19KV
	for dec.More() {
		kt, err := dec.Token()
		if err != nil {
			return nil, err
		}
		k, ok := kt.(string)
		if !ok {
			return nil, errors.New("key is not a string")
		}
		var v json.RawMessage
		if err := dec.Decode(&v); err != nil {
			return nil, err
		}
		l = append(l, c19KV{k, v})
	}
	if _, err := dec.Token(); err != nil {
		return nil, err
	}
	if top {
		if _, err := dec.Token(); err != io.EOF {
			return nil, errors.New("data after the top-level object")
		}
	}
	return l, nil
}

func c19HexField(v json.RawMessage) ([]byte, error) {
	if len(v) < 2 || v[0] != '"' || bytes.ContainsRune(v, '\\') {
		return nil, errors.New("not a plain string")
	}
	s := string(v[1 : len(v)-1])
	if s == "" {
		return []byte{}, nil
	}
	if !strings.HasPrefix(s, "0x") && !strings.HasPrefix(s, "0X") {
		return nil, errors.New("no 0x prefix")
	}
	return hex.DecodeString(s[2:])
}

type c19TextFieldSet struct{ ct, nonce, salt []byte }

// c19TextFields: later duplicates override earlier ones, keys are matched ignoring ASCII case (both as documented for encoding/json).
func c19TextFields(text []byte) (f c19TextFieldSet, err error) {
	if !json.Valid(text) {
		return f, errors.New("not valid JSON")
	}
	top, err := c19JSONObject(text, true)
	if err != nil {
		return f, err
	}
	seen := 0
	for _, kv := range top {
		if !strings.EqualFold(kv.key, "crypto") {
			continue
		}
		cobj, err := c19JSONObject(kv.val, false)
		if err != nil {
			return f, err
		}
		for _, ckv := range cobj {
			switch {
			case strings.EqualFold(ckv.key, "cipherData"):
				if f.ct, err = c19HexField(ckv.val); err != nil {
					return f, err
				}
				seen |= 1
			case strings.EqualFold(ckv.key, "nonce"):
				if f.nonce, err = c19HexField(ckv.val); err != nil {
					return f, err
				}
				seen |= 2
			case strings.EqualFold(ckv.key, "argon2Params"):
				aobj, err := c19JSONObject(ckv.val, false)
				if err != nil {
					return f, err
				}
				for _, akv := range aobj {
					if strings.EqualFold(akv.key, "salt") {
						if f.salt, err = c19HexField(akv.val); err != nil {
							return f, err
						}
						seen |= 4
					}
				}
			}
		}
	}
	if seen != 7 {
		return f, fmt.Errorf("fields present mask %d", seen)
	}
	return f, nil
}

// c19TextBaseAddress decodes the bech32 text of "baseAddress" (bech32 library as codec) into 20 bytes.
func c19TextBaseAddress(text []byte) ([]byte, error) {
	top, err := c19JSONObject(text, true)
	if err != nil {
		return nil, err
	}
	for _, kv := range top {
		if kv.key == "baseAddress" {
			var s string
			if err := json.Unmarshal(kv.val, &s); err != nil {
				return nil, err
			}
			hrp, five, err := bech32.Decode(s)
			if err != nil {
				return nil, err
			}
			if hrp != "z" {
				return nil, errors.New("prefix " + hrp)
			}
			return bech32.ConvertBits(five, 5, 8, false)
		}
	}
	return nil, errors.New("no baseAddress")
}

// ---------------------------------------------------------------------------
// text: corruptions of the file text

var c19FieldRe = map[string]*regexp.Regexp{
	"cipherData": regexp.MustCompile(`"cipherData": "0x([0-9a-f]*)"`),
	"nonce":      regexp.MustCompile(`"nonce": "0x([0-9a-f]*)"`),
	"salt":       regexp.MustCompile(`"salt": "0x([0-9a-f]*)"`),
}

var c19TextOps = []string{"bitflip", "bitflip-in-hex", "nibble-change", "delete-byte", "insert-byte", "replace-byte", "truncate", "dup-field", "hex-upper", "hex-0X",
	"key-case", "compact", "unknown-field", "version", "kdf-cipher-name", "base-address", "timestamp", "trailing", "bom", "degenerate", "hex-odd", "hex-no-prefix",
	"field-other-type", "swap-nonce-salt", "hex-append", "hex-escape", "field-from-sibling", "whitespace"}

// c19Corrupt returns the corrupted text, or nil when the operation does not apply / changes nothing.
func c19Corrupt(r *rand.Rand, op string, orig, sibling []byte) (out []byte, note string) {
	fieldNames := []string{"cipherData", "nonce", "salt"}
	fn := fieldNames[r.Intn(3)]
	loc := c19FieldRe[fn].FindSubmatchIndex(orig) // [full0 full1 hex0 hex1]
	if loc == nil {
		return nil, ""
	}
	h0, h1 := loc[2], loc[3]
	splice := func(a, b int, mid string) []byte {
		return append(append(append([]byte{}, orig[:a]...), mid...), orig[b:]...)
	}
	switch op {
	case "bitflip":
		p := r.Intn(len(orig) * 8)
		out = append([]byte{}, orig...)
		out[p/8] ^= 1 << uint(p%8)
		note = fmt.Sprintf("bit %d", p)
	case "bitflip-in-hex":
		p := (h0-2)*8 + r.Intn((h1-h0+2)*8)
		out = append([]byte{}, orig...)
		out[p/8] ^= 1 << uint(p%8)
		note = fmt.Sprintf("%s bit %d", fn, p)
	case "nibble-change":
		p := h0 + r.Intn(h1-h0)
		const digits = "0123456789abcdef"
		nd := digits[r.Intn(16)]
		for nd == orig[p] {
			nd = digits[r.Intn(16)]
		}
		out = append([]byte{}, orig...)
		out[p] = nd
		note = fmt.Sprintf("%s offset %d", fn, p-h0)
	case "delete-byte":
		p := r.Intn(len(orig))
		out = splice(p, p+1, "")
	case "insert-byte":
		p := r.Intn(len(orig) + 1)
		out = splice(p, p, string([]byte{byte(0x20 + r.Intn(0x5f))}))
	case "replace-byte":
		p := r.Intn(len(orig))
		out = splice(p, p+1, string([]byte{byte(r.Intn(256))}))
	case "truncate":
		out = append([]byte{}, orig[:r.Intn(len(orig))]...)
	case "dup-field":
		// a second occurrence of the field, with another value, before or after the genuine one
		hexv := []byte(string(orig[h0:h1]))
		if len(hexv) == 0 {
			return nil, ""
		}
		p := r.Intn(len(hexv))
		if hexv[p] == '0' {
			hexv[p] = '1'
		} else {
			hexv[p] = '0'
		}
		line := fmt.Sprintf(`"%s": "0x%s", `, fn, hexv)
		if r.Intn(2) == 0 {
			out = splice(loc[0], loc[0], line)
			note = fn + " forged-first"
		} else {
			// after: needs a leading comma instead
			out = splice(loc[1], loc[1], fmt.Sprintf(`, "%s": "0x%s"`, fn, hexv))
			note = fn + " forged-last"
		}
	case "hex-upper":
		out = splice(h0, h1, strings.ToUpper(string(orig[h0:h1])))
		note = fn
	case "hex-0X":
		out = splice(h0-2, h0, "0X")
		note = fn
	case "key-case":
		keys := []string{"crypto", "cipherData", "nonce", "salt", "argon2Params", "version", "kdf", "cipherName", "baseAddress"}
		k := keys[r.Intn(len(keys))]
		nk := []string{strings.ToUpper(k), strings.ToLower(k), strings.ToUpper(k[:1]) + k[1:]}[r.Intn(3)]
		out = bytes.Replace(orig, []byte(`"`+k+`"`), []byte(`"`+nk+`"`), 1)
		note = k + "->" + nk
	case "compact":
		var b bytes.Buffer
		if json.Compact(&b, orig) != nil {
			return nil, ""
		}
		out = b.Bytes()
	case "unknown-field":
		p := bytes.IndexByte(orig, '{')
		out = splice(p+1, p+1, []string{`"extra": 1,`, `"Path": "/nonexistent",`, `"password": "x",`, `"crypto2": {"nonce": "0x00"},`}[r.Intn(4)])
	case "version":
		v := []string{"0", "2", "-1", `"1"`, "1.0", "1e0", "null", "1.5", "true", "11", "4294967297", "18446744073709551617"}[r.Intn(12)]
		re := regexp.MustCompile(`"version": 1`)
		out = re.ReplaceAll(orig, []byte(`"version": `+v))
		note = v
	case "kdf-cipher-name":
		if r.Intn(2) == 0 {
			out = bytes.Replace(orig, []byte(`"argon2.IDKey"`), []byte([]string{`"argon2.IKey"`, `"scrypt"`, `""`, `null`, `"ARGON2.IDKEY"`}[r.Intn(5)]), 1)
		} else {
			out = bytes.Replace(orig, []byte(`"aes-256-gcm"`), []byte([]string{`"aes-128-gcm"`, `"aes-256-ctr"`, `""`, `null`, `"AES-256-GCM"`}[r.Intn(5)]), 1)
		}
	case "base-address":
		re := regexp.MustCompile(`"baseAddress": "[^"]*"`)
		v := []string{"z1qqvwzz2xq7q5gwk6uhcddgrpxlfcyzc8rsu82s", "z1qxemdeddedxpyllarxxxxxxxxxxxxxxxsy3fmg", "", "z1qqqqqqqqqqqqqqqqqqqqqqqqqqqqqqqqyl0sf9x", "x"}[r.Intn(5)]
		out = re.ReplaceAll(orig, []byte(`"baseAddress": "`+v+`"`))
		note = v
	case "timestamp":
		re := regexp.MustCompile(`"timestamp": [0-9]+`)
		out = re.ReplaceAll(orig, []byte(`"timestamp": `+[]string{"0", "-1", "9223372036854775807", "9223372036854775808", "1.5", `"now"`}[r.Intn(6)]))
	case "trailing":
		out = append(append([]byte{}, orig...), []string{"x", "{}", "\n", " ", "\x00", "}", ","}[r.Intn(7)]...)
	case "bom":
		out = append([]byte{0xef, 0xbb, 0xbf}, orig...)
	case "degenerate":
		out = []byte([]string{"", "null", "[]", "{}", `""`, "0", `{"crypto":null,"version":1}`, `{"version":1,"crypto":{"cipherName":"aes-256-gcm","kdf":"argon2.IDKey"}}`}[r.Intn(8)])
	case "hex-odd":
		if h1 == h0 {
			return nil, ""
		}
		p := h0 + r.Intn(h1-h0)
		out = splice(p, p+1, "")
		note = fn
	case "hex-no-prefix":
		out = splice(h0-2, h0, "")
		note = fn
	case "field-other-type":
		v := []string{"null", "0", "[]", `""`, `"0x"`, "{}", "true"}[r.Intn(7)]
		out = splice(h0-3, h1+1, v)
		note = fn + "=" + v
	case "swap-nonce-salt":
		ln, ls := c19FieldRe["nonce"].FindSubmatchIndex(orig), c19FieldRe["salt"].FindSubmatchIndex(orig)
		if ln == nil || ls == nil || ln[2] > ls[2] {
			return nil, ""
		}
		nv, sv := string(orig[ln[2]:ln[3]]), string(orig[ls[2]:ls[3]])
		out = append(append(append(append(append([]byte{}, orig[:ln[2]]...), sv...), orig[ln[3]:ls[2]]...), nv...), orig[ls[3]:]...)
	case "hex-append":
		if r.Intn(2) == 0 {
			out = splice(h1, h1, "00")
		} else {
			out = splice(h0, h0, "00")
		}
		note = fn
	case "hex-escape":
		if h1 == h0 {
			return nil, ""
		}
		p := h0 + r.Intn(h1-h0)
		out = splice(p, p+1, fmt.Sprintf(`\u%04x`, orig[p]))
		note = fn
	case "field-from-sibling":
		sl := c19FieldRe[fn].FindSubmatchIndex(sibling)
		if sl == nil {
			return nil, ""
		}
		out = splice(h0, h1, string(sibling[sl[2]:sl[3]]))
		note = fn
	case "whitespace":
		out = bytes.Replace(orig, []byte("    "), []byte("\t"), -1)
		out = bytes.Replace(out, []byte("\n"), []byte("\r\n"), -1)
	}
	if out == nil || bytes.Equal(out, orig) {
		return nil, ""
	}
	return out, note
}

// c19JudgeText decides one corrupted text. orig is the genuine file (parsed), entropy its content.
func c19JudgeText(c *fw.C, kind, note string, path string, text []byte, orig *wallet.KeyFile, pw string, entropy []byte) (outcome string) {
	if err := os.WriteFile(path, text, 0o600); err != nil {
		c.Inconclusive("cannot write: " + err.Error())
		return "inconclusive"
	}
	wit := func(extra map[string]interface{}) map[string]interface{} {
		w := c19Witness(orig, pw, entropy, extra)
		w["corruption"] = kind
		w["note"] = note
		w["corrupted_text"] = string(text)
		return w
	}
	rd, err, pmsg := c19Read(path)
	c.Eval(1)
	if pmsg != "" {
		c.Count("ReadKeyFile_panicked_on_corrupt_text", 1)
		c.SetAdd("text_outcomes", "read panic: "+pmsg)
		return "read-panic"
	}
	if err != nil || rd == nil {
		c.Count("corrupt_text_refused_by_ReadKeyFile", 1)
		msg := c19ErrClass(err)
		for _, cut := range []string{"character", "(expected", "string length", "separator index", "unmarshal number", "hex string", "into Go"} {
			if k := strings.Index(msg, cut); k > 0 {
				msg = msg[:k] + cut + "…"
			}
		}
		c.SetAdd("text_read_refusals", msg)
		return "read-refused"
	}
	walletSame := c19SameFields(rd, orig)
	own, ownErr := c19TextFields(text)
	ownSame := ownErr == nil && bytes.Equal(own.ct, orig.Crypto.CipherData) && bytes.Equal(own.nonce, orig.Crypto.AesNonce) && bytes.Equal(own.salt, orig.Crypto.Argon2Params.Salt)
	d := c19Decrypt(rd, pw)
	c.Eval(1)
	if !d.ok() {
		if d.panicMsg != "" {
			c.Count("tampered_decrypt_panicked", 1)
		}
		c.SetAdd("text_outcomes", "decrypt: "+d.class())
		if walletSame {
			// same password, salt, nonce and ciphertext as the genuine file, which decrypts
			c.Violation("decrypt-failed-with-unchanged-fields", wit(map[string]interface{}{"outcome": d.class()}))
			return "violation"
		}
		c.Count("corrupt_text_did_not_decrypt", 1)
		if d.panicMsg != "" {
			return "decrypt-panic"
		}
		return "decrypt-refused"
	}
	switch {
	case !bytes.Equal(d.ks.Entropy, entropy):
		c.Violation("decrypt-of-corrupted-text-yields-other-entropy", wit(map[string]interface{}{"decrypted_entropy": hex.EncodeToString(d.ks.Entropy)}))
		return "violation"
	case !walletSame:
		c.Violation("decrypt-succeeded-after-text-corruption", wit(map[string]interface{}{"parsed_fields_differ_from_original": true}))
		return "violation"
	case ownErr != nil:
		c.Count("text_own_decoder_gave_up_on_a_file_that_decrypted", 1)
		c.SetAdd("text_own_decoder_gave_up", kind+": "+c19ErrClass(ownErr))
		return "decrypts-own-decoder-gave-up"
	case !ownSame:
		c.Violation("keyfile-text-change-of-field-ignored", wit(map[string]interface{}{"own_decoder": map[string]string{"cipherData": hex.EncodeToString(own.ct), "nonce": hex.EncodeToString(own.nonce), "salt": hex.EncodeToString(own.salt)}}))
		return "violation"
	}
	c.Count("corrupt_text_immaterial_still_exact", 1)
	if rd.BaseAddress != orig.BaseAddress {
		c.Count("base_address_text_changed_file_still_decrypts(not covered by the statement)", 1)
	}
	return "immaterial-decrypts-exact"
}

func c19TextSetup(c *fw.C, r *rand.Rand, size int, dir string) (kf *wallet.KeyFile, text, sibling []byte, pw string, entropy []byte) {
	entropy = c19Entropy(r, size)
	pw = c19Password(r, c19PwClasses[r.Intn(3)])
	ks := c19Bootstrap(c, entropy, pw)
	if ks == nil {
		return nil, nil, nil, "", nil
	}
	mk := func(name string) (*wallet.KeyFile, []byte) {
		f, err := ks.Encrypt(pw)
		if err != nil {
			c.Violation("encrypt-failed", c19Witness(nil, pw, entropy, map[string]interface{}{"error": fmt.Sprint(err)}))
			return nil, nil
		}
		f.Path = filepath.Join(dir, name)
		if err := f.Write(); err != nil {
			c.Inconclusive("cannot write: " + err.Error())
			return nil, nil
		}
		t, _ := os.ReadFile(f.Path)
		return f, t
	}
	kf, text = mk("orig.json")
	_, sibling = mk("sibling.json")
	if kf == nil || sibling == nil {
		return nil, nil, nil, "", nil
	}
	return kf, text, sibling, pw, entropy
}

func c19RunText(c *fw.C, caseID string, i int) {
	r := c.Rand(caseID)
	size := c19Sizes[i%len(c19Sizes)]
	dir := c.ScratchDir("c19text")
	defer os.RemoveAll(dir)
	kf, text, sibling, pw, entropy := c19TextSetup(c, r, size, dir)
	if kf == nil {
		return
	}
	// every operation kind once per case, plus a few more random bit flips
	ops := append([]string{}, c19TextOps...)
	for k := 0; k < 12; k++ {
		ops = append(ops, []string{"bitflip", "bitflip-in-hex", "nibble-change", "replace-byte"}[k%4])
	}
	for _, op := range ops {
		mut, note := c19Corrupt(r, op, text, sibling)
		if mut == nil {
			continue
		}
		oc := c19JudgeText(c, op, note, filepath.Join(dir, "m.json"), mut, kf, pw, entropy)
		c.Count("text_corruptions", 1)
		c.Distinct("text/" + op + "/" + oc)
		if oc == "violation" {
			return
		}
	}
	d := c19Decrypt(kf, pw)
	c.Eval(1)
	if !d.ok() || !bytes.Equal(d.ks.Entropy, entropy) {
		c.Violation("roundtrip-decrypt-failed", c19Witness(kf, pw, entropy, map[string]interface{}{"outcome": d.class(), "path": "original file after the text series"}))
	}
	if i == 0 {
		c.Sample(map[string]interface{}{"case": caseID, "file_text_bytes": len(text), "operations": len(ops)})
	}
}

// textflip: every single-bit flip of the whole file text, partitioned over cases
func c19RunTextFlip(c *fw.C, caseID string, size, part int) {
	r := c.Rand(caseID)
	dir := c.ScratchDir("c19textflip")
	defer os.RemoveAll(dir)
	kf, text, _, pw, entropy := c19TextSetup(c, r, size, dir)
	if kf == nil {
		return
	}
	for p := part; p < len(text)*8; p += c19TextFlipParts {
		mut := append([]byte{}, text...)
		mut[p/8] ^= 0x80 >> uint(p%8)
		oc := c19JudgeText(c, "bitflip", fmt.Sprintf("bit %d", p), filepath.Join(dir, "m.json"), mut, kf, pw, entropy)
		c.Count("text_bitflips_exhaustive_series", 1)
		region := "structure"
		for _, f := range []string{"cipherData", "nonce", "salt"} {
			if loc := c19FieldRe[f].FindSubmatchIndex(text); loc != nil && p/8 >= loc[2]-2 && p/8 < loc[3] {
				region = f
			}
		}
		c.Distinct(fmt.Sprintf("textflip/%s/bit%d/%s", region, p%8, oc))
		if oc == "violation" {
			return
		}
	}
}

// ---------------------------------------------------------------------------
// der: derivation against the oracle

var c19BadPaths = []string{
	"", "m", "m/", "/", "m//0'", "m/44'/", "m/44''", "m/'", "m/ 44'", "m/44' ", " m/44'", "m/44'\n", "\nm/44'", "m/44'\nm/0'", "M/44'/73404'/0'", "n/44'", "m\\44'",
	"m/44'/73404'/-1'", "m/+1'", "m/0x10'", "m/1e3'", "m/1.0'", "m/٤٤'", "m/44’", "m/44`", "m/44'/73404'/0'/", "44'/73404'/0'", "/44'/73404'/0'",
	"m/44'm/0'", "m/44'/73404'/0'\x00", "m/44'/*'", "m/44'/73404'/0'#", "mm/44'", "m/44'/73404'/'0", "m/44'/73404'/0'/m", "m/44'/73404' /0'", "m/4 4'",
	// not hardened
	"m/0", "m/44/73404'/0'", "m/44'/73404/0'", "m/44'/73404'/0", "m/44/73404/0", "m/44'/73404'/0'/0",
	// hardened index out of range: must be refused, not wrapped
	"m/44'/73404'/2147483648'", "m/44'/73404'/2147483649'", "m/44'/73404'/4294967295'", "m/44'/73404'/4294967296'", "m/44'/73404'/4294967297'",
	"m/2147483692'/73404'/0'", "m/4294967340'/73404'/0'", "m/44'/73404'/18446744073709551616'", "m/44'/73404'/18446744073709551617'",
	"m/44'/73404'/340282366920938463463374607431768211456'", "m/2147483648'",
}

var c19UnspecifiedPaths = []string{"m/044'/73404'/0'", "m/44'/73404'/00'", "m/44'/73404'/007'", "m/00000000000000000000044'/73404'/1'", "m/44h/73404h/0h", "m/44H/73404H/0H"}

func c19PathString(idx []uint32) string {
	s := "m"
	for _, i := range idx {
		s += fmt.Sprintf("/%d'", i)
	}
	return s
}

func c19RandIndex(r *rand.Rand) uint32 {
	switch r.Intn(8) {
	case 0:
		return []uint32{0, 1, 44, 73404, 127, 128, 255, 256, 65535, 65536, 1<<31 - 1, 1<<31 - 2, 1 << 30}[r.Intn(13)]
	case 1:
		return uint32(r.Intn(1000))
	default:
		return r.Uint32() >> uint(1+r.Intn(31))
	}
}

type c19Deriver struct {
	name string
	f    func(path string, idx []uint32) (*wallet.KeyPair, error)
}

func c19Derive(f func() (*wallet.KeyPair, error)) (kp *wallet.KeyPair, err error, pmsg string) {
	defer func() {
		if rec := recover(); rec != nil {
			kp, err, pmsg = nil, nil, fmt.Sprint(rec)
		}
	}()
	kp, err = f()
	return kp, err, ""
}

func c19RunDer(c *fw.C, caseID string, i int) {
	r := c.Rand(caseID)
	size := c19Sizes[i%len(c19Sizes)]
	entropy := c19Entropy(r, size)
	ks := c19Bootstrap(c, entropy, "")
	if ks == nil {
		return
	}
	mn, _ := c19OracleMnemonic(entropy)
	seed := c19OracleSeed(mn)
	other := c19OracleKey(seed, []uint32{9}).pub

	// --- account indices below 2^31
	indices := []uint32{0, 1, 127, 128, 1<<31 - 1}
	for k := 0; k < 6; k++ {
		indices = append(indices, c19RandIndex(r))
	}
	for k, idx := range indices {
		want := c19OracleKey(seed, c19AccountPath(idx))
		cls := "random"
		if k < 5 {
			cls = fmt.Sprint(idx)
		}
		for rep := 0; rep < 2; rep++ { // repeated evaluation
			_, kp, err := ks.DeriveForIndexPath(idx)
			if err != nil {
				c.Violation("valid-index-refused", map[string]interface{}{"index": idx, "error": err.Error(), "entropy": hex.EncodeToString(entropy)})
				return
			}
			if !c19CheckKey(c, kp, want, "DeriveForIndexPath", map[string]interface{}{"index": idx, "entropy": hex.EncodeToString(entropy), "evaluation": rep}) {
				return
			}
			kp2, err := wallet.DeriveWithIndex(idx, ks.Seed)
			if err != nil {
				c.Violation("valid-index-refused", map[string]interface{}{"index": idx, "error": err.Error(), "how": "DeriveWithIndex"})
				return
			}
			if !c19CheckKey(c, kp2, want, "DeriveWithIndex", map[string]interface{}{"index": idx, "seed": hex.EncodeToString(seed)}) {
				return
			}
			if rep == 0 && k%3 == 0 {
				c19CheckSig(c, r, kp, want, other, "index="+cls)
			}
		}
		if idx == 0 {
			c.Eval(1)
			if !bytes.Equal(ks.BaseAddress.Bytes(), want.addr) {
				c.Violation("base-address-not-index-0", map[string]interface{}{"base": ks.BaseAddress.String(), "entropy": hex.EncodeToString(entropy)})
				return
			}
		}
		c.Distinct(fmt.Sprintf("der/index=%s/size=%d/equal-to-oracle", cls, size))
		c.Count("indices_compared", 1)
	}
	// --- account indices >= 2^31
	bad := []uint32{1 << 31, 1<<31 + 1, 1<<31 + 127, 1<<32 - 1, 1<<31 | r.Uint32()}
	for k, idx := range bad {
		for _, how := range []string{"DeriveForIndexPath", "DeriveWithIndex"} {
			kp, err, pmsg := c19Derive(func() (*wallet.KeyPair, error) {
				if how == "DeriveWithIndex" {
					return wallet.DeriveWithIndex(idx, ks.Seed)
				}
				_, kp, err := ks.DeriveForIndexPath(idx)
				return kp, err
			})
			c.Eval(1)
			if pmsg != "" {
				c.Count("derive_panicked_on_bad_index", 1)
				continue
			}
			if err == nil {
				d := map[string]interface{}{"index": idx, "how": how, "entropy": hex.EncodeToString(entropy)}
				if kp != nil {
					d["derived_pub"] = hex.EncodeToString(kp.Public)
					d["equals_key_of_index_minus_2^31"] = bytes.Equal(kp.Public, c19OracleKey(seed, c19AccountPath(idx-1<<31)).pub)
				}
				c.Violation("index-ge-2^31-accepted", d)
				return
			}
			c.SetAdd("refusal_reasons", err.Error())
		}
		cls := "random"
		if k < 4 {
			cls = fmt.Sprint(idx)
		}
		c.Distinct("der/index=" + cls + "/refused")
		c.Count("indices_ge_2^31_refused", 1)
	}
	// --- FindAddress
	for _, idx := range []uint32{0, uint32(1 + r.Intn(126)), 127} {
		want := c19OracleKey(seed, c19AccountPath(idx))
		var a types.Address
		copy(a[:], want.addr)
		kp, got, err := ks.FindAddress(a)
		c.Eval(1)
		if err != nil || got != idx {
			c.Violation("find-address-wrong", map[string]interface{}{"index": idx, "returned_index": got, "error": fmt.Sprint(err), "entropy": hex.EncodeToString(entropy)})
			return
		}
		if !c19CheckKey(c, kp, want, "FindAddress", map[string]interface{}{"index": idx}) {
			return
		}
	}
	c.Distinct("der/find-address/found")

	// --- general hardened paths, through the key store and on raw seeds
	derivers := []c19Deriver{
		{"KeyStore.DeriveForFullPath", func(p string, _ []uint32) (*wallet.KeyPair, error) {
			_, kp, err := ks.DeriveForFullPath(p)
			return kp, err
		}},
		{"DeriveForPath", func(p string, _ []uint32) (*wallet.KeyPair, error) { return wallet.DeriveForPath(p, ks.Seed) }},
	}
	for k := 0; k < 8; k++ {
		depth := 1 + r.Intn(10)
		var idx []uint32
		for j := 0; j < depth; j++ {
			idx = append(idx, c19RandIndex(r))
		}
		p := c19PathString(idx)
		if pi, cl := c19ParsePath(p); cl != "valid" || len(pi) != len(idx) {
			c.Inconclusive("oracle path parser disagrees with generator on " + p)
			return
		}
		want := c19OracleKey(seed, idx)
		for _, dv := range derivers {
			kp, err, pmsg := c19Derive(func() (*wallet.KeyPair, error) { return dv.f(p, idx) })
			if err != nil || pmsg != "" {
				c.Violation("valid-hardened-path-refused", map[string]interface{}{"path": p, "how": dv.name, "error": fmt.Sprint(err), "panic": pmsg})
				return
			}
			if !c19CheckKey(c, kp, want, dv.name, map[string]interface{}{"path": p, "seed": hex.EncodeToString(seed)}) {
				return
			}
			if k == 0 {
				c19CheckSig(c, r, kp, want, other, "path-depth")
			}
		}
		c.Distinct(fmt.Sprintf("der/path/depth=%d/equal-to-oracle", depth))
		c.Count("valid_paths_compared", 1)
	}
	// raw seeds of any length
	for k := 0; k < 6; k++ {
		raw := make([]byte, []int{0, 1, 16, 32, 64, 100}[k])
		r.Read(raw)
		idx := []uint32{c19RandIndex(r), c19RandIndex(r), c19RandIndex(r)}
		p := c19PathString(idx)
		kp, err, pmsg := c19Derive(func() (*wallet.KeyPair, error) { return wallet.DeriveForPath(p, raw) })
		if err != nil || pmsg != "" {
			c.Violation("valid-hardened-path-refused", map[string]interface{}{"path": p, "seed": hex.EncodeToString(raw), "error": fmt.Sprint(err), "panic": pmsg})
			return
		}
		if !c19CheckKey(c, kp, c19OracleKey(raw, idx), "DeriveForPath raw seed", map[string]interface{}{"path": p, "seed": hex.EncodeToString(raw)}) {
			return
		}
		c.Distinct(fmt.Sprintf("der/raw-seed/len=%d/equal-to-oracle", len(raw)))
	}
	// --- paths that must be refused
	bads := append([]string{}, c19BadPaths...)
	for k := 0; k < 6; k++ {
		// a valid path with one apostrophe removed, or one index pushed over 2^31-1
		depth := 1 + r.Intn(5)
		var segs []string
		for j := 0; j < depth; j++ {
			segs = append(segs, fmt.Sprintf("%d'", c19RandIndex(r)))
		}
		j := r.Intn(depth)
		if k%2 == 0 {
			segs[j] = strings.TrimSuffix(segs[j], "'")
		} else {
			segs[j] = fmt.Sprintf("%d'", uint64(1<<31)+uint64(r.Uint32()))
		}
		bads = append(bads, "m/"+strings.Join(segs, "/"))
	}
	for _, p := range bads {
		_, cl := c19ParsePath(p)
		if cl == "valid" || cl == "unspecified" {
			c.Inconclusive("oracle path parser accepts a path meant to be bad: " + strconv.Quote(p))
			return
		}
		for _, dv := range derivers {
			kp, err, pmsg := c19Derive(func() (*wallet.KeyPair, error) { return dv.f(p, nil) })
			c.Eval(1)
			if pmsg != "" {
				c.Count("derive_panicked_on_bad_path", 1)
				c.SetAdd("refusal_reasons", "panic: "+pmsg)
				continue
			}
			if err == nil {
				d := map[string]interface{}{"path": p, "class": cl, "how": dv.name, "entropy": hex.EncodeToString(entropy)}
				if kp != nil {
					d["derived_pub"] = hex.EncodeToString(kp.Public)
				}
				c.Violation("bad-path-accepted "+cl, d)
				return
			}
			c.SetAdd("refusal_reasons", err.Error())
		}
		c.SetAdd("refused_path_classes", cl)
		c.Count("bad_paths_refused", 1)
		key := p
		if len(key) > 40 || strings.ContainsAny(key, "\n\x00") {
			key = strconv.Quote(key)
		}
		if len(bads)-len(c19BadPaths) > 0 && !c19InList(c19BadPaths, p) {
			key = "generated"
		}
		c.Distinct("path/" + cl + "/" + key + "/refused")
	}
	// --- unspecified spellings: refusal is fine; if accepted, the key must be the one of the numeric path
	for _, p := range c19UnspecifiedPaths {
		norm := strings.NewReplacer("h", "'", "H", "'").Replace(p)
		idx, cl := c19ParsePath(norm)
		kp, err, pmsg := c19Derive(func() (*wallet.KeyPair, error) { return wallet.DeriveForPath(p, ks.Seed) })
		c.Eval(1)
		if err != nil || pmsg != "" {
			c.SetAdd("unspecified_path_outcomes", p+" -> refused")
			continue
		}
		c.SetAdd("unspecified_path_outcomes", p+" -> accepted")
		if cl != "valid" && cl != "unspecified" {
			continue
		}
		if !c19CheckKey(c, kp, c19OracleKey(seed, idx), "DeriveForPath unspecified spelling", map[string]interface{}{"path": p}) {
			return
		}
	}
	if i == 0 {
		c.Sample(map[string]interface{}{"case": caseID, "entropy": hex.EncodeToString(entropy), "mnemonic": mn, "index0_address": ks.BaseAddress.String(), "indices": indices, "bad_paths": len(bads)})
	}
}

func c19InList(l []string, s string) bool {
	for _, x := range l {
		if x == s {
			return true
		}
	}
	return false
}

// ---------------------------------------------------------------------------
// det: repeated evaluation and evaluation in a freshly executed process

type c19FreshItem struct {
	Entropy  string `json:"entropy"`
	Password string `json:"password_b64"`
	File     string `json:"file"`
}
type c19FreshReq struct {
	Items   []c19FreshItem `json:"items"`
	Indices []uint32       `json:"indices"`
	Paths   []string       `json:"paths"`
	Msg     string         `json:"msg"`
}
type c19KeyRep struct {
	Err  string `json:"err,omitempty"`
	Pub  string `json:"pub,omitempty"`
	Priv string `json:"priv,omitempty"`
	Addr string `json:"addr,omitempty"`
	Text string `json:"addr_text,omitempty"`
	Sig  string `json:"sig,omitempty"`
}
type c19StoreRep struct {
	Err      string      `json:"err,omitempty"`
	Entropy  string      `json:"entropy"`
	Mnemonic string      `json:"mnemonic"`
	Seed     string      `json:"seed"`
	Base     string      `json:"base"`
	ByIndex  []c19KeyRep `json:"by_index"`
	ByPath   []c19KeyRep `json:"by_path"`
}
type c19FreshResp struct {
	Pid         int           `json:"pid"`
	FromFile    []c19StoreRep `json:"from_file"`
	FromEntropy []c19StoreRep `json:"from_entropy"`
}

// c19ReportStore evaluates the wallet code; the same function runs in the case's process and in the fresh one.
func c19ReportStore(ks *wallet.KeyStore, req *c19FreshReq) c19StoreRep {
	rep := c19StoreRep{Entropy: hex.EncodeToString(ks.Entropy), Mnemonic: ks.Mnemonic, Seed: hex.EncodeToString(ks.Seed), Base: hex.EncodeToString(ks.BaseAddress.Bytes())}
	msg, _ := hex.DecodeString(req.Msg)
	one := func(f func() (*wallet.KeyPair, error)) c19KeyRep {
		kp, err, pmsg := c19Derive(f)
		if pmsg != "" {
			return c19KeyRep{Err: "panic"}
		}
		if err != nil || kp == nil {
			return c19KeyRep{Err: "refused"}
		}
		return c19KeyRep{Pub: hex.EncodeToString(kp.Public), Priv: hex.EncodeToString(kp.Private), Addr: hex.EncodeToString(kp.Address.Bytes()), Text: kp.Address.String(), Sig: hex.EncodeToString(kp.Sign(msg))}
	}
	for _, idx := range req.Indices {
		idx := idx
		rep.ByIndex = append(rep.ByIndex, one(func() (*wallet.KeyPair, error) { _, kp, err := ks.DeriveForIndexPath(idx); return kp, err }))
	}
	for _, p := range req.Paths {
		p := p
		rep.ByPath = append(rep.ByPath, one(func() (*wallet.KeyPair, error) { return wallet.DeriveForPath(p, ks.Seed) }))
	}
	return rep
}

func c19FreshMain(reqPath string) int {
	common.WalletLogger.SetHandler(log15.DiscardHandler())
	data, err := os.ReadFile(reqPath)
	if err != nil {
		fmt.Fprintln(os.Stderr, err)
		return 4
	}
	var req c19FreshReq
	if err := json.Unmarshal(data, &req); err != nil {
		fmt.Fprintln(os.Stderr, err)
		return 4
	}
	resp := c19FreshResp{Pid: os.Getpid()}
	for _, it := range req.Items {
		pwb, _ := base64.StdEncoding.DecodeString(it.Password)
		pw := string(pwb)
		entropy, _ := hex.DecodeString(it.Entropy)
		// (a) the file written by the other process
		func() {
			kf, err, pmsg := c19Read(it.File)
			if err != nil || pmsg != "" {
				resp.FromFile = append(resp.FromFile, c19StoreRep{Err: "read: " + fmt.Sprint(err) + pmsg})
				return
			}
			d := c19Decrypt(kf, pw)
			if !d.ok() {
				resp.FromFile = append(resp.FromFile, c19StoreRep{Err: "decrypt: " + d.class()})
				return
			}
			resp.FromFile = append(resp.FromFile, c19ReportStore(d.ks, &req))
		}()
		// (b) from the entropy, all inside this process
		func() {
			kf, err := (&wallet.KeyStore{Entropy: entropy}).Encrypt(pw)
			if err != nil {
				resp.FromEntropy = append(resp.FromEntropy, c19StoreRep{Err: "encrypt: " + err.Error()})
				return
			}
			d := c19Decrypt(kf, pw)
			if !d.ok() {
				resp.FromEntropy = append(resp.FromEntropy, c19StoreRep{Err: "decrypt: " + d.class()})
				return
			}
			resp.FromEntropy = append(resp.FromEntropy, c19ReportStore(d.ks, &req))
		}()
	}
	out, _ := json.Marshal(&resp)
	os.Stdout.Write(out)
	return 0
}

// c19OracleReport is what the oracle expects c19ReportStore to say (signatures excluded: they are verified instead).
func c19OracleReport(entropy []byte, req *c19FreshReq) c19StoreRep {
	mn, _ := c19OracleMnemonic(entropy)
	seed := c19OracleSeed(mn)
	rep := c19StoreRep{Entropy: hex.EncodeToString(entropy), Mnemonic: mn, Seed: hex.EncodeToString(seed), Base: hex.EncodeToString(c19OracleKey(seed, c19AccountPath(0)).addr)}
	key := func(idx []uint32) c19KeyRep {
		k := c19OracleKey(seed, idx)
		five, _ := bech32.ConvertBits(k.addr, 8, 5, true)
		text, _ := bech32.Encode("z", five)
		return c19KeyRep{Pub: hex.EncodeToString(k.pub), Priv: hex.EncodeToString(k.priv), Addr: hex.EncodeToString(k.addr), Text: text}
	}
	for _, idx := range req.Indices {
		if idx >= 1<<31 {
			rep.ByIndex = append(rep.ByIndex, c19KeyRep{Err: "refused"})
		} else {
			rep.ByIndex = append(rep.ByIndex, key(c19AccountPath(idx)))
		}
	}
	for _, p := range req.Paths {
		if idx, cl := c19ParsePath(p); cl == "valid" {
			rep.ByPath = append(rep.ByPath, key(idx))
		} else {
			rep.ByPath = append(rep.ByPath, c19KeyRep{Err: "refused"})
		}
	}
	return rep
}

// c19DiffReports returns "" when equal (ignoring signatures when sigs is false)
func c19DiffReports(a, b c19StoreRep, sigs bool) string {
	strip := func(r c19StoreRep) c19StoreRep {
		o := r
		o.ByIndex = append([]c19KeyRep{}, r.ByIndex...)
		o.ByPath = append([]c19KeyRep{}, r.ByPath...)
		if !sigs {
			for i := range o.ByIndex {
				o.ByIndex[i].Sig = ""
			}
			for i := range o.ByPath {
				o.ByPath[i].Sig = ""
			}
		}
		return o
	}
	a, b = strip(a), strip(b)
	switch {
	case a.Err != b.Err:
		return "error"
	case a.Entropy != b.Entropy:
		return "entropy"
	case a.Mnemonic != b.Mnemonic:
		return "mnemonic"
	case a.Seed != b.Seed:
		return "seed"
	case a.Base != b.Base:
		return "base-address"
	case len(a.ByIndex) != len(b.ByIndex) || len(a.ByPath) != len(b.ByPath):
		return "shape"
	}
	for i := range a.ByIndex {
		if a.ByIndex[i] != b.ByIndex[i] {
			return fmt.Sprintf("key-by-index[%d]", i)
		}
	}
	for i := range a.ByPath {
		if a.ByPath[i] != b.ByPath[i] {
			return fmt.Sprintf("key-by-path[%d]", i)
		}
	}
	return ""
}

func c19RunDet(c *fw.C, caseID string, i int) {
	r := c.Rand(caseID)
	dir := c.ScratchDir("c19det")
	defer os.RemoveAll(dir)
	msg := make([]byte, 1+r.Intn(64))
	r.Read(msg)
	req := &c19FreshReq{Indices: []uint32{0, 1, 127, 128, 1<<31 - 1, 1 << 31, 1<<32 - 1, c19RandIndex(r)}, Msg: hex.EncodeToString(msg),
		Paths: []string{"m/44'/73404'/0'", "m/0'", c19PathString([]uint32{c19RandIndex(r), c19RandIndex(r), c19RandIndex(r), c19RandIndex(r)}), "m/44/73404'/0'", "m/44'/73404'/2147483648'", "m"}}
	var entropies [][]byte
	var local []c19StoreRep
	for k := 0; k < 2; k++ {
		size := c19Sizes[(i*2+k)%len(c19Sizes)]
		entropy := c19Entropy(r, size)
		pw := c19Password(r, c19PwClasses[(i+k)%len(c19PwClasses)])
		ks := c19Bootstrap(c, entropy, pw)
		if ks == nil {
			return
		}
		kf, err := ks.Encrypt(pw)
		if err != nil {
			c.Violation("encrypt-failed", c19Witness(nil, pw, entropy, map[string]interface{}{"error": err.Error()}))
			return
		}
		kf.Path = filepath.Join(dir, fmt.Sprintf("kf-%d.json", k))
		if err := kf.Write(); err != nil {
			c.Inconclusive("cannot write: " + err.Error())
			return
		}
		req.Items = append(req.Items, c19FreshItem{Entropy: hex.EncodeToString(entropy), Password: base64.StdEncoding.EncodeToString([]byte(pw)), File: kf.Path})
		entropies = append(entropies, entropy)
		// repeated evaluation in this process
		a, b := c19ReportStore(ks, req), c19ReportStore(ks, req)
		c.Eval(2)
		if d := c19DiffReports(a, b, false); d != "" {
			c.Violation("nondeterministic-in-process "+d, map[string]interface{}{"entropy": hex.EncodeToString(entropy), "first": a, "second": b})
			return
		}
		want := c19OracleReport(entropy, req)
		if d := c19DiffReports(a, want, false); d != "" {
			c.Violation("differs-from-independent-derivation "+c19StripIndex(d), map[string]interface{}{"entropy": hex.EncodeToString(entropy), "differs": d, "wallet": a, "oracle": want, "request": req})
			return
		}
		// signatures of the report verify under the oracle's keys
		for j, kr := range a.ByIndex {
			if kr.Err != "" {
				continue
			}
			sig, _ := hex.DecodeString(kr.Sig)
			pub, _ := hex.DecodeString(want.ByIndex[j].Pub)
			c.Eval(1)
			if !ed25519.Verify(pub, msg, sig) {
				c.Violation("signature-rejected-by-independent-verifier", map[string]interface{}{"index": req.Indices[j], "entropy": hex.EncodeToString(entropy)})
				return
			}
		}
		local = append(local, a)
		c.Distinct(fmt.Sprintf("det/in-process/size=%d/equal", size))
	}
	reqPath := filepath.Join(dir, "req.json")
	data, _ := json.Marshal(req)
	if err := os.WriteFile(reqPath, data, 0o600); err != nil {
		c.Inconclusive("cannot write request: " + err.Error())
		return
	}
	exe, err := os.Executable()
	if err != nil {
		c.Inconclusive("no executable path: " + err.Error())
		return
	}
	cmd := exec.Command(exe, "c19-fresh-process")
	cmd.Env = append(os.Environ(), c19FreshEnv+"="+reqPath)
	var stdout, stderr bytes.Buffer
	cmd.Stdout, cmd.Stderr = &stdout, &stderr
	if err := cmd.Start(); err != nil {
		c.Inconclusive("cannot start fresh process: " + err.Error())
		return
	}
	done := make(chan error, 1)
	go func() { done <- cmd.Wait() }()
	select {
	case err = <-done:
	case <-time.After(5 * time.Minute): // watchdog only; never decides held/violated
		_ = cmd.Process.Kill()
		<-done
		c.Inconclusive("fresh process watchdog fired")
		return
	}
	var resp c19FreshResp
	if err != nil || json.Unmarshal(stdout.Bytes(), &resp) != nil {
		tail := stderr.String()
		if len(tail) > 600 {
			tail = tail[len(tail)-600:]
		}
		c.Inconclusive(fmt.Sprintf("fresh process failed: %v %s", err, tail))
		return
	}
	if resp.Pid == os.Getpid() || len(resp.FromFile) != len(local) || len(resp.FromEntropy) != len(local) {
		c.Inconclusive("fresh process answer malformed")
		return
	}
	for k := range local {
		c.Eval(2)
		for _, pair := range []struct {
			name string
			rep  c19StoreRep
		}{{"file-written-by-other-process", resp.FromFile[k]}, {"from-entropy", resp.FromEntropy[k]}} {
			if pair.rep.Err != "" {
				sig := "fresh-process-failed " + pair.name
				c.Violation(sig, map[string]interface{}{"error": pair.rep.Err, "entropy": hex.EncodeToString(entropies[k]), "item": req.Items[k]})
				return
			}
			if d := c19DiffReports(local[k], pair.rep, false); d != "" {
				c.Violation("differs-across-processes "+pair.name+" "+c19StripIndex(d), map[string]interface{}{"differs": d, "this_process": local[k], "fresh_process": pair.rep, "request": req})
				return
			}
			for j, kr := range pair.rep.ByIndex {
				if kr.Err != "" {
					continue
				}
				sig, _ := hex.DecodeString(kr.Sig)
				pub, _ := hex.DecodeString(local[k].ByIndex[j].Pub) // equal to the oracle's key (checked above)
				c.Eval(1)
				if !ed25519.Verify(pub, msg, sig) {
					c.Violation("signature-rejected-by-independent-verifier", map[string]interface{}{"index": req.Indices[j], "made_in": "fresh process", "entropy": hex.EncodeToString(entropies[k])})
					return
				}
				if kr.Sig == local[k].ByIndex[j].Sig {
					c.Count("signatures_byte_equal_across_processes", 1)
				}
			}
			c.Distinct(fmt.Sprintf("det/fresh-process/%s/size=%d/equal", pair.name, len(entropies[k])))
		}
	}
	c.Count("fresh_processes", 1)
	if i == 0 {
		c.Sample(map[string]interface{}{"case": caseID, "this_pid": os.Getpid(), "fresh_pid": resp.Pid, "items": len(local), "indices": req.Indices, "paths": req.Paths})
	}
}

func c19StripIndex(d string) string {
	if k := strings.IndexByte(d, '['); k > 0 {
		return d[:k]
	}
	return d
}
