package checks

import (
	"regexp"
	"strings"
)

var repoFrame = regexp.MustCompile(`github\.com/zenon-network/go-zenon/[\w/\-\.]+(\(\*?\w+\))?[\w\.]*`)

// topRepoFrame extracts the first go-zenon function after the panic line of a goroutine dump.
func topRepoFrame(tail string) string {
	i := strings.Index(tail, "panic:")
	if j := strings.Index(tail, "fatal error:"); j >= 0 && (i < 0 || j < i) {
		i = j
	}
	if i < 0 {
		i = 0
	}
	for _, m := range repoFrame.FindAllString(tail[i:], -1) {
		if strings.Contains(m, "common.DealWithErr") || strings.Contains(m, "common.RecoverStack") {
			continue
		}
		m = strings.TrimPrefix(m, "github.com/zenon-network/go-zenon/")
		return m
	}
	return "unknown-frame"
}
