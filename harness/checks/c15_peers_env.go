//go:build verif

package checks

// C15 — environment (populated nodes), tiny independent RLP codec, fake-peer sessions.

import (
	"runtime"
	"bytes"
	"encoding/binary"
	"fmt"
	"io"
	"math/big"
	"os"
	"path/filepath"
	"runtime/debug"
	"strings"
	"sync"
	"sync/atomic"
	"time"

	"github.com/inconshreveable/log15"

	g "github.com/zenon-network/go-zenon/chain/genesis/mock"
	"github.com/zenon-network/go-zenon/chain/nom"
	"github.com/zenon-network/go-zenon/common"
	"github.com/zenon-network/go-zenon/common/types"
	"github.com/zenon-network/go-zenon/p2p"
	"github.com/zenon-network/go-zenon/p2p/discover"
	"github.com/zenon-network/go-zenon/protocol"

	"verif/harness/fw"
	"verif/harness/simnet"
)

const c15Watchdog = 20 * time.Second // generous; firing is inconclusive, never a verdict

// ---------------------------------------------------------------------------
// independent RLP encoder / splitter (the oracle never uses the node's structs to count)

func c15RlpHdr(base byte, n int) []byte {
	if n < 56 {
		return []byte{base + byte(n)}
	}
	var b [8]byte
	binary.BigEndian.PutUint64(b[:], uint64(n))
	i := 0
	for b[i] == 0 {
		i++
	}
	return append([]byte{base + 55 + byte(8-i)}, b[i:]...)
}

func c15RlpStr(s []byte) []byte {
	if len(s) == 1 && s[0] < 0x80 {
		return []byte{s[0]}
	}
	return append(c15RlpHdr(0x80, len(s)), s...)
}

func c15RlpUint(u uint64) []byte {
	if u == 0 {
		return []byte{0x80}
	}
	var b [8]byte
	binary.BigEndian.PutUint64(b[:], u)
	i := 0
	for b[i] == 0 {
		i++
	}
	return c15RlpStr(b[i:])
}

func c15RlpList(items ...[]byte) []byte {
	n := 0
	for _, it := range items {
		n += len(it)
	}
	out := c15RlpHdr(0xc0, n)
	for _, it := range items {
		out = append(out, it...)
	}
	return out
}

func c15RlpHashes(hs []types.Hash) []byte {
	body := make([]byte, 0, 33*len(hs))
	for i := range hs {
		body = append(body, 0xa0)
		body = append(body, hs[i][:]...)
	}
	return append(c15RlpHdr(0xc0, len(body)), body...)
}

// c15RlpSplit splits the first item of b: isList, content, rest.
func c15RlpSplit(b []byte) (isList bool, content, rest []byte, err error) {
	if len(b) == 0 {
		return false, nil, nil, io.ErrUnexpectedEOF
	}
	t := b[0]
	var hdr, n int
	switch {
	case t < 0x80:
		return false, b[:1], b[1:], nil
	case t < 0xb8:
		hdr, n = 1, int(t-0x80)
	case t < 0xc0:
		l := int(t - 0xb7)
		if len(b) < 1+l {
			return false, nil, nil, io.ErrUnexpectedEOF
		}
		hdr = 1 + l
		for _, x := range b[1 : 1+l] {
			n = n<<8 | int(x)
		}
	case t < 0xf8:
		isList, hdr, n = true, 1, int(t-0xc0)
	default:
		l := int(t - 0xf7)
		if len(b) < 1+l {
			return false, nil, nil, io.ErrUnexpectedEOF
		}
		isList, hdr = true, 1+l
		for _, x := range b[1 : 1+l] {
			n = n<<8 | int(x)
		}
	}
	if n < 0 || len(b) < hdr+n {
		return false, nil, nil, io.ErrUnexpectedEOF
	}
	return isList, b[hdr : hdr+n], b[hdr+n:], nil
}

// c15RlpItems returns the top-level items of a list payload (nil,false when not a list).
func c15RlpItems(payload []byte) ([][]byte, bool) {
	isList, content, _, err := c15RlpSplit(payload)
	if err != nil || !isList {
		return nil, false
	}
	var items [][]byte
	for len(content) > 0 {
		_, _, rest, err := c15RlpSplit(content)
		if err != nil {
			return items, false
		}
		items = append(items, content[:len(content)-len(rest)])
		content = rest
	}
	return items, true
}

func c15ItemHash(item []byte) (types.Hash, bool) {
	var h types.Hash
	isList, content, _, err := c15RlpSplit(item)
	if err != nil || isList || len(content) != 32 {
		return h, false
	}
	copy(h[:], content)
	return h, true
}

func c15ItemUint(item []byte) (uint64, bool) {
	isList, content, _, err := c15RlpSplit(item)
	if err != nil || isList || len(content) > 8 {
		return 0, false
	}
	var u uint64
	for _, x := range content {
		u = u<<8 | uint64(x)
	}
	return u, true
}

// ---------------------------------------------------------------------------
// environment: producer P (owns the pillar keys) and target T (the node under attack)

type c15Env struct {
	P, T    *simnet.Node
	hashes  []types.Hash // P's chain by height (index 0 unused)
	byHash  map[types.Hash]uint64
	chainID uint64
	genesis types.Hash
	sends   []*nom.AccountBlock // confirmed user blocks on P
	tainted bool
	curC          *fw.C  // the running case (for verdicts reached inside the environment)
	curCtx        string // what was sent last
	stallReported bool
}

var c15env *c15Env

const c15BaseHeight = 720

func c15GetEnv(c *fw.C) *c15Env {
	if c15env != nil && !c15env.tainted {
		return c15env
	}
	if c15env != nil {
		// a wedged node cannot be stopped cleanly; abandon it
		c.Count("env_rebuilt_after_taint", 1)
	}
	simnet.Setup()
	if os.Getenv("C15_DEBUG") != "" {
		for _, l := range []common.Logger{common.ProtocolLogger, common.DownloaderLogger, common.FetcherLogger} {
			l.SetHandler(log15.StreamHandler(os.Stderr, log15.LogfmtFormat()))
		}
	}
	e := &c15Env{byHash: map[types.Hash]uint64{}}
	t0 := time.Now()
	base := c15SharedBase(c)
	dirP, dirT := c.ScratchDir("c15-P"), c.ScratchDir("c15-T")
	if base != "" && c15CopyDir(base, dirP) == nil && c15CopyDir(base, dirT) == nil {
		e.P = simnet.Open("P", dirP, simnet.MockGenesis(), g.PillarKeys)
		e.T = simnet.Open("T", dirT, simnet.MockGenesis(), nil)
		c.Count("env_from_shared_base", 1)
	} else {
		_ = os.RemoveAll(dirP)
		_ = os.RemoveAll(dirT)
		_ = os.MkdirAll(dirP, 0o755)
		_ = os.MkdirAll(dirT, 0o755)
		e.P = simnet.Open("P", dirP, simnet.MockGenesis(), g.PillarKeys)
		c15Populate(e.P)
		e.T = simnet.Open("T", dirT, simnet.MockGenesis(), nil)
		if err := e.T.SyncFrom(e.P, 64); err != nil {
			panic("c15: cannot sync target node: " + err.Error())
		}
		c.Count("env_built_privately", 1)
	}
	if e.P.Height() != c15BaseHeight || e.T.Height() != c15BaseHeight {
		panic(fmt.Sprintf("c15: environment heights %d / %d, want %d", e.P.Height(), e.T.Height(), c15BaseHeight))
	}
	// confirmed user blocks, read back from the ledger
	for h := uint64(2); h <= c15BaseHeight; h++ {
		if d := e.P.Detailed(h); d != nil {
			for _, b := range d.AccountBlocks {
				if b != nil && (b.BlockType == nom.BlockTypeUserSend || b.BlockType == nom.BlockTypeUserReceive) {
					e.sends = append(e.sends, b)
				}
			}
		}
	}
	c.Logf("c15 env ready in %v (shared base %q, %d user blocks)", time.Since(t0), base, len(e.sends))
	e.chainID = e.T.Chain.ChainIdentifier()
	e.genesis = e.T.Chain.GetGenesisMomentum().Hash
	e.refresh()
	c15env = e
	c.Count("env_built", 1)
	return e
}

// c15Populate produces the base chain: c15BaseHeight momentums with a few user transfers.
func c15Populate(p *simnet.Node) {
	var lastSend *nom.AccountBlock
	for p.Height() < c15BaseHeight {
		switch p.Height() % 60 {
		case 5:
			if b, err := p.Send(g.User1, g.User2.Address, types.ZnnTokenStandard, big.NewInt(100000000), nil); err == nil {
				lastSend = b
			}
		case 8:
			if lastSend != nil {
				_, _ = p.Receive(g.User2, lastSend.Hash)
				lastSend = nil
			}
		}
		p.MustProduce(1)
	}
}

// c15SharedBase returns a directory holding the populated ledger, built once per run by
// whichever child comes first (the driver wipes out/<id>/scratch at the start of every run).
// Waiting for the builder is set-up only; no verdict depends on it.
func c15SharedBase(c *fw.C) string {
	root := filepath.Join(c.OutDir, "scratch", "c15-base")
	ready := filepath.Join(root, "READY")
	if _, err := os.Stat(ready); err == nil {
		return filepath.Join(root, "ledger")
	}
	_ = os.MkdirAll(filepath.Join(c.OutDir, "scratch"), 0o755)
	if err := os.Mkdir(root, 0o755); err == nil {
		dir := filepath.Join(root, "ledger")
		_ = os.MkdirAll(dir, 0o755)
		p := simnet.Open("base", dir, simnet.MockGenesis(), g.PillarKeys)
		c15Populate(p)
		p.Stop() // closes the LevelDB manager through chain.Stop
		_ = os.WriteFile(ready, []byte("ok"), 0o644)
		return dir
	}
	for i := 0; i < 900; i++ {
		if _, err := os.Stat(ready); err == nil {
			return filepath.Join(root, "ledger")
		}
		time.Sleep(100 * time.Millisecond)
	}
	return ""
}

func c15CopyDir(src, dst string) error {
	return filepath.Walk(src, func(p string, info os.FileInfo, err error) error {
		if err != nil {
			return err
		}
		rel, _ := filepath.Rel(src, p)
		if info.IsDir() {
			return os.MkdirAll(filepath.Join(dst, rel), 0o755)
		}
		if info.Name() == "LOCK" {
			return nil
		}
		data, err := os.ReadFile(p)
		if err != nil {
			return err
		}
		return os.WriteFile(filepath.Join(dst, rel), data, 0o644)
	})
}

// refresh re-reads P's chain hashes (after P produced more).
func (e *c15Env) refresh() {
	top := e.P.Height()
	for h := uint64(len(e.hashes)); h <= top; h++ {
		if h == 0 {
			e.hashes = append(e.hashes, types.Hash{})
			continue
		}
		d := e.P.Detailed(h)
		e.hashes = append(e.hashes, d.Momentum.Hash)
		e.byHash[d.Momentum.Hash] = h
	}
}

// ahead makes sure P is at least n momentums ahead of T.
func (e *c15Env) ahead(n int) {
	for e.P.Height() < e.T.Height()+uint64(n) {
		if e.P.Height()%7 == 3 {
			if b, err := e.P.Send(g.User3, g.User4.Address, types.ZnnTokenStandard, big.NewInt(1000), nil); err == nil {
				e.sends = append(e.sends, b)
			}
		}
		e.P.MustProduce(1)
	}
	e.refresh()
}

// barrier waits for background imports started by a hostile message: short settle,
// then the chain insert lock (held by InsertChain / AddAccountBlocks for their whole run).
func (e *c15Env) barrier(settle time.Duration) bool {
	time.Sleep(settle)
	done := make(chan struct{})
	go func() {
		l := e.T.Chain.AcquireInsert("c15 barrier")
		l.Unlock()
		close(done)
	}()
	select {
	case <-done:
		return true
	case <-time.After(c15Watchdog):
		e.stallVerdict("chain insert lock not obtained by the barrier")
		return false
	}
}

// stallVerdict: the watchdog alone never decides; a structural proof that the insert lock is orphaned does.
func (e *c15Env) stallVerdict(where string) {
	if e.curC == nil || e.stallReported {
		return
	}
	if proven, wit := c15InsertLockOrphaned(); proven {
		e.stallReported = true
		e.curC.Violation("message-loop-stalled chain-insert-lock-can-never-be-released", map[string]interface{}{"observed_at": where, "context": e.curCtx,
			"proof": "a goroutine waits in chain.AcquireInsert and no goroutine is inside any function that holds the lock without itself waiting for it", "a_waiting_goroutine": wit})
	}
}

// c15InsertLockOrphaned decides, from one goroutine dump, whether the chain insert lock can ever be released again.
// The lock is taken only through chain.AcquireInsert, by a known set of functions that release it before they return.
// If at least one goroutine waits inside AcquireInsert and NO goroutine is inside one of those functions without itself
// waiting inside AcquireInsert, then whoever holds the lock is either gone (returned without unlocking) or is one of
// the waiters (took it twice): no amount of further waiting helps. This is a statement about the structure of the
// blocked program, not about elapsed time. A goroutine that legitimately holds the lock and is merely slow has one of
// the holder frames and is not inside AcquireInsert: then the answer is "not proven" and the caller stays inconclusive.
var c15LockHolders = []string{
	"protocol.chainBridge.AddAccountBlocks", "protocol.chainBridge.InsertChain",
	"protocol.(*broadcaster).CreateMomentum", "protocol.(*broadcaster).CreateAccountBlock",
	"pillar.(*worker).generateNext", "pillar.(*worker).generateMomentum", "chain.(*chain).Init",
	"simnet.(*Node).CreateMomentum", "simnet.(*Node).CreateAccountBlock",
}

func c15InsertLockOrphaned() (proven bool, witness string) {
	buf := make([]byte, 16<<20)
	dump := string(buf[:runtime.Stack(buf, true)])
	waiting, active := 0, 0
	var firstWaiter string
	for _, g := range strings.Split(dump, "\n\n") {
		inAcquire := strings.Contains(g, "chain.(*chain).AcquireInsert")
		holder := false
		for _, h := range c15LockHolders {
			if strings.Contains(g, h+"(") {
				holder = true
			}
		}
		switch {
		case inAcquire:
			waiting++
			if firstWaiter == "" || holder {
				firstWaiter = g
			}
		case holder:
			active++
		}
	}
	if waiting > 0 && active == 0 {
		if len(firstWaiter) > 2500 {
			firstWaiter = firstWaiter[:2500]
		}
		return true, firstWaiter
	}
	return false, ""
}

// ---------------------------------------------------------------------------
// fake peer session over p2p.MsgPipe

var c15CodeNames = []string{"StatusMsg", "NewBlockHashesMsg", "TxMsg", "GetBlockHashesMsg", "BlockHashesMsg", "GetBlocksMsg", "BlocksMsg", "NewBlockMsg", "GetBlockHashesFromNumberMsg"}

func c15CodeName(code uint64) string {
	if code < uint64(len(c15CodeNames)) {
		return c15CodeNames[code]
	}
	return fmt.Sprintf("UnknownMsg(%d)", code)
}

type c15In struct {
	code    uint64
	size    uint32
	payload []byte
	items   int // top-level list items, -1 when the payload is not a well-formed list
}

type c15Sess struct {
	c     *fw.C
	label string
	pid   string // the id the protocol manager knows this peer by
	our   *p2p.MsgPipeRW
	done  chan struct{} // closed when Run returned (or panicked)
	err   error
	pnc   interface{}
	stack string

	mu     sync.Mutex
	in     []c15In
	cursor int
	wake   chan struct{}
	ctx    string      // code name of the hostile request replies are attributed to
	ctxDet interface{} // witness detail of that request
	onMsg  func(in c15In)
	rdDone chan struct{}
}

var c15PeerSeq uint64

// c15Open starts pm's protocol Run on one end of a message pipe, wrapped in a recover.
func c15Open(c *fw.C, pm *protocol.ProtocolManager, label string) *c15Sess {
	our, theirs := p2p.MsgPipe()
	s := &c15Sess{c: c, label: label, our: our, done: make(chan struct{}), wake: make(chan struct{}, 1), rdDone: make(chan struct{})}
	var id discover.NodeID
	seq := atomic.AddUint64(&c15PeerSeq, 1)
	binary.BigEndian.PutUint64(id[:8], seq<<8|0x5a)
	copy(id[8:], label)
	peer := p2p.NewPeer(id, "c15-"+label, nil)
	s.pid = fmt.Sprintf("%x", id[:8])
	go func() {
		defer func() {
			if r := recover(); r != nil {
				s.pnc = r
				s.stack = string(debug.Stack())
			}
			close(s.done)
			_ = theirs.Close() // like the real peer: the connection is closed once the protocol returned
		}()
		s.err = pm.SubProtocols[0].Run(peer, theirs)
	}()
	go s.reader()
	return s
}

func (s *c15Sess) reader() {
	defer close(s.rdDone)
	for {
		msg, err := s.our.ReadMsg()
		if err != nil {
			return
		}
		data, _ := io.ReadAll(io.LimitReader(msg.Payload, c15MaxMsg+4096))
		_, _ = io.Copy(io.Discard, msg.Payload)
		in := c15In{code: msg.Code, size: msg.Size, payload: data, items: -1}
		if items, ok := c15RlpItems(data); ok {
			in.items = len(items)
		}
		s.mu.Lock()
		ctx, det := s.ctx, s.ctxDet
		s.mu.Unlock()
		if ctx == "" {
			ctx = "unsolicited"
		}
		if msg.Size > c15MaxMsg {
			s.c.Violation("node-sent-oversize-message "+c15CodeName(msg.Code), map[string]interface{}{"after": ctx, "request": det, "size": msg.Size, "limit": c15MaxMsg})
		}
		if msg.Code == 4 && in.items > c15MaxHashes {
			if mm, ok := det.(map[string]interface{}); ok {
				s.c.SetAdd("limit_exceeded_by", fmt.Sprint(mm["code_name"], " ", mm["class"]))
			}
			s.c.Violation("reply-exceeds-limit "+ctx+" hashes>512", map[string]interface{}{"request": det, "hashes_in_reply": in.items, "limit": c15MaxHashes, "session": s.label})
		}
		if msg.Code == 6 && in.items > c15MaxBlocks {
			s.c.Violation("reply-exceeds-limit "+ctx+" momentums>128", map[string]interface{}{"request": det, "momentums_in_reply": in.items, "limit": c15MaxBlocks, "session": s.label})
		}
		s.c.Eval(1)
		s.mu.Lock()
		s.in = append(s.in, in)
		cb := s.onMsg
		s.mu.Unlock()
		select {
		case s.wake <- struct{}{}:
		default:
		}
		if cb != nil {
			cb(in)
		}
	}
}

func (s *c15Sess) setOnMsg(f func(in c15In)) {
	s.mu.Lock()
	s.onMsg = f
	s.mu.Unlock()
}

func (s *c15Sess) setCtx(ctx string, det interface{}) {
	s.mu.Lock()
	s.ctx, s.ctxDet = ctx, det
	s.mu.Unlock()
}

func (s *c15Sess) ended() bool {
	select {
	case <-s.done:
		return true
	default:
		return false
	}
}

// write sends one message; returns "ok", "ended" (session over before the node consumed it) or "timeout".
func (s *c15Sess) write(code uint64, size uint32, payload io.Reader) string {
	res := make(chan error, 1)
	go func() { res <- s.our.WriteMsg(p2p.Msg{Code: code, Size: size, Payload: payload}) }()
	select {
	case err := <-res:
		if err != nil {
			return "ended"
		}
		return "ok"
	case <-s.done:
		return "ended"
	case <-time.After(c15Watchdog):
		return "timeout"
	}
}

func (s *c15Sess) writeBytes(code uint64, payload []byte) string {
	return s.write(code, uint32(len(payload)), bytes.NewReader(payload))
}

// next returns the next not yet consumed inbound message matching pred (skipping others).
// status: "ok", "ended", "timeout".
func (s *c15Sess) next(pred func(in c15In) bool) (c15In, string) {
	deadline := time.After(c15Watchdog)
	for {
		s.mu.Lock()
		for s.cursor < len(s.in) {
			in := s.in[s.cursor]
			s.cursor++
			if pred(in) {
				s.mu.Unlock()
				return in, "ok"
			}
		}
		s.mu.Unlock()
		select {
		case <-s.wake:
		case <-s.rdDone:
			// reader finished: everything that will ever arrive is in s.in
			s.mu.Lock()
			rem := s.cursor < len(s.in)
			s.mu.Unlock()
			if !rem {
				return c15In{}, "ended"
			}
		case <-deadline:
			return c15In{}, "timeout"
		}
	}
}

// since returns the inbound messages from index i on (without consuming).
func (s *c15Sess) since(i int) []c15In {
	s.mu.Lock()
	defer s.mu.Unlock()
	if i > len(s.in) {
		i = len(s.in)
	}
	return append([]c15In(nil), s.in[i:]...)
}

func (s *c15Sess) inLen() int {
	s.mu.Lock()
	defer s.mu.Unlock()
	return len(s.in)
}

// close ends the session from our side and waits for Run to return.
func (s *c15Sess) close() bool {
	_ = s.our.Close()
	select {
	case <-s.done:
		return true
	case <-time.After(c15Watchdog):
		return false
	}
}

func c15StatusPayload(version, network uint32, td uint64, head, genesis types.Hash) []byte {
	return c15RlpList(c15RlpUint(uint64(version)), c15RlpUint(uint64(network)), c15RlpUint(td), c15RlpStr(head[:]), c15RlpStr(genesis[:]))
}

// handshake performs the hand-rolled status exchange. Returns "ok", "ended", "timeout".
func (s *c15Sess) handshake(e *c15Env, td uint64, head types.Hash) string {
	if _, st := s.next(func(in c15In) bool { return in.code == 0 }); st != "ok" {
		return st
	}
	return s.writeBytes(0, c15StatusPayload(61, uint32(e.chainID), td, head, e.genesis))
}

// sentinel asks for one hash by number (or one block when wantBlocks) and waits for the answer.
// It proves the session's message loop handled everything sent before.
func (s *c15Sess) sentinel(e *c15Env, wantBlocks bool) string {
	n := uint64(2) // fixed height 2
	if wantBlocks {
		if st := s.writeBytes(5, c15RlpHashes([]types.Hash{e.hashes[n]})); st != "ok" {
			return st
		}
		_, st := s.next(func(in c15In) bool { return in.code == 6 && in.items == 1 })
		return st
	}
	if st := s.writeBytes(8, c15RlpList(c15RlpUint(n), c15RlpUint(1))); st != "ok" {
		return st
	}
	_, st := s.next(func(in c15In) bool {
		if in.code != 4 || in.items != 1 {
			return false
		}
		items, _ := c15RlpItems(in.payload)
		h, ok := c15ItemHash(items[0])
		return ok && h == e.hashes[n]
	})
	return st
}

// probe is the honest liveness probe: TxMsg[] (chain insert lock), BlocksMsg[] (fetcher
// loop round trip), GetBlockHashesFromNumber{h-2,3} (chain read + reply).
// Returns "ok", "ended", "timeout", "wrong".
func (s *c15Sess) probe(e *c15Env) string {
	top := e.T.Height()
	from := top - 2
	for _, m := range []struct {
		code uint64
		p    []byte
	}{{2, []byte{0xc0}}, {6, []byte{0xc0}}, {8, c15RlpList(c15RlpUint(from), c15RlpUint(3))}} {
		if st := s.writeBytes(m.code, m.p); st != "ok" {
			return st
		}
	}
	in, st := s.next(func(in c15In) bool { return in.code == 4 })
	if st != "ok" {
		return st
	}
	items, ok := c15RlpItems(in.payload)
	if !ok || len(items) != 3 {
		return "wrong"
	}
	want := map[types.Hash]bool{e.hashes[from]: true, e.hashes[from+1]: true, e.hashes[from+2]: true}
	for _, it := range items {
		h, ok := c15ItemHash(it)
		if !ok || !want[h] {
			return "wrong"
		}
		delete(want, h)
	}
	s.c.Eval(1)
	return "ok"
}

// c15ErrClass normalises an error into a short class (no hashes, no numbers).
var c15ErrStrip = strings.NewReplacer("0", "", "1", "", "2", "", "3", "", "4", "", "5", "", "6", "", "7", "", "8", "", "9", "")

func c15ErrClass(err error) string {
	if err == nil {
		return "nil"
	}
	t := err.Error()
	for _, k := range []string{"Message too long", "Invalid message code", "Invalid message", "Protocol version mismatch", "NetworkId mismatch", "Genesis block mismatch", "No status message", "Extra status message", "closed message pipe", "rlp:", "already registered"} {
		if strings.Contains(t, k) {
			return strings.TrimSuffix(k, ":")
		}
	}
	t = c15ErrStrip.Replace(t)
	if len(t) > 40 {
		t = t[:40]
	}
	return t
}

// c15Stop stops a protocol manager with a watchdog.
func c15Stop(pm *protocol.ProtocolManager) bool {
	done := make(chan struct{})
	go func() { pm.Stop(); close(done) }()
	select {
	case <-done:
		return true
	case <-time.After(c15Watchdog):
		return false
	}
}
