//go:build verif

package checks

// C15 — protocol piece: real ProtocolManager, fake peers over p2p.MsgPipe.

import (
	"fmt"
	"math"
	"math/rand"
	"strconv"
	"time"

	"github.com/zenon-network/go-zenon/chain/nom"
	"github.com/zenon-network/go-zenon/common/types"
	"github.com/zenon-network/go-zenon/protocol"

	"verif/harness/fw"
	"verif/harness/simnet"
)

type c15Ctx struct {
	c      *fw.C
	e      *c15Env
	pm     *protocol.ProtocolManager
	honest *c15Sess
	caseID string
	dead   bool // the case cannot continue (watchdog fired / node wedged)
}

// c15BridgeWrap, when set, wraps the chain bridge handed to the protocol manager (C16 records InsertChain calls).
var c15BridgeWrap func(protocol.ChainBridge) protocol.ChainBridge

func c15NewCtx(c *fw.C, caseID string) *c15Ctx {
	e := c15GetEnv(c)
	e.curC, e.curCtx, e.stallReported = c, caseID, false
	x := &c15Ctx{c: c, e: e, caseID: caseID}
	var br protocol.ChainBridge = e.T.Bridge
	if c15BridgeWrap != nil {
		br = c15BridgeWrap(br)
	}
	x.pm = protocol.NewProtocolManager(1, e.chainID, br)
	x.pm.Start()
	x.openHonest()
	if !x.dead {
		if st := x.honest.probe(e); st != "ok" {
			c.Inconclusive("control: honest probe before any hostile message: " + st)
			x.dead = true
			e.tainted = true
		}
	}
	return x
}

// honestServe makes the honest session behave like an honest peer when the node asks IT
// for hashes or blocks (the downloader uses every registered peer as a block source).
func (x *c15Ctx) honestServe(s *c15Sess) {
	reqs := make(chan c15In, 1024)
	s.setOnMsg(func(in c15In) {
		if in.code == 5 || in.code == 8 {
			select {
			case reqs <- in:
			default:
			}
		}
	})
	go func() {
		e := x.e
		for {
			select {
			case <-s.done:
				return
			case in := <-reqs:
				items, _ := c15RlpItems(in.payload)
				if in.code == 8 && len(items) == 2 {
					num, _ := c15ItemUint(items[0])
					amt, _ := c15ItemUint(items[1])
					var l []types.Hash
					top := e.T.Height()
					for h := num; h < num+amt && h <= top && len(l) < c15MaxHashes; h++ {
						if h > 0 {
							l = append(l, e.hashes[h])
						}
					}
					s.writeBytes(4, c15RlpHashes(l))
				}
				if in.code == 5 {
					l := []*nom.DetailedMomentum{}
					for _, it := range items {
						if h, ok := c15ItemHash(it); ok && len(l) < c15MaxBlocks {
							if d := e.P.Bridge.GetBlock(h); d != nil && d.Momentum.Height > 1 {
								l = append(l, simnet.CloneDetailed(d))
							}
						}
					}
					s.writeBytes(6, c15Enc(l))
				}
			}
		}
	}()
}

func (x *c15Ctx) openHonest() {
	x.honest = c15Open(x.c, x.pm, "honest")
	x.honestServe(x.honest)
	top := x.e.T.Height()
	if st := x.honest.handshake(x.e, top, x.e.hashes[top]); st != "ok" {
		x.c.Inconclusive("control: honest handshake: " + st)
		x.dead = true
		x.e.tainted = true
	}
}

func (x *c15Ctx) finish() {
	if !x.honest.close() {
		x.c.Inconclusive("honest session did not return after its pipe was closed")
		x.e.tainted = true
	}
	if !x.e.barrier(0) {
		x.c.Inconclusive("chain insert lock not released at the end of the case")
		x.e.tainted = true
	}
	if !c15Stop(x.pm) {
		x.c.Inconclusive("ProtocolManager.Stop did not return")
		x.e.tainted = true
	}
}

// checkHonest runs the honest probe after a hostile message.
func (x *c15Ctx) checkHonest(after string, wit interface{}) {
	if x.dead {
		return
	}
	switch st := x.honest.probe(x.e); st {
	case "ok":
	case "ended":
		if x.honest.pnc != nil {
			x.c.Violation("protocol-panic honest-session after "+after, map[string]interface{}{"hostile": wit, "panic": fmt.Sprint(x.honest.pnc), "stack": c15Trim(x.honest.stack)})
		} else {
			x.c.Violation("honest-session-dropped after "+after, map[string]interface{}{"hostile": wit, "run_error": fmt.Sprint(x.honest.err)})
		}
		x.openHonest()
	case "wrong":
		x.c.Violation("honest-probe-wrong-answer after "+after, map[string]interface{}{"hostile": wit})
	default:
		x.e.stallVerdict("honest probe unanswered after " + after)
		x.c.Inconclusive("honest probe unanswered when the watchdog fired, after " + after)
		x.dead = true
		x.e.tainted = true
	}
}

func c15Trim(s string) string {
	if len(s) > 3000 {
		return s[:3000]
	}
	return s
}

func c15Bucket(n int) string {
	switch {
	case n < 0:
		return "notlist"
	case n <= 1:
		return strconv.Itoa(n)
	case n <= c15MaxBlocks:
		return "2-128"
	case n <= c15MaxHashes:
		return "129-512"
	}
	return ">512"
}

// semanticClass names what the concrete message IS rather than how it was generated, so that one
// root cause gives one signature: a GetBlockHashesMsg that decodes to a hash the node does not
// hold is "unknown-hash" whether it came from the unknown-hash, zero-hash or bitflip generator.
func (x *c15Ctx) semanticClass(m *c15Msg) string {
	if m.code == 3 && int(m.size) >= len(m.payload) {
		if items, ok := c15RlpItems(m.payload); ok && len(items) == 2 {
			if h, ok := c15ItemHash(items[0]); ok {
				if _, known := x.e.byHash[h]; !known {
					return "unknown-hash"
				}
			}
		}
	}
	return m.class
}

// reportPanic records a panic that reached the top of the protocol Run function.
func (x *c15Ctx) reportPanic(s *c15Sess, phase string, m *c15Msg) {
	sig := "protocol-panic " + c15CodeName(m.code) + " " + x.semanticClass(m)
	if phase == "pre" {
		sig += " pre-handshake"
	}
	_, frame := c15TopFrame("panic: " + fmt.Sprint(s.pnc) + "\n\ngoroutine 1 [running]:\n" + s.stack)
	x.c.Violation(sig, map[string]interface{}{"message": m.witness(), "panic": fmt.Sprint(s.pnc), "top_frame": frame, "stack": c15Trim(s.stack),
		"note": "p2p.Peer.startProtocols runs Run on a goroutine without recover: in the real node this panic terminates the process"})
	x.c.SetAdd("panicking_inputs", c15CodeName(m.code)+" "+m.class)
}

// fire sends one hostile message on a fresh session and applies every oracle. Returns the outcome class.
func (x *c15Ctx) fire(phase string, m *c15Msg) string {
	c, e := x.c, x.e
	hs := c15Open(c, x.pm, "hostile")
	defer hs.close()
	if phase == "post" {
		top := e.T.Height()
		if st := hs.handshake(e, top, e.hashes[top]); st != "ok" {
			c.Inconclusive("hostile session handshake: " + st)
			return "no-handshake"
		}
		if st := hs.sentinel(e, false); st != "ok" {
			c.Inconclusive("hostile session not served after handshake: " + st)
			return "no-handshake"
		}
	}
	name := c15CodeName(m.code)
	hs.setCtx(name, m.witness())
	mark := hs.inLen()
	wst := hs.write(m.code, m.size, m.reader())
	c.Eval(1)
	sst := "ended"
	if wst == "timeout" {
		sst = "timeout"
	} else if !hs.ended() || wst == "ok" {
		sst = hs.sentinel(e, m.code == 3 || m.code == 8)
	}
	if sst == "timeout" && hs.ended() {
		sst = "ended"
	}
	var outcome string
	switch {
	case sst == "timeout":
		c.Inconclusive(fmt.Sprintf("hostile session neither answered nor ended after %s %s (%s)", name, m.class, phase))
		outcome = "stuck"
	case hs.ended():
		<-hs.done
		if hs.pnc != nil {
			x.reportPanic(hs, phase, m)
			outcome = "panic"
		} else {
			cl := c15ErrClass(hs.err)
			c.SetAdd("session_end_reasons", cl)
			outcome = "ended:" + cl
		}
	default:
		outcome = "alive"
	}
	// replies that arrived after the hostile message (the sentinel's own answer is the last one)
	var replies []c15In
	for _, in := range hs.since(mark) {
		if in.code == 4 || in.code == 6 {
			replies = append(replies, in)
		}
	}
	if outcome == "alive" && len(replies) > 0 {
		replies = replies[:len(replies)-1]
	}
	for _, r := range replies {
		outcome += fmt.Sprintf(" reply:%s:%s", c15CodeName(r.code), c15Bucket(r.items))
	}
	// a message above 10 MiB must be refused: the session ends with an error and nothing is answered
	if m.size > c15MaxMsg && outcome != "panic" && outcome != "stuck" {
		if !hs.ended() || hs.err == nil || len(replies) > 0 {
			sig := "oversize-message-not-refused " + name
			if phase == "pre" {
				sig += " pre-handshake"
			}
			c.Violation(sig, map[string]interface{}{"message": m.witness(), "limit": c15MaxMsg, "session_ended": hs.ended(), "run_error": fmt.Sprint(hs.err), "replies_after_it": len(replies)})
		}
	}
	if m.async {
		if !e.barrier(20 * time.Millisecond) {
			c.Inconclusive("chain insert lock not released after " + name + " " + m.class)
			x.dead, e.tainted = true, true
		}
	}
	x.checkHonest(name+" "+m.class, m.witness())
	c.Distinct(fmt.Sprintf("proto %s %s %s -> %s", phase, name, m.class, outcome))
	c.Count("hostile_messages", 1)
	return outcome
}

func c15RunProto(c *fw.C, caseID string, parts []string) {
	phase, class := parts[1], parts[3]
	code, _ := strconv.ParseUint(parts[2], 10, 64)
	rng := c.Rand(caseID)
	x := c15NewCtx(c, caseID)
	defer x.finish()
	n := 3
	for v := 0; v < n && !x.dead; v++ {
		m := c15Make(x.e, rng, code, class)
		out := x.fire(phase, m)
		if v == 0 {
			c.Sample(map[string]interface{}{"case": caseID, "message": m.witness(), "outcome": out})
		}
		if out == "panic" {
			break
		}
	}
}

// c15RunSeq: several hostile sessions, random interleaved messages, honest probe after each.
func c15RunSeq(c *fw.C, caseID string, parts []string) {
	rng := c.Rand(caseID)
	x := c15NewCtx(c, caseID)
	defer x.finish()
	e := x.e
	cat := c15Catalogue()
	var post []c15Entry
	for _, en := range cat {
		if en.phase == "post" && en.class != "oversize-max" && en.class != "100k-hashes" {
			post = append(post, en)
		}
	}
	type slot struct {
		s    *c15Sess
		last *c15Msg
	}
	slots := make([]*slot, 3)
	open := func(i int) bool {
		s := c15Open(c, x.pm, fmt.Sprintf("seq%d", i))
		top := e.T.Height()
		if st := s.handshake(e, top, e.hashes[top]); st != "ok" {
			c.Inconclusive("seq: hostile handshake: " + st)
			return false
		}
		slots[i] = &slot{s: s}
		return true
	}
	for i := range slots {
		if !open(i) {
			return
		}
	}
	defer func() {
		for _, sl := range slots {
			if sl != nil {
				sl.s.close()
			}
		}
	}()
	steps := 120
	for step := 0; step < steps && !x.dead; step++ {
		i := rng.Intn(len(slots))
		sl := slots[i]
		en := post[rng.Intn(len(post))]
		m := c15Make(e, rng, en.code, en.class)
		sl.last = m
		sl.s.setCtx(c15CodeName(m.code), m.witness())
		wst := sl.s.write(m.code, m.size, m.reader())
		c.Eval(1)
		c.Count("hostile_messages", 1)
		if wst == "timeout" {
			c.Inconclusive("seq: write not consumed: " + c15CodeName(m.code) + " " + m.class)
			return
		}
		{
			if st := sl.s.sentinel(e, m.code == 3 || m.code == 8); st == "timeout" && !sl.s.ended() {
				c.Inconclusive("seq: hostile session neither answered nor ended after " + c15CodeName(m.code) + " " + m.class)
				return
			}
		}
		if m.async {
			if !e.barrier(5 * time.Millisecond) {
				c.Inconclusive("seq: chain insert lock not released")
				x.dead, e.tainted = true, true
				return
			}
		}
		x.checkHonest(c15CodeName(m.code)+" "+m.class, m.witness())
		if sl.s.ended() {
			<-sl.s.done
			if sl.s.pnc != nil {
				x.reportPanic(sl.s, "post", m)
				return
			}
			if m.size > c15MaxMsg && sl.s.err == nil {
				c.Violation("oversize-message-not-refused "+c15CodeName(m.code), map[string]interface{}{"message": m.witness()})
			}
			c.SetAdd("session_end_reasons", c15ErrClass(sl.s.err))
			if !open(i) {
				return
			}
		} else if m.size > c15MaxMsg {
			// still alive after an oversize message: must not happen (sentinel forces the decision)
			if st := sl.s.sentinel(e, false); st == "ok" {
				c.Violation("oversize-message-not-refused "+c15CodeName(m.code), map[string]interface{}{"message": m.witness(), "session_ended": false})
			}
		}
	}
	c.Distinct("seq completed " + strconv.Itoa(steps) + " interleaved hostile messages")
}

// ---------------------------------------------------------------------------
// hostile sync server

var c15HashPolicies = []string{"h-genuine", "h-unknown", "h-empty", "h-1000", "h-dup", "h-ancestor-then-unknown", "h-known-only", "h-garbage", "h-descending", "h-silent"}
var c15BlockPolicies = []string{"b-genuine", "b-empty", "b-fake-seq", "b-fake-link", "b-fake-height0", "b-fake-heightmax", "b-fake-content", "b-unrequested", "b-garbage", "b-mutated", "b-silent"}
var c15FetchPolicies = []string{"linked", "known-parent-wrong-height", "uncle", "future", "too-far", "height0", "heightmax", "content-mismatch", "genuine-next", "mutated-next", "garbage", "empty", "unrequested"}

type c15Server struct {
	x        *c15Ctx
	s        *c15Sess
	rng      *rand.Rand
	hp, bp   string
	nHashReq int
	servedAt map[uint64]int
	base     uint64 // guess of the downloader's block offset: number of the first fetchHashes request
	served   map[string]int
}

func (sv *c15Server) genuineHashes(number, amount uint64) []types.Hash {
	e := sv.x.e
	var l []types.Hash
	for h := number; h < number+amount && h < uint64(len(e.hashes)) && len(l) < 512; h++ {
		if h == 0 {
			continue
		}
		l = append(l, e.hashes[h])
	}
	return l
}

func (sv *c15Server) onHashReq(number, amount uint64) {
	e := sv.x.e
	sv.nHashReq++
	ancestorPhase := sv.nHashReq == 1 || amount == 1
	if !ancestorPhase && sv.base == 0 {
		sv.base = number
	}
	seen := sv.servedAt[number]
	sv.servedAt[number]++
	var payload []byte
	hp := sv.hp
	if hp == "h-ancestor-then-unknown" {
		if ancestorPhase {
			hp = "h-genuine"
		} else {
			hp = "h-unknown"
		}
	}
	sv.served[hp]++
	switch hp {
	case "h-genuine":
		payload = c15RlpHashes(sv.genuineHashes(number, amount))
	case "h-descending":
		l := sv.genuineHashes(number, amount)
		for i := 0; i < len(l)/2; i++ {
			l[i], l[len(l)-1-i] = l[len(l)-1-i], l[i]
		}
		payload = c15RlpHashes(l)
	case "h-unknown":
		if seen == 0 && (ancestorPhase || sv.servedAt[math.MaxUint64] == 0) {
			n := 3 + sv.rng.Intn(5)
			if uint64(n) > amount {
				n = int(amount)
			}
			if !ancestorPhase {
				sv.servedAt[math.MaxUint64] = 1
			}
			payload = c15RlpHashes(c15RandHashes(sv.rng, n))
		} else {
			payload = []byte{0xc0}
		}
	case "h-empty":
		payload = []byte{0xc0}
	case "h-1000":
		if sv.nHashReq <= 3 {
			payload = c15RlpHashes(c15RandHashes(sv.rng, 1000))
		} else {
			payload = []byte{0xc0}
		}
	case "h-dup":
		if sv.nHashReq <= 2 {
			h := c15RandHash(sv.rng)
			l := make([]types.Hash, amount)
			for i := range l {
				l[i] = h
			}
			payload = c15RlpHashes(l)
		} else {
			payload = []byte{0xc0}
		}
	case "h-known-only":
		if ancestorPhase {
			payload = c15RlpHashes(sv.genuineHashes(number, amount))
		} else if seen == 0 && sv.servedAt[math.MaxUint64] == 0 {
			sv.servedAt[math.MaxUint64] = 1
			top := e.T.Height()
			payload = c15RlpHashes(e.hashes[top-5 : top+1])
		} else {
			payload = []byte{0xc0}
		}
	case "h-garbage":
		payload = make([]byte, sv.rng.Intn(500))
		sv.rng.Read(payload)
	case "h-silent":
		return
	}
	sv.s.writeBytes(4, payload)
}

func (sv *c15Server) onBlockReq(req []types.Hash) {
	e := sv.x.e
	base := sv.base
	if base == 0 {
		base = 1
	}
	sv.served[sv.bp]++
	var l []*nom.DetailedMomentum
	fake := func(i int, height uint64, prev types.Hash) *nom.DetailedMomentum {
		d := c15FakeMomentum(sv.rng, e, height, prev)
		d.Momentum.Hash = req[i] // the downloader keys deliveries by the claimed hash
		return d
	}
	tHash := func(h uint64) types.Hash {
		if h >= 1 && h <= e.T.Height() {
			return e.hashes[h]
		}
		return c15RandHash(sv.rng)
	}
	switch sv.bp {
	case "b-genuine", "b-mutated":
		for _, h := range req {
			if d := e.P.Bridge.GetBlock(h); d != nil {
				d = simnet.CloneDetailed(d)
				if sv.bp == "b-mutated" {
					d.Momentum.Signature[0] ^= 1
				}
				l = append(l, d)
			}
		}
	case "b-empty":
	case "b-fake-seq":
		for i := range req {
			l = append(l, fake(i, base+uint64(i), c15RandHash(sv.rng)))
		}
	case "b-fake-link":
		for i := range req {
			l = append(l, fake(i, base+uint64(i), tHash(base+uint64(i)-1)))
		}
	case "b-fake-height0":
		for i := range req {
			l = append(l, fake(i, 0, c15RandHash(sv.rng)))
		}
	case "b-fake-heightmax":
		for i := range req {
			l = append(l, fake(i, math.MaxUint64-uint64(i), c15RandHash(sv.rng)))
		}
	case "b-fake-content":
		for i := range req {
			d := fake(i, base+uint64(i), tHash(base+uint64(i)-1))
			hdr := c15FakeBlock(sv.rng, e).Header()
			d.Momentum.Content = append(d.Momentum.Content, &hdr)
			if sv.rng.Intn(2) == 0 {
				d.AccountBlocks = append(d.AccountBlocks, c15FakeBlock(sv.rng, e))
			}
			l = append(l, d)
		}
	case "b-unrequested":
		for i := range req {
			l = append(l, c15FakeMomentum(sv.rng, e, base+uint64(i), c15RandHash(sv.rng)))
		}
	case "b-garbage":
		p := make([]byte, sv.rng.Intn(500))
		sv.rng.Read(p)
		sv.s.writeBytes(6, p)
		return
	case "b-silent":
		return
	}
	if l == nil {
		l = []*nom.DetailedMomentum{}
	}
	sv.s.writeBytes(6, c15Enc(l))
}

// serve answers node-initiated requests until the node has been quiet for a while.
// The quiet period only ends the workload; no verdict depends on it.
func (sv *c15Server) serve(reqs chan c15In, quiet time.Duration, max int) int {
	n := 0
	for n < max {
		select {
		case in := <-reqs:
			items, ok := c15RlpItems(in.payload)
			switch in.code {
			case 8:
				if ok && len(items) == 2 {
					num, _ := c15ItemUint(items[0])
					amt, _ := c15ItemUint(items[1])
					sv.onHashReq(num, amt)
					n++
				}
			case 3:
				if ok && len(items) == 2 {
					amt, _ := c15ItemUint(items[1])
					sv.onHashReq(0, amt)
					n++
				}
			case 5:
				var req []types.Hash
				for _, it := range items {
					if h, ok := c15ItemHash(it); ok {
						req = append(req, h)
					}
				}
				sv.onBlockReq(req)
				n++
			}
			if sv.s.ended() {
				return n
			}
		case <-sv.s.done:
			return n
		case <-time.After(quiet):
			return n
		}
	}
	return n
}

func c15RunSync(c *fw.C, caseID string, parts []string) {
	hp, bp := parts[1], parts[2]
	rng := c.Rand(caseID)
	x := c15NewCtx(c, caseID)
	defer x.finish()
	if x.dead {
		return
	}
	e := x.e
	e.ahead(24)
	top := e.T.Height()
	s := c15Open(c, x.pm, "syncsrv")
	defer s.close()
	reqs := make(chan c15In, 4096)
	s.setOnMsg(func(in c15In) {
		if in.code == 3 || in.code == 5 || in.code == 8 {
			select {
			case reqs <- in:
			default:
			}
		}
	})
	if st := s.handshake(e, top, e.hashes[top]); st != "ok" {
		c.Inconclusive("sync: handshake: " + st)
		return
	}
	sv := &c15Server{x: x, s: s, rng: rng, hp: hp, bp: bp, servedAt: map[uint64]int{}, served: map[string]int{}}
	s.setCtx("sync-server "+hp+" "+bp, nil)
	// trigger: a block announcement far above our advertised height makes the node synchronise with us
	var trigger *nom.DetailedMomentum
	if hp == "h-genuine" || hp == "h-descending" {
		trigger = simnet.CloneDetailed(e.P.Detailed(e.P.Height()))
	} else {
		trigger = c15FakeMomentum(rng, e, top+1000, c15RandHash(rng))
	}
	if st := s.writeBytes(7, c15Enc(trigger)); st != "ok" {
		c.Inconclusive("sync: trigger not consumed: " + st)
		return
	}
	c.Eval(1)
	n := sv.serve(reqs, 700*time.Millisecond, 400)
	c.Count("sync_requests_served", n)
	if s.ended() {
		<-s.done
		if s.pnc != nil {
			c.Violation("protocol-panic sync-server "+hp+" "+bp, map[string]interface{}{"panic": fmt.Sprint(s.pnc), "stack": c15Trim(s.stack)})
			e.tainted = true
			return
		}
	}
	if !e.barrier(150 * time.Millisecond) {
		c.Inconclusive("sync: chain insert lock not released")
		x.dead, e.tainted = true, true
		return
	}
	x.checkHonest("sync-server "+hp+" "+bp, map[string]interface{}{"hash_policy": hp, "block_policy": bp, "requests_served": n})
	after := e.T.Height()
	res := "no-progress"
	if after > top {
		res = "advanced"
		// everything the target holds must be P's chain (only P owns the pillar keys)
		for h := top + 1; h <= after; h++ {
			if d := e.T.Detailed(h); d == nil || h >= uint64(len(e.hashes)) || d.Momentum.Hash != e.hashes[h] {
				// outside C15's statement (that is C16): recorded as a tripwire, not judged here
				c.Count("tripwire_sync_adopted_foreign_momentum", 1)
				c.Note("tripwire_sync_adopted_foreign_momentum", caseID)
				e.tainted = true
				break
			}
		}
	}
	if n > 0 {
		// how many requests reach us and whether the honest peer's genuine blocks let the node advance
		// depends on the downloader's scheduling: counted, not part of the distinct key
		c.Distinct(fmt.Sprintf("sync %s %s: node synchronised with the hostile server, node alive", hp, bp))
		c.Count("sync_"+res, 1)
		if sv.served[bp] > 0 {
			c.Count("sync_cases_reaching_block_delivery", 1)
		}
	} else {
		c.Count("sync_not_triggered", 1)
	}
	c.Sample(map[string]interface{}{"case": caseID, "requests_served": n, "target_height_before": top, "after": after})
}

// c15RunFetch: announce a hash, wait for the node's explicit fetch, deliver a hostile block.
func c15RunFetch(c *fw.C, caseID string, parts []string) {
	pol := parts[1]
	rng := c.Rand(caseID)
	x := c15NewCtx(c, caseID)
	defer x.finish()
	if x.dead {
		return
	}
	e := x.e
	e.ahead(4)
	top := e.T.Height()
	head := e.hashes[top]
	s := c15Open(c, x.pm, "announcer")
	defer s.close()
	if st := s.handshake(e, top, head); st != "ok" {
		c.Inconclusive("fetch: handshake: " + st)
		return
	}
	s.setCtx("fetch "+pol, nil)
	X := c15RandHash(rng)
	if pol == "genuine-next" || pol == "mutated-next" {
		X = e.hashes[top+1]
	}
	if st := s.writeBytes(1, c15RlpHashes([]types.Hash{X})); st != "ok" {
		c.Inconclusive("fetch: announce not consumed: " + st)
		return
	}
	c.Eval(1)
	// the fetcher asks for the announced block after its arrive timeout (real time, ~0.4 s)
	in, st := s.next(func(in c15In) bool { return in.code == 5 })
	if st != "ok" {
		c.Inconclusive("fetch: the node never asked for the announced block: " + st)
		return
	}
	items, _ := c15RlpItems(in.payload)
	asked := false
	for _, it := range items {
		if h, ok := c15ItemHash(it); ok && h == X {
			asked = true
		}
	}
	if !asked {
		c.Inconclusive("fetch: the node asked for something else")
		return
	}
	mk := func(height uint64, prev types.Hash) *nom.DetailedMomentum {
		d := c15FakeMomentum(rng, e, height, prev)
		d.Momentum.Hash = X
		return d
	}
	var l []*nom.DetailedMomentum
	switch pol {
	case "linked":
		l = append(l, mk(top+1, head))
	case "known-parent-wrong-height":
		l = append(l, mk(top+1, e.hashes[top-5]))
	case "uncle":
		l = append(l, mk(top-3, e.hashes[top-4]))
	case "future":
		l = append(l, mk(top+20, c15RandHash(rng)))
	case "too-far":
		l = append(l, mk(top+33+uint64(rng.Intn(1000)), c15RandHash(rng)))
	case "height0":
		l = append(l, mk(0, head))
	case "heightmax":
		l = append(l, mk(math.MaxUint64, head))
	case "content-mismatch":
		d := mk(top+1, head)
		hdr := c15FakeBlock(rng, e).Header()
		d.Momentum.Content = append(d.Momentum.Content, &hdr)
		d.AccountBlocks = append(d.AccountBlocks, c15FakeBlock(rng, e), c15FakeBlock(rng, e))
		l = append(l, d)
	case "genuine-next":
		l = append(l, simnet.CloneDetailed(e.P.Detailed(top+1)))
	case "mutated-next":
		d := simnet.CloneDetailed(e.P.Detailed(top + 1))
		d.Momentum.ChangesHash[3] ^= 4
		l = append(l, d)
	case "empty":
		l = []*nom.DetailedMomentum{}
	case "unrequested":
		l = append(l, c15FakeMomentum(rng, e, top+1, head))
	}
	var payload []byte
	if pol == "garbage" {
		payload = make([]byte, 1+rng.Intn(400))
		rng.Read(payload)
	} else {
		payload = c15Enc(l)
	}
	wst := s.writeBytes(6, payload)
	c.Eval(1)
	sst := "ended"
	if wst == "ok" {
		sst = s.sentinel(e, false)
	}
	if s.ended() {
		<-s.done
		if s.pnc != nil {
			c.Violation("protocol-panic fetch-delivery "+pol, map[string]interface{}{"panic": fmt.Sprint(s.pnc), "stack": c15Trim(s.stack)})
			e.tainted = true
			return
		}
	} else if sst == "timeout" {
		c.Inconclusive("fetch: session neither answered nor ended after delivery " + pol)
		return
	}
	if !e.barrier(120 * time.Millisecond) {
		c.Inconclusive("fetch: chain insert lock not released")
		x.dead, e.tainted = true, true
		return
	}
	x.checkHonest("fetch-delivery "+pol, map[string]interface{}{"policy": pol})
	after := e.T.Height()
	res := "not-imported"
	if after > top {
		res = "imported"
		if pol != "genuine-next" {
			// outside C15's statement (that is C16): recorded as a tripwire, not judged here
			c.Count("tripwire_fetch_imported_invalid_momentum", 1)
			c.Note("tripwire_fetch_imported_invalid_momentum", caseID)
		}
	}
	c.Distinct(fmt.Sprintf("fetch %s session=%s -> %s", pol, sst, res))
}
