package checks

// C06 — reorganisation leaves no trace of the abandoned branch.
//
// Differential monitor: a node S that followed branch X and then switched to the longer
// branch Y is compared with a reference node R that only ever saw Y — frontier store
// (logical content), the historical view of EVERY momentum of the adopted chain, the
// unconfirmed pool, and the consensus answers (producer of every slot, period/epoch
// statistics, pillar weights). Then both continue with the same further momentums and are
// compared again; S switches back and forth when the other branch overtakes. A direct
// commit→rollback comparison at chain level checks "rolling back restores every key".

import (
	"fmt"
	"math/rand"
	"math/big"
	"os"
	"sort"
	"strings"
	"time"

	g "github.com/zenon-network/go-zenon/chain/genesis/mock"
	"github.com/zenon-network/go-zenon/chain/nom"
	"github.com/zenon-network/go-zenon/common/types"
	"github.com/zenon-network/go-zenon/consensus"
	"github.com/zenon-network/go-zenon/vm/constants"
	"github.com/zenon-network/go-zenon/vm/embedded/definition"
	"github.com/zenon-network/go-zenon/wallet"

	"verif/harness/fw"
	"verif/harness/simnet"
)

func init() {
	fw.Register(&fw.Check{
		ID:    "C06",
		Level: "exploration",
		Rule: "each case builds a common prefix and two competing branches X (depth 1..30) and Y (longer) on real producing nodes with independent seeded workloads " +
			"(transfers, receives, contract calls, token issue/mint/burn, spork creation, delegations, reward updates with a short epoch so that epoch/tick boundaries fall inside forks), " +
			"delivers X then Y to a switching node that is queried for historical views/elections before the switch, and compares it with a node that saw only Y; " +
			"distinct_nontrivial counts distinct (fork depth, longer-branch length, switch-back count, content classes inside the fork) tuples",
		Cases:            c06Cases,
		Run:              c06Run,
		MinDistinct:      6,
		DeathIsViolation: true,
		DeathSig:         c06DeathSig,
		Assumptions: []string{
			"the reference node (only saw the adopted branch) is assumed right; C02/C07 judge it independently",
			"comparison is logical (present keys); raw tombstones left by rollback are not trace unless a reader can see them",
		},
	})
}

func c06DeathSig(caseID, tail string) string { return "reorg-crash " + topRepoFrame(tail) }

func c06Cases(tier string, seed int64) []string {
	n := 24
	if tier == "thorough" {
		n = 1800
	}
	var l []string
	for i := 0; i < n; i++ {
		l = append(l, fmt.Sprintf("fork:%d", i))
	}
	// scripted content inside the abandoned branch, fork just before the first reward-crediting update (height 600)
	ns := 1
	if tier == "thorough" {
		ns = 48
	}
	for i := 0; i < ns; i++ {
		for _, kind := range []string{"sentinel", "pillar", "spork", "token", "accelerator", "tick-gap", "tick-gap"} {
			l = append(l, fmt.Sprintf("scripted:%s:%d", kind, i))
		}
	}
	return l
}

func c06Run(c *fw.C, caseID string) {
	r := c.Rand(caseID)
	base := c.ScratchDir("c06")
	defer os.RemoveAll(base)
	// short epochs: 2 ticks (600 s = 60 slots)
	consensus.EpochDuration = 10 * time.Minute

	var idx int
	fmt.Sscanf(caseID, "fork:%d", &idx)
	script := ""
	if strings.HasPrefix(caseID, "scripted:") {
		parts := strings.Split(caseID, ":")
		script = parts[1]
		fmt.Sscanf(parts[2], "%d", &idx)
		idx = idx*2 + 1 // no switch back in scripted cases
	}
	depthX := 1 + r.Intn(8)
	switch idx % 4 {
	case 1:
		depthX = 1 + r.Intn(30)
	case 2:
		depthX = 25 + r.Intn(6)
	}
	extraY := 1 + r.Intn(6)
	prefixLen := 20 + r.Intn(60)
	stepMax := 5
	if script != "" {
		depthX = 8 + r.Intn(10)
		prefixLen = 572 + r.Intn(12)
		stepMax = 1
	}
	if script == "tick-gap" {
		// the abandoned branch misses every remaining slot of the current tick and continues in a later one,
		// the adopted branch produces inside the tick: statistics of that tick must be recomputed after the switch
		depthX = 2 + r.Intn(6)
		prefixLen = 25 + r.Intn(70)
		stepMax = 4
	}

	open := func(name string, keys bool) *simnet.Node {
		if keys {
			return simnet.Open(name, base+"/"+name, simnet.MockGenesis(), g.PillarKeys)
		}
		return simnet.Open(name, base+"/"+name, simnet.MockGenesis(), nil)
	}
	A := open("A", true)
	defer A.Stop()
	wA := simnet.NewWorkload(rand.New(rand.NewSource(r.Int63())), A)
	wA.Sporks = true
	produce := func(n *simnet.Node, w *simnet.Workload, k int, maxSkip int) bool {
		for i := 0; i < k; i++ {
			w.Step(stepMax)
			skip := 0
			if maxSkip > 0 && r.Intn(5) == 0 {
				skip = 1 + r.Intn(maxSkip)
			}
			if _, err := n.Produce(skip); err != nil {
				c.Violation("producer-cannot-produce", map[string]interface{}{"node": n.Name, "height": n.Height() + 1, "err": err.Error(), "log": w.Log})
				return false
			}
		}
		return true
	}
	if script == "accelerator" {
		restore, err := simnet.ActivateSpork(A, types.AcceleratorSpork, "spork-accelerator")
		if err != nil {
			c.Violation("harness-cannot-activate-spork", err.Error())
			return
		}
		defer restore()
	}
	if !produce(A, wA, prefixLen, 2) {
		return
	}
	forkPoint := A.Height()

	B := open("B", true)
	defer B.Stop()
	if err := B.SyncFrom(A, 50); err != nil {
		c.Violation("sync-failed", err.Error())
		return
	}
	S := open("S", false)
	defer S.Stop()
	if err := S.SyncFrom(A, 17); err != nil {
		c.Violation("sync-failed", err.Error())
		return
	}
	// chain-level rollback check node
	K := open("K", false)
	defer K.Stop()
	if err := K.SyncFrom(A, 64); err != nil {
		c.Violation("sync-failed", err.Error())
		return
	}
	prefixDump := K.DumpFrontier()

	// the two branches
	wB := simnet.NewWorkload(rand.New(rand.NewSource(r.Int63())), B)
	wB.Sporks = true
	if script == "tick-gap" {
		f := A.Frontier()
		slotInTick := int((f.Timestamp.Unix()-A.Gen.GetGenesisMomentum().Timestamp.Unix())/10) % 30
		remaining := 29 - slotInTick
		if remaining < 2 {
			// move both producers into the next tick first
			if !produce(A, wA, 3, 0) {
				return
			}
			if err := B.SyncFrom(A, 10); err != nil {
				c.Violation("sync-failed", err.Error())
				return
			}
			for _, n := range []*simnet.Node{S, K} {
				_ = n.SyncFrom(A, 10)
			}
			forkPoint = A.Height()
			prefixDump = K.DumpFrontier()
			f = A.Frontier()
			slotInTick = int((f.Timestamp.Unix()-A.Gen.GetGenesisMomentum().Timestamp.Unix())/10) % 30
			remaining = 29 - slotInTick
		}
		wA.Step(3)
		if _, err := A.Produce(remaining + r.Intn(40)); err != nil {
			c.Violation("producer-cannot-produce", map[string]interface{}{"node": "A", "err": err.Error()})
			return
		}
		if !produce(A, wA, depthX-1, 1) {
			return
		}
		c.SetAdd("scripted_objects_created_in_abandoned_branch", "tick-gap")
	} else if script != "" {
		z := int64(g.Zexp)
		steps := c06Script(script, z)
		for i := 0; i < depthX; i++ {
			if i < len(steps) && !steps[i].empty() {
				st := steps[i]
				if _, err := A.Send(st.from, st.to, st.zts, st.amount, st.data); err != nil {
					c.Violation("scripted-call-refused "+script, map[string]interface{}{"step": i, "err": err.Error()})
					return
				}
			}
			if _, err := A.Produce(0); err != nil {
				c.Violation("producer-cannot-produce", map[string]interface{}{"node": "A", "err": err.Error()})
				return
			}
		}
		// did the scripted object really come into existence on branch X?
		if !c06ScriptEffect(A, script) {
			c.Violation("scripted-content-not-created "+script, "harness: the scripted calls did not create the object on branch X")
			return
		}
		c.SetAdd("scripted_objects_created_in_abandoned_branch", script)
	} else {
		// a key that is created and deleted again inside ONE abandoned momentum (absent before, absent after): a QSR
		// deposit and its withdrawal, sent together, are received by the contract in the same momentum
		if depthX >= 2 {
			ct, ab := types.SentinelContract, definition.ABISentinel
			if idx%2 == 0 {
				ct, ab = types.PillarContract, definition.ABIPillars
			}
			_, e1 := A.Send(g.Pillar7, ct, types.QsrTokenStandard, big.NewInt(3*g.Zexp), ab.PackMethodPanic(definition.DepositQsrMethodName))
			_, e2 := A.Send(g.Pillar7, ct, types.ZnnTokenStandard, big.NewInt(0), ab.PackMethodPanic(definition.WithdrawQsrMethodName))
			if e1 == nil && e2 == nil {
				c.Count("deposit_and_withdrawal_sent_together_on_abandoned_branch", 1)
			}
		}
		if !produce(A, wA, depthX, map[bool]int{true: 33, false: 1}[idx%4 == 3]) {
			return
		}
	}
	if !produce(B, wB, depthX+extraY, 0) {
		return
	}
	// B may have skipped nothing, A may have skipped slots: heights decide, B is longer
	// two honest producers with the same keys can produce the SAME momentum (same slot, same content): if branch X is
	// a prefix of branch Y nothing is abandoned, the case says nothing about reorganisations (and the X-pool blocks the
	// switching node heard stay legitimately valid) — found by the thorough sweep as 3 alarms in 2400 forks
	diverged := false
	for h := forkPoint + 1; h <= A.Height(); h++ {
		if da, db := A.Detailed(h), B.Detailed(h); da == nil || db == nil || da.Momentum.Hash != db.Momentum.Hash {
			diverged = true
			break
		}
	}
	if !diverged {
		c.Count("forks_whose_branches_coincide", 1)
		return
	}
	feats := map[string]bool{}
	for k := range wA.Accepted {
		if wA.Accepted[k] > 0 {
			feats["X:"+k] = true
		}
	}

	// S follows X, queried meanwhile
	warm := func(n *simnet.Node) {
		top := n.Height()
		for k := 0; k < 8; k++ {
			hh := 1 + uint64(r.Int63n(int64(top)))
			if m, _ := n.Chain.GetFrontierMomentumStore().GetMomentumByHeight(hh); m != nil {
				if st := n.Chain.GetMomentumStore(m.Identifier()); st != nil {
					_, _ = st.GetActivePillars()
					_, _ = st.ComputePillarDelegations()
					_, _ = st.GetAllDefinedSporks()
				}
			}
		}
		c06Consensus(n, forkPoint, top+40)
		// what a peer asks for: is this momentum known, give it to me, which hashes follow it
		for hh := forkPoint; hh <= top; hh++ {
			if m, _ := n.Chain.GetFrontierMomentumStore().GetMomentumByHeight(hh); m != nil {
				_ = n.Bridge.HasBlock(m.Hash)
				_ = n.Bridge.GetBlock(m.Hash)
				_, _ = n.Bridge.GetBlockHashesFromHash(m.Hash, 8)
			}
		}
	}
	warm(S)
	for S.Height() < A.Height() {
		h := S.Height()
		to := h + uint64(1+r.Intn(5))
		if to > A.Height() {
			to = A.Height()
		}
		if idx, err := S.InsertChain(simnet.CloneBatch(A.Range(h+1, to))); err != nil {
			c.Violation("follower-refuses-producers-momentum", map[string]interface{}{"err": err.Error(), "index": idx})
			return
		}
		if r.Intn(2) == 0 {
			warm(S)
		}
	}
	warm(S)

	c06AskedHashes = nil
	for hh := forkPoint + 1; hh <= A.Height(); hh++ {
		if d := A.Detailed(hh); d != nil {
			c06AskedHashes = append(c06AskedHashes, d.Momentum.Hash)
		}
	}
	// K: apply X then roll back directly. Compared logically (present keys) and raw: every LevelDB key and value of the
	// stopped node, so that a key written back as "present but empty", a left-over undo record or a tombstone shows
	K.Stop()
	rawPrefix, rawErr := simnet.RawDump(K.Dir)
	K.Restart()
	if err := K.SyncFrom(A, 64); err == nil {
		m, _ := K.Chain.GetFrontierMomentumStore().GetMomentumByHeight(forkPoint)
		ins := K.Chain.AcquireInsert("c06 rollback")
		err := K.Chain.RollbackTo(ins, m.Identifier())
		ins.Unlock()
		c.Eval(1)
		if err != nil {
			c.Violation("rollback-error", err.Error())
		} else if diffs := simnet.DiffDumps(prefixDump, K.DumpFrontier(), 6); len(diffs) > 0 {
			c.Violation("rollback-does-not-restore-every-key", map[string]interface{}{"depth": depthX, "diffs": diffs, "X_actions": wA.Accepted})
		} else {
			K.Stop()
			if rawAfter, e2 := simnet.RawDump(K.Dir); rawErr == nil && e2 == nil {
				c.Eval(len(rawAfter))
				if diffs := simnet.DiffDumps(c06NoTombstones(rawPrefix), c06NoTombstones(rawAfter), 6); len(diffs) > 0 {
					c.Violation("rollback-does-not-restore-every-raw-key", map[string]interface{}{"depth": depthX, "diffs": diffs, "X_actions": wA.Accepted})
				}
			}
		}
	}

	// S also holds unconfirmed blocks of branch X in its pool when the switch happens
	wA.Step(6)
	for _, b := range A.Chain.GetAllUncommittedAccountBlocks() {
		_ = S.Bridge.AddAccountBlocks([]*nom.AccountBlock{simnet.CloneBlock(b)})
	}
	c.Count("pool_blocks_of_abandoned_branch_on_switching_node", len(S.Chain.GetAllUncommittedAccountBlocks()))
	if os.Getenv("C06_DEBUG") != "" {
		c.Logf("DEBUG before switch: forkPoint=%d depthX=%d extraY=%d A=%d B=%d S=%d Spool=%d", forkPoint, depthX, extraY, A.Height(), B.Height(), S.Height(), len(S.Chain.GetAllUncommittedAccountBlocks()))
		for _, b := range S.Chain.GetAllUncommittedAccountBlocks() {
			c.Logf("DEBUG   S pool %s/%d %s ack=%d", b.Address, b.Height, b.Hash, b.MomentumAcknowledged.Height)
		}
	}

	// switch S to Y
	deliverFork := func(to *simnet.Node, from *simnet.Node, fp uint64) (int, error) {
		// a peer delivers its chain from the fork point on, in one or several batches
		top := from.Height()
		h := fp
		first := true
		for h < top {
			var end uint64
			if first {
				// the first batch must be longer than what the receiver has, or it is (rightly) refused as "not longer"
				end = top
				if top-to.Height() > 1 && r.Intn(2) == 0 {
					end = to.Height() + 1 + uint64(r.Int63n(int64(top-to.Height())))
				}
				first = false
			} else {
				end = h + uint64(1+r.Intn(10))
			}
			if end > top {
				end = top
			}
			if i, err := to.InsertChain(simnet.CloneBatch(from.Range(h+1, end))); err != nil {
				return i, err
			}
			h = end
		}
		return 0, nil
	}
	if i, err := deliverFork(S, B, forkPoint); err != nil {
		c.Violation("switch-refused", map[string]interface{}{"err": err.Error(), "index": i, "depthX": depthX, "lenY": depthX + extraY, "S_height": S.Height(), "forkPoint": forkPoint})
		return
	}
	if os.Getenv("C06_DEBUG") != "" {
		c.Logf("DEBUG right after deliverFork: S=%d Spool=%d", S.Height(), len(S.Chain.GetAllUncommittedAccountBlocks()))
		for h := forkPoint; h <= S.Height(); h++ {
			c.Logf("DEBUG   S chain %d %s  B %s A %s", h, S.Detailed(h).Momentum.Hash, B.Detailed(h).Momentum.Hash, func() string { if d := A.Detailed(h); d != nil { return d.Momentum.Hash.String() }; return "-" }())
		}
	}
	R := open("R", false)
	defer R.Stop()
	if err := R.SyncFrom(B, 23); err != nil {
		c.Violation("sync-failed", err.Error())
		return
	}
	// both nodes now hear the adopted branch's pending blocks through gossip
	wB.Step(6)
	for _, b := range B.Chain.GetAllUncommittedAccountBlocks() {
		for _, n := range []*simnet.Node{S, R} {
			err := n.Bridge.AddAccountBlocks([]*nom.AccountBlock{simnet.CloneBlock(b)})
			if os.Getenv("C06_DEBUG") != "" {
				c.Logf("DEBUG gossip %s %s/%d type=%d ack=%d -> %v (node height %d)", n.Name, b.Address, b.Height, b.BlockType, b.MomentumAcknowledged.Height, err, n.Height())
			}
		}
	}
	if os.Getenv("C06_DEBUG") != "" {
		c.Logf("DEBUG after switch: S=%d R=%d Spool=%d Rpool=%d", S.Height(), R.Height(), len(S.Chain.GetAllUncommittedAccountBlocks()), len(R.Chain.GetAllUncommittedAccountBlocks()))
	}
	c06Compare(c, S, R, forkPoint, "after-switch", depthX)
	c.Distinct(fmt.Sprintf("depthX=%d lenY=%d switches=1 feats=%d", depthX, depthX+extraY, len(feats)))
	c.SetAdd("fork_depths", fmt.Sprint(depthX))
	for k := range feats {
		c.SetAdd("content_in_abandoned_branch", k)
	}

	// continue on Y
	more := 4 + r.Intn(12)
	if script != "" && script != "tick-gap" {
		// past height 600: the first reward Update that credits epochs (epoch end + 1 h passed, 300 momentums since the update at 300) runs on the adopted branch
		more = int(612-B.Height()) + r.Intn(8)
	}
	if !produce(B, wB, more, 1) {
		return
	}
	for _, n := range []*simnet.Node{S, R} {
		if err := n.SyncFrom(B, 1+r.Intn(9)); err != nil {
			c.Violation("follower-refuses-producers-momentum after-switch", map[string]interface{}{"node": n.Name, "err": err.Error()})
			return
		}
	}
	c06Compare(c, S, R, forkPoint, "after-continuation", depthX)
	// raw stores of the stopped nodes
	S.Stop()
	R.Stop()
	if rs, e1 := simnet.RawDump(S.Dir); e1 == nil {
		if rr, e2 := simnet.RawDump(R.Dir); e2 == nil {
			c.Eval(len(rs))
			if diffs := simnet.DiffDumps(c06NoTombstones(rr), c06NoTombstones(rs), 6); len(diffs) > 0 {
				c.Violation("raw-store-differs after-continuation", map[string]interface{}{"diffs": diffs, "depth": depthX, "forkPoint": forkPoint})
			}
		}
	}
	S.Restart()

	// switch back: A overtakes (if still within the 30-momentum window)
	if back := int(B.Height()-forkPoint) + 1; back <= 30 && idx%2 == 0 {
		need := int(B.Height()-A.Height()) + 1 + r.Intn(3)
		if !produce(A, wA, need, 0) {
			return
		}
		if A.Height() > S.Height() {
			if i, err := deliverFork(S, A, forkPoint); err != nil {
				c.Violation("switch-back-refused", map[string]interface{}{"err": err.Error(), "index": i, "depth": S.Height() - forkPoint})
				return
			}
			R2 := open("R2", false)
			defer R2.Stop()
			if err := R2.SyncFrom(A, 31); err != nil {
				c.Violation("sync-failed", err.Error())
				return
			}
			c06Compare(c, S, R2, forkPoint, "after-switch-back", int(B.Height()-forkPoint))
			c.Distinct(fmt.Sprintf("depthX=%d lenY=%d switches=2", depthX, depthX+extraY))
			c.Count("switch_backs", 1)
		}
	}
	c.Count("forks", 1)
	if caseID == "fork:0" {
		c.Sample(map[string]interface{}{"case": caseID, "prefix": prefixLen, "depthX": depthX, "lenY": depthX + extraY, "X_actions": wA.Accepted, "Y_actions": wB.Accepted})
	}
}

// c06AskedHashes: momentums of the abandoned branch (the switching node held, and served, them before the switch)
var c06AskedHashes []types.Hash

// c06NoTombstones drops the deletion markers of the store's encoding (a key with an EMPTY raw value is a deleted key;
// a rollback leaves such markers where the abandoned momentum had created keys — by design, and invisible to every
// reader). What remains must be identical byte for byte: a key written back as present-but-empty has the raw value 00.
func c06NoTombstones(raw map[string]string) map[string]string {
	out := make(map[string]string, len(raw))
	for k, v := range raw {
		if v != "" {
			out[k] = v
		}
	}
	return out
}

// c06Consensus returns the answers of the consensus module for every slot/tick/epoch touched.
func c06Consensus(n *simnet.Node, fromHeight, toSlotHeight uint64) []string {
	var out []string
	gen := n.Gen.GetGenesisMomentum().Timestamp
	fm, _ := n.Chain.GetFrontierMomentumStore().GetMomentumByHeight(fromHeight)
	if fm == nil {
		return nil
	}
	start := fm.Timestamp.Add(-600 * time.Second)
	if start.Before(*gen) {
		start = *gen
	}
	// align to slot
	off := start.Sub(*gen) / (10 * time.Second)
	start = gen.Add(off * 10 * time.Second)
	end := n.Frontier().Timestamp.Add(900 * time.Second)
	for t := start; t.Before(end); t = t.Add(10 * time.Second) {
		p, err := n.Cons.GetMomentumProducer(t)
		if err != nil {
			out = append(out, fmt.Sprintf("slot %d: err", t.Unix()))
		} else {
			out = append(out, fmt.Sprintf("slot %d: %s", t.Unix(), p))
		}
	}
	pr := n.Cons.FrontierPillarReader()
	if ws, err := pr.GetPillarWeights(); err == nil {
		var l []string
		for k, v := range ws {
			l = append(l, k+"="+v.String())
		}
		sort.Strings(l)
		out = append(out, fmt.Sprintf("weights %v", l))
	} else {
		out = append(out, "weights err")
	}
	curEpoch := pr.EpochTicker().ToTick(*n.Frontier().Timestamp)
	for e := uint64(0); e <= curEpoch+1; e++ {
		st, err := pr.EpochStats(e)
		if err != nil {
			out = append(out, fmt.Sprintf("epoch %d: err", e))
			continue
		}
		if st == nil {
			out = append(out, fmt.Sprintf("epoch %d: nil", e))
			continue
		}
		var l []string
		for name, ps := range st.Pillars {
			l = append(l, fmt.Sprintf("%s:%d/%d/%v", name, ps.BlockNum, ps.ExceptedBlockNum, ps.Weight))
		}
		sort.Strings(l)
		out = append(out, fmt.Sprintf("epoch %d: total=%d weight=%v %v", e, st.TotalBlocks, st.TotalWeight, l))
		if dl, err := pr.GetPillarDelegationsByEpoch(e); err == nil {
			var d []string
			for name, det := range dl {
				d = append(d, fmt.Sprintf("%s:%v", name, det.Weight))
			}
			sort.Strings(d)
			out = append(out, fmt.Sprintf("epoch %d delegations %v", e, d))
		}
	}
	return out
}

func c06Compare(c *fw.C, S, R *simnet.Node, forkPoint uint64, when string, depth int) {
	c.Eval(1)
	if S.Frontier().Hash != R.Frontier().Hash {
		c.Violation("frontier-differs "+when, map[string]interface{}{"S": fmt.Sprint(S.Frontier().Identifier()), "R": fmt.Sprint(R.Frontier().Identifier())})
		return
	}
	if diffs := simnet.DiffDumps(S.DumpFrontier(), R.DumpFrontier(), 6); len(diffs) > 0 {
		c.Violation("frontier-store-differs "+when, map[string]interface{}{"depth": depth, "diffs": diffs})
	}
	// historical views: every height from 40 below the fork point to the top, plus sampled older ones
	top := S.Height()
	from := uint64(1)
	if forkPoint > 40 {
		from = forkPoint - 40
	}
	for h := from; h <= top; h++ {
		m, _ := R.Chain.GetFrontierMomentumStore().GetMomentumByHeight(h)
		if m == nil {
			continue
		}
		vs, vr := S.Mgr.Get(m.Identifier()), R.Mgr.Get(m.Identifier())
		c.Eval(1)
		if vs == nil || vr == nil {
			if (vs == nil) != (vr == nil) {
				c.Violation("historical-view-missing "+when, map[string]interface{}{"height": h, "S_nil": vs == nil, "R_nil": vr == nil})
				return
			}
			continue
		}
		if diffs := simnet.DiffDumps(simnet.DumpDB(vs), simnet.DumpDB(vr), 5); len(diffs) > 0 {
			rel := "below-fork-point"
			if h > forkPoint {
				rel = "above-fork-point"
			} else if h == forkPoint {
				rel = "at-fork-point"
			}
			c.Violation("historical-view-differs "+when+" "+rel, map[string]interface{}{"height": h, "forkPoint": forkPoint, "top": top, "depth": depth, "diffs": diffs})
			return
		}
	}
	// pool
	pool := func(n *simnet.Node) []string {
		var l []string
		for _, b := range n.Chain.GetAllUncommittedAccountBlocks() {
			l = append(l, b.Address.String()+"/"+b.Hash.String())
		}
		sort.Strings(l)
		return l
	}
	// what the node serves to peers about momentums of either branch
	var asked []types.Hash
	asked = append(asked, c06AskedHashes...)
	for hh := forkPoint; hh <= R.Height(); hh++ {
		if m, _ := R.Chain.GetFrontierMomentumStore().GetMomentumByHeight(hh); m != nil {
			asked = append(asked, m.Hash)
		}
	}
	for _, h := range asked {
		c.Eval(1)
		hs, hr := S.Bridge.HasBlock(h), R.Bridge.HasBlock(h)
		gs, gr := S.Bridge.GetBlock(h) != nil, R.Bridge.GetBlock(h) != nil
		ls, _ := S.Bridge.GetBlockHashesFromHash(h, 16)
		lr, _ := R.Bridge.GetBlockHashesFromHash(h, 16)
		if hs != hr || gs != gr || fmt.Sprint(ls) != fmt.Sprint(lr) {
			c.Violation("served-to-peers-differs "+when, map[string]interface{}{"momentum": h.String(), "has_block": []bool{hs, hr}, "get_block_non_nil": []bool{gs, gr}, "hashes_from": []int{len(ls), len(lr)},
				"note": "first value: the node that switched branches, second: the node that only saw the adopted branch"})
			return
		}
	}
	ps, pr := pool(S), pool(R)
	c.Eval(1)
	if fmt.Sprint(ps) != fmt.Sprint(pr) {
		c.Violation("pool-differs "+when, map[string]interface{}{"S": ps, "R": pr})
	}
	// per-address frontier stores of the pool for all known users and contracts
	addrs := append([]types.Address{}, types.EmbeddedContracts...)
	for _, u := range simnet.DefaultUsers() {
		addrs = append(addrs, u.Address)
	}
	for _, a := range addrs {
		if S.Chain.GetFrontierAccountStore(a).Identifier() != R.Chain.GetFrontierAccountStore(a).Identifier() {
			c.Violation("pool-account-frontier-differs "+when, map[string]interface{}{"address": a.String()})
			break
		}
	}
	// consensus
	cs, cr := c06Consensus(S, forkPoint, top+40), c06Consensus(R, forkPoint, top+40)
	c.Eval(len(cs))
	for i := range cr {
		if i >= len(cs) || cs[i] != cr[i] {
			kind := "slot-producer"
			if i < len(cs) && len(cr[i]) > 5 && cr[i][:5] == "epoch" {
				kind = "epoch-stats"
			} else if i < len(cs) && len(cr[i]) > 7 && cr[i][:7] == "weights" {
				kind = "pillar-weights"
			}
			sv := "(missing)"
			if i < len(cs) {
				sv = cs[i]
			}
			c.Violation("consensus-answer-differs "+when+" "+kind, map[string]interface{}{"S": sv, "R": cr[i], "depth": depth})
			break
		}
	}
}

type c06Step struct {
	from   *wallet.KeyPair
	to     types.Address
	zts    types.ZenonTokenStandard
	amount *big.Int
	data   []byte
}

// c06Script: calls that create a long-lived object on the branch which will be abandoned.
func c06Script(kind string, z int64) []c06Step {
	switch kind {
	case "sentinel":
		return []c06Step{
			{g.Pillar7, types.SentinelContract, types.QsrTokenStandard, new(big.Int).Set(constants.SentinelQsrDepositAmount), definition.ABISentinel.PackMethodPanic(definition.DepositQsrMethodName)},
			{}, {},
			{g.Pillar7, types.SentinelContract, types.ZnnTokenStandard, new(big.Int).Set(constants.SentinelZnnRegisterAmount), definition.ABISentinel.PackMethodPanic(definition.RegisterSentinelMethodName)},
		}
	case "pillar":
		return []c06Step{
			{g.Pillar8, types.PillarContract, types.QsrTokenStandard, new(big.Int).Set(constants.PillarQsrStakeBaseAmount), definition.ABIPillars.PackMethodPanic(definition.DepositQsrMethodName)},
			{}, {},
			{g.Pillar8, types.PillarContract, types.ZnnTokenStandard, new(big.Int).Set(constants.PillarStakeAmount), definition.ABIPillars.PackMethodPanic(definition.RegisterMethodName, g.Pillar8Name, g.Pillar8.Address, g.Pillar8.Address, uint8(0), uint8(100))},
		}
	case "accelerator":
		return []c06Step{
			{g.Pillar8, types.AcceleratorContract, types.ZnnTokenStandard, new(big.Int).Set(constants.ProjectCreationAmount), definition.ABIAccelerator.PackMethodPanic(definition.CreateProjectMethodName, "Abandoned project", "d", "example.com", big.NewInt(100), big.NewInt(1000))},
		}
	case "spork":
		return []c06Step{
			{g.Spork, types.SporkContract, types.ZnnTokenStandard, big.NewInt(0), definition.ABISpork.PackMethodPanic(definition.SporkCreateMethodName, "spork-on-abandoned-branch", "x")},
		}
	case "token":
		return []c06Step{
			{g.Pillar7, types.TokenContract, types.ZnnTokenStandard, big.NewInt(1 * z), definition.ABIToken.PackMethodPanic(definition.IssueMethodName, "Abandoned", "ABN", "example.com", big.NewInt(1000), big.NewInt(2000), uint8(2), true, true, false)},
			{}, {},
			{g.Pillar7, types.PlasmaContract, types.QsrTokenStandard, big.NewInt(50 * z), definition.ABIPlasma.PackMethodPanic(definition.FuseMethodName, g.User6.Address)},
			{g.Pillar7, types.StakeContract, types.ZnnTokenStandard, big.NewInt(5 * z), definition.ABIStake.PackMethodPanic(definition.StakeMethodName, constants.StakeTimeMinSec)},
		}
	}
	return nil
}

func (s c06Step) empty() bool { return s.from == nil }

func c06ScriptEffect(n *simnet.Node, kind string) bool {
	st := n.Chain.GetFrontierMomentumStore()
	switch kind {
	case "sentinel":
		return definition.GetSentinelInfoByOwner(st.GetAccountStore(types.SentinelContract).Storage(), g.Pillar7.Address) != nil
	case "pillar":
		ps, _ := st.GetActivePillars()
		for _, x := range ps {
			if x.Name == g.Pillar8Name {
				return true
			}
		}
		return false
	case "accelerator":
		l, _ := definition.GetProjectList(st.GetAccountStore(types.AcceleratorContract).Storage())
		return len(l) == 1
	case "spork":
		sp, _ := st.GetAllDefinedSporks()
		for _, x := range sp {
			if x.Name == "spork-on-abandoned-branch" {
				return true
			}
		}
		return false
	case "token":
		l, _ := definition.GetTokenInfoList(st.GetAccountStore(types.TokenContract).Storage())
		for _, x := range l {
			if x.TokenName == "Abandoned" {
				return true
			}
		}
		return false
	}
	return false
}
