package checks

// C05 — momentums come only from the elected pillar; the schedule is deterministic.
//
// (1) Reference election, re-implemented from the statement and independent of /repo/consensus:
// inputs (active pillars, delegations, ZNN balance of every backer) are read as raw keys from the
// ledger at the moment the proof momentum IS the frontier of a producing node; weights → total order
// (weight desc, name asc) → seeded fill/selection/shuffle. It is compared with GetMomentumProducer for
// every slot of every settled tick on the producer (live), a synced follower (caches filled at insert
// time), the follower after a restart (cold), a second follower queried in shuffled order, and a node
// that went through a reorganisation. Every accepted momentum must be signed by the reference-elected
// pillar of the slot containing its timestamp, and every slot's producer must be an active pillar.
// (2) Momentum mutants (every field, content edits, re-timing, four attacker models) are offered to a
// real follower; an accepted mutant must satisfy an independent validity predicate.
// (3) conc:* / race:conc:* cases: ONE node's consensus object is asked by 8–16 goroutines at once while its
// election cache is cold (consensus cache deleted, or the node is syncing and the inserting goroutine runs the
// verifier, the election pre-compute hook and the points listener): GetMomentumProducer, VerifyMomentumProducer
// on real and re-timed momentums of the chain, GetPillarWeights and EpochStats of the consensus API. Every answer
// is compared with the same reference election; after a restart on the persisted cache everything is compared again.

import (
	"bytes"
	"crypto/ed25519"
	"encoding/binary"
	"fmt"
	"math/big"
	"math/rand"
	"os"
	"runtime"
	"sort"
	"strings"
	"sync/atomic"
	"time"

	"golang.org/x/crypto/sha3"

	"github.com/zenon-network/go-zenon/chain/nom"
	"github.com/zenon-network/go-zenon/common/db"
	"github.com/zenon-network/go-zenon/common/types"
	"github.com/zenon-network/go-zenon/vm/constants"
	"github.com/zenon-network/go-zenon/vm/embedded/definition"
	"github.com/zenon-network/go-zenon/wallet"

	"verif/harness/fw"
	"verif/harness/simnet"
)

func init() {
	fw.Register(&fw.Check{
		ID:    "C05",
		Level: "exploration",
		Rule: "each case generates a consistent genesis with 1/2/8/29/30/31/45 pillars (random or equal weights), runs a seeded history of 3–6 ticks with skipped slots and moving delegations on a real producing node, " +
			"and (a) compares the schedule of every settled tick on 5 kinds of nodes with an independent reference election, (b) offers ~150 momentum mutants under 4 attacker models to a real follower; " +
			"conc:* cases (and the smaller race:conc:* cases under the race detector) build a chain of 10–16 ticks with 3/8/29/30/31/45 genesis pillars (+1 registered mid-run), then let 8–16 goroutines ask ONE node with a deleted consensus cache " +
			"for the producers of PRNG-chosen slots through every public entry point that leads to an election (GetMomentumProducer, VerifyMomentumProducer on real and re-timed momentums, GetPillarWeights, EpochStats), several cold rounds, " +
			"each followed by a restart on the persisted cache and a sequential comparison; a second node syncs the chain (after a cold restart part-way) while readers ask for ticks settled under its current frontier; " +
			"distinct_nontrivial counts distinct (pillar count, weight mode, node kind) schedule comparisons and distinct (mutated field, attacker model, outcome) triples",
		Cases:            c05Cases,
		Run:              c05Run,
		MinDistinct:      20,
		DeathIsViolation: true,
		DeathSig: func(caseID, tail string) string {
			if strings.HasPrefix(caseID, "race:") && !strings.Contains(tail, "panic:") && !strings.Contains(tail, "fatal error:") {
				return "race-child-exit-without-panic" // the race-detector build exits non-zero at the end when it has reported a data race
			}
			return "node-crash " + topRepoFrame(tail)
		},
		Assumptions: []string{
			"the reference election is a re-implementation of the published algorithm (math/rand permutations seeded by the proof momentum's height) over raw ledger data",
			"schedule equality is required only for ticks whose proof momentum can no longer change (settled ticks)",
			"'not in the future' is probed with timestamps years ahead so that the wall clock never decides",
			"a node that is still syncing is only judged on ticks whose proof time is not later than the frontier the reader saw before it asked (the frontier only grows during that phase)",
			"GetPillarWeights of a momentum must be the raw delegation weights at the proof momentum of the previous tick; EpochStats' expected/produced counts must equal the reference schedule's slot counts and the chain's signer counts over the started ticks (weights of epoch statistics are not judged)",
		},
	})
}

var c05PillarCounts = []int{3, 1, 8, 29, 30, 31, 45, 2}

func c05Cases(tier string, seed int64) []string {
	n := 16 // every pillar count with random and with equal weights
	if tier == "thorough" {
		n = 960
	}
	var l []string
	for i := 0; i < n; i++ {
		l = append(l, fmt.Sprintf("world:%d", i))
	}
	nc, nr := 6, 2 // every pillar count of c05ConcPillarCounts once; two of them under the race detector
	if tier == "thorough" {
		nc, nr = 72, 6
	}
	for i := 0; i < nc; i++ {
		l = append(l, fmt.Sprintf("conc:%d", i))
	}
	for i := 0; i < nr; i++ {
		l = append(l, fmt.Sprintf("race:conc:%d", i))
	}
	return l
}

// ---- reference election ----------------------------------------------------

type c05Pillar struct {
	Name      string
	Producing types.Address
	Weight    *big.Int
}

type c05Snapshot struct {
	Pillars []c05Pillar // active pillars with weights
}

// c05TakeSnapshot reads the election inputs as raw keys from a node whose frontier is the momentum of interest.
func c05TakeSnapshot(n *simnet.Node) (*c05Snapshot, error) {
	view := n.Mgr.Frontier()
	// storage of the pillar contract: momentum-level prefix 3 ‖ address ‖ account-level prefix 4
	prefix := append(append([]byte{3}, types.PillarContract.Bytes()...), 4)
	mem := db.NewMemDB()
	it := view.NewIterator(prefix)
	for it.Next() {
		if it.Value() == nil {
			continue
		}
		_ = mem.Put(append([]byte{}, it.Key()[len(prefix):]...), append([]byte{}, it.Value()...))
	}
	it.Release()
	pillars, err := definition.GetPillarsList(mem, true, definition.AnyPillarType)
	if err != nil {
		return nil, err
	}
	dels, err := definition.GetDelegationsList(mem)
	if err != nil {
		return nil, err
	}
	weights := map[string]*big.Int{}
	for _, d := range dels {
		key := append(append(append([]byte{3}, d.Backer.Bytes()...), 3), types.ZnnTokenStandard.Bytes()...)
		bal := new(big.Int)
		if v, err := view.Get(key); err == nil {
			bal.SetBytes(v)
		}
		if weights[d.Name] == nil {
			weights[d.Name] = new(big.Int)
		}
		weights[d.Name].Add(weights[d.Name], bal)
	}
	s := &c05Snapshot{}
	for _, p := range pillars {
		w := weights[p.Name]
		if w == nil {
			w = new(big.Int)
		}
		s.Pillars = append(s.Pillars, c05Pillar{Name: p.Name, Producing: p.BlockProducingAddress, Weight: w})
	}
	return s, nil
}

func c05SortByWeight(l []c05Pillar) {
	sort.SliceStable(l, func(i, j int) bool {
		if c := l[i].Weight.Cmp(l[j].Weight); c != 0 {
			return c > 0
		}
		return l[i].Name < l[j].Name
	})
}

// c05Elect: the 30 producers of a tick, in slot order, given the snapshot at the proof momentum and its height.
func c05Elect(s *c05Snapshot, proofHeight uint64) []c05Pillar {
	const nodeCount, randCount = 30, 15
	all := append([]c05Pillar{}, s.Pillars...)
	c05SortByWeight(all)
	var a, b []c05Pillar
	if len(all) <= nodeCount {
		a = all
	} else {
		a, b = append([]c05Pillar{}, all[:nodeCount]...), append([]c05Pillar{}, all[nodeCount:]...)
	}
	seed := int64(proofHeight)
	var result []c05Pillar
	if len(a) == 0 {
		return nil
	}
	if len(a) != nodeCount {
		for len(result) < nodeCount {
			for _, i := range rand.New(rand.NewSource(seed)).Perm(len(a)) {
				result = append(result, a[i])
			}
		}
		result = result[:nodeCount]
	} else {
		top := rand.New(rand.NewSource(seed)).Perm(len(a))
		for i := 0; i < nodeCount-randCount; i++ {
			result = append(result, a[top[i]])
		}
		for i := nodeCount - randCount; i < nodeCount; i++ {
			b = append(b, a[top[i]])
		}
		for _, v := range rand.New(rand.NewSource(seed + 1)).Perm(len(b))[:randCount] {
			result = append(result, b[v])
		}
	}
	var shuffled []c05Pillar
	for _, v := range rand.New(rand.NewSource(seed)).Perm(len(result)) {
		shuffled = append(shuffled, result[v])
	}
	return shuffled
}

type c05Ref struct {
	genesis   int64            // unix seconds
	chain     []*nom.Momentum  // index 0 = height 1
	snapshots map[types.Hash]*c05Snapshot
}

func (r *c05Ref) proofFor(tick uint64) *nom.Momentum {
	// proof time: genesis+1s for ticks 0 and 1, otherwise the end of tick−2; proof = last momentum strictly before it
	var proofTime int64
	if tick < 2 {
		proofTime = r.genesis + 1
	} else {
		proofTime = r.genesis + int64(tick-1)*300
	}
	var proof *nom.Momentum
	for _, m := range r.chain {
		if int64(m.TimestampUnix) < proofTime {
			proof = m
		} else {
			break
		}
	}
	return proof
}

// producers returns the reference producers of a tick (nil if the snapshot of the proof momentum is unknown).
func (r *c05Ref) producers(tick uint64) []c05Pillar {
	proof := r.proofFor(tick)
	if proof == nil {
		return nil
	}
	s := r.snapshots[proof.Hash]
	if s == nil {
		return nil
	}
	return c05Elect(s, proof.Height)
}

// settledTicks: ticks whose proof momentum cannot change when the chain grows.
func (r *c05Ref) settledTicks() []uint64 {
	last := int64(r.chain[len(r.chain)-1].TimestampUnix)
	var l []uint64
	for t := uint64(0); ; t++ {
		var proofTime int64
		if t < 2 {
			proofTime = r.genesis + 1
		} else {
			proofTime = r.genesis + int64(t-1)*300
		}
		if proofTime > last {
			break
		}
		l = append(l, t)
	}
	return l
}

// ---- own hash pre-image -----------------------------------------------------

func c05u64(v uint64) []byte { b := make([]byte, 8); binary.BigEndian.PutUint64(b, v); return b }

func c05Sha3(data ...[]byte) []byte {
	h := sha3.New256()
	for _, d := range data {
		h.Write(d)
	}
	return h.Sum(nil)
}

func c05MomentumHash(m *nom.Momentum) []byte {
	var content []byte
	for _, hd := range m.Content {
		content = append(content, hd.Address.Bytes()...)
		content = append(content, c05u64(hd.Height)...)
		content = append(content, hd.Hash.Bytes()...)
	}
	return c05Sha3(c05u64(m.Version), c05u64(m.ChainIdentifier), m.PreviousHash.Bytes(), c05u64(m.Height), c05u64(m.TimestampUnix),
		c05Sha3(m.Data), c05Sha3(content), m.ChangesHash.Bytes())
}

func c05Address(pub []byte) types.Address {
	h := c05Sha3(pub)
	var a types.Address
	a[0] = 0
	copy(a[1:], h[:19])
	return a
}

// ---- the check ---------------------------------------------------------------

func c05Run(c *fw.C, caseID string) {
	var ci int
	if n, _ := fmt.Sscanf(caseID, "race:conc:%d", &ci); n == 1 {
		c05Conc(c, caseID, ci, true)
		return
	}
	if n, _ := fmt.Sscanf(caseID, "conc:%d", &ci); n == 1 {
		c05Conc(c, caseID, ci, false)
		return
	}
	r := c.Rand(caseID)
	base := c.ScratchDir("c05")
	defer os.RemoveAll(base)
	var idx int
	fmt.Sscanf(caseID, "world:%d", &idx)
	// pillars can be revoked 60 s after their registration (the lock period is a variable of the contract; the
	// node's own tests shorten it as well)
	oldLock, oldRevoke := constants.PillarEpochLockTime, constants.PillarEpochRevokeTime
	constants.PillarEpochLockTime, constants.PillarEpochRevokeTime = 60, 1<<40
	defer func() { constants.PillarEpochLockTime, constants.PillarEpochRevokeTime = oldLock, oldRevoke }()
	nPillars := c05PillarCounts[idx%len(c05PillarCounts)]
	equal := (idx/len(c05PillarCounts))%3 == 1 || idx == 3
	world, err := simnet.MakeWorld(rand.New(rand.NewSource(r.Int63())), nPillars, 6, equal)
	if err != nil {
		c.Violation("harness-genesis-inconsistent", err.Error())
		return
	}
	mode := "random-weights"
	if equal {
		mode = "equal-weights"
	}
	// one more key: a pillar that the rich user registers in the middle of the run
	extraKey, _ := wallet.DeriveWithIndex(uint32(7000+idx), []byte("0123456789abcdef"))
	keys := append(append([]*wallet.KeyPair{}, world.PillarKeys...), extraKey)
	P := simnet.Open("P", base+"/P", world.NewGenesis(), keys)
	defer P.Stop()
	w := simnet.NewWorkload(rand.New(rand.NewSource(r.Int63())), P)
	w.Users = world.Users
	w.PillarNames = world.PillarNames
	w.SporkKey = world.SporkKey
	ref := &c05Ref{genesis: world.Config.GenesisTimestampSec, snapshots: map[types.Hash]*c05Snapshot{}}
	snap := func() bool {
		s, err := c05TakeSnapshot(P)
		if err != nil {
			c.Violation("snapshot-failed", err.Error())
			return false
		}
		f := P.Frontier()
		c.SetAdd("active_pillar_counts_seen_at_proof_candidates", fmt.Sprint(len(s.Pillars)))
		ref.snapshots[f.Hash] = s
		ref.chain = append(ref.chain, f)
		return true
	}
	if !snap() {
		return
	}
	ticks := 3 + r.Intn(3)
	nMomentums := ticks * 30
	nextLive := uint64(0)
	for i := 0; i < nMomentums; i++ {
		// delegations move, balances move
		for k := 0; k < r.Intn(4); k++ {
			u := world.Users[r.Intn(len(world.Users))]
			switch r.Intn(3) {
			case 0:
				_, _ = P.Send(u, types.PillarContract, types.ZnnTokenStandard, big.NewInt(0), definition.ABIPillars.PackMethodPanic(definition.DelegateMethodName, world.PillarNames[r.Intn(nPillars)]))
			case 1:
				_, _ = P.Send(u, types.PillarContract, types.ZnnTokenStandard, big.NewInt(0), definition.ABIPillars.PackMethodPanic(definition.UndelegateMethodName))
			default:
				w.One()
			}
		}
		// a pillar registers mid-run (deposit the QSR cost first, register a few momentums later)
		rich := world.Users[0]
		if i == 12 {
			cost := new(big.Int).Add(constants.PillarQsrStakeBaseAmount, new(big.Int).Mul(constants.PillarQsrStakeIncreaseAmount, big.NewInt(int64(nPillars))))
			_, _ = P.Send(rich, types.PillarContract, types.QsrTokenStandard, cost, definition.ABIPillars.PackMethodPanic(definition.DepositQsrMethodName))
		}
		if i == 16 {
			_, err := P.Send(rich, types.PillarContract, types.ZnnTokenStandard, new(big.Int).Set(constants.PillarStakeAmount),
				definition.ABIPillars.PackMethodPanic(definition.RegisterMethodName, "pillar-registered-mid-run", extraKey.Address, rich.Address, uint8(0), uint8(100)))
			if err == nil {
				c.Count("pillar_registrations_submitted_mid_run", 1)
			}
		}
		if i == 20 {
			_, _ = P.Send(rich, types.PillarContract, types.ZnnTokenStandard, big.NewInt(0), definition.ABIPillars.PackMethodPanic(definition.DelegateMethodName, "pillar-registered-mid-run"))
		}
		if i == 22 || i == 24 {
			u := world.Users[1+r.Intn(len(world.Users)-1)]
			_, _ = P.Send(u, types.PillarContract, types.ZnnTokenStandard, big.NewInt(0), definition.ABIPillars.PackMethodPanic(definition.DelegateMethodName, "pillar-registered-mid-run"))
		}
		// ... and is revoked again in two worlds of three, while accounts still delegate to its name (a revocation
		// does not touch delegations; they keep pointing at a name without an active pillar)
		if i == 28 && idx%3 != 2 {
			if _, err := P.Send(rich, types.PillarContract, types.ZnnTokenStandard, big.NewInt(0), definition.ABIPillars.PackMethodPanic(definition.RevokeMethodName, "pillar-registered-mid-run")); err == nil {
				c.Count("pillar_revocations_submitted_mid_run", 1)
			}
		}
		skip := 0
		if r.Intn(6) == 0 {
			skip = 1 + r.Intn(4)
		}
		if _, err := P.Produce(skip); err != nil {
			c.Violation("producer-cannot-produce", map[string]interface{}{"pillars": nPillars, "height": P.Height() + 1, "err": err.Error()})
			return
		}
		if !snap() {
			return
		}
		// live: a tick whose proof momentum has just become final (the frontier's timestamp reached the proof time —
		// at the earliest with the momentum that sits exactly ON the proof time) is asked for right away, on the
		// producer, and compared with the reference; the same answers are compared again at the end
		for {
			var proofTime int64
			if nextLive < 2 {
				proofTime = ref.genesis + 1
			} else {
				proofTime = ref.genesis + int64(nextLive-1)*300
			}
			ft := int64(P.Frontier().TimestampUnix)
			if proofTime > ft {
				break
			}
			prods := ref.producers(nextLive)
			for slot := 0; slot < 30 && prods != nil; slot++ {
				got, err := P.Cons.GetMomentumProducer(time.Unix(ref.genesis+int64(nextLive)*300+int64(slot)*10, 0))
				c.Eval(1)
				if err != nil || got == nil || *got != prods[slot].Producing {
					c.Violation("schedule-differs-from-reference producer-live-at-settlement", map[string]interface{}{"tick": nextLive, "slot": slot, "node_says": fmt.Sprint(got), "err": fmt.Sprint(err),
						"reference": prods[slot].Producing.String(), "pillars": nPillars, "weights": mode, "frontier_timestamp_minus_proof_time": ft - proofTime, "proof_height": ref.proofFor(nextLive).Height})
					return
				}
			}
			c.SetAdd("live_settlement_distance_frontier_minus_proof_time", fmt.Sprint(ft-proofTime))
			nextLive++
		}
	}
	// every produced (= accepted) momentum: signer is the reference-elected pillar of the slot containing its timestamp
	for _, m := range ref.chain[1:] {
		tick := uint64((int64(m.TimestampUnix) - ref.genesis) / 300)
		slot := int((int64(m.TimestampUnix)-ref.genesis)%300) / 10
		prods := ref.producers(tick)
		c.Eval(1)
		if prods == nil {
			c.Violation("reference-election-unavailable", map[string]interface{}{"tick": tick})
			return
		}
		if c05Address(m.PublicKey) != prods[slot].Producing {
			c.Violation("accepted-momentum-not-from-elected-pillar", map[string]interface{}{"height": m.Height, "tick": tick, "slot": slot, "signer": c05Address(m.PublicKey).String(), "reference_elected": prods[slot].Producing.String(), "pillars": nPillars, "weights": mode})
			return
		}
	}

	// schedule comparison on several kinds of nodes
	settled := ref.settledTicks()
	compare := func(n *simnet.Node, kind string, shuffle bool) bool {
		type q struct {
			tick uint64
			slot int
		}
		var qs []q
		for _, t := range settled {
			for s := 0; s < 30; s++ {
				qs = append(qs, q{t, s})
			}
		}
		if shuffle {
			r.Shuffle(len(qs), func(i, j int) { qs[i], qs[j] = qs[j], qs[i] })
		}
		cache := map[uint64][]c05Pillar{}
		for _, x := range qs {
			prods, ok := cache[x.tick]
			if !ok {
				prods = ref.producers(x.tick)
				cache[x.tick] = prods
			}
			t := time.Unix(ref.genesis+int64(x.tick)*300+int64(x.slot)*10, 0)
			got, err := n.Cons.GetMomentumProducer(t)
			c.Eval(1)
			if err != nil || got == nil {
				c.Violation("schedule-unavailable "+kind, map[string]interface{}{"tick": x.tick, "slot": x.slot, "err": fmt.Sprint(err), "pillars": nPillars})
				return false
			}
			if prods == nil || *got != prods[x.slot].Producing {
				c.Violation("schedule-differs-from-reference "+kind, map[string]interface{}{"tick": x.tick, "slot": x.slot, "node_says": got.String(),
					"reference": fmt.Sprint(prods != nil && true), "pillars": nPillars, "weights": mode, "proof_height": ref.proofFor(x.tick).Height})
				return false
			}
			// the elected producer is an active registered pillar at the proof momentum
			active := false
			for _, p := range ref.snapshots[ref.proofFor(x.tick).Hash].Pillars {
				if p.Producing == *got {
					active = true
				}
			}
			if !active {
				c.Violation("slot-producer-is-not-an-active-pillar "+kind, map[string]interface{}{"tick": x.tick, "slot": x.slot, "producer": got.String()})
				return false
			}
		}
		c.Distinct(fmt.Sprintf("schedule/pillars=%d/%s/%s", nPillars, mode, kind))
		return true
	}
	if !compare(P, "producer-live", false) {
		return
	}
	F := simnet.Open("F", base+"/F", world.NewGenesis(), nil)
	defer F.Stop()
	if err := F.SyncFrom(P, 1+r.Intn(40)); err != nil {
		c.Violation("follower-refuses-producers-momentum", map[string]interface{}{"err": err.Error(), "pillars": nPillars, "weights": mode})
		return
	}
	if !compare(F, "follower-warm", false) {
		return
	}
	F.Restart()
	if !compare(F, "follower-restarted-cold", true) {
		return
	}
	F.RestartFresh()
	if !compare(F, "follower-restarted-consensus-cache-deleted", true) {
		return
	}
	G := simnet.Open("G", base+"/G", world.NewGenesis(), nil)
	defer G.Stop()
	if err := G.SyncFrom(P, 128); err != nil {
		c.Violation("follower-refuses-producers-momentum", err.Error())
		return
	}
	if !compare(G, "follower-shuffled-queries", true) {
		return
	}
	// a node that went through a reorganisation: R follows a competing branch first
	c05Reorg(c, world, P, ref, base, r, nPillars, mode, compare)

	// momentum mutants
	c05Mutants(c, world, P, ref, base, r, nPillars)
	if idx < 2 {
		c.Sample(map[string]interface{}{"case": caseID, "pillars": nPillars, "weights": mode, "momentums": P.Height(), "settled_ticks": len(settled)})
	}
}

func c05Reorg(c *fw.C, world *simnet.World, P *simnet.Node, ref *c05Ref, base string, r *rand.Rand, nPillars int, mode string, compare func(*simnet.Node, string, bool) bool) {
	top := P.Height()
	depth := uint64(2 + r.Intn(20))
	if depth >= top-2 {
		return
	}
	fork := top - depth
	// B: a producer that shares P's chain up to the fork point and then builds its own, shorter branch
	B := simnet.Open("B", base+"/B", world.NewGenesis(), world.PillarKeys)
	defer B.Stop()
	if _, err := B.InsertChain(simnet.CloneBatch(P.Range(2, fork))); err != nil {
		c.Violation("follower-refuses-producers-momentum", err.Error())
		return
	}
	wb := simnet.NewWorkload(rand.New(rand.NewSource(r.Int63())), B)
	wb.Users, wb.PillarNames, wb.SporkKey = world.Users, world.PillarNames, world.SporkKey
	for i := uint64(0); i < depth-1; i++ {
		wb.Step(3)
		if _, err := B.Produce(0); err != nil {
			return
		}
	}
	R := simnet.Open("R", base+"/R", world.NewGenesis(), nil)
	defer R.Stop()
	if err := R.SyncFrom(B, 50); err != nil {
		c.Violation("follower-refuses-producers-momentum", err.Error())
		return
	}
	// warm R's consensus caches on the branch that will be abandoned
	for k := 0; k < 60; k++ {
		_, _ = R.Cons.GetMomentumProducer(R.Frontier().Timestamp.Add(time.Duration(10*(k-30)) * time.Second))
	}
	if _, err := R.InsertChain(simnet.CloneBatch(P.Range(fork+1, top))); err != nil {
		c.Violation("switch-refused", map[string]interface{}{"err": err.Error(), "depth": depth})
		return
	}
	compare(R, "node-after-reorganisation", true)
}

type c05Mutant struct {
	field string
	apply func(m *nom.Momentum, d *nom.DetailedMomentum) bool
}

func c05Mutants(c *fw.C, world *simnet.World, P *simnet.Node, ref *c05Ref, base string, r *rand.Rand, nPillars int) {
	// N follows P up to a height below the top; the honest next momentum is the base of all mutants
	N := simnet.Open("N", base+"/N", world.NewGenesis(), nil)
	defer N.Stop()
	top := P.Height()
	for round := 0; round < 3; round++ {
		h := uint64(5) + uint64(r.Int63n(int64(top-6)))
		if N.Height() >= h {
			continue
		}
		if _, err := N.InsertChain(simnet.CloneBatch(P.Range(N.Height()+1, h))); err != nil {
			c.Violation("follower-refuses-producers-momentum", err.Error())
			return
		}
		parent := N.Frontier()
		honest := P.Detailed(h + 1)
		producerKey := world.KeyOf(c05Address(honest.Momentum.PublicKey))
		if producerKey == nil {
			continue // produced by the pillar registered mid-run: its key is not part of the world
		}
		var otherPillar *wallet.KeyPair
		for _, k := range world.PillarKeys {
			if k.Address != producerKey.Address {
				otherPillar = k
			}
		}
		mutants := []c05Mutant{
			{"Version=0", func(m *nom.Momentum, d *nom.DetailedMomentum) bool { m.Version = 0; return true }},
			{"Version=2", func(m *nom.Momentum, d *nom.DetailedMomentum) bool { m.Version = 2; return true }},
			{"ChainIdentifier+1", func(m *nom.Momentum, d *nom.DetailedMomentum) bool { m.ChainIdentifier++; return true }},
			{"PreviousHash-flip", func(m *nom.Momentum, d *nom.DetailedMomentum) bool { m.PreviousHash[3] ^= 4; return true }},
			{"PreviousHash=grandparent", func(m *nom.Momentum, d *nom.DetailedMomentum) bool { m.PreviousHash = parent.PreviousHash; return true }},
			{"Height+1", func(m *nom.Momentum, d *nom.DetailedMomentum) bool { m.Height++; return true }},
			{"Height-1", func(m *nom.Momentum, d *nom.DetailedMomentum) bool { m.Height--; return true }},
			{"Timestamp+10(next slot)", func(m *nom.Momentum, d *nom.DetailedMomentum) bool { m.TimestampUnix += 10; return true }},
			{"Timestamp-10(previous slot)", func(m *nom.Momentum, d *nom.DetailedMomentum) bool { m.TimestampUnix -= 10; return true }},
			{"Timestamp+3(unaligned)", func(m *nom.Momentum, d *nom.DetailedMomentum) bool { m.TimestampUnix += 3; return true }},
			{"Timestamp=parent", func(m *nom.Momentum, d *nom.DetailedMomentum) bool { m.TimestampUnix = parent.TimestampUnix; return true }},
			{"Timestamp<parent", func(m *nom.Momentum, d *nom.DetailedMomentum) bool { m.TimestampUnix = parent.TimestampUnix - 10; return true }},
			{"Timestamp+300(next tick same slot)", func(m *nom.Momentum, d *nom.DetailedMomentum) bool { m.TimestampUnix += 300; return true }},
			{"Timestamp=far-future", func(m *nom.Momentum, d *nom.DetailedMomentum) bool { m.TimestampUnix = 4102444800 + uint64(r.Intn(1000))*10; return true }},
			{"Timestamp=0", func(m *nom.Momentum, d *nom.DetailedMomentum) bool { m.TimestampUnix = 0; return true }},
			{"Data-nonempty", func(m *nom.Momentum, d *nom.DetailedMomentum) bool { m.Data = []byte{0}; return true }},
			{"ChangesHash-flip", func(m *nom.Momentum, d *nom.DetailedMomentum) bool { m.ChangesHash[0] ^= 1; return true }},
			{"ChangesHash=zero", func(m *nom.Momentum, d *nom.DetailedMomentum) bool { m.ChangesHash = types.Hash{}; return true }},
			{"Content-drop-last", func(m *nom.Momentum, d *nom.DetailedMomentum) bool {
				if len(m.Content) == 0 {
					return false
				}
				m.Content = m.Content[:len(m.Content)-1]
				return true
			}},
			{"Content-drop-last-and-its-block", func(m *nom.Momentum, d *nom.DetailedMomentum) bool {
				if len(m.Content) == 0 {
					return false
				}
				last := m.Content[len(m.Content)-1]
				m.Content = m.Content[:len(m.Content)-1]
				var keep []*nom.AccountBlock
				for _, b := range d.AccountBlocks {
					if b.Hash != last.Hash {
						keep = append(keep, b)
					}
				}
				d.AccountBlocks = keep
				return true
			}},
			{"Content-duplicate-entry", func(m *nom.Momentum, d *nom.DetailedMomentum) bool {
				if len(m.Content) == 0 {
					return false
				}
				m.Content = append(m.Content, m.Content[0])
				return true
			}},
			{"Content-bogus-header", func(m *nom.Momentum, d *nom.DetailedMomentum) bool {
				hd := types.AccountHeader{Address: world.Users[0].Address, HashHeight: types.HashHeight{Height: 9999}}
				m.Content = append(m.Content, &hd)
				return true
			}},
			{"Content-reversed", func(m *nom.Momentum, d *nom.DetailedMomentum) bool {
				if len(m.Content) < 2 {
					return false
				}
				for i, j := 0, len(m.Content)-1; i < j; i, j = i+1, j-1 {
					m.Content[i], m.Content[j] = m.Content[j], m.Content[i]
				}
				return true
			}},
			{"Blocks-dropped", func(m *nom.Momentum, d *nom.DetailedMomentum) bool {
				if len(d.AccountBlocks) == 0 {
					return false
				}
				d.AccountBlocks = d.AccountBlocks[1:]
				return true
			}},
			{"PublicKey-other", func(m *nom.Momentum, d *nom.DetailedMomentum) bool {
				if otherPillar == nil {
					m.PublicKey = world.Users[2].Public
				} else {
					m.PublicKey = otherPillar.Public
				}
				return true
			}},
			{"Signature-flip", func(m *nom.Momentum, d *nom.DetailedMomentum) bool { m.Signature[10] ^= 0x20; return true }},
			{"Signature-empty", func(m *nom.Momentum, d *nom.DetailedMomentum) bool { m.Signature = nil; return true }},
			{"none(honest)", func(m *nom.Momentum, d *nom.DetailedMomentum) bool { return true }},
		}
		models := []string{"raw", "resigned-by-elected-pillar", "resigned-by-other-pillar", "resigned-by-non-pillar"}
		for _, mu := range mutants {
			for _, model := range models {
				d := simnet.CloneDetailed(honest)
				m := d.Momentum
				if !mu.apply(m, d) {
					continue
				}
				switch model {
				case "resigned-by-elected-pillar":
					c16Resign(m, producerKey)
				case "resigned-by-other-pillar":
					if otherPillar == nil {
						continue
					}
					c16Resign(m, otherPillar)
				case "resigned-by-non-pillar":
					c16Resign(m, world.Users[1])
				}
				if mu.field == "none(honest)" && model != "resigned-by-other-pillar" && model != "resigned-by-non-pillar" {
					continue
				}
				// drop cached fields
				data, _ := m.Serialize()
				m2, _ := nom.DeserializeMomentum(data)
				d.Momentum = m2
				_, err, panicked := c16Insert(N, []*nom.DetailedMomentum{d})
				c.Eval(1)
				if panicked != "" {
					c.Violation("momentum-mutant-panics "+mu.field, map[string]interface{}{"model": model, "panic": panicked})
					return
				}
				accepted := err == nil && N.Frontier().Hash == m2.Hash
				outcome := "rejected"
				if accepted {
					outcome = "accepted"
				}
				c.Distinct(fmt.Sprintf("mutant/%s/%s/%s", mu.field, model, outcome))
				if err != nil {
					c.SetAdd("momentum_rejection_reasons", c05ErrClass(err))
				}
				if accepted {
					why := c05Valid(m2, parent, honest.Momentum, ref)
					// restore N
					ins := N.Chain.AcquireInsert("c05 restore")
					rerr := N.Chain.RollbackTo(ins, parent.Identifier())
					ins.Unlock()
					if why != "" {
						c.Violation("invalid-momentum-accepted "+why, map[string]interface{}{"mutated": mu.field, "model": model, "height": m2.Height, "pillars": nPillars})
						return
					}
					if rerr != nil {
						c.Inconclusive("cannot restore follower: " + rerr.Error())
						return
					}
				} else if N.Frontier().Hash != parent.Hash {
					c.Violation("rejected-momentum-moved-the-frontier", map[string]interface{}{"mutated": mu.field, "model": model})
					return
				}
			}
		}
		// the honest momentum must still be accepted after all that
		if _, err := N.InsertChain(simnet.CloneBatch([]*nom.DetailedMomentum{honest})); err != nil {
			c.Violation("honest-momentum-refused-after-mutants", err.Error())
			return
		}
	}
}

func c05ErrClass(err error) string {
	s := err.Error()
	if i := bytes.IndexByte([]byte(s), '{'); i > 0 {
		s = s[:i]
	}
	if len(s) > 60 {
		s = s[:60]
	}
	// strip digits and hex so that classes are stable
	out := make([]byte, 0, len(s))
	for i := 0; i < len(s); i++ {
		ch := s[i]
		if ch >= '0' && ch <= '9' {
			continue
		}
		out = append(out, ch)
	}
	return string(out)
}

// c05Valid is the independent validity predicate for an accepted momentum. Returns "" when valid, else the broken rule.
func c05Valid(m *nom.Momentum, parent *nom.Momentum, honest *nom.Momentum, ref *c05Ref) string {
	if !bytes.Equal(c05MomentumHash(m), m.Hash.Bytes()) {
		return "hash-does-not-commit-to-content"
	}
	if m.PreviousHash != parent.Hash || m.Height != parent.Height+1 {
		return "does-not-extend-frontier"
	}
	if m.TimestampUnix <= parent.TimestampUnix {
		return "timestamp-not-later-than-parent"
	}
	if m.TimestampUnix >= 4102444800 {
		return "timestamp-in-the-future"
	}
	if len(m.PublicKey) != ed25519.PublicKeySize || !ed25519.Verify(m.PublicKey, m.Hash.Bytes(), m.Signature) {
		return "signature-invalid"
	}
	ts := int64(m.TimestampUnix)
	if ts < ref.genesis {
		return "timestamp-before-genesis"
	}
	tick := uint64((ts - ref.genesis) / 300)
	slot := int((ts-ref.genesis)%300) / 10
	prods := ref.producers(tick)
	if prods == nil {
		return "" // proof momentum unknown to the reference (future tick beyond the recorded chain): cannot judge
	}
	if c05Address(m.PublicKey) != prods[slot].Producing {
		return "signer-is-not-the-elected-pillar"
	}
	// same parent and same content as the honest momentum ⇒ same state changes ⇒ same changes hash
	if len(m.Content) == len(honest.Content) {
		same := true
		for i := range m.Content {
			if *m.Content[i] != *honest.Content[i] {
				same = false
			}
		}
		if same && m.ChangesHash != honest.ChangesHash {
			return "changes-hash-does-not-commit-to-state-changes"
		}
	}
	return ""
}

// ---- (3) one node, many concurrent askers, cold election cache -------------------------------------

var c05ConcPillarCounts = []int{8, 45, 29, 31, 3, 30}

// c05ConcWorld: a finished chain on a producing node plus everything the reference says about it (read-only
// once built, so that reader goroutines may share it).
type c05ConcWorld struct {
	nPillars int
	mode     string
	genesis  int64
	chain    []*nom.Momentum // index 0 = height 1 (never handed to the node under test: readers use raw)
	raw      [][]byte        // serialized momentums, same index
	settled  []uint64
	sched    map[uint64][]c05Pillar         // tick → reference producers
	weights  map[uint64]map[string]*big.Int // tick → reference weights (name → weight) at the tick's proof momentum
	proofH   map[uint64]uint64              // tick → height of the proof momentum
	expected map[string]uint64              // epoch 0: slots per pillar name over the started ticks
	produced map[string]uint64              // epoch 0: momentums per pillar name
}

func (w *c05ConcWorld) proofTime(tick uint64) int64 {
	if tick < 2 {
		return w.genesis + 1
	}
	return w.genesis + int64(tick-1)*300
}

// maxSettled: index into w.settled of the last tick whose proof momentum is final under a frontier with timestamp fts.
func (w *c05ConcWorld) maxSettled(fts int64) int {
	k := -1
	for i, t := range w.settled {
		if w.proofTime(t) <= fts {
			k = i
		}
	}
	return k
}

type c05Finding struct {
	sig    string
	detail map[string]interface{}
}

// c05Reader is one asker (a goroutine, or the sequential pass after a restart). It owns its PRNG and counters.
type c05Reader struct {
	w       *c05ConcWorld
	n       *simnet.Node
	kind    string
	r       *rand.Rand
	asked   map[string]int
	overlap int // queries during which the node's frontier moved
	finding *c05Finding
}

func (q *c05Reader) fail(sig string, detail map[string]interface{}) bool {
	detail["pillars_in_genesis"] = q.w.nPillars
	detail["weights"] = q.w.mode
	q.finding = &c05Finding{sig + " " + q.kind, detail}
	return false
}

func (q *c05Reader) askProducer(tick uint64, slot int) bool {
	prods := q.w.sched[tick]
	got, err := q.n.Cons.GetMomentumProducer(time.Unix(q.w.genesis+int64(tick)*300+int64(slot)*10, 0))
	q.asked["GetMomentumProducer"]++
	if err != nil || got == nil {
		return q.fail("schedule-unavailable", map[string]interface{}{"tick": tick, "slot": slot, "err": fmt.Sprint(err)})
	}
	if *got != prods[slot].Producing {
		return q.fail("schedule-differs-from-reference", map[string]interface{}{"tick": tick, "slot": slot, "node_says": got.String(),
			"reference": prods[slot].Producing.String(), "reference_name": prods[slot].Name, "proof_height": q.w.proofH[tick]})
	}
	return true
}

// askVerify offers the momentum at chain index i (optionally moved to another slot) to VerifyMomentumProducer.
func (q *c05Reader) askVerify(i int, retime bool, tick uint64, slot int) bool {
	m, err := nom.DeserializeMomentum(q.w.raw[i])
	if err != nil {
		return true
	}
	if retime {
		m.TimestampUnix = uint64(q.w.genesis + int64(tick)*300 + int64(slot)*10)
		data, _ := m.Serialize()
		m, _ = nom.DeserializeMomentum(data)
	} else {
		tick = uint64((int64(m.TimestampUnix) - q.w.genesis) / 300)
		slot = int((int64(m.TimestampUnix)-q.w.genesis)%300) / 10
	}
	want := c05Address(m.PublicKey) == q.w.sched[tick][slot].Producing
	ok, err := q.n.Cons.VerifyMomentumProducer(m)
	entry := "VerifyMomentumProducer(real momentum)"
	if retime {
		entry = "VerifyMomentumProducer(re-timed momentum)"
	}
	q.asked[entry]++
	if err != nil {
		return q.fail("schedule-unavailable", map[string]interface{}{"tick": tick, "slot": slot, "err": err.Error(), "entry": "VerifyMomentumProducer"})
	}
	if ok != want {
		return q.fail("verify-producer-differs-from-reference", map[string]interface{}{"tick": tick, "slot": slot, "momentum_height": m.Height, "re_timed": retime,
			"signer": c05Address(m.PublicKey).String(), "node_says_elected": ok, "reference_elected": q.w.sched[tick][slot].Producing.String(), "proof_height": q.w.proofH[tick]})
	}
	return true
}

// askWeights: consensus API fixed at the momentum with chain index i — the weights of the tick before that momentum's.
func (q *c05Reader) askWeights(i int) bool {
	m := q.w.chain[i]
	tick := uint64((int64(m.TimestampUnix) - q.w.genesis) / 300)
	if tick > 0 {
		tick--
	}
	got, err := q.n.Cons.FixedPillarReader(types.HashHeight{Hash: m.Hash, Height: m.Height}).GetPillarWeights()
	q.asked["GetPillarWeights"]++
	if err != nil {
		return q.fail("pillar-weights-unavailable", map[string]interface{}{"tick": tick, "err": err.Error()})
	}
	want := q.w.weights[tick]
	bad := ""
	if len(got) != len(want) {
		bad = fmt.Sprintf("%d pillars instead of %d", len(got), len(want))
	}
	for name, wv := range want {
		if gv, ok := got[name]; !ok || gv == nil || gv.Cmp(wv) != 0 {
			bad = fmt.Sprintf("pillar %s: node says %v, reference %v", name, gv, wv)
		}
	}
	if bad != "" {
		return q.fail("pillar-weights-differ-from-reference", map[string]interface{}{"tick": tick, "momentum_height": m.Height, "difference": bad})
	}
	return true
}

// askEpochStats: epoch 0 of the consensus API at the frontier (only on a node whose ledger is complete and at rest).
func (q *c05Reader) askEpochStats() bool {
	st, err := q.n.Cons.FrontierPillarReader().EpochStats(0)
	q.asked["EpochStats"]++
	if err != nil || st == nil {
		return q.fail("epoch-stats-unavailable", map[string]interface{}{"err": fmt.Sprint(err)})
	}
	bad := ""
	for name, p := range st.Pillars {
		if p.ExceptedBlockNum != q.w.expected[name] {
			bad = fmt.Sprintf("pillar %q: %d expected momentums, the reference schedule gives it %d slots", name, p.ExceptedBlockNum, q.w.expected[name])
		} else if p.BlockNum != q.w.produced[name] {
			bad = fmt.Sprintf("pillar %q: %d produced momentums, the chain has %d signed by it", name, p.BlockNum, q.w.produced[name])
		}
	}
	for name, e := range q.w.expected {
		if _, ok := st.Pillars[name]; !ok && e > 0 {
			bad = fmt.Sprintf("pillar %q missing (the reference schedule gives it %d slots)", name, e)
		}
	}
	if bad == "" && st.TotalBlocks != uint64(len(q.w.chain)-1) {
		bad = fmt.Sprintf("%d total momentums, the chain has %d after genesis", st.TotalBlocks, len(q.w.chain)-1)
	}
	if bad != "" {
		return q.fail("epoch-stats-differ-from-reference", map[string]interface{}{"difference": bad})
	}
	return true
}

// one PRNG-chosen question; topTick/topIdx bound what may be asked (everything on a node at rest).
func (q *c05Reader) askRandom(maxSettledIdx, maxChainIdx int, atRest bool) bool {
	w := q.w
	tick := w.settled[q.r.Intn(maxSettledIdx+1)]
	if !atRest && q.r.Intn(5) < 3 && maxSettledIdx > 0 {
		tick = w.settled[maxSettledIdx-q.r.Intn(2)] // a syncing node: mostly the ticks that have just become settled
	}
	slot := q.r.Intn(30)
	switch x := q.r.Intn(20); {
	case x < 10:
		return q.askProducer(tick, slot)
	case x < 13:
		if maxChainIdx < 1 {
			return q.askProducer(tick, slot)
		}
		return q.askVerify(1+q.r.Intn(maxChainIdx), false, 0, 0)
	case x < 16:
		if maxChainIdx < 1 {
			return q.askProducer(tick, slot)
		}
		return q.askVerify(1+q.r.Intn(maxChainIdx), true, tick, slot)
	case x < 19 || !atRest:
		return q.askWeights(q.r.Intn(maxChainIdx + 1))
	default:
		return q.askEpochStats()
	}
}

func c05NewReader(w *c05ConcWorld, n *simnet.Node, kind string, r *rand.Rand) *c05Reader {
	return &c05Reader{w: w, n: n, kind: kind, r: r, asked: map[string]int{}}
}

// c05Merge folds the readers' counters into the evidence and reports the first finding of every signature.
func c05Merge(c *fw.C, readers []*c05Reader) bool {
	ok := true
	seen := map[string]bool{}
	for _, q := range readers {
		for entry, n := range q.asked {
			c.Eval(n)
			c.Count("asked["+q.kind+"] "+entry, n)
		}
		if q.overlap > 0 {
			c.Count("answers_during_which_the_syncing_nodes_frontier_moved", q.overlap)
		}
		if q.finding != nil {
			ok = false
			if !seen[q.finding.sig] {
				seen[q.finding.sig] = true
				c.Violation(q.finding.sig, q.finding.detail)
			}
		}
	}
	return ok
}

// c05Sequential: one asker goes through every slot of every settled tick, every momentum and the statistics.
func c05Sequential(c *fw.C, w *c05ConcWorld, n *simnet.Node, kind string) bool {
	q := c05NewReader(w, n, kind, nil)
	func() {
		for _, t := range w.settled {
			for s := 0; s < 30; s++ {
				if !q.askProducer(t, s) {
					return
				}
			}
		}
		for i := 1; i < len(w.chain); i++ {
			if !q.askVerify(i, false, 0, 0) {
				return
			}
		}
		for i := 0; i < len(w.chain); i += 7 {
			if !q.askWeights(i) {
				return
			}
		}
		q.askEpochStats()
	}()
	if !c05Merge(c, []*c05Reader{q}) {
		return false
	}
	c.Distinct(fmt.Sprintf("schedule/pillars=%d/%s/%s", w.nPillars, w.mode, kind))
	return true
}

func c05Conc(c *fw.C, caseID string, idx int, small bool) {
	ci := idx
	oldLock, oldRevoke := constants.PillarEpochLockTime, constants.PillarEpochRevokeTime
	constants.PillarEpochLockTime, constants.PillarEpochRevokeTime = 60, 1<<40
	defer func() { constants.PillarEpochLockTime, constants.PillarEpochRevokeTime = oldLock, oldRevoke }()
	r := c.Rand(caseID)
	base := c.ScratchDir("c05conc")
	defer os.RemoveAll(base)
	nPillars := c05ConcPillarCounts[idx%len(c05ConcPillarCounts)]
	if small {
		nPillars = []int{8, 45, 31, 29, 30, 3}[idx%6]
	}
	equal := (idx/len(c05ConcPillarCounts))%3 == 1
	world, err := simnet.MakeWorld(rand.New(rand.NewSource(r.Int63())), nPillars, 6, equal)
	if err != nil {
		c.Violation("harness-genesis-inconsistent", err.Error())
		return
	}
	w := &c05ConcWorld{nPillars: nPillars, mode: "random-weights", genesis: world.Config.GenesisTimestampSec, sched: map[uint64][]c05Pillar{},
		weights: map[uint64]map[string]*big.Int{}, proofH: map[uint64]uint64{}, expected: map[string]uint64{}, produced: map[string]uint64{}}
	if equal {
		w.mode = "equal-weights"
	}
	extraKey, _ := wallet.DeriveWithIndex(uint32(7500+idx), []byte("0123456789abcdef"))
	P := simnet.Open("P", base+"/P", world.NewGenesis(), append(append([]*wallet.KeyPair{}, world.PillarKeys...), extraKey))
	defer P.Stop()
	wl := simnet.NewWorkload(rand.New(rand.NewSource(r.Int63())), P)
	wl.Users, wl.PillarNames, wl.SporkKey = world.Users, world.PillarNames, world.SporkKey
	ref := &c05Ref{genesis: w.genesis, snapshots: map[types.Hash]*c05Snapshot{}}
	snap := func() bool {
		s, err := c05TakeSnapshot(P)
		if err != nil {
			c.Violation("snapshot-failed", err.Error())
			return false
		}
		f := P.Frontier()
		c.SetAdd("active_pillar_counts_seen_at_proof_candidates", fmt.Sprint(len(s.Pillars)))
		ref.snapshots[f.Hash] = s
		ref.chain = append(ref.chain, f)
		return true
	}
	if !snap() {
		return
	}
	// many short ticks: most slots are skipped (never a whole tick), delegations and balances move, a pillar registers
	ticks := 10 + r.Intn(7)
	goroutines, perReader, rounds, bursts, syncCap := 8+r.Intn(9), 40, 3, 6, 1500
	if small {
		ticks, goroutines, perReader, rounds, bursts, syncCap = 5+r.Intn(2), 8, 25, 2, 2, 400
	}
	rich := world.Users[0]
	for i := 0; int64(P.Frontier().TimestampUnix) < w.genesis+int64(ticks)*300; i++ {
		for k := r.Intn(3); k > 0; k-- {
			u := world.Users[r.Intn(len(world.Users))]
			switch r.Intn(3) {
			case 0:
				_, _ = P.Send(u, types.PillarContract, types.ZnnTokenStandard, big.NewInt(0), definition.ABIPillars.PackMethodPanic(definition.DelegateMethodName, world.PillarNames[r.Intn(nPillars)]))
			case 1:
				_, _ = P.Send(u, types.PillarContract, types.ZnnTokenStandard, big.NewInt(0), definition.ABIPillars.PackMethodPanic(definition.UndelegateMethodName))
			default:
				wl.One()
			}
		}
		switch i {
		case 6:
			cost := new(big.Int).Add(constants.PillarQsrStakeBaseAmount, new(big.Int).Mul(constants.PillarQsrStakeIncreaseAmount, big.NewInt(int64(nPillars))))
			_, _ = P.Send(rich, types.PillarContract, types.QsrTokenStandard, cost, definition.ABIPillars.PackMethodPanic(definition.DepositQsrMethodName))
		case 10:
			if _, err := P.Send(rich, types.PillarContract, types.ZnnTokenStandard, new(big.Int).Set(constants.PillarStakeAmount),
				definition.ABIPillars.PackMethodPanic(definition.RegisterMethodName, "pillar-registered-mid-run", extraKey.Address, rich.Address, uint8(0), uint8(100))); err == nil {
				c.Count("pillar_registrations_submitted_mid_run", 1)
			}
		case 14:
			_, _ = P.Send(rich, types.PillarContract, types.ZnnTokenStandard, big.NewInt(0), definition.ABIPillars.PackMethodPanic(definition.DelegateMethodName, "pillar-registered-mid-run"))
		case 16, 18:
			u := world.Users[1+r.Intn(len(world.Users)-1)]
			_, _ = P.Send(u, types.PillarContract, types.ZnnTokenStandard, big.NewInt(0), definition.ABIPillars.PackMethodPanic(definition.DelegateMethodName, "pillar-registered-mid-run"))
		case 24:
			// revoked again in every second case, with accounts still delegating to its name
			if ci%2 == 0 {
				if _, err := P.Send(rich, types.PillarContract, types.ZnnTokenStandard, big.NewInt(0), definition.ABIPillars.PackMethodPanic(definition.RevokeMethodName, "pillar-registered-mid-run")); err == nil {
					c.Count("pillar_revocations_submitted_mid_run", 1)
				}
			}
		}
		skip := 0
		if r.Intn(3) != 0 {
			skip = 1 + r.Intn(8)
		}
		if _, err := P.Produce(skip); err != nil {
			c.Violation("producer-cannot-produce", map[string]interface{}{"pillars": nPillars, "height": P.Height() + 1, "err": err.Error()})
			return
		}
		if !snap() {
			return
		}
	}
	// what the reference says about this chain
	w.chain = ref.chain
	w.settled = ref.settledTicks()
	for _, t := range w.settled {
		proof := ref.proofFor(t)
		prods := ref.producers(t)
		if proof == nil || len(prods) != 30 {
			c.Violation("reference-election-unavailable", map[string]interface{}{"tick": t})
			return
		}
		w.sched[t], w.proofH[t] = prods, proof.Height
		w.weights[t] = map[string]*big.Int{}
		for _, p := range ref.snapshots[proof.Hash].Pillars {
			w.weights[t][p.Name] = p.Weight
		}
		c.SetAdd("concurrent_cases_active_pillars_at_proof_momentums", fmt.Sprint(len(w.weights[t])))
	}
	lastTick := uint64((int64(P.Frontier().TimestampUnix) - w.genesis) / 300)
	for t := uint64(0); t <= lastTick; t++ {
		for _, p := range w.sched[t] {
			w.expected[p.Name]++
		}
	}
	for i, m := range ref.chain {
		data, err := m.Serialize()
		if err != nil {
			c.Inconclusive("cannot serialize a momentum: " + err.Error())
			return
		}
		w.raw = append(w.raw, data)
		if i == 0 {
			continue
		}
		tick := uint64((int64(m.TimestampUnix) - w.genesis) / 300)
		slot := int((int64(m.TimestampUnix)-w.genesis)%300) / 10
		c.Eval(1)
		if c05Address(m.PublicKey) != w.sched[tick][slot].Producing {
			c.Violation("accepted-momentum-not-from-elected-pillar", map[string]interface{}{"height": m.Height, "tick": tick, "slot": slot, "signer": c05Address(m.PublicKey).String(),
				"reference_elected": w.sched[tick][slot].Producing.String(), "pillars": nPillars, "weights": w.mode})
			return
		}
		w.produced[w.sched[tick][slot].Name]++
	}
	c.SetAdd("concurrent_cases_ticks_in_chain", fmt.Sprint(len(w.settled)))
	top := len(w.chain) - 1 // chain index of the frontier

	// (a) a node with the complete ledger and NO consensus cache, asked by many goroutines at once; several cold rounds
	F := simnet.Open("F", base+"/F", world.NewGenesis(), nil)
	defer F.Stop()
	if err := F.SyncFrom(P, 64); err != nil {
		c.Violation("follower-refuses-producers-momentum", map[string]interface{}{"err": err.Error(), "pillars": nPillars, "weights": w.mode})
		return
	}
	for round := 0; round < rounds; round++ {
		// several cold bursts (everybody asks a few questions about ticks of its own PRNG order right after the cache
		// was deleted); after the last one the readers go on with a longer PRNG mix of questions
		for burst := 0; burst < bursts; burst++ {
			F.RestartFresh()
			readers := make([]*c05Reader, goroutines)
			start := make(chan struct{})
			done := make(chan struct{}, goroutines)
			more := 0
			if burst == bursts-1 {
				more = perReader
			}
			for g := range readers {
				q := c05NewReader(w, F, "concurrent-cold-cache", c.Rand(fmt.Sprintf("%s/cold/%d/%d/%d", caseID, round, burst, g)))
				readers[g] = q
				order := q.r.Perm(len(w.settled))
				if len(order) > 4 {
					order = order[:4]
				}
				statsFirst := g == 0 && burst%2 == 1 // the statistics walk through every tick's election on their own
				go func() {
					defer func() { done <- struct{}{} }()
					<-start
					if statsFirst && !q.askEpochStats() {
						return
					}
					for _, ti := range order {
						tick, slot := w.settled[ti], q.r.Intn(30)
						if q.r.Intn(3) == 0 {
							if !q.askVerify(1+q.r.Intn(top), true, tick, slot) {
								return
							}
						} else if !q.askProducer(tick, slot) {
							return
						}
					}
					for k := 0; k < more; k++ {
						if !q.askRandom(len(w.settled)-1, top, true) {
							return
						}
					}
				}()
			}
			close(start)
			for range readers {
				<-done
			}
			c.Count("cold_cache_bursts", 1)
			c.Count("reader_goroutines_on_cold_caches", goroutines)
			c.SetAdd("reader_goroutines_per_node", fmt.Sprint(goroutines))
			if !c05Merge(c, readers) {
				return
			}
		}
		c.Distinct(fmt.Sprintf("schedule/pillars=%d/%s/concurrent-cold-cache", nPillars, w.mode))
		// what the concurrent rounds left in the persistent cache
		F.Restart()
		if !c05Sequential(c, w, F, "restart-after-concurrent-cold-cache") {
			return
		}
	}

	// (b) a node that syncs the chain — after a restart without consensus cache part-way — while readers ask for every
	// tick that is settled under the frontier they have just seen
	G := simnet.Open("G", base+"/G", world.NewGenesis(), nil)
	defer G.Stop()
	all := simnet.CloneBatch(P.Range(2, P.Height()))
	h0 := r.Intn(len(all) * 2 / 3)
	if h0 > 0 {
		if _, err := G.InsertChain(all[:h0]); err != nil {
			c.Violation("follower-refuses-producers-momentum", map[string]interface{}{"err": err.Error(), "pillars": nPillars, "weights": w.mode})
			return
		}
		G.RestartFresh()
	}
	var batches [][]*nom.DetailedMomentum
	for rest := all[h0:]; len(rest) > 0; {
		k := 1 + r.Intn(24)
		if k > len(rest) {
			k = len(rest)
		}
		batches = append(batches, rest[:k])
		rest = rest[k:]
	}
	var syncDone atomic.Bool
	var syncErr error
	syncAt := 0
	nReaders := goroutines - 1
	readers := make([]*c05Reader, nReaders)
	start := make(chan struct{})
	done := make(chan struct{}, goroutines)
	go func() {
		defer func() { syncDone.Store(true); done <- struct{}{} }()
		<-start
		for _, b := range batches {
			if i, err := G.InsertChain(b); err != nil {
				syncErr, syncAt = err, int(b[0].Momentum.Height)+i
				return
			}
		}
	}()
	for g := range readers {
		q := c05NewReader(w, G, "concurrent-readers-while-syncing", c.Rand(fmt.Sprintf("%s/sync/%d", caseID, g)))
		readers[g] = q
		go func() {
			defer func() { done <- struct{}{} }()
			<-start
			for k := 0; k < syncCap && !syncDone.Load(); {
				f := G.Frontier()
				ms := w.maxSettled(int64(f.TimestampUnix))
				if ms < 0 {
					runtime.Gosched()
					continue
				}
				k++
				if !q.askRandom(ms, int(f.Height)-1, false) {
					return
				}
				if G.Height() != f.Height {
					q.overlap++
				}
				runtime.Gosched()
			}
		}()
	}
	close(start)
	for i := 0; i < nReaders+1; i++ {
		<-done
	}
	c.Count("nodes_synced_under_concurrent_readers", 1)
	if !c05Merge(c, readers) {
		return
	}
	if syncErr != nil {
		c.Violation("follower-refuses-producers-momentum while-readers-ask", map[string]interface{}{"err": syncErr.Error(), "height": syncAt, "cold_restart_at_height": h0 + 1, "pillars": nPillars, "weights": w.mode})
		return
	}
	c.Distinct(fmt.Sprintf("schedule/pillars=%d/%s/concurrent-readers-while-syncing", nPillars, w.mode))
	if !c05Sequential(c, w, G, "synced-under-concurrent-readers") {
		return
	}
	G.Restart()
	if !c05Sequential(c, w, G, "restart-after-concurrent-sync") {
		return
	}
	if idx < 2 {
		c.Sample(map[string]interface{}{"case": caseID, "pillars_in_genesis": nPillars, "weights": w.mode, "momentums": len(w.chain), "settled_ticks": len(w.settled),
			"reader_goroutines": goroutines, "cold_rounds": rounds, "sync_cold_restart_at_height": h0 + 1})
	}
}
