//go:build verif

package checks

// C15 — full-stack piece: the real p2p.Server on loopback TCP with the real ProtocolManager as its
// sub-protocol; the hostile side is a hand-driven RLPx client (genuine handshake + genuine frame
// writer through p2p/export_verif.go). Here a panic on any node goroutine kills the child
// (DeathIsViolation) and Peer.Disconnect really closes the connection.

import (
	"bytes"
	"crypto/ecdsa"
	"fmt"
	"io"
	"math"
	"math/rand"
	"net"
	"sync"
	"time"

	"github.com/zenon-network/go-zenon/common/types"
	"github.com/zenon-network/go-zenon/p2p"
	"github.com/zenon-network/go-zenon/p2p/discover"

	"verif/harness/fw"
)

var c15StackClasses = []string{"control", "corrupt-frame-live", "truncated-frame-live", "replayed-frame-live", "oversize-subprotocol",
	"base-proto-hostile", "proto-handshake-hostile", "enc-handshake-garbage", "msg-code-out-of-range", "many-connections", "proto-unknown-hash"}

const c15Off = 16 // first message code of the sub-protocol behind the 16 base-protocol codes

type c15ProtoHS struct {
	Version    uint64
	Name       string
	Caps       []p2p.Cap
	ListenPort uint64
	ID         discover.NodeID
}

// c15Tap lets the genuine frame writer write either to the socket or into a buffer.
type c15Tap struct {
	conn    net.Conn
	mu      sync.Mutex
	capture *bytes.Buffer
}

func (t *c15Tap) Read(p []byte) (int, error) { return t.conn.Read(p) }
func (t *c15Tap) Write(p []byte) (int, error) {
	t.mu.Lock()
	b := t.capture
	t.mu.Unlock()
	if b != nil {
		return b.Write(p)
	}
	return t.conn.Write(p)
}

type c15Client struct {
	c      *fw.C
	conn   net.Conn
	tap    *c15Tap
	rw     p2p.MsgReadWriter
	key    *ecdsa.PrivateKey
	mu     sync.Mutex
	in     []c15In
	cursor int
	wake   chan struct{}
	closed chan struct{}
	rerr   error
	wmu    sync.Mutex
}

// c15Dial performs TCP connect + genuine encryption handshake. hs == nil skips the protocol handshake.
func c15Dial(c *fw.C, addr string, srvID discover.NodeID, key *ecdsa.PrivateKey) (*c15Client, error) {
	conn, err := net.DialTimeout("tcp", addr, c15Watchdog)
	if err != nil {
		return nil, err
	}
	_ = conn.SetDeadline(time.Now().Add(3 * c15Watchdog))
	sec, err := p2p.InitiatorEncHandshakeForVerif(conn, key, srvID, nil)
	if err != nil {
		conn.Close()
		return nil, fmt.Errorf("enc handshake: %v", err)
	}
	cl := &c15Client{c: c, conn: conn, key: key, wake: make(chan struct{}, 1), closed: make(chan struct{})}
	cl.tap = &c15Tap{conn: conn}
	cl.rw = p2p.NewRLPXFrameRWForVerif(cl.tap, sec)
	return cl, nil
}

func (cl *c15Client) startReader() {
	go func() {
		defer close(cl.closed)
		for {
			msg, err := cl.rw.ReadMsg()
			if err != nil {
				cl.rerr = err
				return
			}
			data, _ := io.ReadAll(msg.Payload)
			in := c15In{code: msg.Code, size: msg.Size, payload: data, items: -1}
			if items, ok := c15RlpItems(data); ok {
				in.items = len(items)
			}
			if msg.Size > c15MaxMsg {
				cl.c.Violation("node-sent-oversize-message stack", map[string]interface{}{"code": msg.Code, "size": msg.Size})
			}
			if msg.Code == c15Off+4 && in.items > c15MaxHashes {
				cl.c.Violation("reply-exceeds-limit stack hashes>512", map[string]interface{}{"hashes_in_reply": in.items})
			}
			if msg.Code == c15Off+6 && in.items > c15MaxBlocks {
				cl.c.Violation("reply-exceeds-limit stack momentums>128", map[string]interface{}{"momentums_in_reply": in.items})
			}
			cl.c.Eval(1)
			cl.mu.Lock()
			cl.in = append(cl.in, in)
			cl.mu.Unlock()
			select {
			case cl.wake <- struct{}{}:
			default:
			}
			if msg.Code == 2 { // base-protocol ping: answer like a live peer
				go cl.send(3, []byte{0xc0})
			}
		}
	}()
}

func (cl *c15Client) send(code uint64, payload []byte) error {
	cl.wmu.Lock()
	defer cl.wmu.Unlock()
	return cl.rw.WriteMsg(p2p.Msg{Code: code, Size: uint32(len(payload)), Payload: bytes.NewReader(payload)})
}

// frameBytes returns the bytes the genuine writer produces for a message, without sending them.
func (cl *c15Client) frameBytes(code uint64, payload []byte) []byte {
	cl.wmu.Lock()
	defer cl.wmu.Unlock()
	var buf bytes.Buffer
	cl.tap.mu.Lock()
	cl.tap.capture = &buf
	cl.tap.mu.Unlock()
	_ = cl.rw.WriteMsg(p2p.Msg{Code: code, Size: uint32(len(payload)), Payload: bytes.NewReader(payload)})
	cl.tap.mu.Lock()
	cl.tap.capture = nil
	cl.tap.mu.Unlock()
	return buf.Bytes()
}

func (cl *c15Client) raw(b []byte) error {
	cl.wmu.Lock()
	defer cl.wmu.Unlock()
	_, err := cl.conn.Write(b)
	return err
}

func (cl *c15Client) next(pred func(in c15In) bool) (c15In, string) {
	deadline := time.After(c15Watchdog)
	for {
		cl.mu.Lock()
		for cl.cursor < len(cl.in) {
			in := cl.in[cl.cursor]
			cl.cursor++
			if pred(in) {
				cl.mu.Unlock()
				return in, "ok"
			}
		}
		cl.mu.Unlock()
		select {
		case <-cl.wake:
		case <-cl.closed:
			cl.mu.Lock()
			rem := cl.cursor < len(cl.in)
			cl.mu.Unlock()
			if !rem {
				return c15In{}, "ended"
			}
		case <-deadline:
			return c15In{}, "timeout"
		}
	}
}

func (cl *c15Client) count(code uint64) int {
	cl.mu.Lock()
	defer cl.mu.Unlock()
	n := 0
	for _, in := range cl.in {
		if in.code == code {
			n++
		}
	}
	return n
}

// waitClosed: the node closed the connection (event, with watchdog). "ok" / "timeout".
func (cl *c15Client) waitClosed() string {
	select {
	case <-cl.closed:
		return "ok"
	case <-time.After(c15Watchdog):
		return "timeout"
	}
}

func (cl *c15Client) isClosed() bool {
	select {
	case <-cl.closed:
		return true
	default:
		return false
	}
}

// protoHandshake sends ours and expects theirs (base code 0).
func (cl *c15Client) protoHandshake() string {
	hs := &c15ProtoHS{Version: 4, Name: "c15-client", Caps: []p2p.Cap{{Name: "eth", Version: 61}}, ID: discover.PubkeyID(&cl.key.PublicKey)}
	if err := cl.send(0, c15Enc(hs)); err != nil {
		return "ended"
	}
	_, st := cl.next(func(in c15In) bool { return in.code == 0 })
	return st
}

// status exchange of the sub-protocol.
func (cl *c15Client) status(e *c15Env) string {
	if _, st := cl.next(func(in c15In) bool { return in.code == c15Off }); st != "ok" {
		return st
	}
	top := e.T.Height()
	if err := cl.send(c15Off, c15StatusPayload(61, uint32(e.chainID), top, e.hashes[top], e.genesis)); err != nil {
		return "ended"
	}
	return "ok"
}

// probe: GetBlockHashesFromNumber{h-2,3} must be answered with the three right hashes.
func (cl *c15Client) probe(e *c15Env) string {
	top := e.T.Height()
	from := top - 2
	if err := cl.send(c15Off+8, c15RlpList(c15RlpUint(from), c15RlpUint(3))); err != nil {
		return "ended"
	}
	in, st := cl.next(func(in c15In) bool { return in.code == c15Off+4 })
	if st != "ok" {
		return st
	}
	items, ok := c15RlpItems(in.payload)
	if !ok || len(items) != 3 {
		return "wrong"
	}
	want := map[types.Hash]bool{e.hashes[from]: true, e.hashes[from+1]: true, e.hashes[from+2]: true}
	for _, it := range items {
		if h, ok := c15ItemHash(it); !ok || !want[h] {
			return "wrong"
		}
	}
	cl.c.Eval(1)
	return "ok"
}

type c15Stack struct {
	x     *c15Ctx
	srv   *p2p.Server
	srvID discover.NodeID
	addr  string
	rng   *rand.Rand
	A     *c15Client
}

// session opens a complete session (both handshakes + status).
func (s *c15Stack) session() (*c15Client, string) {
	cl, err := c15Dial(s.x.c, s.addr, s.srvID, c15Key(s.rng))
	if err != nil {
		return nil, err.Error()
	}
	cl.startReader()
	if st := cl.protoHandshake(); st != "ok" {
		return cl, "proto handshake " + st
	}
	if st := cl.status(s.x.e); st != "ok" {
		return cl, "status " + st
	}
	return cl, "ok"
}

// checkA: the honest TCP session and the honest pipe session must still be served.
func (s *c15Stack) checkA(after string) bool {
	switch st := s.A.probe(s.x.e); st {
	case "ok":
	case "ended":
		s.x.c.Violation("honest-session-dropped stack after "+after, map[string]interface{}{"read_error": fmt.Sprint(s.A.rerr)})
		return false
	case "wrong":
		s.x.c.Violation("honest-probe-wrong-answer stack after "+after, nil)
		return false
	default:
		s.x.c.Inconclusive("stack: honest TCP session unanswered when the watchdog fired, after " + after)
		s.x.dead = true
		return false
	}
	s.x.checkHonest("stack "+after, nil)
	return !s.x.dead
}

func c15RunStack(c *fw.C, caseID string, parts []string) {
	class := parts[1]
	rng := c.Rand(caseID)
	x := c15NewCtx(c, caseID)
	defer x.finish()
	if x.dead {
		return
	}
	e := x.e
	srvKey := c15Key(rng)
	srv := &p2p.Server{PrivateKey: srvKey, MaxPeers: 50, Name: "c15-node", Protocols: x.pm.SubProtocols, ListenAddr: "127.0.0.1:0", NoDial: true, Discovery: false}
	// every connection the server builds a transport on is observed: a read the node issues on a peer connection
	// must carry a deadline (handshake: one total deadline; afterwards: one per frame) — a peer that goes silent can
	// then hold a connection slot for a bounded time only. Decided on the deadline VALUE at the moment of the call
	// (zero or not), never on elapsed time.
	var wmu sync.Mutex
	var wrapped []*c15DeadlineConn
	srv.WrapConnsForVerif(func(fd net.Conn) net.Conn {
		d := &c15DeadlineConn{Conn: fd}
		wmu.Lock()
		wrapped = append(wrapped, d)
		wmu.Unlock()
		return d
	})
	if err := srv.Start(); err != nil {
		c.Inconclusive("stack: cannot start p2p.Server on loopback: " + err.Error())
		return
	}
	defer srv.Stop()
	defer func() {
		wmu.Lock()
		defer wmu.Unlock()
		reads, bare, first := 0, 0, ""
		for _, d := range wrapped {
			d.mu.Lock()
			reads += d.reads
			bare += d.bare
			if first == "" && d.bare > 0 {
				first = fmt.Sprintf("read #%d of the connection (after %d bytes received, %d deadline calls)", d.firstBare, d.bytesAtFirstBare, d.setsAtFirstBare)
			}
			d.mu.Unlock()
		}
		c.Eval(1)
		c.Count("peer_connections_observed", len(wrapped))
		c.Count("reads_issued_on_peer_connections", reads)
		if bare > 0 {
			c.Violation("peer-connection-read-issued-without-deadline", map[string]interface{}{"class": class, "connections": len(wrapped), "reads": reads, "reads_without_deadline": bare, "first": first})
		}
	}()
	s := &c15Stack{x: x, srv: srv, srvID: discover.PubkeyID(&srvKey.PublicKey), addr: srv.ListenAddr, rng: rng}
	var st string
	s.A, st = s.session()
	if st != "ok" {
		c.Inconclusive("stack control: honest session: " + st)
		return
	}
	defer s.A.conn.Close()
	if st := s.A.probe(e); st != "ok" {
		c.Inconclusive("stack control: honest probe: " + st)
		return
	}
	c.Distinct("stack control: TCP + RLPx + protocol handshake + status + request served")
	top := e.T.Height()
	req := c15RlpList(c15RlpUint(top-1), c15RlpUint(2))
	okc := 0
	hostileSession := func() *c15Client {
		b, st := s.session()
		if st != "ok" {
			c.Inconclusive("stack: hostile session: " + st)
			if b != nil {
				b.conn.Close()
			}
			return nil
		}
		if st := b.probe(e); st != "ok" {
			c.Inconclusive("stack: hostile session not served before the attack: " + st)
			b.conn.Close()
			return nil
		}
		return b
	}
	switch class {
	case "control":
		okc++
	case "corrupt-frame-live":
		for v := 0; v < 8; v++ {
			b := hostileSession()
			if b == nil {
				return
			}
			before := b.count(c15Off + 4)
			f := b.frameBytes(c15Off+8, req)
			bit := rng.Intn(len(f) * 8)
			c.Eval(1)
			_ = b.raw(c15FlipBit(f, bit))
			_ = b.raw(b.frameBytes(c15Off+8, req)) // a following intact frame must not be served either
			// decided by events: either the node closes the connection, or it answers (a violation)
			_, st := b.next(func(in c15In) bool { return in.code == c15Off+4 })
			if st == "timeout" {
				c.Inconclusive(fmt.Sprintf("stack: connection still open and silent after a corrupted frame (bit %d of %d bytes)", bit, len(f)))
				b.conn.Close()
				return
			}
			if st == "ok" || b.count(c15Off+4) != before {
				c.Violation("stack-corrupt-frame-processed", map[string]interface{}{"flipped_bit": bit, "frame_len": len(f), "replies_after": b.count(c15Off+4) - before})
			}
			b.conn.Close()
			if !s.checkA("corrupted frame") {
				return
			}
			okc++
		}
	case "truncated-frame-live":
		for v := 0; v < 8; v++ {
			b := hostileSession()
			if b == nil {
				return
			}
			f := b.frameBytes(c15Off+8, req)
			c.Eval(1)
			_ = b.raw(f[:1+rng.Intn(len(f)-1)])
			b.conn.Close()
			if !s.checkA("truncated frame then close") {
				return
			}
			okc++
		}
	case "replayed-frame-live":
		for v := 0; v < 8; v++ {
			b := hostileSession()
			if b == nil {
				return
			}
			before := b.count(c15Off + 4)
			f := b.frameBytes(c15Off+8, req)
			c.Eval(1)
			_ = b.raw(f)
			// the first copy is answered ...
			if _, st := b.next(func(in c15In) bool { return in.code == c15Off+4 }); st != "ok" {
				c.Inconclusive("stack: genuine frame not answered: " + st)
				b.conn.Close()
				return
			}
			// ... then the same encrypted frame again: either the connection is closed or a second answer arrives (a violation)
			_ = b.raw(f)
			if _, st := b.next(func(in c15In) bool { return in.code == c15Off+4 }); st == "timeout" {
				c.Inconclusive("stack: connection still open and silent after a replayed frame")
				b.conn.Close()
				return
			}
			if n := b.count(c15Off+4) - before; n > 1 {
				c.Violation("stack-replayed-frame-processed", map[string]interface{}{"replies": n})
			}
			b.conn.Close()
			if !s.checkA("replayed frame") {
				return
			}
			okc++
		}
	case "oversize-subprotocol":
		for v := 0; v < 2; v++ {
			b := hostileSession()
			if b == nil {
				return
			}
			before := b.count(c15Off + 4)
			p := make([]byte, c15MaxMsg+1+rng.Intn(1000))
			copy(p, req)
			c.Eval(1)
			go b.send(c15Off+8, p)
			if b.waitClosed() != "ok" {
				c.Violation("oversize-message-not-refused stack", map[string]interface{}{"size": len(p), "connection_closed": false, "replies": b.count(c15Off+4) - before})
				b.conn.Close()
				return
			}
			if n := b.count(c15Off+4) - before; n > 0 {
				c.Violation("oversize-message-not-refused stack", map[string]interface{}{"size": len(p), "connection_closed": true, "replies": n})
			}
			b.conn.Close()
			if !s.checkA("oversize sub-protocol message") {
				return
			}
			okc++
		}
	case "msg-code-out-of-range":
		for _, code := range []uint64{c15Off + 9, c15Off + 100, 1 << 40, math.MaxUint64} {
			b := hostileSession()
			if b == nil {
				return
			}
			c.Eval(1)
			_ = b.send(code, []byte{0xc0})
			if b.waitClosed() != "ok" {
				c.Inconclusive(fmt.Sprintf("stack: connection still open after message code %d", code))
				b.conn.Close()
				return
			}
			b.conn.Close()
			if !s.checkA("message code out of range") {
				return
			}
			okc++
		}
	case "base-proto-hostile":
		// every base-protocol code (handshake again, disconnect, ping, pong, the 12 unassigned ones) with every payload
		// shape, one fresh connection each: the offending peer goes, the node and the honest peer stay
		shapes := [][]byte{{}, {0xc0}, {0x80}, {0x04}, {0xc1}, {0xc1, 0x04}, {0xc2, 0x04, 0x05}, {0xc2, 0xc1, 0x04}, {0xf8}, {0xb8, 0xff}, {0xff, 0xff, 0xff}, c15RlpList(c15RlpUint(1 << 40))}
		for code := uint64(0); code < 16; code++ {
			for si, p := range shapes {
				if code > 3 && si%4 != int(code)%4 {
					continue // unassigned codes share one handler: sample
				}
				b := hostileSession()
				if b == nil {
					return
				}
				c.Eval(1)
				_ = b.send(code, p)
				// a second message proves (or not) that the first one was digested; errors are fine
				_ = b.send(2, []byte{0xc0})
				b.conn.Close()
				if !s.checkA(fmt.Sprintf("base-protocol code %d payload shape %x", code, p)) {
					return
				}
				okc++
			}
		}
		for v := 0; v < 6; v++ {
			b := hostileSession()
			if b == nil {
				return
			}
			for i := 0; i < 40; i++ {
				code := uint64(rng.Intn(16))
				if code == 1 && i < 30 {
					code = 2
				}
				var p []byte
				switch rng.Intn(5) {
				case 0:
					p = []byte{0xc0}
				case 1:
					p = make([]byte, rng.Intn(3000))
					rng.Read(p)
				case 2:
					p = c15Enc(&c15ProtoHS{Version: 4, Name: "again", ID: discover.PubkeyID(&b.key.PublicKey)})
				case 3:
					p = make([]byte, 1<<20)
				case 4:
					p = c15RlpList(c15RlpUint(uint64(rng.Intn(300))))
				}
				c.Eval(1)
				if b.send(code, p) != nil || b.isClosed() {
					break
				}
			}
			b.conn.Close()
			if !s.checkA("hostile base-protocol messages") {
				return
			}
			okc++
		}
	case "proto-handshake-hostile":
		for v := 0; v < 14; v++ {
			key := c15Key(rng)
			cl, err := c15Dial(c, s.addr, s.srvID, key)
			if err != nil {
				c.Inconclusive("stack: dial: " + err.Error())
				return
			}
			cl.startReader()
			hs := &c15ProtoHS{Version: 4, Name: "c15-hostile", Caps: []p2p.Cap{{Name: "eth", Version: 61}}, ID: discover.PubkeyID(&key.PublicKey)}
			code, label := uint64(0), ""
			var p []byte
			switch v {
			case 0:
				hs.Version, label = 3, "wrong base version"
			case 1:
				hs.Version, label = math.MaxUint64, "max base version"
			case 2:
				hs.ID, label = discover.NodeID{}, "zero id"
			case 3:
				hs.ID, label = discover.PubkeyID(&c15Key(rng).PublicKey), "id different from the encryption handshake"
			case 4:
				hs.ID, label = s.srvID, "the node's own id"
			case 5:
				hs.Name, label = string(make([]byte, 3000)), "3000-byte name (above the 2 KiB handshake limit)"
			case 6:
				hs.Caps, label = nil, "no capabilities"
			case 7:
				for i := 0; i < 150; i++ {
					hs.Caps = append(hs.Caps, p2p.Cap{Name: "eth", Version: uint(i)})
				}
				label = "150 capabilities"
			case 8:
				hs.Caps, label = []p2p.Cap{{Name: "eth", Version: 61}, {Name: "eth", Version: 61}, {Name: "eth", Version: 62}}, "duplicate capabilities"
			case 9:
				p, label = []byte{0xc0}, "empty list as handshake"
			case 10:
				p = make([]byte, 200)
				rng.Read(p)
				label = "random bytes as handshake"
			case 11:
				code, label = c15Off, "sub-protocol message instead of handshake"
			case 12:
				code, p, label = 1, c15RlpList(c15RlpUint(uint64(rng.Intn(20)))), "disconnect instead of handshake"
			case 13:
				hs.ListenPort, label = math.MaxUint64, "max listen port"
			}
			if p == nil {
				p = c15Enc(hs)
			}
			c.Eval(1)
			_ = cl.send(code, p)
			// whatever the node decides, give it a moment of protocol traffic, then leave
			in, st := cl.next(func(in c15In) bool { return in.code == c15Off || in.code == 1 })
			out := map[string]string{"ok": "accepted (status received)", "ended": "connection closed", "timeout": "silent"}[st]
			if st == "ok" && in.code == 1 {
				out = "disconnect message"
			}
			c.SetAdd("stack_proto_handshake_outcomes", label+" -> "+out)
			cl.conn.Close()
			if !s.checkA("hostile protocol handshake: " + label) {
				return
			}
			okc++
		}
	case "enc-handshake-garbage":
		for v := 0; v < 12; v++ {
			conn, err := net.DialTimeout("tcp", s.addr, c15Watchdog)
			if err != nil {
				c.Inconclusive("stack: dial: " + err.Error())
				return
			}
			n := []int{0, 1, 100, 306, 307, 308, 1000, 70000}[v%8]
			p := make([]byte, n)
			rng.Read(p)
			if v >= 8 && n > 0 {
				p[0] = 4
			}
			c.Eval(1)
			_, _ = conn.Write(p)
			conn.Close()
			if !s.checkA("garbage instead of the encryption handshake") {
				return
			}
			okc++
		}
	case "many-connections":
		var open []*c15Client
		for i := 0; i < 70; i++ {
			b, st := s.session()
			c.Eval(1)
			c.SetAdd("stack_connection_outcomes", st)
			if b != nil {
				open = append(open, b)
			}
		}
		alive := s.checkA("70 simultaneous connections (MaxPeers 50)")
		for _, b := range open {
			b.conn.Close()
		}
		if !alive {
			return
		}
		okc++
	case "proto-unknown-hash":
		// the protocol-level nil dereference, end to end: in the real stack nothing recovers it
		b := hostileSession()
		if b == nil {
			return
		}
		c.Eval(1)
		_ = b.send(c15Off+3, c15RlpList(c15RlpStr(c15RandHash(rng).Bytes()), c15RlpUint(10)))
		_, st := b.next(func(in c15In) bool { return in.code == c15Off+4 })
		c.SetAdd("stack_unknown_hash_outcome", st)
		b.conn.Close()
		if !s.checkA("GetBlockHashesMsg with an unknown hash") {
			return
		}
		okc++
	}
	if okc > 0 {
		c.Distinct("stack " + class + ": node survived, honest sessions served")
	}
	c.Count("stack_attacks", okc)
}

// c15DeadlineConn records the read deadline in force whenever the node issues a Read on a peer connection.
type c15DeadlineConn struct {
	net.Conn
	mu               sync.Mutex
	rd               time.Time
	sets             int
	reads, bare      int
	got              int
	firstBare        int
	bytesAtFirstBare int
	setsAtFirstBare  int
}

func (d *c15DeadlineConn) SetDeadline(t time.Time) error {
	d.mu.Lock()
	d.rd = t
	d.sets++
	d.mu.Unlock()
	return d.Conn.SetDeadline(t)
}

func (d *c15DeadlineConn) SetReadDeadline(t time.Time) error {
	d.mu.Lock()
	d.rd = t
	d.sets++
	d.mu.Unlock()
	return d.Conn.SetReadDeadline(t)
}

func (d *c15DeadlineConn) Read(p []byte) (int, error) {
	d.mu.Lock()
	d.reads++
	if d.rd.IsZero() {
		d.bare++
		if d.firstBare == 0 {
			d.firstBare, d.bytesAtFirstBare, d.setsAtFirstBare = d.reads, d.got, d.sets
		}
	}
	d.mu.Unlock()
	n, err := d.Conn.Read(p)
	d.mu.Lock()
	d.got += n
	d.mu.Unlock()
	return n, err
}
