package checks

// C18 — RPC answers match the ledger, are bounded; the server survives bad input.
//
// A populated node is built once per child from the real components (simnet):
// > 1024 momentums, one account chain > 1024 blocks, an address with > 500
// unreceived blocks, unconfirmed blocks at the end, tokens / stakes / fusions /
// delegations / a new pillar / a sentinel / sporks / htlc entries / > 1024
// accelerator projects, an initialised bridge with networks, a token pair, wrap
// and unwrap requests (thorough tier: > 1024 stakes, fusions, tokens and wrap
// requests as well). The API objects of rpc/api and rpc/api/embedded are
// constructed on an adapter implementing zenon.Zenon over that node; the node's
// public API set is also registered on rpc/server behind the node's HTTP
// handler stack.
//
// Oracles
//   * ledger lists: a reference built by walking momentums and account chains by
//     height; paging arithmetic in math/big; every returned block is compared
//     with the reference block (own hash pre-image), its confirmation detail,
//     its paired block and its token; balances are recomputed from the chain.
//   * embedded lists: the canonical sequence is what the API returns through
//     full pages of the limit size; it must contain every identifier the world
//     builder created exactly once; every (index,size) query must then be
//     exactly the big-integer slice of that sequence, never longer than the
//     limit. A list of up to 256 elements is also walked with page size 1 to
//     its end: that walk must equal the walk through full pages (a page does
//     not depend on the page size), the advertised count must equal the number
//     of elements delivered, and the size-1 walk is the reference the slices
//     are taken from; a list of up to 24 elements is paged with every size up
//     to its length and every index up to its end; longer lists are probed with
//     single-element pages at their ends and at sampled positions.
//   * per-object epoch histories (pillar epoch history, pillars by epoch, the
//     four reward histories) are queried for every lifetime class and for
//     unknown names: one entry per closed epoch, newest first; produced
//     momentums equal the momentums of the reference chain whose producer is
//     the pillar's address and whose timestamp lies in the epoch; the entry of
//     (name, epoch) is the same in both pillar history calls and all-zero where
//     the pillar is not listed; no entry / no reward for an epoch that was over
//     before the object existed or that began an epoch after it was gone, some
//     reward for an epoch a sentinel / staker / producing pillar lived through.
//   * JSON: every block / momentum marshalled, unmarshalled, converted as
//     PublishRawTransaction does, must give the same fields and hash; amounts
//     are decimal strings.
//   * raw server: every hostile request gets a well-formed JSON-RPC answer (or a
//     refusal of the transport) and an honest request after it succeeds; valid
//     requests must give what an independent reflection dispatcher computes on
//     the harness's own API objects; a dead child is a violation whose
//     signature names the panic and the top go-zenon frame.
//   * subscriptions: momentums of the chain replayed as events must arrive on
//     the four subscription kinds exactly as the chain says.
//
// A panic that escapes an API method called in-process is "rpc-panic <method>";
// the same panic met through the server (contained by callback.call) is
// "rpc-panic <method> (recovered by the server)".

import (
	"bytes"
	"compress/gzip"
	"encoding/base64"
	"encoding/binary"
	"encoding/json"
	"fmt"
	"io"
	"math"
	"math/big"
	"math/rand"
	"net"
	"net/http"
	"net/http/httptest"
	"os"
	"path/filepath"
	"reflect"
	"regexp"
	"runtime"
	"sort"
	"strings"
	"sync"
	"syscall"
	"time"
	"unicode"

	eabi "github.com/ethereum/go-ethereum/accounts/abi"
	ecommon "github.com/ethereum/go-ethereum/common"
	ecrypto "github.com/ethereum/go-ethereum/crypto"
	"golang.org/x/crypto/sha3"

	"github.com/zenon-network/go-zenon/chain"
	g "github.com/zenon-network/go-zenon/chain/genesis/mock"
	"github.com/zenon-network/go-zenon/chain/nom"
	"github.com/zenon-network/go-zenon/common/types"
	"github.com/zenon-network/go-zenon/consensus"
	"github.com/zenon-network/go-zenon/node"
	"github.com/zenon-network/go-zenon/pillar"
	"github.com/zenon-network/go-zenon/protocol"
	zrpc "github.com/zenon-network/go-zenon/rpc"
	"github.com/zenon-network/go-zenon/rpc/api"
	"github.com/zenon-network/go-zenon/rpc/api/embedded"
	"github.com/zenon-network/go-zenon/rpc/api/subscribe"
	rpc "github.com/zenon-network/go-zenon/rpc/server"
	"github.com/zenon-network/go-zenon/verifier"
	"github.com/zenon-network/go-zenon/vm/constants"
	"github.com/zenon-network/go-zenon/vm/embedded/definition"
	"github.com/zenon-network/go-zenon/vm/embedded/implementation"
	"github.com/zenon-network/go-zenon/wallet"
	"github.com/zenon-network/go-zenon/zenon"

	"verif/harness/fw"
	"verif/harness/simnet"
)

// ===========================================================================
// registration, world, reference

func init() {
	fw.Register(&fw.Check{
		ID:    "C18",
		Level: "exploration",
		Rule: "one populated node per child (>1024 momentums, an account chain >1024 blocks, >500 unreceived blocks on one address, embedded objects of every kind; reward epochs of 90 momentums, a dozen closed; pillars / sentinels / stakers / a delegator that exist from genesis, from the first epoch, only from a later epoch on, or only up to a revocation mid-history); " +
			"every embedded list is walked through full pages and (up to 256 elements) with page size 1, lists of up to 24 elements are paged with every (index, size) up to their length; per-object epoch histories are queried for every lifetime class and for unknown names; " +
			"cases are (API method, address/hash class, chunk of the parameter grid {0,1,2,limit-1,limit,limit+1,2^16,2^22,2^31-1,2^31,2^32-1,2^63,2^64-1} x itself plus wrap-targeted and PRNG values), " +
			"JSON round trips over every block and momentum of the chain, and raw hostile request classes against rpc/server over HTTP and over a pipe codec, each followed by an honest request; " +
			"distinct_nontrivial counts distinct (method, parameter class, outcome class) triples and distinct (transport, hostile request class, response class) triples that were actually observed",
		Cases:            c18Cases,
		Run:              c18Run,
		DeathIsViolation: true,
		DeathSig:         c18DeathSig,
		MinDistinct:      120,
		Assumptions: []string{
			"the ledger is frozen while queries run (the statement is about the frontier; concurrent insertion is C14/C16 territory)",
			"reference lists are read through the store accessors ByHeight / GetMomentumByHeight used as codecs; hashes are recomputed from an own pre-image",
			"for embedded lists without a documented order the order of the API's own full pages is taken as the order; completeness is judged against the identifiers the world builder created",
			"process globals of the simulated world: consensus.EpochDuration = 900 s (three election periods), constants.UpdateMinNumMomentums = 90, RewardTimeLimit = 150 s, pillar and sentinel lock windows of 600 s followed by an unbounded revoke window, StakeTimeUnitSec = one epoch; the number of closed epochs is read from each contract's LastEpochUpdate record (codec)",
			"lifetimes are known to the builder as (frontier time before the request, frontier time after its confirmation); an epoch counts as outside a lifetime only if it ended before the first or began a full epoch after the second (elections lag), as inside only if it lies between them entirely; the reward of a delegator inside its lifetime is not judged (depends on balances and pillar shares); expected momentums, weights and reward amounts are not recomputed; liquidity stakes are not created (liquidity reward histories are paged, their amounts judged only for unknown addresses)",
			"an error answer is accepted for any parameter outside the documented range (height 0, size/count above the limit, unreceived page index >= 10) and for nothing else",
			"stats.* needs a running p2p server and host probes and is registered but not judged",
			"transports: the HTTP handler stack is driven through ServeHTTP with a recorder and the stream codec through net.Pipe (what IPC and WebSocket connections use after their framing); no sockets, no WebSocket framing",
			"on the stream codec answers may arrive in any order: waiting uses a 60 s watchdog whose expiry is inconclusive, never a verdict; the synchronous HTTP path is the deciding one for 'no response'",
			"PublishRawTransaction is called with hostile and replayed blocks while the adapter's broadcaster counts and drops what passes, so the ledger stays as built",
		},
	})
}

// ---------------------------------------------------------------------------
// case list

func c18Cases(tier string, seed int64) []string {
	var l []string
	chunks := 2
	fuzz := 3
	if tier == "thorough" {
		chunks = 24
		fuzz = 40
	}
	for _, m := range c18LedgerCaseKinds {
		for k := 0; k < chunks; k++ {
			l = append(l, fmt.Sprintf("ledger:%s:%d", m, k))
		}
	}
	for _, m := range c18EmbeddedCaseKinds {
		for k := 0; k < chunks; k++ {
			l = append(l, fmt.Sprintf("emb:%s:%d", m, k))
		}
	}
	jsonChunks := 8
	for k := 0; k < jsonChunks; k++ {
		l = append(l, fmt.Sprintf("json:%d:%d", k, jsonChunks))
	}
	for _, cl := range c18FuzzClasses {
		for k := 0; k < fuzz; k++ {
			if cl == "grid" && k >= c18GridCases(tier) {
				break // the grid is enumerated, not sampled: a fixed number of cases covers it
			}
			l = append(l, fmt.Sprintf("http:%s:%d", cl, k))
			l = append(l, fmt.Sprintf("pipe:%s:%d", cl, k))
		}
	}
	l = append(l, "sub:0", "sub:1")
	// interleave so that every child gets a mix (the driver deals cases round-robin)
	r := rand.New(rand.NewSource(fw.SeedFor(seed, "c18-case-order")))
	r.Shuffle(len(l), func(i, j int) { l[i], l[j] = l[j], l[i] })
	return l
}

var c18LedgerCaseKinds = []string{"acc-height", "acc-page", "mom-height", "mom-page", "detailed", "unreceived", "unconfirmed", "single"}
var c18EmbeddedCaseKinds = []string{"token", "stake", "plasma", "pillar", "sentinel", "spork", "accelerator", "rewards", "bridge", "misc"}

// ---------------------------------------------------------------------------
// adapter: zenon.Zenon over a simnet node

type c18Zenon struct {
	n         *simnet.Node
	mu        sync.Mutex
	published int
}

func (z *c18Zenon) Init() error                         { return nil }
func (z *c18Zenon) Start() error                        { return nil }
func (z *c18Zenon) Stop() error                         { return nil }
func (z *c18Zenon) Chain() chain.Chain                  { return z.n.Chain }
func (z *c18Zenon) Consensus() consensus.Consensus      { return z.n.Cons }
func (z *c18Zenon) Verifier() verifier.Verifier         { return z.n.Ver }
func (z *c18Zenon) Protocol() *protocol.ProtocolManager { return nil }
func (z *c18Zenon) Producer() pillar.Manager            { return nil }
func (z *c18Zenon) Config() *zenon.Config               { return nil }
func (z *c18Zenon) Broadcaster() protocol.Broadcaster   { return z }

// protocol.Broadcaster: the ledger stays frozen; a block that passed ApplyBlock is counted and dropped.
func (z *c18Zenon) SyncInfo() *protocol.SyncInfo {
	return &protocol.SyncInfo{State: protocol.SyncDone}
}
func (z *c18Zenon) CreateMomentum(*nom.MomentumTransaction) {}
func (z *c18Zenon) CreateAccountBlock(*nom.AccountBlockTransaction) {
	z.mu.Lock()
	z.published++
	z.mu.Unlock()
}

var _ zenon.Zenon = (*c18Zenon)(nil)

// ---------------------------------------------------------------------------
// world

type c18World struct {
	n   *simnet.Node
	z   *c18Zenon
	err string // non-empty: the world could not be built as planned (cases become inconclusive)

	ledger      *api.LedgerApi
	token       *embedded.TokenAPI
	stake       *embedded.StakeApi
	plasma      *embedded.PlasmaApi
	pillarApi   *embedded.PillarApi
	sentinel    *embedded.SentinelApi
	spork       *embedded.SporkApi
	accelerator *embedded.AcceleratorApi
	htlc        *embedded.HtlcApi
	swap        *embedded.SwapApi
	bridge      *embedded.BridgeApi
	liquidity   *embedded.LiquidityApi

	// bookkeeping of what the builder created (identifiers are send-block hashes)
	tokensIssued   map[types.Address][]types.ZenonTokenStandard
	stakesMade     map[types.Address][]types.Hash
	fusionsMade    map[types.Address][]types.Hash
	projectsMade   []types.Hash
	sporksMade     []types.Hash
	htlcsMade      []types.Hash
	wrapsMade      []types.Hash
	wrapsByTo      map[string][]types.Hash
	unwrapsMade    []string
	unwrapsByTo    map[types.Address][]string
	bridgeReady    bool
	pillarsAdded   []string
	sentinelsAdded []types.Address
	delegations    map[types.Address]string

	// objects with a lifetime shorter than the chain (registered late, revoked / cancelled early)
	pillarsRevoked   []string
	sentinelsRevoked []types.Address
	stakesCancelled  map[types.Address][]types.Hash
	lives            []*c18Life
	genesisTime      int64
	lateEpoch        uint64 // epoch in which the late objects were registered
	endEpoch         uint64 // epoch in which the short-lived objects were revoked / cancelled

	ref *c18Ref

	buildTime time.Duration
}

var (
	c18worldOnce sync.Once
	c18world     *c18World
)

func c18GetWorld(c *fw.C) *c18World {
	c18worldOnce.Do(func() {
		start := time.Now()
		w := &c18World{
			tokensIssued: map[types.Address][]types.ZenonTokenStandard{},
			stakesMade:   map[types.Address][]types.Hash{},
			fusionsMade:  map[types.Address][]types.Hash{},
			delegations:  map[types.Address]string{},
			wrapsByTo:    map[string][]types.Hash{},
			unwrapsByTo:  map[types.Address][]string{},

			stakesCancelled: map[types.Address][]types.Hash{},
		}
		func() {
			defer func() {
				if r := recover(); r != nil {
					w.err = fmt.Sprintf("world build panicked: %v", r)
				}
			}()
			w.build(c)
			if w.err == "" {
				w.ref = c18BuildRef(w)
				if w.ref.err != "" {
					w.err = "reference: " + w.ref.err
				}
			}
		}()
		w.buildTime = time.Since(start)
		// up to 16 children run side by side: keep each one's scheduler and collector narrow while querying
		runtime.GOMAXPROCS(4)
		c.Logf("C18 world built in %v cpu %v err=%q", w.buildTime, c18CPU(), w.err)
		c18world = w
	})
	return c18world
}

func (w *c18World) fail(format string, a ...interface{}) {
	if w.err == "" {
		w.err = fmt.Sprintf(format, a...)
	}
}

// send submits a user send block and panics when the node refuses it (the plan of the builder is fixed).
func (w *c18World) send(kp *wallet.KeyPair, to types.Address, zts types.ZenonTokenStandard, amount *big.Int, data []byte) *nom.AccountBlock {
	b, err := w.n.Send(kp, to, zts, amount, data)
	if err != nil {
		panic(fmt.Sprintf("send %v -> %v refused: %v", kp.Address, to, err))
	}
	return b
}

func (w *c18World) receive(kp *wallet.KeyPair, from types.Hash) *nom.AccountBlock {
	b, err := w.n.Receive(kp, from)
	if err != nil {
		panic(fmt.Sprintf("receive by %v of %v refused: %v", kp.Address, from, err))
	}
	return b
}

func (w *c18World) mom(k int) { w.n.MustProduce(k) }

func c18Big(v int64) *big.Int { return big.NewInt(v) }

func c18Zexp(v int64) *big.Int { return new(big.Int).Mul(big.NewInt(v), big.NewInt(g.Zexp)) }

func (w *c18World) build(c *fw.C) {
	// short epochs (three election periods of 30 momentums), prompt contract updates and short lock windows:
	// the chain of ~1100 momentums then spans a dozen closed reward epochs, and pillars / sentinels / stakes
	// can end within it
	consensus.EpochDuration = c18EpochMomentums * 10 * time.Second
	constants.UpdateMinNumMomentums = 90
	constants.RewardTimeLimit = 150
	constants.PillarEpochLockTime = 600
	constants.PillarEpochRevokeTime = 1 << 40
	constants.SentinelLockTimeWindow = 600
	constants.SentinelRevokeTimeWindow = 1 << 40
	constants.StakeTimeUnitSec = int64(consensus.EpochDuration / time.Second)
	constants.StakeTimeMinSec = constants.StakeTimeUnitSec
	constants.StakeTimeMaxSec = constants.StakeTimeUnitSec * 12
	dir := c.ScratchDir("c18-world")
	w.n = simnet.Open("c18", dir, simnet.MockGenesis(), g.PillarKeys)
	w.z = &c18Zenon{n: w.n}
	n := w.n
	w.genesisTime = n.Chain.GetGenesisMomentum().Timestamp.Unix()

	// --- sporks: accelerator, htlc, bridge&liquidity (created, registered as implemented, activated)
	names := []string{"spork-accelerator", "spork-htlc", "spork-bridge"}
	for _, name := range names {
		b := w.send(g.Spork, types.SporkContract, types.ZeroTokenStandard, c18Big(0),
			definition.ABISpork.PackMethodPanic(definition.SporkCreateMethodName, name, "activate "+name))
		w.sporksMade = append(w.sporksMade, b.Hash)
	}
	w.mom(2)
	_, ctx, err := api.GetFrontierContext(n.Chain, types.SporkContract)
	if err != nil {
		panic(err)
	}
	sporks := definition.GetAllSporks(ctx.Storage())
	if len(sporks) != 3 {
		w.fail("expected 3 sporks after creation, storage has %d", len(sporks))
		return
	}
	byName := map[string]types.Hash{}
	for _, s := range sporks {
		byName[s.Name] = s.Id
		types.ImplementedSporksMap[s.Id] = true
	}
	types.AcceleratorSpork.SporkId = byName["spork-accelerator"]
	types.HtlcSpork.SporkId = byName["spork-htlc"]
	types.BridgeAndLiquiditySpork.SporkId = byName["spork-bridge"]
	for _, name := range names {
		w.send(g.Spork, types.SporkContract, types.ZeroTokenStandard, c18Big(0),
			definition.ABISpork.PackMethodPanic(definition.SporkActivateMethodName, byName[name]))
	}
	w.mom(12)

	// --- plasma for users 6..9 (fusion entries owned by User1 and User2), user 10 stays without plasma
	for i, kp := range []*wallet.KeyPair{g.User6, g.User7, g.User8, g.User9} {
		owner := g.User1
		if i%2 == 1 {
			owner = g.User2
		}
		b := w.send(owner, types.PlasmaContract, types.QsrTokenStandard, c18Zexp(int64(1000+100*i)),
			definition.ABIPlasma.PackMethodPanic(definition.FuseMethodName, kp.Address))
		w.fusionsMade[owner.Address] = append(w.fusionsMade[owner.Address], b.Hash)
	}
	// funds for users 6..9
	var fund []*nom.AccountBlock
	for _, kp := range []*wallet.KeyPair{g.User6, g.User7, g.User8, g.User9} {
		fund = append(fund, w.send(g.User1, kp.Address, types.ZnnTokenStandard, c18Zexp(200), nil))
		fund = append(fund, w.send(g.User2, kp.Address, types.QsrTokenStandard, c18Zexp(2000), nil))
	}
	w.mom(3)
	for _, b := range fund {
		w.receive(simnet.KeyFor(b.ToAddress), b.Hash)
	}
	w.mom(1)

	// --- tokens
	issuers := []*wallet.KeyPair{g.User1, g.User1, g.User2, g.User3, g.User1, g.User6, g.User2}
	for i, kp := range issuers {
		b := w.send(kp, types.TokenContract, types.ZnnTokenStandard, constants.TokenIssueAmount,
			definition.ABIToken.PackMethodPanic(definition.IssueMethodName,
				fmt.Sprintf("c18-token-%d", i), fmt.Sprintf("CT%d", i), "", c18Big(int64(1000+i)), c18Big(int64(100000+i)), uint8(i%9), true, true, false))
		w.tokensIssued[kp.Address] = append(w.tokensIssued[kp.Address], types.NewZenonTokenStandard(b.Hash.Bytes()))
	}
	// --- stakes
	for i := 0; i < 9; i++ {
		kp := []*wallet.KeyPair{g.User1, g.User2, g.User3}[i%3]
		b := w.send(kp, types.StakeContract, types.ZnnTokenStandard, c18Zexp(int64(1+i)),
			definition.ABIStake.PackMethodPanic(definition.StakeMethodName, constants.StakeTimeMinSec*int64(1+i%4)))
		w.stakesMade[kp.Address] = append(w.stakesMade[kp.Address], b.Hash)
	}
	// --- more fusions (User3 fuses for itself and others)
	for i := 0; i < 5; i++ {
		ben := []*wallet.KeyPair{g.User3, g.User4, g.User5, g.User6, g.User3}[i]
		b := w.send(g.User3, types.PlasmaContract, types.QsrTokenStandard, c18Zexp(int64(10+i)),
			definition.ABIPlasma.PackMethodPanic(definition.FuseMethodName, ben.Address))
		w.fusionsMade[g.User3.Address] = append(w.fusionsMade[g.User3.Address], b.Hash)
	}
	// --- delegations
	for kp, name := range map[*wallet.KeyPair]string{g.User6: g.Pillar1Name, g.User7: g.Pillar2Name, g.User8: g.Pillar2Name} {
		w.send(kp, types.PillarContract, types.ZnnTokenStandard, c18Big(0),
			definition.ABIPillars.PackMethodPanic(definition.DelegateMethodName, name))
		w.delegations[kp.Address] = name
	}
	w.mom(2)

	// --- a new pillar (Pillar4) and a sentinel (User1)
	w.send(g.Pillar4, types.PillarContract, types.QsrTokenStandard, c18Zexp(150000),
		definition.ABIPillars.PackMethodPanic(definition.DepositQsrMethodName))
	w.send(g.User1, types.SentinelContract, types.QsrTokenStandard, constants.SentinelQsrDepositAmount,
		definition.ABISentinel.PackMethodPanic(definition.DepositQsrMethodName))
	w.mom(2)
	w.send(g.Pillar4, types.PillarContract, types.ZnnTokenStandard, constants.PillarStakeAmount,
		definition.ABIPillars.PackMethodPanic(definition.RegisterMethodName, g.Pillar4Name, g.Pillar4.Address, g.Pillar4.Address, uint8(10), uint8(90)))
	w.pillarsAdded = append(w.pillarsAdded, g.Pillar4Name)
	w.send(g.User1, types.SentinelContract, types.ZnnTokenStandard, constants.SentinelZnnRegisterAmount,
		definition.ABISentinel.PackMethodPanic(definition.RegisterSentinelMethodName))
	w.sentinelsAdded = append(w.sentinelsAdded, g.User1.Address)
	w.mom(2)
	for _, a := range []types.Address{g.Pillar4.Address, g.User1.Address} {
		// present from the first epoch on
		kind, name := "sentinel", ""
		if a == g.Pillar4.Address {
			kind, name = "pillar", g.Pillar4Name
		}
		w.lives = append(w.lives, &c18Life{kind: kind, class: "early", name: name, addr: a, startLo: w.genesisTime, startHi: w.now()})
	}
	// objects that will end before the chain does (see lateAndEarly)
	w.beginShortLived()

	// --- accelerator projects (+ votes), htlc entries
	nProjects := 6
	for i := 0; i < nProjects; i++ {
		kp := []*wallet.KeyPair{g.User1, g.User2}[i%2]
		b := w.send(kp, types.AcceleratorContract, types.ZnnTokenStandard, constants.ProjectCreationAmount,
			definition.ABIAccelerator.PackMethodPanic(definition.CreateProjectMethodName,
				fmt.Sprintf("c18 project %d", i), "description", "c18.example", c18Big(int64(100+i)), c18Big(int64(1000+i))))
		w.projectsMade = append(w.projectsMade, b.Hash)
		if i%3 == 2 {
			w.mom(1) // different LastUpdateTimestamp values
		}
	}
	w.mom(2)
	w.send(g.Pillar1, types.AcceleratorContract, types.ZeroTokenStandard, c18Big(0),
		definition.ABIAccelerator.PackMethodPanic(definition.VoteByNameMethodName, w.projectsMade[0], g.Pillar1Name, definition.VoteYes))
	w.send(g.Pillar2, types.AcceleratorContract, types.ZeroTokenStandard, c18Big(0),
		definition.ABIAccelerator.PackMethodPanic(definition.VoteByNameMethodName, w.projectsMade[0], g.Pillar2Name, definition.VoteNo))
	for i := 0; i < 3; i++ {
		lock := sha3.Sum256([]byte{byte(i)})
		b := w.send(g.User1, types.HtlcContract, types.ZnnTokenStandard, c18Zexp(int64(1+i)),
			definition.ABIHtlc.PackMethodPanic(definition.CreateHtlcMethodName, g.User2.Address, int64(1000000000+86400*30), uint8(definition.HashTypeSHA3), uint8(32), lock[:]))
		w.htlcsMade = append(w.htlcsMade, b.Hash)
	}
	w.mom(3)

	// --- bridge: orchestrator, guardians, TSS key, a network, a token pair; then wrap / unwrap requests
	w.buildBridge()

	// --- lists longer than the page limit
	nProjects, nWraps, nStakes, nFusions, nTokens := 1040, 0, 0, 0, 0
	if c.Thorough() {
		nWraps, nStakes, nFusions, nTokens = 1040, 1040, 1040, 1040
	}
	w.many(nProjects, 45, func(i int) *nom.AccountBlock {
		b := w.send(g.User1, types.AcceleratorContract, types.ZnnTokenStandard, constants.ProjectCreationAmount,
			definition.ABIAccelerator.PackMethodPanic(definition.CreateProjectMethodName,
				fmt.Sprintf("c18 bulk project %d", i), "d", "c18.example", c18Big(int64(1+i)), c18Big(int64(1+i))))
		w.projectsMade = append(w.projectsMade, b.Hash)
		return b
	})
	if w.bridgeReady {
		w.many(nWraps, 45, func(i int) *nom.AccountBlock {
			to := fmt.Sprintf("0xb794f5ea0ba39494ce839613fffba742795%05x", i%7)
			b := w.send(g.User1, types.BridgeContract, types.ZnnTokenStandard, c18Big(int64(1000+i)),
				definition.ABIBridge.PackMethodPanic(definition.WrapTokenMethodName, uint32(2), uint32(123), to))
			w.wrapsMade = append(w.wrapsMade, b.Hash)
			w.wrapsByTo[to] = append(w.wrapsByTo[to], b.Hash)
			return b
		})
	}
	w.many(nStakes, 45, func(i int) *nom.AccountBlock {
		b := w.send(g.User1, types.StakeContract, types.ZnnTokenStandard, c18Zexp(1),
			definition.ABIStake.PackMethodPanic(definition.StakeMethodName, constants.StakeTimeMinSec*int64(1+i%5)))
		w.stakesMade[g.User1.Address] = append(w.stakesMade[g.User1.Address], b.Hash)
		return b
	})
	w.many(nFusions, 45, func(i int) *nom.AccountBlock {
		ben := []*wallet.KeyPair{g.User6, g.User7, g.User8, g.User9, g.User1}[i%5]
		b := w.send(g.User1, types.PlasmaContract, types.QsrTokenStandard, c18Zexp(10),
			definition.ABIPlasma.PackMethodPanic(definition.FuseMethodName, ben.Address))
		w.fusionsMade[g.User1.Address] = append(w.fusionsMade[g.User1.Address], b.Hash)
		return b
	})
	w.many(nTokens, 30, func(i int) *nom.AccountBlock {
		b := w.send(g.User1, types.TokenContract, types.ZnnTokenStandard, constants.TokenIssueAmount,
			definition.ABIToken.PackMethodPanic(definition.IssueMethodName,
				fmt.Sprintf("c18-bulk-%d", i), fmt.Sprintf("B%d", i%1000), "", c18Big(int64(10+i)), c18Big(int64(100000+i)), uint8(i%9), true, true, false))
		w.tokensIssued[g.User1.Address] = append(w.tokensIssued[g.User1.Address], types.NewZenonTokenStandard(b.Hash.Bytes()))
		return b
	})
	w.mom(2)
	// tokens issued are minted to their owners, htlc/accelerator refunds etc.: receive what is pending
	for _, kp := range []*wallet.KeyPair{g.User1, g.User2, g.User3, g.User6} {
		w.receiveAllPending(kp, 40)
	}
	w.mom(1)

	// --- bulk transfers: User1's chain grows beyond the page limit, User10 collects > 500 unreceived blocks
	target := int(api.RpcMaxPageSize) + 90
	round := 0
	for {
		fr, _ := n.Chain.GetFrontierAccountStore(g.User1.Address).Frontier()
		if fr != nil && int(fr.Height) >= target && round >= 11 {
			break
		}
		var toReceive []*nom.AccountBlock
		for i := 0; i < 80; i++ {
			var to *wallet.KeyPair
			switch {
			case i%8 < 5:
				to = g.User10
			case i%8 == 5:
				to = g.User2
			case i%8 == 6:
				to = g.User7
			default:
				to = g.User4
			}
			zts := types.ZnnTokenStandard
			if i%3 == 0 {
				zts = types.QsrTokenStandard
			}
			var data []byte
			if i%11 == 0 {
				data = []byte(fmt.Sprintf("memo-%d-%d", round, i))
			}
			b := w.send(g.User1, to.Address, zts, c18Big(int64(1+i+round)), data)
			if to != g.User10 && i%16 != 7 {
				toReceive = append(toReceive, b)
			}
		}
		// a few transfers between the others
		toReceive = append(toReceive, w.send(g.User2, g.User3.Address, types.ZnnTokenStandard, c18Big(int64(5+round)), nil))
		toReceive = append(toReceive, w.send(g.User3, g.User5.Address, types.QsrTokenStandard, c18Big(int64(7+round)), nil))
		if owned := w.tokensIssued[g.User2.Address]; len(owned) > 0 && round > 2 {
			toReceive = append(toReceive, w.send(g.User2, g.User4.Address, owned[0], c18Big(1), nil))
		}
		w.mom(1)
		for _, b := range toReceive {
			kp := simnet.KeyFor(b.ToAddress)
			if kp == g.User7 && b.Height%5 == 0 {
				continue // stays unreceived
			}
			w.receive(kp, b.Hash)
		}
		w.mom(1)
		round++
		if round > 40 {
			w.fail("bulk phase did not reach %d blocks on User1", target)
			return
		}
	}
	// --- momentum chain beyond the page limit
	w.lateAndEarly(int(api.RpcMaxPageSize) + 60)
	if w.err != "" {
		return
	}

	// --- leave some unconfirmed blocks at the end (sends and receives)
	var last []*nom.AccountBlock
	for i := 0; i < 5; i++ {
		last = append(last, w.send(g.User1, g.User2.Address, types.ZnnTokenStandard, c18Big(int64(900+i)), nil))
	}
	last = append(last, w.send(g.User2, g.User10.Address, types.ZnnTokenStandard, c18Big(33), nil))
	w.mom(1)
	for _, b := range last[:3] {
		w.receive(g.User2, b.Hash) // unconfirmed receives of confirmed sends
	}
	w.send(g.User3, g.User1.Address, types.ZnnTokenStandard, c18Big(44), nil)  // unconfirmed send
	w.send(g.User1, g.User10.Address, types.QsrTokenStandard, c18Big(45), nil) // unconfirmed send to the unreceived-heavy address

	// --- API objects
	w.ledger = api.NewLedgerApi(w.z)
	w.token = embedded.NewTokenApi(w.z)
	w.stake = embedded.NewStakeApi(w.z)
	w.plasma = embedded.NewPlasmaApi(w.z)
	w.pillarApi = embedded.NewPillarApi(w.z, true)
	w.sentinel = embedded.NewSentinelApi(w.z)
	w.spork = embedded.NewSporkApi(w.z)
	w.accelerator = embedded.NewAcceleratorApi(w.z)
	w.htlc = embedded.NewHtlcApi(w.z)
	w.swap = embedded.NewSwapApi(w.z)
	w.bridge = embedded.NewBridgeApi(w.z)
	w.liquidity = embedded.NewLiquidityApi(w.z)
}

// many submits n contract calls, perMomentum of them between two momentums.
func (w *c18World) many(n, perMomentum int, mk func(i int) *nom.AccountBlock) {
	for i := 0; i < n; i++ {
		mk(i)
		if (i+1)%perMomentum == 0 {
			w.mom(1)
		}
	}
	if n > 0 {
		w.mom(2)
	}
}

// ---------------------------------------------------------------------------
// objects whose lifetime is shorter than the chain

// c18EpochMomentums: momentums per reward epoch in the simulated world (a multiple of the election period of 30).
const c18EpochMomentums = 90

// c18Life is what the builder knows about the lifetime of an object that earns epoch rewards. Times are unix
// seconds of frontier momentums: the object came into existence somewhere in (startLo, startHi] and ceased to
// exist somewhere in (endLo, endHi] (0: still exists at the frontier).
type c18Life struct {
	kind             string // pillar, sentinel, stake, delegator
	class            string // early, late, ended, late-ended
	name             string // pillar name (kind pillar, delegator)
	addr             types.Address
	startLo, startHi int64
	endLo, endHi     int64
}

// before: the epoch [from,to) was over before the object existed.
func (l *c18Life) before(from, to int64) bool { return to <= l.startLo }

// after: the epoch began at least one epoch after the object had ceased to exist.
func (l *c18Life) after(from, to int64) bool { return l.endHi != 0 && from >= l.endHi+(to-from) }

// within: the object existed during the whole epoch.
func (l *c18Life) within(from, to int64) bool {
	return l.startHi <= from && (l.endLo == 0 || to <= l.endLo)
}

func (w *c18World) now() int64 { return w.n.Frontier().Timestamp.Unix() }

// epochSpan: [from,to) of an epoch in unix seconds — genesis time plus multiples of the epoch length.
func (w *c18World) epochSpan(epoch uint64) (int64, int64) {
	d := int64(consensus.EpochDuration / time.Second)
	return w.genesisTime + int64(epoch)*d, w.genesisTime + int64(epoch+1)*d
}

// toEpoch produces momentums until the frontier is offset momentums into the given epoch.
func (w *c18World) toEpoch(epoch uint64, offset int) {
	from, _ := w.epochSpan(epoch)
	for i := 0; w.now() < from+int64(offset)*10; i++ {
		if i > 4*c18EpochMomentums {
			panic("toEpoch: the frontier does not advance")
		}
		w.mom(1)
	}
}

// beginShortLived (first epoch): a pillar, a sentinel and a stake that will be revoked / cancelled mid-history.
func (w *c18World) beginShortLived() {
	lo := w.now()
	w.send(g.Pillar6, types.PillarContract, types.QsrTokenStandard, c18Zexp(190000),
		definition.ABIPillars.PackMethodPanic(definition.DepositQsrMethodName))
	w.send(g.Pillar7, types.SentinelContract, types.QsrTokenStandard, constants.SentinelQsrDepositAmount,
		definition.ABISentinel.PackMethodPanic(definition.DepositQsrMethodName))
	st := w.send(g.User4, types.StakeContract, types.ZnnTokenStandard, c18Zexp(20),
		definition.ABIStake.PackMethodPanic(definition.StakeMethodName, constants.StakeTimeMinSec))
	w.stakesCancelled[g.User4.Address] = append(w.stakesCancelled[g.User4.Address], st.Hash)
	w.mom(2)
	w.send(g.Pillar6, types.PillarContract, types.ZnnTokenStandard, constants.PillarStakeAmount,
		definition.ABIPillars.PackMethodPanic(definition.RegisterMethodName, g.Pillar6Name, g.Pillar6.Address, g.Pillar6.Address, uint8(20), uint8(80)))
	w.send(g.Pillar7, types.SentinelContract, types.ZnnTokenStandard, constants.SentinelZnnRegisterAmount,
		definition.ABISentinel.PackMethodPanic(definition.RegisterSentinelMethodName))
	w.mom(2)
	hi := w.now()
	w.lives = append(w.lives,
		&c18Life{kind: "pillar", class: "ended", name: g.Pillar6Name, addr: g.Pillar6.Address, startLo: lo, startHi: hi},
		&c18Life{kind: "sentinel", class: "ended", addr: g.Pillar7.Address, startLo: lo, startHi: hi},
		&c18Life{kind: "stake", class: "ended", addr: g.User4.Address, startLo: lo, startHi: hi},
	)
}

// lateAndEarly fills the chain up to total momentums and places in it, at epoch granularity, objects that come
// into existence after several epochs have been closed (a pillar with a delegator, a sentinel, a staker) and the
// end of the short-lived ones, with several closed epochs after each event.
func (w *c18World) lateAndEarly(total int) {
	from0, _ := w.epochSpan(0)
	cur := uint64((w.now() - from0) / int64(consensus.EpochDuration/time.Second))
	late, end := cur+2, cur+4
	w.lateEpoch, w.endEpoch = late, end
	if min := int(end+4) * c18EpochMomentums; total < min {
		total = min // at least three closed epochs after the last lifetime event
	}

	// --- late: registered in epoch `late`
	w.toEpoch(late, 5)
	lo := w.now()
	w.send(g.Pillar5, types.PillarContract, types.QsrTokenStandard, c18Zexp(190000),
		definition.ABIPillars.PackMethodPanic(definition.DepositQsrMethodName))
	w.send(g.Pillar8, types.SentinelContract, types.QsrTokenStandard, constants.SentinelQsrDepositAmount,
		definition.ABISentinel.PackMethodPanic(definition.DepositQsrMethodName))
	st := w.send(g.User5, types.StakeContract, types.ZnnTokenStandard, c18Zexp(30),
		definition.ABIStake.PackMethodPanic(definition.StakeMethodName, constants.StakeTimeMinSec*3))
	w.stakesMade[g.User5.Address] = append(w.stakesMade[g.User5.Address], st.Hash)
	w.mom(2)
	w.send(g.Pillar5, types.PillarContract, types.ZnnTokenStandard, constants.PillarStakeAmount,
		definition.ABIPillars.PackMethodPanic(definition.RegisterMethodName, g.Pillar5Name, g.Pillar5.Address, g.Pillar5.Address, uint8(10), uint8(90)))
	w.pillarsAdded = append(w.pillarsAdded, g.Pillar5Name)
	w.send(g.Pillar8, types.SentinelContract, types.ZnnTokenStandard, constants.SentinelZnnRegisterAmount,
		definition.ABISentinel.PackMethodPanic(definition.RegisterSentinelMethodName))
	w.sentinelsAdded = append(w.sentinelsAdded, g.Pillar8.Address)
	w.mom(2)
	w.send(g.User9, types.PillarContract, types.ZnnTokenStandard, c18Big(0),
		definition.ABIPillars.PackMethodPanic(definition.DelegateMethodName, g.Pillar5Name))
	w.delegations[g.User9.Address] = g.Pillar5Name
	w.mom(2)
	hi := w.now()
	w.lives = append(w.lives,
		&c18Life{kind: "pillar", class: "late", name: g.Pillar5Name, addr: g.Pillar5.Address, startLo: lo, startHi: hi},
		&c18Life{kind: "sentinel", class: "late", addr: g.Pillar8.Address, startLo: lo, startHi: hi},
		&c18Life{kind: "stake", class: "late", addr: g.User5.Address, startLo: lo, startHi: hi},
		&c18Life{kind: "delegator", class: "late", name: g.Pillar5Name, addr: g.User9.Address, startLo: lo, startHi: hi},
	)

	// --- end: revoked / cancelled in epoch `end`
	w.toEpoch(end, 5)
	lo = w.now()
	w.send(g.Pillar6, types.PillarContract, types.ZnnTokenStandard, c18Big(0),
		definition.ABIPillars.PackMethodPanic(definition.RevokeMethodName, g.Pillar6Name))
	w.pillarsRevoked = append(w.pillarsRevoked, g.Pillar6Name)
	w.send(g.Pillar7, types.SentinelContract, types.ZnnTokenStandard, c18Big(0),
		definition.ABISentinel.PackMethodPanic(definition.RevokeSentinelMethodName))
	w.sentinelsRevoked = append(w.sentinelsRevoked, g.Pillar7.Address)
	for _, id := range w.stakesCancelled[g.User4.Address] {
		w.send(g.User4, types.StakeContract, types.ZnnTokenStandard, c18Big(0),
			definition.ABIStake.PackMethodPanic(definition.CancelStakeMethodName, id))
	}
	w.mom(2)
	hi = w.now()
	// (a cancelled stake entry is deleted when the rewards of the epoch of its cancellation are distributed: look now)
	_, kctx, err := api.GetFrontierContext(w.n.Chain, types.StakeContract)
	if err != nil {
		panic(err)
	}
	for _, id := range w.stakesCancelled[g.User4.Address] {
		if s, err := definition.GetStakeInfo(kctx.Storage(), id, g.User4.Address); err != nil || s == nil || s.RevokeTime == 0 {
			w.fail("short-lived stake was not made and cancelled (err=%v)", err)
		}
	}
	for _, l := range w.lives {
		if l.class == "ended" {
			l.endLo, l.endHi = lo, hi
		}
	}

	if need := total - int(w.n.Height()); need > 0 {
		w.mom(need)
	}

	// --- did the contracts do what was planned? (storage read through the definition codecs)
	_, pctx, err := api.GetFrontierContext(w.n.Chain, types.PillarContract)
	if err != nil {
		panic(err)
	}
	if p, err := definition.GetPillarInfo(pctx.Storage(), g.Pillar5Name); err != nil || p == nil || p.RevokeTime != 0 {
		w.fail("late pillar was not registered (err=%v)", err)
	}
	if p, err := definition.GetPillarInfo(pctx.Storage(), g.Pillar6Name); err != nil || p == nil || p.RevokeTime == 0 {
		w.fail("short-lived pillar was not registered and revoked (err=%v)", err)
	}
	_, sctx, err := api.GetFrontierContext(w.n.Chain, types.SentinelContract)
	if err != nil {
		panic(err)
	}
	if s := definition.GetSentinelInfoByOwner(sctx.Storage(), g.Pillar8.Address); s == nil || s.RevokeTimestamp != 0 {
		w.fail("late sentinel was not registered")
	}
	if s := definition.GetSentinelInfoByOwner(sctx.Storage(), g.Pillar7.Address); s == nil || s.RevokeTimestamp == 0 {
		w.fail("short-lived sentinel was not registered and revoked")
	}
	if last, err := definition.GetLastEpochUpdate(pctx.Storage()); err != nil || uint64(last.LastEpoch) < end+2 {
		w.fail("too few closed epochs after the last lifetime event (err=%v)", err)
	}
}

const (
	c18TssPubKey  = "AsAQx1M3LVXCuozDOqO5b9adj/PItYgwZFG/xTDBiZzT"
	c18TssPrivKey = "tuSwrTEUyJI1/3y5J8L8DSjzT/AQG2IK3JG+93qhhhI="
	c18EvmToken   = "0x5fbdb2315678afecb367f032d93f642f64180aa3"
)

func (w *c18World) bridgeCall(kp *wallet.KeyPair, method string, args ...interface{}) *nom.AccountBlock {
	return w.send(kp, types.BridgeContract, types.ZnnTokenStandard, c18Big(0), definition.ABIBridge.PackMethodPanic(method, args...))
}

// buildBridge follows the sequence of the repository's own bridge tests (vm/embedded/tests/z_bridge_test.go).
func (w *c18World) buildBridge() {
	constants.InitialBridgeAdministrator.SetBytes(g.User5.Address.Bytes())
	constants.MinAdministratorDelay = 20
	constants.MinSoftDelay = 10
	constants.MinUnhaltDurationInMomentums = 5
	constants.MinGuardians = 4
	admin := g.User5
	w.bridgeCall(admin, definition.SetOrchestratorInfoMethodName, uint64(6), uint32(3), uint32(15), uint32(10))
	w.mom(2)
	guardians := []types.Address{g.User1.Address, g.User2.Address, g.User3.Address, g.User4.Address, g.User5.Address}
	w.bridgeCall(admin, definition.NominateGuardiansMethodName, guardians)
	w.mom(2 + 20 + 2)
	w.bridgeCall(admin, definition.NominateGuardiansMethodName, guardians)
	w.mom(2)
	w.bridgeCall(admin, definition.ChangeTssECDSAPubKeyMethodName, c18TssPubKey, "", "")
	w.mom(2 + 10 + 2)
	w.bridgeCall(admin, definition.ChangeTssECDSAPubKeyMethodName, c18TssPubKey, "", "")
	w.mom(2)
	w.bridgeCall(admin, definition.SetNetworkMethodName, uint32(2), uint32(123), "Ethereum", "0x323b5d4c32345ced77393b3530b1eed0f346429d", "{}")
	w.bridgeCall(admin, definition.SetNetworkMethodName, uint32(2), uint32(31337), "Hardhat", "0x423b5d4c32345ced77393b3530b1eed0f346429d", "{}")
	w.mom(2)
	pair := []interface{}{uint32(2), uint32(123), types.ZnnTokenStandard, c18EvmToken, true, true, false, c18Big(100), uint32(15), uint32(20), `{"APR": 15}`}
	w.bridgeCall(admin, definition.SetTokenPairMethod, pair...)
	w.mom(2 + 10)
	w.bridgeCall(admin, definition.SetTokenPairMethod, pair...)
	w.mom(2)
	// is the bridge usable now?
	_, ctx, err := api.GetFrontierContext(w.n.Chain, types.BridgeContract)
	if err != nil {
		panic(err)
	}
	if ni, err := definition.GetNetworkInfoVariable(ctx.Storage(), 2, 123); err != nil || ni == nil || len(ni.TokenPairs) != 1 {
		w.fail("bridge setup did not produce the token pair (err=%v)", err)
		return
	}
	w.bridgeReady = true
	// wrap requests from several users to several destinations
	for i := 0; i < 14; i++ {
		kp := []*wallet.KeyPair{g.User1, g.User2, g.User3}[i%3]
		to := fmt.Sprintf("0xb794f5ea0ba39494ce839613fffba7427957926%d", i%3)
		b := w.send(kp, types.BridgeContract, types.ZnnTokenStandard, c18Big(int64(1000+i)),
			definition.ABIBridge.PackMethodPanic(definition.WrapTokenMethodName, uint32(2), uint32(123), to))
		w.wrapsMade = append(w.wrapsMade, b.Hash)
		w.wrapsByTo[to] = append(w.wrapsByTo[to], b.Hash)
		if i%5 == 4 {
			w.mom(1)
		}
	}
	w.mom(2)
	// unwrap requests signed with the TSS key
	for i := 0; i < 9; i++ {
		txHash := c18OwnHash([]byte{byte(i), 0x18})
		logIndex := uint32(i % 3)
		to := []types.Address{g.User2.Address, g.User4.Address}[i%2]
		amount := c18Big(int64(500 + i))
		sig, err := c18SignUnwrap(2, 123, txHash, logIndex, to, c18EvmToken, amount)
		if err != nil {
			panic(err)
		}
		w.send(g.User3, types.BridgeContract, types.ZnnTokenStandard, c18Big(0),
			definition.ABIBridge.PackMethodPanic(definition.UnwrapTokenMethodName, uint32(2), uint32(123), txHash, logIndex, to, c18EvmToken, amount, sig))
		w.unwrapsMade = append(w.unwrapsMade, fmt.Sprintf("%v/%d", txHash, logIndex))
		w.unwrapsByTo[to] = append(w.unwrapsByTo[to], fmt.Sprintf("%v/%d", txHash, logIndex))
	}
	w.mom(2)
}

func c18SignUnwrap(networkClass, chainId uint32, txHash types.Hash, logIndex uint32, to types.Address, tokenAddress string, amount *big.Int) (string, error) {
	args := eabi.Arguments{{Type: definition.Uint256Ty}, {Type: definition.Uint256Ty}, {Type: definition.Uint256Ty}, {Type: definition.Uint256Ty}, {Type: definition.Uint256Ty}, {Type: definition.AddressTy}, {Type: definition.Uint256Ty}}
	msg, err := args.PackValues([]interface{}{
		new(big.Int).SetUint64(uint64(networkClass)), new(big.Int).SetUint64(uint64(chainId)), new(big.Int).SetBytes(txHash.Bytes()),
		big.NewInt(int64(logIndex)), new(big.Int).SetBytes(to.Bytes()), ecommon.HexToAddress(tokenAddress), amount,
	})
	if err != nil {
		return "", err
	}
	hash, err := implementation.HashByNetworkClass(msg, networkClass)
	if err != nil {
		return "", err
	}
	raw, err := base64.StdEncoding.DecodeString(c18TssPrivKey)
	if err != nil {
		return "", err
	}
	key, err := ecrypto.ToECDSA(raw)
	if err != nil {
		return "", err
	}
	sig, err := ecrypto.Sign(hash, key)
	if err != nil {
		return "", err
	}
	return base64.StdEncoding.EncodeToString(sig), nil
}

// receiveAllPending receives up to max confirmed, not yet received sends to kp (reads the mailbox as the wallet would).
func (w *c18World) receiveAllPending(kp *wallet.KeyPair, max int) {
	hashes, err := w.n.Chain.GetFrontierMomentumStore().GetAccountMailbox(kp.Address).GetUnreceivedAccountBlockHashes(uint64(max))
	if err != nil {
		panic(err)
	}
	st := w.n.Chain.GetFrontierAccountStore(kp.Address)
	for _, h := range hashes {
		if st.IsReceived(h) {
			continue
		}
		w.receive(kp, h)
	}
}

// ---------------------------------------------------------------------------
// reference built by walking the chain

type c18Ref struct {
	err         string
	frontier    uint64
	moms        []*nom.Momentum // index height-1
	momByHash   map[types.Hash]*nom.Momentum
	chains      map[types.Address][]*nom.AccountBlock // index height-1, unconfirmed tail included
	confirmed   map[types.Address]int                 // number of confirmed blocks of the chain
	blockByHash map[types.Hash]*nom.AccountBlock
	confHeight  map[types.Hash]uint64                 // block hash -> height of the confirming momentum
	receivedBy  map[types.Hash]*nom.AccountBlock      // send hash -> receive block (confirmed or not)
	sendsTo     map[types.Address][]*nom.AccountBlock // confirmed send blocks by destination
	addrs       []types.Address
	tokens      map[types.ZenonTokenStandard]*definition.TokenInfo
}

func c18OwnHash(parts ...[]byte) types.Hash {
	d := sha3.New256()
	for _, p := range parts {
		d.Write(p)
	}
	var h types.Hash
	copy(h[:], d.Sum(nil))
	return h
}

func c18U64(v uint64) []byte {
	b := make([]byte, 8)
	binary.BigEndian.PutUint64(b, v)
	return b
}

func c18Pad32(v *big.Int) []byte {
	out := make([]byte, 32)
	if v != nil {
		b := v.Bytes()
		if len(b) > 32 {
			return b
		}
		copy(out[32-len(b):], b)
	}
	return out
}

// c18BlockHash recomputes an account-block hash from the documented pre-image.
func c18BlockHash(b *nom.AccountBlock) types.Hash {
	var desc []byte
	for _, d := range b.DescendantBlocks {
		desc = append(desc, d.Hash[:]...)
	}
	dh := c18OwnHash(desc)
	dataH := c18OwnHash(b.Data)
	return c18OwnHash(
		c18U64(b.Version), c18U64(b.ChainIdentifier), c18U64(b.BlockType),
		b.PreviousHash[:], c18U64(b.Height),
		b.MomentumAcknowledged.Hash[:], c18U64(b.MomentumAcknowledged.Height),
		b.Address[:], b.ToAddress[:], c18Pad32(b.Amount), b.TokenStandard[:],
		b.FromBlockHash[:], dh[:], dataH[:],
		c18U64(b.FusedPlasma), c18U64(b.Difficulty), b.Nonce.Data[:],
	)
}

func c18MomentumHash(m *nom.Momentum) types.Hash {
	var content []byte
	for _, h := range m.Content {
		content = append(content, h.Address[:]...)
		content = append(content, c18U64(h.Height)...)
		content = append(content, h.Hash[:]...)
	}
	ch := c18OwnHash(content)
	dataH := c18OwnHash(m.Data)
	return c18OwnHash(
		c18U64(m.Version), c18U64(m.ChainIdentifier), m.PreviousHash[:], c18U64(m.Height),
		c18U64(m.TimestampUnix), dataH[:], ch[:], m.ChangesHash[:],
	)
}

func c18BuildRef(w *c18World) *c18Ref {
	r := &c18Ref{
		momByHash:   map[types.Hash]*nom.Momentum{},
		chains:      map[types.Address][]*nom.AccountBlock{},
		confirmed:   map[types.Address]int{},
		blockByHash: map[types.Hash]*nom.AccountBlock{},
		confHeight:  map[types.Hash]uint64{},
		receivedBy:  map[types.Hash]*nom.AccountBlock{},
		sendsTo:     map[types.Address][]*nom.AccountBlock{},
		tokens:      map[types.ZenonTokenStandard]*definition.TokenInfo{},
	}
	ms := w.n.Chain.GetFrontierMomentumStore()
	addrSet := map[types.Address]bool{}
	for _, kp := range g.AllKeyPairs {
		addrSet[kp.Address] = true
	}
	for _, a := range types.EmbeddedContracts {
		addrSet[a] = true
	}
	var prev *nom.Momentum
	for h := uint64(1); ; h++ {
		m, err := ms.GetMomentumByHeight(h)
		if err != nil {
			r.err = fmt.Sprintf("momentum %d: %v", h, err)
			return r
		}
		if m == nil {
			break
		}
		if m.Height != h || c18MomentumHash(m) != m.Hash || (prev != nil && m.PreviousHash != prev.Hash) {
			r.err = fmt.Sprintf("momentum %d does not link/hash as the own pre-image says", h)
			return r
		}
		r.moms = append(r.moms, m)
		r.momByHash[m.Hash] = m
		for _, hd := range m.Content {
			addrSet[hd.Address] = true
			r.confHeight[hd.Hash] = h
		}
		prev = m
	}
	r.frontier = uint64(len(r.moms))
	// account chains (frontier account store: unconfirmed tail included)
	pending := []types.Address{}
	for a := range addrSet {
		pending = append(pending, a)
	}
	for len(pending) > 0 {
		a := pending[0]
		pending = pending[1:]
		if _, done := r.chains[a]; done {
			continue
		}
		st := w.n.Chain.GetFrontierAccountStore(a)
		var list []*nom.AccountBlock
		for h := uint64(1); ; h++ {
			b, err := st.ByHeight(h)
			if err != nil {
				r.err = fmt.Sprintf("account block %v/%d: %v", a, h, err)
				return r
			}
			if b == nil {
				break
			}
			if b.Height != h || b.Address != a || c18BlockHash(b) != b.Hash {
				r.err = fmt.Sprintf("account block %v/%d does not hash as the own pre-image says", a, h)
				return r
			}
			list = append(list, b)
			r.blockByHash[b.Hash] = b
			if !addrSet[b.ToAddress] && b.IsSendBlock() {
				addrSet[b.ToAddress] = true
				pending = append(pending, b.ToAddress)
			}
		}
		r.chains[a] = list
	}
	// confirmation of descendant blocks through their parent, confirmed prefix length
	for a, list := range r.chains {
		for _, b := range list {
			if ch, ok := r.confHeight[b.Hash]; ok {
				for _, d := range b.DescendantBlocks {
					if _, has := r.confHeight[d.Hash]; !has {
						r.confHeight[d.Hash] = ch
					}
				}
			}
		}
		nConf := 0
		for _, b := range list {
			if _, ok := r.confHeight[b.Hash]; ok {
				nConf++
			}
		}
		r.confirmed[a] = nConf
		for i, b := range list {
			_, ok := r.confHeight[b.Hash]
			if ok != (i < nConf) {
				r.err = fmt.Sprintf("chain %v: confirmed blocks are not a prefix", a)
				return r
			}
		}
	}
	for _, list := range r.chains {
		for _, b := range list {
			if b.IsReceiveBlock() && b.BlockType != nom.BlockTypeGenesisReceive {
				r.receivedBy[b.FromBlockHash] = b
			}
			if b.IsSendBlock() {
				if _, ok := r.confHeight[b.Hash]; ok {
					r.sendsTo[b.ToAddress] = append(r.sendsTo[b.ToAddress], b)
				}
			}
		}
	}
	for a := range r.chains {
		r.addrs = append(r.addrs, a)
	}
	sort.Slice(r.addrs, func(i, j int) bool { return bytes.Compare(r.addrs[i][:], r.addrs[j][:]) < 0 })
	// tokens (codec: the definition reader over the token contract storage)
	_, ctx, err := api.GetFrontierContext(w.n.Chain, types.TokenContract)
	if err != nil {
		r.err = err.Error()
		return r
	}
	tl, err := definition.GetTokenInfoList(ctx.Storage())
	if err != nil {
		r.err = err.Error()
		return r
	}
	for _, t := range tl {
		r.tokens[t.TokenStandard] = t
	}
	return r
}

// unreceivedOf: confirmed sends to a whose receive block (if any) is not confirmed, ordered by hash.
func (r *c18Ref) pendingOf(a types.Address) []*nom.AccountBlock {
	var l []*nom.AccountBlock
	for _, s := range r.sendsTo[a] {
		if rb, ok := r.receivedBy[s.Hash]; ok {
			if _, conf := r.confHeight[rb.Hash]; conf {
				continue
			}
		}
		l = append(l, s)
	}
	sort.Slice(l, func(i, j int) bool { return bytes.Compare(l[i].Hash[:], l[j].Hash[:]) < 0 })
	return l
}

// ---------------------------------------------------------------------------
// helpers shared by the monitors

type c18Env struct {
	c      *fw.C
	w      *c18World
	r      *rand.Rand
	caseID string
	seen   map[string]int // violations per signature in this case (witness flood control)
}

func (e *c18Env) violation(sig string, detail map[string]interface{}) {
	e.seen[sig]++
	if e.seen[sig] > 2 {
		return
	}
	e.c.Violation(sig, detail)
}

// c18Guard runs f and converts a panic escaping the API method into a violation.
func (e *c18Env) guard(method string, params interface{}, f func()) (panicked bool) {
	defer func() {
		if rec := recover(); rec != nil {
			panicked = true
			e.c.Distinct(method + "/panic")
			e.violation("rpc-panic "+method, map[string]interface{}{
				"method": method, "params": params, "panic": fmt.Sprint(rec), "stack": c18TopFrames(string(c18Stack()), 12),
			})
		}
	}()
	f()
	return false
}

func c18Stack() []byte {
	buf := make([]byte, 32<<10)
	return buf[:runtime.Stack(buf, false)]
}

var c18Limit = uint64(api.RpcMaxPageSize)

// the parameter grid of the property statement
func c18Grid32(limit uint64) []uint64 {
	return []uint64{0, 1, 2, limit - 1, limit, limit + 1, 1 << 16, 1 << 22, 1<<31 - 1, 1 << 31, 1<<32 - 1}
}

func c18Grid64(limit uint64) []uint64 {
	return append(c18Grid32(limit), 1<<32, 1<<63, 1<<64-1)
}

func c18RandBits(r *rand.Rand, maxBits int) uint64 {
	bits := r.Intn(maxBits + 1)
	if bits == 0 {
		return 0
	}
	v := r.Uint64()
	if bits < 64 {
		v &= (uint64(1) << uint(bits)) - 1
		v |= uint64(1) << uint(bits-1)
	}
	return v
}

// c18ParamClass names the magnitude class of a parameter relative to a limit and a list length.
func c18ParamClass(v, limit uint64) string {
	switch {
	case v == 0:
		return "0"
	case v < limit:
		return "<lim"
	case v == limit:
		return "=lim"
	case v < 1<<31:
		return ">lim"
	case v < 1<<32:
		return ">=2^31"
	case v < 1<<63:
		return ">=2^32"
	default:
		return ">=2^63"
	}
}

func c18ErrClass(err error) string {
	if err == nil {
		return "ok"
	}
	s := err.Error()
	if len(s) > 60 {
		s = s[:60]
	}
	return "err:" + s
}

func c18Min(a, b int) int {
	if a < b {
		return a
	}
	return b
}

// c18Slice computes [start,end) of a list of length n for page (idx,size) in big integers.
func c18Slice(idx, size uint64, n int) (int, int) {
	start := new(big.Int).Mul(new(big.Int).SetUint64(idx), new(big.Int).SetUint64(size))
	nb := big.NewInt(int64(n))
	if start.Cmp(nb) >= 0 {
		return n, n
	}
	end := new(big.Int).Add(start, new(big.Int).SetUint64(size))
	if end.Cmp(nb) > 0 {
		end = nb
	}
	return int(start.Int64()), int(end.Int64())
}

func c18MulOverflows32(idx, size uint64) bool {
	p := new(big.Int).Mul(new(big.Int).SetUint64(idx), new(big.Int).SetUint64(size))
	return p.BitLen() > 32
}

// ---------------------------------------------------------------------------

var c18DeathRe = regexp.MustCompile(`(?m)^(github\.com/zenon-network/go-zenon/\S+)\(`)

// c18DeathSig: "server-death <transport> <panic message class> <top go-zenon frame>". The driver hands over the
// last bytes of the dead child's output; with a full goroutine dump the panic line is further up, so the
// child's log whose end is that tail is read as a whole.
func c18DeathSig(caseID, tail string) string {
	kind := strings.SplitN(caseID, ":", 2)[0]
	text := tail
	if !strings.Contains(text, "panic: ") && !strings.Contains(text, "fatal error: ") {
		logs, _ := filepath.Glob(filepath.Join(fw.OutDir("C18"), "child", "out-*.log"))
		for _, p := range logs {
			if data, err := os.ReadFile(p); err == nil && len(tail) > 0 && strings.HasSuffix(string(data), tail) {
				text = string(data)
				break
			}
		}
	}
	msg, rest := "", ""
	if i := strings.Index(text, "panic: "); i >= 0 {
		msg, rest = text[i+7:], text[i:]
	} else if i := strings.Index(text, "fatal error: "); i >= 0 {
		msg, rest = text[i:], text[i:]
	}
	if j := strings.IndexByte(msg, '\n'); j >= 0 {
		msg = msg[:j]
	}
	msg = strings.TrimSuffix(strings.TrimSpace(msg), " [recovered]")
	msg = regexp.MustCompile(`0x[0-9a-f]+|\d+`).ReplaceAllString(msg, "N")
	if len(msg) > 80 {
		msg = msg[:80]
	}
	frame := ""
	// the panicking goroutine is printed first: its first go-zenon frame
	if j := strings.Index(rest, "\n\ngoroutine "); j >= 0 {
		first := rest[j+2:]
		if k := strings.Index(first, "\n\n"); k >= 0 {
			first = first[:k]
		}
		if m := c18DeathRe.FindStringSubmatch(first); m != nil {
			frame = strings.TrimPrefix(m[1], "github.com/zenon-network/go-zenon/")
		}
	}
	return strings.TrimSpace(fmt.Sprintf("server-death %s %s %s", kind, msg, frame))
}

func c18TopFrames(stack string, n int) []string {
	var out []string
	for _, l := range strings.Split(stack, "\n") {
		if strings.HasPrefix(l, "github.com/zenon-network/go-zenon/") || strings.HasPrefix(l, "verif/") {
			if k := strings.LastIndex(l, "("); k > 0 {
				l = l[:k]
			}
			out = append(out, strings.TrimPrefix(l, "github.com/zenon-network/go-zenon/"))
			if len(out) >= n {
				break
			}
		}
	}
	return out
}

// ---------------------------------------------------------------------------

func c18Run(c *fw.C, caseID string) {
	w := c18GetWorld(c)
	if w.err != "" {
		c.Inconclusive("world: " + w.err)
		return
	}
	e := &c18Env{c: c, w: w, r: c.Rand(caseID), caseID: caseID, seen: map[string]int{}}
	started, cpu0 := time.Now(), c18CPU()
	defer func() { c.Logf("C18 case %s took %v cpu %v", caseID, time.Since(started), c18CPU()-cpu0) }()
	parts := strings.Split(caseID, ":")
	c.Note("world", map[string]interface{}{
		"momentums": w.ref.frontier, "addresses": len(w.ref.addrs), "user1_chain": len(w.ref.chains[g.User1.Address]),
		"user10_pending": len(w.ref.pendingOf(g.User10.Address)), "account_blocks": len(w.ref.blockByHash), "build_s": w.buildTime.Seconds(),
		"momentums_per_epoch": c18EpochMomentums, "closed_epochs_pillar": e.closedEpochs(types.PillarContract), "closed_epochs_stake": e.closedEpochs(types.StakeContract),
		"late_objects_registered_in_epoch": w.lateEpoch, "short_lived_objects_ended_in_epoch": w.endEpoch,
	})
	switch parts[0] {
	case "ledger":
		c18RunLedger(e, parts[1], c18Atoi(parts[2]))
	case "emb":
		c18RunEmbedded(e, parts[1], c18Atoi(parts[2]))
	case "json":
		c18RunJSON(e, c18Atoi(parts[1]), c18Atoi(parts[2]))
	case "http", "pipe":
		c18RunFuzz(e, parts[0], parts[1], c18Atoi(parts[2]))
	case "sub":
		c18RunSubscribe(e, c18Atoi(parts[1]))
	}
}

func c18Atoi(s string) int {
	n := 0
	fmt.Sscanf(s, "%d", &n)
	return n
}

func c18CPU() time.Duration {
	var ru syscall.Rusage
	_ = syscall.Getrusage(syscall.RUSAGE_SELF, &ru)
	return time.Duration(ru.Utime.Nano() + ru.Stime.Nano())
}

func c18GridCases(tier string) int {
	if tier == "thorough" {
		return 6
	}
	return 3
}

// ===========================================================================
// ledger API monitors

// ---------------------------------------------------------------------------
// address / hash classes

type c18Addr struct {
	class string
	addr  types.Address
}

func (e *c18Env) randomAddress() types.Address {
	var a types.Address
	e.r.Read(a[:])
	a[0] = types.UserAddrByte
	return a
}

func (e *c18Env) addrClasses() []c18Addr {
	return []c18Addr{
		{"known-long", g.User1.Address},
		{"known", g.User2.Address},
		{"known-partly-unreceived", g.User7.Address},
		{"known-no-chain", g.User10.Address},
		{"pillar", g.Pillar1.Address},
		{"contract", types.TokenContract},
		{"contract", types.PlasmaContract},
		{"contract", types.PillarContract},
		{"contract-unused", types.SwapContract},
		{"unknown", e.randomAddress()},
		{"zero", types.Address{}},
	}
}

// ---------------------------------------------------------------------------
// element oracles

func c18SameBlock(a, b *nom.AccountBlock) bool {
	x, err1 := a.Serialize()
	y, err2 := b.Serialize()
	return err1 == nil && err2 == nil && bytes.Equal(x, y)
}

func c18BigEq(a, b *big.Int) bool {
	if a == nil || b == nil {
		return a == nil && b == nil
	}
	return a.Cmp(b) == 0
}

func (e *c18Env) checkToken(method, where string, zts types.ZenonTokenStandard, got *api.Token) {
	ref := e.w.ref
	if zts == types.ZeroTokenStandard {
		if got != nil {
			e.violation("element-mismatch "+method+" token", map[string]interface{}{"where": where, "what": "token info attached to a block without token standard"})
		}
		return
	}
	want := ref.tokens[zts]
	if want == nil {
		if got != nil {
			e.violation("element-mismatch "+method+" token", map[string]interface{}{"where": where, "what": "token info for a token standard that does not exist", "zts": zts.String()})
		}
		return
	}
	if got == nil || got.ZenonTokenStandard != zts || got.TokenName != want.TokenName || got.TokenSymbol != want.TokenSymbol || got.TokenDomain != want.TokenDomain ||
		got.Decimals != want.Decimals || got.Owner != want.Owner || !c18BigEq(got.TotalSupply, want.TotalSupply) || !c18BigEq(got.MaxSupply, want.MaxSupply) ||
		got.IsBurnable != want.IsBurnable || got.IsMintable != want.IsMintable || got.IsUtility != want.IsUtility {
		e.violation("element-mismatch "+method+" token", map[string]interface{}{"where": where, "zts": zts.String(), "got": got, "want": want})
	}
}

func (e *c18Env) checkConfirmation(method, where string, hash types.Hash, got *api.AccountBlockConfirmationDetail) {
	ref := e.w.ref
	ch, ok := ref.confHeight[hash]
	if !ok {
		if got != nil {
			e.violation("element-mismatch "+method+" confirmationDetail", map[string]interface{}{"where": where, "what": "confirmation detail on an unconfirmed block", "got": got})
		}
		return
	}
	m := ref.moms[ch-1]
	if got == nil || got.MomentumHeight != ch || got.MomentumHash != m.Hash || got.MomentumTimestamp != int64(m.TimestampUnix) || got.NumConfirmations != ref.frontier-ch+1 {
		e.violation("element-mismatch "+method+" confirmationDetail", map[string]interface{}{"where": where, "block": hash.String(), "got": got,
			"want": map[string]interface{}{"momentumHeight": ch, "momentumHash": m.Hash.String(), "numConfirmations": ref.frontier - ch + 1}})
	}
}

// checkApiBlock compares one returned block with the reference (fields, own hash, token, confirmation, paired block).
func (e *c18Env) checkApiBlock(method string, ab *api.AccountBlock, top bool) {
	ref := e.w.ref
	if ab == nil {
		e.violation("element-mismatch "+method+" nil-element", map[string]interface{}{"what": "nil block in a list"})
		return
	}
	rb := ref.blockByHash[ab.Hash]
	if rb == nil {
		e.violation("element-mismatch "+method+" unknown-block", map[string]interface{}{"hash": ab.Hash.String(), "what": "returned block is not on the chain"})
		return
	}
	where := fmt.Sprintf("%v/%d", rb.Address, rb.Height)
	if !c18SameBlock(&ab.AccountBlock, rb) || c18BlockHash(&ab.AccountBlock) != rb.Hash {
		e.violation("element-mismatch "+method+" block-fields", map[string]interface{}{"where": where, "got": &ab.AccountBlock, "want": rb})
	}
	e.checkToken(method, where, rb.TokenStandard, ab.TokenInfo)
	e.checkConfirmation(method, where, rb.Hash, ab.ConfirmationDetail)
	if !top {
		if ab.PairedAccountBlock != nil {
			e.violation("element-mismatch "+method+" paired", map[string]interface{}{"where": where, "what": "paired block of a paired block is set"})
		}
		return
	}
	p := ab.PairedAccountBlock
	switch {
	case rb.BlockType == nom.BlockTypeGenesisReceive:
		gm := ref.moms[0]
		if p == nil || p.BlockType != nom.BlockTypeContractSend || p.ConfirmationDetail == nil || p.ConfirmationDetail.MomentumHash != gm.Hash ||
			p.ConfirmationDetail.MomentumHeight != 1 || p.ConfirmationDetail.NumConfirmations != ref.frontier {
			e.violation("element-mismatch "+method+" paired", map[string]interface{}{"where": where, "what": "genesis receive must be paired with the synthetic genesis send", "got": p})
		}
	case rb.IsSendBlock():
		var want *nom.AccountBlock
		if rcv, ok := ref.receivedBy[rb.Hash]; ok {
			if _, conf := ref.confHeight[rcv.Hash]; conf {
				want = rcv
			}
		}
		if (want == nil) != (p == nil) || (want != nil && p.Hash != want.Hash) {
			e.violation("element-mismatch "+method+" paired", map[string]interface{}{"where": where, "what": "paired block of a send block must be the confirmed block that receives it", "got": p, "want": want})
		} else if p != nil {
			e.checkApiBlock(method, p, false)
		}
	default:
		want := ref.blockByHash[rb.FromBlockHash]
		if want == nil || p == nil || p.Hash != want.Hash {
			e.violation("element-mismatch "+method+" paired", map[string]interface{}{"where": where, "what": "paired block of a receive block must be the send block", "got": p, "want": want})
		} else {
			e.checkApiBlock(method, p, false)
		}
	}
}

func (e *c18Env) checkApiMomentum(method string, am *api.Momentum) {
	ref := e.w.ref
	if am == nil || am.Momentum == nil {
		e.violation("element-mismatch "+method+" nil-element", map[string]interface{}{"what": "nil momentum in a list"})
		return
	}
	rm := ref.momByHash[am.Hash]
	if rm == nil {
		e.violation("element-mismatch "+method+" unknown-momentum", map[string]interface{}{"hash": am.Hash.String()})
		return
	}
	x, _ := am.Momentum.Serialize()
	y, _ := rm.Serialize()
	if !bytes.Equal(x, y) || c18MomentumHash(am.Momentum) != rm.Hash || am.Producer != types.PubKeyToAddress(rm.PublicKey) {
		e.violation("element-mismatch "+method+" momentum-fields", map[string]interface{}{"height": rm.Height, "got": am, "want": rm})
	}
}

// ---------------------------------------------------------------------------
// list comparison

type c18ListVerdict struct {
	method   string
	params   interface{}
	limit    int
	got      []string
	want     []string
	universe map[string]bool // all identifiers of the underlying list
	overflow string          // non-empty: which parameter expression leaves its integer type
}

// judge compares the identifier sequences and reports at most one violation. Returns the outcome class.
func (e *c18Env) judge(v c18ListVerdict) string {
	if len(v.got) > v.limit {
		e.violation(fmt.Sprintf("limit-exceeded %s", v.method), map[string]interface{}{"params": v.params, "returned": len(v.got), "limit": v.limit})
		return "limit-exceeded"
	}
	same := len(v.got) == len(v.want)
	if same {
		for i := range v.got {
			if v.got[i] != v.want[i] {
				same = false
				break
			}
		}
	}
	if same {
		switch {
		case len(v.want) == 0:
			return "empty"
		case len(v.want) == v.limit:
			e.c.Sample(map[string]interface{}{"method": v.method, "params": v.params, "returned": len(v.got), "first": v.got[0], "last": v.got[len(v.got)-1], "verdict": "equals the reference page"})
			return "full-page"
		default:
			return "partial"
		}
	}
	allKnown := true
	for _, id := range v.got {
		if !v.universe[id] {
			allKnown = false
		}
	}
	class := "wrong-slice"
	switch {
	case !allKnown:
		class = "foreign-elements"
	case v.overflow != "" && len(v.got) > 0:
		class = "list-wraps-around"
	case len(v.want) == len(v.got):
		class = "wrong-order-or-offset"
	case len(v.got) < len(v.want):
		class = "elements-missing"
	}
	sig := fmt.Sprintf("%s %s", class, v.method)
	if v.overflow != "" {
		sig += " " + v.overflow
	}
	e.violation(sig, map[string]interface{}{
		"params": v.params, "returned": len(v.got), "expected": len(v.want),
		"returned_head": c18Head(v.got, 4), "expected_head": c18Head(v.want, 4),
	})
	return class
}

func c18Head(l []string, n int) []string {
	if len(l) > n {
		return l[:n]
	}
	return l
}

// ---------------------------------------------------------------------------

func c18RunLedger(e *c18Env, kind string, chunk int) {
	switch kind {
	case "acc-height":
		c18AccHeight(e, chunk)
	case "acc-page":
		c18AccPage(e, chunk)
	case "mom-height":
		c18MomHeight(e, chunk, false)
	case "detailed":
		c18MomHeight(e, chunk, true)
	case "mom-page":
		c18MomPage(e, chunk)
	case "unreceived":
		c18Unreceived(e, chunk)
	case "unconfirmed":
		c18Unconfirmed(e, chunk)
	case "single":
		c18Single(e, chunk)
	}
}

// pairs of (a,b) parameters for a chunk: chunk 0 is the full grid, later chunks are PRNG values
// (including values aimed at the boundaries of a list of length n).
func (e *c18Env) pairs(chunk int, grid []uint64, bits int, n int, limit uint64, count int) [][2]uint64 {
	var out [][2]uint64
	if chunk == 0 {
		for _, a := range grid {
			for _, b := range grid {
				out = append(out, [2]uint64{a, b})
			}
		}
		return out
	}
	for i := 0; i < count; i++ {
		var a, b uint64
		switch e.r.Intn(6) {
		case 0: // fully random magnitudes
			a, b = c18RandBits(e.r, bits), c18RandBits(e.r, bits)
		case 1: // valid page near the end of the list
			b = 1 + uint64(e.r.Int63n(int64(limit)))
			a = uint64(n)/b + uint64(e.r.Intn(3)) - 1
			if a > 1<<62 {
				a = 0
			}
		case 2: // small index, size around the limit
			a = uint64(e.r.Intn(4))
			b = limit - 2 + uint64(e.r.Intn(5))
		case 3: // product just beyond 2^32 (or 2^64): k*2^bits/b + j
			b = 1 + uint64(e.r.Int63n(int64(limit)))
			k := new(big.Int).Lsh(big.NewInt(int64(1+e.r.Intn(3))), uint(bits))
			q := new(big.Int).Div(k, new(big.Int).SetUint64(b))
			q.Add(q, big.NewInt(int64(e.r.Intn(3))))
			a = q.Uint64()
			if bits == 32 {
				a &= 1<<32 - 1
			}
		case 4: // one huge, one small
			a = c18RandBits(e.r, bits)
			b = uint64(e.r.Intn(int(limit) + 2))
			if e.r.Intn(2) == 0 {
				a, b = b, a
			}
		default: // inside the list
			b = 1 + uint64(e.r.Intn(60))
			a = uint64(e.r.Intn(n/int(b) + 2))
		}
		if bits == 32 {
			a &= 1<<32 - 1
			b &= 1<<32 - 1
		}
		out = append(out, [2]uint64{a, b})
	}
	return out
}

func (e *c18Env) nRandom() int {
	return 260
}

// ---- getAccountBlocksByHeight

func c18AccHeight(e *c18Env, chunk int) {
	const method = "ledger.getAccountBlocksByHeight"
	ref := e.w.ref
	for _, ac := range e.addrClasses() {
		chain := ref.chains[ac.addr]
		n := len(chain)
		universe := map[string]bool{}
		for _, b := range chain {
			universe[b.Hash.String()] = true
		}
		if chunk == 0 && ac.class != "known-long" && ac.class != "contract" && ac.class != "unknown" && ac.class != "known-no-chain" {
			continue
		}
		for _, p := range e.pairs(chunk, c18Grid64(c18Limit), 64, n, c18Limit, e.nRandom()/8) {
			height, count := p[0], p[1]
			if chunk != 0 && e.r.Intn(3) == 0 {
				// heights just below 2^64 so that height+count passes the type's end
				height = math.MaxUint64 - uint64(e.r.Intn(6))
				count = uint64(e.r.Intn(int(c18Limit) + 1))
			}
			params := map[string]interface{}{"address": ac.addr.String(), "addressClass": ac.class, "height": fmt.Sprint(height), "count": fmt.Sprint(count)}
			var res *api.AccountBlockList
			var err error
			if e.guard(method, params, func() { res, err = e.w.ledger.GetAccountBlocksByHeight(ac.addr, height, count) }) {
				continue
			}
			e.c.Eval(1)
			pc := fmt.Sprintf("%s/h%s/c%s", ac.class, c18ParamClass(height, uint64(n)+1), c18ParamClass(count, c18Limit))
			if err != nil {
				if height != 0 && count <= c18Limit {
					e.violation("unexpected-error "+method, map[string]interface{}{"params": params, "error": err.Error()})
				}
				e.c.Distinct(method + "/" + pc + "/" + c18ErrClass(err))
				e.c.SetAdd("errors", method+": "+err.Error())
				continue
			}
			if res == nil {
				e.violation("nil-result "+method, map[string]interface{}{"params": params})
				continue
			}
			// expected heights [height, height+count) ∩ [1, n]
			var want []string
			end := new(big.Int).Add(new(big.Int).SetUint64(height), new(big.Int).SetUint64(count))
			overflow := ""
			if end.BitLen() > 64 {
				overflow = "height+count>=2^64"
			}
			if height >= 1 && height <= uint64(n) {
				last := uint64(n)
				if end.Cmp(new(big.Int).SetUint64(last+1)) < 0 {
					last = end.Uint64() - 1
				}
				for h := height; h <= last; h++ {
					want = append(want, chain[h-1].Hash.String())
				}
			}
			var got []string
			for _, b := range res.List {
				if b == nil {
					got = append(got, "<nil>")
					continue
				}
				got = append(got, b.Hash.String())
			}
			oc := e.judge(c18ListVerdict{method: method, params: params, limit: int(c18Limit), got: got, want: want, universe: universe, overflow: overflow})
			if res.Count != n {
				e.violation("wrong-count "+method, map[string]interface{}{"params": params, "count": res.Count, "chain_length": n})
			}
			if oc == "empty" || oc == "full-page" || oc == "partial" {
				e.checkBlocks(method, res.List)
			}
			e.c.Distinct(method + "/" + pc + "/" + oc)
		}
	}
}

// ---- getAccountBlocksByPage

func c18AccPage(e *c18Env, chunk int) {
	const method = "ledger.getAccountBlocksByPage"
	ref := e.w.ref
	for _, ac := range e.addrClasses() {
		chain := ref.chains[ac.addr]
		n := len(chain)
		universe := map[string]bool{}
		desc := make([]string, n)
		for i, b := range chain {
			universe[b.Hash.String()] = true
			desc[n-1-i] = b.Hash.String()
		}
		if chunk == 0 && ac.class != "known-long" && ac.class != "contract" && ac.class != "unknown" {
			continue
		}
		for _, p := range e.pairs(chunk, c18Grid32(c18Limit), 32, n, c18Limit, e.nRandom()/8) {
			idx, size := uint32(p[0]), uint32(p[1])
			params := map[string]interface{}{"address": ac.addr.String(), "addressClass": ac.class, "pageIndex": idx, "pageSize": size}
			var res *api.AccountBlockList
			var err error
			if e.guard(method, params, func() { res, err = e.w.ledger.GetAccountBlocksByPage(ac.addr, idx, size) }) {
				continue
			}
			e.c.Eval(1)
			pc := fmt.Sprintf("%s/i%s/s%s", ac.class, c18ParamClass(uint64(idx), c18Limit), c18ParamClass(uint64(size), c18Limit))
			if err != nil {
				if uint64(size) <= c18Limit {
					e.violation("unexpected-error "+method, map[string]interface{}{"params": params, "error": err.Error()})
				}
				e.c.Distinct(method + "/" + pc + "/" + c18ErrClass(err))
				e.c.SetAdd("errors", method+": "+err.Error())
				continue
			}
			if res == nil {
				e.violation("nil-result "+method, map[string]interface{}{"params": params})
				continue
			}
			s, t := c18Slice(uint64(idx), uint64(size), n)
			overflow := ""
			if c18MulOverflows32(uint64(idx)+1, uint64(size)) {
				overflow = "(pageIndex+1)*pageSize>=2^32"
			}
			var got []string
			for _, b := range res.List {
				if b == nil {
					got = append(got, "<nil>")
					continue
				}
				got = append(got, b.Hash.String())
			}
			oc := e.judge(c18ListVerdict{method: method, params: params, limit: int(c18Limit), got: got, want: desc[s:t], universe: universe, overflow: overflow})
			if res.Count != n {
				e.violation("wrong-count "+method, map[string]interface{}{"params": params, "count": res.Count, "chain_length": n})
			}
			if oc == "empty" || oc == "full-page" || oc == "partial" {
				e.checkBlocks(method, res.List)
			}
			e.c.Distinct(method + "/" + pc + "/" + oc)
		}
	}
}

// ---- getMomentumsByHeight / getDetailedMomentumsByHeight

func c18MomHeight(e *c18Env, chunk int, detailed bool) {
	method := "ledger.getMomentumsByHeight"
	if detailed {
		method = "ledger.getDetailedMomentumsByHeight"
	}
	ref := e.w.ref
	n := int(ref.frontier)
	universe := map[string]bool{}
	for _, m := range ref.moms {
		universe[m.Hash.String()] = true
	}
	nr := e.nRandom()
	if detailed {
		nr /= 4
	}
	for _, p := range e.pairs(chunk, c18Grid64(c18Limit), 64, n, c18Limit, nr) {
		height, count := p[0], p[1]
		if chunk != 0 && e.r.Intn(4) == 0 {
			height = math.MaxUint64 - uint64(e.r.Intn(6))
			count = uint64(e.r.Intn(int(c18Limit) + 1))
		}
		if detailed && chunk != 0 && count > 40 && count <= c18Limit && e.r.Intn(8) != 0 {
			count = uint64(e.r.Intn(40)) // most detailed queries stay small: a full one carries every block of 1024 momentums
		}
		params := map[string]interface{}{"height": fmt.Sprint(height), "count": fmt.Sprint(count)}
		var moms []*api.Momentum
		var det []*api.DetailedMomentum
		var cnt int
		var err error
		nilRes := false
		if e.guard(method, params, func() {
			if detailed {
				var res *api.DetailedMomentumList
				res, err = e.w.ledger.GetDetailedMomentumsByHeight(height, count)
				if res != nil {
					det, cnt = res.List, res.Count
					for _, d := range det {
						if d == nil {
							moms = append(moms, nil)
						} else {
							moms = append(moms, d.Momentum)
						}
					}
				} else {
					nilRes = true
				}
			} else {
				var res *api.MomentumList
				res, err = e.w.ledger.GetMomentumsByHeight(height, count)
				if res != nil {
					moms, cnt = res.List, res.Count
				} else {
					nilRes = true
				}
			}
		}) {
			continue
		}
		e.c.Eval(1)
		pc := fmt.Sprintf("h%s/c%s", c18ParamClass(height, uint64(n)+1), c18ParamClass(count, c18Limit))
		if err != nil {
			if height != 0 && count <= c18Limit {
				e.violation("unexpected-error "+method, map[string]interface{}{"params": params, "error": err.Error()})
			}
			e.c.Distinct(method + "/" + pc + "/" + c18ErrClass(err))
			e.c.SetAdd("errors", method+": "+err.Error())
			continue
		}
		if nilRes {
			e.violation("nil-result "+method, map[string]interface{}{"params": params})
			continue
		}
		var want []string
		end := new(big.Int).Add(new(big.Int).SetUint64(height), new(big.Int).SetUint64(count))
		overflow := ""
		if end.BitLen() > 64 {
			overflow = "height+count>=2^64"
		}
		if height >= 1 && height <= uint64(n) {
			last := uint64(n)
			if end.Cmp(new(big.Int).SetUint64(last+1)) < 0 {
				last = end.Uint64() - 1
			}
			for h := height; h <= last; h++ {
				want = append(want, ref.moms[h-1].Hash.String())
			}
		}
		var got []string
		for _, m := range moms {
			if m == nil || m.Momentum == nil {
				got = append(got, "<nil>")
				continue
			}
			got = append(got, m.Hash.String())
		}
		oc := e.judge(c18ListVerdict{method: method, params: params, limit: int(c18Limit), got: got, want: want, universe: universe, overflow: overflow})
		if cnt != n {
			e.violation("wrong-count "+method, map[string]interface{}{"params": params, "count": cnt, "frontier_height": n})
		}
		if oc == "empty" || oc == "full-page" || oc == "partial" {
			for i, m := range moms {
				if i < 8 || i >= len(moms)-8 || i%5 == 0 {
					e.checkApiMomentum(method, m)
				}
				if detailed {
					rm := ref.momByHash[m.Hash]
					d := det[i]
					ok := rm != nil && len(d.AccountBlocks) == len(rm.Content)
					if ok {
						for j, hd := range rm.Content {
							if d.AccountBlocks[j] == nil || d.AccountBlocks[j].Hash != hd.Hash {
								ok = false
							}
						}
					}
					if !ok {
						e.violation("element-mismatch "+method+" blocks", map[string]interface{}{"params": params, "momentum": m.Height, "what": "blocks of a detailed momentum are not its content, in content order"})
					} else if i < 8 || i >= len(moms)-8 || i%17 == 0 {
						e.checkBlocks(method, d.AccountBlocks)
					}
				}
			}
			e.c.Eval(len(moms))
		}
		e.c.Distinct(method + "/" + pc + "/" + oc)
	}
}

// ---- getMomentumsByPage

func c18MomPage(e *c18Env, chunk int) {
	const method = "ledger.getMomentumsByPage"
	ref := e.w.ref
	n := int(ref.frontier)
	universe := map[string]bool{}
	desc := make([]string, n)
	for i, m := range ref.moms {
		universe[m.Hash.String()] = true
		desc[n-1-i] = m.Hash.String()
	}
	for _, p := range e.pairs(chunk, c18Grid32(c18Limit), 32, n, c18Limit, e.nRandom()) {
		idx, size := uint32(p[0]), uint32(p[1])
		params := map[string]interface{}{"pageIndex": idx, "pageSize": size}
		var res *api.MomentumList
		var err error
		if e.guard(method, params, func() { res, err = e.w.ledger.GetMomentumsByPage(idx, size) }) {
			continue
		}
		e.c.Eval(1)
		pc := fmt.Sprintf("i%s/s%s", c18ParamClass(uint64(idx), c18Limit), c18ParamClass(uint64(size), c18Limit))
		if err != nil {
			if uint64(size) <= c18Limit {
				e.violation("unexpected-error "+method, map[string]interface{}{"params": params, "error": err.Error()})
			}
			e.c.Distinct(method + "/" + pc + "/" + c18ErrClass(err))
			e.c.SetAdd("errors", method+": "+err.Error())
			continue
		}
		if res == nil {
			e.violation("nil-result "+method, map[string]interface{}{"params": params})
			continue
		}
		s, t := c18Slice(uint64(idx), uint64(size), n)
		overflow := ""
		if c18MulOverflows32(uint64(idx)+1, uint64(size)) {
			overflow = "(pageIndex+1)*pageSize>=2^32"
		}
		var got []string
		for _, m := range res.List {
			if m == nil || m.Momentum == nil {
				got = append(got, "<nil>")
				continue
			}
			got = append(got, m.Hash.String())
		}
		oc := e.judge(c18ListVerdict{method: method, params: params, limit: int(c18Limit), got: got, want: desc[s:t], universe: universe, overflow: overflow})
		if res.Count != n {
			e.violation("wrong-count "+method, map[string]interface{}{"params": params, "count": res.Count, "frontier_height": n})
		}
		if oc == "empty" || oc == "full-page" || oc == "partial" {
			for _, m := range res.List {
				e.checkApiMomentum(method, m)
			}
			e.c.Eval(len(res.List))
		}
		e.c.Distinct(method + "/" + pc + "/" + oc)
	}
}

// ---- getUnreceivedBlocksByAddress (documented window: 10 pages of at most 50)

const (
	c18UnrecvMaxIndex = 10
	c18UnrecvMaxSize  = 50
)

func c18Unreceived(e *c18Env, chunk int) {
	const method = "ledger.getUnreceivedBlocksByAddress"
	ref := e.w.ref
	window := c18UnrecvMaxIndex * c18UnrecvMaxSize
	for _, ac := range e.addrClasses() {
		pending := ref.pendingOf(ac.addr) // by hash, w.r.t. the confirmed ledger
		more := len(pending) >= window
		if len(pending) > window {
			pending = pending[:window]
		}
		// a block received by a not yet confirmed receive block is no longer unreceived
		var list []string
		universe := map[string]bool{}
		for _, b := range pending {
			if _, rcv := ref.receivedBy[b.Hash]; rcv {
				continue
			}
			list = append(list, b.Hash.String())
			universe[b.Hash.String()] = true
		}
		n := len(list)
		grid := []uint64{0, 1, 2, c18UnrecvMaxIndex - 1, c18UnrecvMaxIndex, c18UnrecvMaxIndex + 1, c18UnrecvMaxSize - 1, c18UnrecvMaxSize, c18UnrecvMaxSize + 1,
			c18Limit, 1 << 16, 1 << 22, 1 << 26, 1<<31 - 1, 1 << 31, 1<<32 - 1}
		if chunk == 0 && n == 0 && ac.class != "unknown" && ac.class != "contract" {
			continue
		}
		for _, p := range e.pairs(chunk, grid, 32, n, c18UnrecvMaxSize, e.nRandom()/3) {
			idx, size := uint32(p[0]), uint32(p[1])
			if chunk != 0 && e.r.Intn(2) == 0 {
				idx, size = uint32(e.r.Intn(c18UnrecvMaxIndex+1)), uint32(e.r.Intn(c18UnrecvMaxSize+2))
			}
			params := map[string]interface{}{"address": ac.addr.String(), "addressClass": ac.class, "pageIndex": idx, "pageSize": size}
			var res *api.AccountBlockList
			var err error
			if e.guard(method, params, func() { res, err = e.w.ledger.GetUnreceivedBlocksByAddress(ac.addr, idx, size) }) {
				continue
			}
			e.c.Eval(1)
			pc := fmt.Sprintf("%s/i%s/s%s", ac.class, c18ParamClass(uint64(idx), c18UnrecvMaxIndex), c18ParamClass(uint64(size), c18UnrecvMaxSize))
			if err != nil {
				if size <= c18UnrecvMaxSize && idx < c18UnrecvMaxIndex {
					e.violation("unexpected-error "+method, map[string]interface{}{"params": params, "error": err.Error()})
				}
				e.c.Distinct(method + "/" + pc + "/" + c18ErrClass(err))
				e.c.SetAdd("errors", method+": "+err.Error())
				continue
			}
			if res == nil {
				e.violation("nil-result "+method, map[string]interface{}{"params": params})
				continue
			}
			s, t := c18Slice(uint64(idx), uint64(size), n)
			overflow := ""
			if c18MulOverflows32(uint64(idx), uint64(size)) {
				overflow = "pageIndex*pageSize>=2^32"
			}
			var got []string
			for _, b := range res.List {
				if b == nil {
					got = append(got, "<nil>")
					continue
				}
				got = append(got, b.Hash.String())
			}
			oc := e.judge(c18ListVerdict{method: method, params: params, limit: c18UnrecvMaxSize, got: got, want: list[s:t], universe: universe, overflow: overflow})
			if res.Count != n {
				e.violation("wrong-count "+method, map[string]interface{}{"params": params, "count": res.Count, "unreceived_in_window": n})
			}
			if res.More != more && len(ref.pendingOf(ac.addr)) != window {
				e.violation("wrong-more "+method, map[string]interface{}{"params": params, "more": res.More, "pending_total": len(ref.pendingOf(ac.addr)), "window": window})
			}
			if oc == "empty" || oc == "full-page" || oc == "partial" {
				e.checkBlocks(method, res.List)
			}
			e.c.Distinct(method + "/" + pc + "/" + oc)
		}
	}
}

// ---- getUnconfirmedBlocksByAddress

func c18Unconfirmed(e *c18Env, chunk int) {
	const method = "ledger.getUnconfirmedBlocksByAddress"
	ref := e.w.ref
	for _, ac := range e.addrClasses() {
		chain := ref.chains[ac.addr]
		tail := chain[ref.confirmed[ac.addr]:]
		n := len(tail)
		var list []string
		universe := map[string]bool{}
		for _, b := range tail {
			list = append(list, b.Hash.String())
			universe[b.Hash.String()] = true
		}
		if chunk == 0 && n == 0 && ac.class != "unknown" {
			continue
		}
		for _, p := range e.pairs(chunk, c18Grid32(c18Limit), 32, n, c18Limit, e.nRandom()/3) {
			idx, size := uint32(p[0]), uint32(p[1])
			if chunk != 0 && e.r.Intn(2) == 0 {
				idx, size = uint32(e.r.Intn(4)), uint32(e.r.Intn(8))
			}
			params := map[string]interface{}{"address": ac.addr.String(), "addressClass": ac.class, "pageIndex": idx, "pageSize": size}
			var res *api.AccountBlockList
			var err error
			if e.guard(method, params, func() { res, err = e.w.ledger.GetUnconfirmedBlocksByAddress(ac.addr, idx, size) }) {
				continue
			}
			e.c.Eval(1)
			pc := fmt.Sprintf("%s/i%s/s%s", ac.class, c18ParamClass(uint64(idx), c18Limit), c18ParamClass(uint64(size), c18Limit))
			if err != nil {
				if uint64(size) <= c18Limit {
					e.violation("unexpected-error "+method, map[string]interface{}{"params": params, "error": err.Error()})
				}
				e.c.Distinct(method + "/" + pc + "/" + c18ErrClass(err))
				e.c.SetAdd("errors", method+": "+err.Error())
				continue
			}
			if res == nil {
				e.violation("nil-result "+method, map[string]interface{}{"params": params})
				continue
			}
			s, t := c18Slice(uint64(idx), uint64(size), n)
			overflow := ""
			if c18MulOverflows32(uint64(idx), uint64(size)) {
				overflow = "pageIndex*pageSize>=2^32"
			}
			var got []string
			for _, b := range res.List {
				if b == nil {
					got = append(got, "<nil>")
					continue
				}
				got = append(got, b.Hash.String())
			}
			oc := e.judge(c18ListVerdict{method: method, params: params, limit: int(c18Limit), got: got, want: list[s:t], universe: universe, overflow: overflow})
			if res.Count != n {
				e.violation("wrong-count "+method, map[string]interface{}{"params": params, "count": res.Count, "unconfirmed": n})
			}
			if res.More {
				e.violation("wrong-more "+method, map[string]interface{}{"params": params, "more": res.More})
			}
			if oc == "empty" || oc == "full-page" || oc == "partial" {
				e.checkBlocks(method, res.List)
			}
			e.c.Distinct(method + "/" + pc + "/" + oc)
		}
	}
}

// ---- single-object calls

func (e *c18Env) someHashes(n int) []struct {
	class string
	h     types.Hash
} {
	ref := e.w.ref
	type hc = struct {
		class string
		h     types.Hash
	}
	var out []hc
	out = append(out, hc{"zero", types.Hash{}})
	for i := 0; i < 3; i++ {
		var h types.Hash
		e.r.Read(h[:])
		out = append(out, hc{"unknown", h})
	}
	for i := 0; i < n; i++ {
		a := ref.addrs[e.r.Intn(len(ref.addrs))]
		ch := ref.chains[a]
		if len(ch) == 0 {
			continue
		}
		b := ch[e.r.Intn(len(ch))]
		cl := "block"
		if _, ok := ref.confHeight[b.Hash]; !ok {
			cl = "block-unconfirmed"
		}
		out = append(out, hc{cl, b.Hash})
	}
	// every unconfirmed block
	for a, ch := range ref.chains {
		for _, b := range ch[ref.confirmed[a]:] {
			out = append(out, hc{"block-unconfirmed", b.Hash})
		}
	}
	for i := 0; i < n/2; i++ {
		out = append(out, hc{"momentum", ref.moms[e.r.Intn(len(ref.moms))].Hash})
	}
	out = append(out, hc{"momentum", ref.moms[0].Hash}, hc{"momentum", ref.moms[len(ref.moms)-1].Hash})
	return out
}

func c18Single(e *c18Env, chunk int) {
	ref := e.w.ref
	w := e.w
	// frontier momentum
	{
		const method = "ledger.getFrontierMomentum"
		var m *api.Momentum
		var err error
		if !e.guard(method, nil, func() { m, err = w.ledger.GetFrontierMomentum() }) {
			e.c.Eval(1)
			if err != nil || m == nil || m.Momentum == nil || m.Hash != ref.moms[ref.frontier-1].Hash {
				e.violation("wrong-answer "+method, map[string]interface{}{"error": fmt.Sprint(err), "got": m, "want_height": ref.frontier})
			} else {
				e.checkApiMomentum(method, m)
				e.c.Distinct(method + "/ok")
			}
		}
	}
	// per address: frontier block and account info
	addrs := e.addrClasses()
	for _, a := range ref.addrs {
		addrs = append(addrs, c18Addr{"every", a})
	}
	for _, ac := range addrs {
		chain := ref.chains[ac.addr]
		{
			const method = "ledger.getFrontierAccountBlock"
			var b *api.AccountBlock
			var err error
			if !e.guard(method, ac.addr.String(), func() { b, err = w.ledger.GetFrontierAccountBlock(ac.addr) }) {
				e.c.Eval(1)
				switch {
				case err != nil:
					e.violation("unexpected-error "+method, map[string]interface{}{"address": ac.addr.String(), "error": err.Error()})
				case len(chain) == 0 && b != nil, len(chain) > 0 && (b == nil || b.Hash != chain[len(chain)-1].Hash):
					e.violation("wrong-answer "+method, map[string]interface{}{"address": ac.addr.String(), "got": b, "chain_length": len(chain)})
				default:
					if b != nil {
						e.checkApiBlock(method, b, true)
					}
					e.c.Distinct(fmt.Sprintf("%s/%s/%v", method, ac.class, b != nil))
				}
			}
		}
		{
			const method = "ledger.getAccountInfoByAddress"
			var info *api.AccountInfo
			var err error
			if !e.guard(method, ac.addr.String(), func() { info, err = w.ledger.GetAccountInfoByAddress(ac.addr) }) {
				e.c.Eval(1)
				if err != nil || info == nil {
					e.violation("unexpected-error "+method, map[string]interface{}{"address": ac.addr.String(), "error": fmt.Sprint(err)})
				} else {
					if info.Address != ac.addr || info.AccountHeight != uint64(len(chain)) {
						e.violation("wrong-answer "+method+" height", map[string]interface{}{"address": ac.addr.String(), "got": info.AccountHeight, "chain_length": len(chain)})
					}
					if !types.IsEmbeddedAddress(ac.addr) {
						want := e.balancesOf(ac.addr)
						for zts, bi := range info.BalanceInfoMap {
							exp := want[zts]
							if exp == nil {
								exp = big.NewInt(0)
							}
							if bi == nil || bi.Balance == nil || bi.Balance.Cmp(exp) != 0 {
								e.violation("wrong-answer "+method+" balance", map[string]interface{}{"address": ac.addr.String(), "zts": zts.String(), "got": bi, "want": exp.String()})
							} else {
								e.checkToken(method, ac.addr.String(), zts, bi.TokenInfo)
							}
						}
						for zts, exp := range want {
							if exp.Sign() != 0 && info.BalanceInfoMap[zts] == nil {
								e.violation("wrong-answer "+method+" balance", map[string]interface{}{"address": ac.addr.String(), "zts": zts.String(), "got": nil, "want": exp.String()})
							}
						}
					}
					e.c.Distinct(fmt.Sprintf("%s/%s/tokens=%d", method, ac.class, c18Min(len(info.BalanceInfoMap), 3)))
				}
			}
		}
	}
	// by hash
	for _, hc := range e.someHashes(120) {
		{
			const method = "ledger.getAccountBlockByHash"
			var b *api.AccountBlock
			var err error
			if !e.guard(method, hc.h.String(), func() { b, err = w.ledger.GetAccountBlockByHash(hc.h) }) {
				e.c.Eval(1)
				rb := ref.blockByHash[hc.h]
				// the by-hash index covers confirmed blocks
				if rb != nil {
					if _, conf := ref.confHeight[rb.Hash]; !conf {
						rb = nil
						if b != nil && b.Hash == hc.h {
							rb = ref.blockByHash[hc.h] // an unconfirmed block found by hash is also a correct answer
						}
					}
				}
				switch {
				case err != nil:
					e.violation("unexpected-error "+method, map[string]interface{}{"hash": hc.h.String(), "class": hc.class, "error": err.Error()})
				case (rb == nil) != (b == nil), rb != nil && b.Hash != rb.Hash:
					e.violation("wrong-answer "+method, map[string]interface{}{"hash": hc.h.String(), "class": hc.class, "got": b, "want": rb})
				default:
					if b != nil {
						e.checkApiBlock(method, b, true)
					}
					e.c.Distinct(fmt.Sprintf("%s/%s/%v", method, hc.class, b != nil))
				}
			}
		}
		{
			const method = "ledger.getMomentumByHash"
			var m *api.Momentum
			var err error
			if !e.guard(method, hc.h.String(), func() { m, err = w.ledger.GetMomentumByHash(hc.h) }) {
				e.c.Eval(1)
				rm := ref.momByHash[hc.h]
				switch {
				case err != nil:
					e.violation("unexpected-error "+method, map[string]interface{}{"hash": hc.h.String(), "class": hc.class, "error": err.Error()})
				case (rm == nil) != (m == nil), rm != nil && m.Hash != rm.Hash:
					e.violation("wrong-answer "+method, map[string]interface{}{"hash": hc.h.String(), "class": hc.class, "got": m, "want": rm})
				default:
					if m != nil {
						e.checkApiMomentum(method, m)
					}
					e.c.Distinct(fmt.Sprintf("%s/%s/%v", method, hc.class, m != nil))
				}
			}
		}
	}
	// momentum before time
	c18BeforeTime(e, chunk)
}

// balancesOf: genesis balance + amounts received - amounts sent, per token, over the whole account chain.
func (e *c18Env) balancesOf(a types.Address) map[types.ZenonTokenStandard]*big.Int {
	ref := e.w.ref
	out := map[types.ZenonTokenStandard]*big.Int{}
	add := func(zts types.ZenonTokenStandard, v *big.Int, sign int) {
		if v == nil {
			return
		}
		cur := out[zts]
		if cur == nil {
			cur = big.NewInt(0)
			out[zts] = cur
		}
		if sign > 0 {
			cur.Add(cur, v)
		} else {
			cur.Sub(cur, v)
		}
	}
	for _, gb := range g.EmbeddedGenesis.GenesisBlocks.Blocks {
		if gb.Address == a {
			for zts, v := range gb.BalanceList {
				add(zts, v, +1)
			}
		}
	}
	for _, b := range ref.chains[a] {
		switch {
		case b.IsSendBlock():
			add(b.TokenStandard, b.Amount, -1)
		case b.BlockType != nom.BlockTypeGenesisReceive:
			if s := ref.blockByHash[b.FromBlockHash]; s != nil {
				add(s.TokenStandard, s.Amount, +1)
			}
		}
	}
	return out
}

func c18BeforeTime(e *c18Env, chunk int) {
	const method = "ledger.getMomentumBeforeTime"
	ref := e.w.ref
	gts := int64(ref.moms[0].TimestampUnix)
	fts := int64(ref.moms[ref.frontier-1].TimestampUnix)
	var ts []int64
	if chunk == 0 {
		ts = []int64{math.MinInt64, -1 << 40, -1, 0, 1, gts - 1, gts, gts + 1, gts + 9, gts + 10, gts + 11, gts + 20, (gts + fts) / 2, fts - 10, fts - 1, fts, fts + 1, fts + 10,
			1 << 31, 1 << 32, 9223372036, 9223372037, 9223372036 + gts, 1 << 40, 1 << 53, 1 << 62, math.MaxInt64}
	} else {
		for i := 0; i < 200; i++ {
			switch e.r.Intn(4) {
			case 0:
				ts = append(ts, gts+e.r.Int63n(fts-gts+30)-10)
			case 1:
				ts = append(ts, int64(c18RandBits(e.r, 63)))
			case 2:
				ts = append(ts, -int64(c18RandBits(e.r, 63)))
			default:
				m := ref.moms[e.r.Intn(len(ref.moms))]
				ts = append(ts, int64(m.TimestampUnix)+int64(e.r.Intn(3))-1)
			}
		}
	}
	for _, t := range ts {
		// expected: the highest momentum whose timestamp is strictly before t
		var want *nom.Momentum
		lo, hi := 0, len(ref.moms) // first index with timestamp >= t
		for lo < hi {
			mid := (lo + hi) / 2
			if new(big.Int).SetUint64(ref.moms[mid].TimestampUnix).Cmp(big.NewInt(t)) >= 0 {
				hi = mid
			} else {
				lo = mid + 1
			}
		}
		if lo > 0 {
			want = ref.moms[lo-1]
		}
		type answer struct {
			m        *api.Momentum
			err      error
			panicked bool
		}
		done := make(chan answer, 1)
		go func() {
			var a answer
			a.panicked = e.guard(method, fmt.Sprint(t), func() { a.m, a.err = e.w.ledger.GetMomentumBeforeTime(t) })
			done <- a
		}()
		var a answer
		select {
		case a = <-done:
		case <-time.After(60 * time.Second):
			e.c.Inconclusive(fmt.Sprintf("%s(%d) did not return within 60 s", method, t))
			e.c.SetAdd("hangs", fmt.Sprintf("%s(%d)", method, t))
			return
		}
		if a.panicked {
			continue
		}
		e.c.Eval(1)
		cl := "inside"
		switch {
		case t <= gts:
			cl = "<=genesis"
		case t > fts && t <= math.MaxInt64/1000000000:
			cl = ">frontier"
		case t > math.MaxInt64/1000000000:
			cl = ">unixnano-range"
		}
		if t < math.MinInt64/1000000000 {
			cl = "<unixnano-range"
		}
		switch {
		case a.err != nil:
			e.violation("unexpected-error "+method+" "+cl, map[string]interface{}{"timestamp": fmt.Sprint(t), "error": a.err.Error()})
		case (want == nil) != (a.m == nil), want != nil && a.m.Hash != want.Hash:
			var gh interface{}
			if a.m != nil && a.m.Momentum != nil {
				gh = a.m.Height
			}
			var wh interface{}
			if want != nil {
				wh = want.Height
			}
			e.violation("wrong-momentum "+method+" timestamp "+cl, map[string]interface{}{"timestamp": fmt.Sprint(t), "got_height": gh, "want_height": wh, "genesis_ts": gts, "frontier_ts": fts})
		default:
			if a.m != nil {
				e.checkApiMomentum(method, a.m)
			}
		}
		e.c.Distinct(fmt.Sprintf("%s/%s/%v", method, cl, a.m != nil))
	}
}

// checkBlocks compares the elements of a returned list with the reference in depth: all of a short list,
// the ends and a sample of a long one (the identity of every element is judged by the caller; the content of
// every block of the chain is judged by the json cases).
func (e *c18Env) checkBlocks(method string, l []*api.AccountBlock) {
	n := 0
	for i, b := range l {
		if len(l) > 48 && i >= 8 && i < len(l)-8 && e.r.Intn(len(l)) >= 32 {
			continue
		}
		e.checkApiBlock(method, b, true)
		n++
	}
	e.c.Eval(n)
}

// ===========================================================================
// embedded API monitors

// ---------------------------------------------------------------------------
// generic monitor for "(pageIndex, pageSize) -> {count, list}" calls

type c18Page struct {
	ids   []string
	elems []interface{}
	count int64
	extra string // totals etc. that must be identical on every page
}

type c18Lister struct {
	method    string
	label     string // parameter class of the fixed arguments (address class, epoch class ...)
	fixed     interface{}
	limit     int
	call      func(idx, size uint32) (*c18Page, error)
	created   []string                    // identifiers the world builder knows must be listed (nil: unknown)
	wantCount int                         // total the list must have (-1: unknown)
	precedes  func(a, b interface{}) bool // documented order: a may come before b
	// errOK: an error for in-range parameters that is accepted for this lister (must be the only answer then)
	errOK func(err error) bool
	// audit: independent expectations about the content of the whole list (called once with the canonical walk)
	audit func(ids []string, elems []interface{})
}

// c18FineWalk: lists up to this length are also walked one element at a time; longer ones are probed with
// single-element pages at sampled positions.
const c18FineWalk = 256

func (e *c18Env) marshal(method string, v interface{}) (string, bool) {
	var out []byte
	var err error
	if e.guard(method+" (marshalling the result)", nil, func() { out, err = json.Marshal(v) }) {
		return "", false
	}
	if err != nil {
		e.violation("result-not-marshallable "+method, map[string]interface{}{"error": err.Error()})
		return "", false
	}
	return string(out), true
}

func (e *c18Env) runLister(l *c18Lister, chunk int) {
	method := l.method
	fixed := l.fixed
	// 1. canonical sequence through full pages of the limit size
	var seq []string
	var seqJSON []string
	var seqElems []interface{}
	var total int64 = -1
	extra := ""
	for page := uint32(0); page < 64; page++ {
		var p *c18Page
		var err error
		params := map[string]interface{}{"fixed": fixed, "pageIndex": page, "pageSize": l.limit}
		if e.guard(method, params, func() { p, err = l.call(page, uint32(l.limit)) }) {
			return
		}
		e.c.Eval(1)
		if err != nil {
			if l.errOK != nil && l.errOK(err) {
				e.c.Distinct(method + "/" + l.label + "/accepted-" + c18ErrClass(err))
				e.c.SetAdd("errors", method+": "+err.Error())
				return
			}
			e.violation("unexpected-error "+method, map[string]interface{}{"params": params, "error": err.Error()})
			return
		}
		if p == nil {
			e.violation("nil-result "+method, map[string]interface{}{"params": params})
			return
		}
		if len(p.ids) > l.limit {
			e.violation("limit-exceeded "+method, map[string]interface{}{"params": params, "returned": len(p.ids), "limit": l.limit})
			return
		}
		if total == -1 {
			total, extra = p.count, p.extra
		} else if p.count != total || p.extra != extra {
			e.violation("wrong-count "+method, map[string]interface{}{"params": params, "count": p.count, "count_on_first_page": total, "totals": p.extra, "totals_on_first_page": extra})
		}
		if len(p.ids) == 0 {
			break
		}
		seq = append(seq, p.ids...)
		seqElems = append(seqElems, p.elems...)
		for _, el := range p.elems {
			js, _ := e.marshal(method, el)
			seqJSON = append(seqJSON, js)
		}
		if len(p.ids) < l.limit {
			break
		}
	}
	// 1b. the same list one element per page: what a page holds must not depend on the page size
	fineComplete := false
	if len(seq) <= c18FineWalk && total <= c18FineWalk {
		var fine []string
		var fineElems []interface{}
		var fineJSON []string
		bound := len(seq) + 2
		if int(total)+2 > bound {
			bound = int(total) + 2
		}
		ok := true
		for page := 0; page < bound; page++ {
			var p *c18Page
			var err error
			params := map[string]interface{}{"fixed": fixed, "pageIndex": page, "pageSize": 1}
			if e.guard(method, params, func() { p, err = l.call(uint32(page), 1) }) {
				return
			}
			e.c.Eval(1)
			if err != nil || p == nil {
				e.violation("unexpected-error "+method, map[string]interface{}{"params": params, "error": fmt.Sprint(err)})
				ok = false
				break
			}
			if len(p.ids) > 1 {
				e.violation("page-size-exceeded "+method, map[string]interface{}{"params": params, "returned": len(p.ids)})
				ok = false
				break
			}
			if p.count != total || p.extra != extra {
				e.violation("wrong-count "+method, map[string]interface{}{"params": params, "count": p.count, "count_on_first_page": total, "totals": p.extra, "totals_on_first_page": extra})
			}
			if len(p.ids) == 0 {
				break
			}
			fine = append(fine, p.ids[0])
			fineElems = append(fineElems, p.elems[0])
			js, _ := e.marshal(method, p.elems[0])
			fineJSON = append(fineJSON, js)
		}
		if ok {
			fineComplete = true
			e.c.Count("walks_one_element_per_page", 1)
			diff := -1
			for i := 0; i < len(fine) || i < len(seq); i++ {
				if i >= len(fine) || i >= len(seq) || fine[i] != seq[i] {
					diff = i
					break
				}
			}
			if diff >= 0 {
				e.violation("page-size-dependent "+method, map[string]interface{}{
					"fixed": fixed, "what": "walking the list with page size 1 and with the limit as page size gives different lists",
					"elements_by_size_1": len(fine), "elements_by_full_pages": len(seq), "count": total, "first_difference_at": diff,
					"by_size_1": c18Head(fine, 16), "by_full_pages": c18Head(seq, 16),
				})
			} else {
				for i := range fine {
					if fineJSON[i] != seqJSON[i] {
						e.violation("element-mismatch "+method+" content-differs-between-pages", map[string]interface{}{"fixed": fixed, "identifier": fine[i], "by_size_1": fineJSON[i], "on_full_page": seqJSON[i]})
						break
					}
				}
			}
			// the finest walk is the reference for everything below
			seq, seqElems, seqJSON = fine, fineElems, fineJSON
		}
	} else {
		// long list: single-element pages at the ends and at sampled positions
		n := len(seq)
		probes := []int{0, 1, n / 2, n - 2, n - 1, n, n + 1, l.limit - 1, l.limit, l.limit + 1}
		for i := 0; i < 24; i++ {
			probes = append(probes, e.r.Intn(n+1))
		}
		for _, at := range probes {
			if at < 0 {
				continue
			}
			var p *c18Page
			var err error
			params := map[string]interface{}{"fixed": fixed, "pageIndex": at, "pageSize": 1}
			if e.guard(method, params, func() { p, err = l.call(uint32(at), 1) }) {
				return
			}
			e.c.Eval(1)
			if err != nil || p == nil {
				e.violation("unexpected-error "+method, map[string]interface{}{"params": params, "error": fmt.Sprint(err)})
				continue
			}
			var want []string
			if at < n {
				want = seq[at : at+1]
			}
			if len(p.ids) != len(want) || (len(want) == 1 && p.ids[0] != want[0]) {
				e.violation("page-size-dependent "+method, map[string]interface{}{
					"params": params, "what": "a single-element page differs from the same position of the list walked through full pages",
					"returned": p.ids, "expected": want,
				})
			}
		}
		e.c.Count("probes_one_element_per_page", len(probes))
	}
	universe := map[string]bool{}
	dup := ""
	for _, id := range seq {
		if universe[id] {
			dup = id
		}
		universe[id] = true
	}
	if dup != "" {
		e.violation("duplicate-elements "+method, map[string]interface{}{"fixed": fixed, "identifier": dup, "what": "walking the list through full pages yields an element twice"})
		return
	}
	for _, id := range l.created {
		if !universe[id] {
			e.violation("elements-missing "+method, map[string]interface{}{"fixed": fixed, "identifier": id, "what": "an object created on the chain is not in the list walked through full pages", "listed": len(seq)})
			return
		}
	}
	if l.wantCount >= 0 && len(seq) != l.wantCount {
		e.violation("wrong-total "+method, map[string]interface{}{"fixed": fixed, "listed": len(seq), "objects_on_chain": l.wantCount})
		return
	}
	if total != int64(len(seq)) {
		e.violation("wrong-count "+method, map[string]interface{}{"fixed": fixed, "count": total, "listed_through_full_pages": len(seq)})
	}
	if l.precedes != nil {
		for i := 1; i < len(seqElems); i++ {
			if !l.precedes(seqElems[i-1], seqElems[i]) {
				e.violation("wrong-order "+method, map[string]interface{}{"fixed": fixed, "position": i, "a": seqElems[i-1], "b": seqElems[i]})
				break
			}
		}
	}
	n := len(seq)
	pos := map[string]int{}
	for i, id := range seq {
		pos[id] = i
	}
	e.c.Distinct(fmt.Sprintf("%s/%s/canonical-n=%s", method, l.label, c18ParamClass(uint64(n), uint64(l.limit))))
	if l.audit != nil {
		l.audit(seq, seqElems)
	}

	// 2. the grid; a short list is also paged with every size up to its length and every index up to its end
	prs := e.pairs(chunk, c18Grid32(uint64(l.limit)), 32, n, uint64(l.limit), 110)
	if fineComplete && n >= 2 && n <= 24 && chunk == 0 {
		for size := 1; size <= n+1; size++ {
			for idx := 0; idx <= (n+size-1)/size; idx++ {
				prs = append(prs, [2]uint64{uint64(idx), uint64(size)})
			}
		}
		e.c.Count("short_lists_paged_exhaustively", 1)
	}
	for _, pr := range prs {
		idx, size := uint32(pr[0]), uint32(pr[1])
		params := map[string]interface{}{"fixed": fixed, "pageIndex": idx, "pageSize": size}
		var p *c18Page
		var err error
		if e.guard(method, params, func() { p, err = l.call(idx, size) }) {
			continue
		}
		e.c.Eval(1)
		pc := fmt.Sprintf("%s/i%s/s%s", l.label, c18ParamClass(uint64(idx), uint64(l.limit)), c18ParamClass(uint64(size), uint64(l.limit)))
		if err != nil {
			if int(size) <= l.limit {
				e.violation("unexpected-error "+method, map[string]interface{}{"params": params, "error": err.Error()})
			}
			e.c.Distinct(method + "/" + pc + "/" + c18ErrClass(err))
			e.c.SetAdd("errors", method+": "+err.Error())
			continue
		}
		if p == nil {
			e.violation("nil-result "+method, map[string]interface{}{"params": params})
			continue
		}
		overflow := ""
		if c18MulOverflows32(uint64(idx), uint64(size)) {
			overflow = "pageIndex*pageSize>=2^32"
		}
		s, t := c18Slice(uint64(idx), uint64(size), n)
		want := seq[s:t]
		oc := ""
		if int(size) > l.limit {
			// no refusal of an oversized page: the answer must still respect the limit and be a run of the list
			e.c.SetAdd("no_size_refusal", method)
			if len(p.ids) > l.limit {
				e.violation("limit-exceeded "+method, map[string]interface{}{"params": params, "returned": len(p.ids), "limit": l.limit})
				oc = "limit-exceeded"
			} else {
				oc = e.judge(c18ListVerdict{method: method, params: params, limit: l.limit, got: p.ids, want: want, universe: universe, overflow: overflow})
				oc = "oversized-" + oc
			}
		} else {
			oc = e.judge(c18ListVerdict{method: method, params: params, limit: l.limit, got: p.ids, want: want, universe: universe, overflow: overflow})
		}
		if p.count != total || p.extra != extra {
			e.violation("wrong-count "+method, map[string]interface{}{"params": params, "count": p.count, "list_length": n, "totals": p.extra, "totals_on_first_page": extra})
		}
		if oc == "partial" || oc == "full-page" {
			// same element content as on the canonical walk (sampled)
			for k := 0; k < len(p.ids) && k < 6; k++ {
				i := k * len(p.ids) / c18Min(len(p.ids), 6)
				js, ok := e.marshal(method, p.elems[i])
				if ok && js != seqJSON[pos[p.ids[i]]] {
					e.violation("element-mismatch "+method+" content-differs-between-pages", map[string]interface{}{"params": params, "identifier": p.ids[i], "got": js, "on_full_page": seqJSON[pos[p.ids[i]]]})
				}
			}
			e.c.Eval(len(p.ids))
		}
		e.c.Distinct(method + "/" + pc + "/" + oc)
	}
}

// ---------------------------------------------------------------------------

func c18RunEmbedded(e *c18Env, kind string, chunk int) {
	switch kind {
	case "token":
		c18EmbToken(e, chunk)
	case "stake":
		c18EmbStake(e, chunk)
	case "plasma":
		c18EmbPlasma(e, chunk)
	case "pillar":
		c18EmbPillar(e, chunk)
	case "sentinel":
		c18EmbSentinel(e, chunk)
	case "spork":
		c18EmbSpork(e, chunk)
	case "accelerator":
		c18EmbAccelerator(e, chunk)
	case "rewards":
		c18EmbRewards(e, chunk)
	case "bridge":
		c18EmbBridge(e, chunk)
	case "misc":
		c18EmbMisc(e, chunk)
	}
}

func (e *c18Env) ownerClasses() []c18Addr {
	return []c18Addr{
		{"user1", g.User1.Address}, {"user2", g.User2.Address}, {"user3", g.User3.Address}, {"user6", g.User6.Address},
		{"pillar", g.Pillar1.Address}, {"contract", types.PillarContract}, {"contract", types.StakeContract},
		{"unknown", e.randomAddress()}, {"zero", types.Address{}},
	}
}

// ---- token

func c18TokenPage(l *embedded.TokenList) *c18Page {
	if l == nil {
		return nil
	}
	p := &c18Page{count: int64(l.Count)}
	for _, t := range l.List {
		if t == nil {
			p.ids = append(p.ids, "<nil>")
		} else {
			p.ids = append(p.ids, t.ZenonTokenStandard.String())
		}
		p.elems = append(p.elems, t)
	}
	return p
}

func c18EmbToken(e *c18Env, chunk int) {
	w := e.w
	all := []string{types.ZnnTokenStandard.String(), types.QsrTokenStandard.String()}
	byOwner := map[types.Address][]string{
		types.PillarContract: {types.ZnnTokenStandard.String()},
		types.StakeContract:  {types.QsrTokenStandard.String()},
	}
	for owner, l := range w.tokensIssued {
		for _, z := range l {
			all = append(all, z.String())
			byOwner[owner] = append(byOwner[owner], z.String())
		}
	}
	e.runLister(&c18Lister{
		method: "embedded.token.getAll", label: "all", limit: int(c18Limit), created: all, wantCount: len(all),
		call: func(idx, size uint32) (*c18Page, error) {
			l, err := w.token.GetAll(idx, size)
			return c18TokenPage(l), err
		},
	}, chunk)
	// every listed token equals what the chain says (reference read through the definition codec)
	if l, err := w.token.GetAll(0, uint32(c18Limit)); err == nil && l != nil {
		for _, t := range l.List {
			if t != nil {
				e.checkToken("embedded.token.getAll", "list", t.ZenonTokenStandard, t)
			}
		}
	}
	for _, oc := range e.ownerClasses() {
		owner := oc.addr
		e.runLister(&c18Lister{
			method: "embedded.token.getByOwner", label: oc.class, fixed: owner.String(), limit: int(c18Limit), created: byOwner[owner], wantCount: len(byOwner[owner]),
			call: func(idx, size uint32) (*c18Page, error) {
				l, err := w.token.GetByOwner(owner, idx, size)
				return c18TokenPage(l), err
			},
		}, chunk)
	}
	// getByZts
	ztss := []types.ZenonTokenStandard{types.ZnnTokenStandard, types.QsrTokenStandard, types.ZeroTokenStandard}
	for _, l := range w.tokensIssued {
		ztss = append(ztss, l...)
	}
	var rz types.ZenonTokenStandard
	e.r.Read(rz[:])
	ztss = append(ztss, rz)
	for _, z := range ztss {
		const method = "embedded.token.getByZts"
		var t *api.Token
		var err error
		if e.guard(method, z.String(), func() { t, err = w.token.GetByZts(z) }) {
			continue
		}
		e.c.Eval(1)
		want := w.ref.tokens[z]
		switch {
		case err != nil:
			e.violation("unexpected-error "+method, map[string]interface{}{"zts": z.String(), "error": err.Error()})
		case (want == nil) != (t == nil):
			e.violation("wrong-answer "+method, map[string]interface{}{"zts": z.String(), "got": t, "want": want})
		default:
			if t != nil {
				e.checkToken(method, "single", z, t)
			}
			e.c.Distinct(fmt.Sprintf("%s/%v", method, t != nil))
		}
	}
}

// ---- stake

func c18EmbStake(e *c18Env, chunk int) {
	w := e.w
	// besides the usual owners: a staker that joined late and one whose only stake was cancelled mid-history
	owners := append(e.ownerClasses(), c18Addr{"late", g.User5.Address}, c18Addr{"ended", g.User4.Address})
	for _, oc := range owners {
		addr := oc.addr
		var created []string
		for _, h := range w.stakesMade[addr] {
			created = append(created, h.String())
		}
		e.runLister(&c18Lister{
			method: "embedded.stake.getEntriesByAddress", label: oc.class, fixed: addr.String(), limit: int(c18Limit), created: created, wantCount: len(created),
			call: func(idx, size uint32) (*c18Page, error) {
				l, err := w.stake.GetEntriesByAddress(addr, idx, size)
				if l == nil {
					return nil, err
				}
				p := &c18Page{count: int64(l.Count), extra: fmt.Sprintf("%v/%v", l.TotalAmount, l.TotalWeightedAmount)}
				for _, s := range l.Entries {
					if s == nil {
						p.ids = append(p.ids, "<nil>")
					} else {
						p.ids = append(p.ids, s.Id.String())
						if s.Address != addr {
							e.violation("element-mismatch embedded.stake.getEntriesByAddress owner", map[string]interface{}{"address": addr.String(), "entry": s})
						}
					}
					p.elems = append(p.elems, s)
				}
				return p, err
			},
			precedes: func(a, b interface{}) bool {
				x, y := a.(*embedded.StakeEntry), b.(*embedded.StakeEntry)
				return x.ExpirationTimestamp <= y.ExpirationTimestamp
			},
		}, chunk)
		// amounts: every stake entry carries the amount of the send block that created it
		if l, err := w.stake.GetEntriesByAddress(addr, 0, uint32(c18Limit)); err == nil && l != nil {
			for _, s := range l.Entries {
				if s == nil {
					continue
				}
				if b := w.ref.blockByHash[s.Id]; b == nil || b.Amount.Cmp(s.Amount) != 0 || b.Address != addr {
					e.violation("element-mismatch embedded.stake.getEntriesByAddress amount", map[string]interface{}{"entry": s, "creating_block": b})
				}
			}
		}
	}
}

// ---- plasma

func c18EmbPlasma(e *c18Env, chunk int) {
	w := e.w
	for _, oc := range e.ownerClasses() {
		addr := oc.addr
		var created []string
		for _, h := range w.fusionsMade[addr] {
			created = append(created, h.String())
		}
		// genesis entries are stored under (owner, id): the mock genesis has several entries with the zero id, one survives
		genesisIds := map[types.Hash]bool{}
		for _, f := range g.EmbeddedGenesis.PlasmaConfig.Fusions {
			if f.Owner == addr {
				genesisIds[f.Id] = true
			}
		}
		nGenesis := len(genesisIds)
		e.runLister(&c18Lister{
			method: "embedded.plasma.getEntriesByAddress", label: oc.class, fixed: addr.String(), limit: int(c18Limit), created: created, wantCount: -1,
			call: func(idx, size uint32) (*c18Page, error) {
				l, err := w.plasma.GetEntriesByAddress(addr, idx, size)
				if l == nil {
					return nil, err
				}
				p := &c18Page{count: int64(l.Count), extra: fmt.Sprint(l.QsrAmount)}
				for _, s := range l.Fusions {
					if s == nil {
						p.ids = append(p.ids, "<nil>")
					} else {
						// genesis entries share the zero id: identify by id + beneficiary
						p.ids = append(p.ids, s.Id.String())
						if s.Id.IsZero() {
							p.ids[len(p.ids)-1] = "genesis:" + s.Beneficiary.String()
						}
					}
					p.elems = append(p.elems, s)
				}
				return p, err
			},
			precedes: func(a, b interface{}) bool {
				x, y := a.(*embedded.FusionEntry), b.(*embedded.FusionEntry)
				return x.ExpirationHeight <= y.ExpirationHeight
			},
		}, chunk)
		if l, err := w.plasma.GetEntriesByAddress(addr, 0, uint32(c18Limit)); err == nil && l != nil {
			if l.Count != nGenesis+len(created) {
				e.violation("wrong-total embedded.plasma.getEntriesByAddress", map[string]interface{}{"address": addr.String(), "count": l.Count, "genesis_entries": nGenesis, "created": len(created)})
			}
			for _, s := range l.Fusions {
				if s == nil || s.Id.IsZero() {
					continue
				}
				if b := w.ref.blockByHash[s.Id]; b != nil && (b.Amount.Cmp(s.QsrAmount) != 0 || b.Address != addr) {
					e.violation("element-mismatch embedded.plasma.getEntriesByAddress amount", map[string]interface{}{"entry": s, "creating_block": b})
				}
			}
		}
		// plasma.get on every address class: no panic, max >= current
		const method = "embedded.plasma.get"
		var pi *embedded.PlasmaInfo
		var err error
		if !e.guard(method, addr.String(), func() { pi, err = w.plasma.Get(addr) }) {
			e.c.Eval(1)
			if err == nil && pi != nil {
				if pi.CurrentPlasma > pi.MaxPlasma {
					e.violation("wrong-answer "+method, map[string]interface{}{"address": addr.String(), "got": pi, "what": "current plasma above maximum"})
				}
				e.marshal(method, pi)
			}
			e.c.Distinct(fmt.Sprintf("%s/%s/%s", method, oc.class, c18ErrClass(err)))
		}
	}
}

// closedEpochs: number of reward epochs the contract has closed (its LastEpochUpdate record, read through the
// definition codec), 0 when it never updated.
func (e *c18Env) closedEpochs(contract types.Address) int64 {
	_, ctx, err := api.GetFrontierContext(e.w.n.Chain, contract)
	if err != nil {
		return 0
	}
	last, err := definition.GetLastEpochUpdate(ctx.Storage())
	if err != nil || last == nil {
		return 0
	}
	return last.LastEpoch + 1
}

// producedByEpoch counts the momentums of the reference chain by (epoch of the momentum's timestamp, producer
// address); the genesis momentum has no producer.
func (e *c18Env) producedByEpoch() map[uint64]map[types.Address]int {
	out := map[uint64]map[types.Address]int{}
	d := int64(consensus.EpochDuration / time.Second)
	for _, m := range e.w.ref.moms {
		if m.Height == 1 {
			continue
		}
		ep := uint64((m.Timestamp.Unix() - e.w.genesisTime) / d)
		if out[ep] == nil {
			out[ep] = map[types.Address]int{}
		}
		out[ep][m.Producer()]++
	}
	return out
}

// ---- pillar

func c18EmbPillar(e *c18Env, chunk int) {
	w := e.w
	names := []string{g.Pillar1Name, g.Pillar2Name, g.Pillar3Name}
	names = append(names, w.pillarsAdded...)
	e.runLister(&c18Lister{
		method: "embedded.pillar.getAll", label: "all", limit: int(c18Limit), created: names, wantCount: len(names),
		call: func(idx, size uint32) (*c18Page, error) {
			l, err := w.pillarApi.GetAll(idx, size)
			if l == nil {
				return nil, err
			}
			p := &c18Page{count: int64(l.Count)}
			for _, s := range l.List {
				if s == nil {
					p.ids = append(p.ids, "<nil>")
				} else {
					p.ids = append(p.ids, s.Name)
				}
				p.elems = append(p.elems, s)
			}
			return p, err
		},
		precedes: func(a, b interface{}) bool {
			x, y := a.(*embedded.PillarInfo), b.(*embedded.PillarInfo)
			c := x.Weight.Cmp(y.Weight)
			return (c > 0 || (c == 0 && x.Name < y.Name)) && x.Rank+1 == y.Rank
		},
	}, chunk)
	// single lookups and per-pillar histories: active pillars (genesis, early, late), revoked ones, unknown names
	taken := append(append([]string{}, names...), w.pillarsRevoked...)
	closed, produced := e.closedEpochs(types.PillarContract), e.producedByEpoch()
	byEpoch := map[uint64]map[string]string{} // epoch -> name -> JSON of the entry in getPillarsHistoryByEpoch
	for ep := uint64(0); int64(ep) < closed; ep++ {
		byEpoch[ep] = map[string]string{}
		if l, err := w.pillarApi.GetPillarsHistoryByEpoch(ep, 0, uint32(c18Limit)); err == nil && l != nil {
			for _, s := range l.List {
				if s != nil {
					byEpoch[ep][s.Name], _ = e.marshal("embedded.pillar.getPillarsHistoryByEpoch", s)
				}
			}
		}
	}
	producerOf := map[string]types.Address{g.Pillar1Name: g.Pillar1.Address, g.Pillar2Name: g.Pillar2.Address, g.Pillar3Name: g.Pillar3.Address}
	lifeOf := map[string]*c18Life{}
	for _, l := range w.lives {
		if l.kind == "pillar" {
			producerOf[l.name], lifeOf[l.name] = l.addr, l
		}
	}
	for _, nm := range append([]string{"", "no-such-pillar", "TEST-pillar-1\x00"}, taken...) {
		name := nm
		{
			const method = "embedded.pillar.getByName"
			var pi *embedded.PillarInfo
			var err error
			if !e.guard(method, name, func() { pi, err = w.pillarApi.GetByName(name) }) {
				e.c.Eval(1)
				known := false
				for _, k := range names {
					known = known || k == name
				}
				if err != nil || known != (pi != nil) || (pi != nil && pi.Name != name) {
					e.violation("wrong-answer "+method, map[string]interface{}{"name": name, "got": pi, "error": fmt.Sprint(err)})
				}
				e.c.Distinct(fmt.Sprintf("%s/%v", method, pi != nil))
			}
		}
		{
			const method = "embedded.pillar.checkNameAvailability"
			var free bool
			var err error
			if !e.guard(method, name, func() { free, err = w.pillarApi.CheckNameAvailability(name) }) {
				e.c.Eval(1)
				known := false
				for _, k := range names {
					known = known || k == name
				}
				for _, k := range w.pillarsRevoked {
					known = known || k == name // the name of a revoked pillar stays taken
				}
				if err != nil || free == known {
					e.violation("wrong-answer "+method, map[string]interface{}{"name": name, "available": free, "registered": known, "error": fmt.Sprint(err)})
				}
				e.c.Distinct(fmt.Sprintf("%s/%v", method, free))
			}
		}
		// epoch history of one pillar: one entry per closed epoch, newest first, whether or not the pillar existed then
		label, life := "unknown", lifeOf[name]
		switch {
		case life != nil:
			label = life.class
		case producerOf[name] != types.Address{}:
			label = "genesis"
		}
		e.c.SetAdd("pillar_history_lifetimes", label)
		var everyEpoch []string
		for ep := closed - 1; ep >= 0; ep-- {
			everyEpoch = append(everyEpoch, fmt.Sprintf("epoch-%d", ep))
		}
		e.runLister(&c18Lister{
			method: "embedded.pillar.getPillarEpochHistory", label: label, fixed: name, limit: int(c18Limit), created: everyEpoch, wantCount: int(closed),
			audit: func(ids []string, elems []interface{}) {
				const method = "embedded.pillar.getPillarEpochHistory"
				for _, el := range elems {
					h, _ := el.(*definition.PillarEpochHistory)
					if h == nil || int64(h.Epoch) >= closed {
						continue
					}
					e.c.Eval(1)
					// (1) momentums the chain holds from this pillar's producer address in that epoch
					want := 0
					if a, ok := producerOf[name]; ok {
						want = produced[h.Epoch][a]
					}
					if int(h.ProducedBlockNum) != want {
						e.violation("element-mismatch "+method+" produced-momentums", map[string]interface{}{"name": name, "lifetime": label, "entry": h, "momentums_of_the_producer_in_that_epoch": want})
					}
					if want > 0 {
						e.c.Count("pillar_history_entries_with_production", 1)
					} else {
						e.c.Count("pillar_history_entries_without_production", 1)
					}
					// (2) the same (epoch, name) as listed by getPillarsHistoryByEpoch; no entry there: all-zero entry here
					js, _ := e.marshal(method, h)
					if other, ok := byEpoch[h.Epoch][name]; ok {
						if js != other {
							e.violation("element-mismatch "+method+" differs-from-getPillarsHistoryByEpoch", map[string]interface{}{"name": name, "lifetime": label, "entry": js, "by_epoch": other})
						}
					} else if h.ProducedBlockNum != 0 || h.ExpectedBlockNum != 0 || (h.Weight != nil && h.Weight.Sign() != 0) || h.GiveBlockRewardPercentage != 0 || h.GiveDelegateRewardPercentage != 0 {
						e.violation("element-mismatch "+method+" entry-for-an-epoch-without-the-pillar", map[string]interface{}{"name": name, "lifetime": label, "entry": js})
					}
					// (3) lifetime: nothing before the pillar existed, nothing after it was gone
					if life != nil {
						from, to := w.epochSpan(h.Epoch)
						if _, listed := byEpoch[h.Epoch][name]; listed && (life.before(from, to) || life.after(from, to)) {
							e.violation("element-mismatch "+method+" entry-outside-lifetime", map[string]interface{}{"name": name, "lifetime": label, "entry": js, "registered_after": life.startLo, "gone_before": life.endHi, "epoch_from": from, "epoch_to": to})
						}
					}
				}
			},
			call: func(idx, size uint32) (*c18Page, error) {
				l, err := w.pillarApi.GetPillarEpochHistory(name, idx, size)
				if l == nil {
					return nil, err
				}
				p := &c18Page{count: l.Count}
				for _, s := range l.List {
					if s == nil {
						p.ids = append(p.ids, "<nil>")
					} else {
						p.ids = append(p.ids, fmt.Sprintf("epoch-%d", s.Epoch))
						if s.Name != name {
							e.violation("element-mismatch embedded.pillar.getPillarEpochHistory name", map[string]interface{}{"name": name, "entry": s})
						}
					}
					p.elems = append(p.elems, s)
				}
				return p, err
			},
			precedes: func(a, b interface{}) bool {
				return a.(*definition.PillarEpochHistory).Epoch == b.(*definition.PillarEpochHistory).Epoch+1
			},
		}, chunk)
	}
	owners := e.ownerClasses()
	owners = append(owners, c18Addr{"pillar4", g.Pillar4.Address}, c18Addr{"pillar-late", g.Pillar5.Address}, c18Addr{"pillar-revoked", g.Pillar6.Address})
	for _, oc := range owners {
		addr := oc.addr
		{
			const method = "embedded.pillar.getByOwner"
			var l []*embedded.PillarInfo
			var err error
			if !e.guard(method, addr.String(), func() { l, err = w.pillarApi.GetByOwner(addr) }) {
				e.c.Eval(1)
				want := 0
				for _, kp := range []types.Address{g.Pillar1.Address, g.Pillar2.Address, g.Pillar3.Address, g.Pillar4.Address, g.Pillar5.Address} {
					if kp == addr {
						want = 1
					}
				}
				if err != nil || len(l) != want || (want == 1 && l[0].StakeAddress != addr) {
					e.violation("wrong-answer "+method, map[string]interface{}{"address": addr.String(), "got": l, "error": fmt.Sprint(err)})
				}
				e.c.Distinct(fmt.Sprintf("%s/%d", method, len(l)))
			}
		}
		for _, a := range []types.Address{addr, g.User6.Address, g.User7.Address, g.User4.Address, g.User9.Address} {
			const method = "embedded.pillar.getDelegatedPillar"
			a := a
			var d *embedded.GetDelegatedPillarResponse
			var err error
			if !e.guard(method, a.String(), func() { d, err = w.pillarApi.GetDelegatedPillar(a) }) {
				e.c.Eval(1)
				want := w.delegations[a]
				for _, gd := range g.EmbeddedGenesis.PillarConfig.Delegations {
					if gd.Backer == a && want == "" {
						want = gd.Name
					}
				}
				got := ""
				if d != nil {
					got = d.Name
					e.marshal(method, d)
				}
				if err != nil || got != want {
					e.violation("wrong-answer "+method, map[string]interface{}{"address": a.String(), "got": got, "want": want, "error": fmt.Sprint(err)})
				}
				e.c.Distinct(fmt.Sprintf("%s/%v", method, d != nil))
			}
		}
		for _, m := range []struct {
			name string
			f    func() (interface{}, error)
		}{
			{"embedded.pillar.getDepositedQsr", func() (interface{}, error) { return w.pillarApi.GetDepositedQsr(addr) }},
			{"embedded.pillar.getUncollectedReward", func() (interface{}, error) { return w.pillarApi.GetUncollectedReward(addr) }},
			{"embedded.pillar.getQsrRegistrationCost", func() (interface{}, error) { return w.pillarApi.GetQsrRegistrationCost() }},
		} {
			var v interface{}
			var err error
			if !e.guard(m.name, addr.String(), func() { v, err = m.f() }) {
				e.c.Eval(1)
				if err == nil {
					e.marshal(m.name, v)
				}
				e.c.Distinct(fmt.Sprintf("%s/%s", m.name, c18ErrClass(err)))
			}
		}
	}
	// pillars by epoch
	_, ctx, err := api.GetFrontierContext(w.n.Chain, types.PillarContract)
	if err != nil {
		return
	}
	last, err := definition.GetLastEpochUpdate(ctx.Storage())
	if err != nil {
		return
	}
	var epochs []uint64
	for ep := int64(0); ep <= last.LastEpoch; ep++ {
		epochs = append(epochs, uint64(ep))
	}
	epochs = append(epochs, uint64(last.LastEpoch)+1, 1<<31, 1<<32, 1<<63, math.MaxUint64)
	for _, ep := range epochs {
		epoch := ep
		label := "past"
		if int64(epoch) > last.LastEpoch || epoch >= 1<<63 {
			label = "future"
		}
		want := -1
		if label == "future" {
			want = 0
		}
		// independent expectations: whoever produced a momentum in the epoch is listed; nobody is listed for an
		// epoch that was over before it registered or that began an epoch after it was revoked
		var mustList []string
		if label == "past" {
			for nm, a := range producerOf {
				if produced[epoch][a] > 0 {
					mustList = append(mustList, nm)
				}
			}
			sort.Strings(mustList)
		}
		e.runLister(&c18Lister{
			method: "embedded.pillar.getPillarsHistoryByEpoch", label: label, fixed: fmt.Sprint(epoch), limit: int(c18Limit), wantCount: want, created: mustList,
			audit: func(ids []string, elems []interface{}) {
				const method = "embedded.pillar.getPillarsHistoryByEpoch"
				from, to := w.epochSpan(epoch)
				for _, el := range elems {
					h, _ := el.(*definition.PillarEpochHistory)
					if h == nil {
						continue
					}
					e.c.Eval(1)
					a, known := producerOf[h.Name]
					if !known {
						e.violation("foreign-elements "+method, map[string]interface{}{"epoch": fmt.Sprint(epoch), "entry": h, "what": "no pillar of that name was ever registered"})
						continue
					}
					if int(h.ProducedBlockNum) != produced[epoch][a] {
						e.violation("element-mismatch "+method+" produced-momentums", map[string]interface{}{"epoch": fmt.Sprint(epoch), "entry": h, "momentums_of_the_producer_in_that_epoch": produced[epoch][a]})
					}
					if life := lifeOf[h.Name]; life != nil && (life.before(from, to) || life.after(from, to)) {
						e.violation("element-mismatch "+method+" entry-outside-lifetime", map[string]interface{}{"epoch": fmt.Sprint(epoch), "lifetime": life.class, "entry": h, "registered_after": life.startLo, "gone_before": life.endHi, "epoch_from": from, "epoch_to": to})
					}
				}
			},
			call: func(idx, size uint32) (*c18Page, error) {
				l, err := w.pillarApi.GetPillarsHistoryByEpoch(epoch, idx, size)
				if l == nil {
					return nil, err
				}
				p := &c18Page{count: l.Count}
				for _, s := range l.List {
					if s == nil {
						p.ids = append(p.ids, "<nil>")
					} else {
						p.ids = append(p.ids, s.Name)
						if s.Epoch != epoch {
							e.violation("element-mismatch embedded.pillar.getPillarsHistoryByEpoch epoch", map[string]interface{}{"epoch": fmt.Sprint(epoch), "entry": s})
						}
					}
					p.elems = append(p.elems, s)
				}
				return p, err
			},
		}, chunk)
	}
}

// ---- sentinel

func c18EmbSentinel(e *c18Env, chunk int) {
	w := e.w
	var created []string
	for _, a := range w.sentinelsAdded {
		created = append(created, a.String())
	}
	e.runLister(&c18Lister{
		method: "embedded.sentinel.getAllActive", label: "all", limit: int(c18Limit), created: created, wantCount: len(created),
		call: func(idx, size uint32) (*c18Page, error) {
			l, err := w.sentinel.GetAllActive(idx, size)
			if l == nil {
				return nil, err
			}
			p := &c18Page{count: int64(l.Count)}
			for _, s := range l.List {
				if s == nil {
					p.ids = append(p.ids, "<nil>")
				} else {
					p.ids = append(p.ids, s.Owner.String())
				}
				p.elems = append(p.elems, s)
			}
			return p, err
		},
	}, chunk)
	// besides the usual owners: a sentinel registered late and one revoked mid-history (its record stays, inactive)
	owners := append(e.ownerClasses(), c18Addr{"late", g.Pillar8.Address}, c18Addr{"revoked", g.Pillar7.Address})
	for _, oc := range owners {
		addr := oc.addr
		const method = "embedded.sentinel.getByOwner"
		var s *embedded.SentinelInfo
		var err error
		if !e.guard(method, addr.String(), func() { s, err = w.sentinel.GetByOwner(addr) }) {
			e.c.Eval(1)
			want, active := false, false
			for _, a := range w.sentinelsAdded {
				want = want || a == addr
				active = active || a == addr
			}
			for _, a := range w.sentinelsRevoked {
				want = want || a == addr
			}
			if err != nil || want != (s != nil) || (s != nil && (s.Owner != addr || s.Active != active)) {
				e.violation("wrong-answer "+method, map[string]interface{}{"address": addr.String(), "got": s, "registered": want, "active": active, "error": fmt.Sprint(err)})
			}
			e.c.Distinct(fmt.Sprintf("%s/%v/%v", method, s != nil, s != nil && s.Active))
		}
		for _, m := range []struct {
			name string
			f    func() (interface{}, error)
		}{
			{"embedded.sentinel.getDepositedQsr", func() (interface{}, error) { return w.sentinel.GetDepositedQsr(addr) }},
			{"embedded.sentinel.getUncollectedReward", func() (interface{}, error) { return w.sentinel.GetUncollectedReward(addr) }},
		} {
			var v interface{}
			var err error
			if !e.guard(m.name, addr.String(), func() { v, err = m.f() }) {
				e.c.Eval(1)
				if err == nil {
					e.marshal(m.name, v)
				}
				e.c.Distinct(fmt.Sprintf("%s/%s", m.name, c18ErrClass(err)))
			}
		}
	}
}

// ---- spork

func c18EmbSpork(e *c18Env, chunk int) {
	w := e.w
	var created []string
	for _, h := range w.sporksMade {
		created = append(created, h.String())
	}
	e.runLister(&c18Lister{
		method: "embedded.spork.getAll", label: "all", limit: int(c18Limit), created: created, wantCount: len(created),
		call: func(idx, size uint32) (*c18Page, error) {
			l, err := w.spork.GetAll(idx, size)
			if l == nil {
				return nil, err
			}
			p := &c18Page{count: int64(l.Count)}
			for _, s := range l.List {
				if s == nil {
					p.ids = append(p.ids, "<nil>")
				} else {
					p.ids = append(p.ids, s.Id.String())
					if !s.Activated || s.EnforcementHeight == 0 || s.EnforcementHeight > w.ref.frontier {
						e.violation("element-mismatch embedded.spork.getAll activation", map[string]interface{}{"spork": s})
					}
				}
				p.elems = append(p.elems, s)
			}
			return p, err
		},
	}, chunk)
}

// ---- accelerator

func c18EmbAccelerator(e *c18Env, chunk int) {
	w := e.w
	var created []string
	for _, h := range w.projectsMade {
		created = append(created, h.String())
	}
	e.runLister(&c18Lister{
		method: "embedded.accelerator.getAll", label: "all", limit: int(c18Limit), created: created, wantCount: len(created),
		call: func(idx, size uint32) (*c18Page, error) {
			l, err := w.accelerator.GetAll(idx, size)
			if l == nil {
				return nil, err
			}
			p := &c18Page{count: int64(l.Count)}
			for _, s := range l.List {
				if s == nil {
					p.ids = append(p.ids, "<nil>")
				} else {
					p.ids = append(p.ids, s.Id.String())
				}
				p.elems = append(p.elems, s)
			}
			return p, err
		},
		precedes: func(a, b interface{}) bool {
			return a.(*embedded.Project).LastUpdateTimestamp >= b.(*embedded.Project).LastUpdateTimestamp
		},
	}, chunk)
	ids := append([]types.Hash{}, w.projectsMade...)
	var rh types.Hash
	e.r.Read(rh[:])
	ids = append(ids, rh, types.Hash{})
	for _, h := range ids {
		id := h
		known := false
		for _, k := range w.projectsMade {
			known = known || k == id
		}
		{
			const method = "embedded.accelerator.getProjectById"
			var p *embedded.Project
			var err error
			if !e.guard(method, id.String(), func() { p, err = w.accelerator.GetProjectById(id) }) {
				e.c.Eval(1)
				if known && (err != nil || p == nil || p.Id != id) {
					e.violation("wrong-answer "+method, map[string]interface{}{"id": id.String(), "got": p, "error": fmt.Sprint(err)})
				}
				if !known && err == nil && p != nil {
					e.violation("wrong-answer "+method, map[string]interface{}{"id": id.String(), "got": p, "what": "a project for an identifier that does not exist"})
				}
				if p != nil {
					if b := w.ref.blockByHash[p.Id]; b == nil || b.Address != p.Owner {
						e.violation("element-mismatch "+method+" owner", map[string]interface{}{"project": p, "creating_block": b})
					}
					e.marshal(method, p)
				}
				e.c.Distinct(fmt.Sprintf("%s/%v/%s", method, known, c18ErrClass(err)))
			}
		}
		for _, m := range []struct {
			name string
			f    func() (interface{}, error)
		}{
			{"embedded.accelerator.getPhaseById", func() (interface{}, error) { return w.accelerator.GetPhaseById(id) }},
			{"embedded.accelerator.getVoteBreakdown", func() (interface{}, error) { return w.accelerator.GetVoteBreakdown(id) }},
			{"embedded.accelerator.getPillarVotes", func() (interface{}, error) {
				return w.accelerator.GetPillarVotes(g.Pillar1Name, []types.Hash{id, rh, {}})
			}},
			{"embedded.accelerator.getPillarVotes-nil", func() (interface{}, error) { return w.accelerator.GetPillarVotes("", nil) }},
		} {
			var v interface{}
			var err error
			if !e.guard(m.name, id.String(), func() { v, err = m.f() }) {
				e.c.Eval(1)
				if err == nil {
					e.marshal(m.name, v)
				}
				e.c.Distinct(fmt.Sprintf("%s/%v/%s", m.name, known, c18ErrClass(err)))
			}
		}
	}
	// the votes cast by the builder
	if vb, err := w.accelerator.GetVoteBreakdown(w.projectsMade[0]); err != nil || vb == nil || vb.Yes != 1 || vb.No != 1 || vb.Total != 2 {
		e.violation("wrong-answer embedded.accelerator.getVoteBreakdown", map[string]interface{}{"got": vb, "error": fmt.Sprint(err), "want": "1 yes, 1 no"})
	}
}

// ---- reward history pages (pillar, stake, sentinel, liquidity share one implementation)

func c18EmbRewards(e *c18Env, chunk int) {
	w := e.w
	type src struct {
		name     string
		contract types.Address
		call     func(a types.Address, idx, size uint32) (*embedded.RewardHistoryList, error)
	}
	srcs := []src{
		{"embedded.pillar.getFrontierRewardByPage", types.PillarContract, w.pillarApi.GetFrontierRewardByPage},
		{"embedded.stake.getFrontierRewardByPage", types.StakeContract, w.stake.GetFrontierRewardByPage},
		{"embedded.sentinel.getFrontierRewardByPage", types.SentinelContract, w.sentinel.GetFrontierRewardByPage},
		{"embedded.liquidity.getFrontierRewardByPage", types.LiquidityContract, w.liquidity.GetFrontierRewardByPage},
	}
	addrs := []c18Addr{{"user1", g.User1.Address}, {"pillar", g.Pillar1.Address}, {"unknown", e.randomAddress()}}
	produced := e.producedByEpoch()
	kindOf := map[types.Address]string{types.PillarContract: "pillar", types.StakeContract: "stake", types.SentinelContract: "sentinel"}
	for _, s := range srcs {
		s := s
		_, ctx, err := api.GetFrontierContext(w.n.Chain, s.contract)
		if err != nil {
			continue
		}
		want := -1
		neverUpdated := false
		if last, err := definition.GetLastEpochUpdate(ctx.Storage()); err == nil {
			want = int(last.LastEpoch + 1)
		} else {
			neverUpdated = true
		}
		// the objects of this contract with a known lifetime: present from the first epoch, late, ended early
		type subject struct {
			c18Addr
			life *c18Life
		}
		var subjects []subject
		for _, ac := range addrs {
			subjects = append(subjects, subject{ac, nil})
		}
		for _, l := range w.lives {
			if l.kind == kindOf[s.contract] || (l.kind == "delegator" && s.contract == types.PillarContract) {
				subjects = append(subjects, subject{c18Addr{l.kind + "-" + l.class, l.addr}, l})
			}
		}
		for _, sj := range subjects {
			addr, life, class := sj.addr, sj.life, sj.class
			var everyEpoch []string
			for ep := want - 1; ep >= 0; ep-- {
				everyEpoch = append(everyEpoch, fmt.Sprintf("epoch-%d", ep))
			}
			e.c.SetAdd("reward_history_subjects", s.name[len("embedded."):]+" "+class)
			e.runLister(&c18Lister{
				method: s.name, label: class, fixed: addr.String(), limit: int(c18Limit), wantCount: want, created: everyEpoch,
				call: func(idx, size uint32) (*c18Page, error) {
					l, err := s.call(addr, idx, size)
					if l == nil {
						return nil, err
					}
					p := &c18Page{count: l.Count}
					for _, r := range l.List {
						if r == nil {
							p.ids = append(p.ids, "<nil>")
						} else {
							p.ids = append(p.ids, fmt.Sprintf("epoch-%d", r.Epoch))
						}
						p.elems = append(p.elems, r)
					}
					return p, err
				},
				precedes: func(a, b interface{}) bool {
					return a.(*embedded.RewardHistoryEntry).Epoch == b.(*embedded.RewardHistoryEntry).Epoch+1
				},
				errOK: func(err error) bool { return neverUpdated },
				// rewards against the lifetime: none for an epoch that was over before the object existed or that
				// began an epoch after it was gone (and never for an address unknown to the chain); some for an
				// epoch the object lived through entirely (a pillar: if it produced a momentum in it)
				audit: func(ids []string, elems []interface{}) {
					for _, el := range elems {
						r, _ := el.(*embedded.RewardHistoryEntry)
						if r == nil || r.Epoch < 0 || r.Znn == nil || r.Qsr == nil {
							continue
						}
						e.c.Eval(1)
						from, to := w.epochSpan(uint64(r.Epoch))
						some := r.Znn.Sign() != 0 || r.Qsr.Sign() != 0
						switch {
						case class == "unknown" || (life != nil && (life.before(from, to) || life.after(from, to))):
							if some {
								e.violation("element-mismatch "+s.name+" reward-outside-lifetime", map[string]interface{}{"address": addr.String(), "subject": class, "entry": r, "life": fmt.Sprintf("%+v", life), "epoch_from": from, "epoch_to": to})
							}
							e.c.Count("reward_entries_outside_lifetime", 1)
						case life != nil && life.within(from, to):
							earns := true
							if life.kind == "pillar" {
								earns = produced[uint64(r.Epoch)][life.addr] > 0
							}
							if life.kind == "delegator" {
								earns = false // depends on balances and on the pillar's shares: not judged
							}
							if earns && !some {
								e.violation("element-mismatch "+s.name+" no-reward-inside-lifetime", map[string]interface{}{"address": addr.String(), "subject": class, "entry": r, "life": fmt.Sprintf("%+v", life), "epoch_from": from, "epoch_to": to})
							}
							if earns {
								e.c.Count("reward_entries_inside_lifetime", 1)
							}
						}
					}
				},
			}, chunk)
		}
	}
}

// ---- the rest: single-object calls of swap, htlc, plasma, bridge, liquidity (no panic, marshallable, identity)

func c18EmbMisc(e *c18Env, chunk int) {
	w := e.w
	var rh types.Hash
	e.r.Read(rh[:])
	addr := e.ownerClasses()[e.r.Intn(len(e.ownerClasses()))].addr
	hashes := append([]types.Hash{rh, {}}, w.htlcsMade...)
	hashes = append(hashes, w.projectsMade[0], w.ref.moms[0].Hash)
	type call struct {
		name string
		f    func() (interface{}, error)
	}
	var calls []call
	for _, hh := range hashes {
		h := hh
		calls = append(calls,
			call{"embedded.htlc.getById", func() (interface{}, error) {
				v, err := w.htlc.GetById(h)
				if err == nil && v != nil && v.Id != h {
					e.violation("wrong-answer embedded.htlc.getById", map[string]interface{}{"id": h.String(), "got": v})
				}
				known := false
				for _, k := range w.htlcsMade {
					known = known || k == h
				}
				if known != (err == nil && v != nil) {
					e.violation("wrong-answer embedded.htlc.getById", map[string]interface{}{"id": h.String(), "created_on_chain": known, "got": v, "error": fmt.Sprint(err)})
				}
				return v, err
			}},
			call{"embedded.swap.getAssetsByKeyIdHash", func() (interface{}, error) { return w.swap.GetAssetsByKeyIdHash(h) }},
			call{"embedded.bridge.getWrapTokenRequestById", func() (interface{}, error) { return w.bridge.GetWrapTokenRequestById(h) }},
			call{"embedded.bridge.getUnwrapTokenRequestByHashAndLog", func() (interface{}, error) {
				return w.bridge.GetUnwrapTokenRequestByHashAndLog(h, uint32(c18RandBits(e.r, 32)))
			}},
		)
	}
	for _, oc := range e.ownerClasses() {
		a := oc.addr
		calls = append(calls,
			call{"embedded.htlc.getProxyUnlockStatus", func() (interface{}, error) { return w.htlc.GetProxyUnlockStatus(a) }},
			call{"embedded.stake.getUncollectedReward", func() (interface{}, error) { return w.stake.GetUncollectedReward(a) }},
			call{"embedded.liquidity.getUncollectedReward", func() (interface{}, error) { return w.liquidity.GetUncollectedReward(a) }},
		)
		for _, bt := range []uint64{0, 1, 2, 3, 4, 5, 6, 1 << 63} {
			bt := bt
			for _, to := range []*types.Address{nil, &addr, &types.TokenContract, &types.PlasmaContract} {
				to := to
				calls = append(calls, call{"embedded.plasma.getRequiredPoWForAccountBlock", func() (interface{}, error) {
					data := make([]byte, e.r.Intn(40))
					e.r.Read(data)
					return w.plasma.GetRequiredPoWForAccountBlock(embedded.GetRequiredParam{SelfAddr: a, BlockType: bt, ToAddr: to, Data: data})
				}})
			}
		}
	}
	calls = append(calls,
		call{"embedded.swap.getAssets", func() (interface{}, error) { return w.swap.GetAssets() }},
		call{"embedded.swap.getLegacyPillars", func() (interface{}, error) { return w.swap.GetLegacyPillars() }},
		call{"embedded.bridge.getBridgeInfo", func() (interface{}, error) { return w.bridge.GetBridgeInfo() }},
		call{"embedded.bridge.getSecurityInfo", func() (interface{}, error) { return w.bridge.GetSecurityInfo() }},
		call{"embedded.bridge.getOrchestratorInfo", func() (interface{}, error) { return w.bridge.GetOrchestratorInfo() }},
		call{"embedded.bridge.getTimeChallengesInfo", func() (interface{}, error) { return w.bridge.GetTimeChallengesInfo() }},
		call{"embedded.bridge.getFeeTokenPair", func() (interface{}, error) { return w.bridge.GetFeeTokenPair(types.ZnnTokenStandard) }},
		call{"embedded.liquidity.getLiquidityInfo", func() (interface{}, error) { return w.liquidity.GetLiquidityInfo() }},
		call{"embedded.liquidity.getSecurityInfo", func() (interface{}, error) { return w.liquidity.GetSecurityInfo() }},
		call{"embedded.liquidity.getTimeChallengesInfo", func() (interface{}, error) { return w.liquidity.GetTimeChallengesInfo() }},
	)
	for _, v := range c18Grid32(c18Limit) {
		nc, ci := uint32(v), uint32(c18RandBits(e.r, 32))
		calls = append(calls, call{"embedded.bridge.getNetworkInfo", func() (interface{}, error) { return w.bridge.GetNetworkInfo(nc, ci) }})
	}
	for _, cl := range calls {
		var v interface{}
		var err error
		if !e.guard(cl.name, nil, func() { v, err = cl.f() }) {
			e.c.Eval(1)
			if err == nil {
				e.marshal(cl.name, v)
			} else {
				e.c.SetAdd("errors", cl.name+": "+err.Error())
			}
			e.c.Distinct(fmt.Sprintf("%s/%s", cl.name, c18ErrClass(err)))
		}
	}

}

// ---- bridge and liquidity lists

func c18HashIDs(l []types.Hash) []string {
	out := make([]string, 0, len(l))
	for _, h := range l {
		out = append(out, h.String())
	}
	return out
}

func c18EmbBridge(e *c18Env, chunk int) {
	w := e.w
	addr := e.ownerClasses()[e.r.Intn(len(e.ownerClasses()))].addr
	wrapPage := func(l *embedded.WrapTokenRequestList) *c18Page {
		if l == nil {
			return nil
		}
		p := &c18Page{count: int64(l.Count)}
		for _, s := range l.List {
			if s == nil || s.WrapTokenRequest == nil {
				p.ids = append(p.ids, "<nil>")
			} else {
				p.ids = append(p.ids, s.Id.String())
				if b := w.ref.blockByHash[s.Id]; b == nil || b.Amount.Cmp(s.Amount) != 0 || b.TokenStandard != s.TokenStandard || s.TokenInfo == nil {
					e.violation("element-mismatch embedded.bridge wrap-request", map[string]interface{}{"request": s, "creating_block": b})
				}
			}
			p.elems = append(p.elems, s)
		}
		return p
	}
	unwrapPage := func(l *embedded.UnwrapTokenRequestList) *c18Page {
		if l == nil {
			return nil
		}
		p := &c18Page{count: int64(l.Count)}
		for _, s := range l.List {
			if s == nil || s.UnwrapTokenRequest == nil {
				p.ids = append(p.ids, "<nil>")
			} else {
				p.ids = append(p.ids, fmt.Sprintf("%v/%d", s.TransactionHash, s.LogIndex))
			}
			p.elems = append(p.elems, s)
		}
		return p
	}
	allWraps := c18HashIDs(w.wrapsMade)
	nets := []string{"2/123", "2/31337"}
	if !w.bridgeReady {
		nets = nil
	}
	listers := []*c18Lister{
		{method: "embedded.bridge.getAllNetworks", label: "all", limit: int(c18Limit), created: nets, wantCount: len(nets), call: func(idx, size uint32) (*c18Page, error) {
			l, err := w.bridge.GetAllNetworks(idx, size)
			if l == nil {
				return nil, err
			}
			p := &c18Page{count: int64(l.Count)}
			for _, s := range l.List {
				p.ids = append(p.ids, fmt.Sprintf("%d/%d", s.NetworkClass, s.Id))
				p.elems = append(p.elems, s)
			}
			return p, err
		}},
		{method: "embedded.bridge.getAllWrapTokenRequests", label: "all", limit: int(c18Limit), created: allWraps, wantCount: len(allWraps), call: func(idx, size uint32) (*c18Page, error) {
			l, err := w.bridge.GetAllWrapTokenRequests(idx, size)
			return wrapPage(l), err
		}},
		{method: "embedded.bridge.getAllWrapTokenRequestsByToAddress", label: "any", fixed: "", limit: int(c18Limit), created: allWraps, wantCount: len(allWraps), call: func(idx, size uint32) (*c18Page, error) {
			l, err := w.bridge.GetAllWrapTokenRequestsByToAddress("", idx, size)
			return wrapPage(l), err
		}},
		{method: "embedded.bridge.getAllWrapTokenRequestsByToAddressNetworkClassAndChainId", label: "any", fixed: "2/123", limit: int(c18Limit), created: allWraps, wantCount: len(allWraps), call: func(idx, size uint32) (*c18Page, error) {
			l, err := w.bridge.GetAllWrapTokenRequestsByToAddressNetworkClassAndChainId("", 2, 123, idx, size)
			return wrapPage(l), err
		}},
		{method: "embedded.bridge.getAllWrapTokenRequestsByToAddressNetworkClassAndChainId", label: "other-network", fixed: "2/31337", limit: int(c18Limit), wantCount: 0, call: func(idx, size uint32) (*c18Page, error) {
			l, err := w.bridge.GetAllWrapTokenRequestsByToAddressNetworkClassAndChainId("", 2, 31337, idx, size)
			return wrapPage(l), err
		}},
		{method: "embedded.bridge.getAllUnsignedWrapTokenRequests", label: "all", limit: int(c18Limit), created: allWraps, wantCount: len(allWraps), call: func(idx, size uint32) (*c18Page, error) {
			l, err := w.bridge.GetAllUnsignedWrapTokenRequests(idx, size)
			return wrapPage(l), err
		}},
		{method: "embedded.bridge.getAllUnwrapTokenRequests", label: "all", limit: int(c18Limit), created: w.unwrapsMade, wantCount: len(w.unwrapsMade), call: func(idx, size uint32) (*c18Page, error) {
			l, err := w.bridge.GetAllUnwrapTokenRequests(idx, size)
			return unwrapPage(l), err
		}},
		{method: "embedded.liquidity.getLiquidityStakeEntriesByAddress", label: "addr", fixed: addr.String(), limit: int(c18Limit), wantCount: 0, call: func(idx, size uint32) (*c18Page, error) {
			l, err := w.liquidity.GetLiquidityStakeEntriesByAddress(addr, idx, size)
			if l == nil {
				return nil, err
			}
			p := &c18Page{count: int64(l.Count), extra: fmt.Sprintf("%v/%v", l.TotalAmount, l.TotalWeightedAmount)}
			for _, s := range l.Entries {
				p.ids = append(p.ids, s.Id.String())
				p.elems = append(p.elems, s)
			}
			return p, err
		}},
	}
	tos := []string{"0xb794f5ea0ba39494ce839613fffba74279579260", "0xb794f5ea0ba39494ce839613fffba74279579261", "0xB794F5EA0BA39494CE839613FFFBA74279579262", "0xb794f5ea0ba39494ce839613fffba74279500003", "0x0", "nobody", "\x00"}
	for _, t := range tos {
		to := t
		created := c18HashIDs(w.wrapsByTo[to])
		label := "known"
		if len(created) == 0 {
			label = "unknown"
		}
		listers = append(listers,
			&c18Lister{method: "embedded.bridge.getAllWrapTokenRequestsByToAddress", label: label, fixed: to, limit: int(c18Limit), created: created, wantCount: len(created), call: func(idx, size uint32) (*c18Page, error) {
				l, err := w.bridge.GetAllWrapTokenRequestsByToAddress(to, idx, size)
				return wrapPage(l), err
			}},
			&c18Lister{method: "embedded.bridge.getAllWrapTokenRequestsByToAddressNetworkClassAndChainId", label: label, fixed: to + " 2/123", limit: int(c18Limit), created: created, wantCount: len(created), call: func(idx, size uint32) (*c18Page, error) {
				l, err := w.bridge.GetAllWrapTokenRequestsByToAddressNetworkClassAndChainId(to, 2, 123, idx, size)
				return wrapPage(l), err
			}})
	}
	for _, a := range []types.Address{g.User2.Address, g.User4.Address, addr} {
		to := a
		listers = append(listers, &c18Lister{method: "embedded.bridge.getAllUnwrapTokenRequestsByToAddress", label: fmt.Sprintf("n=%d", c18Min(len(w.unwrapsByTo[to]), 1)), fixed: to.String(), limit: int(c18Limit),
			created: w.unwrapsByTo[to], wantCount: len(w.unwrapsByTo[to]), call: func(idx, size uint32) (*c18Page, error) {
				l, err := w.bridge.GetAllUnwrapTokenRequestsByToAddress(to.String(), idx, size)
				return unwrapPage(l), err
			}})
	}
	listers = append(listers, &c18Lister{method: "embedded.bridge.getAllUnwrapTokenRequestsByToAddress", label: "malformed-address", fixed: "zz", limit: int(c18Limit), wantCount: -1,
		errOK: func(error) bool { return true },
		call: func(idx, size uint32) (*c18Page, error) {
			l, err := w.bridge.GetAllUnwrapTokenRequestsByToAddress("zz", idx, size)
			return unwrapPage(l), err
		}})
	for _, l := range listers {
		e.runLister(l, chunk)
	}
	// single requests
	for i, h := range w.wrapsMade {
		if i%97 != 0 && i > 3 {
			continue
		}
		id := h
		const method = "embedded.bridge.getWrapTokenRequestById"
		var r *embedded.WrapTokenRequest
		var err error
		if !e.guard(method, id.String(), func() { r, err = w.bridge.GetWrapTokenRequestById(id) }) {
			e.c.Eval(1)
			if err != nil || r == nil || r.WrapTokenRequest == nil || r.Id != id {
				e.violation("wrong-answer "+method, map[string]interface{}{"id": id.String(), "got": r, "error": fmt.Sprint(err)})
			} else {
				e.marshal(method, r)
			}
			e.c.Distinct(method + "/known")
		}
	}
	for _, k := range w.unwrapsMade {
		var th types.Hash
		var li uint32
		var hs string
		if n, _ := fmt.Sscanf(strings.Replace(k, "/", " ", 1), "%s %d", &hs, &li); n != 2 {
			continue
		}
		th = types.HexToHashPanic(hs)
		const method = "embedded.bridge.getUnwrapTokenRequestByHashAndLog"
		var r *embedded.UnwrapTokenRequest
		var err error
		if !e.guard(method, k, func() { r, err = w.bridge.GetUnwrapTokenRequestByHashAndLog(th, li) }) {
			e.c.Eval(1)
			if err != nil || r == nil || r.UnwrapTokenRequest == nil || r.TransactionHash != th || r.LogIndex != li {
				e.violation("wrong-answer "+method, map[string]interface{}{"id": k, "got": r, "error": fmt.Sprint(err)})
			} else {
				e.marshal(method, r)
			}
			e.c.Distinct(method + "/known")
		}
	}
}

// ===========================================================================
// JSON round trips

// ---------------------------------------------------------------------------
// JSON round trip of every block and momentum of the chain

// c18JSONForms checks the documented JSON forms on the generic decoding of a block: amounts as decimal strings,
// hashes as 64 hex digits, nonce as 16 hex digits.
func c18JSONForms(m map[string]interface{}) string {
	if s, ok := m["amount"].(string); !ok || s == "" {
		return "amount is not a JSON string"
	} else {
		for _, ch := range s {
			if ch < '0' || ch > '9' {
				return "amount is not a decimal string"
			}
		}
	}
	for _, k := range []string{"hash", "previousHash", "fromBlockHash", "changesHash"} {
		if s, ok := m[k].(string); !ok || len(s) != 64 {
			return k + " is not a 64 digit hex string"
		}
	}
	if s, ok := m["nonce"].(string); !ok || len(s) != 16 {
		return "nonce is not a 16 digit hex string"
	}
	for _, k := range []string{"height", "version", "chainIdentifier", "blockType", "fusedPlasma", "difficulty"} {
		if _, ok := m[k].(json.Number); !ok {
			return k + " is not a JSON number"
		}
	}
	return ""
}

func c18RunJSON(e *c18Env, k, n int) {
	ref := e.w.ref
	w := e.w
	// account blocks: the k-th slice of all blocks ordered by hash
	var hashes []types.Hash
	for h := range ref.blockByHash {
		hashes = append(hashes, h)
	}
	sort.Slice(hashes, func(i, j int) bool { return bytes.Compare(hashes[i][:], hashes[j][:]) < 0 })
	for i, h := range hashes {
		if i%n != k {
			continue
		}
		rb := ref.blockByHash[h]
		where := fmt.Sprintf("%v/%d", rb.Address, rb.Height)
		// the API form of the block (as a client receives it)
		var ab *api.AccountBlock
		var err error
		if e.guard("ledger.getAccountBlocksByHeight", where, func() {
			var l *api.AccountBlockList
			l, err = w.ledger.GetAccountBlocksByHeight(rb.Address, rb.Height, 1)
			if err == nil && l != nil && len(l.List) == 1 {
				ab = l.List[0]
			}
		}) || ab == nil {
			if err != nil || ab == nil {
				e.violation("unexpected-error ledger.getAccountBlocksByHeight", map[string]interface{}{"where": where, "error": fmt.Sprint(err)})
			}
			continue
		}
		var js []byte
		if e.guard("json.Marshal(api.AccountBlock)", where, func() { js, err = json.Marshal(ab) }) {
			continue
		}
		e.c.Eval(1)
		if err != nil {
			e.violation("json-roundtrip account-block marshal-error", map[string]interface{}{"where": where, "error": err.Error()})
			continue
		}
		dec := json.NewDecoder(bytes.NewReader(js))
		dec.UseNumber()
		var generic map[string]interface{}
		if err := dec.Decode(&generic); err != nil {
			e.violation("json-roundtrip account-block not-an-object", map[string]interface{}{"where": where, "error": err.Error()})
			continue
		}
		if why := c18JSONForms(generic); why != "" {
			e.violation("json-roundtrip account-block json-form", map[string]interface{}{"where": where, "why": why, "json": c18Short(js, 500)})
		}
		back := new(api.AccountBlock)
		if e.guard("json.Unmarshal(api.AccountBlock)", where, func() { err = json.Unmarshal(js, back) }) {
			continue
		}
		if err != nil {
			e.violation("json-roundtrip account-block unmarshal-error", map[string]interface{}{"where": where, "error": err.Error(), "json": c18Short(js, 500)})
			continue
		}
		// the conversion PublishRawTransaction applies
		var lb *nom.AccountBlock
		if e.guard("api.AccountBlock.ToLedgerBlock", where, func() { lb, err = back.ToLedgerBlock() }) {
			continue
		}
		if err != nil || lb == nil {
			e.violation("json-roundtrip account-block to-ledger-block-error", map[string]interface{}{"where": where, "error": fmt.Sprint(err)})
			continue
		}
		if !c18SameBlock(lb, rb) {
			e.violation("json-roundtrip account-block fields-differ", map[string]interface{}{"where": where, "got": lb, "want": rb})
		}
		if lb.ComputeHash() != rb.Hash || c18BlockHash(lb) != rb.Hash {
			e.violation("json-roundtrip account-block hash-differs", map[string]interface{}{"where": where, "recomputed": lb.ComputeHash().String(), "own": c18BlockHash(lb).String(), "want": rb.Hash.String()})
		}
		if ch, err := back.ComputeHash(); err != nil || ch == nil || *ch != rb.Hash {
			e.violation("json-roundtrip account-block hash-differs", map[string]interface{}{"where": where, "what": "api.AccountBlock.ComputeHash after the round trip"})
		}
		// extras survive as well
		if (back.ConfirmationDetail == nil) != (ab.ConfirmationDetail == nil) || (back.ConfirmationDetail != nil && *back.ConfirmationDetail != *ab.ConfirmationDetail) ||
			(back.PairedAccountBlock == nil) != (ab.PairedAccountBlock == nil) || (back.PairedAccountBlock != nil && back.PairedAccountBlock.Hash != ab.PairedAccountBlock.Hash) ||
			(back.TokenInfo == nil) != (ab.TokenInfo == nil) || (back.TokenInfo != nil && (back.TokenInfo.ZenonTokenStandard != ab.TokenInfo.ZenonTokenStandard || !c18BigEq(back.TokenInfo.TotalSupply, ab.TokenInfo.TotalSupply) || !c18BigEq(back.TokenInfo.MaxSupply, ab.TokenInfo.MaxSupply))) {
			e.violation("json-roundtrip account-block extras-differ", map[string]interface{}{"where": where, "json": c18Short(js, 800)})
		}
		// second generation: marshal(back) == marshal(original)
		js2, err := json.Marshal(back)
		if err != nil || !bytes.Equal(js, js2) {
			e.violation("json-roundtrip account-block not-idempotent", map[string]interface{}{"where": where, "first": c18Short(js, 400), "second": c18Short(js2, 400)})
		}
		// the bare ledger form
		njs, err := json.Marshal(rb)
		nb := new(nom.AccountBlock)
		if err != nil || json.Unmarshal(njs, nb) != nil || !c18SameBlock(nb, rb) || nb.ComputeHash() != rb.Hash {
			e.violation("json-roundtrip nom-account-block", map[string]interface{}{"where": where, "json": c18Short(njs, 500)})
		}
		e.c.Eval(2)
		cls := fmt.Sprintf("type%d/desc=%v/data=%v/paired=%v/token=%v/confirmed=%v", rb.BlockType, len(rb.DescendantBlocks) > 0, len(rb.Data) > 0, ab.PairedAccountBlock != nil, ab.TokenInfo != nil, ab.ConfirmationDetail != nil)
		e.c.Distinct("json/block/" + cls)
		// feeding the block back through the publishing entry point must not panic and must not be accepted twice
		if i%(n*16) == k {
			before := w.z.published
			e.guard("ledger.publishRawTransaction", where, func() { err = w.ledger.PublishRawTransaction(back) })
			if w.z.published != before {
				// a not yet confirmed block may be offered again (the account pool arbitrates between unconfirmed
				// variants); a confirmed one must be refused before it reaches the broadcaster
				e.c.Count("republished_blocks_passed_on", 1)
				if _, conf := ref.confHeight[rb.Hash]; conf {
					e.violation("confirmed-block-accepted-again ledger.publishRawTransaction", map[string]interface{}{"where": where})
				}
			}
			e.c.SetAdd("errors", "ledger.publishRawTransaction(existing block): "+fmt.Sprint(err))
			e.c.Eval(1)
		}
	}
	if k == 2 {
		c18OtherResultTypes(e)
	}
	// lists keep their shape
	if k == 0 {
		for _, a := range ref.addrs {
			l, err := w.ledger.GetAccountBlocksByPage(a, 0, 30)
			if err != nil || l == nil {
				continue
			}
			js, err := json.Marshal(l)
			back := new(api.AccountBlockList)
			if err != nil || json.Unmarshal(js, back) != nil || back.Count != l.Count || back.More != l.More || len(back.List) != len(l.List) {
				e.violation("json-roundtrip account-block-list", map[string]interface{}{"address": a.String(), "json": c18Short(js, 400)})
				continue
			}
			for i := range l.List {
				if !c18SameBlock(&back.List[i].AccountBlock, &l.List[i].AccountBlock) {
					e.violation("json-roundtrip account-block-list", map[string]interface{}{"address": a.String(), "position": i})
					break
				}
			}
			e.c.Eval(1)
			e.c.Distinct(fmt.Sprintf("json/block-list/n=%d", c18Min(len(l.List), 3)))
		}
	}
	// momentums
	for i, rm := range ref.moms {
		if i%n != k {
			continue
		}
		var am *api.Momentum
		var err error
		if e.guard("ledger.getMomentumByHash", rm.Height, func() { am, err = w.ledger.GetMomentumByHash(rm.Hash) }) || am == nil || err != nil {
			continue
		}
		js, err := json.Marshal(am)
		if err != nil {
			e.violation("json-roundtrip momentum marshal-error", map[string]interface{}{"height": rm.Height, "error": err.Error()})
			continue
		}
		back := new(api.Momentum)
		if e.guard("json.Unmarshal(api.Momentum)", rm.Height, func() { err = json.Unmarshal(js, back) }) {
			continue
		}
		e.c.Eval(1)
		if err != nil || back.Momentum == nil {
			e.violation("json-roundtrip momentum unmarshal-error", map[string]interface{}{"height": rm.Height, "error": fmt.Sprint(err), "json": c18Short(js, 500)})
			continue
		}
		x, _ := back.Momentum.Serialize()
		y, _ := rm.Serialize()
		if !bytes.Equal(x, y) || back.Producer != am.Producer {
			e.violation("json-roundtrip momentum fields-differ", map[string]interface{}{"height": rm.Height, "got": back, "want": rm})
		}
		if back.Momentum.ComputeHash() != rm.Hash || c18MomentumHash(back.Momentum) != rm.Hash {
			e.violation("json-roundtrip momentum hash-differs", map[string]interface{}{"height": rm.Height})
		}
		e.c.Distinct(fmt.Sprintf("json/momentum/content=%d/data=%v", c18Min(len(rm.Content), 3), len(rm.Data) > 0))
	}
	// detailed momentums (blocks inside momentums)
	if k == 1 {
		for h := uint64(1); h <= ref.frontier; h += 97 {
			l, err := w.ledger.GetDetailedMomentumsByHeight(h, 3)
			if err != nil || l == nil {
				continue
			}
			js, err := json.Marshal(l)
			back := new(api.DetailedMomentumList)
			if err != nil || json.Unmarshal(js, back) != nil || len(back.List) != len(l.List) || back.Count != l.Count {
				e.violation("json-roundtrip detailed-momentum-list", map[string]interface{}{"height": h, "error": fmt.Sprint(err), "json": c18Short(js, 400)})
				continue
			}
			for i, d := range l.List {
				bd := back.List[i]
				ok := bd != nil && bd.Momentum != nil && bd.Momentum.Momentum != nil && bd.Momentum.Hash == d.Momentum.Hash && len(bd.AccountBlocks) == len(d.AccountBlocks)
				if ok {
					for j := range d.AccountBlocks {
						ok = ok && c18SameBlock(&bd.AccountBlocks[j].AccountBlock, &d.AccountBlocks[j].AccountBlock)
					}
				}
				if !ok {
					e.violation("json-roundtrip detailed-momentum-list", map[string]interface{}{"height": h, "position": i})
					break
				}
			}
			e.c.Eval(1)
		}
	}
}

// c18OtherResultTypes: the statement only speaks about blocks; for the other result types of the embedded APIs the
// round trip is noted in the evidence (set "other_result_types_json_roundtrip"), never judged.
func c18OtherResultTypes(e *c18Env) {
	w := e.w
	u1 := w.ref.addrs[0]
	for _, a := range w.ref.addrs {
		if len(w.stakesMade[a]) > 0 && len(w.fusionsMade[a]) > 0 {
			u1 = a
		}
	}
	results := map[string]func() (interface{}, error){
		"embedded.TokenList":              func() (interface{}, error) { return w.token.GetAll(0, 5) },
		"embedded.StakeList":              func() (interface{}, error) { return w.stake.GetEntriesByAddress(u1, 0, 5) },
		"embedded.FusionEntryList":        func() (interface{}, error) { return w.plasma.GetEntriesByAddress(u1, 0, 5) },
		"embedded.PlasmaInfo":             func() (interface{}, error) { return w.plasma.Get(u1) },
		"embedded.PillarInfoList":         func() (interface{}, error) { return w.pillarApi.GetAll(0, 5) },
		"embedded.SentinelInfoList":       func() (interface{}, error) { return w.sentinel.GetAllActive(0, 5) },
		"embedded.SporkList":              func() (interface{}, error) { return w.spork.GetAll(0, 5) },
		"embedded.ProjectList":            func() (interface{}, error) { return w.accelerator.GetAll(0, 5) },
		"embedded.Project":                func() (interface{}, error) { return w.accelerator.GetProjectById(w.projectsMade[0]) },
		"embedded.RewardHistoryList":      func() (interface{}, error) { return w.stake.GetFrontierRewardByPage(u1, 0, 5) },
		"embedded.WrapTokenRequestList":   func() (interface{}, error) { return w.bridge.GetAllWrapTokenRequests(0, 5) },
		"embedded.UnwrapTokenRequestList": func() (interface{}, error) { return w.bridge.GetAllUnwrapTokenRequests(0, 5) },
		"embedded.NetworkInfoList":        func() (interface{}, error) { return w.bridge.GetAllNetworks(0, 5) },
		"api.AccountInfo":                 func() (interface{}, error) { return w.ledger.GetAccountInfoByAddress(u1) },
		"definition.RewardDeposit":        func() (interface{}, error) { return w.stake.GetUncollectedReward(u1) },
		"embedded.SwapAssets":             func() (interface{}, error) { return w.swap.GetAssets() },
	}
	for name, f := range results {
		outcome := "same"
		func() {
			defer func() {
				if r := recover(); r != nil {
					outcome = fmt.Sprintf("panic: %v", r)
				}
			}()
			v, err := f()
			if err != nil || v == nil || reflect.ValueOf(v).Kind() != reflect.Ptr {
				outcome = "not exercised"
				return
			}
			js, err := json.Marshal(v)
			if err != nil {
				outcome = "marshal error: " + err.Error()
				return
			}
			nv := reflect.New(reflect.TypeOf(v).Elem()).Interface()
			if err := json.Unmarshal(js, nv); err != nil {
				outcome = "unmarshal error: " + err.Error()
				return
			}
			js2, err := json.Marshal(nv)
			if err != nil || !bytes.Equal(js, js2) {
				outcome = "differs after the round trip"
			}
		}()
		e.c.SetAdd("other_result_types_json_roundtrip", name+": "+outcome)
	}
}

// ===========================================================================
// raw server fuzz (HTTP handler stack, pipe codec), subscriptions

var c18FuzzClasses = []string{"malformed", "types", "params", "grid", "numbers", "nesting", "size", "batch", "methods", "notify", "transport", "publish"}

const c18HTTPBodyLimit = 5 * 1024 * 1024 // rpc/server/http.go maxRequestContentLength

// ---------------------------------------------------------------------------
// the server under test: the node's public API set on rpc/server, behind the node's HTTP handler stack

type c18Server struct {
	srv      *rpc.Server
	handler  http.Handler
	sub      *subscribe.Server
	services map[string]interface{} // namespace -> my own API object (for the independent dispatcher)
	err      string
}

var (
	c18srvOnce sync.Once
	c18srv     *c18Server
)

func c18GetServer(w *c18World) *c18Server {
	c18srvOnce.Do(func() {
		s := &c18Server{}
		defer func() {
			if r := recover(); r != nil {
				s.err = fmt.Sprintf("server setup panicked: %v", r)
			}
			c18srv = s
		}()
		s.sub = subscribe.GetSubscribeServer(w.n.Chain)
		if err := s.sub.Init(); err != nil {
			s.err = err.Error()
			return
		}
		if err := s.sub.Start(); err != nil {
			s.err = err.Error()
			return
		}
		s.srv = rpc.NewServer()
		for _, a := range zrpc.GetPublicApis(w.z, nil) {
			if err := s.srv.RegisterName(a.Namespace, a.Service); err != nil {
				s.err = err.Error()
				return
			}
		}
		s.handler = node.NewHTTPHandlerStack(s.srv, []string{"*"}, []string{"localhost"})
		s.services = map[string]interface{}{
			"ledger": w.ledger, "embedded.token": w.token, "embedded.stake": w.stake, "embedded.plasma": w.plasma,
			"embedded.sentinel": w.sentinel, "embedded.spork": w.spork, "embedded.accelerator": w.accelerator, "embedded.htlc": w.htlc,
			"embedded.swap": w.swap, "embedded.bridge": w.bridge, "embedded.liquidity": w.liquidity,
		}
	})
	return c18srv
}

// ---------------------------------------------------------------------------
// requests

type c18Req struct {
	sub  string // subclass label
	body []byte

	// what a correct server must do
	wantResponse bool     // a JSON-RPC response must come back
	wantError    bool     // ... and it must be an error response
	wantID       string   // raw JSON id the response must carry ("" = not judged)
	wantN        int      // batch: number of responses (-1 = not judged)
	diff         *c18Call // when set: the result must equal what the independent dispatcher computes

	// HTTP only
	httpMethod  string
	contentType string
	headers     map[string]string
	host        string
	query       string
	lieLength   int64 // != 0: Content-Length to claim
	wantStatus  []int // allowed statuses (nil: 200)
	noResults   bool  // the request exceeds the size limit as a whole: no call in it may be executed (no success response)
}

type c18Call struct {
	method string
	params []interface{}
}

func (c *c18Call) json(id string) []byte {
	p, _ := json.Marshal(c.params)
	if c.params == nil {
		p = []byte("[]")
	}
	return []byte(fmt.Sprintf(`{"jsonrpc":"2.0","id":%s,"method":%q,"params":%s}`, id, c.method, p))
}

// catalogue of real methods with valid arguments
func (e *c18Env) validCall() *c18Call {
	ref := e.w.ref
	r := e.r
	addrs := []types.Address{g.User1.Address, g.User2.Address, g.User7.Address, g.User10.Address, types.TokenContract, e.randomAddress()}
	a := addrs[r.Intn(len(addrs))].String()
	idx := []uint64{0, 0, 1, 2, 3, 1 << 22, 1<<32 - 1}[r.Intn(7)]
	size := []uint64{0, 1, 2, 5, 10, 50, 1024, 1025, 1<<32 - 1}[r.Intn(9)]
	ch := ref.chains[g.User1.Address]
	bh := ch[r.Intn(len(ch))].Hash.String()
	mh := ref.moms[r.Intn(len(ref.moms))].Hash.String()
	height := []uint64{0, 1, 2, uint64(r.Intn(1200)), 1 << 40}[r.Intn(5)]
	count := []uint64{0, 1, 3, 10, 1025}[r.Intn(5)]
	cat := []*c18Call{
		{"ledger.getFrontierMomentum", nil},
		{"ledger.getAccountBlocksByPage", []interface{}{a, idx, size}},
		{"ledger.getAccountBlocksByHeight", []interface{}{a, height, count}},
		{"ledger.getMomentumsByPage", []interface{}{idx, size % 40}},
		{"ledger.getMomentumsByHeight", []interface{}{height, count}},
		{"ledger.getDetailedMomentumsByHeight", []interface{}{height, count % 4}},
		{"ledger.getAccountBlockByHash", []interface{}{bh}},
		{"ledger.getAccountBlockByHash", []interface{}{mh}},
		{"ledger.getMomentumByHash", []interface{}{mh}},
		{"ledger.getAccountInfoByAddress", []interface{}{a}},
		{"ledger.getFrontierAccountBlock", []interface{}{a}},
		{"ledger.getUnreceivedBlocksByAddress", []interface{}{a, idx % 12, size % 52}},
		{"ledger.getUnconfirmedBlocksByAddress", []interface{}{a, idx, size}},
		{"ledger.getMomentumBeforeTime", []interface{}{1000000000 + int64(r.Intn(12000))}},
		{"embedded.token.getAll", []interface{}{idx, size}},
		{"embedded.token.getByOwner", []interface{}{a, idx, size}},
		{"embedded.token.getByZts", []interface{}{types.ZnnTokenStandard.String()}},
		{"embedded.stake.getEntriesByAddress", []interface{}{a, idx, size}},
		{"embedded.plasma.get", []interface{}{a}},
		{"embedded.plasma.getEntriesByAddress", []interface{}{a, idx, size}},
		{"embedded.plasma.getRequiredPoWForAccountBlock", []interface{}{map[string]interface{}{"address": a, "blockType": 2, "toAddress": g.User2.Address.String(), "data": base64.StdEncoding.EncodeToString([]byte("abc"))}}},
		{"embedded.accelerator.getAll", []interface{}{idx, size}},
		{"embedded.accelerator.getProjectById", []interface{}{e.w.projectsMade[0].String()}},
		{"embedded.accelerator.getPillarVotes", []interface{}{g.Pillar1Name, []interface{}{e.w.projectsMade[0].String(), mh}}},
		{"embedded.spork.getAll", []interface{}{idx, size}},
		{"embedded.sentinel.getAllActive", []interface{}{idx, size}},
		{"embedded.sentinel.getByOwner", []interface{}{a}},
		{"embedded.swap.getAssets", nil},
		{"embedded.swap.getLegacyPillars", nil},
		{"embedded.htlc.getById", []interface{}{e.w.htlcsMade[0].String()}},
		{"embedded.bridge.getAllWrapTokenRequests", []interface{}{idx, size}},
		{"embedded.bridge.getNetworkInfo", []interface{}{2, 123}},
		{"embedded.bridge.getBridgeInfo", nil},
		{"embedded.liquidity.getLiquidityInfo", nil},
		{"embedded.stake.getFrontierRewardByPage", []interface{}{a, idx, size}},
	}
	return cat[r.Intn(len(cat))]
}

// dispatch is the independent dispatcher: it calls my own API object by reflection and marshals the answer.
func (e *c18Env) dispatch(s *c18Server, c *c18Call) (result string, errMsg string, ok bool) {
	dot := strings.LastIndex(c.method, ".")
	svc := s.services[c.method[:dot]]
	if svc == nil {
		return "", "", false
	}
	name := []rune(c.method[dot+1:])
	name[0] = unicode.ToUpper(name[0])
	m := reflect.ValueOf(svc).MethodByName(string(name))
	if !m.IsValid() || m.Type().NumIn() != len(c.params) {
		return "", "", false
	}
	args := make([]reflect.Value, len(c.params))
	for i, p := range c.params {
		raw, _ := json.Marshal(p)
		v := reflect.New(m.Type().In(i))
		if err := json.Unmarshal(raw, v.Interface()); err != nil {
			return "", "", false
		}
		args[i] = v.Elem()
	}
	defer func() {
		if r := recover(); r != nil {
			ok = false
		}
	}()
	out := m.Call(args)
	if last := out[len(out)-1]; !last.IsNil() {
		return "", last.Interface().(error).Error(), true
	}
	js, err := json.Marshal(out[0].Interface())
	if err != nil {
		return "", "", false
	}
	return string(js), "", true
}

// ---------------------------------------------------------------------------
// hostile request generators (one request per call, chosen by e.r)

func (e *c18Env) randBytes(n int) []byte {
	b := make([]byte, n)
	e.r.Read(b)
	return b
}

func (e *c18Env) honestBody(id int) ([]byte, *c18Call) {
	var c *c18Call
	switch id % 3 {
	case 0:
		c = &c18Call{"ledger.getFrontierMomentum", nil}
	case 1:
		c = &c18Call{"ledger.getAccountBlocksByPage", []interface{}{g.User1.Address.String(), 0, 2}}
	default:
		c = &c18Call{"embedded.token.getAll", []interface{}{0, 10}}
	}
	return c.json(fmt.Sprintf(`"honest-%d"`, id)), c
}

func (e *c18Env) genMalformed() *c18Req {
	r := e.r
	valid := e.validCall().json(`7`)
	switch r.Intn(12) {
	case 0:
		return &c18Req{sub: "empty-body", body: nil}
	case 1:
		return &c18Req{sub: "whitespace", body: []byte(strings.Repeat(" \n\t", r.Intn(50)))}
	case 2:
		return &c18Req{sub: "random-bytes", body: e.randBytes(1 + r.Intn(300))}
	case 3:
		return &c18Req{sub: "truncated", body: valid[:r.Intn(len(valid))]}
	case 4:
		b := append([]byte{}, valid...)
		for k := 0; k < 1+r.Intn(4); k++ {
			b[r.Intn(len(b))] ^= byte(1 << uint(r.Intn(8)))
		}
		return &c18Req{sub: "bit-flips", body: b}
	case 5:
		b := append([]byte{}, valid...)
		i := r.Intn(len(b))
		b = append(b[:i], append(e.randBytes(1+r.Intn(8)), b[i:]...)...)
		return &c18Req{sub: "inserted-bytes", body: b}
	case 6:
		return &c18Req{sub: "scalar", body: []byte([]string{"null", "true", "false", "0", "-1", "1e9", `"str"`, `""`, "1.5"}[r.Intn(9)]), wantResponse: true, wantError: true}
	case 7:
		return &c18Req{sub: "unbalanced", body: []byte([]string{"{", "[", "}", "]", "{]", "[}", `{"a":`, `{"jsonrpc":"2.0","id":1,"method":"ledger.getFrontierMomentum","params":[}`, `[{"id":1},`, `{"id":1,,}`}[r.Intn(10)])}
	case 8:
		return &c18Req{sub: "nul-and-invalid-utf8", body: []byte("{\"jsonrpc\":\"2.0\",\"id\":1,\"method\":\"ledger.get\x00Frontier\xff\xfeMomentum\",\"params\":[]}"), wantResponse: true, wantError: true}
	case 9:
		return &c18Req{sub: "two-values", body: append(append([]byte{}, valid...), valid...), wantResponse: true}
	case 10:
		return &c18Req{sub: "trailing-garbage", body: append(append([]byte{}, valid...), []byte("}}}]]garbage")...), wantResponse: true}
	default:
		return &c18Req{sub: "bom-or-comment", body: append([]byte([]string{"\xef\xbb\xbf", "//c\n", "/*c*/", "\x00"}[r.Intn(4)]), valid...)}
	}
}

func (e *c18Env) genTypes() *c18Req {
	r := e.r
	ids := []string{`{}`, `[]`, `[1]`, `{"a":1}`, `true`, `null`, `1.5`, `-7`, `1e300`, `123456789012345678901234567890`, `"` + strings.Repeat("i", 1+r.Intn(5000)) + `"`, `""`, `"\u0000"`}
	methods := []string{`1`, `null`, `[]`, `{}`, `true`, `""`, `"ledger"`, `"."`, `".."`, `"ledger."`, `".getFrontierMomentum"`}
	params := []string{`{}`, `{"a":1}`, `"x"`, `1`, `true`, `null`, `[[]]`, `[{}]`, `[null]`, `[[[[1]]]]`}
	versions := []string{`2`, `"1.0"`, `null`, `"2.00"`, `[]`}
	switch r.Intn(9) {
	case 0:
		id := ids[r.Intn(len(ids))]
		return &c18Req{sub: "odd-id", body: []byte(fmt.Sprintf(`{"jsonrpc":"2.0","id":%s,"method":"ledger.getFrontierMomentum","params":[]}`, id))}
	case 1:
		return &c18Req{sub: "odd-method", body: []byte(fmt.Sprintf(`{"jsonrpc":"2.0","id":3,"method":%s,"params":[]}`, methods[r.Intn(len(methods))]))}
	case 2:
		return &c18Req{sub: "odd-params", body: []byte(fmt.Sprintf(`{"jsonrpc":"2.0","id":3,"method":"ledger.getAccountBlocksByPage","params":%s}`, params[r.Intn(len(params))])), wantResponse: true, wantError: true, wantID: "3"}
	case 3:
		return &c18Req{sub: "odd-version", body: []byte(fmt.Sprintf(`{"jsonrpc":%s,"id":3,"method":"ledger.getFrontierMomentum","params":[]}`, versions[r.Intn(len(versions))]))}
	case 4:
		return &c18Req{sub: "missing-fields", body: []byte([]string{`{}`, `{"id":1}`, `{"jsonrpc":"2.0"}`, `{"params":[]}`, `{"id":1,"params":[]}`, `{"method":"ledger.getFrontierMomentum"}`, `{"id":1,"method":"ledger.getFrontierMomentum"}`}[r.Intn(7)])}
	case 5:
		return &c18Req{sub: "extra-fields", body: []byte(`{"jsonrpc":"2.0","id":4,"method":"ledger.getFrontierMomentum","params":[],"result":1,"error":{"code":1,"message":"x"},"extra":{"a":[1,2,3]}}`)}
	case 6:
		return &c18Req{sub: "duplicate-keys", body: []byte(`{"jsonrpc":"2.0","id":4,"id":5,"method":"x.y","method":"ledger.getFrontierMomentum","params":[1],"params":[]}`), wantResponse: true, wantID: "5"}
	case 7:
		return &c18Req{sub: "error-field-odd", body: []byte([]string{`{"id":1,"error":5}`, `{"id":1,"error":"x"}`, `{"id":1,"error":{"code":"a"}}`, `{"id":1,"error":[]}`, `{"id":1,"result":null,"error":null}`}[r.Intn(5)])}
	default:
		return &c18Req{sub: "case-variants", body: []byte(`{"JSONRPC":"2.0","ID":9,"Method":"ledger.getFrontierMomentum","PARAMS":[]}`)}
	}
}

func (e *c18Env) genParams() *c18Req {
	r := e.r
	c := e.validCall()
	id := fmt.Sprint(1 + r.Intn(1000))
	switch r.Intn(10) {
	case 0, 1, 2: // valid: differential against the independent dispatcher
		return &c18Req{sub: "valid", body: c.json(id), wantResponse: true, wantID: id, diff: c}
	case 3:
		if len(c.params) == 0 {
			return &c18Req{sub: "valid", body: c.json(id), wantResponse: true, wantID: id, diff: c}
		}
		d := &c18Call{c.method, c.params[:r.Intn(len(c.params))]}
		return &c18Req{sub: "missing-param", body: d.json(id), wantResponse: true, wantError: true, wantID: id}
	case 4:
		d := &c18Call{c.method, append(append([]interface{}{}, c.params...), []interface{}{1, "x", nil, []int{1}}[r.Intn(4)])}
		return &c18Req{sub: "extra-param", body: d.json(id), wantResponse: true, wantError: true, wantID: id}
	case 5:
		if len(c.params) == 0 {
			return &c18Req{sub: "valid", body: c.json(id), wantResponse: true, wantID: id, diff: c}
		}
		d := &c18Call{c.method, append([]interface{}{}, c.params...)}
		i := r.Intn(len(d.params))
		var wrong interface{}
		switch d.params[i].(type) {
		case string:
			wrong = []interface{}{1, true, []int{1}, map[string]int{"a": 1}, 1.5}[r.Intn(5)]
		default:
			wrong = []interface{}{"12", true, []int{1}, map[string]int{"a": 1}, 1.5, "0x10"}[r.Intn(6)]
		}
		if _, isMap := d.params[i].(map[string]interface{}); isMap {
			wrong = []interface{}{"x", 5, []int{1}}[r.Intn(3)]
		}
		if _, isList := d.params[i].([]interface{}); isList {
			wrong = []interface{}{"x", 5, map[string]int{"a": 1}}[r.Intn(3)]
		}
		d.params[i] = wrong
		return &c18Req{sub: "wrong-type", body: d.json(id), wantResponse: true, wantError: true, wantID: id}
	case 6: // malformed address / hash strings
		bad := []string{"", "z1", "z1qzal6c5s9rjnnxd2z7dvdhjxpmmj4fmw56a0mq", "z1qzal6c5s9rjnnxd2z7dvdhjxpmmj4fmw56A0mz", "zz" + g.User1.Address.String(), g.User1.Address.String() + "0",
			strings.Repeat("z", 5000), "00", strings.Repeat("0", 63), strings.Repeat("0", 65), strings.Repeat("g", 64), "0x" + strings.Repeat("0", 64), " " + strings.Repeat("0", 64)}
		m := []string{"ledger.getAccountInfoByAddress", "ledger.getAccountBlockByHash", "ledger.getMomentumByHash", "embedded.plasma.get", "embedded.token.getByZts", "embedded.htlc.getById"}[r.Intn(6)]
		d := &c18Call{m, []interface{}{bad[r.Intn(len(bad))]}}
		return &c18Req{sub: "bad-address-or-hash", body: d.json(id), wantResponse: true, wantError: true, wantID: id}
	case 7: // null arguments
		d := &c18Call{c.method, make([]interface{}, len(c.params))}
		return &c18Req{sub: "null-params", body: d.json(id), wantResponse: true, wantID: id}
	case 8: // integers outside the parameter type
		lits := []string{"4294967296", "18446744073709551616", "-1", "1e3", "1.0", "340282366920938463463374607431768211456", "9223372036854775808", "-9223372036854775809"}
		lit := lits[r.Intn(len(lits))]
		m := []string{"ledger.getMomentumsByPage", "embedded.token.getAll", "embedded.spork.getAll", "embedded.accelerator.getAll"}[r.Intn(4)]
		body := fmt.Sprintf(`{"jsonrpc":"2.0","id":%s,"method":%q,"params":[%s,%s]}`, id, m, lit, lit)
		return &c18Req{sub: "integer-out-of-type", body: []byte(body), wantResponse: true, wantError: true, wantID: id}
	default: // params as null / absent for a method that needs arguments
		body := fmt.Sprintf(`{"jsonrpc":"2.0","id":%s,"method":"ledger.getAccountBlocksByPage"%s}`, id, []string{"", `,"params":null`, `,"params":[]`}[r.Intn(3)])
		return &c18Req{sub: "no-params", body: []byte(body), wantResponse: true, wantError: true, wantID: id}
	}
}

func (e *c18Env) genNumbers() *c18Req {
	r := e.r
	lits := []string{"1e400", "-1e400", "1e-400", "-0", "0.0", "1E+2", "1e2", "00", "01", "+1", ".5", "5.", "0x10", "1_000", "NaN", "Infinity", "-Infinity",
		"4294967295", "4294967296", "18446744073709551615", "18446744073709551616", "9223372036854775807", "9223372036854775808", "-9223372036854775808",
		strings.Repeat("9", 400), "1" + strings.Repeat("0", 5000), "0." + strings.Repeat("0", 5000) + "1", "1e18446744073709551616", "\"123\"", "1.0000000000000000000001"}
	a, b := lits[r.Intn(len(lits))], lits[r.Intn(len(lits))]
	switch r.Intn(5) {
	case 0:
		return &c18Req{sub: "page-args", body: []byte(fmt.Sprintf(`{"jsonrpc":"2.0","id":1,"method":"ledger.getMomentumsByPage","params":[%s,%s]}`, a, b))}
	case 1:
		return &c18Req{sub: "height-args", body: []byte(fmt.Sprintf(`{"jsonrpc":"2.0","id":1,"method":"ledger.getMomentumsByHeight","params":[%s,%s]}`, a, b))}
	case 2:
		return &c18Req{sub: "time-arg", body: []byte(fmt.Sprintf(`{"jsonrpc":"2.0","id":1,"method":"ledger.getMomentumBeforeTime","params":[%s]}`, a))}
	case 3:
		return &c18Req{sub: "id-number", body: []byte(fmt.Sprintf(`{"jsonrpc":"2.0","id":%s,"method":"ledger.getFrontierMomentum","params":[]}`, a))}
	default:
		return &c18Req{sub: "struct-field", body: []byte(fmt.Sprintf(`{"jsonrpc":"2.0","id":1,"method":"embedded.plasma.getRequiredPoWForAccountBlock","params":[{"address":%q,"blockType":%s,"toAddress":%q,"data":""}]}`, g.User1.Address.String(), a, g.User2.Address.String()))}
	}
}

func (e *c18Env) genNesting() *c18Req {
	r := e.r
	depth := []int{100, 1000, 9999, 10000, 10001, 100000, 500000}[r.Intn(7)]
	open, close := "[", "]"
	if r.Intn(3) == 0 {
		open, close = `{"a":`, "}"
	}
	nest := strings.Repeat(open, depth) + "1" + strings.Repeat(close, depth)
	switch r.Intn(6) {
	case 0:
		return &c18Req{sub: fmt.Sprintf("top-level-%d", depth), body: []byte(nest)}
	case 1:
		return &c18Req{sub: fmt.Sprintf("in-params-%d", depth), body: []byte(`{"jsonrpc":"2.0","id":1,"method":"ledger.getFrontierMomentum","params":[` + nest + `]}`)}
	case 2:
		return &c18Req{sub: fmt.Sprintf("in-id-%d", depth), body: []byte(`{"jsonrpc":"2.0","id":` + nest + `,"method":"ledger.getFrontierMomentum","params":[]}`)}
	case 3:
		return &c18Req{sub: fmt.Sprintf("unclosed-%d", depth), body: []byte(strings.Repeat(open, depth))}
	case 4: // descendant blocks nested in a published block
		d := depth
		if d > 20000 {
			d = 20000
		}
		blk := strings.Repeat(`{"descendantBlocks":[`, d) + strings.Repeat(`]}`, d)
		return &c18Req{sub: fmt.Sprintf("descendant-blocks-%d", d), body: []byte(`{"jsonrpc":"2.0","id":1,"method":"ledger.publishRawTransaction","params":[` + blk + `]}`)}
	default:
		return &c18Req{sub: fmt.Sprintf("in-typed-param-%d", depth), body: []byte(`{"jsonrpc":"2.0","id":1,"method":"embedded.accelerator.getPillarVotes","params":["x",` + nest + `]}`)}
	}
}

func (e *c18Env) genSize() *c18Req {
	r := e.r
	target := c18HTTPBodyLimit + []int{-2, -1, 0, 1, 2, 1024, -1024, c18HTTPBodyLimit}[r.Intn(8)]
	prefix := `{"jsonrpc":"2.0","id":1,"method":"ledger.getAccountInfoByAddress","params":["`
	suffix := `"]}`
	switch r.Intn(7) {
	case 5, 6: // a batch of valid calls that exceeds the limit AS A WHOLE, with and without an announced length: the
		// limit is on the request, so nothing of it may be executed
		var b bytes.Buffer
		b.WriteByte('[')
		for i := 0; b.Len() < c18HTTPBodyLimit+32*1024; i++ {
			if i > 0 {
				b.WriteByte(',')
			}
			fmt.Fprintf(&b, `{"jsonrpc":"2.0","id":%d,"method":"embedded.token.getByZts","params":["%s"],"pad":"%s"}`, i, types.ZnnTokenStandard, strings.Repeat("p", 900))
		}
		b.WriteByte(']')
		q := &c18Req{sub: "batch-over-limit-announced", body: b.Bytes(), wantStatus: []int{200, 413}, noResults: true}
		if r.Intn(2) == 0 {
			q.sub, q.lieLength = "batch-over-limit-unknown-length", -1
		}
		return q
	case 0: // a long string argument
		fill := target - len(prefix) - len(suffix)
		return &c18Req{sub: fmt.Sprintf("long-string-limit%+d", target-c18HTTPBodyLimit), body: []byte(prefix + strings.Repeat("z", fill) + suffix), wantStatus: []int{200, 413}}
	case 1: // valid request padded with whitespace
		v := e.validCall().json("1")
		pad := target - len(v)
		return &c18Req{sub: fmt.Sprintf("padded-limit%+d", target-c18HTTPBodyLimit), body: append(v, bytes.Repeat([]byte(" "), pad)...), wantStatus: []int{200, 413}}
	case 2: // the body is longer than announced / shorter than announced
		v := e.validCall().json("1")
		return &c18Req{sub: "content-length-lie", body: v, lieLength: int64(len(v)) + int64(r.Intn(40)) - 20, wantStatus: []int{200, 400, 413}}
	case 3: // unknown length (chunked): the reader is cut at the limit
		fill := target - len(prefix) - len(suffix)
		return &c18Req{sub: fmt.Sprintf("unknown-length-limit%+d", target-c18HTTPBodyLimit), body: []byte(prefix + strings.Repeat("z", fill) + suffix), lieLength: -1, wantStatus: []int{200, 413}}
	default: // huge base64 data in a published block
		n := 1 << uint(10+r.Intn(12))
		blk := fmt.Sprintf(`{"version":1,"chainIdentifier":100,"blockType":2,"address":%q,"toAddress":%q,"amount":"1","tokenStandard":%q,"data":%q,"nonce":"0000000000000000","height":1}`,
			g.User1.Address.String(), g.User2.Address.String(), types.ZnnTokenStandard.String(), base64.StdEncoding.EncodeToString(bytes.Repeat([]byte{7}, n)))
		return &c18Req{sub: "big-block-data", body: []byte(`{"jsonrpc":"2.0","id":1,"method":"ledger.publishRawTransaction","params":[` + blk + `]}`), wantResponse: true, wantError: true, wantID: "1"}
	}
}

func (e *c18Env) genBatch() *c18Req {
	r := e.r
	pick := r.Intn(8)
	if pick == 2 && r.Intn(3) != 0 {
		pick = 3
	}
	switch pick {
	case 0:
		return &c18Req{sub: "empty", body: []byte("[]"), wantResponse: true, wantError: true, wantN: -1}
	case 1:
		return &c18Req{sub: "empty-spaces", body: []byte(" [ \n ] "), wantResponse: true, wantError: true, wantN: -1}
	case 2: // thousands of small calls
		n := []int{1000, 5000, 10000}[r.Intn(3)]
		var b bytes.Buffer
		b.WriteByte('[')
		for i := 0; i < n; i++ {
			if i > 0 {
				b.WriteByte(',')
			}
			if i%2 == 0 {
				fmt.Fprintf(&b, `{"jsonrpc":"2.0","id":%d,"method":"ledger.getMomentumsByHeight","params":[%d,1]}`, i, 1+i%1000)
			} else {
				fmt.Fprintf(&b, `{"jsonrpc":"2.0","id":%d,"method":"embedded.token.getByZts","params":["%s"]}`, i, types.ZnnTokenStandard)
			}
		}
		b.WriteByte(']')
		return &c18Req{sub: fmt.Sprintf("calls-%d", n), body: b.Bytes(), wantResponse: true, wantN: n}
	case 3: // mixed valid / invalid / notifications / scalars
		n := 5 + r.Intn(60)
		var parts []string
		want := 0
		for i := 0; i < n; i++ {
			switch r.Intn(8) {
			case 0:
				parts = append(parts, string(e.validCall().json(fmt.Sprint(i))))
				want++
			case 1:
				parts = append(parts, `{"jsonrpc":"2.0","method":"ledger.getFrontierMomentum","params":[]}`) // notification
			case 2:
				parts = append(parts, `null`)
				want++
			case 3:
				parts = append(parts, []string{`1`, `"x"`, `true`, `[]`, `[1,2]`, `{}`}[r.Intn(6)])
				want++
			case 4:
				parts = append(parts, fmt.Sprintf(`{"jsonrpc":"2.0","id":%d,"method":"no.such","params":[]}`, i))
				want++
			case 5:
				parts = append(parts, fmt.Sprintf(`{"jsonrpc":"2.0","id":%d,"method":"ledger.getMomentumsByPage","params":["a"]}`, i))
				want++
			case 6:
				parts = append(parts, fmt.Sprintf(`{"jsonrpc":"2.0","id":%d,"result":1}`, i)) // a response sent to the server: consumed silently
			default:
				parts = append(parts, fmt.Sprintf(`{"id":%d}`, i))
				want++
			}
		}
		return &c18Req{sub: "mixed", body: []byte("[" + strings.Join(parts, ",") + "]"), wantN: want, wantResponse: want > 0}
	case 4:
		n := 1 + r.Intn(2000)
		return &c18Req{sub: "only-notifications", body: []byte("[" + strings.TrimSuffix(strings.Repeat(`{"jsonrpc":"2.0","method":"ledger.getFrontierMomentum","params":[]},`, n), ",") + "]"), wantN: 0}
	case 5:
		n := 1 + r.Intn(5000)
		return &c18Req{sub: "only-nulls", body: []byte("[" + strings.TrimSuffix(strings.Repeat("null,", n), ",") + "]"), wantResponse: true, wantN: n}
	case 6:
		return &c18Req{sub: "nested-batch", body: []byte(`[[{"jsonrpc":"2.0","id":1,"method":"ledger.getFrontierMomentum","params":[]}],[[]],[]]`), wantResponse: true, wantN: 3}
	default: // same id many times, heavy answers
		n := 2 + r.Intn(5)
		one := fmt.Sprintf(`{"jsonrpc":"2.0","id":1,"method":"ledger.getAccountBlocksByPage","params":[%q,0,200]}`, g.User1.Address.String())
		return &c18Req{sub: "heavy-answers", body: []byte("[" + strings.TrimSuffix(strings.Repeat(one+",", n), ",") + "]"), wantResponse: true, wantN: n}
	}
}

func (e *c18Env) genMethods() *c18Req {
	r := e.r
	names := []string{"", "x", "ledger", "ledger.", ".x", "..", "ledger..getFrontierMomentum", "ledger.getfrontiermomentum", "Ledger.getFrontierMomentum", "ledger.GetFrontierMomentum",
		"ledger_getFrontierMomentum", "embedded.getAll", "embedded.token", "embedded.token.getAll.x", "embedded.token.", "rpc.modules", "rpc_modules", "rpc.Modules",
		"ledger.string", "ledger.String", "embedded.pillar.len", "stats.osInfo", "stats.processInfo", "stats.syncInfo", "stats.networkInfo", "ledger.subscribe", "ledger.unsubscribe",
		"x.subscribe", ".subscribe", "subscribe", "x.unsubscribe", ".unsubscribe", "ledger.subscription", "x.subscription",
		strings.Repeat("a", 100000), strings.Repeat("a.", 10000), "ledger.\u0000", "ledger.getFrontierMomentum\n", "ledger.𝔤etFrontierMomentum", "ledger.publishRawTransaction"}
	nm := names[r.Intn(len(names))]
	params := []string{`[]`, `["momentums"]`, `[1]`, `["0x1"]`, `null`, `[null]`}[r.Intn(6)]
	q, _ := json.Marshal(nm)
	label := nm
	if len(label) > 24 {
		label = label[:24] + "…"
	}
	return &c18Req{sub: "name:" + label, body: []byte(fmt.Sprintf(`{"jsonrpc":"2.0","id":11,"method":%s,"params":%s}`, q, params)), wantResponse: true, wantID: "11"}
}

func (e *c18Env) genNotify() *c18Req {
	r := e.r
	switch r.Intn(6) {
	case 0:
		c := e.validCall()
		p, _ := json.Marshal(c.params)
		if c.params == nil {
			p = []byte("[]")
		}
		return &c18Req{sub: "notification-valid", body: []byte(fmt.Sprintf(`{"jsonrpc":"2.0","method":%q,"params":%s}`, c.method, p)), wantN: 0}
	case 1:
		return &c18Req{sub: "notification-bad-params", body: []byte(`{"jsonrpc":"2.0","method":"ledger.getMomentumsByPage","params":["x",{}]}`), wantN: 0}
	case 2:
		return &c18Req{sub: "notification-unknown-method", body: []byte(`{"jsonrpc":"2.0","method":"no.such","params":[]}`), wantN: 0}
	case 3:
		return &c18Req{sub: "response-to-server", body: []byte([]string{`{"jsonrpc":"2.0","id":1,"result":"0x1"}`, `{"jsonrpc":"2.0","id":"honest-1","error":{"code":-1,"message":"m"}}`, `{"id":1,"result":null}`}[r.Intn(3)])}
	case 4:
		return &c18Req{sub: "subscription-notification", body: []byte([]string{`{"jsonrpc":"2.0","method":"ledger.subscription","params":{"subscription":"0x1","result":{}}}`, `{"jsonrpc":"2.0","method":"ledger.subscription","params":[1,2]}`,
			`{"jsonrpc":"2.0","method":"ledger.subscription"}`, `{"jsonrpc":"2.0","method":".subscription","params":"x"}`}[r.Intn(4)])}
	default:
		return &c18Req{sub: "null-id", body: []byte(`{"jsonrpc":"2.0","id":null,"method":"ledger.getFrontierMomentum","params":[]}`)}
	}
}

func (e *c18Env) genPublish() *c18Req {
	r := e.r
	ref := e.w.ref
	ch := ref.chains[g.User1.Address]
	real := ch[r.Intn(len(ch))]
	js, _ := json.Marshal(real)
	var m map[string]interface{}
	_ = json.Unmarshal(js, &m)
	sub := ""
	switch r.Intn(14) {
	case 0:
		sub = "replay-existing"
	case 1:
		sub = "amount-number"
		m["amount"] = 5
	case 2:
		sub = "amount-garbage"
		m["amount"] = []interface{}{"", "abc", "-5", "1e9", "0x10", strings.Repeat("9", 2000), " 1", "1.5"}[r.Intn(8)]
	case 3:
		sub = "nonce-bad"
		m["nonce"] = []interface{}{"", "00", "zz", strings.Repeat("0", 17), 5, nil}[r.Intn(6)]
	case 4:
		sub = "public-key-bad-length"
		m["publicKey"] = base64.StdEncoding.EncodeToString(e.randBytes([]int{0, 1, 31, 33, 64}[r.Intn(5)]))
	case 5:
		sub = "signature-bad"
		m["signature"] = base64.StdEncoding.EncodeToString(e.randBytes([]int{0, 1, 63, 65}[r.Intn(4)]))
	case 6:
		sub = "block-type-odd"
		m["blockType"] = []interface{}{0, 1, 4, 5, 6, 255, 18446744073709551615.0}[r.Intn(7)]
	case 7:
		sub = "height-odd"
		m["height"] = []interface{}{0, 1, 18446744073709551615.0, uint64(len(ch)) + 1, uint64(len(ch)) + 2}[r.Intn(5)]
		m["hash"] = strings.Repeat("0", 64)
	case 8:
		sub = "chain-id-odd"
		m["chainIdentifier"] = []interface{}{0, 1, 99, 101}[r.Intn(4)]
	case 9:
		sub = "descendants-present"
		m["descendantBlocks"] = []interface{}{m, nil, map[string]interface{}{}}
	case 10:
		sub = "fields-null"
		for k := range m {
			if r.Intn(3) == 0 {
				m[k] = nil
			}
		}
	case 11:
		sub = "token-unknown"
		var z types.ZenonTokenStandard
		r.Read(z[:])
		m["tokenStandard"] = z.String()
	case 12:
		sub = "fresh-unsigned"
		m["height"] = uint64(len(ch)) + 1
		m["previousHash"] = ch[len(ch)-1].Hash.String()
		m["signature"] = nil
	default:
		sub = "momentum-acknowledged-odd"
		m["momentumAcknowledged"] = []interface{}{nil, map[string]interface{}{}, map[string]interface{}{"hash": strings.Repeat("0", 64), "height": 0}, map[string]interface{}{"hash": ref.moms[3].Hash.String(), "height": 18446744073709551615.0}, "x", 5}[r.Intn(6)]
	}
	body, _ := json.Marshal(m)
	if r.Intn(10) == 0 {
		body = []byte([]string{"null", "{}", "[]", `"x"`, "5"}[r.Intn(5)])
		sub = "not-a-block"
	}
	return &c18Req{sub: sub, body: []byte(`{"jsonrpc":"2.0","id":21,"method":"ledger.publishRawTransaction","params":[` + string(body) + `]}`), wantResponse: true, wantID: "21"}
}

func (e *c18Env) genHTTPTransport() *c18Req {
	r := e.r
	v := e.validCall().json("1")
	switch r.Intn(12) {
	case 0:
		m := []string{"GET", "PUT", "DELETE", "OPTIONS", "HEAD", "PATCH", "TRACE", "CONNECT", "post", "BREW"}[r.Intn(10)]
		return &c18Req{sub: "method-" + m, body: v, httpMethod: m, wantStatus: []int{200, 400, 403, 405, 415}}
	case 1:
		ct := []string{"", "text/plain", "application/json; charset=utf-8", "application/json;", "APPLICATION/JSON", "application/json-rpc", "application/jsonrequest", "application/x-www-form-urlencoded", "multipart/form-data; boundary=x", ";;;", "application/json, text/plain"}[r.Intn(11)]
		return &c18Req{sub: "content-type:" + ct, body: v, contentType: ct, wantStatus: []int{200, 415}}
	case 2:
		return &c18Req{sub: "get-empty", httpMethod: "GET", body: nil, contentType: "", wantStatus: []int{200}}
	case 3:
		return &c18Req{sub: "get-with-query", httpMethod: "GET", body: nil, query: "x=1&method=ledger.getFrontierMomentum", contentType: "", wantStatus: []int{200, 415}}
	case 4:
		h := []string{"evil.example", "localhost", "LOCALHOST:1", "127.0.0.1:9", "[::1]:80", "a:b:c", "", "localhost:99999"}[r.Intn(8)]
		return &c18Req{sub: "host:" + h, body: v, host: h, wantStatus: []int{200, 403}}
	case 5:
		return &c18Req{sub: "accept-gzip", body: v, headers: map[string]string{"Accept-Encoding": "gzip"}, wantResponse: true}
	case 6:
		var zb bytes.Buffer
		zw := gzip.NewWriter(&zb)
		zw.Write(v)
		zw.Close()
		return &c18Req{sub: "gzip-body", body: zb.Bytes(), headers: map[string]string{"Content-Encoding": "gzip"}}
	case 7:
		return &c18Req{sub: "origin", body: v, headers: map[string]string{"Origin": []string{"http://evil.example", "null", "", "http://localhost"}[r.Intn(4)]}, wantResponse: true}
	case 8:
		return &c18Req{sub: "cors-preflight", httpMethod: "OPTIONS", body: nil, headers: map[string]string{"Origin": "http://evil.example", "Access-Control-Request-Method": "POST", "Access-Control-Request-Headers": "content-type"}, wantStatus: []int{200, 204, 400, 403, 405}}
	case 9:
		return &c18Req{sub: "huge-header", body: v, headers: map[string]string{"User-Agent": strings.Repeat("u", 1<<16), "X-Forwarded-For": strings.Repeat("1.1.1.1,", 1000)}, wantResponse: true}
	case 10:
		return &c18Req{sub: "websocket-upgrade-headers", body: v, headers: map[string]string{"Upgrade": "websocket", "Connection": "Upgrade", "Sec-WebSocket-Version": "13", "Sec-WebSocket-Key": "x"}}
	default:
		return &c18Req{sub: "content-length-zero-with-body", body: v, lieLength: 0, httpMethod: "POST"}
	}
}

func (e *c18Env) genPipeTransport() *c18Req {
	r := e.r
	names := []string{"momentums", "allAccountBlocks", "accountBlocksByAddress", "unreceivedAccountBlocksByAddress", "Momentums", "", "x", "subscribe"}
	nm := names[r.Intn(len(names))]
	addr := []string{g.User1.Address.String(), "z1", "", "5"}[r.Intn(4)]
	switch r.Intn(8) {
	case 0:
		return &c18Req{sub: "subscribe:" + nm, body: []byte(fmt.Sprintf(`{"jsonrpc":"2.0","id":5,"method":"ledger.subscribe","params":[%q]}`, nm)), wantResponse: true, wantID: "5"}
	case 1:
		return &c18Req{sub: "subscribe-addr:" + nm, body: []byte(fmt.Sprintf(`{"jsonrpc":"2.0","id":5,"method":"ledger.subscribe","params":[%q,%q]}`, nm, addr)), wantResponse: true, wantID: "5"}
	case 2:
		p := []string{`[]`, `null`, `{}`, `[1]`, `[null]`, `[["momentums"]]`, `["momentums",1,2,3]`, `"momentums"`}[r.Intn(8)]
		return &c18Req{sub: "subscribe-odd-params", body: []byte(fmt.Sprintf(`{"jsonrpc":"2.0","id":5,"method":"ledger.subscribe","params":%s}`, p)), wantResponse: true, wantError: true, wantID: "5"}
	case 3:
		p := []string{`[]`, `["0x1"]`, `[1]`, `[null]`, `["` + strings.Repeat("f", 5000) + `"]`, `["a","b"]`}[r.Intn(6)]
		return &c18Req{sub: "unsubscribe", body: []byte(fmt.Sprintf(`{"jsonrpc":"2.0","id":5,"method":"ledger.unsubscribe","params":%s}`, p)), wantResponse: true, wantError: true, wantID: "5"}
	case 4:
		ns := []string{"embedded.token", "stats", "rpc", "x", ""}[r.Intn(5)]
		return &c18Req{sub: "subscribe-other-namespace", body: []byte(fmt.Sprintf(`{"jsonrpc":"2.0","id":5,"method":"%s.subscribe","params":["momentums"]}`, ns)), wantResponse: true, wantError: true, wantID: "5"}
	case 5: // many subscriptions on one connection, then unsubscribe garbage
		var b bytes.Buffer
		n := 1 + r.Intn(150)
		for i := 0; i < n; i++ {
			fmt.Fprintf(&b, `{"jsonrpc":"2.0","id":%d,"method":"ledger.subscribe","params":["momentums"]}`+"\n", 1000+i)
		}
		return &c18Req{sub: "many-subscriptions", body: b.Bytes(), wantResponse: true}
	case 6: // several messages in one write, no separators
		v := e.validCall().json("1")
		return &c18Req{sub: "concatenated-messages", body: bytes.Repeat(v, 2+r.Intn(20)), wantResponse: true}
	default:
		return &c18Req{sub: "subscribe-notification-form", body: []byte(`{"jsonrpc":"2.0","method":"ledger.subscribe","params":["momentums"]}`)}
	}
}

// gridRequests: every paged method of the public API with every pair of boundary values, through the server.
// The k-th case of nCases takes every nCases-th request.
func (e *c18Env) gridRequests(k, nCases int) []*c18Req {
	u1, u2, u10 := g.User1.Address.String(), g.User2.Address.String(), g.User10.Address.String()
	type pm struct {
		method string
		pre    []interface{}
		wide   bool // (height, count) of 64 bits instead of (pageIndex, pageSize) of 32 bits
	}
	methods := []pm{
		{"ledger.getAccountBlocksByPage", []interface{}{u1}, false},
		{"ledger.getMomentumsByPage", nil, false},
		{"ledger.getUnreceivedBlocksByAddress", []interface{}{u10}, false},
		{"ledger.getUnconfirmedBlocksByAddress", []interface{}{u1}, false},
		{"ledger.getAccountBlocksByHeight", []interface{}{u1}, true},
		{"ledger.getMomentumsByHeight", nil, true},
		{"ledger.getDetailedMomentumsByHeight", nil, true},
		{"embedded.token.getAll", nil, false},
		{"embedded.token.getByOwner", []interface{}{u1}, false},
		{"embedded.stake.getEntriesByAddress", []interface{}{u1}, false},
		{"embedded.stake.getFrontierRewardByPage", []interface{}{u1}, false},
		{"embedded.plasma.getEntriesByAddress", []interface{}{u1}, false},
		{"embedded.pillar.getAll", nil, false},
		{"embedded.pillar.getPillarEpochHistory", []interface{}{g.Pillar1Name}, false},
		{"embedded.pillar.getPillarsHistoryByEpoch", []interface{}{0}, false},
		{"embedded.pillar.getFrontierRewardByPage", []interface{}{u1}, false},
		{"embedded.sentinel.getAllActive", nil, false},
		{"embedded.sentinel.getFrontierRewardByPage", []interface{}{u1}, false},
		{"embedded.spork.getAll", nil, false},
		{"embedded.accelerator.getAll", nil, false},
		{"embedded.bridge.getAllNetworks", nil, false},
		{"embedded.bridge.getAllWrapTokenRequests", nil, false},
		{"embedded.bridge.getAllWrapTokenRequestsByToAddress", []interface{}{""}, false},
		{"embedded.bridge.getAllWrapTokenRequestsByToAddressNetworkClassAndChainId", []interface{}{"", 2, 123}, false},
		{"embedded.bridge.getAllUnsignedWrapTokenRequests", nil, false},
		{"embedded.bridge.getAllUnwrapTokenRequests", nil, false},
		{"embedded.bridge.getAllUnwrapTokenRequestsByToAddress", []interface{}{u2}, false},
		{"embedded.liquidity.getLiquidityStakeEntriesByAddress", []interface{}{u1}, false},
		{"embedded.liquidity.getFrontierRewardByPage", []interface{}{u1}, false},
	}
	narrow := []uint64{0, 1, 2, c18Limit - 1, c18Limit, c18Limit + 1, 1 << 16, 1 << 22, 1 << 31, 1<<32 - 1}
	wide := []uint64{0, 1, 2, c18Limit, c18Limit + 1, 1 << 32, 1 << 63, 1<<64 - 1}
	var out []*c18Req
	n := 0
	for _, m := range methods {
		vals := narrow
		if m.wide {
			vals = wide
		}
		for _, a := range vals {
			for _, b := range vals {
				n++
				if n%nCases != k%nCases {
					continue
				}
				if m.method == "ledger.getDetailedMomentumsByHeight" && b > 2 && b <= c18Limit {
					b = 2
				}
				c := &c18Call{m.method, append(append([]interface{}{}, m.pre...), a, b)}
				id := fmt.Sprint(n)
				out = append(out, &c18Req{sub: m.method, body: c.json(id), wantResponse: true, wantID: id, diff: c, wantN: -1})
			}
		}
	}
	return out
}

func (e *c18Env) gen(transport, class string) *c18Req {
	var q *c18Req
	switch class {
	case "malformed":
		q = e.genMalformed()
	case "types":
		q = e.genTypes()
	case "params":
		q = e.genParams()
	case "numbers":
		q = e.genNumbers()
	case "nesting":
		q = e.genNesting()
	case "size":
		q = e.genSize()
	case "batch":
		q = e.genBatch()
	case "methods":
		q = e.genMethods()
	case "notify":
		q = e.genNotify()
	case "publish":
		q = e.genPublish()
	default:
		if transport == "http" {
			q = e.genHTTPTransport()
		} else {
			q = e.genPipeTransport()
		}
	}
	return q
}

// ---------------------------------------------------------------------------
// judging responses

type c18Resp struct {
	Version string          `json:"jsonrpc"`
	ID      json.RawMessage `json:"id"`
	Method  string          `json:"method"`
	Params  json.RawMessage `json:"params"`
	Result  json.RawMessage `json:"result"`
	Error   *struct {
		Code    int             `json:"code"`
		Message string          `json:"message"`
		Data    json.RawMessage `json:"data"`
	} `json:"error"`
}

// wellFormed: a JSON-RPC 2.0 response object (result xor error, version, id present).
func c18WellFormed(raw json.RawMessage) (*c18Resp, string) {
	var m map[string]json.RawMessage
	if err := json.Unmarshal(raw, &m); err != nil {
		return nil, "not an object: " + err.Error()
	}
	var r c18Resp
	if err := json.Unmarshal(raw, &r); err != nil {
		return nil, "fields of wrong type: " + err.Error()
	}
	if r.Version != "2.0" {
		return nil, "jsonrpc version missing"
	}
	_, hasRes := m["result"]
	_, hasErr := m["error"]
	if hasRes == hasErr {
		return nil, "result and error both present or both absent"
	}
	if _, hasID := m["id"]; !hasID {
		return nil, "id missing"
	}
	if hasErr && (r.Error == nil || r.Error.Message == "") {
		return nil, "error object without message"
	}
	return &r, ""
}

func c18Short(b []byte, n int) string {
	if len(b) > n {
		return fmt.Sprintf("%q…(%d bytes)", b[:n], len(b))
	}
	return fmt.Sprintf("%q", b)
}

// judgeResponses applies the expectations of q to the decoded response messages.
func (e *c18Env) judgeResponses(s *c18Server, transport, class string, q *c18Req, msgs []json.RawMessage, batchReply bool) string {
	where := transport + " " + class
	detail := func(extra map[string]interface{}) map[string]interface{} {
		d := map[string]interface{}{"transport": transport, "class": class, "subclass": q.sub, "request": c18Short(q.body, 600)}
		for k, v := range extra {
			d[k] = v
		}
		return d
	}
	var resps []*c18Resp
	for _, raw := range msgs {
		r, why := c18WellFormed(raw)
		if r == nil {
			e.violation("malformed-response "+where, detail(map[string]interface{}{"response": c18Short(raw, 400), "why": why}))
			return "malformed-response"
		}
		resps = append(resps, r)
	}
	if q.wantResponse && len(resps) == 0 {
		e.violation("no-response "+where, detail(nil))
		return "no-response"
	}
	if q.wantN >= 0 && (q.wantN > 0 || batchReply || len(resps) > 0) && strings.HasPrefix(string(bytes.TrimSpace(q.body)), "[") {
		if len(resps) != q.wantN && !(q.wantN == 0 && len(resps) == 0) {
			e.violation("wrong-response-count "+where, detail(map[string]interface{}{"responses": len(resps), "expected": q.wantN}))
			return "wrong-response-count"
		}
	}
	if q.wantN == 0 && len(resps) != 0 && !strings.HasPrefix(string(bytes.TrimSpace(q.body)), "[") {
		e.violation("response-to-notification "+where, detail(map[string]interface{}{"responses": len(resps)}))
		return "response-to-notification"
	}
	oc := "none"
	if len(resps) > 0 {
		r := resps[0]
		oc = "result"
		if r.Error != nil {
			oc = fmt.Sprintf("error%d", r.Error.Code)
		}
		if q.wantID != "" && len(resps) == 1 && string(r.ID) != q.wantID {
			e.violation("wrong-response-id "+where, detail(map[string]interface{}{"id": string(r.ID), "expected": q.wantID}))
		}
		if q.wantError && len(resps) == 1 && r.Error == nil {
			e.violation("result-for-invalid-request "+where+" "+strings.SplitN(q.sub, ":", 2)[0], detail(map[string]interface{}{"result": c18Short(r.Result, 300)}))
		}
		for _, cr := range resps {
			if cr.Error == nil || !strings.Contains(cr.Error.Message, "method handler crashed") {
				continue
			}
			m := c18MethodOfID(q.body, string(cr.ID))
			if m != "stats.networkInfo" && m != "stats.osInfo" { // nil p2p server / host probes: harness artefacts
				e.violation("rpc-panic "+m+" (recovered by the server)", detail(map[string]interface{}{"error": cr.Error.Message, "id": string(cr.ID)}))
			}
		}
		if q.diff != nil && len(resps) == 1 {
			if res, errMsg, ok := e.dispatch(s, q.diff); ok {
				e.c.Eval(1)
				switch {
				case errMsg != "" && (r.Error == nil || r.Error.Message != errMsg):
					e.violation("transport-differs "+q.diff.method, detail(map[string]interface{}{"direct_error": errMsg, "server": c18Short(msgs[0], 300)}))
				case errMsg == "" && (r.Error != nil || !c18SameJSON(r.Result, []byte(res))):
					e.violation("transport-differs "+q.diff.method, detail(map[string]interface{}{"direct_result": c18Short([]byte(res), 300), "server": c18Short(msgs[0], 300)}))
				default:
					e.c.Distinct(fmt.Sprintf("diff/%s/%s", q.diff.method, oc))
				}
			}
		}
	}
	return oc
}

func c18SameJSON(a, b []byte) bool {
	var x, y bytes.Buffer
	if json.Compact(&x, a) != nil || json.Compact(&y, b) != nil {
		return false
	}
	return bytes.Equal(x.Bytes(), y.Bytes())
}

// ---------------------------------------------------------------------------
// transports

func (e *c18Env) httpDo(s *c18Server, q *c18Req) (status int, body []byte, panicVal interface{}) {
	method := q.httpMethod
	if method == "" {
		method = "POST"
	}
	target := "http://localhost:35997/"
	if q.query != "" {
		target += "?" + q.query
	}
	var rd io.Reader = bytes.NewReader(q.body)
	if q.lieLength == -1 {
		rd = io.MultiReader(bytes.NewReader(q.body)) // unknown length
	}
	var req *http.Request
	func() {
		defer func() {
			if r := recover(); r != nil { // httptest.NewRequest panics on an invalid method token
				req = nil
			}
		}()
		req = httptest.NewRequest(strings.ToUpper(method), target, rd)
	}()
	if req == nil {
		return -1, nil, nil
	}
	req.Method = method
	ct := q.contentType
	if ct == "" && (q.httpMethod == "" || q.httpMethod == "POST") && !strings.HasPrefix(q.sub, "content-type:") {
		ct = "application/json"
	}
	if ct != "" {
		req.Header.Set("Content-Type", ct)
	}
	for k, v := range q.headers {
		req.Header.Set(k, v)
	}
	if q.host != "" || strings.HasPrefix(q.sub, "host:") {
		req.Host = q.host
	}
	switch {
	case q.lieLength == -1:
		req.ContentLength = -1
	case q.lieLength != 0:
		req.ContentLength = q.lieLength
	case q.sub == "content-length-zero-with-body":
		req.ContentLength = 0
	}
	rec := httptest.NewRecorder()
	func() {
		defer func() {
			if r := recover(); r != nil {
				panicVal = r
			}
		}()
		s.handler.ServeHTTP(rec, req)
	}()
	out := rec.Body.Bytes()
	if rec.Header().Get("Content-Encoding") == "gzip" {
		if zr, err := gzip.NewReader(bytes.NewReader(out)); err == nil {
			if plain, err := io.ReadAll(zr); err == nil {
				out = plain
			}
		}
	}
	return rec.Code, out, panicVal
}

// splitHTTPBody turns an HTTP response body into response messages (a single object or a batch array).
func c18SplitBody(body []byte) (msgs []json.RawMessage, batch bool, bad string) {
	trim := bytes.TrimSpace(body)
	if len(trim) == 0 {
		return nil, false, ""
	}
	if trim[0] == '[' {
		if err := json.Unmarshal(trim, &msgs); err != nil {
			return nil, true, err.Error()
		}
		return msgs, true, ""
	}
	dec := json.NewDecoder(bytes.NewReader(trim))
	for {
		var raw json.RawMessage
		if err := dec.Decode(&raw); err == io.EOF {
			break
		} else if err != nil {
			return nil, false, err.Error()
		}
		msgs = append(msgs, raw)
	}
	return msgs, false, ""
}

func (e *c18Env) checkHonest(transport string, id int, c *c18Call, raw json.RawMessage, after *c18Req, class string) bool {
	ref := e.w.ref
	r, why := c18WellFormed(raw)
	ok := r != nil && r.Error == nil
	if ok {
		switch c.method {
		case "ledger.getFrontierMomentum":
			var m struct {
				Hash   types.Hash `json:"hash"`
				Height uint64     `json:"height"`
			}
			ok = json.Unmarshal(r.Result, &m) == nil && m.Hash == ref.moms[ref.frontier-1].Hash && m.Height == ref.frontier
		case "ledger.getAccountBlocksByPage":
			var l struct {
				Count int `json:"count"`
				List  []struct {
					Hash types.Hash `json:"hash"`
				} `json:"list"`
			}
			ch := ref.chains[g.User1.Address]
			ok = json.Unmarshal(r.Result, &l) == nil && l.Count == len(ch) && len(l.List) == 2 && l.List[0].Hash == ch[len(ch)-1].Hash && l.List[1].Hash == ch[len(ch)-2].Hash
		default:
			var l struct {
				Count int               `json:"count"`
				List  []json.RawMessage `json:"list"`
			}
			ok = json.Unmarshal(r.Result, &l) == nil && l.Count == len(ref.tokens) && len(l.List) == c18Min(10, len(ref.tokens))
		}
	}
	if !ok {
		e.violation(fmt.Sprintf("honest-request-fails-after-hostile %s %s", transport, class), map[string]interface{}{
			"hostile_subclass": after.sub, "hostile_request": c18Short(after.body, 600), "honest_method": c.method, "answer": c18Short(raw, 400), "why": why})
	}
	return ok
}

func c18RunFuzz(e *c18Env, transport, class string, k int) {
	s := c18GetServer(e.w)
	if s.err != "" {
		e.c.Inconclusive("server: " + s.err)
		return
	}
	n := 300
	switch class {
	case "size":
		n = 10
	case "nesting":
		n = 40
	case "batch":
		n = 30
	}
	var fixed []*c18Req
	if class == "grid" {
		fixed = e.gridRequests(k, c18GridCases(e.c.Tier))
		n = len(fixed)
	}
	for i := 0; i < n; i++ {
		var q *c18Req
		if fixed != nil {
			q = fixed[i]
		} else {
			q = e.gen(transport, class)
		}
		if q.wantN == 0 && !strings.HasPrefix(q.sub, "notification") && !strings.HasPrefix(q.sub, "only-notifications") {
			q.wantN = -1
		}
		var oc string
		t0 := time.Now()
		if transport == "http" {
			oc = e.fuzzHTTP(s, class, q, i)
		} else {
			oc = e.fuzzPipe(s, class, q, i)
		}
		if d := time.Since(t0); d > 5*time.Second {
			e.c.Logf("C18 slow request %s/%s/%s: %v (%d bytes) -> %s", transport, class, q.sub, d, len(q.body), oc)
		}
		e.c.Eval(2)
		sub := strings.SplitN(q.sub, ":", 2)[0]
		e.c.Distinct(fmt.Sprintf("%s/%s/%s/%s", transport, class, sub, oc))
		e.c.Count("raw_requests_"+transport, 1)
		if i == 0 && k == 0 {
			e.c.Sample(map[string]interface{}{"transport": transport, "class": class, "subclass": q.sub, "request": c18Short(q.body, 200), "outcome": oc})
		}
	}
}

func (e *c18Env) fuzzHTTP(s *c18Server, class string, q *c18Req, i int) string {
	status, body, pv := e.httpDo(s, q)
	oc := ""
	switch {
	case status == -1:
		oc = "request-not-constructible"
	case pv != nil:
		e.violation("http-handler-panic "+class, map[string]interface{}{"subclass": q.sub, "request": c18Short(q.body, 600), "panic": fmt.Sprint(pv), "stack": c18TopFrames(string(c18Stack()), 8)})
		oc = "handler-panic"
	default:
		allowed := q.wantStatus
		if allowed == nil {
			allowed = []int{200}
		}
		okStatus := false
		for _, a := range allowed {
			okStatus = okStatus || a == status
		}
		if !okStatus {
			e.violation(fmt.Sprintf("unexpected-http-status %s", class), map[string]interface{}{"subclass": q.sub, "status": status, "allowed": allowed, "request": c18Short(q.body, 300), "body": c18Short(body, 200)})
		}
		if status == 200 && q.noResults {
			msgs, _, _ := c18SplitBody(body)
			executed := 0
			for _, m := range msgs {
				if r, _ := c18WellFormed(m); r != nil && r.Error == nil {
					executed++
				}
			}
			if executed > 0 {
				e.violation("oversized-request-executed http "+class, map[string]interface{}{"subclass": q.sub, "request_bytes": len(q.body), "limit": c18HTTPBodyLimit, "calls_answered_with_a_result": executed})
			}
			oc = fmt.Sprintf("over-limit-status200-executed=%v", executed > 0)
		} else if status == 200 {
			msgs, batch, bad := c18SplitBody(body)
			if bad != "" {
				e.violation("malformed-response http "+class, map[string]interface{}{"subclass": q.sub, "request": c18Short(q.body, 600), "response": c18Short(body, 400), "why": bad})
				oc = "malformed-response"
			} else if q.httpMethod == "" || q.httpMethod == "POST" {
				oc = e.judgeResponses(s, "http", class, q, msgs, batch)
			} else {
				oc = fmt.Sprintf("status200-%d", len(msgs))
			}
		} else {
			oc = fmt.Sprintf("status%d", status)
		}
	}
	// the honest request afterwards
	hb, hc := e.honestBody(i)
	hs, hbody, hpv := e.httpDo(s, &c18Req{sub: "honest", body: hb})
	msgs, _, _ := c18SplitBody(hbody)
	if hpv != nil || hs != 200 || len(msgs) != 1 {
		e.violation(fmt.Sprintf("honest-request-fails-after-hostile http %s", class), map[string]interface{}{"hostile_subclass": q.sub, "hostile_request": c18Short(q.body, 600), "status": hs, "panic": fmt.Sprint(hpv), "body": c18Short(hbody, 300)})
	} else {
		e.checkHonest("http", i, hc, msgs[0], q, class)
	}
	return oc
}

// ---- pipe codec

type c18Pipe struct {
	client net.Conn
	msgs   chan json.RawMessage
	done   chan struct{}
}

func c18OpenPipe(s *c18Server) *c18Pipe {
	p1, p2 := net.Pipe()
	go s.srv.ServeCodec(rpc.NewCodec(p1), 0)
	p := &c18Pipe{client: p2, msgs: make(chan json.RawMessage, 1<<16), done: make(chan struct{})}
	go func() {
		defer close(p.done)
		dec := json.NewDecoder(p2)
		for {
			var raw json.RawMessage
			if err := dec.Decode(&raw); err != nil {
				return
			}
			select {
			case p.msgs <- raw:
			default: // reader overwhelmed: drop (never with the volumes generated here)
			}
		}
	}()
	return p
}

func (p *c18Pipe) write(b []byte, d time.Duration) error {
	_ = p.client.SetWriteDeadline(time.Now().Add(d))
	_, err := p.client.Write(b)
	return err
}

func (p *c18Pipe) close() { _ = p.client.Close() }

// c18StreamClass tells how a JSON stream decoder sees body+"\n": "complete" (only whole values),
// "incomplete" (the last value is unfinished: a stream server keeps waiting) or "syntax" (an error after n whole values).
func c18StreamClass(body []byte) (class string, values int) {
	dec := json.NewDecoder(bytes.NewReader(append(append([]byte{}, body...), '\n')))
	for {
		var raw json.RawMessage
		err := dec.Decode(&raw)
		switch {
		case err == nil:
			values++
		case err == io.EOF:
			return "complete", values
		case err == io.ErrUnexpectedEOF:
			return "incomplete", values
		default:
			return "syntax", values
		}
	}
}

func (p *c18Pipe) isHonest(raw json.RawMessage, hid string) bool {
	var probe struct {
		ID json.RawMessage `json:"id"`
	}
	return json.Unmarshal(raw, &probe) == nil && string(probe.ID) == hid
}

func (e *c18Env) fuzzPipe(s *c18Server, class string, q *c18Req, i int) string {
	hb, hc := e.honestBody(i)
	hid := fmt.Sprintf(`"honest-%d"`, i)
	stream, values := c18StreamClass(q.body)
	p := c18OpenPipe(s)
	defer p.close()
	_ = p.write(append(append([]byte{}, q.body...), '\n'), 30*time.Second)
	var got []json.RawMessage
	var honest json.RawMessage
	closed := false
	oc := ""
	if stream == "incomplete" {
		// a stream server waits for the rest of the value: hang up, nothing is owed for the unfinished value
		p.close()
		<-p.done
		closed = true
	} else {
		owed := q.wantResponse || c18OwesResponse(q.body)
		if (owed && values > 0) || stream == "syntax" {
			// the answer (or the parse error) to the hostile request itself
			select {
			case raw := <-p.msgs:
				got = append(got, raw)
			case <-p.done:
				closed = true
			case <-time.After(60 * time.Second):
				if !q.wantResponse {
					// only the harness's reading of JSON-RPC 2.0 says an answer is owed: noted, not judged
					e.c.SetAdd("pipe_no_answer_where_the_spec_owes_one", class+" "+q.sub)
					break
				}
				e.c.Inconclusive(fmt.Sprintf("pipe %s/%s: no answer within 60 s", class, q.sub))
				e.c.SetAdd("hangs", "pipe "+class+" "+q.sub)
				return "timeout"
			}
		}
		if !closed && stream == "complete" {
			_ = p.write(append(append([]byte{}, hb...), '\n'), 30*time.Second)
			timeout := time.After(60 * time.Second)
		loop:
			for {
				select {
				case raw := <-p.msgs:
					if p.isHonest(raw, hid) {
						honest = raw
						break loop
					}
					got = append(got, raw)
				case <-p.done:
					closed = true
					break loop
				case <-timeout:
					e.c.Inconclusive(fmt.Sprintf("pipe %s/%s: no answer to the honest request within 60 s", class, q.sub))
					e.c.SetAdd("hangs", "pipe "+class+" "+q.sub)
					return "timeout"
				}
			}
		}
		if stream == "syntax" && !closed {
			// after a parse error the server hangs up; wait for it so that what it sent before is all here
			select {
			case <-p.done:
				closed = true
			case <-time.After(60 * time.Second):
				e.c.SetAdd("pipe_open_after_syntax_error", class+" "+q.sub)
			}
		}
	}
	// whatever else was decoded so far
	for more := true; more; {
		select {
		case raw := <-p.msgs:
			if p.isHonest(raw, hid) {
				honest = raw
			} else {
				got = append(got, raw)
			}
		default:
			more = false
		}
	}
	// a batch reply arrives as one array message
	var flat []json.RawMessage
	batch := false
	for _, raw := range got {
		t := bytes.TrimSpace(raw)
		if len(t) > 0 && t[0] == '[' {
			var arr []json.RawMessage
			if json.Unmarshal(t, &arr) == nil {
				flat = append(flat, arr...)
				batch = true
				continue
			}
		}
		flat = append(flat, raw)
	}
	qq := *q
	if stream != "complete" || values != 1 {
		// several values / a syntax error: answers are judged for well-formedness only
		qq.wantID, qq.diff, qq.wantN, qq.wantError = "", nil, -1, false
		qq.wantResponse = q.wantResponse && values > 0 && stream == "complete"
	}
	if class == "transport" || strings.Contains(string(q.body), ".subscribe") {
		qq.wantN = -1 // subscription confirmations and notifications
	}
	if stream == "incomplete" {
		oc = "incomplete"
	} else {
		oc = e.judgeResponses(s, "pipe", class, &qq, flat, batch)
		if stream == "syntax" {
			// a syntax error must be reported before the connection goes away
			sawParseError := false
			for _, raw := range flat {
				if r, _ := c18WellFormed(raw); r != nil && r.Error != nil && r.Error.Code == -32700 {
					sawParseError = true
				}
			}
			if !sawParseError {
				e.c.SetAdd("pipe_syntax_error_without_parse_error_reply", class+" "+q.sub)
			}
			oc = "syntax-" + oc
		}
	}
	if closed {
		oc += "+closed"
	}
	if honest == nil {
		// the connection is gone (parse error, hang-up): a new connection must serve
		p2 := c18OpenPipe(s)
		defer p2.close()
		herr := p2.write(append(append([]byte{}, hb...), '\n'), 30*time.Second)
		select {
		case honest = <-p2.msgs:
		case <-p2.done:
		case <-time.After(60 * time.Second):
			e.c.Inconclusive(fmt.Sprintf("pipe %s/%s: no answer to the honest request on a fresh connection within 60 s", class, q.sub))
			return oc
		}
		if honest == nil {
			e.violation(fmt.Sprintf("honest-request-fails-after-hostile pipe %s", class), map[string]interface{}{"hostile_subclass": q.sub, "hostile_request": c18Short(q.body, 600), "what": "fresh connection closed without an answer", "write_error": fmt.Sprint(herr)})
			return oc
		}
	}
	e.checkHonest("pipe", i, hc, honest, q, class)
	return oc
}

// ---------------------------------------------------------------------------
// subscriptions: events replayed from the chain must arrive as the chain says

func c18RunSubscribe(e *c18Env, k int) {
	s := c18GetServer(e.w)
	if s.err != "" {
		e.c.Inconclusive("server: " + s.err)
		return
	}
	ref := e.w.ref
	p := c18OpenPipe(s)
	defer p.close()
	subs := []struct{ name, params string }{
		{"momentums", `["momentums"]`},
		{"allAccountBlocks", `["allAccountBlocks"]`},
		{"accountBlocksByAddress", fmt.Sprintf(`["accountBlocksByAddress",%q]`, g.User1.Address.String())},
		{"unreceivedAccountBlocksByAddress", fmt.Sprintf(`["unreceivedAccountBlocksByAddress",%q]`, g.User10.Address.String())},
	}
	ids := map[string]string{} // subscription id -> kind
	for i, sb := range subs {
		if err := p.write([]byte(fmt.Sprintf(`{"jsonrpc":"2.0","id":%d,"method":"ledger.subscribe","params":%s}`+"\n", i, sb.params)), 10*time.Second); err != nil {
			e.c.Inconclusive("subscribe write: " + err.Error())
			return
		}
		select {
		case raw := <-p.msgs:
			r, why := c18WellFormed(raw)
			var id string
			if r == nil || r.Error != nil || json.Unmarshal(r.Result, &id) != nil || id == "" {
				e.violation("subscribe-refused ledger.subscribe "+sb.name, map[string]interface{}{"answer": c18Short(raw, 300), "why": why})
				return
			}
			ids[id] = sb.name
		case <-time.After(30 * time.Second):
			e.c.Inconclusive("no answer to ledger.subscribe within 30 s")
			return
		}
	}
	e.c.Eval(len(subs))
	type note struct {
		Method string `json:"method"`
		Params struct {
			Subscription string          `json:"subscription"`
			Result       json.RawMessage `json:"result"`
		} `json:"params"`
	}
	type item struct {
		Hash   types.Hash `json:"hash"`
		Height uint64     `json:"height"`
	}
	// The subscriptions are installed by the API's worker some time after the confirmations were sent. A warm-up
	// momentum that concerns all four subscriptions is replayed until all four have delivered once; its events are
	// ignored afterwards.
	var warm uint64
	for _, m := range ref.moms {
		u1, u10 := false, false
		for _, b := range c18FlattenBlocks(e.w.n.Detailed(m.Height).AccountBlocks) {
			u1 = u1 || b.Address == g.User1.Address
			u10 = u10 || (b.IsSendBlock() && b.ToAddress == g.User10.Address)
		}
		if u1 && u10 {
			warm = m.Height
			break
		}
	}
	if warm == 0 {
		e.c.Inconclusive("no momentum concerns all four subscriptions")
		return
	}
	warmSet := map[types.Hash]bool{}
	wd := e.w.n.Detailed(warm)
	warmSet[wd.Momentum.Hash] = true
	for _, b := range c18FlattenBlocks(wd.AccountBlocks) {
		warmSet[b.Hash] = true
	}
	seenKinds := map[string]bool{}
	for attempt := 0; attempt < 40 && len(seenKinds) < len(subs); attempt++ {
		s.sub.InsertMomentum(wd)
		wait := time.After(3 * time.Second)
	warmup:
		for len(seenKinds) < len(subs) {
			select {
			case raw := <-p.msgs:
				var nt note
				if json.Unmarshal(raw, &nt) == nil && nt.Method == "ledger.subscription" {
					seenKinds[ids[nt.Params.Subscription]] = true
				}
			case <-wait:
				break warmup
			}
		}
	}
	if len(seenKinds) < len(subs) {
		e.c.Inconclusive(fmt.Sprintf("only %d of %d subscriptions delivered the warm-up momentum", len(seenKinds), len(subs)))
		return
	}
	// replay momentums that contain blocks
	var heights []uint64
	for _, m := range ref.moms {
		if len(m.Content) > 0 && len(heights) < 400 && m.Height != warm {
			heights = append(heights, m.Height)
		}
	}
	e.r.Shuffle(len(heights), func(i, j int) { heights[i], heights[j] = heights[j], heights[i] })
	if len(heights) > 12 {
		heights = heights[:12]
	}
	for _, h := range heights {
		d := e.w.n.Detailed(h)
		// expected events
		var all, mine, unrecv []string
		flat := c18FlattenBlocks(d.AccountBlocks)
		for _, b := range flat {
			all = append(all, b.Hash.String())
			if b.Address == g.User1.Address {
				mine = append(mine, b.Hash.String())
			}
			if b.IsSendBlock() && b.ToAddress == g.User10.Address {
				unrecv = append(unrecv, b.Hash.String())
			}
		}
		want := map[string][]string{"momentums": {d.Momentum.Hash.String()}, "allAccountBlocks": all}
		if len(mine) > 0 {
			want["accountBlocksByAddress"] = mine
		}
		if len(unrecv) > 0 {
			want["unreceivedAccountBlocksByAddress"] = unrecv
		}
		s.sub.InsertMomentum(d)
		got := map[string][]string{}
		deadline := time.After(30 * time.Second)
		for len(got) < len(want) {
			select {
			case raw := <-p.msgs:
				var nt note
				if json.Unmarshal(raw, &nt) != nil || nt.Method != "ledger.subscription" {
					e.violation("malformed-notification ledger.subscription", map[string]interface{}{"message": c18Short(raw, 300)})
					return
				}
				kind := ids[nt.Params.Subscription]
				var items []item
				if json.Unmarshal(nt.Params.Result, &items) != nil {
					e.violation("malformed-notification ledger.subscription", map[string]interface{}{"message": c18Short(raw, 300)})
					return
				}
				if len(items) > 0 && warmSet[items[0].Hash] {
					continue // a late delivery of the warm-up momentum
				}
				for _, it := range items {
					got[kind] = append(got[kind], it.Hash.String())
				}
			case <-deadline:
				e.c.Inconclusive(fmt.Sprintf("subscription events of momentum %d did not arrive within 30 s (got %d kinds of %d)", h, len(got), len(want)))
				return
			}
		}
		e.c.Eval(len(want))
		if !reflect.DeepEqual(got, want) {
			e.violation("wrong-subscription-events ledger.subscribe", map[string]interface{}{"momentum": h, "got": got, "want": want})
			return
		}
		e.c.Distinct(fmt.Sprintf("subscribe/events/kinds=%d/blocks=%d", len(want), c18Min(len(all), 3)))
	}
}

// c18FlattenBlocks: every block followed by its descendant blocks (the event order of the subscription API).
func c18FlattenBlocks(l []*nom.AccountBlock) []*nom.AccountBlock {
	var out []*nom.AccountBlock
	for _, b := range l {
		out = append(out, b)
		out = append(out, c18FlattenBlocks(b.DescendantBlocks)...)
	}
	return out
}

// c18MethodOfID finds the method of the request element(s) carrying the given id in a body that may hold
// several values and batches. "?" when there is none or they differ.
func c18MethodOfID(body []byte, id string) string {
	type el struct {
		ID     json.RawMessage `json:"id"`
		Method string          `json:"method"`
	}
	found := map[string]bool{}
	dec := json.NewDecoder(bytes.NewReader(body))
	for {
		var raw json.RawMessage
		if dec.Decode(&raw) != nil {
			break
		}
		var list []json.RawMessage
		t := bytes.TrimSpace(raw)
		if len(t) > 0 && t[0] == '[' {
			_ = json.Unmarshal(t, &list)
		} else {
			list = []json.RawMessage{raw}
		}
		for _, r := range list {
			var x el
			if json.Unmarshal(r, &x) == nil && x.Method != "" && string(x.ID) == id {
				found[x.Method] = true
			}
		}
	}
	if len(found) == 1 {
		for m := range found {
			return m
		}
	}
	return "?"
}

// c18OwesResponse reads the first value of a request body by the letter of JSON-RPC 2.0: a response is owed unless
// the value is a notification (a method and no id member), or has the form of a response itself, or is a batch of such.
func c18OwesResponse(body []byte) bool {
	dec := json.NewDecoder(bytes.NewReader(body))
	var raw json.RawMessage
	if dec.Decode(&raw) != nil {
		return false
	}
	one := func(v json.RawMessage) bool {
		var m map[string]json.RawMessage
		if json.Unmarshal(v, &m) != nil {
			return true // not an object: invalid request
		}
		var method string
		if mr, ok := m["method"]; ok {
			_ = json.Unmarshal(mr, &method)
		}
		_, hasID := m["id"]
		if method != "" {
			return hasID
		}
		_, hasRes := m["result"]
		_, hasErr := m["error"]
		if hasID && (hasRes || hasErr) {
			return false // a response sent to the server
		}
		return true
	}
	t := bytes.TrimSpace(raw)
	if len(t) > 0 && t[0] == '[' {
		var list []json.RawMessage
		if json.Unmarshal(t, &list) != nil || len(list) == 0 {
			return true
		}
		for _, v := range list {
			if one(v) {
				return true
			}
		}
		return false
	}
	return one(raw)
}
