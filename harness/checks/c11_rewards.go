package checks

// C11 — rewards: bounded by the epoch's emission, paid once, identical on all nodes.
//
// A producer node P (all pillar keys) builds real histories with shortened
// epochs; a follower F is fed through InsertChain. A monitor on P looks at every
// receive block of the four reward contracts (pillar, sentinel, stake,
// liquidity) and diffs the contract's reward state (epoch cursor, last-update
// height, RewardDepositHistory entries, RewardDeposit entries) before / after
// that block. The definition.* getters and the ABI are used as decoders only;
// the rules (which epochs may be credited, how much an epoch may emit, what a
// collect has to mint) are re-stated here from a literal copy of the emission
// table and checked with math/big.

import (
	"bytes"
	"encoding/binary"
	"fmt"
	"math/big"
	"math/rand"
	"os"
	"runtime"
	"sort"
	"strings"
	"time"

	g "github.com/zenon-network/go-zenon/chain/genesis/mock"
	"github.com/zenon-network/go-zenon/chain/nom"
	"github.com/zenon-network/go-zenon/common/db"
	"github.com/zenon-network/go-zenon/common/types"
	"github.com/zenon-network/go-zenon/consensus"
	"github.com/zenon-network/go-zenon/vm/abi"
	"github.com/zenon-network/go-zenon/vm/constants"
	"github.com/zenon-network/go-zenon/vm/embedded/definition"
	"github.com/zenon-network/go-zenon/wallet"

	"verif/harness/fw"
	"verif/harness/simnet"
)

func init() {
	fw.Register(&fw.Check{
		ID:    "C11",
		Level: "exploration",
		Rule: "each case is one PRNG-driven chain history on a producer node (all pillar keys) with consensus.EpochDuration of 2-5 election ticks (60-150 slots), " +
			"calm and stormy stretches of missed slots and multi-epoch gaps, stakes / sentinels / pillars / liquidity stakes entering and leaving, delegations and balances moving, " +
			"Update sent manually at arbitrary times, CollectReward before / after updates and twice in a row; a follower is fed by InsertChain in lockstep, lagged with restarts, " +
			"only at the end, while the producer restarts, or is itself forked onto short branches of its own and reorganised back (mode reorg); " +
			"case kind 'hist' runs without sporks (original liquidity Update), kind 'spork' activates the BridgeAndLiquidity spork and sets up liquidity staking; " +
			"distinct_nontrivial counts distinct (contract, number of epochs credited by one Update, beneficiary-count class) triples, " +
			"distinct (contract, collect outcome shape) pairs, refused-early-Update contracts, reorg depths and (epoch ticks, follower mode) pairs of histories with >= 5 rewarded epochs actually observed",
		Cases:       c11Cases,
		Run:         c11Run,
		MinDistinct: 60, // a world in which rewards never happen yields < 20
		Assumptions: []string{
			"lock / revoke windows (constants.PillarEpochLockTime, PillarEpochRevokeTime, SentinelLockTimeWindow, SentinelRevokeTimeWindow, StakeTimeUnitSec/Min/Max) are shortened through their process globals, like the repository's own tests do, so that leaving is reachable; every reward constant (emission tables, percentages, RewardTimeLimit, UpdateMinNumMomentums, MomentumsPerEpoch) is left untouched",
			"kind 'hist': no spork is active, the liquidity contract runs its original Update (the epoch emission is minted to the contract itself, observed as mint descendants of the Update receive). kind 'spork': only the BridgeAndLiquidity spork is activated (by the genesis spork address, ids registered in types.ImplementedSporksMap / types.BridgeAndLiquiditySpork like the repository's tests do); the security constants InitialBridgeAdministrator, MinGuardians, MinAdministratorDelay, MinSoftDelay are shortened the same way so that token tuples (ZNN and QSR as stakeable tokens) can be installed; SetAdditionalReward and SetIsHalted are not exercised, so a liquidity epoch is bounded by the emission table alone",
			"an epoch of 1 election tick is not explorable: consensus.newPoints computes lastCompletedEpoch = -2 when the epoch/period multiplier is 1 and the node panics in chainTicker.HasStarted on the first momentum (reported, not part of this property)",
			"an epoch counts as skipped only when the monitor can name a beneficiary that was registered for the whole epoch (pillar registered at genesis and never revoked; stake entry overlapping the epoch; sentinel registered before and not revoked until after the epoch) and the Update moved the cursor past the epoch without writing any history entry for it",
			"the order of credits inside one Update receive is not observable from state; order is checked across Updates (cursor ranges) and, for liquidity, on the ordered mint descendants",
			"reorganisations are exercised on the follower only (depth 1-6, the producer's chain is never rolled back)",
		},
	})
}

// ---------------------------------------------------------------------------
// literal emission table (copied by hand from vm/constants/embedded.go)

// network ZNN emission per epoch, by reward tick (tick = epoch / 30), base units (1e-8 ZNN)
var c11ZnnPerEpoch = []string{
	"1440000000000", // 10 * 8640 / 6 = 14400 ZNN
	"864000000000",  //  6 * 8640 / 6 =  8640 ZNN
	"720000000000",  //  5
	"1008000000000", //  7
	"720000000000",  //  5
	"576000000000",  //  4
	"1008000000000", //  7
	"576000000000",  //  4
	"432000000000",  //  3
	"1008000000000", //  7
	"432000000000",  //  3 (and for ever after)
}

// network QSR emission per epoch, by reward tick
var c11QsrPerEpoch = []string{
	"2000000000000", // 20000 QSR
	"2000000000000",
	"2000000000000",
	"2000000000000",
	"1500000000000", // 15000 QSR
	"1500000000000",
	"1500000000000",
	"500000000000", // 5000 QSR (and for ever after)
}

const (
	c11RewardTickEpochs     = 30   // epochs per reward tick
	c11MomentumsPerDayEpoch = 8640 // divisor of the per-momentum pillar amounts
	c11DelegationZnnPct     = 24
	c11ProducingZnnPct      = 50
	c11SentinelZnnPct       = 13
	c11LiquidityZnnPct      = 13
	c11StakeQsrPct          = 50
	c11SentinelQsrPct       = 25
	c11LiquidityQsrPct      = 25
	c11UpdateMinMomentums   = 300  // minimum momentum distance between two effective Updates
	c11RewardGraceSec       = 3600 // an epoch may be rewarded once the chain is this far past its end
	c11SlotSec              = 10
	c11ElectionTickSec      = 300 // 30 slots
)

func c11big(s string) *big.Int {
	v, ok := new(big.Int).SetString(s, 10)
	if !ok {
		panic("c11: bad literal " + s)
	}
	return v
}

func c11tableAt(table []string, epoch uint64) *big.Int {
	tick := epoch / c11RewardTickEpochs
	if tick >= uint64(len(table)) {
		tick = uint64(len(table) - 1)
	}
	return c11big(table[tick])
}

func c11pct(v *big.Int, pct int64) *big.Int {
	r := new(big.Int).Mul(v, big.NewInt(pct))
	return r.Quo(r, big.NewInt(100))
}

// c11Bound is the protocol emission of one contract for one epoch.
func c11Bound(contract string, epoch uint64, slotsPerEpoch int64) c11Amt {
	z := c11tableAt(c11ZnnPerEpoch, epoch)
	q := c11tableAt(c11QsrPerEpoch, epoch)
	switch contract {
	case "pillar":
		d := c11pct(z, c11DelegationZnnPct)
		d.Quo(d, big.NewInt(c11MomentumsPerDayEpoch))
		p := c11pct(z, c11ProducingZnnPct)
		p.Quo(p, big.NewInt(c11MomentumsPerDayEpoch))
		per := new(big.Int).Add(d, p)
		return c11Amt{new(big.Int).Mul(per, big.NewInt(slotsPerEpoch)), big.NewInt(0)}
	case "sentinel":
		return c11Amt{c11pct(z, c11SentinelZnnPct), c11pct(q, c11SentinelQsrPct)}
	case "stake":
		return c11Amt{big.NewInt(0), c11pct(q, c11StakeQsrPct)}
	case "liquidity":
		return c11Amt{c11pct(z, c11LiquidityZnnPct), c11pct(q, c11LiquidityQsrPct)}
	}
	panic("c11: unknown contract " + contract)
}

// ---------------------------------------------------------------------------
// cases

var c11Modes = []string{"lockstep", "lagged", "late", "prestart", "reorg"}

func c11Cases(tier string, seed int64) []string {
	n := 32
	if tier == "thorough" {
		n = 384
	}
	var l []string
	for i := 0; i < n; i++ {
		ticks := 2 + i%4 // a 1-tick epoch is not explorable: consensus.newPoints panics on the first momentum (see final report)
		mode := c11Modes[(i/4)%len(c11Modes)]
		kind := "hist"
		if i%5 == 4 {
			kind = "spork"
		}
		l = append(l, fmt.Sprintf("%s:t%d:%s:%d", kind, ticks, mode, i))
	}
	return l
}

// ---------------------------------------------------------------------------
// state of one reward contract as seen through its storage

type c11Amt struct{ Znn, Qsr *big.Int }

func c11zero() c11Amt { return c11Amt{big.NewInt(0), big.NewInt(0)} }
func (a c11Amt) isZero() bool {
	return (a.Znn == nil || a.Znn.Sign() == 0) && (a.Qsr == nil || a.Qsr.Sign() == 0)
}
func (a c11Amt) add(b c11Amt) c11Amt {
	return c11Amt{new(big.Int).Add(a.Znn, b.Znn), new(big.Int).Add(a.Qsr, b.Qsr)}
}
func (a c11Amt) sub(b c11Amt) c11Amt {
	return c11Amt{new(big.Int).Sub(a.Znn, b.Znn), new(big.Int).Sub(a.Qsr, b.Qsr)}
}
func (a c11Amt) eq(b c11Amt) bool { return a.Znn.Cmp(b.Znn) == 0 && a.Qsr.Cmp(b.Qsr) == 0 }
func (a c11Amt) String() string   { return a.Znn.String() + "znn/" + a.Qsr.String() + "qsr" }

type c11HistKey struct {
	Epoch uint64
	Addr  types.Address
}

type c11Span struct {
	Owner      types.Address
	Start, End int64 // End == 0: open
}

type c11State struct {
	cursor     int64
	lastUpdate uint64
	hist       map[c11HistKey]c11Amt
	dep        map[types.Address]c11Amt
	bal        c11Amt
	spans      []c11Span // beneficiaries registered in the contract (pillars / sentinels / stake entries)
}

var (
	c11prefixDeposit = []byte{128}
	c11prefixHistory = []byte{132}
)

type c11amountPair struct {
	Znn *big.Int
	Qsr *big.Int
}

func c11Scan(name string, st db.DB) (*c11State, error) {
	s := &c11State{hist: map[c11HistKey]c11Amt{}, dep: map[types.Address]c11Amt{}}
	cur, err := definition.GetLastEpochUpdate(st)
	if err != nil {
		return nil, err
	}
	s.cursor = cur.LastEpoch
	lu, err := definition.GetLastUpdate(st)
	if err != nil {
		return nil, err
	}
	s.lastUpdate = lu.Height

	it := st.NewIterator(c11prefixHistory)
	for it.Next() {
		k, v := it.Key(), it.Value()
		if len(v) == 0 {
			continue
		}
		if len(k) != 1+types.AddressSize+8 {
			it.Release()
			return nil, fmt.Errorf("history key of length %d", len(k))
		}
		addr, err := types.BytesToAddress(k[1 : 1+types.AddressSize])
		if err != nil {
			it.Release()
			return nil, err
		}
		epoch := binary.LittleEndian.Uint64(k[1+types.AddressSize:])
		e := new(c11amountPair)
		if err := definition.ABICommon.UnpackVariable(e, definition.RewardDepositHistoryVariableName, v); err != nil {
			it.Release()
			return nil, err
		}
		s.hist[c11HistKey{epoch, addr}] = c11Amt{e.Znn, e.Qsr}
	}
	if err := it.Error(); err != nil {
		it.Release()
		return nil, err
	}
	it.Release()

	it = st.NewIterator(c11prefixDeposit)
	for it.Next() {
		k, v := it.Key(), it.Value()
		if len(v) == 0 {
			continue
		}
		if len(k) != 1+types.AddressSize {
			it.Release()
			return nil, fmt.Errorf("deposit key of length %d", len(k))
		}
		addr, err := types.BytesToAddress(k[1:])
		if err != nil {
			it.Release()
			return nil, err
		}
		e := new(c11amountPair)
		if err := definition.ABICommon.UnpackVariable(e, definition.RewardDepositVariableName, v); err != nil {
			it.Release()
			return nil, err
		}
		s.dep[addr] = c11Amt{e.Znn, e.Qsr}
	}
	if err := it.Error(); err != nil {
		it.Release()
		return nil, err
	}
	it.Release()

	switch name {
	case "pillar":
		list, err := definition.GetPillarsList(st, false, definition.AnyPillarType)
		if err != nil {
			return nil, err
		}
		for _, p := range list {
			s.spans = append(s.spans, c11Span{p.RewardWithdrawAddress, p.RegistrationTime, p.RevokeTime})
		}
	case "sentinel":
		err := definition.IterateSentinelEntries(st, func(i *definition.SentinelInfo) error {
			s.spans = append(s.spans, c11Span{i.Owner, i.RegistrationTimestamp, i.RevokeTimestamp})
			return nil
		})
		if err != nil {
			return nil, err
		}
	case "stake":
		err := definition.IterateStakeEntries(st, func(i *definition.StakeInfo) error {
			s.spans = append(s.spans, c11Span{i.StakeAddress, i.StartTime, i.RevokeTime})
			return nil
		})
		if err != nil {
			return nil, err
		}
	case "liquidity":
		for _, i := range definition.GetAllLiquidityStakeEntries(st) {
			s.spans = append(s.spans, c11Span{i.StakeAddress, i.StartTime, i.RevokeTime})
		}
	}
	return s, nil
}

// ---------------------------------------------------------------------------
// monitor

type c11Contract struct {
	name string
	addr types.Address
	abi  abi.ABIContract
	st   *c11State
	// model kept by the monitor
	credited    map[uint64]bool          // epochs credited so far
	creditedSum map[uint64]c11Amt        // per epoch, cumulative credited amounts
	owed        map[types.Address]c11Amt // credited and not yet collected, per beneficiary
	collected   map[types.Address]bool   // last successful collect not followed by a new credit
	updates     int
}

type c11Mint struct {
	Contract string
	Receiver types.Address
	Zts      types.ZenonTokenStandard
	Amount   *big.Int
	Why      string // collect | liquidity-update
}

type c11Mon struct {
	c       *fw.C
	caseID  string
	P       *simnet.Node
	genesis int64
	epoch   int64 // epoch duration, seconds
	slots   int64 // slots per epoch

	cts  []*c11Contract
	byAd map[types.Address]*c11Contract

	pendingMint map[types.Hash]*c11Mint // contract -> token contract mint requests not yet received by the token contract
	arrivals    map[types.Hash]*c11Mint // token contract -> receiver sends not yet received

	manual map[types.Hash]bool // Update sends made by the workload's users (all others come from the producing pillar)

	trace []string
	seen  map[string]bool
	fatal bool

	selUpdate, selCollect, selMint []byte

	stats map[string]int
}

func c11NewMon(c *fw.C, caseID string, P *simnet.Node, epochSec int64) *c11Mon {
	m := &c11Mon{c: c, caseID: caseID, P: P, epoch: epochSec, slots: epochSec / c11SlotSec,
		byAd: map[types.Address]*c11Contract{}, pendingMint: map[types.Hash]*c11Mint{}, arrivals: map[types.Hash]*c11Mint{},
		seen: map[string]bool{}, stats: map[string]int{}, manual: map[types.Hash]bool{}}
	m.genesis = P.Chain.GetGenesisMomentum().Timestamp.Unix()
	m.selUpdate = definition.ABICommon.PackMethodPanic(definition.UpdateMethodName)[:4]
	m.selCollect = definition.ABICommon.PackMethodPanic(definition.CollectRewardMethodName)[:4]
	m.selMint = definition.ABIToken.PackMethodPanic(definition.MintMethodName, types.ZnnTokenStandard, big.NewInt(1), types.TokenContract)[:4]
	for _, d := range []struct {
		n string
		a types.Address
		i abi.ABIContract
	}{{"pillar", types.PillarContract, definition.ABIPillars}, {"sentinel", types.SentinelContract, definition.ABISentinel},
		{"stake", types.StakeContract, definition.ABIStake}, {"liquidity", types.LiquidityContract, definition.ABILiquidity}} {
		ct := &c11Contract{name: d.n, addr: d.a, abi: d.i, credited: map[uint64]bool{}, creditedSum: map[uint64]c11Amt{},
			owed: map[types.Address]c11Amt{}, collected: map[types.Address]bool{}}
		st, err := m.scanFrontier(ct)
		if err != nil {
			panic(fmt.Sprintf("c11: cannot scan %s at genesis: %v", d.n, err))
		}
		ct.st = st
		for a, v := range st.dep {
			ct.owed[a] = v
		}
		for k := range st.hist {
			ct.credited[k.Epoch] = true
		}
		m.cts = append(m.cts, ct)
		m.byAd[d.a] = ct
	}
	return m
}

func (m *c11Mon) scanFrontier(ct *c11Contract) (*c11State, error) {
	as := m.P.Chain.GetFrontierAccountStore(ct.addr)
	st, err := c11Scan(ct.name, as.Storage())
	if err != nil {
		return nil, err
	}
	z, err := as.GetBalance(types.ZnnTokenStandard)
	if err != nil {
		return nil, err
	}
	q, err := as.GetBalance(types.QsrTokenStandard)
	if err != nil {
		return nil, err
	}
	st.bal = c11Amt{z, q}
	return st, nil
}

func (m *c11Mon) logf(format string, a ...interface{}) {
	m.trace = append(m.trace, fmt.Sprintf(format, a...))
	if len(m.trace) > 400 {
		m.trace = append([]string(nil), m.trace[200:]...)
	}
}

func (m *c11Mon) violate(sig string, detail map[string]interface{}) {
	if m.seen[sig] {
		return
	}
	m.seen[sig] = true
	tr := m.trace
	if len(tr) > 40 {
		tr = tr[len(tr)-40:]
	}
	d := make(map[string]interface{}, len(detail)+4) // callers reuse their maps
	for k, v := range detail {
		d[k] = v
	}
	d["case"] = m.caseID
	d["epoch_duration_sec"] = m.epoch
	d["producer_height"] = m.P.Height()
	d["trace_tail"] = append([]string(nil), tr...)
	m.c.Violation(sig, d)
}

func (m *c11Mon) epochTimes(e uint64) (int64, int64) {
	return m.genesis + int64(e)*m.epoch, m.genesis + int64(e+1)*m.epoch
}

func (m *c11Mon) decodeMint(b *nom.AccountBlock) *definition.MintParam {
	if b.ToAddress != types.TokenContract || len(b.Data) < 4 || !bytes.Equal(b.Data[:4], m.selMint) {
		return nil
	}
	p := new(definition.MintParam)
	if err := definition.ABIToken.UnpackMethod(p, definition.MintMethodName, b.Data); err != nil {
		return nil
	}
	return p
}

// onBlock is installed as P.OnBlock: it sees every account block P inserted, right after the insertion.
func (m *c11Mon) onBlock(b *nom.AccountBlock, _ db.Patch, err error) {
	if err != nil || b == nil || m.fatal {
		return
	}
	if b.BlockType != nom.BlockTypeContractReceive {
		return
	}
	if b.Address == types.TokenContract {
		m.onTokenReceive(b)
		return
	}
	if ct := m.byAd[b.Address]; ct != nil {
		m.onRewardContractBlock(ct, b)
	}
}

func (m *c11Mon) onTokenReceive(b *nom.AccountBlock) {
	pm := m.pendingMint[b.FromBlockHash]
	if pm == nil {
		return
	}
	delete(m.pendingMint, b.FromBlockHash)
	m.c.Eval(1)
	ok := len(b.DescendantBlocks) == 1
	if ok {
		d := b.DescendantBlocks[0]
		ok = d.ToAddress == pm.Receiver && d.TokenStandard == pm.Zts && d.Amount != nil && d.Amount.Cmp(pm.Amount) == 0
	}
	if !ok {
		var got []string
		for _, d := range b.DescendantBlocks {
			got = append(got, fmt.Sprintf("%v %v -> %v", d.Amount, d.TokenStandard, d.ToAddress))
		}
		m.violate("mint-request-not-honoured "+pm.Contract, map[string]interface{}{
			"why": pm.Why, "requested_amount": pm.Amount.String(), "token": pm.Zts.String(), "receiver": pm.Receiver.String(), "token_contract_descendants": got})
		return
	}
	m.arrivals[b.DescendantBlocks[0].Hash] = pm
}

func (m *c11Mon) onRewardContractBlock(ct *c11Contract, b *nom.AccountBlock) {
	ms := m.P.Chain.GetFrontierMomentumStore()
	send, err := ms.GetAccountBlockByHash(b.FromBlockHash)
	if err != nil || send == nil {
		m.fatal = true
		m.c.Inconclusive(fmt.Sprintf("monitor: cannot find send block of %s receive: %v", ct.name, err))
		return
	}
	ack, err := ms.GetMomentumByHash(b.MomentumAcknowledged.Hash)
	if err != nil || ack == nil {
		m.fatal = true
		m.c.Inconclusive(fmt.Sprintf("monitor: cannot find acknowledged momentum: %v", err))
		return
	}
	kind := "other"
	if len(send.Data) >= 4 {
		switch {
		case bytes.Equal(send.Data[:4], m.selUpdate):
			kind = "update"
		case bytes.Equal(send.Data[:4], m.selCollect):
			kind = "collect"
		}
	}
	methodName := "?"
	if meth, err := ct.abi.MethodById(send.Data); err == nil {
		methodName = meth.Name
	}
	status := "status?"
	if len(b.Data) == 8 {
		switch binary.BigEndian.Uint64(b.Data) { // receive status written by the VM: 1 success, 2 method error
		case 1:
			status = "ok"
		case 2:
			status = "failed"
		}
	}
	m.c.SetAdd("receive-outcomes", ct.name+"."+methodName+" "+status)
	m.stats["received "+ct.name+"."+methodName+" "+status]++
	prev := ct.st
	cur, err := m.scanFrontier(ct)
	if err != nil {
		m.fatal = true
		m.c.Inconclusive(fmt.Sprintf("monitor: cannot scan %s: %v", ct.name, err))
		return
	}
	ct.st = cur
	m.c.Eval(1)

	// mint requests among the descendants
	var mints []*definition.MintParam
	for _, d := range b.DescendantBlocks {
		if p := m.decodeMint(d); p != nil {
			mints = append(mints, p)
			if d.Amount != nil && d.Amount.Sign() != 0 {
				m.violate("mint-request-carries-value "+ct.name, map[string]interface{}{"amount": d.Amount.String()})
			}
		}
	}

	// --- history diff
	histDelta := map[uint64]map[types.Address]c11Amt{}
	for k, v := range cur.hist {
		old, ok := prev.hist[k]
		if !ok {
			old = c11zero()
		}
		d := v.sub(old)
		if d.Znn.Sign() < 0 || d.Qsr.Sign() < 0 {
			m.violate("history-entry-decreased "+ct.name, map[string]interface{}{"epoch": k.Epoch, "address": k.Addr.String(), "before": old.String(), "after": v.String(), "by": kind})
			continue
		}
		if ok && d.isZero() {
			continue
		}
		if histDelta[k.Epoch] == nil {
			histDelta[k.Epoch] = map[types.Address]c11Amt{}
		}
		histDelta[k.Epoch][k.Addr] = d
	}
	for k, old := range prev.hist {
		if _, ok := cur.hist[k]; !ok {
			m.violate("history-entry-decreased "+ct.name, map[string]interface{}{"epoch": k.Epoch, "address": k.Addr.String(), "before": old.String(), "after": "absent", "by": kind})
		}
	}
	var epochs []uint64
	for e := range histDelta {
		epochs = append(epochs, e)
	}
	sort.Slice(epochs, func(i, j int) bool { return epochs[i] < epochs[j] })

	// --- deposit diff
	depDelta := map[types.Address]c11Amt{}
	for a, v := range cur.dep {
		old, ok := prev.dep[a]
		if !ok {
			old = c11zero()
		}
		if d := v.sub(old); !d.isZero() {
			depDelta[a] = d
		}
	}
	for a, old := range prev.dep {
		if _, ok := cur.dep[a]; !ok && !old.isZero() {
			depDelta[a] = c11zero().sub(old)
		}
	}

	m.logf("h=%d %s %s from=%s ack=%d cursor %d->%d lastUpdate %d->%d epochs=%v mints=%d depChanges=%d",
		m.P.Height(), ct.name, kind, c11short(send.Address), ack.Height, prev.cursor, cur.cursor, prev.lastUpdate, cur.lastUpdate, epochs, len(mints), len(depDelta))

	if cur.cursor < prev.cursor {
		m.violate("cursor-moved-backwards "+ct.name, map[string]interface{}{"before": prev.cursor, "after": cur.cursor, "by": kind})
	}

	switch kind {
	case "update":
		m.checkUpdate(ct, b, send, ack, prev, cur, histDelta, epochs, depDelta, mints)
	case "collect":
		m.checkCollect(ct, b, send, prev, cur, histDelta, depDelta, mints)
	default:
		if len(histDelta) != 0 {
			m.violate("history-changed-outside-update "+ct.name, map[string]interface{}{"epochs": epochs, "send_data": fmt.Sprintf("%x", send.Data)})
		}
		if cur.cursor != prev.cursor {
			m.violate("cursor-changed-outside-update "+ct.name, map[string]interface{}{"before": prev.cursor, "after": cur.cursor, "send_data": fmt.Sprintf("%x", send.Data)})
		}
		if len(depDelta) != 0 {
			m.violate("deposit-changed-outside-update-or-collect "+ct.name, map[string]interface{}{"send_data": fmt.Sprintf("%x", send.Data)})
		}
		if len(mints) != 0 {
			m.violate("mint-outside-update-or-collect "+ct.name, map[string]interface{}{"send_data": fmt.Sprintf("%x", send.Data), "mints": len(mints)})
		}
		// arrival of an emission minted to the contract itself (liquidity)
		if pm := m.arrivals[b.FromBlockHash]; pm != nil {
			delete(m.arrivals, b.FromBlockHash)
			m.c.Eval(1)
			got := cur.bal.sub(prev.bal)
			want := c11zero()
			if pm.Zts == types.ZnnTokenStandard {
				want.Znn = pm.Amount
			} else {
				want.Qsr = pm.Amount
			}
			if !got.eq(want) {
				m.violate("minted-amount-not-arrived "+ct.name, map[string]interface{}{"expected_delta": want.String(), "balance_delta": got.String()})
			}
			m.stats["arrivals-contract"]++
		}
	}

	// the collectable deposit of every beneficiary equals what was credited and not yet collected
	for a, v := range cur.dep {
		o, ok := ct.owed[a]
		if !ok {
			o = c11zero()
		}
		if !o.eq(v) {
			m.violate("deposit-differs-from-credited "+ct.name, map[string]interface{}{"address": a.String(), "deposit": v.String(), "credited_uncollected": o.String(), "after": kind})
			if kind != "collect" { // after a collect the model stays at "nothing owed": a repeated collect that mints is its own finding
				ct.owed[a] = v
			}
		}
	}
	for a, o := range ct.owed {
		if _, ok := cur.dep[a]; !ok && !o.isZero() {
			m.violate("deposit-differs-from-credited "+ct.name, map[string]interface{}{"address": a.String(), "deposit": "absent", "credited_uncollected": o.String(), "after": kind})
			ct.owed[a] = c11zero()
		}
	}
}

func c11short(a types.Address) string {
	s := a.String()
	return s[len(s)-6:]
}

func (m *c11Mon) checkUpdate(ct *c11Contract, b, send *nom.AccountBlock, ack *nom.Momentum, prev, cur *c11State,
	histDelta map[uint64]map[types.Address]c11Amt, epochs []uint64, depDelta map[types.Address]c11Amt, mints []*definition.MintParam) {

	early := ack.Height < prev.lastUpdate+c11UpdateMinMomentums
	changed := len(histDelta) != 0 || len(depDelta) != 0 || len(mints) != 0 || cur.cursor != prev.cursor || cur.lastUpdate != prev.lastUpdate
	if early {
		m.stats["early-update"]++
		m.c.Distinct("early-update-refused " + ct.name)
		if changed {
			m.violate("early-update-had-effect "+ct.name, map[string]interface{}{
				"ack_height": ack.Height, "last_update_height": prev.lastUpdate, "cursor_before": prev.cursor, "cursor_after": cur.cursor,
				"epochs_credited": epochs, "mints": len(mints), "sender": send.Address.String()})
		}
		return
	}
	ct.updates++
	m.stats["update "+ct.name]++
	e1, e2 := prev.cursor, cur.cursor
	ackTs := ack.Timestamp.Unix()

	type credit struct {
		epoch uint64
		amt   c11Amt
		n     int
	}
	byEpoch := map[uint64]*credit{}
	for _, e := range epochs {
		sum := c11zero()
		for _, d := range histDelta[e] {
			sum = sum.add(d)
		}
		byEpoch[e] = &credit{e, sum, len(histDelta[e])}
	}
	if ct.name == "liquidity" {
		// the part of an epoch's emission that no liquidity staker earns (all of it in the original Update) is minted to the
		// contract itself: at most one ZNN and one QSR mint request per epoch, in epoch order. Attribute the i-th request of
		// each token to epoch e1+1+i.
		var zn, qn []*big.Int
		for _, p := range mints {
			if p.ReceiveAddress != types.LiquidityContract {
				m.violate("update-mints-to-foreign-address liquidity", map[string]interface{}{"receiver": p.ReceiveAddress.String(), "amount": p.Amount.String()})
			}
			switch p.TokenStandard {
			case types.ZnnTokenStandard:
				zn = append(zn, p.Amount)
			case types.QsrTokenStandard:
				qn = append(qn, p.Amount)
			default:
				m.violate("update-mints-foreign-token liquidity", map[string]interface{}{"token": p.TokenStandard.String()})
			}
		}
		n := len(zn)
		if len(qn) > n {
			n = len(qn)
		}
		for i := 0; i < n; i++ {
			a := c11zero()
			if i < len(zn) {
				a.Znn = zn[i]
			}
			if i < len(qn) {
				a.Qsr = qn[i]
			}
			e := uint64(e1 + 1 + int64(i))
			if cr := byEpoch[e]; cr != nil {
				cr.amt = cr.amt.add(a)
				cr.n++
			} else {
				byEpoch[e] = &credit{e, a, 1}
			}
		}
		for _, d := range b.DescendantBlocks {
			m.pendingMintAdd(ct, d, "liquidity-update")
		}
	} else if len(mints) != 0 {
		m.violate("mint-outside-update-or-collect "+ct.name, map[string]interface{}{"by": "update", "mints": len(mints)})
	}
	var credits []credit
	for _, cr := range byEpoch {
		credits = append(credits, *cr)
	}
	sort.Slice(credits, func(i, j int) bool { return credits[i].epoch < credits[j].epoch })

	creditedNow := map[uint64]bool{}
	var list []uint64
	for _, cr := range credits {
		e := cr.epoch
		list = append(list, e)
		m.c.Eval(1)
		det := map[string]interface{}{"epoch": e, "cursor_before": e1, "cursor_after": e2, "credited": cr.amt.String(), "ack_height": ack.Height, "update_sender": send.Address.String()}
		if ct.credited[e] {
			det["previously_credited"] = ct.creditedSum[e].String()
			m.violate("epoch-credited-twice "+ct.name, det)
		} else if int64(e) <= e1 || int64(e) > e2 {
			m.violate("epoch-credited-outside-cursor-range "+ct.name, det)
		}
		_, end := m.epochTimes(e)
		if ackTs < end+c11RewardGraceSec {
			det["epoch_end"] = end
			det["ack_timestamp"] = ackTs
			m.violate("epoch-credited-before-due "+ct.name, det)
		}
		tot, ok := ct.creditedSum[e]
		if !ok {
			tot = c11zero()
		}
		tot = tot.add(cr.amt)
		ct.creditedSum[e] = tot
		bound := c11Bound(ct.name, e, m.slots)
		m.tightness(ct.name, "znn", tot.Znn, bound.Znn)
		m.tightness(ct.name, "qsr", tot.Qsr, bound.Qsr)
		if tot.Znn.Cmp(bound.Znn) > 0 {
			det["bound"] = bound.Znn.String()
			det["credited_total_for_epoch"] = tot.Znn.String()
			det["beneficiaries"] = cr.n
			m.violate("emission-exceeded "+ct.name+" znn", det)
		}
		if tot.Qsr.Cmp(bound.Qsr) > 0 {
			det["bound"] = bound.Qsr.String()
			det["credited_total_for_epoch"] = tot.Qsr.String()
			det["beneficiaries"] = cr.n
			m.violate("emission-exceeded "+ct.name+" qsr", det)
		}
		ct.credited[e] = true
		creditedNow[e] = true
		if !cr.amt.isZero() {
			m.stats["epochs-credited-nonzero "+ct.name]++
		}
		m.stats["epochs-credited "+ct.name]++
	}

	// none skipped: every epoch the cursor moved past must have been credited if the monitor can name a beneficiary
	var skipped []uint64
	for e := e1 + 1; e <= e2; e++ {
		if e < 0 || creditedNow[uint64(e)] {
			continue
		}
		if m.expectCredit(ct, uint64(e), prev) {
			skipped = append(skipped, uint64(e))
		}
	}
	if len(skipped) != 0 {
		m.violate("epoch-skipped "+ct.name, map[string]interface{}{"cursor_before": e1, "cursor_after": e2, "epochs_credited_by_this_update": list, "epochs_skipped": skipped,
			"ack_height": ack.Height, "update_sender": send.Address.String()})
	}

	// deposits move by exactly what the history says
	{
		perAddr := map[types.Address]c11Amt{}
		for _, e := range epochs {
			for a, d := range histDelta[e] {
				o, ok := perAddr[a]
				if !ok {
					o = c11zero()
				}
				perAddr[a] = o.add(d)
			}
		}
		for a, d := range perAddr {
			o, ok := ct.owed[a]
			if !ok {
				o = c11zero()
			}
			ct.owed[a] = o.add(d)
			if !d.isZero() {
				ct.collected[a] = false
			}
		}
	}

	nb := 0
	for _, cr := range credits {
		if cr.n > nb {
			nb = cr.n
		}
	}
	bc := "0"
	switch {
	case nb == 1:
		bc = "1"
	case nb >= 2 && nb <= 4:
		bc = "2-4"
	case nb > 4:
		bc = "5+"
	}
	m.c.Distinct(fmt.Sprintf("update %s epochs=%d beneficiaries=%s", ct.name, len(credits), bc))
	m.c.SetAdd("cursor-jumps "+ct.name, fmt.Sprintf("%d", e2-e1))
	if m.manual[send.Hash] {
		m.stats["effective-updates-sent-by-user"]++
	} else {
		m.stats["effective-updates-sent-by-pillar"]++
	}
}

// tightness records how close the credited total of an epoch came to its bound (coverage only).
func (m *c11Mon) tightness(ct, tok string, got, bound *big.Int) {
	if bound.Sign() == 0 {
		if got.Sign() == 0 {
			m.c.SetAdd("credited-vs-bound "+ct+" "+tok, "bound is 0, credited 0")
		}
		return
	}
	switch {
	case got.Cmp(bound) == 0:
		m.c.SetAdd("credited-vs-bound "+ct+" "+tok, "100% exactly")
	case got.Sign() == 0:
		m.c.SetAdd("credited-vs-bound "+ct+" "+tok, "0")
	default:
		pct := new(big.Int).Mul(got, big.NewInt(100))
		pct.Quo(pct, bound)
		d := pct.Int64() / 10 * 10
		if new(big.Int).Sub(bound, got).Cmp(big.NewInt(1000)) <= 0 {
			m.c.SetAdd("credited-vs-bound "+ct+" "+tok, "within 1000 base units (rounding dust) below the bound")
		} else {
			m.c.SetAdd("credited-vs-bound "+ct+" "+tok, fmt.Sprintf("%d-%d%%", d, d+10))
		}
	}
}

func (m *c11Mon) pendingMintAdd(ct *c11Contract, d *nom.AccountBlock, why string) {
	if p := m.decodeMint(d); p != nil {
		m.pendingMint[d.Hash] = &c11Mint{Contract: ct.name, Receiver: p.ReceiveAddress, Zts: p.TokenStandard, Amount: p.Amount, Why: why}
	}
}

// expectCredit: can the monitor name a beneficiary registered for the whole epoch (pre-Update state)?
func (m *c11Mon) expectCredit(ct *c11Contract, e uint64, prev *c11State) bool {
	start, end := m.epochTimes(e)
	switch ct.name {
	case "liquidity":
		return true
	case "pillar":
		for _, s := range prev.spans {
			if s.Start <= m.genesis && s.End == 0 {
				return true
			}
		}
	case "sentinel":
		for _, s := range prev.spans {
			if s.Start <= start && (s.End == 0 || s.End >= end) {
				return true
			}
		}
	case "stake":
		for _, s := range prev.spans {
			lo, hi := s.Start, end
			if lo < start {
				lo = start
			}
			if s.End != 0 && s.End < hi {
				hi = s.End
			}
			if lo < hi {
				return true
			}
		}
	}
	return false
}

func (m *c11Mon) checkCollect(ct *c11Contract, b, send *nom.AccountBlock, prev, cur *c11State,
	histDelta map[uint64]map[types.Address]c11Amt, depDelta map[types.Address]c11Amt, mints []*definition.MintParam) {

	caller := send.Address
	if len(histDelta) != 0 {
		m.violate("history-changed-outside-update "+ct.name, map[string]interface{}{"by": "collect"})
	}
	if cur.cursor != prev.cursor {
		m.violate("cursor-changed-outside-update "+ct.name, map[string]interface{}{"by": "collect", "before": prev.cursor, "after": cur.cursor})
	}
	owed, ok := ct.owed[caller]
	if !ok {
		owed = c11zero()
	}
	minted := c11zero()
	nz, nq := 0, 0
	foreign := false
	for _, p := range mints {
		if p.ReceiveAddress != caller {
			foreign = true
		}
		switch p.TokenStandard {
		case types.ZnnTokenStandard:
			minted.Znn = new(big.Int).Add(minted.Znn, p.Amount)
			nz++
		case types.QsrTokenStandard:
			minted.Qsr = new(big.Int).Add(minted.Qsr, p.Amount)
			nq++
		default:
			foreign = true
		}
	}
	valueCarrying := 0
	for _, d := range b.DescendantBlocks {
		if m.decodeMint(d) != nil || (d.Amount != nil && d.Amount.Sign() > 0) {
			valueCarrying++
		}
	}
	det := map[string]interface{}{"caller": caller.String(), "credited_uncollected": owed.String(), "deposit_before": c11depOf(prev, caller).String(),
		"deposit_after": c11depOf(cur, caller).String(), "minted": minted.String(), "mint_requests": len(mints)}
	shape := "nothing"
	if owed.isZero() {
		m.stats["collect-empty "+ct.name]++
		if valueCarrying != 0 {
			if ct.collected[caller] {
				m.violate("second-collect-mints "+ct.name, det)
			} else {
				m.violate("collect-mints-without-credit "+ct.name, det)
			}
		}
		if ct.collected[caller] {
			shape = "repeat-refused"
		}
	} else {
		m.stats["collect-paying "+ct.name]++
		switch {
		case len(mints) == 0:
			m.violate("collect-refused-with-credit "+ct.name, det)
		case foreign || nz > 1 || nq > 1 || !minted.eq(owed):
			m.violate("collect-mints-wrong-amount "+ct.name, det)
		}
		if !c11depOf(cur, caller).isZero() {
			m.violate("collect-leaves-deposit "+ct.name, det)
		}
		shape = "paid"
		if owed.Znn.Sign() > 0 {
			shape += "-znn"
		}
		if owed.Qsr.Sign() > 0 {
			shape += "-qsr"
		}
		if len(mints) != 0 {
			// whatever was requested is now out of the model; the deposit check below compares the rest
			ct.owed[caller] = c11zero()
			ct.collected[caller] = true
		}
	}
	for a := range depDelta {
		if a != caller {
			m.violate("collect-changed-foreign-deposit "+ct.name, map[string]interface{}{"caller": caller.String(), "changed": a.String()})
		}
	}
	for _, d := range b.DescendantBlocks {
		m.pendingMintAdd(ct, d, "collect")
	}
	m.c.Distinct("collect " + ct.name + " " + shape)
	m.c.Eval(1)
}

func c11depOf(s *c11State, a types.Address) c11Amt {
	if v, ok := s.dep[a]; ok {
		return v
	}
	return c11zero()
}

// ---------------------------------------------------------------------------
// world: producer, follower, workload

type c11World struct {
	c      *fw.C
	caseID string
	r      *rand.Rand
	mode   string
	P, F   *simnet.Node
	mon    *c11Mon

	actors   []*wallet.KeyPair
	received map[types.Hash]bool
	quiet    int
	failed   bool

	lastCmpCursors string
	syncs          int
	calmLeft       int
	spork          bool   // BridgeAndLiquidity spork active and token tuples installed
	forked         bool   // reorg mode: the follower is on its own branch since forkAt
	forkAt         uint64 // last common height
	forkLeft       int    // producer steps to wait before the follower is given the producer's branch
	longGaps       int
	maxLongGaps    int
	slotsElapsed   int64
	rq             *rand.Rand // PRNG of the read-only queries
	readOnP        bool
}

func c11SetGlobals(ticks int) {
	simnet.Setup()
	consensus.EpochDuration = time.Duration(ticks) * c11ElectionTickSec * time.Second
	// lock / revoke windows only (see Assumptions); reward constants stay as shipped
	constants.PillarEpochLockTime = 700
	constants.PillarEpochRevokeTime = 500
	constants.SentinelLockTimeWindow = 500
	constants.SentinelRevokeTimeWindow = 400
	constants.StakeTimeUnitSec = 300
	constants.StakeTimeMinSec = constants.StakeTimeUnitSec
	constants.StakeTimeMaxSec = constants.StakeTimeUnitSec * 12
	// security set-up of the liquidity contract (only reachable in the 'spork' kind)
	constants.InitialBridgeAdministrator = g.User5.Address
	constants.MinGuardians = 4
	constants.MinAdministratorDelay = 20
	constants.MinSoftDelay = 10
}

func c11Run(c *fw.C, caseID string) {
	var ticks, idx int
	var mode string
	parts := strings.Split(caseID, ":")
	if len(parts) != 4 {
		panic("c11: bad case id " + caseID)
	}
	kind := parts[0]
	fmt.Sscanf(parts[1], "t%d", &ticks)
	mode = parts[2]
	fmt.Sscanf(parts[3], "%d", &idx)
	c11SetGlobals(ticks)
	// one history is sequential work; 16 children with 16 GC workers each only fight for the cores
	runtime.GOMAXPROCS(4)

	r := c.Rand(caseID)
	dirP := c.ScratchDir("c11-P")
	dirF := c.ScratchDir("c11-F")
	defer os.RemoveAll(dirP)
	defer os.RemoveAll(dirF)
	P := simnet.Open("P", dirP, simnet.MockGenesis(), g.PillarKeys)
	var fKeys []*wallet.KeyPair
	if mode == "reorg" {
		fKeys = g.PillarKeys // the follower builds short branches of its own and is then reorganised onto the producer's chain
	}
	F := simnet.Open("F", dirF, simnet.MockGenesis(), fKeys)
	defer P.Stop()
	defer F.Stop()

	w := &c11World{c: c, caseID: caseID, r: r, mode: mode, P: P, F: F, received: map[types.Hash]bool{}}
	w.mon = c11NewMon(c, caseID, P, int64(ticks)*c11ElectionTickSec)
	P.OnBlock = w.mon.onBlock
	w.actors = []*wallet.KeyPair{g.User1, g.User2, g.User3, g.User4, g.User5, g.Spork,
		g.Pillar1, g.Pillar2, g.Pillar3, g.Pillar4, g.Pillar5, g.Pillar6, g.Pillar7, g.Pillar8}
	w.maxLongGaps = 1 + r.Intn(3)
	if r.Intn(2) == 0 {
		w.calmLeft = 150 + r.Intn(250)
	}

	steps := 1100 + r.Intn(500)
	if kind == "spork" {
		w.sporkSetup()
	}
	for i := 0; i < steps && !w.failed && !w.mon.fatal; i++ {
		w.step()
	}
	// drain: let every outstanding receive, mint and arrival happen (an Update may still fire while draining)
	w.quiet = 1 << 30
	for i := 0; i < 80 && !w.failed && !w.mon.fatal; i++ {
		if i >= 8 && len(w.mon.pendingMint) == 0 && len(w.mon.arrivals) == 0 && len(w.P.Chain.GetAllUncommittedAccountBlocks()) == 0 {
			break
		}
		w.step()
	}
	if !w.failed && !w.mon.fatal {
		w.syncFollower(true)
		w.finish()
	}
	for k, v := range w.mon.stats {
		c.Count(k, v)
	}
	c.Count("momentums", int(P.Height()))
	c.Count("slots-elapsed", int(w.slotsElapsed))
}

func (w *c11World) step() {
	if w.quiet > 0 {
		w.quiet--
	} else {
		if w.r.Intn(100) < 40 {
			n := 1 + w.r.Intn(3)
			for k := 0; k < n; k++ {
				w.randomAction()
			}
		}
	}
	if w.quiet == 0 {
		// a user's Update that gets confirmed exactly when the minimum distance is reached runs before the pillar's own one
		for _, ct := range w.mon.cts {
			if w.P.Height()+1 == ct.st.lastUpdate+c11UpdateMinMomentums && w.r.Intn(3) == 0 {
				w.call(w.pick(), ct.addr, types.ZnnTokenStandard, big.NewInt(0), definition.ABICommon.PackMethodPanic(definition.UpdateMethodName), "manual-update "+ct.name)
			}
		}
	}
	w.autoReceive()
	w.produce()
	if w.failed {
		return
	}
	w.readStats()
	w.syncFollower(false)
	if w.mode == "prestart" && w.quiet == 0 && w.r.Intn(350) == 0 {
		w.quiet = 4
	}
	if w.mode == "prestart" && w.quiet == 1 && len(w.P.Chain.GetAllUncommittedAccountBlocks()) == 0 {
		w.P.Restart()
		w.mon.stats["producer-restarts"]++
	}
}

// readStats: read-only consensus queries, as the pillar RPC (getAll / getByName) issues them, on ONE of the two nodes.
// Rewards are a function of the chain alone, so serving such requests must not change what a node credits later.
// The queries use their own PRNG and never touch the history's.
func (w *c11World) readStats() {
	if w.rq == nil {
		w.rq = rand.New(rand.NewSource(fw.SeedFor(w.c.Seed, "c11-reads/"+w.caseID)))
		w.readOnP = w.rq.Intn(2) == 0
	}
	if w.rq.Intn(12) != 0 {
		return
	}
	n := w.F
	if w.readOnP {
		n = w.P
	}
	if n == nil || (n == w.F && w.forked) {
		return
	}
	defer func() { _ = recover() }()
	pr := n.Cons.FrontierPillarReader()
	cur := pr.EpochTicker().ToTick(*n.Frontier().Timestamp)
	for _, e := range []uint64{cur, cur - 1, cur - 2} {
		if e > cur {
			continue
		}
		_, _ = pr.EpochStats(e)
		_, _ = pr.GetPillarDelegationsByEpoch(e)
	}
	_, _ = pr.GetPillarWeights()
	w.mon.stats["read-only-stat-queries"]++
}

func (w *c11World) produce() {
	skip := 0
	// calm stretches (no missed slot at all) alternate with stormy ones, so that some epochs are produced completely
	if w.calmLeft == 0 && w.r.Intn(250) == 0 {
		w.calmLeft = 100 + w.r.Intn(300)
	}
	x := w.r.Intn(1000)
	if w.calmLeft > 0 {
		w.calmLeft--
		x = 0
	}
	switch {
	case x < 840:
	case x < 950:
		skip = 1 + w.r.Intn(3)
	case x < 994:
		skip = 4 + w.r.Intn(40)
	default:
		if w.longGaps < w.maxLongGaps && w.quiet == 0 {
			w.longGaps++
			skip = 100 + w.r.Intn(1100)
			w.mon.stats["long-gaps"]++
		}
	}
	for try := 0; try < 6; try++ {
		m, err := w.P.Produce(skip)
		if err == nil && m != nil {
			w.slotsElapsed += int64(skip) + 1
			return
		}
		w.c.SetAdd("produce-problems", fmt.Sprintf("%v", err))
		skip++
	}
	w.failed = true
	w.c.Inconclusive(fmt.Sprintf("producer cannot produce at height %d", w.P.Height()+1))
}

func (w *c11World) syncFollower(force bool) {
	switch w.mode {
	case "lockstep":
	case "late":
		if !force {
			return
		}
	case "reorg":
		if w.forked {
			w.forkLeft--
			if (!force && w.forkLeft > 0) || w.P.Height() <= w.F.Height() {
				return
			}
			w.endFork()
			return
		}
	default:
		if !force && w.r.Intn(40) != 0 {
			return
		}
		if w.r.Intn(4) == 0 {
			w.F.Restart()
			w.mon.stats["follower-restarts"]++
		}
	}
	batch := 1 + w.r.Intn(64)
	from := w.F.Height()
	// the follower's wall clock is not the producer's (it syncs minutes, days or years after the fact, or its clock is behind)
	skew := simnet.ClockSkews[w.r.Intn(len(simnet.ClockSkews))]
	var err error
	simnet.WithClock(w.P.Frontier().Timestamp.Add(skew), func() { err = w.F.SyncFrom(w.P, batch) })
	w.c.SetAdd("follower_clock_minus_chain_time", skew.String())
	if err != nil {
		w.failed = true
		w.mon.violate("follower-rejects-momentum", map[string]interface{}{"error": err.Error(), "follower_height": w.F.Height(), "synced_from": from, "mode": w.mode, "follower_clock_minus_chain_time": skew.String()})
		return
	}
	w.syncs++
	w.compare(force)
	if w.mode == "reorg" && !force && w.quiet == 0 {
		// fork now and then, and preferably just before an Update becomes possible so that both branches run it
		d := w.P.Height() - w.mon.cts[0].st.lastUpdate
		if w.r.Intn(70) == 0 || (d >= 294 && d <= 299 && w.r.Intn(3) == 0) {
			w.startFork()
		}
	}
}

// startFork lets the follower (which owns the pillar keys in this mode) extend the common chain on its own.
func (w *c11World) startFork() {
	w.forkAt = w.F.Height()
	k := 1 + w.r.Intn(6)
	made := 0
	for i := 0; i < k; i++ {
		skip := w.r.Intn(3)
		if w.r.Intn(6) == 0 {
			skip = 10 + w.r.Intn(200)
		}
		for try := 0; try < 4; try++ {
			m, err := w.F.Produce(skip + try)
			if err == nil && m != nil {
				made++
				break
			}
		}
	}
	if made == 0 {
		return
	}
	w.forked = true
	w.forkLeft = made + 1 + w.r.Intn(5)
	w.mon.logf("follower forks at %d with %d own momentums", w.forkAt, made)
}

// endFork hands the producer's (longer) branch to the follower, which has to reorganise onto it.
func (w *c11World) endFork() {
	w.forked = false
	own := w.F.Detailed(w.forkAt + 1)
	theirs := w.P.Detailed(w.forkAt + 1)
	real := own != nil && theirs != nil && own.Momentum.Hash != theirs.Momentum.Hash
	fh := w.F.Height()
	var err error
	simnet.WithClock(w.P.Frontier().Timestamp.Add(simnet.ClockSkews[w.r.Intn(len(simnet.ClockSkews))]), func() {
		_, err = w.F.InsertChain(simnet.CloneBatch(w.P.Range(w.forkAt+1, w.P.Height())))
	})
	if err != nil {
		w.failed = true
		w.mon.violate("follower-rejects-momentum reorg", map[string]interface{}{"error": err.Error(), "fork_at": w.forkAt, "follower_branch_head": fh,
			"producer_height": w.P.Height(), "branches_differ": real})
		return
	}
	if real {
		w.mon.stats["reorgs"]++
		w.c.Distinct(fmt.Sprintf("reorg depth=%d", fh-w.forkAt))
	}
	w.syncs++
	w.compare(true)
}

// compare the reward contracts' confirmed storage on both nodes (same frontier momentum).
func (w *c11World) compare(full bool) {
	ps, fs := w.P.Chain.GetFrontierMomentumStore(), w.F.Chain.GetFrontierMomentumStore()
	if ps.Identifier() != fs.Identifier() {
		w.mon.violate("follower-differs frontier", map[string]interface{}{"producer": fmt.Sprintf("%v", ps.Identifier()), "follower": fmt.Sprintf("%v", fs.Identifier())})
		return
	}
	cursors := ""
	for _, ct := range w.mon.cts {
		for _, n := range []*simnet.Node{w.P, w.F} {
			st := n.Chain.GetFrontierMomentumStore().GetAccountStore(ct.addr).Storage()
			cur, err1 := definition.GetLastEpochUpdate(st)
			lu, err2 := definition.GetLastUpdate(st)
			if err1 != nil || err2 != nil {
				cursors += "?"
				continue
			}
			cursors += fmt.Sprintf("%d/%d,", cur.LastEpoch, lu.Height)
		}
		cursors += ";"
	}
	w.c.Eval(1)
	if !full && cursors == w.lastCmpCursors {
		return
	}
	w.lastCmpCursors = cursors
	for _, ct := range w.mon.cts {
		dp := simnet.DumpDB(ps.GetAccountStore(ct.addr).Storage())
		df := simnet.DumpDB(fs.GetAccountStore(ct.addr).Storage())
		w.c.Eval(1)
		diffs := simnet.DiffDumps(dp, df, 8)
		if len(diffs) == 0 {
			continue
		}
		what := "storage"
		switch {
		case strings.HasPrefix(diffs[0], "key 83"):
			what = "cursor"
		case strings.HasPrefix(diffs[0], "key 84"):
			what = "history"
		case strings.HasPrefix(diffs[0], "key 80"):
			what = "deposit"
		case strings.HasPrefix(diffs[0], "key 81"):
			what = "last-update"
		}
		w.mon.violate("follower-differs "+what+" "+ct.name, map[string]interface{}{"height": ps.Identifier().Height, "diffs(producer vs follower)": diffs, "mode": w.mode})
	}
	w.mon.stats["full-compares"]++
}

func (w *c11World) finish() {
	m := w.mon
	if len(m.pendingMint) != 0 || len(m.arrivals) != 0 {
		var l []string
		for _, p := range m.pendingMint {
			l = append(l, fmt.Sprintf("%s mint request %v %v to %v (not received by token contract)", p.Contract, p.Amount, p.Zts, p.Receiver))
		}
		for _, p := range m.arrivals {
			l = append(l, fmt.Sprintf("%s minted %v %v to %v (not received by beneficiary)", p.Contract, p.Amount, p.Zts, p.Receiver))
		}
		sort.Strings(l)
		m.violate("minted-amount-never-arrived", map[string]interface{}{"outstanding": l})
	}
	// coverage of this history
	for _, ct := range m.cts {
		w.c.SetAdd("final-cursor "+ct.name, fmt.Sprintf("%d", ct.st.cursor))
		w.c.Count("updates-effective "+ct.name, ct.updates)
	}
	if m.cts[0].st.cursor >= 5 {
		w.c.Distinct(fmt.Sprintf("history ticks=%d mode=%s epochs>=5", m.epoch/c11ElectionTickSec, w.mode))
	}
	w.c.Sample(map[string]interface{}{"case": w.caseID, "momentums": w.P.Height(), "slots": w.slotsElapsed, "follower_syncs": w.syncs,
		"final_cursors": map[string]int64{"pillar": m.cts[0].st.cursor, "sentinel": m.cts[1].st.cursor, "stake": m.cts[2].st.cursor, "liquidity": m.cts[3].st.cursor},
		"stats":         m.stats})
}

// ---- user actions ----

func (w *c11World) pick() *wallet.KeyPair { return w.actors[w.r.Intn(len(w.actors))] }

func (w *c11World) balance(a types.Address, zts types.ZenonTokenStandard) *big.Int {
	b, err := w.P.Chain.GetFrontierAccountStore(a).GetBalance(zts)
	if err != nil || b == nil {
		return big.NewInt(0)
	}
	return b
}

func (w *c11World) call(kp *wallet.KeyPair, to types.Address, zts types.ZenonTokenStandard, amount *big.Int, data []byte, what string) bool {
	b, err := w.P.Send(kp, to, zts, amount, data)
	if err != nil {
		w.c.SetAdd("send-refusals", what+": "+c11errClass(err))
		return false
	}
	w.mon.stats["sent "+what]++
	if strings.HasPrefix(what, "manual-update") {
		w.mon.manual[b.Hash] = true
	}
	return true
}

func c11errClass(err error) string {
	s := err.Error()
	if len(s) > 80 {
		s = s[:80]
	}
	return s
}

var c11Znn1 = big.NewInt(100000000)

func (w *c11World) storage(a types.Address) db.DB {
	return w.P.Chain.GetFrontierAccountStore(a).Storage()
}

func (w *c11World) randomAction() {
	x := w.r.Intn(100)
	switch {
	case x < 16:
		w.actStake()
	case x < 24:
		w.actCancelStake()
	case x < 32:
		w.actSentinel()
	case x < 40:
		w.actPillar()
	case x < 52:
		w.actDelegate()
	case x < 60:
		w.actTransfer()
	case x < 65:
		w.actManualUpdate()
	case x < 75 && w.spork:
		w.actLiquidityStake()
	default:
		w.actCollect()
	}
}

// sporkSetup activates the BridgeAndLiquidity spork and installs ZNN and QSR as stakeable liquidity tokens.
func (w *c11World) sporkSetup() {
	adv := func(n int) {
		for i := 0; i < n && !w.failed; i++ {
			w.autoReceive()
			w.calmLeft++
			w.produce()
			if !w.failed {
				w.syncFollower(false)
			}
		}
	}
	zero := big.NewInt(0)
	b, err := w.P.Send(g.Spork, types.SporkContract, types.ZnnTokenStandard, zero,
		definition.ABISpork.PackMethodPanic(definition.SporkCreateMethodName, "spork-bridge-liquidity", "c11: activate bridge and liquidity"))
	if err != nil {
		w.failed = true
		w.c.Inconclusive("spork set-up: create refused: " + err.Error())
		return
	}
	id := b.Hash
	types.BridgeAndLiquiditySpork.SporkId = id
	types.ImplementedSporksMap[id] = true
	adv(3)
	if !w.call(g.Spork, types.SporkContract, types.ZnnTokenStandard, zero, definition.ABISpork.PackMethodPanic(definition.SporkActivateMethodName, id), "activate-spork") {
		w.failed = true
		w.c.Inconclusive("spork set-up: activate refused")
		return
	}
	adv(12)
	guardians := []types.Address{g.User1.Address, g.User2.Address, g.User3.Address, g.User4.Address}
	nominate := definition.ABILiquidity.PackMethodPanic(definition.NominateGuardiansMethodName, guardians)
	w.call(g.User5, types.LiquidityContract, types.ZnnTokenStandard, zero, nominate, "nominate-guardians")
	adv(26)
	w.call(g.User5, types.LiquidityContract, types.ZnnTokenStandard, zero, nominate, "nominate-guardians")
	adv(4)
	zp := uint32(1000 * (1 + w.r.Intn(9)))
	qp := uint32(1000 * (1 + w.r.Intn(9)))
	tuples := definition.ABILiquidity.PackMethodPanic(definition.SetTokenTupleMethodName,
		[]string{types.ZnnTokenStandard.String(), types.QsrTokenStandard.String()},
		[]uint32{zp, 10000 - zp}, []uint32{qp, 10000 - qp}, []*big.Int{big.NewInt(1000), big.NewInt(1000)})
	w.call(g.User5, types.LiquidityContract, types.ZnnTokenStandard, zero, tuples, "set-token-tuple")
	adv(15)
	w.call(g.User5, types.LiquidityContract, types.ZnnTokenStandard, zero, tuples, "set-token-tuple")
	adv(4)
	if w.failed {
		return
	}
	info, err := definition.GetLiquidityInfo(w.storage(types.LiquidityContract))
	if err != nil || info == nil || len(info.TokenTuples) != 2 {
		w.failed = true
		w.c.Inconclusive(fmt.Sprintf("spork set-up: token tuples not installed (%v)", err))
		return
	}
	w.spork = true
	w.mon.stats["spork-setups"]++
}

func (w *c11World) actLiquidityStake() {
	kp := w.pick()
	st := w.storage(types.LiquidityContract)
	if w.r.Intn(3) == 0 {
		var mine []*definition.LiquidityStakeEntry
		for _, e := range definition.GetAllLiquidityStakeEntries(st) {
			if e.StakeAddress == kp.Address && e.RevokeTime == 0 {
				mine = append(mine, e)
			}
		}
		if len(mine) == 0 {
			return
		}
		sort.Slice(mine, func(i, j int) bool {
			if mine[i].ExpirationTime != mine[j].ExpirationTime {
				return mine[i].ExpirationTime < mine[j].ExpirationTime
			}
			return mine[i].Id.String() < mine[j].Id.String()
		})
		e := mine[0]
		if w.r.Intn(5) == 0 {
			e = mine[w.r.Intn(len(mine))]
		}
		w.call(kp, types.LiquidityContract, types.ZnnTokenStandard, big.NewInt(0),
			definition.ABILiquidity.PackMethodPanic(definition.CancelLiquidityStakeMethodName, e.Id), "cancel-liquidity-stake")
		return
	}
	zts := types.ZnnTokenStandard
	if w.r.Intn(2) == 0 {
		zts = types.QsrTokenStandard
	}
	bal := w.balance(kp.Address, zts)
	max := new(big.Int).Quo(bal, big.NewInt(5))
	lim := big.NewInt(300 * 100000000)
	if max.Cmp(lim) > 0 {
		max = lim
	}
	if max.Cmp(big.NewInt(2000)) < 0 {
		return
	}
	amt := new(big.Int).Rand(w.r, new(big.Int).Sub(max, big.NewInt(1000)))
	amt.Add(amt, big.NewInt(1000))
	dur := constants.StakeTimeUnitSec * int64(1+w.r.Intn(12))
	if w.r.Intn(3) == 0 {
		dur = constants.StakeTimeUnitSec
	}
	w.call(kp, types.LiquidityContract, zts, amt, definition.ABILiquidity.PackMethodPanic(definition.LiquidityStakeMethodName, dur), "liquidity-stake")
}

func (w *c11World) actStake() {
	kp := w.pick()
	bal := w.balance(kp.Address, types.ZnnTokenStandard)
	max := new(big.Int).Quo(bal, big.NewInt(3))
	if max.Cmp(c11Znn1) < 0 {
		return
	}
	lim := big.NewInt(400 * 100000000)
	if max.Cmp(lim) > 0 {
		max = lim
	}
	amt := new(big.Int).Rand(w.r, new(big.Int).Sub(max, c11Znn1))
	amt.Add(amt, c11Znn1)
	dur := constants.StakeTimeUnitSec * int64(1+w.r.Intn(12))
	if w.r.Intn(3) == 0 {
		dur = constants.StakeTimeUnitSec // short ones can leave soon
	}
	w.call(kp, types.StakeContract, types.ZnnTokenStandard, amt, definition.ABIStake.PackMethodPanic(definition.StakeMethodName, dur), "stake")
}

func (w *c11World) actCancelStake() {
	kp := w.pick()
	list, _, _, err := definition.GetStakeListByAddress(w.storage(types.StakeContract), kp.Address)
	if err != nil || len(list) == 0 {
		return
	}
	sort.Slice(list, func(i, j int) bool { return list[i].ExpirationTime < list[j].ExpirationTime })
	e := list[0]
	if w.r.Intn(5) == 0 {
		e = list[w.r.Intn(len(list))] // possibly not due: must be refused
	}
	w.call(kp, types.StakeContract, types.ZnnTokenStandard, big.NewInt(0), definition.ABIStake.PackMethodPanic(definition.CancelStakeMethodName, e.Id), "cancel-stake")
}

var c11SentinelQsr = c11big("5000000000000") // 50000 QSR
var c11SentinelZnn = c11big("500000000000")  // 5000 ZNN

func (w *c11World) actSentinel() {
	cands := []*wallet.KeyPair{g.Pillar7, g.Pillar8, g.User1, g.User2, g.Spork}
	kp := cands[w.r.Intn(len(cands))]
	st := w.storage(types.SentinelContract)
	info := definition.GetSentinelInfoByOwner(st, kp.Address)
	if info != nil {
		if info.RevokeTimestamp == 0 && w.r.Intn(3) == 0 {
			w.call(kp, types.SentinelContract, types.ZnnTokenStandard, big.NewInt(0), definition.ABISentinel.PackMethodPanic(definition.RevokeSentinelMethodName), "revoke-sentinel")
		}
		return
	}
	dep, err := definition.GetQsrDeposit(st, &kp.Address)
	if err != nil {
		return
	}
	if dep.Qsr.Cmp(c11SentinelQsr) < 0 {
		if w.balance(kp.Address, types.QsrTokenStandard).Cmp(c11SentinelQsr) >= 0 {
			w.call(kp, types.SentinelContract, types.QsrTokenStandard, c11SentinelQsr, definition.ABISentinel.PackMethodPanic(definition.DepositQsrMethodName), "sentinel-deposit-qsr")
		}
		return
	}
	if w.balance(kp.Address, types.ZnnTokenStandard).Cmp(c11SentinelZnn) >= 0 {
		w.call(kp, types.SentinelContract, types.ZnnTokenStandard, c11SentinelZnn, definition.ABISentinel.PackMethodPanic(definition.RegisterSentinelMethodName), "register-sentinel")
	}
}

var c11PillarZnn = c11big("1500000000000")  // 15000 ZNN
var c11PillarQsr = c11big("19000000000000") // 190000 QSR covers the first five normal pillars

func (w *c11World) actPillar() {
	type cand struct {
		kp   *wallet.KeyPair
		name string
	}
	cands := []cand{{g.Pillar4, g.Pillar4Name}, {g.Pillar5, g.Pillar5Name}, {g.Pillar6, g.Pillar6Name}, {g.Pillar2, g.Pillar2Name}, {g.Pillar3, g.Pillar3Name}}
	cd := cands[w.r.Intn(len(cands))]
	st := w.storage(types.PillarContract)
	info, err := definition.GetPillarInfo(st, cd.name)
	reward := w.pick().Address
	if err == nil && info != nil {
		if info.RevokeTime != 0 {
			return
		}
		switch w.r.Intn(4) {
		case 0:
			w.call(cd.kp, types.PillarContract, types.ZnnTokenStandard, big.NewInt(0), definition.ABIPillars.PackMethodPanic(definition.RevokeMethodName, cd.name), "revoke-pillar")
		case 1, 2:
			w.call(cd.kp, types.PillarContract, types.ZnnTokenStandard, big.NewInt(0),
				definition.ABIPillars.PackMethodPanic(definition.UpdatePillarMethodName, cd.name, info.BlockProducingAddress, reward, uint8(w.r.Intn(101)), uint8(w.r.Intn(101))), "update-pillar")
		}
		return
	}
	if cd.kp == g.Pillar2 || cd.kp == g.Pillar3 {
		return
	}
	dep, err := definition.GetQsrDeposit(st, &cd.kp.Address)
	if err != nil {
		return
	}
	if dep.Qsr.Cmp(c11PillarQsr) < 0 {
		if w.balance(cd.kp.Address, types.QsrTokenStandard).Cmp(c11PillarQsr) >= 0 {
			w.call(cd.kp, types.PillarContract, types.QsrTokenStandard, c11PillarQsr, definition.ABIPillars.PackMethodPanic(definition.DepositQsrMethodName), "pillar-deposit-qsr")
		}
		return
	}
	if w.balance(cd.kp.Address, types.ZnnTokenStandard).Cmp(c11PillarZnn) >= 0 {
		w.call(cd.kp, types.PillarContract, types.ZnnTokenStandard, c11PillarZnn,
			definition.ABIPillars.PackMethodPanic(definition.RegisterMethodName, cd.name, cd.kp.Address, reward, uint8(w.r.Intn(101)), uint8(w.r.Intn(101))), "register-pillar")
	}
}

func (w *c11World) actDelegate() {
	kp := w.pick()
	if w.r.Intn(4) == 0 {
		w.call(kp, types.PillarContract, types.ZnnTokenStandard, big.NewInt(0), definition.ABIPillars.PackMethodPanic(definition.UndelegateMethodName), "undelegate")
		return
	}
	list, err := definition.GetPillarsList(w.storage(types.PillarContract), true, definition.AnyPillarType)
	if err != nil || len(list) == 0 {
		return
	}
	sort.Slice(list, func(i, j int) bool { return list[i].Name < list[j].Name })
	name := list[w.r.Intn(len(list))].Name
	w.call(kp, types.PillarContract, types.ZnnTokenStandard, big.NewInt(0), definition.ABIPillars.PackMethodPanic(definition.DelegateMethodName, name), "delegate")
}

func (w *c11World) actTransfer() {
	from, to := w.pick(), w.pick()
	if from == to {
		return
	}
	bal := w.balance(from.Address, types.ZnnTokenStandard)
	max := new(big.Int).Quo(bal, big.NewInt(4))
	if max.Sign() <= 0 {
		return
	}
	amt := new(big.Int).Rand(w.r, max)
	amt.Add(amt, big.NewInt(1))
	w.call(from, to.Address, types.ZnnTokenStandard, amt, nil, "transfer")
}

func (w *c11World) actManualUpdate() {
	kp := w.pick()
	ct := w.mon.cts[w.r.Intn(len(w.mon.cts))]
	w.call(kp, ct.addr, types.ZnnTokenStandard, big.NewInt(0), definition.ABICommon.PackMethodPanic(definition.UpdateMethodName), "manual-update "+ct.name)
}

func (w *c11World) actCollect() {
	kp := w.pick()
	ct := w.mon.cts[w.r.Intn(3)] // pillar, sentinel, stake
	if w.r.Intn(12) == 0 || (w.spork && w.r.Intn(4) == 0) {
		ct = w.mon.cts[3] // liquidity has no CollectReward without its spork: must be refused
	}
	// prefer callers that have something to collect, but also call with nothing
	if w.r.Intn(4) != 0 {
		var with []*wallet.KeyPair
		for _, a := range w.actors {
			if o, ok := ct.owed[a.Address]; ok && !o.isZero() {
				with = append(with, a)
			}
		}
		if len(with) != 0 {
			kp = with[w.r.Intn(len(with))]
		}
	}
	data := definition.ABICommon.PackMethodPanic(definition.CollectRewardMethodName)
	if !w.call(kp, ct.addr, types.ZnnTokenStandard, big.NewInt(0), data, "collect "+ct.name) {
		return
	}
	if w.r.Intn(3) == 0 {
		w.call(kp, ct.addr, types.ZnnTokenStandard, big.NewInt(0), data, "collect-again "+ct.name)
	}
}

func (w *c11World) autoReceive() {
	ms := w.P.Chain.GetFrontierMomentumStore()
	for _, kp := range w.actors {
		hashes, err := ms.GetAccountMailbox(kp.Address).GetUnreceivedAccountBlockHashes(16)
		if err != nil {
			continue
		}
		n := 0
		for _, h := range hashes {
			if w.received[h] || n >= 3 {
				continue
			}
			before := c11Amt{w.balance(kp.Address, types.ZnnTokenStandard), w.balance(kp.Address, types.QsrTokenStandard)}
			if _, err := w.P.Receive(kp, h); err != nil {
				w.c.SetAdd("send-refusals", "receive: "+c11errClass(err))
				break
			}
			n++
			w.received[h] = true
			if pm := w.mon.arrivals[h]; pm != nil {
				delete(w.mon.arrivals, h)
				after := c11Amt{w.balance(kp.Address, types.ZnnTokenStandard), w.balance(kp.Address, types.QsrTokenStandard)}
				got := after.sub(before)
				want := c11zero()
				if pm.Zts == types.ZnnTokenStandard {
					want.Znn = pm.Amount
				} else {
					want.Qsr = pm.Amount
				}
				w.c.Eval(1)
				if !got.eq(want) || pm.Receiver != kp.Address {
					w.mon.violate("minted-amount-not-arrived "+pm.Contract, map[string]interface{}{"beneficiary": kp.Address.String(), "expected_delta": want.String(), "balance_delta": got.String()})
				}
				w.mon.stats["arrivals-beneficiary"]++
			}
		}
	}
}
