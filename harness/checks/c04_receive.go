package checks

// C04 — each send is received at most once; contract inboxes are strict FIFO.
//
// Offline checker over raw ledger scans (confirmed chain + unconfirmed pool) of real nodes:
// (1) join all receive blocks on FromBlockHash: no send has two receives, the send exists, and the
// receiver is the send's ToAddress; (2) per embedded contract the FromBlockHash sequence along its
// account chain is a prefix of the sends addressed to it in confirmation order (momentum height,
// then position of the confirming entry in that momentum's content, descendants after their parent).
// Workloads: competing receive attempts (same account twice, foreign account, replacement of a pooled
// receive, re-submission after displacement), many callers of one contract with missed slots, the
// same send received on two forks followed by a reorganisation, restarts; a third party offering well-formed
// contract receive blocks for other inbox entries than the one in line (inbox:* cases, see below).

import (
	"bytes"
	"fmt"
	"math/big"
	"math/rand"
	"os"
	"regexp"
	"sort"
	"strings"

	g "github.com/zenon-network/go-zenon/chain/genesis/mock"
	"github.com/zenon-network/go-zenon/chain/nom"
	"github.com/zenon-network/go-zenon/common/db"
	"github.com/zenon-network/go-zenon/common/types"
	"github.com/zenon-network/go-zenon/vm/constants"
	"github.com/zenon-network/go-zenon/vm/embedded/definition"
	"github.com/zenon-network/go-zenon/wallet"

	"verif/harness/fw"
	"verif/harness/scan"
	"verif/harness/simnet"
)

func init() {
	fw.Register(&fw.Check{
		ID:    "C04",
		Level: "exploration",
		Rule: "hist:* cases are seeded histories with competing receive attempts and interleaved contract calls, scanned after every momentum on the producer and at the end on a follower before and after a restart; " +
			"fork:* cases let the same send be received on two competing branches and scan the node that switched, then try to receive again; " +
			"inbox:* cases send groups of identical calls to embedded contracts and let a third party offer (unsigned) contract receive blocks to the producer (even cases) or to a follower (odd cases) while receives are pooled and later entries wait: " +
			"every pooled receive, and the one the VM would generate next, with another inbox entry (later, earlier, already confirmed) as origin and the hash recomputed, at the height the pool already has a candidate for or on the frontier, " +
			"between two steps of the generator, before it (receive #1 made by the third party with the real supervisor) and after it, via bridge gossip, supervisor+pool and a momentum signed by the elected pillar (forced pool insert), with restarts; " +
			"scanned incl. pool after every accepted offer and every momentum, on a follower at the end (there also: no inbox entry left behind once the chain is quiescent), and compared with a reference node that never saw the third party as long as all its blocks were refused; " +
			"distinct_nontrivial counts distinct (attack kind, outcome) pairs and distinct (contract, inbox length class) pairs whose order was checked",
		Cases:            c04Cases,
		Run:              c04Run,
		MinDistinct:      10,
		DeathIsViolation: true,
		DeathSig:         func(caseID, tail string) string { return "node-crash " + topRepoFrame(tail) },
		Assumptions: []string{
			"post-enforcement regime (receiver-mismatch enforcement height 0); the pre-enforcement regime and a mid-run boundary are not exercised",
			"intra-momentum confirmation order is taken from the momentum's own content (chain data), not from the sequencer keys being checked",
			"inbox:* — the third party cannot run the VM on a state the supervisor refuses, so its blocks are exact only for entries whose call has the same effect as the one in line (identical amount, token, data; sender where the method depends on it); other variants are offered too but a VM comparison would refuse them anyway",
			"inbox:* — a node that accepted a block of the third party is no longer compared with the reference; from then on only the ledger oracles decide",
		},
	})
}

func c04Cases(tier string, seed int64) []string {
	n, f := 24, 16
	if tier == "thorough" {
		n, f = 1200, 1600
	}
	var l []string
	for i := 0; i < n; i++ {
		l = append(l, fmt.Sprintf("hist:%d", i))
	}
	for i := 0; i < f; i++ {
		l = append(l, fmt.Sprintf("fork:%d", i))
	}
	for i := 0; i < f/2; i++ {
		l = append(l, fmt.Sprintf("forkp:%d", i))
	}
	nInbox := f
	if tier == "thorough" {
		nInbox = f / 4
	}
	for i := 0; i < nInbox; i++ {
		l = append(l, fmt.Sprintf("inbox:%d", i))
	}
	return l
}

// c04ForkProducer: the node that switches branches is itself a producer and holds UNCONFIRMED contract receives (its
// pillar generated them for calls its abandoned momentum confirmed). The adopted branch confirms the same calls
// plus one more that queues up in front of them. After the switch the node produces the next momentums itself: every
// call must be received exactly once and in the adopted branch's confirmation order, and other nodes must follow.
func c04ForkProducer(c *fw.C, caseID string, idx int) {
	r := c.Rand(caseID)
	base := c.ScratchDir("c04p")
	defer os.RemoveAll(base)
	A := simnet.Open("A", base+"/A", simnet.MockGenesis(), g.PillarKeys)
	defer A.Stop()
	wA := simnet.NewWorkload(rand.New(rand.NewSource(r.Int63())), A)
	wA.ContractWeight = 40
	for i := 0; i < 8+r.Intn(16); i++ {
		wA.Step(5)
		if _, err := A.Produce(0); err != nil {
			c.Violation("producer-cannot-produce", err.Error())
			return
		}
	}
	A.MustProduce(2) // drain pending contract receives
	forkPoint := A.Height()
	B := simnet.Open("B", base+"/B", simnet.MockGenesis(), g.PillarKeys)
	defer B.Stop()
	if err := B.SyncFrom(A, 40); err != nil {
		c.Violation("sync-failed", err.Error())
		return
	}
	// callers sorted by address: the momentum content (and with it the contract's inbox) is ordered by address
	callers := []*wallet.KeyPair{g.User1, g.User2, g.User3, g.User4}
	sort.Slice(callers, func(i, j int) bool { return bytes.Compare(callers[i].Address.Bytes(), callers[j].Address.Bytes()) < 0 })
	contract, data, zts, amt := types.PlasmaContract, definition.ABIPlasma.PackMethodPanic(definition.FuseMethodName, g.User9.Address), types.QsrTokenStandard, big.NewInt(10*g.Zexp)
	if idx%3 == 0 {
		// a call without value: every caller can afford it
		contract, data, zts, amt = types.PillarContract, definition.ABIPillars.PackMethodPanic(definition.DelegateMethodName, g.Pillar1Name), types.ZnnTokenStandard, big.NewInt(0)
	} else if idx%3 == 1 {
		contract, data, zts, amt = types.StakeContract, definition.ABIStake.PackMethodPanic(definition.StakeMethodName, int64(constants.StakeTimeUnitSec)), types.ZnnTokenStandard, big.NewInt(1*g.Zexp)
	}
	// a caller the random history has left without the funds falls back to the call without value
	for _, u := range callers {
		if bal, _ := A.Chain.GetFrontierAccountStore(u.Address).GetBalance(zts); amt.Sign() > 0 && (bal == nil || bal.Cmp(new(big.Int).Mul(amt, big.NewInt(2))) < 0) {
			contract, data, zts, amt = types.PillarContract, definition.ABIPillars.PackMethodPanic(definition.DelegateMethodName, g.Pillar1Name), types.ZnnTokenStandard, big.NewInt(0)
			break
		}
	}
	// branch X: A confirms the calls of the later callers; its pillar generates their receives into A's pool
	nLate := 1 + r.Intn(3)
	var shared []*nom.AccountBlock
	for _, u := range callers[len(callers)-nLate:] {
		b, err := A.Send(u, contract, zts, amt, data)
		if err != nil {
			c.Inconclusive("scripted call refused: " + err.Error())
			return
		}
		shared = append(shared, b)
	}
	if _, err := A.Produce(0); err != nil {
		c.Violation("producer-cannot-produce", err.Error())
		return
	}
	pooled := 0
	for _, b := range A.Chain.GetAllUncommittedAccountBlocks() {
		if b.BlockType == nom.BlockTypeContractReceive {
			pooled++
		}
	}
	c.Count("unconfirmed_contract_receives_on_switching_producer", pooled)
	// branch Y: one momentum in a later slot, then the same calls plus one by an earlier caller (lands in front)
	if _, err := B.Produce(1); err != nil {
		c.Violation("producer-cannot-produce", err.Error())
		return
	}
	for _, b := range shared {
		if err := B.Bridge.AddAccountBlocks([]*nom.AccountBlock{simnet.CloneBlock(b)}); err != nil {
			c.Inconclusive("adopted branch refuses the shared call: " + err.Error())
			return
		}
	}
	if _, err := B.Send(callers[0], contract, zts, amt, data); err != nil {
		c.Inconclusive("scripted call refused: " + err.Error())
		return
	}
	// confirm them WITHOUT letting B's pillar generate the receives into a further momentum: the receives stay to be
	// produced by whoever produces next — the switching node
	if _, err := B.Produce(0); err != nil {
		c.Violation("producer-cannot-produce", err.Error())
		return
	}
	if B.Height() <= A.Height() {
		c.Inconclusive("adopted branch is not longer")
		return
	}
	if _, err := A.InsertChain(simnet.CloneBatch(B.Range(forkPoint+1, B.Height()))); err != nil {
		c.Violation("switch-refused", map[string]interface{}{"err": err.Error()})
		return
	}
	// the switched node produces on
	for i := 0; i < 3; i++ {
		if _, err := A.Produce(0); err != nil {
			c.Violation("switched-producer-cannot-produce", map[string]interface{}{"err": err.Error(), "momentums_after_switch": i})
			return
		}
		l, err := c01PoolLedger(A)
		if err != nil {
			c.Violation("ledger-scan-failed", err.Error())
			return
		}
		if !c04Oracle(c, l, "switched producer incl. pool") {
			return
		}
	}
	F := simnet.Open("F", base+"/F", simnet.MockGenesis(), nil)
	defer F.Stop()
	if err := F.SyncFrom(A, 7); err != nil {
		c.Violation("follower-refuses-switched-producers-momentum", err.Error())
		return
	}
	// all calls received, in order
	l, err := scan.Scan(F.Mgr.Frontier())
	if err != nil {
		c.Violation("ledger-scan-failed", err.Error())
		return
	}
	c04Oracle(c, l, "follower of the switched producer")
	c.Distinct(fmt.Sprintf("forkp/contract=%s/shared=%d/pooled-receives=%v", contract, nLate, pooled > 0))
	c.Count("producer_forks", 1)
}

// c04Oracle applies both ledger oracles. Returns false after reporting a violation.
func c04Oracle(c *fw.C, l *scan.Ledger, where string) bool { return c04OracleEx(c, l, where, false) }

// c04OracleEx: drained — the chain is quiescent (the last momentum confirmed nothing and nothing is pooled): every
// entry of every inbox must have been received, an entry still waiting now was skipped for good.
func c04OracleEx(c *fw.C, l *scan.Ledger, where string, drained bool) bool {
	byHash := l.BlockByHash()
	recv := map[types.Hash][]*nom.AccountBlock{}
	for _, acc := range l.Accounts {
		for _, b := range acc.Blocks {
			if b.IsReceiveBlock() && b.BlockType != nom.BlockTypeGenesisReceive {
				recv[b.FromBlockHash] = append(recv[b.FromBlockHash], b)
			}
		}
	}
	c.Eval(len(recv))
	for h, rs := range recv {
		if len(rs) > 1 {
			kind := "same-account"
			if rs[0].Address != rs[1].Address {
				kind = "different-accounts"
			}
			c.Violation("send-received-twice "+kind, map[string]interface{}{"where": where, "send": h.String(),
				"receive_1": fmt.Sprintf("%s/%d", rs[0].Address, rs[0].Height), "receive_2": fmt.Sprintf("%s/%d", rs[1].Address, rs[1].Height)})
			return false
		}
		s := byHash[h]
		if s == nil {
			c.Violation("receive-of-unknown-send", map[string]interface{}{"where": where, "send": h.String(), "receiver": rs[0].Address.String()})
			return false
		}
		if !s.IsSendBlock() {
			c.Violation("receive-of-a-non-send-block", map[string]interface{}{"where": where, "send": h.String()})
			return false
		}
		if s.ToAddress != rs[0].Address {
			c.Violation("received-by-foreign-account", map[string]interface{}{"where": where, "send": h.String(), "addressed_to": s.ToAddress.String(), "received_by": rs[0].Address.String()})
			return false
		}
	}
	// contract inbox order
	expected := map[types.Address][]types.Hash{}
	for _, m := range l.Momentums {
		for _, hd := range m.Content {
			acc := l.Accounts[hd.Address]
			if acc == nil || hd.Height == 0 || int(hd.Height) > len(acc.Blocks) {
				c.Violation("momentum-content-refers-to-missing-block", map[string]interface{}{"where": where, "momentum": m.Height, "header": fmt.Sprint(*hd)})
				return false
			}
			b := acc.Blocks[hd.Height-1]
			if b.Hash != hd.Hash {
				c.Violation("momentum-content-hash-mismatch", map[string]interface{}{"where": where, "momentum": m.Height})
				return false
			}
			if b.BlockType == nom.BlockTypeContractSend {
				continue // confirmed together with (and at the position of) its parent receive
			}
			group := append([]*nom.AccountBlock{b}, b.DescendantBlocks...)
			for _, x := range group {
				if x.IsSendBlock() && types.IsEmbeddedAddress(x.ToAddress) {
					expected[x.ToAddress] = append(expected[x.ToAddress], x.Hash)
				}
			}
		}
	}
	for _, a := range types.EmbeddedContracts {
		acc := l.Accounts[a]
		if acc == nil {
			continue
		}
		var got []types.Hash
		for _, b := range acc.Blocks {
			if b.BlockType == nom.BlockTypeContractReceive {
				got = append(got, b.FromBlockHash)
			}
		}
		exp := expected[a]
		c.Eval(1)
		cls := "0"
		switch {
		case len(got) > 20:
			cls = ">20"
		case len(got) > 3:
			cls = "4-20"
		case len(got) > 0:
			cls = "1-3"
		}
		c.Distinct(fmt.Sprintf("inbox/%s/received=%s/queued=%v", a, cls, len(exp) > len(got)))
		if len(got) > len(exp) {
			c.Violation("contract-received-more-than-was-sent", map[string]interface{}{"where": where, "contract": a.String(), "received": len(got), "sent": len(exp)})
			return false
		}
		for i := range got {
			if got[i] != exp[i] {
				c.Violation("contract-inbox-order-violated", map[string]interface{}{"where": where, "contract": a.String(), "position": i,
					"received": got[i].String(), "expected_next_in_confirmation_order": exp[i].String(), "received_so_far": len(got), "sent": len(exp)})
				return false
			}
		}
		if drained {
			c.Eval(1)
			if len(got) < len(exp) {
				c.Violation("contract-inbox-entry-never-received", map[string]interface{}{"where": where, "contract": a.String(), "received": len(got), "sent": len(exp),
					"first_entry_left_behind": exp[len(got)].String()})
				return false
			}
			c.Count("inboxes_seen_fully_drained", 1)
		}
	}
	return true
}

func c04Run(c *fw.C, caseID string) {
	var idx int
	if n, _ := fmt.Sscanf(caseID, "fork:%d", &idx); n == 1 {
		c04Fork(c, caseID, idx)
		return
	}
	if n, _ := fmt.Sscanf(caseID, "forkp:%d", &idx); n == 1 {
		c04ForkProducer(c, caseID, idx)
		return
	}
	if n, _ := fmt.Sscanf(caseID, "inbox:%d", &idx); n == 1 {
		c04Inbox(c, caseID, idx)
		return
	}
	r := c.Rand(caseID)
	base := c.ScratchDir("c04")
	defer os.RemoveAll(base)
	P := simnet.Open("P", base+"/P", simnet.MockGenesis(), g.PillarKeys)
	defer P.Stop()
	w := simnet.NewWorkload(rand.New(rand.NewSource(r.Int63())), P)
	w.ContractWeight = 50
	// right after a momentum was inserted and before the pillar generates the contract receives, a dishonest
	// pillar tries to receive the second queued call first
	P.OnMomentum = func(m *nom.Momentum, err error) {
		if err == nil {
			c04OutOfOrderContractReceive(c, P, r)
		}
	}
	nMomentums := 50 + r.Intn(50)
	for i := 0; i < nMomentums; i++ {
		w.Step(8)
		for k := 0; k < 2; k++ {
			c04Attack(c, P, w, r)
		}
		skip := 0
		if r.Intn(4) == 0 {
			skip = 1 + r.Intn(3)
		}
		if _, err := P.Produce(skip); err != nil {
			c.Violation("producer-cannot-produce", map[string]interface{}{"err": err.Error(), "log": w.Log})
			return
		}
		l, err := c01PoolLedger(P)
		if err != nil {
			c.Violation("ledger-scan-failed", err.Error())
			return
		}
		if !c04Oracle(c, l, "producer incl. pool") {
			return
		}
	}
	F := simnet.Open("F", base+"/F", simnet.MockGenesis(), nil)
	defer F.Stop()
	if err := F.SyncFrom(P, 1+r.Intn(30)); err != nil {
		c.Violation("follower-refuses-producers-momentum", err.Error())
		return
	}
	for _, when := range []string{"follower", "follower after restart"} {
		l, err := scan.Scan(F.Mgr.Frontier())
		if err != nil {
			c.Violation("ledger-scan-failed", err.Error())
			return
		}
		if !c04Oracle(c, l, when) {
			return
		}
		F.Restart()
	}
	// after the restart the follower must still refuse a second receive of an already received send
	c.Count("histories", 1)
	if caseID == "hist:0" {
		c.Sample(map[string]interface{}{"case": caseID, "momentums": P.Height(), "accepted_by_action": w.Accepted})
	}
}

// c04Attack tries one competing-receive pattern on node n.
func c04Attack(c *fw.C, n *simnet.Node, w *simnet.Workload, r *rand.Rand) {
	users := w.Users
	u := users[r.Intn(len(users))]
	if r.Intn(6) == 0 {
		// a user account tries to receive a send that is addressed to an embedded contract (confirmed recently; the
		// contract itself has received it already or will in the next momentum)
		H := n.Height()
		lo := uint64(2)
		if H > 12 {
			lo = H - 10
		}
		var cands []types.Hash
		for h := lo; h <= H; h++ {
			if d := n.Detailed(h); d != nil {
				for _, b := range d.AccountBlocks {
					for _, x := range append([]*nom.AccountBlock{b}, b.DescendantBlocks...) {
						if x.IsSendBlock() && types.IsEmbeddedAddress(x.ToAddress) {
							cands = append(cands, x.Hash)
						}
					}
				}
			}
		}
		if len(cands) > 0 {
			_, e := n.Receive(u, cands[r.Intn(len(cands))])
			res := "refused"
			if e == nil {
				res = "accepted"
			}
			c04Note(c, "attack/user-receives-send-addressed-to-contract/"+res)
		}
		return
	}
	hashes := w.Unreceived(u.Address, 8)
	if len(hashes) == 0 {
		return
	}
	h := hashes[r.Intn(len(hashes))]
	outcome := func(err error) string {
		if err == nil {
			return "accepted"
		}
		return "refused"
	}
	switch r.Intn(5) {
	case 0: // same account twice in the pool
		_, e1 := n.Receive(u, h)
		_, e2 := n.Receive(u, h)
		c04Note(c, "attack/double-receive-in-pool/"+outcome(e1)+"+"+outcome(e2))
	case 1: // a foreign account tries to receive it
		var v *wallet.KeyPair
		for {
			v = users[r.Intn(len(users))]
			if v.Address != u.Address {
				break
			}
		}
		_, e := n.Receive(v, h)
		c04Note(c, "attack/foreign-receiver/"+outcome(e))
	case 2: // receive, confirm, receive again across momentums
		_, e1 := n.Receive(u, h)
		if _, err := n.Produce(0); err != nil {
			return
		}
		_, e2 := n.Receive(u, h)
		c04Note(c, "attack/double-receive-across-momentums/"+outcome(e1)+"+"+outcome(e2))
	case 3: // a pooled receive is replaced by a competing block of higher priority at the same height, then the receive is submitted again
		b1, e1 := n.Receive(u, h)
		if e1 != nil {
			return
		}
		// competing block at the same height: a send with twice the plasma (higher priority)
		tpl := &nom.AccountBlock{BlockType: nom.BlockTypeUserSend, Address: u.Address, ToAddress: users[r.Intn(len(users))].Address,
			TokenStandard: types.ZnnTokenStandard, Amount: big.NewInt(1), Height: b1.Height, PreviousHash: b1.PreviousHash, FusedPlasma: b1.FusedPlasma * 2}
		_, e2 := n.Submit(tpl, u)
		// the receive, again, on top of whatever is now the frontier
		_, e3 := n.Receive(u, h)
		_, e4 := n.Receive(u, h)
		c04Note(c, "attack/replace-pooled-receive/"+outcome(e2)+"+"+outcome(e3)+"+"+outcome(e4))
	case 4: // two competing receives of the SAME send at the same height (different plasma)
		b1, e1 := n.Receive(u, h)
		if e1 != nil {
			return
		}
		tpl := &nom.AccountBlock{BlockType: nom.BlockTypeUserReceive, Address: u.Address, FromBlockHash: h,
			Height: b1.Height, PreviousHash: b1.PreviousHash, FusedPlasma: b1.FusedPlasma + 1000}
		_, e2 := n.Submit(tpl, u)
		_, e3 := n.Receive(u, h)
		c04Note(c, "attack/competing-receives-same-height/"+outcome(e2)+"+"+outcome(e3))
	}
}

func c04Fork(c *fw.C, caseID string, idx int) {
	r := c.Rand(caseID)
	base := c.ScratchDir("c04f")
	defer os.RemoveAll(base)
	A := simnet.Open("A", base+"/A", simnet.MockGenesis(), g.PillarKeys)
	defer A.Stop()
	wA := simnet.NewWorkload(rand.New(rand.NewSource(r.Int63())), A)
	for i := 0; i < 12+r.Intn(20); i++ {
		wA.Step(6)
		if _, err := A.Produce(0); err != nil {
			c.Violation("producer-cannot-produce", err.Error())
			return
		}
	}
	// make sure several confirmed sends are waiting: user→user and user→contract
	for i := 0; i < 4; i++ {
		_, _ = A.Send(g.User1, g.User2.Address, types.ZnnTokenStandard, big.NewInt(int64(1000+i)), nil)
		_, _ = A.Send(g.User2, g.User3.Address, types.QsrTokenStandard, big.NewInt(int64(2000+i)), nil)
	}
	A.MustProduce(2)
	forkPoint := A.Height()
	B := simnet.Open("B", base+"/B", simnet.MockGenesis(), g.PillarKeys)
	defer B.Stop()
	S := simnet.Open("S", base+"/S", simnet.MockGenesis(), nil)
	defer S.Stop()
	for _, n := range []*simnet.Node{B, S} {
		if err := n.SyncFrom(A, 40); err != nil {
			c.Violation("sync-failed", err.Error())
			return
		}
	}
	wB := simnet.NewWorkload(rand.New(rand.NewSource(r.Int63())), B)
	// both branches receive the SAME sends (in different momentums / orders)
	recvAll := func(n *simnet.Node, w *simnet.Workload, depth int, lazy bool) {
		for d := 0; d < depth; d++ {
			for _, u := range []*wallet.KeyPair{g.User2, g.User3} {
				hs := w.Unreceived(u.Address, 10)
				if lazy && d == 0 {
					continue
				}
				for i, h := range hs {
					if r.Intn(2) == 0 || i == 0 {
						_, _ = n.Receive(u, h)
					}
				}
			}
			w.Step(4)
			if _, err := n.Produce(0); err != nil {
				c.Violation("producer-cannot-produce", err.Error())
				return
			}
		}
	}
	dx := 2 + r.Intn(8)
	recvAll(A, wA, dx, false)
	recvAll(B, wB, dx+1+r.Intn(4), true)
	if err := S.SyncFrom(A, 3); err != nil {
		c.Violation("follower-refuses-producers-momentum", err.Error())
		return
	}
	// also gossip branch X's pending pool blocks and some fresh receives to S before the switch
	if _, err := S.InsertChain(simnet.CloneBatch(B.Range(forkPoint+1, B.Height()))); err != nil {
		c.Violation("switch-refused", map[string]interface{}{"err": err.Error(), "depth": dx})
		return
	}
	l, err := c01PoolLedger(S)
	if err != nil {
		c.Violation("ledger-scan-failed", err.Error())
		return
	}
	if !c04Oracle(c, l, "switched node") {
		return
	}
	c.Distinct(fmt.Sprintf("fork/depth=%d", dx))
	// after the switch: sends received on the abandoned branch only must be receivable again on B (exactly once),
	// sends received on Y must be refused
	for _, u := range []*wallet.KeyPair{g.User2, g.User3} {
		for _, h := range wB.Unreceived(u.Address, 10) {
			_, e1 := B.Receive(u, h)
			_, e2 := B.Receive(u, h)
			c04Note(c, fmt.Sprintf("after-switch/receive-again/accepted=%v+%v", e1 == nil, e2 == nil))
		}
	}
	B.MustProduce(2)
	S.Restart()
	if err := S.SyncFrom(B, 2); err != nil {
		c.Violation("follower-refuses-producers-momentum after-switch", err.Error())
		return
	}
	l, err = scan.Scan(S.Mgr.Frontier())
	if err != nil {
		c.Violation("ledger-scan-failed", err.Error())
		return
	}
	c04Oracle(c, l, "switched node after continuation and restart")
	c.Count("forks", 1)
}

func c04Note(c *fw.C, key string) {
	c.Distinct(key)
	c.SetAdd("attack_outcomes", key)
}

// c04OutOfOrderContractReceive plays a dishonest pillar: it asks the real supervisor to generate the receive
// block for the SECOND queued call of a contract while the first is still waiting, and, if that succeeds,
// puts it into the pool so that it gets confirmed.
func c04OutOfOrderContractReceive(c *fw.C, n *simnet.Node, r *rand.Rand) {
	st := n.Chain.GetFrontierMomentumStore()
	for _, a := range types.EmbeddedContracts {
		mb := st.GetAccountMailbox(a)
		size := mb.SequencerSize()
		front := n.Chain.GetFrontierAccountStore(a).SequencerFront(mb)
		if front == nil {
			continue
		}
		var idx uint64
		for i := uint64(1); i <= size; i++ {
			if h := mb.SequencerByHeight(i); h != nil && *h == *front {
				idx = i
			}
		}
		if idx == 0 || idx+1 > size {
			continue
		}
		second := mb.SequencerByHeight(idx + 1)
		send, err := st.GetAccountBlock(*second)
		if err != nil || send == nil {
			continue
		}
		var res string
		func() {
			defer func() {
				if rec := recover(); rec != nil {
					res = "refused"
				}
			}()
			ex, err := n.Sup.GenerateAutoReceive(send)
			if err != nil || ex == nil || ex.Transaction == nil {
				res = "refused"
				return
			}
			n.CreateAccountBlock(ex.Transaction)
			if n.LastBlockErr != nil {
				res = "refused-by-pool"
			} else {
				res = "accepted"
			}
		}()
		c04Note(c, "attack/out-of-order-contract-receive/"+res)
		return
	}
}

// ---- inbox:* — a third party offers contract receive blocks -------------------------------------------------------
//
// Receive blocks of embedded contracts carry no signature: whoever knows the state can build one and offer it. The
// honest generator only ever builds the receive of the entry at the front of the inbox on top of the pool frontier;
// the adversary below offers everything else that is well-formed: for every unconfirmed receive block of a contract
// (and for the block the VM would generate next on the pool frontier) the SAME block with another inbox entry as its
// origin — a later one (skipping), an earlier one or an already confirmed one (repeating) — at the same place in the
// contract chain, i.e. on an older point of the chain whose height the pool already has a candidate for, or on the
// frontier. Calls with identical (amount, token, data) are sent in groups, so that for many pairs the VM result is
// the same and the crafted block is, bit for bit, what the VM generates for that entry at that place. The blocks are
// offered while the generator is between two steps (first receive pooled, later entries waiting), before the
// generator started (the adversary makes receive #1 itself, with the real supervisor, ahead of the generator), and
// after it finished; over three ingress paths (bridge gossip, supervisor + pool as the RPC/broadcaster does, inside a
// momentum signed by the elected pillar, which uses the forced pool insert).
//
// Oracles: (1) the whole-ledger oracle above, on the producer incl. pool after every accepted offer and every
// momentum, on a follower at the end, before and after a restart, there also: no inbox entry left behind once the
// chain is quiescent; (2) differential: a reference producer R gets the same user blocks and the same slots but never
// sees the adversary — as long as every crafted block was refused, both must produce the same momentums, and the
// contract chains and balances must be equal at the end.

var c04Paths = []string{"gossip", "pool", "momentum"}

type c04Adv struct {
	c       *fw.C
	n       *simnet.Node
	role    string // what n is: "producer" or "follower"
	r       *rand.Rand
	offers  int  // rotates the ingress path
	budget  int  // activations left until the next momentum
	early   bool // this momentum: act before the generator starts
	busy    bool
	touched bool // a crafted block got in (or the pool changed while one was offered): R is no longer comparable
	stop    bool // a violation was reported
}

type c04InboxView struct {
	addr    types.Address
	pooled  []*nom.AccountBlock // unconfirmed receive blocks of the contract, chain order
	entries []*nom.AccountBlock // inbox entries (send blocks) from the first one the CONFIRMED contract chain has not received on
	before  *nom.AccountBlock   // the entry in front of entries[0]: received and confirmed
}

func (a *c04Adv) view(addr types.Address) *c04InboxView {
	st := a.n.Chain.GetFrontierMomentumStore()
	mb := st.GetAccountMailbox(addr)
	size := mb.SequencerSize()
	front := st.GetAccountStore(addr).SequencerFront(mb)
	if front == nil {
		return nil
	}
	var idx uint64
	for i := size; i >= 1; i-- {
		if h := mb.SequencerByHeight(i); h != nil && *h == *front {
			idx = i
			break
		}
	}
	if idx == 0 {
		return nil
	}
	v := &c04InboxView{addr: addr}
	get := func(i uint64) *nom.AccountBlock {
		h := mb.SequencerByHeight(i)
		if h == nil {
			return nil
		}
		b, err := st.GetAccountBlock(*h)
		if err != nil {
			return nil
		}
		return b
	}
	for i := idx; i <= size && i < idx+6; i++ {
		b := get(i)
		if b == nil {
			return nil
		}
		v.entries = append(v.entries, b)
	}
	if idx > 1 {
		v.before = get(idx - 1)
	}
	for _, b := range a.n.Chain.GetUncommittedAccountBlocksByAddress(addr) {
		if b.BlockType == nom.BlockTypeContractReceive {
			v.pooled = append(v.pooled, b)
		}
	}
	return v
}

// generate asks the real supervisor for the receive block of send on the pool frontier, without inserting it.
func (a *c04Adv) generate(send *nom.AccountBlock) (b *nom.AccountBlock) {
	defer func() {
		if rec := recover(); rec != nil {
			b = nil
		}
	}()
	ex, err := a.n.Sup.GenerateAutoReceive(send)
	if err != nil || ex == nil || ex.Transaction == nil {
		return nil
	}
	return simnet.CloneBlock(ex.Transaction.Block)
}

// c04Swap: base with another origin. The acknowledged momentum of a contract receive is the one that confirmed its
// origin, so it is moved along (with the descendants, whose hashes link up to the block).
func c04Swap(n *simnet.Node, base, target *nom.AccountBlock) *nom.AccountBlock {
	b := simnet.CloneBlock(base)
	b.FromBlockHash = target.Hash
	st := n.Chain.GetFrontierMomentumStore()
	if h, err := st.GetBlockConfirmationHeight(target.Hash); err == nil && h != 0 && h != b.MomentumAcknowledged.Height {
		if m, err := st.GetMomentumByHeight(h); err == nil && m != nil {
			b.MomentumAcknowledged = m.Identifier()
			if len(b.DescendantBlocks) > 0 {
				prev := b.DescendantBlocks[0].PreviousHash
				for _, d := range b.DescendantBlocks {
					d.MomentumAcknowledged = m.Identifier()
					d.PreviousHash = prev
					d.Hash = d.ComputeHash()
					prev = d.Hash
				}
				b.PreviousHash = prev
			}
		}
	}
	b.Hash = b.ComputeHash()
	return b
}

func c04CallClass(x, y *nom.AccountBlock) string {
	if x.ToAddress == y.ToAddress && x.TokenStandard == y.TokenStandard && x.Amount.Cmp(y.Amount) == 0 && bytes.Equal(x.Data, y.Data) {
		if x.Address == y.Address {
			return "identical-call-same-sender"
		}
		return "identical-call-other-sender"
	}
	return "different-call"
}

// c04ForgedMomentum: the next momentum as a peer would serve it — right height, link, slot and the signature of the
// pillar elected for the slot — carrying b. Its state hash cannot be right for a block honest nodes refuse; what
// matters is what the blocks it carries leave behind (the bridge inserts them with the forced pool insert first).
func c04ForgedMomentum(n *simnet.Node, b *nom.AccountBlock) *nom.DetailedMomentum {
	f := n.Frontier()
	t := n.NextSlot(0)
	group := append(append([]*nom.AccountBlock{}, b.DescendantBlocks...), b)
	m := &nom.Momentum{Version: 1, ChainIdentifier: f.ChainIdentifier, PreviousHash: f.Hash, Height: f.Height + 1, TimestampUnix: uint64(t.Unix()),
		Content: nom.NewMomentumContent(group), ChangesHash: types.NewHash([]byte("state unknown to the forger"))}
	m.EnsureCache()
	m.Hash = m.ComputeHash()
	if p, err := n.ProducerFor(t); err == nil && p != nil {
		if kp := simnet.KeyFor(*p); kp != nil {
			m.PublicKey = kp.Public
			m.Signature = kp.Sign(m.Hash.Bytes())
		}
	}
	return &nom.DetailedMomentum{Momentum: m, AccountBlocks: group}
}

var c04HexRe = regexp.MustCompile(`[0-9a-fA-F]{16,}|z1[0-9a-z]{38}|[0-9]+`)

func c04Reason(err error) string {
	if err == nil {
		return "no error"
	}
	s := c04HexRe.ReplaceAllString(err.Error(), "#")
	if i := strings.Index(s, ";"); i > 0 {
		s = s[:i]
	}
	if len(s) > 110 {
		s = s[:110]
	}
	return s
}

func (a *c04Adv) poolSig(addr types.Address) string {
	var sb strings.Builder
	for _, b := range a.n.Chain.GetUncommittedAccountBlocksByAddress(addr) {
		sb.WriteString(b.Hash.String()[:16])
		sb.WriteByte(' ')
	}
	return sb.String()
}

// offer hands b to the node over the next ingress path. crafted: b is not a block the in-order rule allows.
func (a *c04Adv) offer(b *nom.AccountBlock, kind, class, when string, crafted bool) {
	if a.stop {
		return
	}
	n := a.n
	path := c04Paths[a.offers%len(c04Paths)]
	a.offers++
	before := a.poolSig(b.Address)
	var err error
	panicked := ""
	func() {
		defer func() {
			if rec := recover(); rec != nil {
				panicked = fmt.Sprint(rec)
			}
		}()
		switch path {
		case "gossip":
			err = n.Bridge.AddAccountBlocks([]*nom.AccountBlock{b})
		case "pool":
			var tx *nom.AccountBlockTransaction
			if tx, err = n.Sup.ApplyBlock(b); err == nil {
				ins := n.Chain.AcquireInsert("c04 adversary")
				err = n.Chain.AddAccountBlockTransaction(ins, tx)
				ins.Unlock()
			}
		case "momentum":
			_, err = n.InsertChain([]*nom.DetailedMomentum{c04ForgedMomentum(n, b)})
		}
	}()
	a.c.Eval(1)
	a.c.Count("inbox_adversary_offers", 1)
	a.c.Count("inbox_adversary_offers_via_"+path, 1)
	if panicked != "" {
		a.c.Violation("contract-receive-offer-panics "+path, map[string]interface{}{"kind": kind, "panic": panicked})
		a.stop = true
		return
	}
	stored := n.Chain.GetPatch(b.Address, b.Identifier()) != nil
	changed := before != a.poolSig(b.Address)
	outcome := "refused"
	if stored {
		outcome = "accepted"
	} else if changed {
		outcome = "refused-but-pool-changed"
	}
	if !crafted {
		c04Note(a.c, fmt.Sprintf("inbox-adv/%s/%s/%s/%s", kind, when, path, outcome))
		return
	}
	c04Note(a.c, fmt.Sprintf("inbox-adv/%s/%s/%s", kind, class, outcome))
	c04Note(a.c, fmt.Sprintf("inbox-adv/%s/via-%s/%s", when, path, outcome))
	if !stored && !changed {
		a.c.SetAdd("inbox_adversary_refusal_reasons", c04Reason(err))
		a.c.Count("inbox_adversary_refused", 1)
		return
	}
	// the pool holds something else than before: the reference node is no longer comparable, the ledger decides
	a.touched = true
	a.c.Count("inbox_adversary_changed_the_pool", 1)
	l, lerr := c01PoolLedger(n)
	if lerr != nil {
		a.c.Violation("ledger-scan-failed", lerr.Error())
		a.stop = true
		return
	}
	if !c04OracleEx(a.c, l, fmt.Sprintf(a.role+" incl. pool, right after a third party offered a contract receive (%s, %s, %s, via %s: %s, error %q)", kind, class, when, path, outcome, c04Reason(err)), false) {
		a.stop = true
	}
}

// attack offers every well-formed out-of-order variant for the contract's current position.
func (a *c04Adv) attack(v *c04InboxView, when string) {
	type base struct {
		b   *nom.AccountBlock
		pos int
		at  string
	}
	var bases []base
	for i, b := range v.pooled {
		if i >= len(v.entries) || b.FromBlockHash != v.entries[i].Hash {
			return // the pool is not the honest one any more (only after an accepted offer)
		}
		if i < 4 {
			bases = append(bases, base{b, i, "at-pooled-height"})
		}
	}
	if len(v.pooled) < len(v.entries) {
		if next := a.generate(v.entries[len(v.pooled)]); next != nil {
			bases = append(bases, base{next, len(v.pooled), "on-frontier"})
		}
	}
	for _, bs := range bases {
		for j, e := range v.entries {
			if j == bs.pos {
				continue
			}
			kind := "later-entry-"
			if j < bs.pos {
				kind = "earlier-entry-"
			}
			a.offer(c04Swap(a.n, bs.b, e), kind+bs.at, c04CallClass(v.entries[bs.pos], e), when, true)
		}
		if v.before != nil {
			a.offer(c04Swap(a.n, bs.b, v.before), "confirmed-entry-"+bs.at, c04CallClass(v.entries[bs.pos], v.before), when, true)
		}
	}
	if len(bases) > 0 {
		a.c.Count("inbox_adversary_activations_"+when, 1)
		a.c.Distinct(fmt.Sprintf("inbox-adv-position/%s/pooled=%d/waiting=%d", when, len(v.pooled), c04min(len(v.entries)-len(v.pooled), 3)))
	}
}

func c04min(a, b int) int {
	if a < b {
		return a
	}
	return b
}

// afterPooledReceive: the generator (or anybody) just put a receive of addr into the pool.
func (a *c04Adv) afterPooledReceive(addr types.Address) {
	if a.busy || a.stop || a.budget <= 0 {
		return
	}
	a.busy = true
	defer func() { a.busy = false }()
	v := a.view(addr)
	if v == nil || len(v.entries) <= len(v.pooled) {
		return // nothing waiting behind the pooled receives
	}
	a.budget--
	a.attack(v, "between-generator-steps")
}

// beforeGenerator: a momentum was inserted, the generator has not started. For a contract with several entries waiting
// the adversary builds receive #1 itself and gets it into the pool ahead of the generator, then offers the variants.
func (a *c04Adv) beforeGenerator() {
	if a.busy || a.stop || !a.early {
		return
	}
	a.busy = true
	defer func() { a.busy = false }()
	for _, addr := range types.EmbeddedContracts {
		v := a.view(addr)
		if v == nil || len(v.pooled) != 0 || len(v.entries) < 2 {
			continue
		}
		first := a.generate(v.entries[0])
		if first == nil {
			continue
		}
		a.offer(first, "valid-next-ahead-of-generator", "", "before-generator", false)
		if v = a.view(addr); v != nil && len(v.pooled) == 1 {
			a.attack(v, "before-generator")
		}
		return
	}
}

// afterGenerator: between two momentums, everything the generator could do is pooled.
func (a *c04Adv) afterGenerator() {
	if a.busy || a.stop {
		return
	}
	a.busy = true
	defer func() { a.busy = false }()
	for _, addr := range types.EmbeddedContracts {
		if v := a.view(addr); v != nil && len(v.pooled) >= 2 {
			a.attack(v, "generator-done")
			return
		}
	}
}

// c04IdenticalCalls submits a group of calls with the same (contract, token, amount, data), by one sender or several.
func c04IdenticalCalls(c *fw.C, n *simnet.Node, r *rand.Rand, users []*wallet.KeyPair) {
	z := int64(g.Zexp)
	var id types.Hash
	r.Read(id[:])
	to, zts, amt, data, name := types.AcceleratorContract, types.ZnnTokenStandard, big.NewInt(int64(1+r.Intn(3))*z), definition.ABICommon.PackMethodPanic(definition.DonateMethodName), "accelerator.Donate"
	switch r.Intn(12) {
	case 9, 10, 11:
		// the maintenance call anybody may send: several of them confirmed by one momentum (what pillars racing for
		// the epoch update produce) are inbox entries like any other
		cts := []types.Address{types.PillarContract, types.StakeContract, types.SentinelContract, types.LiquidityContract, types.AcceleratorContract}
		k := r.Intn(len(cts))
		to = cts[k]
		zts, amt, data, name = types.ZnnTokenStandard, big.NewInt(0), definition.ABICommon.PackMethodPanic(definition.UpdateMethodName), []string{"pillar", "stake", "sentinel", "liquidity", "accelerator"}[k]+".Update"
	case 0:
		zts = types.QsrTokenStandard
	case 1:
		to, name = types.LiquidityContract, "liquidity.Donate"
	case 2:
		to, amt, data, name = types.PlasmaContract, big.NewInt(0), definition.ABIPlasma.PackMethodPanic(definition.CancelFuseMethodName, id), "plasma.CancelFuse(unknown)"
	case 3:
		to, amt, data, name = types.StakeContract, big.NewInt(0), definition.ABIStake.PackMethodPanic(definition.CancelStakeMethodName, id), "stake.Cancel(unknown)"
	case 4:
		to, zts, amt, data, name = types.PillarContract, types.QsrTokenStandard, big.NewInt(int64(1+r.Intn(20))*z), definition.ABIPillars.PackMethodPanic(definition.DepositQsrMethodName), "pillar.DepositQsr"
	case 5:
		to, amt, data, name = types.PillarContract, big.NewInt(0), definition.ABIPillars.PackMethodPanic(definition.DelegateMethodName, g.Pillar2Name), "pillar.Delegate"
	case 6:
		to, amt, data, name = types.TokenContract, big.NewInt(int64(1+r.Intn(1000))), definition.ABIToken.PackMethodPanic(definition.BurnMethodName), "token.Burn"
	case 7:
		to, amt, data, name = types.StakeContract, big.NewInt(0), definition.ABICommon.PackMethodPanic(definition.CollectRewardMethodName), "stake.CollectReward"
	}
	m := 2 + r.Intn(3)
	same := r.Intn(2) == 0
	u := users[r.Intn(len(users))]
	sent := 0
	for i := 0; i < m; i++ {
		if !same {
			u = users[r.Intn(len(users))]
		}
		if _, err := n.Send(u, to, zts, amt, data); err == nil {
			sent++
		}
	}
	if sent >= 2 {
		c.Count("inbox_groups_of_identical_calls", 1)
		c.SetAdd("inbox_identical_call_kinds", name)
	}
}

// c04ContractSummary: what each embedded contract received (in chain order) and holds.
func c04ContractSummary(l *scan.Ledger) map[string]string {
	out := map[string]string{}
	for _, a := range types.EmbeddedContracts {
		acc := l.Accounts[a]
		if acc == nil {
			continue
		}
		var sb strings.Builder
		for _, b := range acc.Blocks {
			if b.BlockType == nom.BlockTypeContractReceive {
				sb.WriteString(b.FromBlockHash.String()[:12] + " ")
			}
		}
		var zs []string
		for zts, v := range acc.Balances {
			if v != nil && v.Sign() != 0 {
				zs = append(zs, zts.String()+"="+v.String())
			}
		}
		sort.Strings(zs)
		out[a.String()] = fmt.Sprintf("blocks=%d received=[%s] balances=%v", len(acc.Blocks), sb.String(), zs)
	}
	return out
}

func c04Inbox(c *fw.C, caseID string, idx int) {
	r := c.Rand(caseID)
	base := c.ScratchDir("c04i")
	defer os.RemoveAll(base)
	P := simnet.Open("P", base+"/P", simnet.MockGenesis(), g.PillarKeys)
	defer P.Stop()
	// The node the blocks are offered to is the producer itself (even cases) or a node that only follows (odd cases:
	// it gets the producer's momentums and contract receives as they are broadcast; the producer is never offered
	// anything and is the reference itself).
	followerVictim := idx%2 == 1
	V, role := P, "producer"
	var R *simnet.Node
	if followerVictim {
		V, role = simnet.Open("V", base+"/V", simnet.MockGenesis(), nil), "follower"
		defer V.Stop()
	} else {
		R = simnet.Open("R", base+"/R", simnet.MockGenesis(), g.PillarKeys)
		defer R.Stop()
	}
	ref := func() *simnet.Node {
		if followerVictim {
			return P
		}
		return R
	}
	w := simnet.NewWorkload(rand.New(rand.NewSource(r.Int63())), P)
	w.ContractWeight = 45
	adv := &c04Adv{c: c, n: V, role: role, r: rand.New(rand.NewSource(r.Int63())), offers: idx}
	var mirror []*nom.AccountBlock
	failed := false
	P.OnBlock = func(b *nom.AccountBlock, _ db.Patch, err error) {
		if err != nil || failed {
			return
		}
		if !types.IsEmbeddedAddress(b.Address) {
			if !followerVictim {
				mirror = append(mirror, simnet.CloneBlock(b))
			}
			return
		}
		if b.BlockType != nom.BlockTypeContractReceive {
			return
		}
		if followerVictim {
			// the producer broadcasts its contract receive
			if err := V.Bridge.AddAccountBlocks([]*nom.AccountBlock{simnet.CloneBlock(b)}); err != nil && !adv.touched {
				c.Violation("follower-refuses-producers-contract-receive", map[string]interface{}{"err": c04Reason(err), "height": P.Height()})
				failed = true
				return
			}
		}
		adv.afterPooledReceive(b.Address)
	}
	P.OnMomentum = func(m *nom.Momentum, err error) {
		if err != nil || failed {
			return
		}
		if followerVictim {
			// the producer broadcasts its momentum
			if _, err := V.InsertChain(simnet.CloneBatch(P.Range(m.Height, m.Height))); err != nil {
				c.Violation("follower-refuses-producers-momentum", map[string]interface{}{"err": c04Reason(err), "height": m.Height, "after_third_party_changed_its_pool": adv.touched})
				failed = true
				return
			}
		}
		adv.beforeGenerator()
	}
	refAlive := true
	// compareRef: as long as no crafted block got in, the node must stand where the reference (which never saw the
	// third party) stands
	compareRef := func(when string) bool {
		if !refAlive {
			return true
		}
		if adv.touched {
			refAlive = false
			return true
		}
		c.Eval(1)
		if V.Frontier().Hash == ref().Frontier().Hash {
			c.Count("inbox_momentums_equal_to_reference", 1)
			return true
		}
		refAlive = false
		lp, e1 := scan.Scan(V.Mgr.Frontier())
		lr, e2 := scan.Scan(ref().Mgr.Frontier())
		if e1 != nil || e2 != nil {
			c.Violation("ledger-scan-failed", fmt.Sprint(e1, e2))
			return false
		}
		sp, sr := c04ContractSummary(lp), c04ContractSummary(lr)
		for k, vp := range sp {
			if sr[k] != vp {
				c.Violation("refused-contract-receives-changed-the-contract-ledger", map[string]interface{}{"when": when, "role": role, "height": V.Height(), "contract": k,
					"node_offered_the_blocks": vp, "reference_node": sr[k]})
				return false
			}
		}
		c.Inconclusive(fmt.Sprintf("%s and reference diverged outside the embedded contracts at height %d", role, V.Height()))
		return false
	}
	produce := func() bool {
		skip := 0
		if r.Intn(5) == 0 {
			skip = 1 + r.Intn(2)
		}
		adv.budget = 2
		adv.early = r.Intn(3) == 0
		if R != nil && refAlive {
			for _, b := range mirror {
				if err := R.Bridge.AddAccountBlocks([]*nom.AccountBlock{b}); err != nil {
					c.Inconclusive("reference producer refuses a user block the producer accepted: " + err.Error())
					return false
				}
			}
		}
		mirror = mirror[:0]
		if _, err := P.Produce(skip); err != nil {
			c.Violation("producer-cannot-produce", map[string]interface{}{"err": c04Reason(err), "log": w.Log, "after_third_party_changed_its_pool": adv.touched && !followerVictim})
			return false
		}
		if adv.stop || failed {
			return false
		}
		if R != nil && refAlive && !adv.touched {
			if _, err := R.Produce(skip); err != nil {
				c.Inconclusive("reference producer cannot produce: " + err.Error())
				return false
			}
		}
		if !compareRef("after a momentum") {
			return false
		}
		if r.Intn(3) == 0 {
			adv.afterGenerator()
			if adv.stop {
				return false
			}
		}
		l, err := c01PoolLedger(V)
		if err != nil {
			c.Violation("ledger-scan-failed", err.Error())
			return false
		}
		return c04OracleEx(c, l, role+" incl. pool, third party offering contract receives", false)
	}
	nMomentums := 14 + r.Intn(12)
	for i := 0; i < nMomentums; i++ {
		w.Step(5)
		for k := r.Intn(3); k > 0; k-- {
			c04IdenticalCalls(c, P, r, w.Users)
		}
		if !produce() {
			return
		}
		if r.Intn(9) == 0 {
			// the pool is lost (user blocks and unconfirmed contract receives); the inbox entries are still waiting
			if followerVictim {
				V.Restart()
			} else {
				P.Restart()
				if refAlive {
					R.Restart()
				}
				mirror = mirror[:0]
			}
			c.Count("inbox_restarts_with_pooled_receives", 1)
		}
	}
	// let the chain come to rest: no new sends, until a momentum confirms nothing and nothing is pooled
	quiet := false
	for i := 0; i < 10 && !quiet; i++ {
		if !produce() {
			return
		}
		quiet = len(P.Chain.GetAllUncommittedAccountBlocks()) == 0 && len(P.Frontier().Content) == 0
	}
	if !quiet {
		c.Count("inbox_histories_not_quiescent", 1)
	}
	F := V
	if !followerVictim {
		F = simnet.Open("F", base+"/F", simnet.MockGenesis(), nil)
		defer F.Stop()
		if err := F.SyncFrom(P, 1+r.Intn(20)); err != nil {
			c.Violation("follower-refuses-producers-momentum", map[string]interface{}{"err": c04Reason(err), "after_third_party_changed_its_pool": adv.touched})
			return
		}
	}
	if F.Height() != P.Height() {
		c.Violation("follower-behind-producer", map[string]interface{}{"follower": F.Height(), "producer": P.Height()})
		return
	}
	for _, when := range []string{"follower at the end (third party offering contract receives to the " + role + ")", "the same follower after restart"} {
		l, err := scan.Scan(F.Mgr.Frontier())
		if err != nil {
			c.Violation("ledger-scan-failed", err.Error())
			return
		}
		if !c04OracleEx(c, l, when, quiet) {
			return
		}
		F.Restart()
	}
	if refAlive && !adv.touched {
		lp, e1 := scan.Scan(V.Mgr.Frontier())
		lr, e2 := scan.Scan(ref().Mgr.Frontier())
		if e1 != nil || e2 != nil {
			c.Violation("ledger-scan-failed", fmt.Sprint(e1, e2))
			return
		}
		sp, sr := c04ContractSummary(lp), c04ContractSummary(lr)
		c.Eval(len(sp))
		for k, vp := range sp {
			if sr[k] != vp {
				c.Violation("refused-contract-receives-changed-the-contract-ledger", map[string]interface{}{"when": "at the end", "role": role, "contract": k, "node_offered_the_blocks": vp, "reference_node": sr[k]})
				return
			}
		}
		c.Count("inbox_histories_equal_to_reference", 1)
	}
	c.Count("inbox_histories_offered_to_"+role, 1)
}
