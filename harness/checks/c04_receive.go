package checks

// C04 — each send is received at most once; contract inboxes are strict FIFO.
//
// Offline checker over raw ledger scans (confirmed chain + unconfirmed pool) of real nodes:
// (1) join all receive blocks on FromBlockHash: no send has two receives, the send exists, and the
// receiver is the send's ToAddress; (2) per embedded contract the FromBlockHash sequence along its
// account chain is a prefix of the sends addressed to it in confirmation order (momentum height,
// then position of the confirming entry in that momentum's content, descendants after their parent).
// Workloads: competing receive attempts (same account twice, foreign account, replacement of a pooled
// receive, re-submission after displacement), many callers of one contract with missed slots, the
// same send received on two forks followed by a reorganisation, restarts.

import (
	"bytes"
	"fmt"
	"math/big"
	"math/rand"
	"os"
	"sort"

	g "github.com/zenon-network/go-zenon/chain/genesis/mock"
	"github.com/zenon-network/go-zenon/chain/nom"
	"github.com/zenon-network/go-zenon/common/types"
	"github.com/zenon-network/go-zenon/vm/constants"
	"github.com/zenon-network/go-zenon/vm/embedded/definition"
	"github.com/zenon-network/go-zenon/wallet"

	"verif/harness/fw"
	"verif/harness/scan"
	"verif/harness/simnet"
)

func init() {
	fw.Register(&fw.Check{
		ID:    "C04",
		Level: "exploration",
		Rule: "hist:* cases are seeded histories with competing receive attempts and interleaved contract calls, scanned after every momentum on the producer and at the end on a follower before and after a restart; " +
			"fork:* cases let the same send be received on two competing branches and scan the node that switched, then try to receive again; " +
			"distinct_nontrivial counts distinct (attack kind, outcome) pairs and distinct (contract, inbox length class) pairs whose order was checked",
		Cases:            c04Cases,
		Run:              c04Run,
		MinDistinct:      10,
		DeathIsViolation: true,
		DeathSig:         func(caseID, tail string) string { return "node-crash " + topRepoFrame(tail) },
		Assumptions: []string{
			"post-enforcement regime (receiver-mismatch enforcement height 0); the pre-enforcement regime and a mid-run boundary are not exercised",
			"intra-momentum confirmation order is taken from the momentum's own content (chain data), not from the sequencer keys being checked",
		},
	})
}

func c04Cases(tier string, seed int64) []string {
	n, f := 24, 16
	if tier == "thorough" {
		n, f = 1200, 1600
	}
	var l []string
	for i := 0; i < n; i++ {
		l = append(l, fmt.Sprintf("hist:%d", i))
	}
	for i := 0; i < f; i++ {
		l = append(l, fmt.Sprintf("fork:%d", i))
	}
	for i := 0; i < f/2; i++ {
		l = append(l, fmt.Sprintf("forkp:%d", i))
	}
	return l
}

// c04ForkProducer: the node that switches branches is itself a producer and holds UNCONFIRMED contract receives (its
// pillar generated them for calls its abandoned momentum confirmed). The adopted branch confirms the same calls
// plus one more that queues up in front of them. After the switch the node produces the next momentums itself: every
// call must be received exactly once and in the adopted branch's confirmation order, and other nodes must follow.
func c04ForkProducer(c *fw.C, caseID string, idx int) {
	r := c.Rand(caseID)
	base := c.ScratchDir("c04p")
	defer os.RemoveAll(base)
	A := simnet.Open("A", base+"/A", simnet.MockGenesis(), g.PillarKeys)
	defer A.Stop()
	wA := simnet.NewWorkload(rand.New(rand.NewSource(r.Int63())), A)
	wA.ContractWeight = 40
	for i := 0; i < 8+r.Intn(16); i++ {
		wA.Step(5)
		if _, err := A.Produce(0); err != nil {
			c.Violation("producer-cannot-produce", err.Error())
			return
		}
	}
	A.MustProduce(2) // drain pending contract receives
	forkPoint := A.Height()
	B := simnet.Open("B", base+"/B", simnet.MockGenesis(), g.PillarKeys)
	defer B.Stop()
	if err := B.SyncFrom(A, 40); err != nil {
		c.Violation("sync-failed", err.Error())
		return
	}
	// callers sorted by address: the momentum content (and with it the contract's inbox) is ordered by address
	callers := []*wallet.KeyPair{g.User1, g.User2, g.User3, g.User4}
	sort.Slice(callers, func(i, j int) bool { return bytes.Compare(callers[i].Address.Bytes(), callers[j].Address.Bytes()) < 0 })
	contract, data, zts, amt := types.PlasmaContract, definition.ABIPlasma.PackMethodPanic(definition.FuseMethodName, g.User9.Address), types.QsrTokenStandard, big.NewInt(10*g.Zexp)
	if idx%3 == 0 {
		// a call without value: every caller can afford it
		contract, data, zts, amt = types.PillarContract, definition.ABIPillars.PackMethodPanic(definition.DelegateMethodName, g.Pillar1Name), types.ZnnTokenStandard, big.NewInt(0)
	} else if idx%3 == 1 {
		contract, data, zts, amt = types.StakeContract, definition.ABIStake.PackMethodPanic(definition.StakeMethodName, int64(constants.StakeTimeUnitSec)), types.ZnnTokenStandard, big.NewInt(1*g.Zexp)
	}
	// a caller the random history has left without the funds falls back to the call without value
	for _, u := range callers {
		if bal, _ := A.Chain.GetFrontierAccountStore(u.Address).GetBalance(zts); amt.Sign() > 0 && (bal == nil || bal.Cmp(new(big.Int).Mul(amt, big.NewInt(2))) < 0) {
			contract, data, zts, amt = types.PillarContract, definition.ABIPillars.PackMethodPanic(definition.DelegateMethodName, g.Pillar1Name), types.ZnnTokenStandard, big.NewInt(0)
			break
		}
	}
	// branch X: A confirms the calls of the later callers; its pillar generates their receives into A's pool
	nLate := 1 + r.Intn(3)
	var shared []*nom.AccountBlock
	for _, u := range callers[len(callers)-nLate:] {
		b, err := A.Send(u, contract, zts, amt, data)
		if err != nil {
			c.Inconclusive("scripted call refused: " + err.Error())
			return
		}
		shared = append(shared, b)
	}
	if _, err := A.Produce(0); err != nil {
		c.Violation("producer-cannot-produce", err.Error())
		return
	}
	pooled := 0
	for _, b := range A.Chain.GetAllUncommittedAccountBlocks() {
		if b.BlockType == nom.BlockTypeContractReceive {
			pooled++
		}
	}
	c.Count("unconfirmed_contract_receives_on_switching_producer", pooled)
	// branch Y: one momentum in a later slot, then the same calls plus one by an earlier caller (lands in front)
	if _, err := B.Produce(1); err != nil {
		c.Violation("producer-cannot-produce", err.Error())
		return
	}
	for _, b := range shared {
		if err := B.Bridge.AddAccountBlocks([]*nom.AccountBlock{simnet.CloneBlock(b)}); err != nil {
			c.Inconclusive("adopted branch refuses the shared call: " + err.Error())
			return
		}
	}
	if _, err := B.Send(callers[0], contract, zts, amt, data); err != nil {
		c.Inconclusive("scripted call refused: " + err.Error())
		return
	}
	// confirm them WITHOUT letting B's pillar generate the receives into a further momentum: the receives stay to be
	// produced by whoever produces next — the switching node
	if _, err := B.Produce(0); err != nil {
		c.Violation("producer-cannot-produce", err.Error())
		return
	}
	if B.Height() <= A.Height() {
		c.Inconclusive("adopted branch is not longer")
		return
	}
	if _, err := A.InsertChain(simnet.CloneBatch(B.Range(forkPoint+1, B.Height()))); err != nil {
		c.Violation("switch-refused", map[string]interface{}{"err": err.Error()})
		return
	}
	// the switched node produces on
	for i := 0; i < 3; i++ {
		if _, err := A.Produce(0); err != nil {
			c.Violation("switched-producer-cannot-produce", map[string]interface{}{"err": err.Error(), "momentums_after_switch": i})
			return
		}
		l, err := c01PoolLedger(A)
		if err != nil {
			c.Violation("ledger-scan-failed", err.Error())
			return
		}
		if !c04Oracle(c, l, "switched producer incl. pool") {
			return
		}
	}
	F := simnet.Open("F", base+"/F", simnet.MockGenesis(), nil)
	defer F.Stop()
	if err := F.SyncFrom(A, 7); err != nil {
		c.Violation("follower-refuses-switched-producers-momentum", err.Error())
		return
	}
	// all calls received, in order
	l, err := scan.Scan(F.Mgr.Frontier())
	if err != nil {
		c.Violation("ledger-scan-failed", err.Error())
		return
	}
	c04Oracle(c, l, "follower of the switched producer")
	c.Distinct(fmt.Sprintf("forkp/contract=%s/shared=%d/pooled-receives=%v", contract, nLate, pooled > 0))
	c.Count("producer_forks", 1)
}

// c04Oracle applies both ledger oracles. Returns false after reporting a violation.
func c04Oracle(c *fw.C, l *scan.Ledger, where string) bool {
	byHash := l.BlockByHash()
	recv := map[types.Hash][]*nom.AccountBlock{}
	for _, acc := range l.Accounts {
		for _, b := range acc.Blocks {
			if b.IsReceiveBlock() && b.BlockType != nom.BlockTypeGenesisReceive {
				recv[b.FromBlockHash] = append(recv[b.FromBlockHash], b)
			}
		}
	}
	c.Eval(len(recv))
	for h, rs := range recv {
		if len(rs) > 1 {
			kind := "same-account"
			if rs[0].Address != rs[1].Address {
				kind = "different-accounts"
			}
			c.Violation("send-received-twice "+kind, map[string]interface{}{"where": where, "send": h.String(),
				"receive_1": fmt.Sprintf("%s/%d", rs[0].Address, rs[0].Height), "receive_2": fmt.Sprintf("%s/%d", rs[1].Address, rs[1].Height)})
			return false
		}
		s := byHash[h]
		if s == nil {
			c.Violation("receive-of-unknown-send", map[string]interface{}{"where": where, "send": h.String(), "receiver": rs[0].Address.String()})
			return false
		}
		if !s.IsSendBlock() {
			c.Violation("receive-of-a-non-send-block", map[string]interface{}{"where": where, "send": h.String()})
			return false
		}
		if s.ToAddress != rs[0].Address {
			c.Violation("received-by-foreign-account", map[string]interface{}{"where": where, "send": h.String(), "addressed_to": s.ToAddress.String(), "received_by": rs[0].Address.String()})
			return false
		}
	}
	// contract inbox order
	expected := map[types.Address][]types.Hash{}
	for _, m := range l.Momentums {
		for _, hd := range m.Content {
			acc := l.Accounts[hd.Address]
			if acc == nil || hd.Height == 0 || int(hd.Height) > len(acc.Blocks) {
				c.Violation("momentum-content-refers-to-missing-block", map[string]interface{}{"where": where, "momentum": m.Height, "header": fmt.Sprint(*hd)})
				return false
			}
			b := acc.Blocks[hd.Height-1]
			if b.Hash != hd.Hash {
				c.Violation("momentum-content-hash-mismatch", map[string]interface{}{"where": where, "momentum": m.Height})
				return false
			}
			if b.BlockType == nom.BlockTypeContractSend {
				continue // confirmed together with (and at the position of) its parent receive
			}
			group := append([]*nom.AccountBlock{b}, b.DescendantBlocks...)
			for _, x := range group {
				if x.IsSendBlock() && types.IsEmbeddedAddress(x.ToAddress) {
					expected[x.ToAddress] = append(expected[x.ToAddress], x.Hash)
				}
			}
		}
	}
	for _, a := range types.EmbeddedContracts {
		acc := l.Accounts[a]
		if acc == nil {
			continue
		}
		var got []types.Hash
		for _, b := range acc.Blocks {
			if b.BlockType == nom.BlockTypeContractReceive {
				got = append(got, b.FromBlockHash)
			}
		}
		exp := expected[a]
		c.Eval(1)
		cls := "0"
		switch {
		case len(got) > 20:
			cls = ">20"
		case len(got) > 3:
			cls = "4-20"
		case len(got) > 0:
			cls = "1-3"
		}
		c.Distinct(fmt.Sprintf("inbox/%s/received=%s/queued=%v", a, cls, len(exp) > len(got)))
		if len(got) > len(exp) {
			c.Violation("contract-received-more-than-was-sent", map[string]interface{}{"where": where, "contract": a.String(), "received": len(got), "sent": len(exp)})
			return false
		}
		for i := range got {
			if got[i] != exp[i] {
				c.Violation("contract-inbox-order-violated", map[string]interface{}{"where": where, "contract": a.String(), "position": i,
					"received": got[i].String(), "expected_next_in_confirmation_order": exp[i].String(), "received_so_far": len(got), "sent": len(exp)})
				return false
			}
		}
	}
	return true
}

func c04Run(c *fw.C, caseID string) {
	var idx int
	if n, _ := fmt.Sscanf(caseID, "fork:%d", &idx); n == 1 {
		c04Fork(c, caseID, idx)
		return
	}
	if n, _ := fmt.Sscanf(caseID, "forkp:%d", &idx); n == 1 {
		c04ForkProducer(c, caseID, idx)
		return
	}
	r := c.Rand(caseID)
	base := c.ScratchDir("c04")
	defer os.RemoveAll(base)
	P := simnet.Open("P", base+"/P", simnet.MockGenesis(), g.PillarKeys)
	defer P.Stop()
	w := simnet.NewWorkload(rand.New(rand.NewSource(r.Int63())), P)
	w.ContractWeight = 50
	// right after a momentum was inserted and before the pillar generates the contract receives, a dishonest
	// pillar tries to receive the second queued call first
	P.OnMomentum = func(m *nom.Momentum, err error) {
		if err == nil {
			c04OutOfOrderContractReceive(c, P, r)
		}
	}
	nMomentums := 50 + r.Intn(50)
	for i := 0; i < nMomentums; i++ {
		w.Step(8)
		for k := 0; k < 2; k++ {
			c04Attack(c, P, w, r)
		}
		skip := 0
		if r.Intn(4) == 0 {
			skip = 1 + r.Intn(3)
		}
		if _, err := P.Produce(skip); err != nil {
			c.Violation("producer-cannot-produce", map[string]interface{}{"err": err.Error(), "log": w.Log})
			return
		}
		l, err := c01PoolLedger(P)
		if err != nil {
			c.Violation("ledger-scan-failed", err.Error())
			return
		}
		if !c04Oracle(c, l, "producer incl. pool") {
			return
		}
	}
	F := simnet.Open("F", base+"/F", simnet.MockGenesis(), nil)
	defer F.Stop()
	if err := F.SyncFrom(P, 1+r.Intn(30)); err != nil {
		c.Violation("follower-refuses-producers-momentum", err.Error())
		return
	}
	for _, when := range []string{"follower", "follower after restart"} {
		l, err := scan.Scan(F.Mgr.Frontier())
		if err != nil {
			c.Violation("ledger-scan-failed", err.Error())
			return
		}
		if !c04Oracle(c, l, when) {
			return
		}
		F.Restart()
	}
	// after the restart the follower must still refuse a second receive of an already received send
	c.Count("histories", 1)
	if caseID == "hist:0" {
		c.Sample(map[string]interface{}{"case": caseID, "momentums": P.Height(), "accepted_by_action": w.Accepted})
	}
}

// c04Attack tries one competing-receive pattern on node n.
func c04Attack(c *fw.C, n *simnet.Node, w *simnet.Workload, r *rand.Rand) {
	users := w.Users
	u := users[r.Intn(len(users))]
	if r.Intn(6) == 0 {
		// a user account tries to receive a send that is addressed to an embedded contract (confirmed recently; the
		// contract itself has received it already or will in the next momentum)
		H := n.Height()
		lo := uint64(2)
		if H > 12 {
			lo = H - 10
		}
		var cands []types.Hash
		for h := lo; h <= H; h++ {
			if d := n.Detailed(h); d != nil {
				for _, b := range d.AccountBlocks {
					for _, x := range append([]*nom.AccountBlock{b}, b.DescendantBlocks...) {
						if x.IsSendBlock() && types.IsEmbeddedAddress(x.ToAddress) {
							cands = append(cands, x.Hash)
						}
					}
				}
			}
		}
		if len(cands) > 0 {
			_, e := n.Receive(u, cands[r.Intn(len(cands))])
			res := "refused"
			if e == nil {
				res = "accepted"
			}
			c04Note(c, "attack/user-receives-send-addressed-to-contract/"+res)
		}
		return
	}
	hashes := w.Unreceived(u.Address, 8)
	if len(hashes) == 0 {
		return
	}
	h := hashes[r.Intn(len(hashes))]
	outcome := func(err error) string {
		if err == nil {
			return "accepted"
		}
		return "refused"
	}
	switch r.Intn(5) {
	case 0: // same account twice in the pool
		_, e1 := n.Receive(u, h)
		_, e2 := n.Receive(u, h)
		c04Note(c, "attack/double-receive-in-pool/"+outcome(e1)+"+"+outcome(e2))
	case 1: // a foreign account tries to receive it
		var v *wallet.KeyPair
		for {
			v = users[r.Intn(len(users))]
			if v.Address != u.Address {
				break
			}
		}
		_, e := n.Receive(v, h)
		c04Note(c, "attack/foreign-receiver/"+outcome(e))
	case 2: // receive, confirm, receive again across momentums
		_, e1 := n.Receive(u, h)
		if _, err := n.Produce(0); err != nil {
			return
		}
		_, e2 := n.Receive(u, h)
		c04Note(c, "attack/double-receive-across-momentums/"+outcome(e1)+"+"+outcome(e2))
	case 3: // a pooled receive is replaced by a competing block of higher priority at the same height, then the receive is submitted again
		b1, e1 := n.Receive(u, h)
		if e1 != nil {
			return
		}
		// competing block at the same height: a send with twice the plasma (higher priority)
		tpl := &nom.AccountBlock{BlockType: nom.BlockTypeUserSend, Address: u.Address, ToAddress: users[r.Intn(len(users))].Address,
			TokenStandard: types.ZnnTokenStandard, Amount: big.NewInt(1), Height: b1.Height, PreviousHash: b1.PreviousHash, FusedPlasma: b1.FusedPlasma * 2}
		_, e2 := n.Submit(tpl, u)
		// the receive, again, on top of whatever is now the frontier
		_, e3 := n.Receive(u, h)
		_, e4 := n.Receive(u, h)
		c04Note(c, "attack/replace-pooled-receive/"+outcome(e2)+"+"+outcome(e3)+"+"+outcome(e4))
	case 4: // two competing receives of the SAME send at the same height (different plasma)
		b1, e1 := n.Receive(u, h)
		if e1 != nil {
			return
		}
		tpl := &nom.AccountBlock{BlockType: nom.BlockTypeUserReceive, Address: u.Address, FromBlockHash: h,
			Height: b1.Height, PreviousHash: b1.PreviousHash, FusedPlasma: b1.FusedPlasma + 1000}
		_, e2 := n.Submit(tpl, u)
		_, e3 := n.Receive(u, h)
		c04Note(c, "attack/competing-receives-same-height/"+outcome(e2)+"+"+outcome(e3))
	}
}

func c04Fork(c *fw.C, caseID string, idx int) {
	r := c.Rand(caseID)
	base := c.ScratchDir("c04f")
	defer os.RemoveAll(base)
	A := simnet.Open("A", base+"/A", simnet.MockGenesis(), g.PillarKeys)
	defer A.Stop()
	wA := simnet.NewWorkload(rand.New(rand.NewSource(r.Int63())), A)
	for i := 0; i < 12+r.Intn(20); i++ {
		wA.Step(6)
		if _, err := A.Produce(0); err != nil {
			c.Violation("producer-cannot-produce", err.Error())
			return
		}
	}
	// make sure several confirmed sends are waiting: user→user and user→contract
	for i := 0; i < 4; i++ {
		_, _ = A.Send(g.User1, g.User2.Address, types.ZnnTokenStandard, big.NewInt(int64(1000+i)), nil)
		_, _ = A.Send(g.User2, g.User3.Address, types.QsrTokenStandard, big.NewInt(int64(2000+i)), nil)
	}
	A.MustProduce(2)
	forkPoint := A.Height()
	B := simnet.Open("B", base+"/B", simnet.MockGenesis(), g.PillarKeys)
	defer B.Stop()
	S := simnet.Open("S", base+"/S", simnet.MockGenesis(), nil)
	defer S.Stop()
	for _, n := range []*simnet.Node{B, S} {
		if err := n.SyncFrom(A, 40); err != nil {
			c.Violation("sync-failed", err.Error())
			return
		}
	}
	wB := simnet.NewWorkload(rand.New(rand.NewSource(r.Int63())), B)
	// both branches receive the SAME sends (in different momentums / orders)
	recvAll := func(n *simnet.Node, w *simnet.Workload, depth int, lazy bool) {
		for d := 0; d < depth; d++ {
			for _, u := range []*wallet.KeyPair{g.User2, g.User3} {
				hs := w.Unreceived(u.Address, 10)
				if lazy && d == 0 {
					continue
				}
				for i, h := range hs {
					if r.Intn(2) == 0 || i == 0 {
						_, _ = n.Receive(u, h)
					}
				}
			}
			w.Step(4)
			if _, err := n.Produce(0); err != nil {
				c.Violation("producer-cannot-produce", err.Error())
				return
			}
		}
	}
	dx := 2 + r.Intn(8)
	recvAll(A, wA, dx, false)
	recvAll(B, wB, dx+1+r.Intn(4), true)
	if err := S.SyncFrom(A, 3); err != nil {
		c.Violation("follower-refuses-producers-momentum", err.Error())
		return
	}
	// also gossip branch X's pending pool blocks and some fresh receives to S before the switch
	if _, err := S.InsertChain(simnet.CloneBatch(B.Range(forkPoint+1, B.Height()))); err != nil {
		c.Violation("switch-refused", map[string]interface{}{"err": err.Error(), "depth": dx})
		return
	}
	l, err := c01PoolLedger(S)
	if err != nil {
		c.Violation("ledger-scan-failed", err.Error())
		return
	}
	if !c04Oracle(c, l, "switched node") {
		return
	}
	c.Distinct(fmt.Sprintf("fork/depth=%d", dx))
	// after the switch: sends received on the abandoned branch only must be receivable again on B (exactly once),
	// sends received on Y must be refused
	for _, u := range []*wallet.KeyPair{g.User2, g.User3} {
		for _, h := range wB.Unreceived(u.Address, 10) {
			_, e1 := B.Receive(u, h)
			_, e2 := B.Receive(u, h)
			c04Note(c, fmt.Sprintf("after-switch/receive-again/accepted=%v+%v", e1 == nil, e2 == nil))
		}
	}
	B.MustProduce(2)
	S.Restart()
	if err := S.SyncFrom(B, 2); err != nil {
		c.Violation("follower-refuses-producers-momentum after-switch", err.Error())
		return
	}
	l, err = scan.Scan(S.Mgr.Frontier())
	if err != nil {
		c.Violation("ledger-scan-failed", err.Error())
		return
	}
	c04Oracle(c, l, "switched node after continuation and restart")
	c.Count("forks", 1)
}

func c04Note(c *fw.C, key string) {
	c.Distinct(key)
	c.SetAdd("attack_outcomes", key)
}

// c04OutOfOrderContractReceive plays a dishonest pillar: it asks the real supervisor to generate the receive
// block for the SECOND queued call of a contract while the first is still waiting, and, if that succeeds,
// puts it into the pool so that it gets confirmed.
func c04OutOfOrderContractReceive(c *fw.C, n *simnet.Node, r *rand.Rand) {
	st := n.Chain.GetFrontierMomentumStore()
	for _, a := range types.EmbeddedContracts {
		mb := st.GetAccountMailbox(a)
		size := mb.SequencerSize()
		front := n.Chain.GetFrontierAccountStore(a).SequencerFront(mb)
		if front == nil {
			continue
		}
		var idx uint64
		for i := uint64(1); i <= size; i++ {
			if h := mb.SequencerByHeight(i); h != nil && *h == *front {
				idx = i
			}
		}
		if idx == 0 || idx+1 > size {
			continue
		}
		second := mb.SequencerByHeight(idx + 1)
		send, err := st.GetAccountBlock(*second)
		if err != nil || send == nil {
			continue
		}
		var res string
		func() {
			defer func() {
				if rec := recover(); rec != nil {
					res = "refused"
				}
			}()
			ex, err := n.Sup.GenerateAutoReceive(send)
			if err != nil || ex == nil || ex.Transaction == nil {
				res = "refused"
				return
			}
			n.CreateAccountBlock(ex.Transaction)
			if n.LastBlockErr != nil {
				res = "refused-by-pool"
			} else {
				res = "accepted"
			}
		}()
		c04Note(c, "attack/out-of-order-contract-receive/"+res)
		return
	}
}
