package checks

// C01 — token supply conservation, and C04's ledger oracles (shared scanner code).
//
// After EVERY accepted account block and every momentum of seeded histories the whole ledger
// (confirmed state overlaid with every account's unconfirmed chain) is scanned as raw data and,
// per token: Σ balances over all accounts + Σ amounts of sends without a receive == recorded
// TotalSupply ≤ MaxSupply; nobody holds a token that has no TokenInfo; a TotalSupply may only
// change in a step that contains a token-contract receive of an IssueToken/Mint/Burn call.

import (
	"bytes"
	"fmt"
	"math/big"
	"math/rand"
	"os"
	"sort"
	"strings"
	"time"

	g "github.com/zenon-network/go-zenon/chain/genesis/mock"
	"github.com/zenon-network/go-zenon/chain/genesis"
	"github.com/zenon-network/go-zenon/chain/nom"
	"github.com/zenon-network/go-zenon/common/db"
	"github.com/zenon-network/go-zenon/common/types"
	"github.com/zenon-network/go-zenon/consensus"
	"github.com/zenon-network/go-zenon/vm/constants"
	"github.com/zenon-network/go-zenon/vm/embedded/definition"

	"verif/harness/fw"
	"verif/harness/scan"
	"verif/harness/simnet"
)

func init() {
	fw.Register(&fw.Check{
		ID:    "C01",
		Level: "exploration",
		Rule: "each case is a seeded history on a real producing node (transfers, receives, sends to addresses that never receive, calls to token/plasma/stake/pillar/sentinel/swap/spork contracts with valid and invalid arguments so that refunds occur, " +
			"token issue/mint/burn/update, reward updates and collection with a short epoch); the full raw ledger incl. the unconfirmed pool is scanned after every accepted block and every momentum; " +
			"distinct_nontrivial counts distinct (workload action, outcome, supply-changed?) triples observed at a scan plus distinct tokens whose supply changed",
		Cases:       c01Cases,
		Run:         c01Run,
		MinDistinct: 12,
		// a balance that would go negative panics inside the VM/pillar (SubBalance) instead of being stored:
		// a node crash under a valid history is therefore a refuting observation here
		DeathIsViolation: true,
		DeathSig:         func(caseID, tail string) string { return "node-crash " + topRepoFrame(tail) },
		Assumptions: []string{
			"balances are stored as unsigned bytes: a negative balance is observable only as a broken sum or as a panic (C09)",
			"post-enforcement regime for the receiver-mismatch rule (enforcement height 0 in the harness)",
			"protobuf/ABI decoders of go-zenon are used as codecs for stored blocks and TokenInfo",
		},
	})
}

func c01Cases(tier string, seed int64) []string {
	n := 10
	if tier == "thorough" {
		n = 640
	}
	var l []string
	for i := 0; i < n; i++ {
		l = append(l, fmt.Sprintf("hist:%d", i))
	}
	l = append(l, "genesis:mock")
	// generated consistent genesis configurations, each followed by a short history
	nw := 4
	if tier == "thorough" {
		nw = 200
		l = append(l, "genesis:mainnet")
	}
	for i := 0; i < nw; i++ {
		l = append(l, fmt.Sprintf("genesis:world:%d", i))
	}
	// configurations the genesis validators ACCEPT (consistent ones and whatever perturbation slips through) must
	// start from a conserving state: the validators are the only thing between a genesis file and the ledger
	np := 3
	if tier == "thorough" {
		np = 120
	}
	for i := 0; i < np; i++ {
		l = append(l, fmt.Sprintf("genesis:perturbed:%d", i))
	}
	// the call generator of C09 (every method of every embedded contract, all spork regimes, hostile encodings,
	// contract-to-contract calls of bridge and liquidity) under this check's ledger monitor
	nc, nm := 1, 2
	if tier == "thorough" {
		nc, nm = 24, 40
	}
	for i := 0; i < nc; i++ {
		for _, rg := range c09Regimes {
			l = append(l, fmt.Sprintf("calls:%s:%d", rg, i))
		}
	}
	for i := 0; i < nm; i++ {
		l = append(l, fmt.Sprintf("calls-misowned:%s:%d", []string{"all", "bridge"}[i%2], i))
	}
	return l
}

// c01RunCalls runs C09's environment (muted: its own verdicts belong to C09) and scans the ledger after every
// contract receive and every momentum.
func c01RunCalls(c *fw.C, caseID string) {
	parts := strings.Split(caseID, ":")
	if len(parts) != 3 {
		c.Inconclusive("bad case id")
		return
	}
	restore := c01SaveGlobals()
	defer restore()
	c09ResetGlobals()
	e := &c09Env{
		c: c.Muted(), caseID: caseID, regime: parts[1], rng: c.Rand("C01/" + caseID),
		sporkIDs: map[string]types.Hash{},
		sends:    map[types.Hash]*c09Send{},
		pending:  map[types.Address]map[types.Hash]*c09Send{},
		retErr:   map[types.Hash]string{},
	}
	e.misownedAlways = parts[0] == "calls-misowned"
	e.st.init()
	e.open()
	defer e.close()
	mon := &c01Monitor{c: c, n: e.P, seenBlocks: map[types.Hash]bool{}}
	mon.check("genesis", nil)
	oldM, oldB := e.P.OnMomentum, e.P.OnBlock
	e.P.OnMomentum = func(m *nom.Momentum, err error) {
		oldM(m, err)
		if err == nil {
			mon.check("momentum", nil)
		}
	}
	e.P.OnBlock = func(b *nom.AccountBlock, ch db.Patch, err error) {
		oldB(b, ch, err)
		if err == nil && types.IsEmbeddedAddress(b.Address) {
			status := "ok"
			if len(b.Data) == 8 && b.Data[7] == 2 {
				status = "failed-call"
			}
			name := "?"
			if ct := c09ContractByAddr(b.Address); ct != nil {
				name = ct.name
			}
			if len(b.DescendantBlocks) > 0 && types.IsEmbeddedAddress(b.DescendantBlocks[0].ToAddress) {
				c.Count("contract_to_contract_sends", 1)
				status += " contract-to-contract"
			}
			mon.check(fmt.Sprintf("calls: %s receive %s descendants=%d", name, status, c02min(len(b.DescendantBlocks), 2)), nil)
		}
	}
	e.run()
	c.Count("ledger_scans", mon.scans)
	c.Count("calls_cases_momentums", int(e.P.Height()))
	c.SetAdd("calls_regimes", parts[0]+":"+parts[1])
}

// c01SaveGlobals captures the process globals C09's environment changes.
func c01SaveGlobals() func() {
	a, h, b := types.AcceleratorSpork.SporkId, types.HtlcSpork.SporkId, types.BridgeAndLiquiditySpork.SporkId
	im := types.ImplementedSporksMap
	ed := consensus.EpochDuration
	umn := constants.UpdateMinNumMomentums
	v := []int64{0, constants.RewardTimeLimit, constants.StakeTimeUnitSec, constants.StakeTimeMinSec, constants.StakeTimeMaxSec,
		constants.SentinelLockTimeWindow, constants.SentinelRevokeTimeWindow, constants.PillarEpochLockTime, constants.PillarEpochRevokeTime}
	fe := constants.FuseExpiration
	mg, mad, msd, mud := constants.MinGuardians, constants.MinAdministratorDelay, constants.MinSoftDelay, constants.MinUnhaltDurationInMomentums
	adm := constants.InitialBridgeAdministrator
	return func() {
		types.AcceleratorSpork.SporkId, types.HtlcSpork.SporkId, types.BridgeAndLiquiditySpork.SporkId = a, h, b
		types.ImplementedSporksMap = im
		consensus.EpochDuration = ed
		constants.UpdateMinNumMomentums = umn
		constants.RewardTimeLimit, constants.StakeTimeUnitSec, constants.StakeTimeMinSec, constants.StakeTimeMaxSec = v[1], v[2], v[3], v[4]
		constants.SentinelLockTimeWindow, constants.SentinelRevokeTimeWindow, constants.PillarEpochLockTime, constants.PillarEpochRevokeTime = v[5], v[6], v[7], v[8]
		constants.FuseExpiration = fe
		constants.MinGuardians, constants.MinAdministratorDelay, constants.MinSoftDelay, constants.MinUnhaltDurationInMomentums = mg, mad, msd, mud
		constants.InitialBridgeAdministrator = adm
		simnet.Setup()
	}
}

// PoolLedger scans the confirmed ledger of a node and overlays the unconfirmed chain of every account that has one.
func c01PoolLedger(n *simnet.Node) (*scan.Ledger, error) {
	l, err := scan.Scan(n.Mgr.Frontier())
	if err != nil {
		return nil, err
	}
	seen := map[types.Address]bool{}
	for _, b := range n.Chain.GetAllUncommittedAccountBlocks() {
		if seen[b.Address] {
			continue
		}
		seen[b.Address] = true
		as := n.Chain.GetFrontierAccountStore(b.Address)
		view, ok := as.(scan.Iterable)
		if !ok {
			return nil, fmt.Errorf("account store cannot be iterated")
		}
		if err := l.OverlayPool(b.Address, view); err != nil {
			return nil, err
		}
	}
	return l, nil
}

type c01Token struct {
	Supply, Max *big.Int
}

// c01Tokens decodes every TokenInfo from the token contract's storage as scanned.
func c01Tokens(l *scan.Ledger) (map[types.ZenonTokenStandard]c01Token, error) {
	out := map[types.ZenonTokenStandard]c01Token{}
	acc := l.Accounts[types.TokenContract]
	if acc == nil {
		return out, nil
	}
	// reuse the definition codec on an in-memory copy of the scanned storage
	mem := db.NewMemDB()
	for k, v := range acc.Storage {
		_ = mem.Put([]byte(k), v)
	}
	list, err := definition.GetTokenInfoList(mem)
	if err != nil {
		return nil, err
	}
	for _, t := range list {
		out[t.TokenStandard] = c01Token{Supply: t.TotalSupply, Max: t.MaxSupply}
	}
	return out, nil
}

type c01Sums struct {
	balances map[types.ZenonTokenStandard]*big.Int
	inflight map[types.ZenonTokenStandard]*big.Int
}

func c01Sum(l *scan.Ledger) c01Sums {
	s := c01Sums{balances: map[types.ZenonTokenStandard]*big.Int{}, inflight: map[types.ZenonTokenStandard]*big.Int{}}
	add := func(m map[types.ZenonTokenStandard]*big.Int, z types.ZenonTokenStandard, v *big.Int) {
		if v == nil || v.Sign() == 0 {
			return
		}
		if m[z] == nil {
			m[z] = new(big.Int)
		}
		m[z].Add(m[z], v)
	}
	received := map[types.Hash]bool{}
	for _, acc := range l.Accounts {
		for z, v := range acc.Balances {
			add(s.balances, z, v)
		}
		for _, b := range acc.Blocks {
			if b.IsReceiveBlock() && b.BlockType != nom.BlockTypeGenesisReceive {
				received[b.FromBlockHash] = true
			}
		}
	}
	for _, acc := range l.Accounts {
		for _, b := range acc.Blocks {
			if b.IsSendBlock() && !received[b.Hash] {
				add(s.inflight, b.TokenStandard, b.Amount)
			}
		}
	}
	return s
}

var c01SupplySelectors = func() [][]byte {
	var l [][]byte
	for _, name := range []string{definition.IssueMethodName, definition.MintMethodName, definition.BurnMethodName} {
		l = append(l, definition.ABIToken.PackMethodPanic(name, c01Args(name)...)[:4])
	}
	return l
}()

func c01Args(name string) []interface{} {
	switch name {
	case definition.IssueMethodName:
		return []interface{}{"a", "A", "a.b", big.NewInt(1), big.NewInt(1), uint8(0), true, true, true}
	case definition.MintMethodName:
		return []interface{}{types.ZnnTokenStandard, big.NewInt(1), types.ZeroAddress}
	}
	return nil
}

type c01Monitor struct {
	c          *fw.C
	n          *simnet.Node
	prevSupply map[types.ZenonTokenStandard]*big.Int
	seenBlocks map[types.Hash]bool
	scans      int
	failed     bool
}

// check scans and applies the oracle. step describes what happened since the last scan.
func (m *c01Monitor) check(step string, w *simnet.Workload) {
	if m.failed {
		return
	}
	l, err := c01PoolLedger(m.n)
	if err != nil {
		m.c.Violation("ledger-scan-failed", err.Error())
		m.failed = true
		return
	}
	m.scans++
	tokens, err := c01Tokens(l)
	if err != nil {
		m.c.Violation("token-info-undecodable", err.Error())
		m.failed = true
		return
	}
	sums := c01Sum(l)
	m.c.Eval(len(tokens))
	logTail := func() []string {
		if w == nil {
			return nil
		}
		t := w.Log
		if len(t) > 12 {
			t = t[len(t)-12:]
		}
		return t
	}
	for z, t := range tokens {
		total := new(big.Int)
		if b := sums.balances[z]; b != nil {
			total.Add(total, b)
		}
		if f := sums.inflight[z]; f != nil {
			total.Add(total, f)
		}
		if total.Cmp(t.Supply) != 0 {
			m.c.Violation("supply-not-conserved "+c01TokenClass(z), map[string]interface{}{
				"token": z.String(), "recorded_total_supply": t.Supply.String(), "sum_balances": fmt.Sprint(sums.balances[z]), "sum_inflight": fmt.Sprint(sums.inflight[z]),
				"difference": new(big.Int).Sub(total, t.Supply).String(), "step": step, "momentum_height": m.n.Height(), "recent_actions": logTail()})
			m.failed = true
			return
		}
		if t.Supply.Cmp(t.Max) > 0 {
			m.c.Violation("supply-above-max "+c01TokenClass(z), map[string]interface{}{"token": z.String(), "supply": t.Supply.String(), "max": t.Max.String(), "step": step})
			m.failed = true
			return
		}
	}
	for z, b := range sums.balances {
		if _, ok := tokens[z]; !ok && b.Sign() != 0 {
			m.c.Violation("balance-in-token-without-info", map[string]interface{}{"token": z.String(), "sum": b.String(), "step": step})
			m.failed = true
			return
		}
	}
	for z, f := range sums.inflight {
		if _, ok := tokens[z]; !ok && f.Sign() != 0 {
			m.c.Violation("inflight-in-token-without-info", map[string]interface{}{"token": z.String(), "sum": f.String(), "step": step})
			m.failed = true
			return
		}
	}
	// delta rule
	var newBlocks []*nom.AccountBlock
	for _, acc := range l.Accounts {
		for _, b := range acc.Blocks {
			if !m.seenBlocks[b.Hash] {
				newBlocks = append(newBlocks, b)
			}
		}
	}
	byHash := l.BlockByHash()
	supplyOp := false
	for _, b := range newBlocks {
		if b.Address == types.TokenContract && b.BlockType == nom.BlockTypeContractReceive {
			if s := byHash[b.FromBlockHash]; s != nil && len(s.Data) >= 4 {
				for _, sel := range c01SupplySelectors {
					if bytes.Equal(s.Data[:4], sel) {
						supplyOp = true
					}
				}
			}
		}
	}
	changed := false
	if m.prevSupply != nil {
		for z, t := range tokens {
			p, had := m.prevSupply[z]
			if !had || p.Cmp(t.Supply) != 0 {
				changed = true
				m.c.SetAdd("tokens_whose_supply_changed", c01TokenClass(z))
				if !supplyOp {
					m.c.Violation("supply-changed-without-issue-mint-burn "+c01TokenClass(z), map[string]interface{}{
						"token": z.String(), "before": fmt.Sprint(p), "after": t.Supply.String(), "step": step, "new_blocks": len(newBlocks), "recent_actions": logTail()})
					m.failed = true
					return
				}
			}
		}
		for z := range m.prevSupply {
			if _, ok := tokens[z]; !ok {
				m.c.Violation("token-info-disappeared", map[string]interface{}{"token": z.String(), "step": step})
				m.failed = true
				return
			}
		}
	}
	// keep the snapshot only when the blocks seen are stable (pool blocks may be displaced later; that is fine:
	// displaced blocks simply disappear from the next scan)
	m.prevSupply = map[types.ZenonTokenStandard]*big.Int{}
	for z, t := range tokens {
		m.prevSupply[z] = new(big.Int).Set(t.Supply)
	}
	for _, b := range newBlocks {
		m.seenBlocks[b.Hash] = true
	}
	m.c.Distinct(fmt.Sprintf("%s/changed=%v", step, changed))
}

func c01TokenClass(z types.ZenonTokenStandard) string {
	switch z {
	case types.ZnnTokenStandard:
		return "ZNN"
	case types.QsrTokenStandard:
		return "QSR"
	}
	return "issued-token"
}

func c01Run(c *fw.C, caseID string) {
	if strings.HasPrefix(caseID, "calls") {
		c01RunCalls(c, caseID)
		return
	}
	if strings.HasPrefix(caseID, "genesis:perturbed:") {
		c01RunPerturbed(c, caseID)
		return
	}
	r := c.Rand(caseID)
	base := c.ScratchDir("c01")
	defer os.RemoveAll(base)
	consensus.EpochDuration = 10 * time.Minute
	var P *simnet.Node
	var world *simnet.World
	var wi int
	switch {
	case caseID == "genesis:mainnet":
		gen, err := genesis.MakeEmbeddedGenesisConfig()
		if err != nil {
			c.Inconclusive("no embedded genesis: " + err.Error())
			return
		}
		P = simnet.Open("P", base+"/P", gen, nil)
	case scan1(caseID, "genesis:world:%d", &wi):
		var err error
		world, err = simnet.MakeWorld(rand.New(rand.NewSource(r.Int63())), 1+r.Intn(40), 3+r.Intn(12), wi%4 == 3)
		if err != nil {
			c.Violation("harness-genesis-inconsistent", err.Error())
			return
		}
		P = simnet.Open("P", base+"/P", world.NewGenesis(), world.PillarKeys)
	default:
		P = simnet.Open("P", base+"/P", simnet.MockGenesis(), g.PillarKeys)
	}
	defer P.Stop()
	mon := &c01Monitor{c: c, n: P, seenBlocks: map[types.Hash]bool{}}
	mon.check("genesis", nil)
	c.Count("genesis_states_checked", 1)
	if caseID == "genesis:mock" || caseID == "genesis:mainnet" {
		return
	}
	w := simnet.NewWorkload(rand.New(rand.NewSource(r.Int63())), P)
	if world != nil {
		w.Users, w.PillarNames, w.SporkKey = world.Users, world.PillarNames, world.SporkKey
	}
	w.ContractWeight = 55
	w.Sporks = true
	var idx int
	fmt.Sscanf(caseID, "hist:%d", &idx)
	nMomentums := 50 + r.Intn(60)
	if idx%5 == 0 {
		// long history: crosses height 600 where the first reward-crediting Update runs, then rewards are collected
		nMomentums = 640
	}
	var lastBlockAction string
	P.OnBlock = func(b *nom.AccountBlock, _ db.Patch, err error) {
		if err != nil || mon.failed {
			return
		}
		if types.IsEmbeddedAddress(b.Address) {
			status := "ok"
			if len(b.Data) == 8 && b.Data[7] == 2 {
				status = "failed-call"
			}
			lastBlockAction = fmt.Sprintf("contract-receive %s descendants=%d", status, c02min(len(b.DescendantBlocks), 2))
			// contract receives are generated inside Produce by the pillar: scan right here
			if nMomentums < 300 || P.Height()%7 == 0 || P.Height() > 596 {
				mon.check(lastBlockAction, w)
			}
		}
	}
	hr := c.Rand(caseID + "/hostile-amounts")
	for i := 0; i < nMomentums && !mon.failed; i++ {
		long := nMomentums >= 300
		steps := r.Intn(7)
		if long && P.Height() < 590 {
			steps = r.Intn(2)
		}
		for k := 0; k < steps && !mon.failed; k++ {
			before := len(w.Log)
			w.One()
			act := "none"
			if len(w.Log) > 0 && len(w.Log) >= before {
				act = w.Log[len(w.Log)-1]
				if j := indexOf(act, " -> "); j >= 0 {
					act = act[:j] + " (refused)"
				}
			}
			if !long || P.Height() > 590 || k == 0 {
				mon.check("user-block "+act, w)
			}
		}
		if long && world == nil && P.Height() > 604 && r.Intn(2) == 0 {
			// collect rewards: pillars and delegators
			for _, kp := range []interface{}{g.Pillar1, g.Pillar2, g.Pillar3, g.User1, g.User3} {
				_ = kp
			}
			c01Collect(P, w, r)
			mon.check("user-block CollectReward(after epoch update)", w)
		}
		// hostile amounts (own PRNG): a block whose in-memory amount is negative (what a JSON request can carry; hash
		// and signature only cover the magnitude) as a plain transfer, a donation, a burn. Whether it is refused is
		// C03's business; here only what the ledger adds up to afterwards counts.
		if hr.Intn(4) == 0 && !(long && P.Height() < 590) {
			us := simnet.DefaultUsers()
			u := us[hr.Intn(len(us))]
			amt := big.NewInt(-(1 + hr.Int63n(50*g.Zexp)))
			zts := []types.ZenonTokenStandard{types.ZnnTokenStandard, types.QsrTokenStandard}[hr.Intn(2)]
			to, data, what := us[hr.Intn(len(us))].Address, []byte(nil), "transfer"
			switch hr.Intn(3) {
			case 1:
				to, data, what = types.AcceleratorContract, definition.ABICommon.PackMethodPanic(definition.DonateMethodName), "accelerator.Donate"
			case 2:
				to, data, what = types.TokenContract, definition.ABIToken.PackMethodPanic(definition.BurnMethodName), "token.Burn"
			}
			_, err := P.Send(u, to, zts, amt, data)
			c.Count(fmt.Sprintf("negative_amount_%s accepted=%v", what, err == nil), 1)
			mon.check("user-block negative amount "+what, w)
		}
		skip := 0
		if r.Intn(9) == 0 {
			skip = 1 + r.Intn(2)
		}
		if _, err := P.Produce(skip); err != nil {
			c.Violation("producer-cannot-produce", map[string]interface{}{"height": P.Height() + 1, "err": err.Error(), "log": w.Log})
			return
		}
		mon.check("momentum", w)
		w.Step(0)
	}
	c.Count("ledger_scans", mon.scans)
	c.Count("momentums", int(P.Height()))
	if caseID == "hist:1" {
		c.Sample(map[string]interface{}{"case": caseID, "momentums": P.Height(), "scans": mon.scans, "accepted_by_action": w.Accepted})
	}
}

func c01Collect(P *simnet.Node, w *simnet.Workload, r *rand.Rand) {
	who := []interface{}{}
	_ = who
	keys := simnet.DefaultUsers()
	keys = append(keys, g.Pillar1, g.Pillar2, g.Pillar3)
	kp := keys[r.Intn(len(keys))]
	targets := []types.Address{types.PillarContract, types.StakeContract, types.SentinelContract}
	_, err := P.Send(kp, targets[r.Intn(len(targets))], types.ZnnTokenStandard, big.NewInt(0), definition.ABICommon.PackMethodPanic(definition.CollectRewardMethodName))
	w.Log = append(w.Log, fmt.Sprintf("CollectReward by %s err=%v", kp.Address, err))
}

func indexOf(s, sub string) int {
	for i := 0; i+len(sub) <= len(s); i++ {
		if s[i:i+len(sub)] == sub {
			return i
		}
	}
	return -1
}

func c02min(a, b int) int {
	if a < b {
		return a
	}
	return b
}

var _ = sort.Strings

// c01RunPerturbed: a generated consistent configuration and every single-entry perturbation of it (C20's generator and
// perturbation classes). C20 judges whether the validators refuse what is inconsistent; here the question is only what
// the LEDGER looks like when they accept: booted on a real node and scanned by the conservation monitor.
func c01RunPerturbed(c *fw.C, caseID string) {
	r := c.Rand(caseID)
	gcfg := c20Generate(r, r.Intn(4) != 0, false)
	if err, p := c20Check(gcfg.Cfg); err != nil || p != nil {
		c.Inconclusive(fmt.Sprintf("generated configuration not accepted by CheckGenesis (err=%v panic=%v)", err, p))
		return
	}
	base := c.ScratchDir("c01p")
	defer os.RemoveAll(base)
	boot := func(label string, cfg *genesis.GenesisConfig) {
		gen, _, p := c20Build(c20Clone(cfg))
		if p != nil || gen == nil {
			c.Count("accepted_configurations_that_cannot_be_built", 1)
			return
		}
		dir, _ := os.MkdirTemp(base, "n")
		var n *simnet.Node
		func() {
			defer func() {
				if rec := recover(); rec != nil {
					c.Count("accepted_configurations_a_node_cannot_start_on", 1)
					n = nil
				}
			}()
			n = simnet.Open("G", dir, gen, nil)
		}()
		if n == nil {
			return
		}
		defer n.Destroy()
		mon := &c01Monitor{c: c, n: n, seenBlocks: map[types.Hash]bool{}}
		mon.check("genesis-state-of-a-configuration-the-validators-accept ("+label+")", nil)
		c.Count("accepted_configurations_booted_and_scanned", 1)
	}
	boot("generated", gcfg.Cfg)
	// supply-specific edits: a declared token nobody holds (mintable or not, with or without supply), declared supplies
	// moved by one unit, a maximum below the supply
	for _, pt := range c01SupplyPerturbations() {
		pr := c.Rand(caseID + "/" + pt.class)
		pc := c20Clone(gcfg.Cfg)
		if _, ok := pt.apply(pc, pr); !ok {
			continue
		}
		c.Eval(1)
		if err, p := c20Check(c20Clone(pc)); err != nil || p != nil {
			c.Count("perturbed_configurations_refused_by_the_validators", 1)
			continue
		}
		c.SetAdd("perturbation_classes_accepted_by_the_validators", pt.class)
		boot(pt.class, pc)
	}
	for _, pt := range c20Perturbations() {
		pr := c.Rand(caseID + "/" + pt.class)
		pc := c20Clone(gcfg.Cfg)
		if _, ok := pt.apply(pc, pr); !ok {
			continue
		}
		c.Eval(1)
		if err, p := c20Check(c20Clone(pc)); err != nil || p != nil {
			c.Count("perturbed_configurations_refused_by_the_validators", 1)
			continue
		}
		c.SetAdd("perturbation_classes_accepted_by_the_validators", pt.class)
		boot(pt.class, pc)
	}
}

func c01SupplyPerturbations() []c20Pert {
	unheld := func(mintable bool, supply int64) func(g *genesis.GenesisConfig, r *rand.Rand) (string, bool) {
		return func(g *genesis.GenesisConfig, r *rand.Rand) (string, bool) {
			if g.TokenConfig == nil {
				return "", false
			}
			owner := c20RandAddr(r)
			if len(g.TokenConfig.Tokens) > 0 {
				owner = g.TokenConfig.Tokens[0].Owner
			}
			g.TokenConfig.Tokens = append(g.TokenConfig.Tokens, &definition.TokenInfo{Owner: owner, TokenName: "Unheld", TokenSymbol: "UNH", TokenDomain: "unheld.example",
				TotalSupply: big.NewInt(supply), MaxSupply: big.NewInt(supply + 1000), Decimals: 8, IsMintable: mintable, IsBurnable: true, TokenStandard: c20RandZts(r)})
			return fmt.Sprintf("declared token nobody holds, mintable=%v supply=%d", mintable, supply), true
		}
	}
	move := func(delta int64, max bool) func(g *genesis.GenesisConfig, r *rand.Rand) (string, bool) {
		return func(g *genesis.GenesisConfig, r *rand.Rand) (string, bool) {
			if g.TokenConfig == nil || len(g.TokenConfig.Tokens) == 0 {
				return "", false
			}
			t := g.TokenConfig.Tokens[r.Intn(len(g.TokenConfig.Tokens))]
			if max {
				if t.TotalSupply.Sign() == 0 {
					return "", false
				}
				t.MaxSupply = new(big.Int).Sub(t.TotalSupply, big.NewInt(1))
				return "max supply one below the total supply", true
			}
			if delta < 0 && t.TotalSupply.Sign() == 0 {
				return "", false
			}
			t.TotalSupply = new(big.Int).Add(t.TotalSupply, big.NewInt(delta))
			if t.MaxSupply.Cmp(t.TotalSupply) < 0 {
				t.MaxSupply = new(big.Int).Set(t.TotalSupply)
			}
			return fmt.Sprintf("declared total supply moved by %d", delta), true
		}
	}
	dupUser := func(g *genesis.GenesisConfig, r *rand.Rand) (string, bool) {
		// a second entry for an account that already has one: the declared supply is raised by what the new entry gives,
		// so every sum the validators compute still adds up
		if g.GenesisBlocks == nil || g.TokenConfig == nil {
			return "", false
		}
		for _, b := range g.GenesisBlocks.Blocks {
			if types.IsEmbeddedAddress(b.Address) {
				continue
			}
			for zts, amt := range b.BalanceList {
				if amt.Sign() <= 0 {
					continue
				}
				for _, t := range g.TokenConfig.Tokens {
					if t.TokenStandard != zts {
						continue
					}
					extra := big.NewInt(1 + r.Int63n(1000))
					t.TotalSupply = new(big.Int).Add(t.TotalSupply, extra)
					if t.MaxSupply.Cmp(t.TotalSupply) < 0 {
						t.MaxSupply = new(big.Int).Set(t.TotalSupply)
					}
					g.GenesisBlocks.Blocks = append(g.GenesisBlocks.Blocks, &genesis.GenesisBlockConfig{Address: b.Address, BalanceList: map[types.ZenonTokenStandard]*big.Int{zts: extra}})
					return "second entry for an account, supply raised accordingly", true
				}
			}
		}
		return "", false
	}
	dupContract := func(g *genesis.GenesisConfig, r *rand.Rand) (string, bool) {
		if g.GenesisBlocks == nil {
			return "", false
		}
		for _, b := range g.GenesisBlocks.Blocks {
			if !types.IsEmbeddedAddress(b.Address) {
				continue
			}
			for zts, amt := range b.BalanceList {
				if amt.Sign() > 0 {
					g.GenesisBlocks.Blocks = append(g.GenesisBlocks.Blocks, &genesis.GenesisBlockConfig{Address: b.Address, BalanceList: map[types.ZenonTokenStandard]*big.Int{zts: big.NewInt(0)}})
					return "second entry for a contract giving 0 of a token it holds", true
				}
			}
		}
		return "", false
	}
	return []c20Pert{
		{"second-entry-for-an-account", dupUser},
		{"second-entry-for-a-contract-with-zero", dupContract},
		{"unheld-mintable-token-with-supply", unheld(true, 1000)},
		{"unheld-mintable-token-with-one-unit", unheld(true, 1)},
		{"unheld-fixed-token-with-supply", unheld(false, 1000)},
		{"declared-supply-plus-one", move(1, false)},
		{"declared-supply-minus-one", move(-1, false)},
		{"max-supply-below-total", move(0, true)},
	}
}
