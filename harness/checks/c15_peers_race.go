//go:build verif

package checks

// C15 under the race detector: several peer sessions talk to the real ProtocolManager AT THE SAME TIME (valid and
// hostile messages of every code, sessions ending and re-registering) while the node itself broadcasts blocks and
// momentums to its peers. Handlers, the peer set, the downloader and the fetcher share state across these goroutines;
// an unsynchronised access there is a crash waiting for a schedule ("concurrent map writes" is process-fatal).
// The only oracles are the race detector's reports (collected by the driver), a dead process, and the honest probe.

import (
	"fmt"
	"math/rand"
	"sync"

	"github.com/zenon-network/go-zenon/chain/nom"

	"verif/harness/fw"
	"verif/harness/simnet"
)

func c15RunRace(c *fw.C, caseID string) {
	rng := c.Rand(caseID)
	x := c15NewCtx(c, caseID)
	defer x.finish()
	if x.dead {
		return
	}
	e := x.e
	e.ahead(6)
	cat := c15Catalogue()
	var post []c15Entry
	for _, en := range cat {
		if en.phase == "post" && en.class != "oversize-max" && en.class != "100k-hashes" {
			post = append(post, en)
		}
	}
	const workers = 4
	var wg sync.WaitGroup
	var mu sync.Mutex
	sent, reopened := 0, 0
	stop := make(chan struct{})
	// messages are generated up front: the generator itself extends the producer's chain for some classes
	plans := make([][]*c15Msg, workers)
	for wi := range plans {
		wr := rand.New(rand.NewSource(rng.Int63()))
		for len(plans[wi]) < 60 {
			en := post[wr.Intn(len(post))]
			if m := c15Make(e, wr, en.code, en.class); m.size <= c15MaxMsg {
				plans[wi] = append(plans[wi], m)
			}
		}
	}
	sends := append([]*nom.AccountBlock{}, e.sends...)
	for wi := 0; wi < workers; wi++ {
		wr := rand.New(rand.NewSource(rng.Int63()))
		wg.Add(1)
		go func(wi int, wr *rand.Rand) {
			defer wg.Done()
			var s *c15Sess
			open := func() bool {
				s = c15Open(c, x.pm, fmt.Sprintf("race%d", wi))
				top := e.T.Height()
				return s.handshake(e, top, e.hashes[top]) == "ok"
			}
			if !open() {
				return
			}
			defer func() { s.close() }()
			for _, m := range plans[wi] {
				s.setCtx(c15CodeName(m.code), m.witness())
				st := s.write(m.code, m.size, m.reader())
				mu.Lock()
				sent++
				mu.Unlock()
				if st != "ok" || s.ended() {
					<-s.done
					if s.pnc != nil {
						x.reportPanic(s, "post", m)
						return
					}
					s.close()
					mu.Lock()
					reopened++
					mu.Unlock()
					if !open() {
						return
					}
				}
			}
		}(wi, wr)
	}
	// the node's own traffic towards its peers, concurrently
	wg.Add(1)
	go func() {
		defer wg.Done()
		br := rand.New(rand.NewSource(rng.Int63()))
		for i := 0; i < 200; i++ {
			select {
			case <-stop:
				return
			default:
			}
			if len(sends) > 0 && br.Intn(2) == 0 {
				x.pm.BroadcastAccountBlock(simnet.CloneBlock(sends[br.Intn(len(sends))]))
			} else {
				h := uint64(2 + br.Intn(int(e.T.Height())-1))
				if d := e.T.Detailed(h); d != nil {
					x.pm.BroadcastMomentum(d, br.Intn(2) == 0)
				}
			}
			_ = x.pm.SyncInfo()
		}
	}()
	wg.Wait()
	close(stop)
	c.Eval(sent)
	c.Count("race_messages_sent_concurrently", sent)
	c.Count("race_sessions_reopened", reopened)
	if !e.barrier(50_000_000) {
		c.Inconclusive("race: chain insert lock not released")
		x.dead, e.tainted = true, true
		return
	}
	x.checkHonest("concurrent sessions", map[string]interface{}{"workers": workers, "messages": sent})
	c.Distinct(fmt.Sprintf("race: %d concurrent sessions + node broadcasts, node alive", workers))
}
