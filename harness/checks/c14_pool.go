package checks

// C14 — unconfirmed pool: one consistent chain per account, safe under concurrency.
//
// (a) sequential model of the pool (fast-forward / duplicate / replace-if-higher-priority [plasma ratio by
//     cross-multiplication, then smaller hash] / forced insert / momentum insert keeps exactly the pooled
//     blocks that were not confirmed and still link / rollback drops everything) compared after every
//     operation with the real pool of a real node; two nodes fed the same candidates in opposite orders
//     must pick the same winner;
// (b) content oracle on GetNewMomentumContent: at most 100 entries, contract batches never split, per
//     account contiguous from the confirmed head;
// (c) race:* cases: readers take snapshots while a writer inserts blocks and momentums; every snapshot
//     must be the state at a block boundary (looked up by the frontier hash the snapshot itself reports);
//     run under the Go race detector;
// (d) a producing pillar races sync inserting a competing momentum at the same height; afterwards the
//     node's chain must replay from genesis to the same state on a fresh node;
// (f) race:subscribe:* cases: the real subscribe server (rpc/api/subscribe) is registered on the chain of a real node
//     and served by a real in-process RPC server; in-process RPC clients subscribe to all four subscription kinds,
//     unsubscribe, close their connection or just stay, in PRNG-determined patterns, while the node keeps inserting
//     account blocks and momentums (own pillar or sync, with some rollbacks). Under -race; functional oracle: every
//     subscription's stream is a contiguous run of the sequence of inserted momentums (filtered by the kind), the
//     subscribers that stay for the whole run miss nothing, and whatever is notified is readable from the chain when
//     the notification arrives.

import (
	"bytes"
	"context"
	"encoding/json"
	"fmt"
	"math/big"
	"math/rand"
	"os"
	"runtime"
	"sort"
	"strings"
	"sync"
	"sync/atomic"
	"time"

	g "github.com/zenon-network/go-zenon/chain/genesis/mock"
	"github.com/zenon-network/go-zenon/chain"
	"github.com/zenon-network/go-zenon/chain/nom"
	"github.com/zenon-network/go-zenon/common/db"
	"github.com/zenon-network/go-zenon/common/types"
	"github.com/zenon-network/go-zenon/vm/embedded/definition"
	"github.com/zenon-network/go-zenon/rpc/api/subscribe"
	rpcsrv "github.com/zenon-network/go-zenon/rpc/server"
	"github.com/zenon-network/go-zenon/wallet"

	"verif/harness/fw"
	"verif/harness/simnet"
)

func init() {
	fw.Register(&fw.Check{
		ID:    "C14",
		Level: "exploration",
		Rule: "model:* cases run seeded sequences of pool operations (insert, competing insert at the same height with engineered plasma ratios and hash ties, replacement chains, forced insert, momentum insert confirming pooled or competing blocks, rollback) " +
			"on a real node against a sequential model; content:* cases build pools of >100 blocks with contract batches; race:* cases run readers against the inserting goroutine and a producing pillar against sync under -race; " +
			"race:subscribe:* cases start the real subscribe server on the node's chain behind a real in-process RPC server and let RPC clients subscribe to all four kinds, unsubscribe, close the connection or stay (PRNG patterns, paced by the writer's operation count) " +
			"while the node inserts account blocks and momentums (even cases: own pillar, odd cases: sync through the chain bridge) and is rolled back now and then; every subscription's stream must be a contiguous run of the inserted momentums (filtered by kind), " +
			"permanent subscribers must cover the whole run, and every notified item must be readable from the chain on arrival unless a rollback that began before the read removed it; " +
			"distinct_nontrivial counts distinct (operation, model outcome) pairs, distinct content shapes, distinct interleaving outcomes and distinct (inserting path, subscription kind, way of leaving) with at least one notification",
		Cases:            c14Cases,
		Run:              c14Run,
		MinDistinct:      12,
		DeathIsViolation: true,
		DeathSig:         func(caseID, tail string) string { return "node-crash " + topRepoFrame(tail) },
		Assumptions: []string{
			"on real nodes contract accounts are checked structurally; the pool component is additionally driven directly (api:* cases) with synthetic single blocks and contract batches",
			"api:* cases compete only with single-block candidates at transaction boundaries and never for an account's very first block (a batch as competitor and height-1 replacement are refused by the implementation: unreachable for contracts on a node, not exercised)",
			"the producer-vs-sync interleaving is not forced by a hook: both orders are observed over many repetitions and counted",
			"race:subscribe:* demand only what the subscribe server promises by design: FIFO delivery per subscription between its (asynchronous) installation and removal, so the first and last notification of a subscription are not tied to the subscribe/unsubscribe calls; the writer keeps at most 16 momentums outstanding at the permanent subscribers so that the server's documented drop (event channel of 100 full) cannot occur; a descendant block listed twice inside one allAccountBlocks notification (as content entry and as descendant of its receive block) is counted, not judged",
			"a race-detector report makes the -race child exit with status 66 after its last case: besides the data-race signature the framework then also reports that case as node-crash unknown-frame",
		},
	})
}

func c14Cases(tier string, seed int64) []string {
	nm, nc, nr, np := 8, 8, 4, 4
	na := 60
	if tier == "thorough" {
		nm, nc, nr, np = 1200, 120, 160, 200
		na = 6000
	}
	var l []string
	for i := 0; i < na; i++ {
		l = append(l, fmt.Sprintf("api:%d", i))
	}
	for i := 0; i < nm; i++ {
		l = append(l, fmt.Sprintf("model:%d", i))
	}
	for i := 0; i < nc; i++ {
		l = append(l, fmt.Sprintf("content:%d", i))
	}
	for i := 0; i < nr; i++ {
		l = append(l, fmt.Sprintf("race:readers:%d", i))
	}
	for i := 0; i < np; i++ {
		l = append(l, fmt.Sprintf("race:producer-vs-sync:%d", i))
	}
	for i := 0; i < nr; i++ {
		l = append(l, fmt.Sprintf("race:replace:%d", i))
	}
	ns := 4
	if tier == "thorough" {
		ns = 64
	}
	for i := 0; i < ns; i++ {
		l = append(l, fmt.Sprintf("race:subscribe:%d", i))
	}
	return l
}

// c14Replace: maximal contention on ONE account — the writer replaces the account's pooled block again and again
// (competitors of rising priority at the same height, sometimes with a successor on top), readers do nothing but read
// that account's frontier. Every read is judged for linearizability (see c14Readers) and for self-consistency.
func c14Replace(c *fw.C, caseID string) {
	r := c.Rand(caseID)
	base := c.ScratchDir("c14x")
	defer os.RemoveAll(base)
	N := simnet.Open("N", base+"/N", simnet.MockGenesis(), g.PillarKeys)
	defer N.Stop()
	N.MustProduce(3)
	u := g.User1
	type ver struct {
		hash       types.Hash
		start, end int64
	}
	var clock, started, appended int64
	var vmu sync.Mutex
	frontier := func() (types.Hash, uint64) {
		f, _ := N.Chain.GetFrontierAccountStore(u.Address).Frontier()
		if f == nil {
			return types.Hash{}, 0
		}
		return f.Hash, f.Height
	}
	h0, height0 := frontier()
	versions := []ver{{h0, 0, 0}}
	write := func(op func()) {
		atomic.AddInt64(&started, 1)
		s := atomic.AddInt64(&clock, 1)
		op()
		e := atomic.AddInt64(&clock, 1)
		vmu.Lock()
		if h, _ := frontier(); versions[len(versions)-1].hash != h {
			versions = append(versions, ver{h, s, e})
		}
		vmu.Unlock()
		atomic.AddInt64(&appended, 1)
	}
	var stop, fails int32
	var checked int64
	var wg sync.WaitGroup
	report := func(sig string, d interface{}) {
		if atomic.AddInt32(&fails, 1) == 1 {
			c.Violation(sig, d)
		}
	}
	for ri := 0; ri < 4; ri++ {
		wg.Add(1)
		go func() {
			defer wg.Done()
			for atomic.LoadInt32(&stop) == 0 {
				startedAtCall := atomic.LoadInt64(&started)
				tc := atomic.AddInt64(&clock, 1)
				as := N.Chain.GetFrontierAccountStore(u.Address)
				f, _ := as.Frontier()
				tr := atomic.AddInt64(&clock, 1)
				if f == nil {
					report("reader-observed-account-without-frontier", map[string]interface{}{"confirmed_height": height0})
					return
				}
				if f.Height < height0 {
					report("reader-observed-frontier-below-the-confirmed-block", map[string]interface{}{"observed": f.Height, "confirmed": height0})
					return
				}
				for k := 0; k < 200000 && atomic.LoadInt64(&appended) < startedAtCall; k++ {
					runtime.Gosched()
				}
				if atomic.LoadInt64(&appended) < startedAtCall {
					continue
				}
				vmu.Lock()
				found, admissible := false, false
				for i, v := range versions {
					if v.hash != f.Hash {
						continue
					}
					found = true
					nextEnd := int64(1) << 62
					if i+1 < len(versions) {
						nextEnd = versions[i+1].end
					}
					if v.start <= tr && tc <= nextEnd {
						admissible = true
					}
				}
				nv := len(versions)
				vmu.Unlock()
				if found && !admissible {
					report("reader-observed-frontier-that-was-not-current-during-the-read", map[string]interface{}{"observed_height": f.Height, "read_call": tc, "read_return": tr, "versions": nv,
						"note": "the value equals an older version of the account's frontier: the state in the middle of a replacement"})
					return
				}
				if found {
					atomic.AddInt64(&checked, 1)
				}
			}
		}()
	}
	// first pooled block, then competitors
	tx, err := c14Gen(N, u, types.Hash{}, 0, 1, 1, g.User2.Address)
	if err != nil {
		c.Inconclusive("cannot create the first pooled block: " + err.Error())
		atomic.StoreInt32(&stop, 1)
		wg.Wait()
		return
	}
	first := tx.Block
	write(func() { N.CreateAccountBlock(tx) })
	replaced := 0
	for i := 0; i < 300 && atomic.LoadInt32(&fails) == 0; i++ {
		ctx, err := c14Gen(N, u, first.PreviousHash, first.Height, uint64(i+2), int64(2+i), g.User2.Address)
		if err != nil {
			break
		}
		write(func() { N.CreateAccountBlock(ctx) })
		if N.LastBlockErr == nil {
			replaced++
		}
		if r.Intn(3) == 0 {
			// a successor on top of the current winner: the next replacement pops two blocks
			if stx, err := c14Gen(N, u, types.Hash{}, 0, 1, 1, g.User3.Address); err == nil {
				write(func() { N.CreateAccountBlock(stx) })
			}
		}
	}
	atomic.StoreInt32(&stop, 1)
	wg.Wait()
	c.Eval(int(checked))
	c.Count("replacements_under_contention", replaced)
	c.Count("frontier_reads_checked_for_linearizability", int(checked))
	if checked > 0 && replaced > 50 {
		c.Distinct("race:replace contention run with >50 replacements")
	}
}

func c14Run(c *fw.C, caseID string) {
	var idx int
	switch {
	case scan1(caseID, "model:%d", &idx):
		c14Model(c, caseID)
	case scan1(caseID, "api:%d", &idx):
		c14Api(c, caseID)
	case scan1(caseID, "content:%d", &idx):
		c14Content(c, caseID)
	case scan1(caseID, "race:readers:%d", &idx):
		c14Readers(c, caseID)
	case scan1(caseID, "race:producer-vs-sync:%d", &idx):
		c14ProducerVsSync(c, caseID)
	case scan1(caseID, "race:replace:%d", &idx):
		c14Replace(c, caseID)
	case scan1(caseID, "race:subscribe:%d", &idx):
		c14Subscribe(c, caseID, idx)
	}
}

func scan1(s, format string, p *int) bool {
	n, _ := fmt.Sscanf(s, format, p)
	return n == 1
}

// ---- (a) sequential model ---------------------------------------------------------------------

type c14MBlock struct {
	hash        types.Hash
	height      uint64
	prev        types.Hash
	base, total uint64
}

type c14ModelState struct {
	pool map[types.Address][]c14MBlock // unconfirmed chain per address
}

// higher priority: a beats b
func c14Higher(a, b c14MBlock) (bool, string) {
	l := new(big.Int).Mul(new(big.Int).SetUint64(a.total), new(big.Int).SetUint64(b.base))
	r := new(big.Int).Mul(new(big.Int).SetUint64(b.total), new(big.Int).SetUint64(a.base))
	switch l.Cmp(r) {
	case 1:
		return true, "higher-plasma-ratio"
	case -1:
		return false, "lower-plasma-ratio"
	}
	if bytes.Compare(a.hash[:], b.hash[:]) < 0 {
		return true, "equal-ratio-smaller-hash"
	}
	return false, "equal-ratio-not-smaller-hash"
}

func c14Users() []*wallet.KeyPair {
	return []*wallet.KeyPair{g.User1, g.User2, g.User3, g.User4, g.User5, g.Pillar4, g.Pillar5, g.Pillar6}
}

// confirmed head of an account as the momentum store has it
func c14Stable(n *simnet.Node, a types.Address) (types.Hash, uint64) {
	f, _ := n.Chain.GetFrontierMomentumStore().GetAccountStore(a).Frontier()
	if f == nil {
		return types.Hash{}, 0
	}
	return f.Hash, f.Height
}

func c14Compare(c *fw.C, n *simnet.Node, m *c14ModelState, op string, trace []string) bool {
	for _, u := range c14Users() {
		a := u.Address
		got := n.Chain.GetUncommittedAccountBlocksByAddress(a)
		want := m.pool[a]
		c.Eval(1)
		bad := len(got) != len(want)
		for i := 0; !bad && i < len(got); i++ {
			if got[i].Hash != want[i].hash || got[i].Height != want[i].height {
				bad = true
			}
		}
		if bad {
			var gs, ws []string
			for _, b := range got {
				gs = append(gs, fmt.Sprintf("%d:%s", b.Height, b.Hash.String()[:8]))
			}
			for _, b := range want {
				ws = append(ws, fmt.Sprintf("%d:%s", b.height, b.hash.String()[:8]))
			}
			t := trace
			if len(t) > 25 {
				t = t[len(t)-25:]
			}
			c.Violation("pool-differs-from-model after "+op, map[string]interface{}{"address": a.String(), "pool": gs, "model": ws, "trace_tail": t})
			return false
		}
		// frontier identifier and linkage to the confirmed head
		sh, sheight := c14Stable(n, a)
		fid := n.Chain.GetFrontierAccountStore(a).Identifier()
		wantHead, wantHeight := sh, sheight
		if len(want) > 0 {
			wantHead, wantHeight = want[len(want)-1].hash, want[len(want)-1].height
			if want[0].prev != sh || want[0].height != sheight+1 {
				c.Violation("pool-chain-does-not-extend-confirmed-head after "+op, map[string]interface{}{"address": a.String()})
				return false
			}
		}
		if fid.Hash != wantHead || fid.Height != wantHeight {
			c.Violation("pool-frontier-identifier-differs-from-model after "+op, map[string]interface{}{"address": a.String(), "got_height": fid.Height, "want_height": wantHeight})
			return false
		}
	}
	return true
}

// c14Gen generates a block for user u at an explicit position (height h on top of prev) with the given fused plasma multiplier.
func c14Gen(n *simnet.Node, u *wallet.KeyPair, prev types.Hash, height uint64, plasmaMul uint64, amount int64, to types.Address) (*nom.AccountBlockTransaction, error) {
	tpl := &nom.AccountBlock{BlockType: nom.BlockTypeUserSend, Address: u.Address, ToAddress: to, TokenStandard: types.ZnnTokenStandard, Amount: big.NewInt(amount)}
	if height != 0 {
		tpl.Height, tpl.PreviousHash = height, prev
	}
	if plasmaMul > 1 {
		tpl.FusedPlasma = 21000 * plasmaMul
	}
	return n.Generate(tpl, u)
}

func c14Model(c *fw.C, caseID string) {
	r := c.Rand(caseID)
	base := c.ScratchDir("c14")
	defer os.RemoveAll(base)
	N := simnet.Open("N", base+"/N", simnet.MockGenesis(), g.PillarKeys)
	defer N.Stop()
	// M: a mirror node fed the same candidates in the opposite order within each competing pair
	M := simnet.Open("M", base+"/M", simnet.MockGenesis(), g.PillarKeys)
	defer M.Stop()
	N.MustProduce(3)
	if err := M.SyncFrom(N, 10); err != nil {
		c.Violation("sync-failed", err.Error())
		return
	}
	m := &c14ModelState{pool: map[types.Address][]c14MBlock{}}
	users := c14Users()
	var trace []string
	log := func(f string, a ...interface{}) { trace = append(trace, fmt.Sprintf(f, a...)) }
	insert := func(n *simnet.Node, tx *nom.AccountBlockTransaction, force bool) error {
		ins := n.Chain.AcquireInsert("c14")
		defer ins.Unlock()
		// the transaction's change set is consumed by the pool: work on a copy
		cp := &nom.AccountBlockTransaction{Block: tx.Block, Changes: c14ClonePatch(tx.Changes)}
		if force {
			return n.Chain.ForceAddAccountBlockTransaction(ins, cp)
		}
		return n.Chain.AddAccountBlockTransaction(ins, cp)
	}
	// model insert; returns expected error class ("" = accepted)
	modelInsert := func(b *nom.AccountBlock, force bool) (string, string) {
		a := b.Address
		pool := m.pool[a]
		sh, sheight := c14Stable(N, a)
		headHash, headHeight := sh, sheight
		if len(pool) > 0 {
			headHash, headHeight = pool[len(pool)-1].hash, pool[len(pool)-1].height
		}
		nb := c14MBlock{hash: b.Hash, height: b.Height, prev: b.PreviousHash, base: b.BasePlasma, total: b.TotalPlasma}
		if b.PreviousHash == headHash && b.Height == headHeight+1 {
			m.pool[a] = append(pool, nb)
			return "", "fast-forward"
		}
		// duplicate
		for _, x := range pool {
			if x.hash == b.Hash && x.height == b.Height {
				return "", "duplicate"
			}
		}
		if b.Height <= sheight {
			return "refused", "older-than-confirmed"
		}
		// predecessor must be the block below on the current chain
		var below types.Hash
		if b.Height == sheight+1 {
			below = sh
		} else {
			i := int(b.Height - sheight - 2)
			if i >= len(pool) {
				return "refused", "missing-previous"
			}
			below = pool[i].hash
		}
		if below != b.PreviousHash {
			return "refused", "previous-mismatch"
		}
		i := int(b.Height - sheight - 1)
		if i >= len(pool) {
			return "refused", "gap"
		}
		win, why := c14Higher(nb, pool[i])
		if !win && !force {
			return "refused", why
		}
		if force {
			why = "forced(" + why + ")"
		}
		m.pool[a] = append(append([]c14MBlock{}, pool[:i]...), nb)
		return "", "replace:" + why
	}
	// momentum insert on the model: confirmed blocks leave the pool; blocks above stay only if they still link
	modelAfterMomentum := func() {
		for _, u := range users {
			a := u.Address
			sh, sheight := c14Stable(N, a)
			var rest []c14MBlock
			for _, x := range m.pool[a] {
				if x.height > sheight {
					rest = append(rest, x)
				}
			}
			if len(rest) > 0 && (rest[0].prev != sh || rest[0].height != sheight+1) {
				rest = nil
			}
			m.pool[a] = rest
		}
	}

	nOps := 90 + r.Intn(60)
	for op := 0; op < nOps; op++ {
		u := users[r.Intn(len(users))]
		a := u.Address
		pool := m.pool[a]
		sh, sheight := c14Stable(N, a)
		_ = sh
		k := r.Intn(100)
		switch {
		case k < 40: // fast-forward insert on the frontier
			tx, err := c14Gen(N, u, types.Hash{}, 0, 1, int64(1+r.Intn(1000)), users[r.Intn(len(users))].Address)
			if err != nil {
				continue
			}
			want, why := modelInsert(tx.Block, false)
			e1 := insert(N, tx, false)
			e2 := insert(M, tx, false)
			log("ff %s h=%d -> %v", a.String()[:10], tx.Block.Height, e1)
			c.Distinct("insert/" + why)
			if (e1 == nil) != (want == "") || (e2 == nil) != (want == "") {
				c.Violation("pool-insert-outcome-differs-from-model "+why, map[string]interface{}{"node_err": fmt.Sprint(e1), "mirror_err": fmt.Sprint(e2), "model": want, "trace_tail": trace})
				return
			}
		case k < 75 && len(pool) > 0: // a competitor at the height of an existing pooled block
			i := r.Intn(len(pool))
			target := pool[i]
			prev := sh
			if i > 0 {
				prev = pool[i-1].hash
			}
			mul := uint64(1 + r.Intn(3))
			if r.Intn(3) == 0 {
				mul = 1 // equal ratio with a plain block: hash tie-break
			}
			tx, err := c14Gen(N, u, prev, target.height, mul, int64(2000+r.Intn(1000)), users[r.Intn(len(users))].Address)
			if err != nil {
				continue
			}
			force := r.Intn(6) == 0
			// the mirror gets the pair in the opposite order: rebuild its pool chain up to i-1, insert the competitor first, then the incumbent
			want, why := modelInsert(tx.Block, force)
			e1 := insert(N, tx, force)
			log("compete %s h=%d mul=%d force=%v (%s) -> %v", a.String()[:10], target.height, mul, force, why, e1)
			c.Distinct(fmt.Sprintf("compete/%s/force=%v", why, force))
			if (e1 == nil) != (want == "") {
				c.Violation("pool-insert-outcome-differs-from-model "+why, map[string]interface{}{"node_err": fmt.Sprint(e1), "model": want, "force": force, "trace_tail": trace})
				return
			}
			// mirror: same operation (order independence is checked separately below)
			_ = insert(M, tx, force)
		case k < 80 && len(pool) > 0: // duplicate
			x := pool[r.Intn(len(pool))]
			for _, b := range N.Chain.GetUncommittedAccountBlocksByAddress(a) {
				if b.Hash == x.hash {
					want, why := modelInsert(b, false)
					ins := N.Chain.AcquireInsert("c14 dup")
					e := N.Chain.AddAccountBlockTransaction(ins, &nom.AccountBlockTransaction{Block: b, Changes: db.NewPatch()})
					ins.Unlock()
					c.Distinct("insert/" + why)
					if (e == nil) != (want == "") {
						c.Violation("pool-insert-outcome-differs-from-model "+why, map[string]interface{}{"node_err": fmt.Sprint(e)})
						return
					}
				}
			}
		case k < 84: // a block on a stale predecessor / with a gap
			tx, err := c14Gen(N, u, types.Hash{}, 0, 1, 5, users[0].Address)
			if err != nil {
				continue
			}
			b := simnet.CloneBlock(tx.Block)
			b.Height += uint64(1 + r.Intn(3))
			b.Hash = b.ComputeHash()
			b.Signature = u.Sign(b.Hash.Bytes())
			want, why := modelInsert(b, false)
			ins := N.Chain.AcquireInsert("c14 gap")
			e := N.Chain.AddAccountBlockTransaction(ins, &nom.AccountBlockTransaction{Block: b, Changes: c14ClonePatch(tx.Changes)})
			ins.Unlock()
			c.Distinct("insert/" + why)
			if (e == nil) != (want == "") {
				c.Violation("pool-insert-outcome-differs-from-model "+why, map[string]interface{}{"node_err": fmt.Sprint(e), "model": want})
				return
			}
		case k < 94: // momentum: the node's own pillar confirms what is pooled (up to the limit)
			if _, err := N.Produce(0); err != nil {
				c.Violation("producer-cannot-produce", map[string]interface{}{"err": err.Error(), "trace_tail": trace})
				return
			}
			modelAfterMomentum()
			log("momentum %d", N.Height())
			c.Distinct("momentum/own")
			// mirror follows by sync
			if err := M.SyncFrom(N, 4); err != nil {
				c.Violation("follower-refuses-producers-momentum", map[string]interface{}{"err": err.Error(), "trace_tail": trace})
				return
			}
		case k < 97 && N.Height() > 5: // rollback of the last momentum: the pool is dropped
			prevM, _ := N.Chain.GetFrontierMomentumStore().GetMomentumByHeight(N.Height() - 1)
			for _, n := range []*simnet.Node{N, M} {
				ins := n.Chain.AcquireInsert("c14 rollback")
				err := n.Chain.RollbackTo(ins, prevM.Identifier())
				ins.Unlock()
				if err != nil {
					c.Violation("rollback-error", err.Error())
					return
				}
			}
			m.pool = map[types.Address][]c14MBlock{}
			log("rollback to %d", N.Height())
			c.Distinct("rollback")
		default:
			continue
		}
		_ = sheight
		if !c14Compare(c, N, m, "op", trace) {
			return
		}
		// structural check on contract accounts: pool chain extends the confirmed head
		for _, a := range types.EmbeddedContracts {
			blocks := N.Chain.GetUncommittedAccountBlocksByAddress(a)
			sh, sheight := c14Stable(N, a)
			for i, b := range blocks {
				if b.Height != sheight+1+uint64(i) || (i == 0 && b.Previous().Hash != sh && len(b.DescendantBlocks) == 0) {
					c.Violation("contract-pool-chain-broken", map[string]interface{}{"contract": a.String(), "trace_tail": trace})
					return
				}
			}
		}
	}
	// order independence of the priority rule: two fresh candidates A,B for one height, offered A,B to N and B,A to M
	for t := 0; t < 12; t++ {
		u := users[r.Intn(len(users))]
		for _, n := range []*simnet.Node{N, M} {
			if len(n.Chain.GetUncommittedAccountBlocksByAddress(u.Address)) > 0 {
				n.Restart()
			}
		}
		if N.Frontier().Hash != M.Frontier().Hash {
			break
		}
		sh, sheight := c14Stable(N, u.Address)
		mulA, mulB := uint64(1+r.Intn(2)), uint64(1+r.Intn(2))
		ta, errA := c14Gen(N, u, sh, sheight+1, mulA, int64(100+t), users[0].Address)
		tb, errB := c14Gen(N, u, sh, sheight+1, mulB, int64(500+t), users[1].Address)
		if errA != nil || errB != nil {
			continue
		}
		_ = insert(N, ta, false)
		_ = insert(N, tb, false)
		_ = insert(M, tb, false)
		_ = insert(M, ta, false)
		pn := N.Chain.GetUncommittedAccountBlocksByAddress(u.Address)
		pm := M.Chain.GetUncommittedAccountBlocksByAddress(u.Address)
		c.Eval(1)
		win, why := c14Higher(c14MBlock{hash: ta.Block.Hash, base: ta.Block.BasePlasma, total: ta.Block.TotalPlasma}, c14MBlock{hash: tb.Block.Hash, base: tb.Block.BasePlasma, total: tb.Block.TotalPlasma})
		wantHash := tb.Block.Hash
		if win {
			wantHash = ta.Block.Hash
		}
		c.Distinct("order-independence/" + why)
		if len(pn) != 1 || len(pm) != 1 || pn[0].Hash != pm[0].Hash || pn[0].Hash != wantHash {
			c.Violation("competing-candidates-winner-depends-on-order-or-breaks-the-rule "+why, map[string]interface{}{"mulA": mulA, "mulB": mulB,
				"node_pool": len(pn), "mirror_pool": len(pm)})
			return
		}
	}
	if caseID == "model:0" {
		t := trace
		if len(t) > 30 {
			t = t[:30]
		}
		c.Sample(map[string]interface{}{"case": caseID, "operations": nOps, "first_operations": t})
	}
}

func c14ClonePatch(p db.Patch) db.Patch {
	if p == nil {
		return db.NewPatch()
	}
	np, err := db.NewPatchFromDump(append([]byte{}, p.Dump()...))
	if err != nil {
		return db.NewPatch()
	}
	return np
}

// ---- (b) content oracle -----------------------------------------------------------------------------

func c14CheckContent(c *fw.C, n *simnet.Node, where string) bool {
	content := n.Chain.GetNewMomentumContent()
	c.Eval(1)
	if len(content) > chain.MaxAccountBlocksInMomentum {
		c.Violation("momentum-content-exceeds-limit", map[string]interface{}{"where": where, "entries": len(content), "limit": chain.MaxAccountBlocksInMomentum})
		return false
	}
	in := map[types.Hash]bool{}
	for _, b := range content {
		in[b.Hash] = true
	}
	batches := 0
	next := map[types.Address]uint64{}
	for _, b := range content {
		// per account contiguous from the confirmed head
		if _, ok := next[b.Address]; !ok {
			_, sheight := c14Stable(n, b.Address)
			next[b.Address] = sheight + 1
		}
		if b.Height != next[b.Address] {
			c.Violation("momentum-content-not-contiguous-per-account", map[string]interface{}{"where": where, "address": b.Address.String(), "height": b.Height, "expected": next[b.Address]})
			return false
		}
		next[b.Address]++
		if b.BlockType == nom.BlockTypeContractReceive && len(b.DescendantBlocks) > 0 {
			batches++
			for _, d := range b.DescendantBlocks {
				if !in[d.Hash] {
					c.Violation("momentum-content-splits-contract-batch", map[string]interface{}{"where": where, "missing": "descendant"})
					return false
				}
			}
		}
	}
	// a contract-send in the content must have its parent receive in the content
	pool := n.Chain.GetAllUncommittedAccountBlocks()
	parent := map[types.Hash]types.Hash{}
	for _, b := range pool {
		for _, d := range b.DescendantBlocks {
			parent[d.Hash] = b.Hash
		}
	}
	for _, b := range content {
		if b.BlockType == nom.BlockTypeContractSend {
			if p, ok := parent[b.Hash]; !ok || !in[p] {
				c.Violation("momentum-content-splits-contract-batch", map[string]interface{}{"where": where, "missing": "parent-receive"})
				return false
			}
		}
	}
	size := "small"
	if len(pool) > chain.MaxAccountBlocksInMomentum {
		size = ">100-pooled"
	}
	c.Distinct(fmt.Sprintf("content/%s/batches=%d/entries=%d", size, min3(batches, 3), len(content)/25))
	return true
}

func min3(a, b int) int {
	if a < b {
		return a
	}
	return b
}

func c14Content(c *fw.C, caseID string) {
	r := c.Rand(caseID)
	base := c.ScratchDir("c14c")
	defer os.RemoveAll(base)
	N := simnet.Open("N", base+"/N", simnet.MockGenesis(), g.PillarKeys)
	defer N.Stop()
	N.MustProduce(3)
	// the per-momentum limit is a variable of the node software (its own tests lower it): every second case runs with a
	// small seeded limit, which puts batches of every contract at the limit in every round
	var caseIdx int
	fmt.Sscanf(caseID, "content:%d", &caseIdx)
	if caseIdx%2 == 1 {
		old := chain.MaxAccountBlocksInMomentum
		chain.MaxAccountBlocksInMomentum = []int{5, 3, 8, 13, 2, 30}[(caseIdx/2)%6]
		defer func() { chain.MaxAccountBlocksInMomentum = old }()
		c.SetAdd("per_momentum_limits_used", fmt.Sprint(chain.MaxAccountBlocksInMomentum))
	} else {
		c.SetAdd("per_momentum_limits_used", fmt.Sprint(chain.MaxAccountBlocksInMomentum))
	}
	w := simnet.NewWorkload(rand.New(rand.NewSource(r.Int63())), N)
	w.ContractWeight = 70
	// the content must be checked at the moment the pillar asks for it: inside production (after the contract
	// receives of the previous round were generated) and between user bursts
	// right after a momentum was inserted (before the pillar regenerates anything) the pool must still hold every
	// block that was pooled before and was not confirmed by the momentum
	var before []*nom.AccountBlock
	N.OnMomentum = func(m *nom.Momentum, err error) {
		if err != nil {
			return
		}
		if len(m.Content) > chain.MaxAccountBlocksInMomentum {
			c.Violation("momentum-content-exceeds-limit", map[string]interface{}{"where": "accepted momentum", "entries": len(m.Content), "limit": chain.MaxAccountBlocksInMomentum})
		}
		confirmed := map[types.Hash]bool{}
		for _, hd := range m.Content {
			confirmed[hd.Hash] = true
		}
		after := map[types.Hash]bool{}
		for _, b := range N.Chain.GetAllUncommittedAccountBlocks() {
			after[b.Hash] = true
		}
		c.Eval(1)
		left, lost := 0, 0
		var lostExample *nom.AccountBlock
		for _, b := range before {
			if confirmed[b.Hash] {
				continue
			}
			left++
			if !after[b.Hash] {
				lost++
				if lostExample == nil {
					lostExample = b
				}
			}
		}
		if left > 0 {
			c.Distinct(fmt.Sprintf("leftover-after-momentum/%d", min3(left/20, 5)))
		}
		if lost > 0 {
			kind := "user-block"
			if types.IsEmbeddedAddress(lostExample.Address) {
				kind = "contract-block"
				if len(lostExample.DescendantBlocks) > 0 || lostExample.BlockType == nom.BlockTypeContractSend {
					kind = "contract-batch"
				}
			}
			c.Violation("unconfirmed-pooled-block-dropped-by-momentum-insert "+kind, map[string]interface{}{"pooled_before": len(before), "confirmed": len(m.Content), "left_unconfirmed": left, "lost": lost,
				"example": fmt.Sprintf("%s height %d type %d descendants %d", lostExample.Address, lostExample.Height, lostExample.BlockType, len(lostExample.DescendantBlocks))})
		}
	}
	for round := 0; round < 8; round++ {
		burst := 40 + r.Intn(140)
		for i := 0; i < burst; i++ {
			w.One()
		}
		if round%4 == 1 {
			// a pool well above the per-momentum limit in which several accounts hold long runs of blocks: whatever
			// is offered must be a prefix of every account's run
			accepted := 0
			us := c14Users()
			for k := 0; k < 26 && len(N.Chain.GetAllUncommittedAccountBlocks()) < 135; k++ {
				for _, u := range us {
					if _, err := N.Send(u, us[(k+1)%len(us)].Address, types.ZnnTokenStandard, big.NewInt(int64(1+k)), nil); err == nil {
						accepted++
					}
				}
			}
			c.Count("long_runs_pooled_above_the_limit", accepted)
		}
		if round%4 == 3 {
			// one contract flooded: more calls to the token contract than a momentum holds, some whose receive is a
			// batch (IssueToken with a supply: receive + mint descendant), some whose receive stands alone (Burn of one
			// unit). After the next momentum the contract's own chain holds > 100 pooled blocks with batches at seeded
			// positions around the limit: what is offered must stay one chain per account with whole batches.
			sent := 0
			us := c14Users()
			for k := 0; k < 18 && sent < 125; k++ {
				for _, u := range us {
					var err error
					if r.Intn(5) < 2 {
						call := c13ValidCall(r, "Token", "IssueToken", u.Address, 1)
						call.args[3] = big.NewInt(1 + r.Int63n(1e6))
						call.args[4] = big.NewInt(2e6)
						call.args[6] = true
						_, err = N.Send(u, types.TokenContract, call.zts, call.amount, c13Pack(definition.ABIToken, "IssueToken", call.args...))
					} else {
						_, err = N.Send(u, types.TokenContract, types.ZnnTokenStandard, big.NewInt(1), c13Pack(definition.ABIToken, definition.BurnMethodName))
					}
					if err == nil {
						sent++
					}
				}
			}
			c.Count("calls_flooding_one_contract", sent)
		}
		if !c14CheckContent(c, N, "after user burst") {
			return
		}
		before = N.Chain.GetAllUncommittedAccountBlocks()
		if _, err := N.Produce(0); err != nil {
			c.Violation("producer-cannot-produce", map[string]interface{}{"err": err.Error(), "log": w.Log})
			return
		}
		// now the pool holds contract receives (with refund/mint descendants) plus the user blocks that did not fit
		if n := len(N.Chain.GetUncommittedAccountBlocksByAddress(types.TokenContract)); n > chain.MaxAccountBlocksInMomentum {
			c.Count("pools_with_more_than_a_momentum_of_blocks_of_one_contract", 1)
			c.Distinct("content/one-contract-above-the-limit")
		}
		if !c14CheckContent(c, N, "after production") {
			return
		}
	}
	c.Count("content_rounds", 8)
}

// ---- (c) readers vs the inserting goroutine ----------------------------------------------------------

func c14Readers(c *fw.C, caseID string) {
	r := c.Rand(caseID)
	base := c.ScratchDir("c14r")
	defer os.RemoveAll(base)
	N := simnet.Open("N", base+"/N", simnet.MockGenesis(), g.PillarKeys)
	defer N.Stop()
	N.MustProduce(3)
	users := c14Users()
	// the writer records, for every frontier hash of every user account, the expected height and ZNN/QSR balance
	type rec struct {
		height   uint64
		znn, qsr string
	}
	var mu sync.Mutex
	known := map[types.Hash]rec{}
	record := func(a types.Address) {
		as := N.Chain.GetFrontierAccountStore(a)
		f, _ := as.Frontier()
		if f == nil {
			return
		}
		z, _ := as.GetBalance(types.ZnnTokenStandard)
		q, _ := as.GetBalance(types.QsrTokenStandard)
		mu.Lock()
		known[f.Hash] = rec{f.Height, z.String(), q.String()}
		mu.Unlock()
	}
	for _, u := range users {
		record(u.Address)
	}
	// linearizability of the frontier read (per account, unique values = frontier hashes): every write gets an interval
	// [start, end] on one logical clock; a read [call, ret] that returns hash H is admissible only if some version with
	// hash H could have been current at an instant of the read: it began before the read returned and the version that
	// replaced it had not been completed before the read was called. The state in the middle of a replacement (old
	// block popped, new one not yet added) equals an OLD version and fails this.
	type ver struct {
		hash       types.Hash
		start, end int64
	}
	var clock, started, appended int64
	var vmu sync.Mutex
	versions := map[types.Address][]ver{}
	frontierHash := func(a types.Address) types.Hash {
		f, _ := N.Chain.GetFrontierAccountStore(a).Frontier()
		if f == nil {
			return types.Hash{}
		}
		return f.Hash
	}
	for _, u := range users {
		versions[u.Address] = []ver{{frontierHash(u.Address), 0, 0}}
	}
	// write wraps one writer operation that may change the frontier of the given accounts
	write := func(accounts []types.Address, op func()) {
		atomic.AddInt64(&started, 1)
		s := atomic.AddInt64(&clock, 1)
		op()
		e := atomic.AddInt64(&clock, 1)
		vmu.Lock()
		for _, a := range accounts {
			if h := frontierHash(a); versions[a][len(versions[a])-1].hash != h {
				versions[a] = append(versions[a], ver{h, s, e})
			}
		}
		vmu.Unlock()
		atomic.AddInt64(&appended, 1)
	}
	var allUsers []types.Address
	for _, u := range users {
		allUsers = append(allUsers, u.Address)
	}
	var stop int32
	var fails int32
	var linChecked, linSkipped int64
	var snapshots int64
	var wg sync.WaitGroup
	report := func(sig string, d interface{}) {
		if atomic.AddInt32(&fails, 1) == 1 {
			c.Violation(sig, d)
		}
	}
	for ri := 0; ri < 6; ri++ {
		wg.Add(1)
		rr := rand.New(rand.NewSource(r.Int63()))
		go func() {
			defer wg.Done()
			for atomic.LoadInt32(&stop) == 0 {
				u := users[rr.Intn(len(users))]
				switch rr.Intn(4) {
				case 0:
					startedAtCall := atomic.LoadInt64(&started)
					tc := atomic.AddInt64(&clock, 1)
					as := N.Chain.GetFrontierAccountStore(u.Address)
					f, _ := as.Frontier()
					tr := atomic.AddInt64(&clock, 1)
					if f == nil {
						continue
					}
					// judge once every write that began before the read was called has been booked
					for k := 0; k < 200000 && atomic.LoadInt64(&appended) < startedAtCall; k++ {
						runtime.Gosched()
					}
					if atomic.LoadInt64(&appended) >= startedAtCall {
						vmu.Lock()
						vs := versions[u.Address]
						found, admissible := false, false
						for i, v := range vs {
							if v.hash != f.Hash {
								continue
							}
							found = true
							nextEnd := int64(1) << 62
							if i+1 < len(vs) {
								nextEnd = vs[i+1].end
							}
							if v.start <= tr && tc <= nextEnd {
								admissible = true
							}
						}
						nv := len(vs)
						vmu.Unlock()
						switch {
						case !found:
							atomic.AddInt64(&linSkipped, 1) // written by an operation still in flight: not booked yet
						case !admissible:
							report("reader-observed-frontier-that-was-not-current-during-the-read", map[string]interface{}{"address": u.Address.String(), "observed_height": f.Height,
								"read_call": tc, "read_return": tr, "versions_of_the_account": nv, "note": "the value equals an older version of this account's frontier: the state in the middle of a replacement"})
						default:
							atomic.AddInt64(&linChecked, 1)
						}
					}
					z, _ := as.GetBalance(types.ZnnTokenStandard)
					q, _ := as.GetBalance(types.QsrTokenStandard)
					mu.Lock()
					want, ok := known[f.Hash]
					mu.Unlock()
					atomic.AddInt64(&snapshots, 1)
					if !ok {
						// the writer records right after the insert returns: retry for a while
						for k := 0; k < 5000 && !ok; k++ {
							runtime.Gosched()
							mu.Lock()
							want, ok = known[f.Hash]
							mu.Unlock()
						}
						if !ok {
							continue // a contract-generated or displaced block the writer never recorded: cannot judge
						}
					}
					if want.height != f.Height || want.znn != z.String() || want.qsr != q.String() {
						report("reader-observed-half-applied-block", map[string]interface{}{"address": u.Address.String(), "frontier_height": f.Height, "snapshot_znn": z.String(), "expected_znn": want.znn, "snapshot_qsr": q.String(), "expected_qsr": want.qsr})
					}
				case 1:
					blocks := N.Chain.GetUncommittedAccountBlocksByAddress(u.Address)
					atomic.AddInt64(&snapshots, 1)
					for i := 1; i < len(blocks); i++ {
						if blocks[i] == nil || blocks[i-1] == nil || blocks[i].Height != blocks[i-1].Height+1 || blocks[i].PreviousHash != blocks[i-1].Hash {
							report("reader-observed-broken-pool-chain", map[string]interface{}{"address": u.Address.String(), "index": i})
							break
						}
					}
				case 2:
					_ = N.Chain.GetAllUncommittedAccountBlocks()
					_ = N.Chain.GetNewMomentumContent()
					atomic.AddInt64(&snapshots, 1)
				case 3:
					st := N.Chain.GetFrontierMomentumStore()
					fm, _ := st.GetFrontierMomentum()
					if fm != nil {
						_, _ = st.GetAccountStore(u.Address).GetBalanceMap()
						if hs := N.Chain.GetMomentumStore(fm.Identifier()); hs != nil {
							_, _ = hs.GetFrontierMomentum()
						}
					}
					atomic.AddInt64(&snapshots, 1)
				}
			}
		}()
	}
	nOps := 150
	for i := 0; i < nOps && atomic.LoadInt32(&fails) == 0; i++ {
		u := users[r.Intn(len(users))]
		if r.Intn(9) == 0 {
			var perr error
			write(allUsers, func() { _, perr = N.Produce(0) })
			if perr != nil {
				report("producer-cannot-produce", perr.Error())
				break
			}
			for _, x := range users {
				record(x.Address)
			}
			continue
		}
		var tx *nom.AccountBlockTransaction
		var err error
		pool := N.Chain.GetUncommittedAccountBlocksByAddress(u.Address)
		if len(pool) > 0 && r.Intn(3) == 0 {
			// replacement of a pooled block by a higher-priority competitor
			t := pool[r.Intn(len(pool))]
			tx, err = c14Gen(N, u, t.PreviousHash, t.Height, 2, int64(1+r.Intn(500)), users[r.Intn(len(users))].Address)
		} else if hs, _ := N.Chain.GetFrontierMomentumStore().GetAccountMailbox(u.Address).GetUnreceivedAccountBlockHashes(3); len(hs) > 0 && r.Intn(2) == 0 {
			tx, err = N.Generate(&nom.AccountBlock{BlockType: nom.BlockTypeUserReceive, Address: u.Address, FromBlockHash: hs[0]}, u)
		} else {
			tx, err = c14Gen(N, u, types.Hash{}, 0, 1, int64(1+r.Intn(500)), users[r.Intn(len(users))].Address)
		}
		if err != nil {
			continue
		}
		write([]types.Address{u.Address}, func() { N.CreateAccountBlock(tx) })
		record(u.Address)
	}
	atomic.StoreInt32(&stop, 1)
	wg.Wait()
	c.Eval(int(snapshots))
	c.Count("reader_snapshots", int(snapshots))
	c.Count("frontier_reads_checked_for_linearizability", int(linChecked))
	c.Count("frontier_reads_not_judged_value_not_booked_yet", int(linSkipped))
	if snapshots > 0 {
		c.Distinct(caseID)
	}
}

// ---- (d) producer vs sync ----------------------------------------------------------------------------

func c14ProducerVsSync(c *fw.C, caseID string) {
	r := c.Rand(caseID)
	base := c.ScratchDir("c14p")
	defer os.RemoveAll(base)
	N := simnet.Open("N", base+"/N", simnet.MockGenesis(), g.PillarKeys)
	defer N.Stop()
	Q := simnet.Open("Q", base+"/Q", simnet.MockGenesis(), g.PillarKeys)
	defer Q.Stop()
	wN := simnet.NewWorkload(rand.New(rand.NewSource(r.Int63())), N)
	wQ := simnet.NewWorkload(rand.New(rand.NewSource(r.Int63())), Q)
	N.MustProduce(4)
	if err := Q.SyncFrom(N, 10); err != nil {
		c.Violation("sync-failed", err.Error())
		return
	}
	own, synced, both := 0, 0, 0
	for round := 0; round < 16; round++ {
		// both nodes are on the same frontier; each has its own pending blocks
		wN.Step(4)
		wQ.Step(4)
		if _, err := Q.Produce(0); err != nil {
			c.Violation("producer-cannot-produce", err.Error())
			return
		}
		competing := simnet.CloneBatch(Q.Range(Q.Height(), Q.Height()))
		before := N.Height()
		slot := N.NextSlot(0) // fixed before the race: the pillar produces for THIS slot whatever the frontier is by then
		var wg sync.WaitGroup
		wg.Add(2)
		var syncErr error
		go func() {
			defer wg.Done()
			if r.Intn(2) == 0 {
				runtime.Gosched()
			}
			_, syncErr = N.InsertChain(competing)
		}()
		go func() {
			defer wg.Done()
			_, _ = N.ProduceAt(slot)
		}()
		wg.Wait()
		c.Eval(1)
		f := N.Frontier()
		switch {
		case f.Height != before+1:
			c.Violation("producer-vs-sync-wrong-height", map[string]interface{}{"before": before, "after": f.Height, "sync_err": fmt.Sprint(syncErr)})
			return
		case f.Hash == competing[0].Momentum.Hash:
			synced++
		default:
			own++
		}
		if syncErr == nil && f.Hash != competing[0].Momentum.Hash {
			both++
		}
		// the node's chain must replay from genesis to the same state (a momentum applied on a stale parent would not)
		if round%6 == 5 || round == 15 {
			if !c16Audit(c, N, base, round) {
				return
			}
		}
		// bring Q and N together again: the one with the other's momentum missing adopts the longer chain next round
		if N.Frontier().Hash != Q.Frontier().Hash {
			// Q extends by one so that it is strictly longer, N adopts it
			if _, err := Q.Produce(0); err != nil {
				c.Violation("producer-cannot-produce", err.Error())
				return
			}
			fork := before
			if _, err := N.InsertChain(simnet.CloneBatch(Q.Range(fork+1, Q.Height()))); err != nil {
				c.Violation("switch-refused", err.Error())
				return
			}
		}
	}
	c.Count("rounds_own_momentum_won", own)
	c.Count("rounds_synced_momentum_won", synced)
	c.Distinct(fmt.Sprintf("producer-vs-sync/own>0=%v/synced>0=%v", own > 0, synced > 0))
	_ = both
	_ = sort.Strings
}

// ---- (e) the pool component driven directly with synthetic transactions, including contract batches ------

type c14FakeStable struct {
	dbs map[types.Address]db.DB
}

func (s *c14FakeStable) GetStableAccountDB(a types.Address) db.DB {
	d, ok := s.dbs[a]
	if !ok {
		d = db.NewMemDB()
		s.dbs[a] = d
	}
	return d.Snapshot()
}

type c14Tx struct {
	blocks []*nom.AccountBlock // descendants first, the main block last (as stored)
	patch  []byte
}

func (t *c14Tx) main() *nom.AccountBlock { return t.blocks[len(t.blocks)-1] }
func (t *c14Tx) firstHeight() uint64    { return t.blocks[0].Height }
func (t *c14Tx) prev() types.Hash       { return t.blocks[0].PreviousHash }

func c14Api(c *fw.C, caseID string) {
	r := c.Rand(caseID)
	stable := &c14FakeStable{dbs: map[types.Address]db.DB{}}
	pool := chain.NewAccountPool(stable)
	listener := pool.(chain.MomentumEventListener)
	lock := &sync.Mutex{}
	addrs := []types.Address{g.User1.Address, g.User2.Address, types.TokenContract, types.PlasmaContract, types.PillarContract}
	model := map[types.Address][]*c14Tx{} // pooled transactions per address
	stableHead := map[types.Address]types.HashHeight{}
	var trace []string
	log := func(f string, a ...interface{}) {
		trace = append(trace, fmt.Sprintf(f, a...))
		if len(trace) > 40 {
			trace = trace[1:]
		}
	}
	counter := uint64(0)
	newHash := func() types.Hash {
		counter++
		return types.NewHash([]byte(fmt.Sprintf("%s-%d-%d", caseID, counter, r.Int63())))
	}
	head := func(a types.Address) types.HashHeight {
		if l := model[a]; len(l) > 0 {
			return l[len(l)-1].main().Identifier()
		}
		return stableHead[a]
	}
	// makeTx builds a transaction of nDesc descendants + main block on top of (prevHash, prevHeight)
	makeTx := func(a types.Address, prev types.HashHeight, nDesc int, base, total uint64) *c14Tx {
		t := &c14Tx{}
		ph, hh := prev.Hash, prev.Height
		contract := types.IsEmbeddedAddress(a)
		for i := 0; i < nDesc; i++ {
			d := &nom.AccountBlock{Version: 1, ChainIdentifier: 100, BlockType: nom.BlockTypeContractSend, Address: a, Height: hh + 1, PreviousHash: ph, Hash: newHash(), Amount: big.NewInt(int64(i))}
			t.blocks = append(t.blocks, d)
			ph, hh = d.Hash, d.Height
		}
		bt := uint64(nom.BlockTypeUserSend)
		if contract {
			bt = nom.BlockTypeContractReceive
		}
		m := &nom.AccountBlock{Version: 1, ChainIdentifier: 100, BlockType: bt, Address: a, Height: hh + 1, PreviousHash: ph, Hash: newHash(), BasePlasma: base, TotalPlasma: total, Amount: big.NewInt(0)}
		m.DescendantBlocks = append([]*nom.AccountBlock{}, t.blocks...)
		t.blocks = append(t.blocks, m)
		p := db.NewPatch()
		p.Put([]byte{4, byte(counter)}, m.Hash.Bytes()) // some storage write
		t.patch = p.Dump()
		return t
	}
	submit := func(t *c14Tx, force bool) error {
		p, _ := db.NewPatchFromDump(append([]byte{}, t.patch...))
		tx := &nom.AccountBlockTransaction{Block: t.main(), Changes: p}
		if force {
			return pool.ForceAddAccountBlockTransaction(lock, tx)
		}
		return pool.AddAccountBlockTransaction(lock, tx)
	}
	compare := func(op string) bool {
		for _, a := range addrs {
			got := pool.GetUncommittedAccountBlocksByAddress(a)
			var want []*nom.AccountBlock
			for _, t := range model[a] {
				want = append(want, t.blocks...)
			}
			c.Eval(1)
			bad := len(got) != len(want)
			for i := 0; !bad && i < len(got); i++ {
				bad = got[i].Hash != want[i].Hash || got[i].Height != want[i].Height
			}
			fid := pool.GetFrontierAccountStore(a).Identifier()
			if bad || fid != head(a) {
				kind := "user"
				if types.IsEmbeddedAddress(a) {
					kind = "contract"
				}
				c.Violation("pool-component-differs-from-model after "+op+" "+kind, map[string]interface{}{"address": a.String(), "pool_blocks": len(got), "model_blocks": len(want),
					"pool_frontier_height": fid.Height, "model_frontier_height": head(a).Height, "trace_tail": trace})
				return false
			}
		}
		return true
	}
	nOps := 120
	for op := 0; op < nOps; op++ {
		a := addrs[r.Intn(len(addrs))]
		contract := types.IsEmbeddedAddress(a)
		l := model[a]
		switch k := r.Intn(100); {
		case k < 45: // fast-forward: single block or (contract) a batch
			nDesc := 0
			if contract && r.Intn(2) == 0 {
				nDesc = 1 + r.Intn(3)
			}
			t := makeTx(a, head(a), nDesc, 21000, 21000*uint64(1+r.Intn(2)))
			err := submit(t, false)
			log("ff %s desc=%d h=%d -> %v", a.String()[:12], nDesc, t.main().Height, err)
			c.Distinct(fmt.Sprintf("api/fast-forward/desc=%d", min3(nDesc, 2)))
			if err != nil {
				c.Violation("pool-component-refuses-fast-forward", map[string]interface{}{"err": err.Error(), "descendants": nDesc, "trace_tail": trace})
				return
			}
			model[a] = append(l, t)
		case k < 75 && len(l) > 0: // a single-block competitor at the first height of pooled transaction i (a transaction boundary)
			i := r.Intn(len(l))
			target := l[i]
			if target.firstHeight() == 1 {
				continue // the account's very first block: not exercised (see assumptions)
			}
			prev := stableHead[a]
			if i > 0 {
				prev = l[i-1].main().Identifier()
			}
			incumbent := target.blocks[0] // the block that currently sits at that height
			force := r.Intn(4) == 0
			base, total := uint64(21000), uint64(21000*uint64(1+r.Intn(3)))
			if incumbent.BasePlasma == 0 && r.Intn(2) == 0 {
				base, total = 0, 0 // equal (0/0) ratio: hash decides
			}
			t := makeTx(a, prev, 0, base, total)
			win, why := c14Higher(c14MBlock{hash: t.main().Hash, base: base, total: total}, c14MBlock{hash: incumbent.Hash, base: incumbent.BasePlasma, total: incumbent.TotalPlasma})
			above := len(l) - i - 1
			batchAbove := false
			for _, x := range l[i:] {
				if len(x.blocks) > 1 {
					batchAbove = true
				}
			}
			err := submit(t, force)
			log("compete %s at tx %d/%d force=%v %s batchAbove=%v -> %v", a.String()[:12], i, len(l), force, why, batchAbove, err)
			c.Distinct(fmt.Sprintf("api/compete/%s/force=%v/batch-at-or-above=%v/txs-above=%d", why, force, batchAbove, min3(above, 2)))
			expectOK := win || force
			if (err == nil) != expectOK {
				c.Violation(fmt.Sprintf("pool-component-competitor-outcome-differs-from-rule %s force=%v batch-at-or-above=%v", why, force, batchAbove), map[string]interface{}{"err": fmt.Sprint(err), "trace_tail": trace})
				return
			}
			if expectOK {
				model[a] = append(append([]*c14Tx{}, l[:i]...), t)
			}
		case k < 82 && len(l) > 0: // duplicate of a pooled transaction
			t := l[r.Intn(len(l))]
			if len(t.blocks) > 1 {
				continue
			}
			err := submit(t, false)
			log("dup -> %v", err)
			c.Distinct("api/duplicate")
			if err != nil {
				c.Violation("pool-component-duplicate-not-idempotent", map[string]interface{}{"err": err.Error(), "trace_tail": trace})
				return
			}
		case k < 93: // a momentum confirms, for some addresses, a prefix of the pooled transactions
			var content []*nom.AccountBlock
			for _, x := range addrs {
				lx := model[x]
				if len(lx) == 0 || r.Intn(2) == 0 {
					continue
				}
				n := 1 + r.Intn(len(lx))
				sdb := stable.dbs[x]
				if sdb == nil {
					sdb = db.NewMemDB()
					stable.dbs[x] = sdb
				}
				for _, t := range lx[:n] {
					// apply what the pool holds for the transaction (its change set incl. the pool's bookkeeping) to the stable state
					p := pool.GetPatch(x, t.main().Identifier())
					if p == nil {
						c.Violation("pool-component-has-no-patch-for-pooled-block", map[string]interface{}{"trace_tail": trace})
						return
					}
					cp, _ := db.NewPatchFromDump(append([]byte{}, p.Dump()...))
					_ = sdb.Apply(cp)
					content = append(content, t.blocks...)
					stableHead[x] = t.main().Identifier()
				}
				model[x] = append([]*c14Tx{}, lx[n:]...)
			}
			listener.InsertMomentum(&nom.DetailedMomentum{Momentum: &nom.Momentum{Height: uint64(op + 2), Content: nom.NewMomentumContent(content)}, AccountBlocks: content})
			log("momentum confirming %d blocks", len(content))
			leftoverBatch := false
			for _, x := range addrs {
				for _, t := range model[x] {
					if len(t.blocks) > 1 {
						leftoverBatch = true
					}
				}
			}
			c.Distinct(fmt.Sprintf("api/momentum/leftover-batch=%v", leftoverBatch))
		default: // rollback: everything pooled is dropped
			listener.DeleteMomentum(nil)
			model = map[types.Address][]*c14Tx{}
			log("delete-momentum")
			c.Distinct("api/delete-momentum")
		}
		if !compare("op") {
			return
		}
	}
}

// ---- (f) the subscription side: subscribe server + in-process RPC clients vs the inserting goroutine ---------
//
// What the server promises by design (rpc/api/subscribe): the chain calls Server.InsertMomentum on the inserting
// goroutine after the momentum was applied; the event is handed to ONE event-loop goroutine through FIFO channels
// (capacity 100, an event is dropped only when a channel is full) and broadcast to every installed subscription of
// the kind; installation happens asynchronously in the same loop (so the first and the last event a subscription sees
// are not determined by the subscribe / unsubscribe calls), rollbacks are not announced. The oracle therefore demands:
//   * every subscription's stream is a CONTIGUOUS RUN of the sequence of momentums inserted into the node (for the
//     account-block kinds: of the per-momentum sets of confirmed blocks, filtered by the kind's rule, empty sets
//     skipped) — no loss inside the run, no duplicate, no reordering, nothing that was never inserted;
//   * a subscription that is installed before the run and removed after it covers the whole run;
//   * what a notification names is readable from the chain (momentum by hash with that height / confirmed account
//     block by hash with that height and address) when the notification arrives, unless it was rolled back by then.
// The writer never lets more than c14sWindow momentums be outstanding at the permanent subscribers, so that the
// server's by-design drop (channel full) cannot occur.

const (
	c14sMomentums = iota
	c14sAll
	c14sByAddress
	c14sUnreceived
)

const c14sWindow = 16

var c14sKindNames = []string{"momentums", "allAccountBlocks", "accountBlocksByAddress", "unreceivedAccountBlocksByAddress"}

type c14sMom struct {
	Hash   types.Hash `json:"hash"`
	Height uint64     `json:"height"`
}

type c14sBlock struct {
	BlockType uint64        `json:"blockType"`
	Hash      types.Hash    `json:"hash"`
	Height    uint64        `json:"height"`
	Address   types.Address `json:"address"`
	ToAddress types.Address `json:"toAddress"`
	FromHash  types.Hash    `json:"fromHash"`
}

type c14sNote struct {
	moms   []c14sMom
	blocks []c14sBlock
}

// one InsertMomentum event on the observed node, as booked by the writer from the chain right after the insert
type c14sEntry struct {
	mom          c14sMom
	blocks       []c14sBlock
	live         bool
	rolledBackAt int64 // logical clock at the start of the rollback that removed it (0: never)
}

type c14sPending struct {
	what   string
	hash   types.Hash
	height uint64
	tr     int64
}

type c14sSub struct {
	kind      int
	addr      types.Address
	ch        chan json.RawMessage
	cs        *rpcsrv.ClientSubscription
	permanent bool
	end       string
	mu        sync.Mutex
	got       []c14sNote
}

func (s *c14sSub) count() int {
	s.mu.Lock()
	defer s.mu.Unlock()
	return len(s.got)
}

// lastHas: the newest notification of the subscription is the one for the given momentum / marker block
func (s *c14sSub) lastHas(mom, marker types.Hash) bool {
	s.mu.Lock()
	defer s.mu.Unlock()
	if len(s.got) == 0 {
		return false
	}
	n := s.got[len(s.got)-1]
	for _, m := range n.moms {
		if m.Hash == mom {
			return true
		}
	}
	for _, b := range n.blocks {
		if b.Hash == marker {
			return true
		}
	}
	return false
}

type c14sWorld struct {
	c     *fw.C
	T     *simnet.Node
	clock int64
	fails int32

	mu       sync.Mutex
	log      []*c14sEntry
	pending  []c14sPending
	finished []*c14sSub
	stay     []*c14sSub
	stats    map[string]int
	inconcl  string
	found    int64
}

func (w *c14sWorld) report(sig string, d interface{}) {
	if atomic.AddInt32(&w.fails, 1) == 1 {
		w.c.Violation(sig, d)
	}
}

func (w *c14sWorld) stat(name string, n int) {
	w.mu.Lock()
	w.stats[name] += n
	w.mu.Unlock()
}

func (w *c14sWorld) giveUp(why string) {
	w.mu.Lock()
	if w.inconcl == "" {
		w.inconcl = why
	}
	w.mu.Unlock()
	atomic.AddInt32(&w.fails, 1)
}

func c14sOpen(cl *rpcsrv.Client, kind int, addr types.Address) (*c14sSub, error) {
	s := &c14sSub{kind: kind, addr: addr, ch: make(chan json.RawMessage, 4096)}
	ctx, cancel := context.WithTimeout(context.Background(), 3*time.Minute)
	defer cancel()
	var err error
	if kind == c14sMomentums || kind == c14sAll {
		s.cs, err = cl.Subscribe(ctx, "ledger", s.ch, c14sKindNames[kind])
	} else {
		s.cs, err = cl.Subscribe(ctx, "ledger", s.ch, c14sKindNames[kind], addr)
	}
	return s, err
}

// take decodes one notification, reads what it names from the chain right away and keeps it for the stream oracle.
func (w *c14sWorld) take(s *c14sSub, raw json.RawMessage) {
	var n c14sNote
	var err error
	if s.kind == c14sMomentums {
		err = json.Unmarshal(raw, &n.moms)
		if err == nil && len(n.moms) != 1 {
			err = fmt.Errorf("%d momentums in one notification", len(n.moms))
		}
	} else {
		err = json.Unmarshal(raw, &n.blocks)
		if err == nil && len(n.blocks) == 0 {
			err = fmt.Errorf("empty list of account blocks")
		}
	}
	if err != nil {
		text := string(raw)
		if len(text) > 300 {
			text = text[:300]
		}
		w.report("subscription-notification-malformed "+c14sKindNames[s.kind], map[string]interface{}{"error": err.Error(), "notification": text})
		return
	}
	st := w.T.Chain.GetFrontierMomentumStore()
	for _, m := range n.moms {
		cm, _ := st.GetMomentumByHash(m.Hash)
		tr := atomic.AddInt64(&w.clock, 1)
		switch {
		case cm == nil:
			w.mu.Lock()
			w.pending = append(w.pending, c14sPending{"momentum", m.Hash, m.Height, tr})
			w.mu.Unlock()
		case cm.Height != m.Height:
			w.report("notified-momentum-height-differs-from-chain", map[string]interface{}{"notified_height": m.Height, "chain_height": cm.Height})
		default:
			atomic.AddInt64(&w.found, 1)
		}
	}
	for _, b := range n.blocks {
		cb, _ := st.GetAccountBlockByHash(b.Hash)
		var conf uint64
		if cb != nil {
			conf, _ = st.GetBlockConfirmationHeight(b.Hash)
		}
		tr := atomic.AddInt64(&w.clock, 1)
		switch {
		case cb == nil || conf == 0:
			w.mu.Lock()
			w.pending = append(w.pending, c14sPending{"account-block", b.Hash, b.Height, tr})
			w.mu.Unlock()
		case cb.Height != b.Height || cb.Address != b.Address:
			w.report("notified-account-block-differs-from-chain", map[string]interface{}{"notified_height": b.Height, "chain_height": cb.Height,
				"notified_address": b.Address.String(), "chain_address": cb.Address.String()})
		default:
			atomic.AddInt64(&w.found, 1)
		}
	}
	s.mu.Lock()
	s.got = append(s.got, n)
	s.mu.Unlock()
}

func (w *c14sWorld) drain(s *c14sSub) {
	for {
		select {
		case raw := <-s.ch:
			w.take(s, raw)
		default:
			return
		}
	}
}

// book appends the momentums at heights [from, to] of the observed node to the log of insert events.
func (w *c14sWorld) book(from, to uint64) bool {
	st := w.T.Chain.GetFrontierMomentumStore()
	for h := from; h <= to; h++ {
		m, err := st.GetMomentumByHeight(h)
		if err != nil || m == nil {
			w.giveUp(fmt.Sprintf("cannot read back the inserted momentum at height %d: %v", h, err))
			return false
		}
		e := &c14sEntry{mom: c14sMom{m.Hash, m.Height}, live: true}
		for _, hd := range m.Content {
			b, err := st.GetAccountBlockByHash(hd.Hash)
			if err != nil || b == nil {
				w.giveUp(fmt.Sprintf("cannot read back a block confirmed by the momentum at height %d: %v", h, err))
				return false
			}
			e.blocks = append(e.blocks, c14sBlock{BlockType: b.BlockType, Hash: b.Hash, Height: b.Height, Address: b.Address, ToAddress: b.ToAddress, FromHash: b.FromBlockHash})
		}
		w.mu.Lock()
		w.log = append(w.log, e)
		w.mu.Unlock()
	}
	return true
}

// expected: the sequence a subscription of the kind is owed for the whole log (keys) and the log index of every key
func (w *c14sWorld) expected(kind int, addr types.Address) (keys []string, at []int) {
	for i, e := range w.log {
		if kind == c14sMomentums {
			keys = append(keys, fmt.Sprintf("%s/%d", e.mom.Hash, e.mom.Height))
			at = append(at, i)
			continue
		}
		var hs []string
		for _, b := range e.blocks {
			switch kind {
			case c14sByAddress:
				if b.Address != addr {
					continue
				}
			case c14sUnreceived:
				if (b.BlockType != nom.BlockTypeUserSend && b.BlockType != nom.BlockTypeContractSend) || b.ToAddress != addr {
					continue
				}
			}
			hs = append(hs, b.Hash.String())
		}
		if len(hs) == 0 {
			continue
		}
		sort.Strings(hs)
		keys = append(keys, strings.Join(hs, ","))
		at = append(at, i)
	}
	return
}

func c14sRunStart(exp, got []string, suffixOnly bool) int {
	if len(got) > len(exp) {
		return -1
	}
	lo, hi := 0, len(exp)-len(got)
	if suffixOnly {
		lo = hi
	}
	for p := lo; p <= hi; p++ {
		ok := true
		for j := range got {
			if exp[p+j] != got[j] {
				ok = false
				break
			}
		}
		if ok {
			return p
		}
	}
	return -1
}

// c14sClassify names the first way in which a stream fails to be a contiguous run (label of the signature only). A key
// can occur more than once in the log (a momentum that was rolled back and synced again): all positions the stream
// can be at are followed.
func c14sClassify(exp, got []string) (string, int) {
	pos := map[string][]int{}
	for i, k := range exp {
		pos[k] = append(pos[k], i)
	}
	var at []int
	for j, k := range got {
		ps := pos[k]
		if len(ps) == 0 {
			return "notification-for-content-never-inserted", j
		}
		if j == 0 {
			at = ps
			continue
		}
		var next []int
		for _, p := range at {
			if p+1 < len(exp) && exp[p+1] == k {
				next = append(next, p+1)
			}
		}
		if len(next) > 0 {
			at = next
			continue
		}
		if k == got[j-1] {
			return "duplicated-notification", j
		}
		for _, p := range at {
			for _, q := range ps {
				if q > p+1 {
					return "lost-notification", j
				}
			}
		}
		return "reordered-notification", j
	}
	return "not-a-contiguous-run", 0
}

// judge: the stream oracle for one finished subscription (called after everything has stopped); mainFrom is the log
// index from which a permanent subscription must have seen everything.
func (w *c14sWorld) judge(s *c14sSub, byHash map[types.Hash]c14sBlock, mainFrom int, seen map[string]bool) {
	c := w.c
	kind := c14sKindNames[s.kind]
	exp, at := w.expected(s.kind, s.addr)
	var got []string
	repeated := 0
	for _, n := range s.got {
		if s.kind == c14sMomentums {
			got = append(got, fmt.Sprintf("%s/%d", n.moms[0].Hash, n.moms[0].Height))
			continue
		}
		set := map[string]bool{}
		for _, b := range n.blocks {
			if set[b.Hash.String()] {
				repeated++
			}
			set[b.Hash.String()] = true
			if want, ok := byHash[b.Hash]; ok {
				field := ""
				switch {
				case want.Height != b.Height:
					field = "height"
				case want.Address != b.Address:
					field = "address"
				case want.ToAddress != b.ToAddress:
					field = "toAddress"
				case want.BlockType != b.BlockType:
					field = "blockType"
				case want.FromHash != b.FromHash:
					field = "fromHash"
				}
				if sig := "notified-account-block-field-differs-from-chain " + field; field != "" && !seen[sig] {
					seen[sig] = true
					c.Violation(sig, map[string]interface{}{"subscription": kind, "notified": b, "chain": want})
				}
			}
		}
		var hs []string
		for h := range set {
			hs = append(hs, h)
		}
		sort.Strings(hs)
		got = append(got, strings.Join(hs, ","))
	}
	c.Eval(len(got))
	if repeated > 0 {
		c.Count("subscribe_block_entries_repeated_within_one_notification", repeated)
	}
	fail := func(label string, at int) {
		sig := "subscription-stream " + kind + " " + label
		if seen[sig] {
			return
		}
		seen[sig] = true
		c.Violation(sig, map[string]interface{}{"subscription": kind, "address": s.addr.String(), "permanent": s.permanent, "ended_by": s.end,
			"notifications_received": len(got), "notifications_owed_for_the_whole_log": len(exp), "first_offending_notification": at,
			"note": "the stream of a subscription must be a contiguous run of the sequence of inserted momentums (filtered by the kind)"})
	}
	if len(got) == 0 {
		if s.permanent {
			fail("permanent-subscriber-missed-notifications", 0)
		}
		return
	}
	p := c14sRunStart(exp, got, s.permanent)
	if p < 0 && s.permanent && c14sRunStart(exp, got, false) >= 0 {
		fail("permanent-subscriber-missed-notifications", len(got))
		return
	}
	if p < 0 {
		label, j := c14sClassify(exp, got)
		fail(label, j)
		return
	}
	if s.permanent && at[p] > mainFrom {
		// installed before the run, yet the first notification it has is a later one
		for i := range at {
			if at[i] >= mainFrom {
				if i < p {
					fail("permanent-subscriber-missed-notifications", 0)
				}
				break
			}
		}
	}
}

func c14Subscribe(c *fw.C, caseID string, idx int) {
	t0 := time.Now() // for the child log only
	r := c.Rand(caseID)
	base := c.ScratchDir("c14s")
	defer os.RemoveAll(base)
	via := "own-pillar"
	if idx%2 == 1 {
		via = "sync"
	}
	N := simnet.Open("N", base+"/N", simnet.MockGenesis(), g.PillarKeys)
	defer N.Stop()
	T := N // the node whose chain the subscribe server listens to
	if via == "sync" {
		F := simnet.Open("F", base+"/F", simnet.MockGenesis(), g.PillarKeys)
		defer F.Stop()
		T = F
	}
	N.MustProduce(3)
	if T != N {
		if err := T.SyncFrom(N, 10); err != nil {
			c.Violation("sync-failed", err.Error())
			return
		}
	}
	w := &c14sWorld{c: c, T: T, stats: map[string]int{}}

	// the server is a process-wide singleton: Stop() below clears it for the next case of this child
	srv := subscribe.GetSubscribeServer(T.Chain)
	if err := srv.Init(); err != nil {
		c.Inconclusive("subscribe server Init: " + err.Error())
		return
	}
	if err := srv.Start(); err != nil {
		c.Inconclusive("subscribe server Start: " + err.Error())
		return
	}
	rs := rpcsrv.NewServer()
	regErr := rs.RegisterName("ledger", subscribe.GetSubscribeApi())

	var cmu sync.Mutex
	var clients []*rpcsrv.Client
	dial := func() *rpcsrv.Client {
		cl := rpcsrv.DialInProc(rs)
		cmu.Lock()
		clients = append(clients, cl)
		cmu.Unlock()
		w.stat("subscribe_connections_dialed", 1)
		return cl
	}
	stop := make(chan struct{})
	var stopOnce sync.Once
	var wg, cwg sync.WaitGroup
	quit := make(chan struct{})
	var quitOnce sync.Once
	defer func() {
		stopOnce.Do(func() { close(stop) })
		wg.Wait()
		quitOnce.Do(func() { close(quit) })
		cwg.Wait()
		cmu.Lock()
		for _, cl := range clients {
			cl.Close()
		}
		cmu.Unlock()
		rs.Stop()
		_ = srv.Stop()
		w.mu.Lock()
		why := w.inconcl
		w.mu.Unlock()
		if why != "" {
			c.Inconclusive(caseID + ": " + why)
		}
	}()
	if regErr != nil {
		w.giveUp("cannot register the subscribe api: " + regErr.Error())
		return
	}

	A, B := g.Pillar7, g.Pillar8 // marker traffic A -> B: accounts the random workload does not use
	addrs := []types.Address{A.Address, B.Address, g.User1.Address, g.User2.Address, g.User3.Address, types.TokenContract, types.PlasmaContract}

	// permanent subscribers: one of every kind, on one connection, each with a consumer goroutine that reads the chain
	// at the moment a notification arrives
	pc := dial()
	var perm []*c14sSub
	for kind, addr := range []types.Address{{}, {}, A.Address, B.Address} {
		s, err := c14sOpen(pc, kind, addr)
		if err != nil {
			w.giveUp("subscribe call failed: " + err.Error())
			return
		}
		s.permanent, s.end = true, "unsubscribe-after-the-run"
		perm = append(perm, s)
		cwg.Add(1)
		go func() {
			defer cwg.Done()
			for {
				select {
				case raw := <-s.ch:
					w.take(s, raw)
				case <-quit:
					w.drain(s)
					return
				}
			}
		}()
	}

	var tick int64
	wl := simnet.NewWorkload(rand.New(rand.NewSource(r.Int63())), N)
	marker := func() (types.Hash, bool) {
		b, err := N.Send(A, B.Address, types.ZnnTokenStandard, big.NewInt(1), nil)
		atomic.AddInt64(&tick, 1)
		if err != nil {
			w.giveUp("cannot create the marker block: " + err.Error())
			return types.Hash{}, false
		}
		return b.Hash, true
	}
	inserted := 0
	// step: k momentums by N's pillar; in sync mode the observed node then gets them (and whatever a rollback took
	// from it) through the chain bridge in batches of 1..3
	step := func(k int) bool {
		before := T.Height()
		for j := 0; j < k; j++ {
			if _, err := N.Produce(0); err != nil {
				w.report("producer-cannot-produce", err.Error())
				return false
			}
			atomic.AddInt64(&tick, 1)
		}
		if T != N {
			if err := T.SyncFrom(N, 1+r.Intn(3)); err != nil {
				w.report("follower-refuses-producers-momentum", err.Error())
				return false
			}
		}
		after := T.Height()
		inserted += int(after - before)
		return w.book(before+1, after)
	}
	last := func() *c14sEntry {
		w.mu.Lock()
		defer w.mu.Unlock()
		return w.log[len(w.log)-1]
	}
	caughtUp := func(mh types.Hash, millis int) bool {
		e := last()
		for i := 0; i < millis; i++ {
			all := true
			for _, s := range perm {
				if !s.lastHas(e.mom.Hash, mh) {
					all = false
					break
				}
			}
			if all {
				return true
			}
			time.Sleep(time.Millisecond)
		}
		return false
	}
	// warm-up: installation is asynchronous; insert marker momentums until every permanent subscriber is up to date
	warm := false
	for round := 0; round < 12 && !warm; round++ {
		mh, ok := marker()
		if !ok || !step(1) {
			return
		}
		warm = caughtUp(mh, 3000)
	}
	if !warm {
		w.giveUp("the permanent subscribers did not get a notification during the warm-up")
		return
	}
	mainFrom := len(w.log)
	nonEmpty := func() int {
		n := 0
		for _, e := range w.log {
			if len(e.blocks) > 0 {
				n++
			}
		}
		return n
	}
	baseM, n0M := len(w.log), perm[c14sMomentums].count()
	baseB, n0B := nonEmpty(), perm[c14sAll].count()
	throttle := func() bool {
		for i := 0; ; i++ {
			outM := (len(w.log) - baseM) - (perm[c14sMomentums].count() - n0M)
			outB := (nonEmpty() - baseB) - (perm[c14sAll].count() - n0B)
			if outM <= c14sWindow && outB <= c14sWindow {
				return true
			}
			if atomic.LoadInt32(&w.fails) != 0 {
				return false
			}
			if i > 600000 {
				w.giveUp("the permanent subscribers fell behind the inserting goroutine and did not recover")
				return false
			}
			time.Sleep(100 * time.Microsecond)
		}
	}

	// clients that come and go
	shared := dial()
	for gi := 0; gi < 4; gi++ {
		rr := rand.New(rand.NewSource(r.Int63()))
		wg.Add(1)
		go func() {
			defer wg.Done()
			stopped := func() bool {
				select {
				case <-stop:
					return true
				default:
					return false
				}
			}
			var cl *rpcsrv.Client
			stays := 0
			for cycles := int64(0); !stopped() && atomic.LoadInt32(&w.fails) == 0; cycles++ {
				// pace: a bounded number of subscriptions per writer operation
				for cycles >= 3*(atomic.LoadInt64(&tick)+1) && !stopped() {
					time.Sleep(200 * time.Microsecond)
				}
				if stopped() {
					break
				}
				if cl == nil {
					cl = dial()
				}
				use, own := cl, true
				if rr.Intn(4) == 0 {
					use, own = shared, false
				}
				kind := rr.Intn(4)
				s, err := c14sOpen(use, kind, addrs[rr.Intn(len(addrs))])
				if err != nil {
					w.giveUp("subscribe call failed: " + err.Error())
					return
				}
				// stay for up to `dwell` notifications, but no longer than `patience` writer operations
				dwell := rr.Intn(4)
				if dwell == 3 {
					dwell = 2 + rr.Intn(6)
				}
				leaveAt := atomic.LoadInt64(&tick) + int64(1+rr.Intn(10))
				for i := 0; i < dwell && atomic.LoadInt64(&tick) < leaveAt && !stopped(); {
					select {
					case raw := <-s.ch:
						w.take(s, raw)
						i++
					default:
						time.Sleep(200 * time.Microsecond)
					}
				}
				switch e := rr.Intn(10); {
				case e < 5:
					s.end = "unsubscribe"
				case e < 8 && own:
					s.end = "close-connection"
				case e == 9 && own && stays < 3:
					s.end = "stay-until-the-end"
				default:
					s.end = "unsubscribe"
				}
				w.stat("subscribe_cycles "+c14sKindNames[kind]+" "+s.end, 1)
				switch s.end {
				case "unsubscribe":
					s.cs.Unsubscribe()
				case "close-connection":
					cl.Close()
					cl = nil
				case "stay-until-the-end":
					stays++
					cl = nil // the connection stays with the subscription
					w.mu.Lock()
					w.stay = append(w.stay, s)
					w.mu.Unlock()
					continue
				}
				w.drain(s)
				if len(s.got) > 0 {
					w.mu.Lock()
					w.finished = append(w.finished, s)
					w.mu.Unlock()
				}
			}
		}()
	}

	// the inserting goroutine
	steps := 30
	rollbacks := 0
	floor := T.Height() + 2
	for i := 0; i < steps && atomic.LoadInt32(&w.fails) == 0; i++ {
		for j, nb := 0, 1+r.Intn(3); j < nb; j++ {
			wl.One()
			atomic.AddInt64(&tick, 1)
		}
		if r.Intn(2) == 0 {
			if _, ok := marker(); !ok {
				return
			}
		}
		if r.Intn(3) == 0 {
			if hs := wl.Unreceived(B.Address, 2); len(hs) > 0 {
				_, _ = N.Receive(B, hs[0])
				atomic.AddInt64(&tick, 1)
			}
		}
		k := 1
		if T != N {
			k = 1 + r.Intn(3)
		}
		if !step(k) || !throttle() {
			return
		}
		if r.Intn(7) == 0 && T.Height() > floor+2 {
			// rollback of the observed node (not announced to subscribers); own-pillar: the next momentums are new ones,
			// sync: the same momentums come again
			target := T.Height() - uint64(1+r.Intn(2))
			pm, err := T.Chain.GetFrontierMomentumStore().GetMomentumByHeight(target)
			if err != nil || pm == nil {
				continue
			}
			s := atomic.AddInt64(&w.clock, 1)
			ins := T.Chain.AcquireInsert("c14 subscribe rollback")
			err = T.Chain.RollbackTo(ins, pm.Identifier())
			ins.Unlock()
			if err != nil {
				w.report("rollback-error", err.Error())
				return
			}
			w.mu.Lock()
			for _, e := range w.log {
				if e.live && e.mom.Height > target {
					e.live, e.rolledBackAt = false, s
				}
			}
			w.mu.Unlock()
			rollbacks++
			atomic.AddInt64(&tick, 1)
		}
	}
	duringChurn := inserted
	stopOnce.Do(func() { close(stop) })
	wg.Wait()
	if atomic.LoadInt32(&w.fails) != 0 {
		return
	}
	// two more marker momentums: a notification lost at the end of the run shows as a gap before them
	var mh types.Hash
	for k := 0; k < 2; k++ {
		var ok bool
		if mh, ok = marker(); !ok || !step(1) {
			return
		}
	}
	// (watchdog only: if the very last notification does not arrive the streams are still judged for gaps, and the case
	// is inconclusive when none is found)
	tailMissing := !caughtUp(mh, 30000)
	for _, s := range append(append([]*c14sSub{}, perm...), w.stay...) {
		s.cs.Unsubscribe()
	}
	quitOnce.Do(func() { close(quit) })
	cwg.Wait()
	for _, s := range w.stay {
		w.drain(s)
	}
	if atomic.LoadInt32(&w.fails) != 0 {
		return
	}

	// ---- judgement (everything has stopped) ----
	byHash := map[types.Hash]c14sBlock{}
	for _, e := range w.log {
		for _, b := range e.blocks {
			byHash[b.Hash] = b
		}
	}
	seen := map[string]bool{}
	deferred := 0
	for _, p := range w.pending {
		ok := false
		for _, e := range w.log {
			has := p.what == "momentum" && e.mom.Hash == p.hash && e.mom.Height == p.height
			if p.what == "account-block" {
				for _, b := range e.blocks {
					has = has || b.Hash == p.hash
				}
			}
			if has && e.rolledBackAt != 0 && e.rolledBackAt <= p.tr {
				ok = true
			}
		}
		if ok {
			deferred++
			continue
		}
		if sig := "notified-" + p.what + "-not-readable-from-chain-on-arrival"; !seen[sig] {
			seen[sig] = true
			c.Violation(sig, map[string]interface{}{"height": p.height, "hash": p.hash.String(), "read_returned_at": p.tr, "rollbacks": rollbacks,
				"note": "the momentum store had no such entry when the notification arrived, and no rollback that began before the read removed it"})
		}
	}
	c.Eval(int(w.found) + len(w.pending))
	streams, notes := 0, 0
	for _, s := range append(append(append([]*c14sSub{}, perm...), w.stay...), w.finished...) {
		if tailMissing {
			s.permanent = false
		}
		w.judge(s, byHash, mainFrom, seen)
		streams++
		notes += len(s.got)
		if len(s.got) > 0 {
			c.Distinct(fmt.Sprintf("subscribe/%s/%s/%s", via, c14sKindNames[s.kind], s.end))
		}
	}
	for name, n := range w.stats {
		c.Count(name, n)
		if strings.HasPrefix(name, "subscribe_cycles ") {
			c.SetAdd("subscribe_kind_and_ending_exercised", strings.TrimPrefix(name, "subscribe_cycles "))
		}
	}
	c.SetAdd("subscribe_inserting_path", via)
	c.Count("subscribe_momentums_inserted_while_clients_come_and_go", duringChurn)
	c.Count("subscribe_rollbacks_of_the_observed_node", rollbacks)
	c.Count("subscribe_streams_judged", streams)
	c.Count("subscribe_notifications_received", notes)
	c.Count("subscribe_notified_items_found_in_chain_on_arrival", int(w.found))
	c.Count("subscribe_notified_items_already_rolled_back_on_arrival", deferred)
	c.Count("subscribe_permanent_subscriber_notifications", perm[0].count()+perm[1].count()+perm[2].count()+perm[3].count())
	if tailMissing && len(seen) == 0 {
		w.giveUp("the permanent subscribers did not get the notification for the last momentum")
	}
	c.Logf("%s: %d momentums, %d streams, %d notifications, %v", caseID, len(w.log), streams, notes, time.Since(t0))
	if idx == 0 {
		c.Sample(map[string]interface{}{"case": caseID, "inserting_path": via, "momentums_in_log": len(w.log), "streams": streams, "notifications": notes, "rollbacks": rollbacks})
	}
}
