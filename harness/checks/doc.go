// Package checks registers one fw.Check per property (files cNN_*.go).
package checks
