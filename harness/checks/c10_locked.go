package checks

// C10 — locked funds are fully backed and released only to the entitled
// party, on time.
//
// Two monitors watch the same seeded histories on a real simnet producer node:
//
//  (1) BACKING: at every momentum the liabilities recorded in each contract's
//      storage (stake entries, fusion entries, HTLCs, pillar collateral,
//      sentinel collateral, QSR deposits, liquidity stake entries, and for the
//      bridge the wrap requests of tokens it does not own, net of the fee,
//      minus the redeemed unwrap requests) are summed
//      per (contract, token) and compared with the contract's balance at the
//      same momentum; the per-beneficiary fused total must equal the sum of
//      its fusion entries. The same inequality is evaluated a second time from
//      the harness' own model entries (independent of the storage decoders).
//
//  (2) RELEASE MODEL: the harness keeps its own entries, created when a
//      deposit call succeeds. Every value-carrying descendant send of a
//      modelled contract must be the refund of its failed triggering call, or
//      the release of exactly the entry designated by the call, whose unlock
//      condition (re-implemented here on chain time / height) holds at the
//      momentum the receive acknowledges, paying the recorded amount to the
//      entitled party, once. For the bridge the entry is the unwrap request
//      (transaction hash, log index) as signed by the TSS key the harness
//      holds: a Redeem may pay (send, or mint for a token the bridge owns)
//      only the signed amount of the signed token to the signed recipient, not
//      before the first registration + the pair's redeem delay, not after the
//      administrator revoked it, and once - whatever was registered again in
//      between.
//
// The definition.* getters are used as decoders of storage values only.

import (
	"bytes"
	"crypto/ecdsa"
	"crypto/sha256"
	"encoding/base64"
	"encoding/hex"
	"fmt"
	"math/big"
	"math/rand"
	"os"
	"sort"
	"strings"
	"time"

	ethcrypto "github.com/ethereum/go-ethereum/crypto"
	"golang.org/x/crypto/sha3"

	g "github.com/zenon-network/go-zenon/chain/genesis/mock"
	"github.com/zenon-network/go-zenon/chain/nom"
	"github.com/zenon-network/go-zenon/chain/store"
	"github.com/zenon-network/go-zenon/common/types"
	"github.com/zenon-network/go-zenon/consensus"
	"github.com/zenon-network/go-zenon/vm/abi"
	"github.com/zenon-network/go-zenon/vm/constants"
	"github.com/zenon-network/go-zenon/vm/embedded/definition"
	"github.com/zenon-network/go-zenon/vm/embedded/implementation"
	"github.com/zenon-network/go-zenon/wallet"

	"verif/harness/fw"
	"verif/harness/simnet"
)

func init() {
	fw.Register(&fw.Check{
		ID:    "C10",
		Level: "exploration",
		Rule: "each case is a seeded history on a real producer node (all three sporks active) mixing deposits, cancellations, expiries, revocations, reward updates, collects and failed calls " +
			"on stake, plasma, HTLC (ZNN, QSR and two issued tokens), pillar, sentinel and, in half of the short cases, liquidity (every 8th short case lists QSR itself as a liquidity token and lets the spork address call Fund) plus targeted withdrawal attempts at t-1 / t / t+1 around every lock by owner, stranger and beneficiary, repeated, " +
			"with wrong / oversized preimage and proxy unlock default / denied / re-allowed; every 4th short case also sets up the bridge (administrator, guardians, a TSS key held by the harness, two networks with small PRNG-chosen chain ids, " +
			"token pairs for ZNN, QSR and a token the bridge owns) and mixes in wraps, TSS-signed unwrap requests (log indices that collide with each other and with the chain ids), Redeem attempts at delay-1 / delay / delay+1 / delay+2 by recipient, stranger and twice, " +
			"replays of already sent UnwrapToken calls with their original signature while the request is pending / redeemed / revoked (each followed by Redeem attempts one delay later), administrator revocations, and forged unwraps (one signed parameter changed, foreign key, empty / garbage signature); 'short' cases shrink the time constants like the repository tests, 'prod' cases keep production constants and jump chain time by skipping slots; " +
			"distinct_nontrivial counts distinct (contract.method, status, caller role, timing class relative to the lock, outcome) tuples actually judged by the release model",
		Cases:       c10Cases,
		Run:         c10Run,
		MinDistinct: 40,
		Assumptions: []string{
			"the momentum a contract receive acknowledges is the momentum whose time/height the lock is evaluated at",
			"mock genesis stores several zero-id fusion entries under one key, so fused total == sum of entries is checked as 'difference to the genesis offset stays constant'",
			"burning deposited QSR to the token contract on a successful pillar registration (amount <= the caller's own deposit) counts as consumption of that deposit",
			"liquidity administrator UnlockLiquidityStakeEntries legitimately shortens the lock of entries of that token to the acknowledged time",
			"who triggers a release is not restricted by the statement except for HTLC proxy unlock; only recipient, amount, time and once-only are judged",
			"a refused release that the model would allow (entitled party, lock over) is only counted (entitled_release_refused), the statement demands no liveness",
			"bridge: 'the signed request' is the exact parameter tuple (network class, chain id, transaction hash, log index, recipient, token address, amount) the harness signed with the TSS key it installed; a request is identified by (transaction hash, log index); its lock runs from the momentum its FIRST accepted UnwrapToken call acknowledges plus the pair's redeem delay, which the administrator never changes after setting the pair; a Mint call to the token contract (owned token) counts as the payout it requests; a second accepted registration is only counted (bridge_unwrap_registered_again) - what is judged is every payout: signed, to the signed recipient, signed amount and token, not before the delay, not after an administrator revocation, once",
			"bridge liabilities: for a token the bridge does not own it owes what was wrapped net of the pair's fee (that is what exists on the foreign network) minus what was paid out by redeems the release model allowed (storage view: minus the requests flagged redeemed); the harness' TSS never signs more than that for such a token, like a foreign network on which only wrapped tokens can be burned",
		},
	})
}

func c10Cases(tier string, seed int64) []string {
	// prodC (pillar windows at production constants, ~90 chain days) is the most expensive kind, then prodA
	// (3600+ momentums to reach fusion expiry), prodB (~34 chain days), short. The driver deals cases round-robin,
	// so the list is laid out in rows of 16 with the expensive kinds spread over different children.
	var l []string
	if tier != "thorough" {
		row0 := []string{"short:0", "short:1", "short:2", "short:3", "short:4", "short:5", "prodB:0", "prodB:1", "prodB:2", "prodB:3",
			"prodA:0", "prodA:1", "short:6", "short:7", "prodC:0", "prodC:1"}
		l = append(l, row0...)
		for i := 8; i < 8+16+14; i++ {
			l = append(l, fmt.Sprintf("short:%d", i))
		}
		return l
	}
	// thorough: 64 rows of 16; in the first 8 rows every child gets 2 prodC, 2 prodA and 4 prodB, the rest is short
	nC, nA, nB, nS := 0, 0, 0, 0
	for row := 0; row < 64; row++ {
		for col := 0; col < 16; col++ {
			switch r := (row + col) % 4; {
			case row < 8 && r == 0:
				l = append(l, fmt.Sprintf("prodC:%d", nC))
				nC++
			case row < 8 && r == 1:
				l = append(l, fmt.Sprintf("prodA:%d", nA))
				nA++
			case row < 8:
				l = append(l, fmt.Sprintf("prodB:%d", nB))
				nB++
			default:
				l = append(l, fmt.Sprintf("short:%d", nS))
				nS++
			}
		}
	}
	return l
}

// ---------------------------------------------------------------------------
// literals (own copy of the production parameters; the globals are set FROM these)

const (
	c10Zexp       = 100000000
	c10Day  int64 = 24 * 60 * 60
)

var (
	c10PillarZnn   = big.NewInt(15000 * c10Zexp)
	c10SentinelZnn = big.NewInt(5000 * c10Zexp)
	c10SentinelQsr = big.NewInt(50000 * c10Zexp)
)

type c10Cfg struct {
	Mode        string
	StakeUnit   int64
	FuseExp     uint64
	SentLock    int64
	SentRevoke  int64
	PilLock     int64
	PilRevoke   int64
	EpochDur    time.Duration
	UpdateMin   uint64
	RewardLimit int64
	Liquidity   bool
	LiqNative   bool // the administrator lists QSR itself as a liquidity token
	Bridge      bool // the bridge is set up (administrator, guardians, TSS key, two networks, token pairs) and exercised
	HeightPhase bool // prod: run enough momentums to reach fusion expiry
	BuildSteps  int
	Steps       int
	MaxSpan     int64 // max chain time (seconds after genesis) the case may reach
}

func c10MakeCfg(caseID string, rng *rand.Rand) c10Cfg {
	parts := strings.Split(caseID, ":")
	idx := 0
	fmt.Sscanf(parts[len(parts)-1], "%d", &idx)
	if strings.HasPrefix(parts[0], "prod") {
		cfg := c10Cfg{Mode: "prod", StakeUnit: 30 * c10Day, FuseExp: 3600,
			SentLock: 27 * c10Day, SentRevoke: 3 * c10Day, PilLock: 83 * c10Day, PilRevoke: 7 * c10Day,
			EpochDur: 24 * time.Hour, UpdateMin: 300, RewardLimit: 3600, BuildSteps: 60}
		switch parts[0] {
		case "prodA": // height phase: enough momentums to pass fusion expiry, no long time jumps
			cfg.HeightPhase = true
			cfg.Steps = 3740
			cfg.MaxSpan = 2 * c10Day
		case "prodB": // stake and sentinel boundaries
			cfg.Steps = 220
			cfg.MaxSpan = 34 * c10Day
		default: // prodC: pillar windows too
			cfg.Steps = 200
			cfg.MaxSpan = 92 * c10Day
		}
		return cfg
	}
	cfg := c10Cfg{Mode: "short", EpochDur: time.Hour, RewardLimit: 0}
	cfg.StakeUnit = []int64{600, 1200, 3600}[rng.Intn(3)]
	cfg.FuseExp = []uint64{25, 40, 100}[rng.Intn(3)]
	cfg.SentLock = []int64{40, 60, 75, 130}[rng.Intn(4)]
	cfg.SentRevoke = []int64{20, 30, 45}[rng.Intn(3)]
	cfg.PilLock = []int64{60, 90, 145, 200}[rng.Intn(4)]
	cfg.PilRevoke = []int64{30, 60, 85}[rng.Intn(3)]
	cfg.UpdateMin = []uint64{40, 90, 360}[rng.Intn(3)]
	cfg.Liquidity = idx%2 == 0
	cfg.LiqNative = idx%8 == 2
	cfg.Bridge = idx%4 == 1
	cfg.BuildSteps = 70
	cfg.Steps = 330
	cfg.MaxSpan = 40 * 3600
	return cfg
}

func (cfg c10Cfg) apply() {
	constants.StakeTimeUnitSec = cfg.StakeUnit
	constants.StakeTimeMinSec = cfg.StakeUnit
	constants.StakeTimeMaxSec = cfg.StakeUnit * 12
	constants.FuseExpiration = cfg.FuseExp
	constants.SentinelLockTimeWindow = cfg.SentLock
	constants.SentinelRevokeTimeWindow = cfg.SentRevoke
	constants.PillarEpochLockTime = cfg.PilLock
	constants.PillarEpochRevokeTime = cfg.PilRevoke
	constants.UpdateMinNumMomentums = cfg.UpdateMin
	constants.RewardTimeLimit = cfg.RewardLimit
	consensus.EpochDuration = cfg.EpochDur
	if cfg.Liquidity || cfg.Bridge {
		constants.InitialBridgeAdministrator = g.User5.Address
		constants.MinAdministratorDelay = 20
		constants.MinSoftDelay = 10
	}
	if cfg.Bridge {
		constants.MinUnhaltDurationInMomentums = 5
	}
}

// ---------------------------------------------------------------------------
// model

type c10Entry struct {
	Kind        string // stake fusion htlc pillar sentinel liq
	ID          string
	Hash        types.Hash
	Owner       types.Address
	Beneficiary types.Address // fusion beneficiary / htlc hash-locked
	Amount      *big.Int
	Token       types.ZenonTokenStandard
	Amount2     *big.Int // sentinel QSR part
	ExpTime     int64
	ExpHeight   uint64
	RegTime     int64
	HashType    uint8
	KeyMax      uint8
	HashLock    []byte
	Preimage    []byte // workload knowledge only (never used by the oracle)
	Paid        bool
	Paid2       bool
	PaidOK      bool // the first release paid the entitled party the recorded amount
	Revoked     bool // unwrap: revoked by the bridge administrator
	Unsigned    bool // unwrap: registered with parameters the TSS key never signed
	Born        uint64
	History     []string
}

type c10Actor struct {
	Name string
	KP   *wallet.KeyPair
	Addr types.Address
}

type c10Probe struct {
	Time   int64  // target acknowledged time (0 = height probe)
	Height uint64 // target acknowledged height
	Fn     func()
	Label  string
}

type c10World struct {
	c     *fw.C
	id    string
	rng   *rand.Rand
	cfg   c10Cfg
	n     *simnet.Node
	dir   string
	dead  bool
	nviol int

	sigSeen map[string]int

	treasury   map[types.ZenonTokenStandard]*big.Int // value sent by unjudged liquidity treasury methods
	treasuryBy map[types.ZenonTokenStandard]string
	surplus    map[string]*big.Int // contract+token -> balance minus liabilities at surplusAt
	surplusAt  map[string]uint64
	hrng       *rand.Rand // PRNG of hostile deposits (separate from the history's)

	actors []*c10Actor
	byAddr map[types.Address]*c10Actor

	ts      map[uint64]int64
	scanned uint64
	inbox   map[types.Address][]types.Hash
	log     []string

	entries map[string]*c10Entry
	list    map[string][]*c10Entry
	qsr     map[types.Address]map[types.Address]*big.Int
	proxy   map[types.Address]bool
	hasProx map[types.Address]bool

	fusedBase map[types.Address]*big.Int

	probes    []*c10Probe
	tokens    []types.ZenonTokenStandard
	liqTokens []types.ZenonTokenStandard
	pending   map[types.Hash]string // send hash -> role hint from the workload (coverage only)
	pilNames  int
	preimages map[types.Hash][]byte
	usedProd  map[types.Address]bool
	protected map[string]bool // entries the workload never withdraws (they supply actors with plasma)
	reserved  map[string]bool // entries only the planned probes touch

	br *c10Bridge // nil unless cfg.Bridge
}

type c10Contract struct {
	Name string
	ABI  *abi.ABIContract
}

var c10Contracts = map[types.Address]c10Contract{
	types.StakeContract:     {"stake", &definition.ABIStake},
	types.PlasmaContract:    {"plasma", &definition.ABIPlasma},
	types.HtlcContract:      {"htlc", &definition.ABIHtlc},
	types.PillarContract:    {"pillar", &definition.ABIPillars},
	types.SentinelContract:  {"sentinel", &definition.ABISentinel},
	types.LiquidityContract: {"liquidity", &definition.ABILiquidity},
	types.BridgeContract:    {"bridge", &definition.ABIBridge},
}

var c10Order = []types.Address{types.StakeContract, types.PlasmaContract, types.HtlcContract, types.PillarContract, types.SentinelContract, types.LiquidityContract, types.BridgeContract}

func c10TokenClass(z types.ZenonTokenStandard) string {
	switch z {
	case types.ZnnTokenStandard:
		return "znn"
	case types.QsrTokenStandard:
		return "qsr"
	}
	return "zts"
}

func c10Sha3(b []byte) []byte   { h := sha3.Sum256(b); return h[:] }
func c10Sha256(b []byte) []byte { h := sha256.Sum256(b); return h[:] }

func (w *c10World) name(a types.Address) string {
	if ac, ok := w.byAddr[a]; ok {
		return ac.Name
	}
	if ct, ok := c10Contracts[a]; ok {
		return ct.Name
	}
	if a == types.TokenContract {
		return "token"
	}
	return a.String()
}

func (w *c10World) logf(format string, a ...interface{}) {
	w.log = append(w.log, fmt.Sprintf(format, a...))
}

func (w *c10World) violation(sig string, detail map[string]interface{}, e *c10Entry) {
	w.nviol++
	detail["case"] = w.id
	detail["config"] = w.cfg
	if e != nil {
		detail["entry"] = map[string]interface{}{
			"kind": e.Kind, "id": e.ID, "owner": w.name(e.Owner), "beneficiary": w.name(e.Beneficiary),
			"amount": e.Amount.String(), "token": e.Token.String(), "exp_time": e.ExpTime, "exp_height": e.ExpHeight,
			"reg_time": e.RegTime, "paid": e.Paid, "born_height": e.Born, "history": e.History,
			"revoked": e.Revoked, "unsigned": e.Unsigned,
		}
	}
	if e != nil && len(e.ID) >= 8 {
		short := e.ID[:8]
		if e.Kind == "fusion" {
			short = e.Hash.String()[:8]
		}
		short2 := short
		if e.Kind == "unwrap" {
			// bridge calls are logged as Method(<tx hash prefix>/<log index>[,...])
			short, short2 = short+e.ID[strings.Index(e.ID, "/"):]+")", short+e.ID[strings.Index(e.ID, "/"):]+","
		}
		var calls []string
		for _, l := range w.log {
			if strings.Contains(l, short) || strings.Contains(l, short2) {
				calls = append(calls, l)
			}
		}
		if len(calls) > 40 {
			calls = calls[len(calls)-40:]
		}
		detail["calls_naming_entry"] = calls
	}
	tail := w.log
	if len(tail) > 80 {
		tail = tail[len(tail)-80:]
	}
	detail["call_sequence_tail"] = append([]string{}, tail...)
	// a broken invariant fires at every later momentum: keep two witnesses per signature and case
	w.sigSeen[sig]++
	if w.sigSeen[sig] <= 2 && len(w.sigSeen) <= 40 {
		w.c.Violation(sig, detail)
	}
}

func (w *c10World) addEntry(e *c10Entry) {
	key := e.Kind + "|" + e.ID
	w.entries[key] = e
	w.list[e.Kind] = append(w.list[e.Kind], e)
}

func (w *c10World) deposit(contract, owner types.Address) *big.Int {
	m := w.qsr[contract]
	if m == nil {
		m = map[types.Address]*big.Int{}
		w.qsr[contract] = m
	}
	v := m[owner]
	if v == nil {
		v = new(big.Int)
		m[owner] = v
	}
	return v
}

// window reports whether a cyclic lock/revoke window is open at time t.
func c10Window(reg, t, lock, revoke int64) (open bool, class string) {
	period := lock + revoke
	d := t - reg
	phase := d % period
	cycle := d / period
	if phase < lock {
		switch {
		case lock-phase <= 10:
			return false, "open-1"
		case phase < 10 && cycle > 0:
			return false, "close"
		case phase < 20 && cycle > 0:
			return false, "close+1"
		}
		return false, "locked"
	}
	switch {
	case phase-lock < 10:
		return true, "open"
	case phase-lock < 20:
		return true, "open+1"
	case period-phase <= 10:
		return true, "close-1"
	}
	return true, "window"
}

func c10TimeClass(t, exp int64) string {
	d := t - exp
	switch {
	case d < -10:
		return "early"
	case d < 0:
		return "t-1"
	case d < 10:
		return "t"
	case d < 20:
		return "t+1"
	}
	return "late"
}

func c10HeightClass(h, exp uint64) string {
	switch {
	case h+1 < exp:
		return "early"
	case h+1 == exp:
		return "t-1"
	case h == exp:
		return "t"
	case h == exp+1:
		return "t+1"
	}
	return "late"
}

// ---------------------------------------------------------------------------
// release monitor

type c10Recv struct {
	R      *nom.AccountBlock
	S      *nom.AccountBlock
	CName  string
	Method string
	OK     bool
	AckH   uint64
	AckT   int64
	Value  []*nom.AccountBlock
	Caller types.Address
}

func (rc *c10Recv) describe(w *c10World) map[string]interface{} {
	var sends []string
	for _, d := range rc.R.DescendantBlocks {
		sends = append(sends, fmt.Sprintf("to=%s amount=%s token=%s datalen=%d", w.name(d.ToAddress), d.Amount, d.TokenStandard, len(d.Data)))
	}
	return map[string]interface{}{
		"contract": rc.CName, "method": rc.Method, "caller": w.name(rc.Caller), "call_amount": rc.S.Amount.String(),
		"call_token": rc.S.TokenStandard.String(), "call_hash": rc.S.Hash.String(), "status_ok": rc.OK,
		"ack_height": rc.AckH, "ack_time": rc.AckT, "descendants": sends, "receive_height": rc.R.Height,
	}
}

func (w *c10World) relViolation(rc *c10Recv, why string, e *c10Entry, extra map[string]interface{}) {
	d := rc.describe(w)
	d["why"] = why
	for k, v := range extra {
		d[k] = v
	}
	w.violation(fmt.Sprintf("release-not-allowed %s.%s %s", rc.CName, rc.Method, why), d, e)
}

func (w *c10World) cover(rc *c10Recv, role, timing, outcome string) {
	st := "ok"
	if !rc.OK {
		st = "fail"
	}
	hint := w.pending[rc.S.Hash]
	key := fmt.Sprintf("%s.%s|%s|%s|%s|%s", rc.CName, rc.Method, st, role, timing, outcome)
	w.c.Distinct(key)
	w.c.SetAdd("judged", key)
	if hint != "" {
		w.c.SetAdd("probe_outcomes", hint+"|"+st)
	}
	w.c.Count("judged_receives", 1)
}

func (w *c10World) role(e *c10Entry, caller types.Address) string {
	if e == nil {
		return "no-entry"
	}
	switch {
	case e.Kind == "unwrap" && caller == e.Owner:
		return "recipient"
	case e.Kind == "unwrap" && caller == g.User5.Address:
		return "admin"
	case caller == e.Owner:
		return "owner"
	case e.Kind == "fusion" && caller == e.Beneficiary:
		return "beneficiary"
	case e.Kind == "htlc" && caller == e.Beneficiary:
		return "hashlocked"
	}
	return "stranger"
}

// judge processes one contract receive of a modelled contract.
func (w *c10World) judge(R *nom.AccountBlock) {
	ct := c10Contracts[R.Address]
	S, err := w.n.Chain.GetFrontierMomentumStore().GetAccountBlockByHash(R.FromBlockHash)
	if err != nil || S == nil {
		w.c.Inconclusive(fmt.Sprintf("cannot load send block of receive %s", R.Hash))
		return
	}
	rc := &c10Recv{R: R, S: S, CName: ct.Name, Method: "?", Caller: S.Address, AckH: R.MomentumAcknowledged.Height}
	if m, err := ct.ABI.MethodById(S.Data); err == nil {
		rc.Method = m.Name
	}
	rc.AckT = w.ts[rc.AckH]
	rc.OK = len(R.Data) == 8 && R.Data[7] == 1 && bytes.Equal(R.Data[:7], make([]byte, 7))
	for _, d := range R.DescendantBlocks {
		if d.Amount != nil && d.Amount.Sign() > 0 {
			rc.Value = append(rc.Value, d)
		} else if R.Address == types.BridgeContract {
			// the bridge pays out tokens it owns by asking the token contract to mint: judged like a value send
			if m := c10BrMintRequest(d); m != nil {
				rc.Value = append(rc.Value, m)
			}
		}
	}
	w.c.Eval(1)
	w.logf("  recv %s.%s by %s ok=%v ack(h=%d,t=+%d) value_sends=%d", rc.CName, rc.Method, w.name(rc.Caller), rc.OK, rc.AckH, rc.AckT-1000000000, len(rc.Value))

	if !rc.OK {
		// (i) refund of the failed call: same amount and token back to the caller, nothing else
		for i, d := range rc.Value {
			if i == 0 && S.Amount.Sign() > 0 && d.ToAddress == S.Address && d.Amount.Cmp(S.Amount) == 0 && d.TokenStandard == S.TokenStandard {
				continue
			}
			w.relViolation(rc, "value-send-on-failed-call", nil, map[string]interface{}{"send_index": i})
		}
		w.c.SetAdd("failed_calls", rc.CName+"."+rc.Method)
		if len(rc.Value) > 0 {
			w.c.Count("refunds_seen", 1)
		}
		w.coverFailed(rc)
		return
	}

	switch rc.CName + "." + rc.Method {
	case "stake.Stake", "liquidity.LiquidityStake":
		w.noValue(rc)
		var dur int64
		if ct.ABI.UnpackMethod(&dur, rc.Method, S.Data) != nil {
			return
		}
		kind := "stake"
		if rc.CName == "liquidity" {
			kind = "liq"
		}
		e := &c10Entry{Kind: kind, ID: S.Hash.String(), Hash: S.Hash, Owner: S.Address, Amount: new(big.Int).Set(S.Amount), Token: S.TokenStandard,
			ExpTime: rc.AckT + dur, Born: rc.AckH}
		e.History = append(e.History, fmt.Sprintf("created h=%d t=+%d duration=%d", rc.AckH, rc.AckT-1000000000, dur))
		w.addEntry(e)
		w.cover(rc, "owner", "-", "created")
		w.onCreated(e)
	case "stake.Cancel", "liquidity.CancelLiquidityStake":
		id := new(types.Hash)
		if ct.ABI.UnpackMethod(id, rc.Method, S.Data) != nil {
			return
		}
		kind := "stake"
		if rc.CName == "liquidity" {
			kind = "liq"
		}
		e := w.entries[kind+"|"+id.String()]
		timing := "-"
		if e != nil {
			timing = c10TimeClass(rc.AckT, e.ExpTime)
		}
		w.release(rc, e, rc.Value, func(d *nom.AccountBlock) string {
			if rc.AckT < e.ExpTime {
				return "before-unlock"
			}
			return ""
		}, timing)
	case "liquidity.UnlockLiquidityStakeEntries":
		w.noValue(rc)
		for _, e := range w.list["liq"] {
			if !e.Paid && e.Token == S.TokenStandard && e.ExpTime > rc.AckT {
				e.ExpTime = rc.AckT
				e.History = append(e.History, fmt.Sprintf("admin-unlocked at t=+%d", rc.AckT-1000000000))
			}
		}
		w.cover(rc, "admin", "-", "unlocked")
	case "plasma.Fuse":
		w.noValue(rc)
		ben := new(types.Address)
		if ct.ABI.UnpackMethod(ben, rc.Method, S.Data) != nil {
			return
		}
		e := &c10Entry{Kind: "fusion", ID: S.Address.String() + "/" + S.Hash.String(), Hash: S.Hash, Owner: S.Address, Beneficiary: *ben,
			Amount: new(big.Int).Set(S.Amount), Token: S.TokenStandard, ExpHeight: rc.AckH + w.cfg.FuseExp, Born: rc.AckH}
		e.History = append(e.History, fmt.Sprintf("created h=%d expires h=%d", rc.AckH, e.ExpHeight))
		w.addEntry(e)
		w.cover(rc, "owner", "-", "created")
		w.onCreated(e)
	case "plasma.CancelFuse":
		id := new(types.Hash)
		if ct.ABI.UnpackMethod(id, rc.Method, S.Data) != nil {
			return
		}
		e := w.entries["fusion|"+S.Address.String()+"/"+id.String()]
		if e == nil && len(rc.Value) > 0 {
			// the call designates (caller, id); an entry of another owner with this id would be a wrong-recipient release
			for _, o := range w.list["fusion"] {
				if o.Hash == *id {
					e = o
				}
			}
		}
		timing := "-"
		if e != nil {
			timing = c10HeightClass(rc.AckH, e.ExpHeight)
		}
		w.release(rc, e, rc.Value, func(d *nom.AccountBlock) string {
			if rc.AckH < e.ExpHeight {
				return "before-unlock"
			}
			return ""
		}, timing)
	case "htlc.Create":
		w.noValue(rc)
		p := new(definition.CreateHtlcParam)
		if ct.ABI.UnpackMethod(p, rc.Method, S.Data) != nil {
			return
		}
		e := &c10Entry{Kind: "htlc", ID: S.Hash.String(), Hash: S.Hash, Owner: S.Address, Beneficiary: p.HashLocked,
			Amount: new(big.Int).Set(S.Amount), Token: S.TokenStandard, ExpTime: p.ExpirationTime, HashType: p.HashType,
			KeyMax: p.KeyMaxSize, HashLock: append([]byte{}, p.HashLock...), Born: rc.AckH}
		e.History = append(e.History, fmt.Sprintf("created h=%d t=+%d expires t=+%d hashtype=%d keymax=%d hashlocked=%s", rc.AckH, rc.AckT-1000000000, p.ExpirationTime-1000000000, p.HashType, p.KeyMaxSize, w.name(p.HashLocked)))
		w.addEntry(e)
		w.cover(rc, "owner", "-", "created")
		w.onCreated(e)
	case "htlc.Unlock":
		p := new(definition.UnlockHtlcParam)
		if ct.ABI.UnpackMethod(p, rc.Method, S.Data) != nil {
			return
		}
		e := w.entries["htlc|"+p.Id.String()]
		timing := "-"
		if e != nil {
			timing = c10TimeClass(rc.AckT, e.ExpTime)
		}
		proxyState := "default"
		if e != nil && w.hasProx[e.Beneficiary] {
			proxyState = "allowed"
			if !w.proxy[e.Beneficiary] {
				proxyState = "denied"
			}
		}
		w.releaseTo(rc, e, rc.Value, func(d *nom.AccountBlock) string {
			if rc.AckT >= e.ExpTime {
				return "expired"
			}
			if len(p.Preimage) > int(e.KeyMax) {
				return "oversized-preimage"
			}
			var digest []byte
			switch e.HashType {
			case 0:
				digest = c10Sha3(p.Preimage)
			case 1:
				digest = c10Sha256(p.Preimage)
			}
			if digest == nil || !bytes.Equal(digest, e.HashLock) {
				return "wrong-preimage"
			}
			if rc.Caller != e.Beneficiary && proxyState == "denied" {
				return "proxy-denied"
			}
			return ""
		}, timing+"/proxy-"+proxyState, func() types.Address { return e.Beneficiary })
	case "htlc.Reclaim":
		id := new(types.Hash)
		if ct.ABI.UnpackMethod(id, rc.Method, S.Data) != nil {
			return
		}
		e := w.entries["htlc|"+id.String()]
		timing := "-"
		if e != nil {
			timing = c10TimeClass(rc.AckT, e.ExpTime)
		}
		w.release(rc, e, rc.Value, func(d *nom.AccountBlock) string {
			if rc.AckT < e.ExpTime {
				return "before-unlock"
			}
			return ""
		}, timing)
	case "htlc.DenyProxyUnlock", "htlc.AllowProxyUnlock":
		w.noValue(rc)
		w.hasProx[rc.Caller] = true
		w.proxy[rc.Caller] = rc.Method == "AllowProxyUnlock"
		w.cover(rc, "self", "-", "set")
	case "pillar.DepositQsr", "sentinel.DepositQsr":
		w.noValue(rc)
		if S.TokenStandard == types.QsrTokenStandard {
			dep := w.deposit(R.Address, rc.Caller)
			dep.Add(dep, S.Amount)
		}
		w.cover(rc, "owner", "-", "deposited")
	case "pillar.WithdrawQsr", "sentinel.WithdrawQsr":
		dep := w.deposit(R.Address, rc.Caller)
		for i, d := range rc.Value {
			why := ""
			switch {
			case i > 0 || dep.Sign() == 0:
				why = "already-released"
			case d.ToAddress != rc.Caller:
				why = "wrong-recipient"
			case d.TokenStandard != types.QsrTokenStandard || d.Amount.Cmp(dep) != 0:
				why = "wrong-amount"
			}
			if why != "" {
				w.relViolation(rc, why, nil, map[string]interface{}{"model_deposit": dep.String()})
			}
			dep.SetInt64(0)
		}
		w.cover(rc, "owner", "-", fmt.Sprintf("released-%d", len(rc.Value)))
	case "pillar.Register", "pillar.RegisterLegacy":
		p := new(definition.RegisterParam)
		if rc.Method == "Register" {
			if ct.ABI.UnpackMethod(p, rc.Method, S.Data) != nil {
				return
			}
		} else {
			lp := new(definition.LegacyRegisterParam)
			if ct.ABI.UnpackMethod(lp, rc.Method, S.Data) != nil {
				return
			}
			p = &lp.RegisterParam
		}
		dep := w.deposit(R.Address, rc.Caller)
		burn, _ := definition.ABIToken.MethodById(definition.ABIToken.PackMethodPanic(definition.BurnMethodName))
		for i, d := range rc.Value {
			why := ""
			switch {
			case i > 0:
				why = "unexpected-value-send"
			case d.ToAddress != types.TokenContract || d.TokenStandard != types.QsrTokenStandard || len(d.Data) < 4 || !bytes.Equal(d.Data[:4], burn.Id()):
				why = "unexpected-value-send"
			case d.Amount.Cmp(dep) > 0:
				why = "burn-exceeds-deposit"
			}
			if why != "" {
				w.relViolation(rc, why, nil, map[string]interface{}{"model_deposit": dep.String()})
				continue
			}
			dep.Sub(dep, d.Amount)
		}
		e := &c10Entry{Kind: "pillar", ID: p.Name, Owner: S.Address, Amount: new(big.Int).Set(S.Amount), Token: S.TokenStandard, RegTime: rc.AckT, Born: rc.AckH}
		e.History = append(e.History, fmt.Sprintf("registered h=%d t=+%d", rc.AckH, rc.AckT-1000000000))
		if old := w.entries["pillar|"+p.Name]; old != nil && !old.Paid {
			w.relViolation(rc, "re-registered-active-name", old, nil)
		}
		w.addEntry(e)
		w.cover(rc, "owner", "-", "created")
		w.onCreated(e)
	case "pillar.Revoke":
		name := new(string)
		if ct.ABI.UnpackMethod(name, rc.Method, S.Data) != nil {
			return
		}
		e := w.entries["pillar|"+*name]
		timing := "-"
		if e != nil {
			_, timing = c10Window(e.RegTime, rc.AckT, w.cfg.PilLock, w.cfg.PilRevoke)
		}
		w.release(rc, e, rc.Value, func(d *nom.AccountBlock) string {
			if open, _ := c10Window(e.RegTime, rc.AckT, w.cfg.PilLock, w.cfg.PilRevoke); !open {
				return "before-unlock"
			}
			return ""
		}, timing)
	case "sentinel.Register":
		w.noValue(rc)
		dep := w.deposit(R.Address, rc.Caller)
		if dep.Cmp(c10SentinelQsr) < 0 {
			w.relViolation(rc, "deposit-insufficient", nil, map[string]interface{}{"model_deposit": dep.String()})
			dep.SetInt64(0)
		} else {
			dep.Sub(dep, c10SentinelQsr)
		}
		e := &c10Entry{Kind: "sentinel", ID: S.Address.String(), Owner: S.Address, Amount: new(big.Int).Set(S.Amount), Token: S.TokenStandard,
			Amount2: new(big.Int).Set(c10SentinelQsr), RegTime: rc.AckT, Born: rc.AckH}
		e.History = append(e.History, fmt.Sprintf("registered h=%d t=+%d", rc.AckH, rc.AckT-1000000000))
		if old := w.entries["sentinel|"+e.ID]; old != nil && !(old.Paid && old.Paid2) {
			w.relViolation(rc, "re-registered-active-owner", old, nil)
		}
		w.addEntry(e)
		w.cover(rc, "owner", "-", "created")
		w.onCreated(e)
	case "sentinel.Revoke":
		e := w.entries["sentinel|"+rc.Caller.String()]
		timing := "-"
		if e != nil {
			_, timing = c10Window(e.RegTime, rc.AckT, w.cfg.SentLock, w.cfg.SentRevoke)
		}
		w.releaseSentinel(rc, e, timing)
	case "stake.CollectReward", "pillar.CollectReward", "sentinel.CollectReward", "liquidity.CollectReward",
		"stake.Update", "pillar.Update", "sentinel.Update":
		// (ii) reward paths: only zero-amount mint requests to the token contract
		w.noValue(rc)
		for _, d := range R.DescendantBlocks {
			if d.ToAddress != types.TokenContract {
				w.relViolation(rc, "reward-path-send-not-to-token-contract", nil, nil)
			}
		}
		w.cover(rc, "any", "-", fmt.Sprintf("mint-requests-%d", c10min(len(R.DescendantBlocks), 2)))
	case "liquidity.Update", "liquidity.Fund", "liquidity.BurnZnn", "liquidity.Donate":
		// treasury operations of the liquidity contract: listed as not modelled, sends not judged by the
		// release model; what they spend is remembered so that a backing shortfall they cause gets its own signature
		w.c.SetAdd("not_judged", rc.CName+"."+rc.Method)
		for _, d := range rc.Value {
			if w.treasury[d.TokenStandard] == nil {
				w.treasury[d.TokenStandard] = new(big.Int)
			}
			w.treasury[d.TokenStandard].Add(w.treasury[d.TokenStandard], d.Amount)
			w.treasuryBy[d.TokenStandard] = rc.Method
		}
	case "bridge.WrapToken":
		p := new(definition.WrapTokenParam)
		if ct.ABI.UnpackMethod(p, rc.Method, S.Data) != nil {
			return
		}
		pair := w.brPairByZts(p.NetworkClass, p.ChainId, S.TokenStandard)
		burn, _ := definition.ABIToken.MethodById(definition.ABIToken.PackMethodPanic(definition.BurnMethodName))
		burned := false
		for i, d := range rc.Value {
			// a token the bridge owns is burned on wrapping (at most what the call carried); nothing else may leave
			if i == 0 && pair != nil && pair.Owned && d.ToAddress == types.TokenContract && d.TokenStandard == S.TokenStandard &&
				d.Amount.Cmp(S.Amount) <= 0 && len(d.Data) >= 4 && bytes.Equal(d.Data[:4], burn.Id()) {
				burned = true
				continue
			}
			w.relViolation(rc, "unexpected-value-send", nil, map[string]interface{}{"send_index": i})
		}
		// what the bridge owes for a wrap is what appears on the foreign network: the amount minus the pair's fee
		net := new(big.Int).Set(S.Amount)
		if pair != nil {
			fee := new(big.Int).Mul(S.Amount, big.NewInt(int64(pair.Fee)))
			net.Sub(net, fee.Div(fee, big.NewInt(10000)))
		} else {
			w.c.Count("bridge_wrap_accepted_for_a_pair_the_harness_never_set", 1)
		}
		e := &c10Entry{Kind: "wrap", ID: S.Hash.String(), Hash: S.Hash, Owner: S.Address, Amount: net, Token: S.TokenStandard, Born: rc.AckH}
		e.History = append(e.History, fmt.Sprintf("wrapped h=%d gross=%s net=%s", rc.AckH, S.Amount, net))
		out := "wrapped"
		if pair != nil && pair.Owned {
			e.Paid = true // burned: the bridge keeps nothing but the fee and owes nothing it would have to hold
			out = "wrapped-owned"
			if !burned {
				out = "wrapped-owned-not-burned"
			}
		} else if w.br != nil {
			w.br.wrapped.add(S.TokenStandard, net)
		}
		w.addEntry(e)
		w.c.Count("bridge_wraps_ok", 1)
		w.cover(rc, "owner", "-", out)
	case "bridge.UnwrapToken":
		w.noValue(rc)
		p := new(definition.UnwrapTokenParam)
		if ct.ABI.UnpackMethod(p, rc.Method, S.Data) != nil {
			return
		}
		id := c10BrKey(p.TransactionHash, p.LogIndex)
		if old := w.entries["unwrap|"+id]; old != nil {
			// the statement forbids a second RELEASE, not a second registration: remembered, judged when something is paid.
			// The lock keeps running from the first registration.
			old.History = append(old.History, fmt.Sprintf("registered AGAIN by %s at h=%d (paid=%v revoked=%v)", w.name(rc.Caller), rc.AckH, old.Paid, old.Revoked))
			w.c.Count("bridge_unwrap_registered_again", 1)
			w.cover(rc, w.role(old, rc.Caller), c10HeightClass(rc.AckH, old.ExpHeight), "registered-again")
			return
		}
		pair := w.brPairByAddr(p.NetworkClass, p.ChainId, p.TokenAddress)
		e := &c10Entry{Kind: "unwrap", ID: id, Hash: p.TransactionHash, Owner: p.ToAddress, Amount: new(big.Int).Set(p.Amount), Born: rc.AckH, ExpHeight: rc.AckH}
		if pair != nil {
			e.Token = pair.Zts
			e.ExpHeight = rc.AckH + uint64(pair.Delay)
		}
		e.Unsigned = w.br == nil || !w.br.tuples[c10BrTuple(p)]
		e.History = append(e.History, fmt.Sprintf("registered h=%d redeemable h=%d recipient=%s amount=%s class=%d chain=%d log=%d signed_by_tss=%v", rc.AckH, e.ExpHeight, w.name(p.ToAddress), p.Amount, p.NetworkClass, p.ChainId, p.LogIndex, !e.Unsigned))
		w.addEntry(e)
		w.c.Count("bridge_unwraps_registered", 1)
		out := "registered"
		if e.Unsigned {
			out = "registered-unsigned"
		}
		if p.LogIndex == p.ChainId {
			w.c.Count("bridge_unwraps_registered_with_log_index_equal_chain_id", 1)
		}
		w.cover(rc, w.role(e, rc.Caller), "-", out)
		w.onCreated(e)
	case "bridge.Redeem":
		p := new(definition.RedeemParam)
		if ct.ABI.UnpackMethod(p, rc.Method, S.Data) != nil {
			return
		}
		e := w.entries["unwrap|"+c10BrKey(p.TransactionHash, p.LogIndex)]
		timing := "-"
		if e != nil {
			timing = c10HeightClass(rc.AckH, e.ExpHeight)
			if e.Revoked {
				timing += "/revoked"
			}
		}
		for _, d := range rc.Value {
			if string(d.Data) == c10BrMintMark {
				w.c.Count("bridge_redeems_minted", 1)
			} else {
				w.c.Count("bridge_redeems_sent", 1)
			}
		}
		w.release(rc, e, rc.Value, func(d *nom.AccountBlock) string {
			switch {
			case e.Unsigned:
				return "unsigned-request"
			case e.Revoked:
				return "after-revoke"
			case rc.AckH < e.ExpHeight:
				return "before-unlock"
			}
			return ""
		}, timing)
	case "bridge.RevokeUnwrapRequest":
		w.noValue(rc)
		p := new(definition.RevokeUnwrapParam)
		if ct.ABI.UnpackMethod(p, rc.Method, S.Data) != nil {
			return
		}
		e := w.entries["unwrap|"+c10BrKey(p.TransactionHash, p.LogIndex)]
		timing := "-"
		if e != nil {
			timing = c10HeightClass(rc.AckH, e.ExpHeight)
			if e.Paid {
				timing += "/released"
			}
			if rc.Caller == g.User5.Address {
				e.Revoked = true
				e.History = append(e.History, fmt.Sprintf("revoked by the administrator at h=%d", rc.AckH))
				w.c.Count("bridge_revokes_ok", 1)
			}
		}
		w.cover(rc, w.role(e, rc.Caller), timing, "revoked")
	default:
		w.noValue(rc)
		w.cover(rc, "any", "-", "no-value")
	}
}

func c10min(a, b int) int {
	if a < b {
		return a
	}
	return b
}

func (w *c10World) coverFailed(rc *c10Recv) {
	// classify a failed call for coverage only (role / timing relative to the designated entry)
	ct := c10Contracts[rc.R.Address]
	var e *c10Entry
	timing := "-"
	switch rc.CName + "." + rc.Method {
	case "stake.Cancel", "liquidity.CancelLiquidityStake", "htlc.Reclaim", "plasma.CancelFuse":
		id := new(types.Hash)
		if ct.ABI.UnpackMethod(id, rc.Method, rc.S.Data) == nil {
			switch rc.CName {
			case "stake":
				e = w.entries["stake|"+id.String()]
			case "liquidity":
				e = w.entries["liq|"+id.String()]
			case "htlc":
				e = w.entries["htlc|"+id.String()]
			case "plasma":
				for _, o := range w.list["fusion"] {
					if o.Hash == *id {
						e = o
					}
				}
			}
		}
	case "htlc.Unlock":
		p := new(definition.UnlockHtlcParam)
		if ct.ABI.UnpackMethod(p, rc.Method, rc.S.Data) == nil {
			e = w.entries["htlc|"+p.Id.String()]
		}
	case "pillar.Revoke":
		name := new(string)
		if ct.ABI.UnpackMethod(name, rc.Method, rc.S.Data) == nil {
			e = w.entries["pillar|"+*name]
		}
	case "sentinel.Revoke":
		e = w.entries["sentinel|"+rc.Caller.String()]
	case "bridge.Redeem", "bridge.RevokeUnwrapRequest":
		p := new(definition.RedeemParam) // both calls carry (transaction hash, log index)
		if ct.ABI.UnpackMethod(p, rc.Method, rc.S.Data) == nil {
			e = w.entries["unwrap|"+c10BrKey(p.TransactionHash, p.LogIndex)]
		}
	case "bridge.UnwrapToken":
		p := new(definition.UnwrapTokenParam)
		if ct.ABI.UnpackMethod(p, rc.Method, rc.S.Data) == nil {
			e = w.entries["unwrap|"+c10BrKey(p.TransactionHash, p.LogIndex)]
			if e != nil {
				w.c.Count("bridge_unwrap_replays_refused", 1)
			}
		}
	}
	if e != nil {
		switch e.Kind {
		case "stake", "liq", "htlc":
			timing = c10TimeClass(rc.AckT, e.ExpTime)
		case "fusion", "unwrap":
			timing = c10HeightClass(rc.AckH, e.ExpHeight)
		case "pillar":
			_, timing = c10Window(e.RegTime, rc.AckT, w.cfg.PilLock, w.cfg.PilRevoke)
		case "sentinel":
			_, timing = c10Window(e.RegTime, rc.AckT, w.cfg.SentLock, w.cfg.SentRevoke)
		}
		if e.Paid {
			timing += "/released"
		}
		if e.Revoked {
			timing += "/revoked"
		}
		if e.Kind == "htlc" && w.hasProx[e.Beneficiary] && !w.proxy[e.Beneficiary] {
			timing += "/proxy-denied"
		}
	}
	if e != nil && !e.Paid && rc.Caller == e.Owner && rc.Method != "Unlock" && (e.Kind != "unwrap" || rc.Method == "Redeem") {
		due := false
		switch e.Kind {
		case "unwrap":
			due = rc.AckH >= e.ExpHeight && !e.Revoked && !e.Unsigned
		case "stake", "liq", "htlc":
			due = rc.AckT >= e.ExpTime
		case "fusion":
			due = rc.AckH >= e.ExpHeight
		case "pillar":
			due, _ = c10Window(e.RegTime, rc.AckT, w.cfg.PilLock, w.cfg.PilRevoke)
		case "sentinel":
			due, _ = c10Window(e.RegTime, rc.AckT, w.cfg.SentLock, w.cfg.SentRevoke)
		}
		if due {
			// informational only: the statement does not demand liveness
			w.c.SetAdd("entitled_release_refused", rc.CName+"."+rc.Method)
			w.c.Count("entitled_release_refused", 1)
		}
	}
	out := "rejected"
	if len(rc.Value) > 0 {
		out = "refunded"
	}
	w.cover(rc, w.role(e, rc.Caller), timing, out)
}

func (w *c10World) noValue(rc *c10Recv) {
	if len(rc.Value) > 0 {
		w.relViolation(rc, "unexpected-value-send", nil, nil)
	}
}

func (w *c10World) release(rc *c10Recv, e *c10Entry, sends []*nom.AccountBlock, locked func(d *nom.AccountBlock) string, timing string) {
	w.releaseTo(rc, e, sends, locked, timing, func() types.Address { return e.Owner })
}

// releaseTo judges the value sends of a release call against the entry the call designates.
func (w *c10World) releaseTo(rc *c10Recv, e *c10Entry, sends []*nom.AccountBlock, locked func(d *nom.AccountBlock) string, timing string, entitled func() types.Address) {
	for i, d := range sends {
		why := ""
		switch {
		case e == nil:
			why = "no-such-entry"
		case i > 0 || e.Paid:
			why = "already-released"
		case d.ToAddress != entitled():
			why = "wrong-recipient"
		case d.Amount.Cmp(e.Amount) != 0 || d.TokenStandard != e.Token:
			why = "wrong-amount"
		default:
			why = locked(d)
		}
		if why != "" {
			w.relViolation(rc, why, e, map[string]interface{}{"send_index": i, "timing": timing})
		}
		if e != nil {
			if (why == "" || why == "before-unlock") && !e.Paid {
				e.PaidOK = true // the right party got the right amount for the first time: the liability is discharged (even if too early)
			}
			e.Paid = true
			e.History = append(e.History, fmt.Sprintf("released by %s.%s from %s at h=%d t=+%d to %s (%s)", rc.CName, rc.Method, w.name(rc.Caller), rc.AckH, rc.AckT-1000000000, w.name(d.ToAddress), why))
		}
	}
	out := "no-value"
	if len(sends) > 0 {
		out = "released"
	} else if e != nil && e.Paid {
		out = "no-value-after-release"
	}
	w.cover(rc, w.role(e, rc.Caller), timing, out)
}

func (w *c10World) releaseSentinel(rc *c10Recv, e *c10Entry, timing string) {
	for i, d := range rc.Value {
		why := ""
		switch {
		case e == nil:
			why = "no-such-entry"
		case d.ToAddress != e.Owner:
			why = "wrong-recipient"
		case d.TokenStandard == types.ZnnTokenStandard:
			if e.Paid {
				why = "already-released"
			} else if d.Amount.Cmp(e.Amount) != 0 {
				why = "wrong-amount"
			}
			e.Paid = true
		case d.TokenStandard == types.QsrTokenStandard:
			if e.Paid2 {
				why = "already-released"
			} else if d.Amount.Cmp(e.Amount2) != 0 {
				why = "wrong-amount"
			}
			e.Paid2 = true
		default:
			why = "wrong-amount"
		}
		if why == "" {
			if open, _ := c10Window(e.RegTime, rc.AckT, w.cfg.SentLock, w.cfg.SentRevoke); !open {
				why = "before-unlock"
			}
		}
		if why != "" {
			w.relViolation(rc, why, e, map[string]interface{}{"send_index": i, "timing": timing})
		}
		if e != nil {
			e.History = append(e.History, fmt.Sprintf("released %s %s at h=%d t=+%d (%s)", d.Amount, c10TokenClass(d.TokenStandard), rc.AckH, rc.AckT-1000000000, why))
		}
	}
	out := "no-value"
	if len(rc.Value) > 0 {
		out = fmt.Sprintf("released-%d", len(rc.Value))
	}
	w.cover(rc, w.role(e, rc.Caller), timing, out)
}

// ---------------------------------------------------------------------------
// observation of momentums

func (w *c10World) observe() {
	top := w.n.Height()
	for h := w.scanned + 1; h <= top; h++ {
		d := w.n.Detailed(h)
		if d == nil {
			w.c.Inconclusive(fmt.Sprintf("momentum %d not loadable", h))
			return
		}
		w.ts[h] = int64(d.Momentum.TimestampUnix)
		byAddr := map[types.Address][]*nom.AccountBlock{}
		for _, b := range d.AccountBlocks {
			byAddr[b.Address] = append(byAddr[b.Address], b)
			if (b.BlockType == nom.BlockTypeUserSend || b.BlockType == nom.BlockTypeContractSend) && !types.IsEmbeddedAddress(b.ToAddress) {
				if _, ok := w.byAddr[b.ToAddress]; ok {
					w.inbox[b.ToAddress] = append(w.inbox[b.ToAddress], b.Hash)
				}
			}
		}
		for _, addr := range c10Order {
			blocks := byAddr[addr]
			sort.Slice(blocks, func(i, j int) bool { return blocks[i].Height < blocks[j].Height })
			claimed := map[types.Hash]bool{}
			for _, b := range blocks {
				if b.BlockType == nom.BlockTypeContractReceive {
					for _, dd := range b.DescendantBlocks {
						claimed[dd.Hash] = true
					}
					w.judge(b)
				}
			}
			for _, b := range blocks {
				if b.BlockType == nom.BlockTypeContractSend && b.Amount.Sign() > 0 && !claimed[b.Hash] {
					w.violation(fmt.Sprintf("release-not-allowed %s.? send-without-receive", c10Contracts[addr].Name),
						map[string]interface{}{"height": b.Height, "to": w.name(b.ToAddress), "amount": b.Amount.String(), "token": b.TokenStandard.String()}, nil)
				}
			}
		}
		for addr := range byAddr {
			if _, ok := c10Contracts[addr]; !ok && types.IsEmbeddedAddress(addr) {
				w.c.SetAdd("not_modelled_contracts_seen", w.name(addr))
			}
		}
		w.backing(h)
		w.scanned = h
	}
}

// ---------------------------------------------------------------------------
// backing monitor

type c10Sums map[types.ZenonTokenStandard]*big.Int

func (s c10Sums) add(z types.ZenonTokenStandard, v *big.Int) {
	if v == nil {
		return
	}
	if s[z] == nil {
		s[z] = new(big.Int)
	}
	s[z].Add(s[z], v)
}

// c10Keys lists the present keys of a storage view under a one-byte prefix.
func c10Keys(st store.Account, prefix byte) [][]byte {
	var keys [][]byte
	it := st.Storage().NewIterator([]byte{prefix})
	defer it.Release()
	for it.Next() {
		if len(it.Value()) == 0 {
			continue
		}
		keys = append(keys, append([]byte{}, it.Key()...))
	}
	return keys
}

func (w *c10World) checkBacking(h uint64, contract types.Address, st store.Account, sums c10Sums, source string, parts map[string]string) {
	name := c10Contracts[contract].Name
	var toks []types.ZenonTokenStandard
	for z := range sums {
		toks = append(toks, z)
	}
	sort.Slice(toks, func(i, j int) bool { return bytes.Compare(toks[i][:], toks[j][:]) < 0 })
	for _, z := range toks {
		bal, err := st.GetBalance(z)
		if err != nil {
			w.c.Inconclusive("cannot read balance: " + err.Error())
			continue
		}
		w.c.Eval(1)
		if sums[z].Sign() > 0 {
			w.c.SetAdd("backing_checked", name+" "+c10TokenClass(z)+" "+source)
		}
		// what a contract holds beyond what it owes never shrinks: every entry is created with the amount received and
		// every release removes what it pays (the liquidity contract's treasury methods spend on purpose: not judged)
		if source == "storage" && contract != types.LiquidityContract {
			if w.surplus == nil {
				w.surplus = map[string]*big.Int{}
			}
			k := name + " " + z.String()
			cur := new(big.Int).Sub(bal, sums[z])
			// plasma, stake and htlc have no method that may keep what it is sent (no fees, no donations): there the
			// surplus never GROWS either — growth means a deposit was taken without being booked (nobody can ever claim it)
			if prev := w.surplus[k]; prev != nil && cur.Cmp(prev) > 0 && w.surplusAt[k]+1 == h &&
				(contract == types.PlasmaContract || contract == types.StakeContract || contract == types.HtlcContract) {
				w.violation(fmt.Sprintf("deposit-taken-but-not-booked %s %s", name, c10TokenClass(z)), map[string]interface{}{
					"height": h, "token": z.String(), "liabilities": sums[z].String(), "balance": bal.String(), "surplus_before": prev.String(), "surplus_now": cur.String(), "parts": parts}, nil)
			}
			if prev := w.surplus[k]; prev != nil && cur.Cmp(prev) < 0 && w.surplusAt[k]+1 == h {
				w.violation(fmt.Sprintf("surplus-decreased %s %s", name, c10TokenClass(z)), map[string]interface{}{
					"height": h, "token": z.String(), "liabilities": sums[z].String(), "balance": bal.String(), "surplus_before": prev.String(), "surplus_now": cur.String(), "parts": parts,
					"note": "liabilities grew by more than the balance (an entry without the value behind it) or the balance shrank by more than the liabilities (a release beyond the entry)"}, nil)
			}
			w.surplus[k] = cur
			if w.surplusAt == nil {
				w.surplusAt = map[string]uint64{}
			}
			w.surplusAt[k] = h
			w.c.Eval(1)
		}
		if sums[z].Cmp(bal) > 0 {
			sig := fmt.Sprintf("backing-violated %s %s", name, c10TokenClass(z))
			if t := w.treasury[z]; contract == types.LiquidityContract && t != nil && sums[z].Cmp(new(big.Int).Add(bal, t)) <= 0 {
				// the shortfall is fully explained by treasury sends of the liquidity contract in a token that is also staked
				sig += " treasury-" + w.treasuryBy[z] + "-spends-staked-token"
				parts = map[string]string{"treasury_spent_in_token": t.String(), "last_treasury_method": w.treasuryBy[z]}
			}
			w.violation(sig, map[string]interface{}{
				"height": h, "source": source, "token": z.String(), "liabilities": sums[z].String(), "balance": bal.String(), "parts": parts,
			}, nil)
		}
	}
}

func (w *c10World) backing(h uint64) {
	ms := w.n.Chain.GetFrontierMomentumStore()
	if ms.Identifier().Height != h {
		m, err := ms.GetMomentumByHeight(h)
		if err != nil || m == nil {
			return
		}
		ms = w.n.Chain.GetMomentumStore(m.Identifier())
		if ms == nil {
			return
		}
	}
	parts := map[string]string{}

	// stake
	{
		st := ms.GetAccountStore(types.StakeContract)
		sums := c10Sums{}
		n := 0
		_ = definition.IterateStakeEntries(st.Storage(), func(e *definition.StakeInfo) error {
			sums.add(types.ZnnTokenStandard, e.Amount)
			n++
			return nil
		})
		parts["stake_entries"] = fmt.Sprint(n)
		w.checkBacking(h, types.StakeContract, st, sums, "storage", parts)
	}
	// plasma
	{
		st := ms.GetAccountStore(types.PlasmaContract)
		sums := c10Sums{}
		perBen := map[types.Address]*big.Int{}
		n := 0
		for _, k := range c10Keys(st, 1) {
			if len(k) != 1+types.AddressSize+types.HashSize {
				continue
			}
			owner, _ := types.BytesToAddress(k[1 : 1+types.AddressSize])
			id, _ := types.BytesToHash(k[1+types.AddressSize:])
			fi, err := definition.GetFusionInfo(st.Storage(), owner, id)
			if err != nil {
				continue
			}
			n++
			sums.add(types.QsrTokenStandard, fi.Amount)
			if perBen[fi.Beneficiary] == nil {
				perBen[fi.Beneficiary] = new(big.Int)
			}
			perBen[fi.Beneficiary].Add(perBen[fi.Beneficiary], fi.Amount)
		}
		fused := map[types.Address]*big.Int{}
		for _, k := range c10Keys(st, 2) {
			if len(k) != 1+types.AddressSize {
				continue
			}
			ben, _ := types.BytesToAddress(k[1:])
			fa, err := definition.GetFusedAmount(st.Storage(), ben)
			if err != nil {
				continue
			}
			fused[ben] = fa.Amount
		}
		parts["fusion_entries"] = fmt.Sprint(n)
		w.checkBacking(h, types.PlasmaContract, st, sums, "storage", parts)
		// per-beneficiary fused total == sum of its entries (modulo the genesis offset)
		all := map[types.Address]bool{}
		for a := range perBen {
			all[a] = true
		}
		for a := range fused {
			all[a] = true
		}
		for a := range w.fusedBase {
			all[a] = true
		}
		first := w.fusedBase == nil
		if first {
			w.fusedBase = map[types.Address]*big.Int{}
		}
		var addrs []types.Address
		for a := range all {
			addrs = append(addrs, a)
		}
		sort.Slice(addrs, func(i, j int) bool { return bytes.Compare(addrs[i][:], addrs[j][:]) < 0 })
		for _, a := range addrs {
			diff := new(big.Int)
			if fused[a] != nil {
				diff.Set(fused[a])
			}
			if perBen[a] != nil {
				diff.Sub(diff, perBen[a])
			}
			if first {
				if diff.Sign() != 0 {
					w.fusedBase[a] = diff
				}
				continue
			}
			base := w.fusedBase[a]
			if base == nil {
				base = new(big.Int)
			}
			w.c.Eval(1)
			if diff.Cmp(base) != 0 {
				w.violation("backing-violated plasma fused-total", map[string]interface{}{
					"height": h, "beneficiary": w.name(a), "fused_total_minus_entries": diff.String(), "genesis_offset": base.String(),
				}, nil)
				w.fusedBase[a] = diff // report a drift once
			}
		}
	}
	// htlc
	{
		st := ms.GetAccountStore(types.HtlcContract)
		sums := c10Sums{}
		n := 0
		for _, k := range c10Keys(st, 1) {
			if len(k) != 1+types.HashSize {
				continue
			}
			id, _ := types.BytesToHash(k[1:])
			hi, err := definition.GetHtlcInfo(st.Storage(), id)
			if err != nil {
				continue
			}
			n++
			sums.add(hi.TokenStandard, hi.Amount)
		}
		parts["htlc_entries"] = fmt.Sprint(n)
		w.checkBacking(h, types.HtlcContract, st, sums, "storage", parts)
	}
	// pillar
	{
		st := ms.GetAccountStore(types.PillarContract)
		sums := c10Sums{}
		pl, err := definition.GetPillarsList(st.Storage(), false, definition.AnyPillarType)
		if err == nil {
			for _, p := range pl {
				sums.add(types.ZnnTokenStandard, p.Amount)
			}
		}
		nd := w.sumDeposits(st, sums)
		parts["pillar_entries"] = fmt.Sprint(len(pl))
		parts["pillar_qsr_deposits"] = fmt.Sprint(nd)
		w.checkBacking(h, types.PillarContract, st, sums, "storage", parts)
	}
	// sentinel
	{
		st := ms.GetAccountStore(types.SentinelContract)
		sums := c10Sums{}
		sl := definition.GetAllSentinelInfo(st.Storage())
		for _, s := range sl {
			sums.add(types.ZnnTokenStandard, s.ZnnAmount)
			sums.add(types.QsrTokenStandard, s.QsrAmount)
		}
		nd := w.sumDeposits(st, sums)
		parts["sentinel_entries"] = fmt.Sprint(len(sl))
		parts["sentinel_qsr_deposits"] = fmt.Sprint(nd)
		w.checkBacking(h, types.SentinelContract, st, sums, "storage", parts)
	}
	// liquidity
	{
		st := ms.GetAccountStore(types.LiquidityContract)
		sums := c10Sums{}
		ll := definition.GetAllLiquidityStakeEntries(st.Storage())
		for _, e := range ll {
			sums.add(e.TokenStandard, e.Amount)
		}
		parts["liquidity_entries"] = fmt.Sprint(len(ll))
		w.checkBacking(h, types.LiquidityContract, st, sums, "storage", parts)
	}
	// bridge: for a token it does not own the bridge holds what was wrapped (net of the fee, which is what exists on the
	// foreign network) until it has been paid out again by a redeemed unwrap request
	if w.br != nil {
		st := ms.GetAccountStore(types.BridgeContract)
		sums := c10Sums{}
		wl, err1 := definition.GetWrapTokenRequests(st.Storage())
		ul, err2 := definition.GetUnwrapTokenRequests(st.Storage())
		if err1 == nil && err2 == nil {
			for _, r := range wl {
				if !w.br.owned[r.TokenStandard] {
					sums.add(r.TokenStandard, new(big.Int).Sub(r.Amount, r.Fee))
				}
			}
			for _, r := range ul {
				if !w.br.owned[r.TokenStandard] && r.Redeemed > 0 {
					sums.add(r.TokenStandard, new(big.Int).Neg(r.Amount))
				}
			}
			parts["bridge_wrap_requests"] = fmt.Sprint(len(wl))
			parts["bridge_unwrap_requests"] = fmt.Sprint(len(ul))
			w.checkBacking(h, types.BridgeContract, st, sums, "storage", parts)
		}
	}

	// the same inequality from the harness' own model entries
	model := map[types.Address]c10Sums{}
	for _, a := range c10Order {
		model[a] = c10Sums{}
	}
	kindContract := map[string]types.Address{"stake": types.StakeContract, "fusion": types.PlasmaContract, "htlc": types.HtlcContract,
		"pillar": types.PillarContract, "sentinel": types.SentinelContract, "liq": types.LiquidityContract}
	for _, kind := range []string{"stake", "fusion", "htlc", "pillar", "sentinel", "liq"} {
		for _, e := range w.list[kind] {
			if !e.Paid {
				model[kindContract[kind]].add(e.Token, e.Amount)
			}
			if e.Amount2 != nil && !e.Paid2 {
				model[kindContract[kind]].add(types.QsrTokenStandard, e.Amount2)
			}
		}
	}
	for _, ca := range []types.Address{types.PillarContract, types.SentinelContract} {
		for _, v := range w.qsr[ca] {
			model[ca].add(types.QsrTokenStandard, v)
		}
	}
	if w.br != nil {
		for _, e := range w.list["wrap"] {
			if !e.Paid && !w.br.owned[e.Token] {
				model[types.BridgeContract].add(e.Token, e.Amount)
			}
		}
		for _, e := range w.list["unwrap"] {
			// only a release the model allowed reduces what is owed: a second or unentitled payout takes other wrappers' funds
			if e.PaidOK && !w.br.owned[e.Token] {
				model[types.BridgeContract].add(e.Token, new(big.Int).Neg(e.Amount))
			}
		}
	}
	for _, a := range c10Order {
		w.checkBacking(h, a, ms.GetAccountStore(a), model[a], "model", nil)
	}
}

func (w *c10World) sumDeposits(st store.Account, sums c10Sums) int {
	n := 0
	for _, k := range c10Keys(st, 130) {
		if len(k) != 1+types.AddressSize {
			continue
		}
		a, _ := types.BytesToAddress(k[1:])
		d, err := definition.GetQsrDeposit(st.Storage(), &a)
		if err != nil {
			continue
		}
		n++
		sums.add(types.QsrTokenStandard, d.Qsr)
	}
	return n
}

// ---------------------------------------------------------------------------
// workload plumbing

const c10Genesis int64 = 1000000000

func (w *c10World) frontier() (uint64, int64) {
	m := w.n.Frontier()
	return m.Height, int64(m.TimestampUnix)
}

func (w *c10World) bal(a types.Address, z types.ZenonTokenStandard) *big.Int {
	b, err := w.n.Chain.GetFrontierAccountStore(a).GetBalance(z)
	if err != nil || b == nil {
		return new(big.Int)
	}
	return b
}

// send submits a user send block; rejected blocks are counted, not errors.
func (w *c10World) send(a *c10Actor, to types.Address, z types.ZenonTokenStandard, amount *big.Int, data []byte, desc, hint string) *nom.AccountBlock {
	if w.dead {
		return nil
	}
	if amount == nil {
		amount = new(big.Int)
	}
	h, t := w.frontier()
	b, err := w.n.Send(a.KP, to, z, amount, data)
	if err != nil {
		w.c.SetAdd("send_rejections", c10Trunc(err.Error(), 60))
		w.c.SetAdd("send_rejections_by", a.Name+": "+c10Trunc(err.Error(), 40))
		w.c.Count("sends_rejected", 1)
		w.logf("h=%d t=+%d %s -> %s %s amount=%s %s REJECTED: %s", h, t-c10Genesis, a.Name, w.name(to), desc, amount, c10TokenClass(z), c10Trunc(err.Error(), 60))
		return nil
	}
	w.c.Count("sends_accepted", 1)
	w.logf("h=%d t=+%d %s -> %s %s amount=%s %s hash=%s", h, t-c10Genesis, a.Name, w.name(to), desc, amount, c10TokenClass(z), b.Hash.String()[:10])
	if hint != "" {
		w.pending[b.Hash] = hint
	}
	return b
}

func c10Trunc(s string, n int) string {
	if len(s) > n {
		return s[:n]
	}
	return s
}

func (w *c10World) produceAt(t int64) bool {
	if w.dead {
		return false
	}
	_, f := w.frontier()
	for tries := 0; tries < 40; tries++ {
		if t <= f {
			t = f + 10
		}
		m, err := w.n.ProduceAt(time.Unix(t, 0))
		if err != nil {
			w.c.Inconclusive(fmt.Sprintf("cannot produce momentum at t=+%d: %v", t-c10Genesis, err))
			w.dead = true
			return false
		}
		if m != nil {
			w.observe()
			return true
		}
		t += 10 // elected producer key not owned by the node: the slot stays empty
	}
	w.c.Inconclusive("no producible slot found")
	w.dead = true
	return false
}

func (w *c10World) produce(k int) {
	for i := 0; i < k && !w.dead; i++ {
		_, f := w.frontier()
		w.produceAt(f + 10)
	}
}

func (w *c10World) receiveInbox(maxPer int) {
	for _, a := range w.actors {
		box := w.inbox[a.Addr]
		n := 0
		for len(box) > 0 && n < maxPer {
			if _, err := w.n.Receive(a.KP, box[0]); err != nil {
				w.c.Count("receive_rejected", 1)
				w.c.SetAdd("receive_rejections", a.Name+": "+c10Trunc(err.Error(), 60))
				if strings.Contains(err.Error(), "lasma") {
					break // retry later
				}
			}
			box = box[1:]
			n++
		}
		w.inbox[a.Addr] = box
	}
}

func (w *c10World) at(t int64, label string, fn func()) {
	_, f := w.frontier()
	if t <= f || t > c10Genesis+w.cfg.MaxSpan {
		w.c.Count("probes_dropped", 1)
		return
	}
	w.probes = append(w.probes, &c10Probe{Time: t, Fn: fn, Label: label})
}

func (w *c10World) atHeight(h uint64, label string, fn func()) {
	fh, _ := w.frontier()
	if h <= fh {
		w.c.Count("probes_dropped", 1)
		return
	}
	w.probes = append(w.probes, &c10Probe{Height: h, Fn: fn, Label: label})
}

func c10GridBelow(t int64) int64 { return (t - 1) / 10 * 10 } // largest grid time strictly below t (t > 0)

func c10GridAtOrAbove(t int64) int64 { return c10GridBelow(t) + 10 }

func (w *c10World) pick(l []*c10Actor) *c10Actor { return l[w.rng.Intn(len(l))] }

func (w *c10World) other(not ...types.Address) *c10Actor {
	for i := 0; i < 20; i++ {
		a := w.pick(w.actors)
		ok := true
		for _, n := range not {
			if a.Addr == n {
				ok = false
			}
		}
		if ok {
			return a
		}
	}
	return w.actors[0]
}

func (w *c10World) chance(p float64) bool { return w.rng.Float64() < p }

// ---------------------------------------------------------------------------
// calls

func (w *c10World) cancelStake(a *c10Actor, e *c10Entry, hint string) {
	if e.Kind == "liq" {
		w.send(a, types.LiquidityContract, types.ZnnTokenStandard, nil, definition.ABILiquidity.PackMethodPanic(definition.CancelLiquidityStakeMethodName, e.Hash), "CancelLiquidityStake("+e.ID[:8]+")", hint)
		return
	}
	w.send(a, types.StakeContract, types.ZnnTokenStandard, nil, definition.ABIStake.PackMethodPanic(definition.CancelStakeMethodName, e.Hash), "Cancel("+e.ID[:8]+")", hint)
}

func (w *c10World) cancelFuse(a *c10Actor, e *c10Entry, hint string) {
	w.send(a, types.PlasmaContract, types.ZnnTokenStandard, nil, definition.ABIPlasma.PackMethodPanic(definition.CancelFuseMethodName, e.Hash), "CancelFuse("+e.Hash.String()[:8]+")", hint)
}

func (w *c10World) unlockHtlc(a *c10Actor, e *c10Entry, pre []byte, hint string) {
	w.send(a, types.HtlcContract, types.ZnnTokenStandard, nil, definition.ABIHtlc.PackMethodPanic(definition.UnlockHtlcMethodName, e.Hash, pre), fmt.Sprintf("Unlock(%s,preimage[%d])", e.ID[:8], len(pre)), hint)
}

func (w *c10World) reclaimHtlc(a *c10Actor, e *c10Entry, hint string) {
	w.send(a, types.HtlcContract, types.ZnnTokenStandard, nil, definition.ABIHtlc.PackMethodPanic(definition.ReclaimHtlcMethodName, e.Hash), "Reclaim("+e.ID[:8]+")", hint)
}

func (w *c10World) setProxy(a *c10Actor, allow bool) {
	m := definition.DenyHtlcProxyUnlockMethodName
	if allow {
		m = definition.AllowHtlcProxyUnlockMethodName
	}
	w.send(a, types.HtlcContract, types.ZnnTokenStandard, nil, definition.ABIHtlc.PackMethodPanic(m), m, "")
}

func (w *c10World) revokePillar(a *c10Actor, e *c10Entry, hint string) {
	w.send(a, types.PillarContract, types.ZnnTokenStandard, nil, definition.ABIPillars.PackMethodPanic(definition.RevokeMethodName, e.ID), "Revoke("+e.ID+")", hint)
}

func (w *c10World) revokeSentinel(a *c10Actor, hint string) {
	w.send(a, types.SentinelContract, types.ZnnTokenStandard, nil, definition.ABISentinel.PackMethodPanic(definition.RevokeSentinelMethodName), "Revoke()", hint)
}

func (w *c10World) wrongPreimage(e *c10Entry) []byte {
	p := append([]byte{}, e.Preimage...)
	if len(p) == 0 {
		return []byte{1}
	}
	p[w.rng.Intn(len(p))] ^= byte(1 + w.rng.Intn(255))
	return p
}

// onCreated is workload code: it plans the targeted withdrawal attempts around the lock of a new entry.
func (w *c10World) onCreated(e *c10Entry) {
	if e.Kind == "unwrap" {
		if w.br == nil {
			return
		}
		// Redeem attempts around registration height + redeem delay: anybody may trigger, only the recipient may be paid
		r := w.br.rng
		to := w.byAddr[e.Owner]
		tx, li := e.Hash, uint32(0)
		fmt.Sscanf(e.ID[strings.Index(e.ID, "/")+1:], "%d", &li)
		for i, h := range []uint64{e.ExpHeight - 1, e.ExpHeight, e.ExpHeight + 1, e.ExpHeight + 2} {
			tag := []string{"t-1", "t", "t+1", "t+2"}[i]
			if r.Intn(4) == 0 {
				continue
			}
			w.atHeight(h, "unwrap "+tag, func() {
				if r.Intn(5) < 2 {
					w.brRedeem(w.brActor(), tx, li, "bridge.redeem stranger "+tag)
				}
				if to != nil && r.Intn(10) < 6 {
					w.brRedeem(to, tx, li, "bridge.redeem recipient "+tag)
					if r.Intn(5) < 2 {
						w.brRedeem(to, tx, li, "bridge.redeem recipient-repeat "+tag)
					}
				}
			})
		}
		return
	}
	owner := w.byAddr[e.Owner]
	if owner == nil || w.protected[e.ID] {
		return
	}
	switch e.Kind {
	case "stake", "liq":
		a, b := c10GridBelow(e.ExpTime), c10GridAtOrAbove(e.ExpTime)
		for i, t := range []int64{a, b, b + 10} {
			tag := []string{"t-1", "t", "t+1"}[i]
			if w.chance(0.75) {
				t := t
				w.at(t, e.Kind+" "+tag, func() {
					if w.chance(0.5) {
						w.cancelStake(w.other(e.Owner), e, e.Kind+".cancel stranger "+tag)
					}
					if w.chance(0.8) {
						w.cancelStake(owner, e, e.Kind+".cancel owner "+tag)
						if w.chance(0.4) {
							w.cancelStake(owner, e, e.Kind+".cancel owner-repeat "+tag)
						}
					}
				})
			}
		}
	case "fusion":
		ben := w.byAddr[e.Beneficiary]
		for i, h := range []uint64{e.ExpHeight - 1, e.ExpHeight, e.ExpHeight + 1} {
			tag := []string{"t-1", "t", "t+1"}[i]
			if w.chance(0.75) {
				w.atHeight(h, "fusion "+tag, func() {
					if w.chance(0.5) {
						w.cancelFuse(w.other(e.Owner, e.Beneficiary), e, "fusion.cancel stranger "+tag)
					}
					if ben != nil && ben != owner && w.chance(0.6) {
						w.cancelFuse(ben, e, "fusion.cancel beneficiary "+tag)
					}
					if w.chance(0.8) {
						w.cancelFuse(owner, e, "fusion.cancel owner "+tag)
						if w.chance(0.4) {
							w.cancelFuse(owner, e, "fusion.cancel owner-repeat "+tag)
						}
					}
				})
			}
		}
	case "htlc":
		hl := w.byAddr[e.Beneficiary]
		e.Preimage = w.preimages[e.Hash]
		if hl == nil {
			return
		}
		_, now := w.frontier()
		a, b := c10GridBelow(e.ExpTime), c10GridAtOrAbove(e.ExpTime)
		// proxy flips between create and unlock
		if w.chance(0.45) && a-now > 20 {
			tDeny := now + 10*(1+w.rng.Int63n((a-now)/10))
			w.at(tDeny, "htlc deny", func() { w.setProxy(hl, false) })
			if w.chance(0.4) && a-tDeny > 10 {
				tAllow := tDeny + 10*(1+w.rng.Int63n((a-tDeny)/10))
				w.at(tAllow, "htlc re-allow", func() { w.setProxy(hl, true) })
			}
		}
		// 0: unlock early, 1: unlock at t-1, 2: kept until t (unlock attempt exactly at expiry, then reclaim), 3: proxy unlock at t-1,
		// 4: everything at t-1, 5: kept until t (proxy unlock attempt at expiry, reclaim at t+1)
		plan := w.rng.Intn(6)
		kept := plan == 2 || plan == 5
		if kept {
			w.reserved[e.ID] = true // random actions leave it alone
		}
		if plan == 0 && a-now > 30 {
			tEarly := now + 10*(1+w.rng.Int63n((a-now)/10))
			w.at(tEarly, "htlc early", func() {
				if w.chance(0.5) {
					w.unlockHtlc(hl, e, w.wrongPreimage(e), "htlc.unlock hashlocked wrong-preimage early")
				}
				if w.chance(0.4) {
					w.reclaimHtlc(owner, e, "htlc.reclaim owner early")
				}
				if w.chance(0.5) {
					w.unlockHtlc(w.other(e.Owner, e.Beneficiary), e, e.Preimage, "htlc.unlock stranger early")
				}
				w.unlockHtlc(hl, e, e.Preimage, "htlc.unlock hashlocked early")
				if w.chance(0.4) {
					w.unlockHtlc(hl, e, e.Preimage, "htlc.unlock hashlocked-repeat early")
				}
			})
		}
		w.at(a, "htlc t-1", func() {
			if w.chance(0.5) {
				w.reclaimHtlc(owner, e, "htlc.reclaim owner t-1")
			}
			if w.chance(0.4) {
				w.unlockHtlc(hl, e, w.wrongPreimage(e), "htlc.unlock hashlocked wrong-preimage t-1")
			}
			if plan == 3 || plan == 4 {
				w.unlockHtlc(w.other(e.Owner, e.Beneficiary), e, e.Preimage, "htlc.unlock stranger t-1")
			}
			if plan == 1 || plan == 4 {
				w.unlockHtlc(hl, e, e.Preimage, "htlc.unlock hashlocked t-1")
			}
			if !kept && w.chance(0.3) {
				w.unlockHtlc(owner, e, e.Preimage, "htlc.unlock timelocked t-1")
			}
		})
		w.at(b, "htlc t", func() {
			if plan == 5 {
				w.unlockHtlc(w.other(e.Owner, e.Beneficiary), e, e.Preimage, "htlc.unlock stranger t")
			}
			if plan == 2 || w.chance(0.6) {
				w.unlockHtlc(hl, e, e.Preimage, "htlc.unlock hashlocked t")
			}
			if w.chance(0.4) {
				w.reclaimHtlc(hl, e, "htlc.reclaim hashlocked t")
			}
			if w.chance(0.4) {
				w.reclaimHtlc(w.other(e.Owner, e.Beneficiary), e, "htlc.reclaim stranger t")
			}
			if plan != 5 && w.chance(0.7) {
				w.reclaimHtlc(owner, e, "htlc.reclaim owner t")
				if w.chance(0.4) {
					w.reclaimHtlc(owner, e, "htlc.reclaim owner-repeat t")
				}
			}
		})
		w.at(b+10, "htlc t+1", func() {
			if w.chance(0.5) {
				w.unlockHtlc(hl, e, e.Preimage, "htlc.unlock hashlocked t+1")
			}
			if plan == 5 || w.chance(0.8) {
				w.reclaimHtlc(owner, e, "htlc.reclaim owner t+1")
			}
		})
	case "pillar", "sentinel":
		lock, rev := w.cfg.PilLock, w.cfg.PilRevoke
		if e.Kind == "sentinel" {
			lock, rev = w.cfg.SentLock, w.cfg.SentRevoke
		}
		do := func(a *c10Actor, hint string) {
			if e.Kind == "pillar" {
				w.revokePillar(a, e, hint)
			} else {
				w.revokeSentinel(a, hint)
			}
		}
		revokeCycle := w.rng.Intn(3) // the owner starts trying in this cycle
		for cycle := int64(0); cycle < 3; cycle++ {
			open := e.RegTime + cycle*(lock+rev) + lock
			clos := open + rev
			for bi, boundary := range []int64{open, clos} {
				bname := []string{"open", "close"}[bi]
				a, b := c10GridBelow(boundary), c10GridAtOrAbove(boundary)
				for i, t := range []int64{a, b, b + 10} {
					tag := bname + []string{"-1", "", "+1"}[i]
					cyc := cycle
					if w.chance(0.7) {
						w.at(t, e.Kind+" "+tag, func() {
							if e.Kind == "pillar" && w.chance(0.4) {
								do(w.other(e.Owner), "pillar.revoke stranger "+tag)
							}
							if int(cyc) >= revokeCycle || w.chance(0.3) {
								do(owner, e.Kind+".revoke owner "+tag)
								if w.chance(0.35) {
									do(owner, e.Kind+".revoke owner-repeat "+tag)
								}
							}
						})
					}
				}
			}
		}
	}
}

// ---------------------------------------------------------------------------
// random actions

func (w *c10World) units(lo, hi int64) *big.Int { // whole coins in [lo,hi]
	return new(big.Int).Mul(big.NewInt(lo+w.rng.Int63n(hi-lo+1)), big.NewInt(c10Zexp))
}

func (w *c10World) unpaid(kind string) []*c10Entry {
	var l []*c10Entry
	for _, e := range w.list[kind] {
		if !e.Paid && !w.protected[e.ID] && !w.reserved[e.ID] {
			l = append(l, e)
		}
	}
	return l
}

func (w *c10World) anyEntry(kind string) *c10Entry {
	l := w.list[kind]
	if len(l) == 0 {
		return nil
	}
	if u := w.unpaid(kind); len(u) > 0 && w.chance(0.8) {
		return u[w.rng.Intn(len(u))]
	}
	e := l[w.rng.Intn(len(l))] // mostly an already released one: repeated withdrawal attempts
	if w.reserved[e.ID] || w.protected[e.ID] {
		return nil
	}
	return e
}

func (w *c10World) maxDuration() int64 { // number of stake units that still fit in the case's span
	_, now := w.frontier()
	left := c10Genesis + w.cfg.MaxSpan - now
	k := left / w.cfg.StakeUnit
	if k > 12 {
		k = 12
	}
	return k
}

func (w *c10World) actStake(build bool) {
	a := w.pick(w.actors)
	k := w.maxDuration()
	if k < 1 {
		k = 1
	}
	dur := (1 + w.rng.Int63n(k)) * w.cfg.StakeUnit
	if w.chance(0.6) {
		dur = w.cfg.StakeUnit
	}
	amt := w.units(1, 30)
	if w.chance(0.3) {
		amt.Add(amt, big.NewInt(w.rng.Int63n(c10Zexp)))
	}
	if w.bal(a.Addr, types.ZnnTokenStandard).Cmp(amt) < 0 {
		return
	}
	w.send(a, types.StakeContract, w.wrongToken(a, types.ZnnTokenStandard, amt), amt, definition.ABIStake.PackMethodPanic(definition.StakeMethodName, dur), fmt.Sprintf("Stake(%d)", dur), "")
}

func (w *c10World) actLiqStake() {
	if len(w.liqTokens) == 0 && !w.chance(0.2) {
		return
	}
	a := w.pick(w.actors)
	var z types.ZenonTokenStandard
	switch {
	case len(w.liqTokens) > 0 && w.chance(0.85):
		z = w.liqTokens[w.rng.Intn(len(w.liqTokens))]
	case w.chance(0.5):
		z = types.QsrTokenStandard // not a liquidity token: failed call with refund
	default:
		z = types.ZnnTokenStandard
	}
	amt := big.NewInt(500 + w.rng.Int63n(5000000))
	if w.cfg.LiqNative && z == types.QsrTokenStandard && len(w.liqTokens) > 0 {
		amt = w.units(1, 100)
	}
	if w.bal(a.Addr, z).Cmp(amt) < 0 {
		return
	}
	k := w.maxDuration()
	if k < 1 {
		k = 1
	}
	dur := (1 + w.rng.Int63n(k)) * w.cfg.StakeUnit
	w.send(a, types.LiquidityContract, z, amt, definition.ABILiquidity.PackMethodPanic(definition.LiquidityStakeMethodName, dur), fmt.Sprintf("LiquidityStake(%d)", dur), "")
}

// wrongToken: now and then a deposit call carries the other coin in the same, valid-looking amount. Decided by its own
// PRNG so that the histories stay what they were.
func (w *c10World) wrongToken(a *c10Actor, z types.ZenonTokenStandard, amt *big.Int) types.ZenonTokenStandard {
	if w.hrng == nil {
		w.hrng = rand.New(rand.NewSource(fw.SeedFor(w.c.Seed, "c10-hostile-deposits/"+w.id)))
	}
	if w.hrng.Intn(7) != 0 {
		return z
	}
	o := types.ZnnTokenStandard
	if z == types.ZnnTokenStandard {
		o = types.QsrTokenStandard
	}
	if w.bal(a.Addr, o).Cmp(amt) < 0 {
		return z
	}
	w.c.Count("deposits_attempted_in_the_wrong_token", 1)
	return o
}

// shortAmount: now and then a registration carries less than the collateral it will be booked with (own PRNG).
func (w *c10World) shortAmount(full *big.Int) *big.Int {
	if w.hrng == nil {
		w.hrng = rand.New(rand.NewSource(fw.SeedFor(w.c.Seed, "c10-hostile-deposits/"+w.id)))
	}
	if w.hrng.Intn(4) != 0 {
		return full
	}
	w.c.Count("registrations_attempted_with_a_short_amount", 1)
	switch w.hrng.Intn(4) {
	case 0:
		return new(big.Int).Sub(full, big.NewInt(1))
	case 1:
		return big.NewInt(1)
	case 2:
		return new(big.Int).Rsh(full, 1)
	}
	return new(big.Int)
}

func (w *c10World) actFuse() {
	a := w.pick(w.actors)
	ben := a
	if w.chance(0.6) {
		ben = w.pick(w.actors)
	}
	amt := w.units(10, 120)
	if w.bal(a.Addr, types.QsrTokenStandard).Cmp(amt) < 0 {
		return
	}
	benAddr, benName := ben.Addr, ben.Name
	if w.hrng == nil {
		w.hrng = rand.New(rand.NewSource(fw.SeedFor(w.c.Seed, "c10-hostile-deposits/"+w.id)))
	}
	if w.hrng.Intn(8) == 0 {
		// plasma for somebody who needs none: an embedded contract, the zero address, the sender's own contract call target
		benAddr = []types.Address{types.PillarContract, types.PlasmaContract, types.TokenContract, types.ZeroAddress}[w.hrng.Intn(4)]
		benName = "embedded:" + benAddr.String()[:12]
		w.c.Count("fusions_for_an_embedded_or_zero_beneficiary", 1)
	}
	w.send(a, types.PlasmaContract, w.wrongToken(a, types.QsrTokenStandard, amt), amt, definition.ABIPlasma.PackMethodPanic(definition.FuseMethodName, benAddr), "Fuse("+benName+")", "")
}

func (w *c10World) actHtlcCreate() {
	a := w.pick(w.actors)
	hl := w.other(a.Addr)
	if w.chance(0.05) {
		hl = a
	}
	_, now := w.frontier()
	var slots int64
	switch {
	case w.chance(0.08):
		slots = -w.rng.Int63n(3) // already expired at the next momentum: failed call, refund
	case w.cfg.Mode == "prod" && w.chance(0.3) && c10Genesis+w.cfg.MaxSpan-now > 3*c10Day:
		slots = 1 + w.rng.Int63n((c10Genesis+w.cfg.MaxSpan-now-c10Day)/10)
	default:
		slots = 3 + w.rng.Int63n(70)
	}
	exp := now + 10 + slots*10 + []int64{0, 0, 3, 7}[w.rng.Intn(4)]
	if slots <= 0 {
		exp = now + 10 + slots*10
	}
	pre := make([]byte, 1+w.rng.Intn(48))
	w.rng.Read(pre)
	hashType := uint8(w.rng.Intn(2))
	keyMax := uint8(len(pre) + w.rng.Intn(10))
	if w.chance(0.12) && len(pre) > 1 {
		keyMax = uint8(w.rng.Intn(len(pre))) // correct hash but oversized preimage: only reclaim can release
	}
	var lock []byte
	if (hashType == 0) != w.chance(0.07) { // occasionally the digest of the other function
		lock = c10Sha3(pre)
	} else {
		lock = c10Sha256(pre)
	}
	if w.hrng == nil {
		w.hrng = rand.New(rand.NewSource(fw.SeedFor(w.c.Seed, "c10-hostile-deposits/"+w.id)))
	}
	if w.hrng.Intn(6) == 0 {
		// lock shapes nobody can open honestly: unknown hash functions, digests of the wrong length, no digest at all
		hashType = []uint8{2, 7, 255, hashType, hashType}[w.hrng.Intn(5)]
		lock = [][]byte{{}, lock[:31], append(append([]byte{}, lock...), 0), {0}, lock}[w.hrng.Intn(5)]
		w.c.Count("htlc_creates_with_hostile_lock_shapes", 1)
	}
	z := types.ZnnTokenStandard
	switch r := w.rng.Intn(10); {
	case r < 3:
		z = types.QsrTokenStandard
	case r < 6 && len(w.tokens) > 0:
		z = w.tokens[w.rng.Intn(len(w.tokens))]
	}
	amt := big.NewInt(1 + w.rng.Int63n(20*c10Zexp))
	if w.bal(a.Addr, z).Cmp(amt) < 0 {
		return
	}
	b := w.send(a, types.HtlcContract, z, amt, definition.ABIHtlc.PackMethodPanic(definition.CreateHtlcMethodName, hl.Addr, exp, hashType, keyMax, lock),
		fmt.Sprintf("Create(hashlocked=%s,exp=+%d,type=%d,keymax=%d,prelen=%d)", hl.Name, exp-c10Genesis, hashType, keyMax, len(pre)), "")
	if b != nil {
		w.preimages[b.Hash] = pre
	}
}

func (w *c10World) actRandomWithdraw() {
	switch w.rng.Intn(7) {
	case 0:
		if e := w.anyEntry("stake"); e != nil {
			a := w.byAddr[e.Owner]
			if w.chance(0.3) {
				a = w.pick(w.actors)
			}
			w.cancelStake(a, e, "stake.cancel random")
		}
	case 1:
		if e := w.anyEntry("fusion"); e != nil {
			if w.protected[e.ID] {
				return
			}
			a := w.byAddr[e.Owner]
			if w.chance(0.3) {
				a = w.pick(w.actors)
			}
			w.cancelFuse(a, e, "fusion.cancel random")
		}
	case 2:
		if e := w.anyEntry("htlc"); e != nil {
			a := w.pick(w.actors)
			if w.chance(0.5) {
				a = w.byAddr[e.Beneficiary]
			}
			pre := e.Preimage
			if w.chance(0.3) {
				pre = w.wrongPreimage(e)
			}
			if a != nil {
				w.unlockHtlc(a, e, pre, "htlc.unlock random")
			}
		}
	case 3:
		if e := w.anyEntry("htlc"); e != nil {
			a := w.byAddr[e.Owner]
			if w.chance(0.3) {
				a = w.pick(w.actors)
			}
			w.reclaimHtlc(a, e, "htlc.reclaim random")
		}
	case 4:
		if e := w.anyEntry("liq"); e != nil {
			a := w.byAddr[e.Owner]
			if w.chance(0.3) {
				a = w.pick(w.actors)
			}
			w.cancelStake(a, e, "liq.cancel random")
		}
	case 5:
		if e := w.anyEntry("sentinel"); e != nil {
			w.revokeSentinel(w.byAddr[e.Owner], "sentinel.revoke random")
		} else {
			w.revokeSentinel(w.pick(w.actors), "sentinel.revoke no-entry")
		}
	case 6:
		if e := w.anyEntry("pillar"); e != nil && e.ID != g.Pillar1Name && e.ID != g.Pillar2Name {
			a := w.byAddr[e.Owner]
			if w.chance(0.4) {
				a = w.pick(w.actors)
			}
			w.revokePillar(a, e, "pillar.revoke random")
		}
	}
}

func (w *c10World) actProxy() {
	w.setProxy(w.pick(w.actors), w.chance(0.4))
}

func (w *c10World) actQsr() {
	contract := types.SentinelContract
	abiC := definition.ABISentinel
	if w.chance(0.4) {
		contract, abiC = types.PillarContract, definition.ABIPillars
	}
	a := w.pick(w.actors)
	switch w.rng.Intn(4) {
	case 0, 1:
		amt := w.units(1, 3000)
		if w.chance(0.3) {
			amt.Add(amt, big.NewInt(w.rng.Int63n(c10Zexp)))
		}
		if w.bal(a.Addr, types.QsrTokenStandard).Cmp(amt) < 0 {
			return
		}
		w.send(a, contract, w.wrongToken(a, types.QsrTokenStandard, amt), amt, abiC.PackMethodPanic(definition.DepositQsrMethodName), "DepositQsr", "")
	case 2:
		// a depositor withdraws (sometimes twice in one momentum)
		var owners []*c10Actor
		for _, ac := range w.actors {
			if v := w.qsr[contract][ac.Addr]; v != nil && v.Sign() > 0 {
				owners = append(owners, ac)
			}
		}
		if len(owners) > 0 {
			a = w.pick(owners)
		}
		w.send(a, contract, types.ZnnTokenStandard, nil, abiC.PackMethodPanic(definition.WithdrawQsrMethodName), "WithdrawQsr", "qsr.withdraw owner")
		if w.chance(0.4) {
			w.send(a, contract, types.ZnnTokenStandard, nil, abiC.PackMethodPanic(definition.WithdrawQsrMethodName), "WithdrawQsr", "qsr.withdraw owner-repeat")
		}
	case 3:
		w.send(a, contract, types.ZnnTokenStandard, nil, abiC.PackMethodPanic(definition.WithdrawQsrMethodName), "WithdrawQsr", "qsr.withdraw random")
	}
}

func (w *c10World) actSentinel() {
	var cands []*c10Actor
	for _, a := range w.actors {
		if w.entries["sentinel|"+a.Addr.String()] == nil && w.bal(a.Addr, types.ZnnTokenStandard).Cmp(c10SentinelZnn) >= 0 {
			cands = append(cands, a)
		}
	}
	if len(cands) == 0 || w.chance(0.1) {
		cands = w.actors // failed registrations: refund path
	}
	a := w.pick(cands)
	dep := w.qsr[types.SentinelContract][a.Addr]
	if (dep == nil || dep.Cmp(c10SentinelQsr) < 0) && !w.chance(0.15) {
		need := new(big.Int).Set(c10SentinelQsr)
		if dep != nil {
			need.Sub(need, dep)
		}
		if w.chance(0.2) {
			need.Add(need, w.units(1, 500)) // over-deposit: the rest stays withdrawable
		}
		if w.bal(a.Addr, types.QsrTokenStandard).Cmp(need) < 0 {
			return
		}
		w.send(a, types.SentinelContract, types.QsrTokenStandard, need, definition.ABISentinel.PackMethodPanic(definition.DepositQsrMethodName), "DepositQsr", "")
		return
	}
	if w.bal(a.Addr, types.ZnnTokenStandard).Cmp(c10SentinelZnn) < 0 {
		return
	}
	w.send(a, types.SentinelContract, types.ZnnTokenStandard, w.shortAmount(c10SentinelZnn), definition.ABISentinel.PackMethodPanic(definition.RegisterSentinelMethodName), "Register()", "")
}

func (w *c10World) actPillar() {
	var cands []*c10Actor
	for _, a := range w.actors {
		if w.bal(a.Addr, types.ZnnTokenStandard).Cmp(c10PillarZnn) >= 0 {
			cands = append(cands, a)
		}
	}
	if len(cands) == 0 {
		return
	}
	a := w.pick(cands)
	active := int64(0)
	for _, e := range w.list["pillar"] {
		if !e.Paid && e.Born > 1 {
			active++
		}
	}
	cost := new(big.Int).Mul(big.NewInt(150000+10000*active), big.NewInt(c10Zexp))
	dep := w.qsr[types.PillarContract][a.Addr]
	if (dep == nil || dep.Cmp(cost) < 0) && !w.chance(0.15) {
		need := new(big.Int).Set(cost)
		if dep != nil {
			need.Sub(need, dep)
		}
		if w.chance(0.3) {
			need.Add(need, w.units(1, 2000))
		}
		if w.bal(a.Addr, types.QsrTokenStandard).Cmp(need) < 0 {
			return
		}
		w.send(a, types.PillarContract, types.QsrTokenStandard, need, definition.ABIPillars.PackMethodPanic(definition.DepositQsrMethodName), "DepositQsr", "")
		return
	}
	// producer address: an owned key not used as producer yet
	var prod *c10Actor
	for _, p := range w.actors {
		if !w.usedProd[p.Addr] {
			prod = p
			break
		}
	}
	if prod == nil {
		return
	}
	w.pilNames++
	name := fmt.Sprintf("c10-pillar-%d", w.pilNames)
	if w.chance(0.08) {
		name = g.Pillar1Name // taken: failed call, refund
	}
	b := w.send(a, types.PillarContract, types.ZnnTokenStandard, w.shortAmount(c10PillarZnn),
		definition.ABIPillars.PackMethodPanic(definition.RegisterMethodName, name, prod.Addr, a.Addr, uint8(w.rng.Intn(101)), uint8(w.rng.Intn(101))), "Register("+name+",producer="+prod.Name+")", "")
	if b != nil && name != g.Pillar1Name {
		w.usedProd[prod.Addr] = true
	}
}

func (w *c10World) actCollect() {
	a := w.pick(w.actors)
	switch w.rng.Intn(4) {
	case 0:
		w.send(a, types.StakeContract, types.ZnnTokenStandard, nil, definition.ABIStake.PackMethodPanic(definition.CollectRewardMethodName), "CollectReward", "")
	case 1:
		w.send(a, types.PillarContract, types.ZnnTokenStandard, nil, definition.ABIPillars.PackMethodPanic(definition.CollectRewardMethodName), "CollectReward", "")
	case 2:
		w.send(a, types.SentinelContract, types.ZnnTokenStandard, nil, definition.ABISentinel.PackMethodPanic(definition.CollectRewardMethodName), "CollectReward", "")
	case 3:
		w.send(a, types.LiquidityContract, types.ZnnTokenStandard, nil, definition.ABILiquidity.PackMethodPanic(definition.CollectRewardMethodName), "CollectReward", "")
	}
}

func (w *c10World) actMisc() {
	a := w.pick(w.actors)
	switch w.rng.Intn(4) {
	case 0:
		w.send(a, types.PillarContract, types.ZnnTokenStandard, nil, definition.ABIPillars.PackMethodPanic(definition.DelegateMethodName, []string{g.Pillar1Name, g.Pillar2Name, g.Pillar3Name}[w.rng.Intn(3)]), "Delegate", "")
	case 1:
		w.send(a, types.PillarContract, types.ZnnTokenStandard, nil, definition.ABIPillars.PackMethodPanic(definition.UndelegateMethodName), "Undelegate", "")
	case 2:
		amt := big.NewInt(1 + w.rng.Int63n(c10Zexp))
		if w.bal(a.Addr, types.QsrTokenStandard).Cmp(amt) >= 0 {
			w.send(a, types.LiquidityContract, types.QsrTokenStandard, amt, definition.ABILiquidity.PackMethodPanic(definition.DonateMethodName), "Donate", "")
		}
	case 3:
		if w.cfg.Liquidity && len(w.liqTokens) > 0 && w.chance(0.35) {
			// treasury operation of the spork address: move part of the contract's ZNN / QSR to the accelerator
			spork := w.byAddr[g.Spork.Address]
			znn := w.bal(types.LiquidityContract, types.ZnnTokenStandard)
			qsr := w.bal(types.LiquidityContract, types.QsrTokenStandard)
			if znn.Sign() == 0 || qsr.Sign() == 0 {
				return // Fund forwards both amounts and a zero donation is refused
			}
			znn.Mul(znn, big.NewInt(int64(1+w.rng.Intn(60)))).Div(znn, big.NewInt(100)).Add(znn, big.NewInt(1))
			qsr.Mul(qsr, big.NewInt(int64(40+w.rng.Intn(60)))).Div(qsr, big.NewInt(100)).Add(qsr, big.NewInt(1))
			w.send(spork, types.LiquidityContract, types.ZnnTokenStandard, nil, definition.ABILiquidity.PackMethodPanic(definition.FundMethodName, znn, qsr), fmt.Sprintf("Fund(%s,%s)", znn, qsr), "")
			return
		}
		if w.cfg.Liquidity && len(w.liqTokens) > 0 && w.chance(0.3) {
			admin := w.byAddr[g.User5.Address]
			if w.chance(0.3) {
				admin = a // not the administrator: permission denied
			}
			z := w.liqTokens[w.rng.Intn(len(w.liqTokens))]
			w.send(admin, types.LiquidityContract, z, nil, definition.ABILiquidity.PackMethodPanic(definition.UnlockLiquidityStakeEntriesMethodName), "UnlockLiquidityStakeEntries", "")
		}
	}
}

func (w *c10World) randomAction(build bool) {
	r := w.rng.Intn(100)
	if build {
		switch {
		case r < 18:
			w.actStake(true)
		case r < 36:
			w.actFuse()
		case r < 58:
			w.actHtlcCreate()
		case r < 68:
			w.actSentinel()
		case r < 76:
			w.actPillar()
		case r < 84:
			w.actQsr()
		case r < 92:
			w.actLiqStake()
		case r < 96:
			w.actProxy()
		default:
			w.actRandomWithdraw()
		}
		return
	}
	switch {
	case r < 8:
		w.actStake(false)
	case r < 16:
		w.actFuse()
	case r < 30:
		w.actHtlcCreate()
	case r < 36:
		w.actSentinel()
	case r < 40:
		w.actPillar()
	case r < 50:
		w.actQsr()
	case r < 56:
		w.actLiqStake()
	case r < 60:
		w.actProxy()
	case r < 82:
		w.actRandomWithdraw()
	case r < 92:
		w.actCollect()
	default:
		w.actMisc()
	}
}

// ---------------------------------------------------------------------------
// bridge: the harness plays the administrator, the TSS signer (its own secp256k1 key), wrappers, relayers and attackers.
// Oracle knowledge kept here: the token pairs the administrator sets (never changed afterwards) and the exact parameter
// tuples the TSS key signed. Everything else (signatures, call data, who sends what when) is workload.

const c10BrMintMark = "mint-request"

type c10BrPair struct {
	Class, Chain uint32
	Zts          types.ZenonTokenStandard
	Addr         string // lower-case token address on the foreign network
	Owned        bool
	Delay        uint32
	Min          *big.Int
	Fee          uint32
	ActiveAt     uint64 // workload: height from which the pair should be usable (0 = not yet)
}

type c10BrSigned struct {
	P    definition.UnwrapTokenParam // with the TSS signature
	Pair *c10BrPair
	Key  string
	Sent int
}

type c10BrStep struct {
	Gap uint64
	Fn  func() bool
}

type c10BrChain struct {
	steps []c10BrStep
	next  uint64
	i     int
}

type c10Bridge struct {
	rng      *rand.Rand
	tss      *ecdsa.PrivateKey
	rogue    *ecdsa.PrivateKey
	pub      string
	nets     [2][2]uint32 // (class, chain id)
	pairs    []*c10BrPair
	ownedZts types.ZenonTokenStandard
	owned    map[types.ZenonTokenStandard]bool
	chains   []*c10BrChain
	ready    bool
	failed   bool

	signed      []*c10BrSigned
	byKey       map[string]*c10BrSigned
	tuples      map[string]bool // oracle: what the TSS key signed
	signedTotal c10Sums         // per token the bridge does not own
	wrapped     c10Sums         // net amount of the accepted wraps, per token the bridge does not own (from judged receives)
}

func c10BrKey(tx types.Hash, logIndex uint32) string { return fmt.Sprintf("%s/%d", tx, logIndex) }

func c10BrTuple(p *definition.UnwrapTokenParam) string {
	return fmt.Sprintf("%d|%d|%s|%d|%s|%s|%s", p.NetworkClass, p.ChainId, p.TransactionHash, p.LogIndex, p.ToAddress, strings.ToLower(p.TokenAddress), p.Amount)
}

// c10BrMintRequest turns a zero-amount Mint call to the token contract into a pseudo send (receiver, token, amount).
func c10BrMintRequest(d *nom.AccountBlock) *nom.AccountBlock {
	if d.ToAddress != types.TokenContract || len(d.Data) < 4 {
		return nil
	}
	m, err := definition.ABIToken.MethodById(d.Data)
	if err != nil || m.Name != definition.MintMethodName {
		return nil
	}
	p := new(definition.MintParam)
	if definition.ABIToken.UnpackMethod(p, m.Name, d.Data) != nil || p.Amount == nil {
		return nil
	}
	return &nom.AccountBlock{BlockType: d.BlockType, Address: d.Address, ToAddress: p.ReceiveAddress, Amount: new(big.Int).Set(p.Amount),
		TokenStandard: p.TokenStandard, Data: []byte(c10BrMintMark), Height: d.Height, Hash: d.Hash}
}

func (w *c10World) brPairByZts(class, chain uint32, z types.ZenonTokenStandard) *c10BrPair {
	if w.br == nil {
		return nil
	}
	for _, p := range w.br.pairs {
		if p.Class == class && p.Chain == chain && p.Zts == z {
			return p
		}
	}
	return nil
}

func (w *c10World) brPairByAddr(class, chain uint32, addr string) *c10BrPair {
	if w.br == nil {
		return nil
	}
	addr = strings.ToLower(addr)
	for _, p := range w.br.pairs {
		if p.Class == class && p.Chain == chain && p.Addr == addr {
			return p
		}
	}
	return nil
}

func c10BrNewKey(r *rand.Rand) *ecdsa.PrivateKey {
	for {
		b := make([]byte, 32)
		r.Read(b)
		if k, err := ethcrypto.ToECDSA(b); err == nil {
			return k
		}
	}
}

func c10BrSign(key *ecdsa.PrivateKey, p *definition.UnwrapTokenParam) string {
	msg, err := implementation.GetUnwrapTokenRequestMessage(p)
	if err != nil {
		return ""
	}
	sig, err := ethcrypto.Sign(msg, key)
	if err != nil {
		return ""
	}
	return base64.StdEncoding.EncodeToString(sig)
}

func (w *c10World) brHexAddr() string {
	b := make([]byte, 20)
	w.br.rng.Read(b)
	return "0x" + hex.EncodeToString(b)
}

// bridgeInit issues the token the bridge will own, hands it over, and lays out the administrator's setup calls.
func (w *c10World) bridgeInit() {
	r := rand.New(rand.NewSource(fw.SeedFor(w.c.Seed, "c10-bridge/"+w.id)))
	br := &c10Bridge{rng: r, owned: map[types.ZenonTokenStandard]bool{}, byKey: map[string]*c10BrSigned{}, tuples: map[string]bool{},
		signedTotal: c10Sums{}, wrapped: c10Sums{}}
	br.tss, br.rogue = c10BrNewKey(r), c10BrNewKey(r)
	br.pub = base64.StdEncoding.EncodeToString(ethcrypto.CompressPubkey(&br.tss.PublicKey))
	w.br = br
	u1, admin := w.byAddr[g.User1.Address], w.byAddr[g.User5.Address]

	if !w.must(w.send(u1, types.TokenContract, types.ZnnTokenStandard, big.NewInt(1*c10Zexp), definition.ABIToken.PackMethodPanic(definition.IssueMethodName,
		"c10-bridge-token", "CBRT", "", big.NewInt(1000000*c10Zexp), big.NewInt(4000000*c10Zexp), uint8(8), true, true, false), "IssueToken", ""), "issue bridge token") {
		return
	}
	w.produce(3)
	w.receiveInbox(8)
	w.produce(1)
	bm, _ := w.n.Chain.GetFrontierAccountStore(u1.Addr).GetBalanceMap()
	var found []types.ZenonTokenStandard
	for z := range bm {
		if z != types.ZnnTokenStandard && z != types.QsrTokenStandard && z != w.tokens[0] && z != w.tokens[1] && bm[z].Sign() > 0 {
			found = append(found, z)
		}
	}
	if len(found) != 1 {
		w.c.Inconclusive(fmt.Sprintf("expected 1 new token for the bridge, found %d", len(found)))
		w.dead = true
		return
	}
	br.ownedZts = found[0]
	br.owned[br.ownedZts] = true
	for _, kp := range []*wallet.KeyPair{g.User2, g.User3, g.User6, g.User7, g.User8} {
		w.must(w.send(u1, kp.Address, br.ownedZts, big.NewInt(100000*c10Zexp), nil, "transfer bridge token", ""), "spread bridge token")
	}
	w.must(w.send(u1, types.TokenContract, types.ZnnTokenStandard, nil, definition.ABIToken.PackMethodPanic(definition.UpdateTokenMethodName, br.ownedZts, types.BridgeContract, true, true), "UpdateToken(owner=bridge)", ""), "hand the token to the bridge")
	w.produce(2)
	w.receiveInbox(8)
	w.produce(1)

	// two foreign networks with hostile-small chain ids (they collide with log indices), classes NoM / EVM
	ids := []uint32{1, 2, 3, 5, 56, 123, 31337}
	br.nets[0] = [2]uint32{definition.EvmClass, ids[r.Intn(len(ids))]}
	br.nets[1] = [2]uint32{[]uint32{definition.NoMClass, definition.EvmClass}[r.Intn(2)], ids[r.Intn(len(ids))]}
	if br.nets[1] == br.nets[0] {
		br.nets[1][1]++
	}
	delays := []uint32{2, 3, 5, 8, 12}
	mins := []int64{1, 100, c10Zexp}
	fees := []uint32{0, 15, 100, 300}
	mk := func(net int, z types.ZenonTokenStandard, owned bool) *c10BrPair {
		return &c10BrPair{Class: br.nets[net][0], Chain: br.nets[net][1], Zts: z, Addr: w.brHexAddr(), Owned: owned,
			Delay: delays[r.Intn(len(delays))], Min: big.NewInt(mins[r.Intn(len(mins))]), Fee: fees[r.Intn(len(fees))]}
	}
	br.pairs = []*c10BrPair{mk(0, types.ZnnTokenStandard, false), mk(0, br.ownedZts, true), mk(1, types.QsrTokenStandard, false)}
	if r.Intn(2) == 0 {
		br.pairs = append(br.pairs, mk(1, types.ZnnTokenStandard, false))
	} else {
		br.pairs = append(br.pairs, mk(1, br.ownedZts, true))
	}

	call := func(desc string, data []byte) bool {
		return w.send(admin, types.BridgeContract, types.ZnnTokenStandard, nil, data, desc, "") != nil
	}
	guardians := []types.Address{g.User1.Address, g.User2.Address, g.User3.Address, g.User4.Address, g.User6.Address}
	nominate := func() bool {
		return call("NominateGuardians", definition.ABIBridge.PackMethodPanic(definition.NominateGuardiansMethodName, guardians))
	}
	tss := func() bool {
		return call("ChangeTssECDSAPubKey", definition.ABIBridge.PackMethodPanic(definition.ChangeTssECDSAPubKeyMethodName, br.pub, "", ""))
	}
	// the administrator's challenges: guardians (administrator delay), then the TSS key (soft delay) ...
	sec := &c10BrChain{steps: []c10BrStep{{24, nominate}, {3, nominate}, {13, tss}, {3, tss}, {0, func() bool {
		info, err := definition.GetBridgeInfoVariable(w.n.Chain.GetFrontierAccountStore(types.BridgeContract).Storage())
		if err == nil && info.CompressedTssECDSAPubKey == br.pub {
			br.ready = true
			w.c.Count("bridge_ready", 1)
		} else {
			br.failed = true
			w.c.Count("bridge_setup_failed", 1)
		}
		return true
	}}}}
	// ... meanwhile orchestrator, networks and, one after the other (one challenge per method), the token pairs
	cfgc := &c10BrChain{steps: []c10BrStep{{2, func() bool {
		ok := call("SetOrchestratorInfo", definition.ABIBridge.PackMethodPanic(definition.SetOrchestratorInfoMethodName, uint64(6), uint32(3), uint32(15), uint32(10)))
		for i, nt := range br.nets {
			ok = call("SetNetwork", definition.ABIBridge.PackMethodPanic(definition.SetNetworkMethodName, nt[0], nt[1], fmt.Sprintf("c10-net-%d", i), w.brHexAddr(), "{}")) && ok
		}
		return ok
	}}}}
	for _, p := range br.pairs {
		p := p
		set := func() bool {
			return call(fmt.Sprintf("SetTokenPair(class=%d,chain=%d,%s,owned=%v,delay=%d)", p.Class, p.Chain, c10TokenClass(p.Zts), p.Owned, p.Delay),
				definition.ABIBridge.PackMethodPanic(definition.SetTokenPairMethod, p.Class, p.Chain, p.Zts, p.Addr, true, true, p.Owned, p.Min, p.Fee, p.Delay, "{}"))
		}
		cfgc.steps = append(cfgc.steps, c10BrStep{13, set}, c10BrStep{2, func() bool {
			if !set() {
				return false
			}
			h, _ := w.frontier()
			p.ActiveAt = h + 2
			return true
		}})
	}
	br.chains = []*c10BrChain{sec, cfgc}
}

// bridgeTick advances the administrator's setup: a step is sent once the gap after the previous one has passed.
func (w *c10World) bridgeTick() {
	h, _ := w.frontier()
	for _, ch := range w.br.chains {
		for ch.i < len(ch.steps) && h >= ch.next {
			st := ch.steps[ch.i]
			if !st.Fn() {
				break // rejected (plasma): tried again at the next momentum
			}
			ch.i++
			ch.next = h + st.Gap
			if st.Gap > 0 {
				break
			}
		}
	}
}

func (w *c10World) brActivePairs(owned int) []*c10BrPair { // owned: -1 any, 0 not owned, 1 owned
	h, _ := w.frontier()
	var l []*c10BrPair
	for _, p := range w.br.pairs {
		if p.ActiveAt != 0 && h >= p.ActiveAt && (owned < 0 || (owned == 1) == p.Owned) {
			l = append(l, p)
		}
	}
	return l
}

func (w *c10World) brActor() *c10Actor { return w.actors[w.br.rng.Intn(len(w.actors))] }

func (w *c10World) brWrap() {
	r := w.br.rng
	a := w.brActor()
	p := w.br.pairs[r.Intn(len(w.br.pairs))]
	if act := w.brActivePairs(-1); len(act) > 0 && r.Intn(10) != 0 {
		p = act[r.Intn(len(act))]
	}
	z, class, chain := p.Zts, p.Class, p.Chain
	var amt *big.Int
	switch k := r.Intn(20); {
	case k == 0: // below the pair's minimum (refused unless the minimum is 1)
		amt = new(big.Int).Sub(p.Min, big.NewInt(1))
		if amt.Sign() <= 0 {
			amt = big.NewInt(1)
		}
	case k < 5:
		amt = new(big.Int).Add(p.Min, big.NewInt(r.Int63n(1000)))
	default:
		amt = new(big.Int).Mul(big.NewInt(1+r.Int63n(60)), big.NewInt(c10Zexp))
		if r.Intn(3) == 0 {
			amt.Add(amt, big.NewInt(r.Int63n(c10Zexp)))
		}
	}
	switch r.Intn(16) {
	case 0:
		chain += 1000 // no such network: refund
	case 1:
		z = w.tokens[r.Intn(len(w.tokens))] // no pair for this token: refund
	}
	if w.bal(a.Addr, z).Cmp(amt) < 0 {
		return
	}
	to := w.brHexAddr()
	if r.Intn(12) == 0 {
		to = strings.ToUpper(to[2:]) // no 0x prefix, upper case
	}
	w.send(a, types.BridgeContract, z, amt, definition.ABIBridge.PackMethodPanic(definition.WrapTokenMethodName, class, chain, to),
		fmt.Sprintf("WrapToken(class=%d,chain=%d)", class, chain), "bridge.wrap")
}

func (w *c10World) brLogIndex(p *c10BrPair) uint32 {
	r := w.br.rng
	switch r.Intn(10) {
	case 0, 1:
		return p.Chain // equal to the chain id of its own network
	case 2:
		return w.br.nets[r.Intn(2)][1]
	case 3:
		return r.Uint32()
	case 4:
		return ^uint32(0)
	}
	return uint32(r.Intn(5))
}

// brSendUnwrap sends an UnwrapToken call; followUp plans Redeem attempts after the pair's delay has passed again.
func (w *c10World) brSendUnwrap(a *c10Actor, p *definition.UnwrapTokenParam, pair *c10BrPair, hint string, followUp bool) {
	data, err := definition.ABIBridge.PackMethod(definition.UnwrapTokenMethodName, p.NetworkClass, p.ChainId, p.TransactionHash, p.LogIndex, p.ToAddress, p.TokenAddress, p.Amount, p.Signature)
	if err != nil {
		return
	}
	b := w.send(a, types.BridgeContract, types.ZnnTokenStandard, nil, data,
		fmt.Sprintf("UnwrapToken(%s/%d,class=%d,chain=%d,to=%s,amount=%s)", p.TransactionHash.String()[:8], p.LogIndex, p.NetworkClass, p.ChainId, w.name(p.ToAddress), p.Amount), hint)
	if b == nil || !followUp {
		return
	}
	r := w.br.rng
	h, _ := w.frontier()
	delay := uint64(3)
	if pair != nil {
		delay = uint64(pair.Delay)
	}
	tx, li, to := p.TransactionHash, p.LogIndex, w.byAddr[p.ToAddress]
	for _, off := range []uint64{1, 2, 4} {
		if r.Intn(2) == 0 {
			continue
		}
		w.atHeight(h+delay+off, "bridge follow-up", func() {
			a := w.brActor()
			if to != nil && r.Intn(2) == 0 {
				a = to
			}
			w.brRedeem(a, tx, li, "bridge.redeem after-"+hint)
		})
	}
}

func (w *c10World) brRedeem(a *c10Actor, tx types.Hash, logIndex uint32, hint string) {
	w.send(a, types.BridgeContract, types.ZnnTokenStandard, nil, definition.ABIBridge.PackMethodPanic(definition.RedeemUnwrapMethodName, tx, logIndex),
		fmt.Sprintf("Redeem(%s/%d)", tx.String()[:8], logIndex), hint)
}

// brUnwrapNew: the TSS signs a new foreign event. For a token the bridge does not own it never signs more than was
// wrapped (net) and not yet signed away, like a foreign network on which only wrapped tokens can be burned.
func (w *c10World) brUnwrapNew() {
	br, r := w.br, w.br.rng
	act := w.brActivePairs(-1)
	if len(act) == 0 {
		return
	}
	pair := act[r.Intn(len(act))]
	var amt *big.Int
	if pair.Owned {
		amt = big.NewInt(1 + r.Int63n(500*c10Zexp))
	} else {
		avail := new(big.Int)
		if v := br.wrapped[pair.Zts]; v != nil {
			avail.Set(v)
		}
		if v := br.signedTotal[pair.Zts]; v != nil {
			avail.Sub(avail, v)
		}
		if avail.Sign() <= 0 {
			return
		}
		amt = new(big.Int).Rand(r, avail)
		amt.Add(amt, big.NewInt(1))
		if r.Intn(3) != 0 { // mostly a part, so that several requests compete for the same funds
			amt.Rsh(amt, 1).Add(amt, big.NewInt(1))
		}
	}
	to := w.brActor().Addr
	if r.Intn(12) == 0 {
		b := make([]byte, types.AddressSize)
		r.Read(b)
		b[0] = types.UserAddrByte
		to, _ = types.BytesToAddress(b)
	}
	var tx types.Hash
	if len(br.signed) > 0 && r.Intn(10) < 3 {
		tx = br.signed[r.Intn(len(br.signed))].P.TransactionHash // another event of the same foreign transaction
	} else {
		r.Read(tx[:])
	}
	li := w.brLogIndex(pair)
	key := c10BrKey(tx, li)
	if br.byKey[key] != nil {
		return // one signature per foreign event
	}
	s := &c10BrSigned{Pair: pair, Key: key, P: definition.UnwrapTokenParam{NetworkClass: pair.Class, ChainId: pair.Chain, TransactionHash: tx, LogIndex: li,
		ToAddress: to, TokenAddress: pair.Addr, Amount: amt}}
	s.P.Signature = c10BrSign(br.tss, &s.P)
	if s.P.Signature == "" {
		return
	}
	br.signed = append(br.signed, s)
	br.byKey[key] = s
	br.tuples[c10BrTuple(&s.P)] = true
	if !pair.Owned {
		br.signedTotal.add(pair.Zts, amt)
	}
	w.c.Count("bridge_requests_signed", 1)
	if li == pair.Chain {
		w.c.SetAdd("bridge_log_index_vs_chain_id", "equal")
	} else {
		w.c.SetAdd("bridge_log_index_vs_chain_id", "different")
	}
	if r.Intn(7) == 0 {
		return // held back: somebody relays it later
	}
	s.Sent++
	w.brSendUnwrap(w.brActor(), &s.P, pair, "bridge.unwrap new", false)
}

func (w *c10World) brState(s *c10BrSigned) string {
	e := w.entries["unwrap|"+s.Key]
	switch {
	case e == nil:
		return "unregistered"
	case e.Revoked && e.Paid:
		return "redeemed+revoked"
	case e.Revoked:
		return "revoked"
	case e.Paid:
		return "redeemed"
	}
	return "pending"
}

func (w *c10World) brPickSigned(prefer ...string) *c10BrSigned {
	br, r := w.br, w.br.rng
	if len(br.signed) == 0 {
		return nil
	}
	if len(prefer) > 0 && r.Intn(10) < 7 {
		var l []*c10BrSigned
		for _, s := range br.signed {
			st := w.brState(s)
			for _, p := range prefer {
				if st == p {
					l = append(l, s)
				}
			}
		}
		if len(l) > 0 {
			return l[r.Intn(len(l))]
		}
	}
	return br.signed[r.Intn(len(br.signed))]
}

// brReplay sends an UnwrapToken call that was signed (and mostly sent) before, unchanged: the signature is public.
func (w *c10World) brReplay() {
	r := w.br.rng
	s := w.brPickSigned("redeemed", "revoked", "redeemed+revoked")
	if s == nil {
		return
	}
	st := w.brState(s)
	p := s.P
	if r.Intn(7) == 0 {
		p.TokenAddress = "0x" + strings.ToUpper(p.TokenAddress[2:]) // same address, same signed message
	}
	s.Sent++
	w.c.Count("bridge_replays_sent", 1)
	w.c.SetAdd("bridge_replay_of", st)
	w.brSendUnwrap(w.brActor(), &p, s.Pair, "bridge.unwrap replay-of-"+st, true)
}

// brForge sends UnwrapToken calls the TSS never signed: a signed request with one parameter changed, or a wrong signature.
func (w *c10World) brForge() {
	br, r := w.br, w.br.rng
	s := w.brPickSigned()
	if s == nil {
		return
	}
	p := s.P
	p.Amount = new(big.Int).Set(s.P.Amount)
	attacker := w.brActor()
	kind := ""
	pair := s.Pair
	switch r.Intn(11) {
	case 0:
		kind, p.ToAddress = "recipient", attacker.Addr
		if p.ToAddress == s.P.ToAddress {
			return
		}
	case 1:
		kind = "amount"
		p.Amount.Mul(p.Amount, big.NewInt(2))
	case 2:
		kind = "amount"
		p.Amount.Add(p.Amount, big.NewInt(1))
	case 3:
		kind = "log-index"
		p.LogIndex++
		if r.Intn(2) == 0 && p.LogIndex-1 != p.ChainId {
			p.LogIndex = p.ChainId
		}
	case 4:
		kind = "network"
		o := br.nets[0]
		if o[0] == p.NetworkClass && o[1] == p.ChainId {
			o = br.nets[1]
		}
		p.NetworkClass, p.ChainId = o[0], o[1]
	case 5:
		kind = "token"
		o := br.pairs[r.Intn(len(br.pairs))]
		if o == s.Pair || o.Class != p.NetworkClass || o.Chain != p.ChainId {
			return
		}
		p.TokenAddress, pair = o.Addr, o
	case 6:
		kind = "tx-hash"
		p.TransactionHash[r.Intn(32)] ^= byte(1 + r.Intn(255))
	case 7:
		kind = "rogue-key"
		r.Read(p.TransactionHash[:])
		p.ToAddress = attacker.Addr
		p.Signature = c10BrSign(br.rogue, &p)
	case 8:
		kind = "empty-signature"
		r.Read(p.TransactionHash[:])
		p.Signature = ""
	case 9:
		kind = "garbage-signature"
		r.Read(p.TransactionHash[:])
		b := make([]byte, 65)
		r.Read(b)
		b[64] = byte(r.Intn(2))
		p.Signature = base64.StdEncoding.EncodeToString(b)
	case 10:
		kind = "signed-for-other-class"
		r.Read(p.TransactionHash[:])
		q := p
		q.NetworkClass = 3 - p.NetworkClass
		p.Signature = c10BrSign(br.tss, &q)
	}
	if br.tuples[c10BrTuple(&p)] {
		return // happens to be something the TSS did sign
	}
	w.c.Count("bridge_forged_unwraps_sent", 1)
	w.c.SetAdd("bridge_forged", kind)
	w.brSendUnwrap(attacker, &p, pair, "bridge.unwrap forged-"+kind, true)
}

func (w *c10World) brRedeemRandom() {
	r := w.br.rng
	s := w.brPickSigned("pending", "pending", "redeemed")
	if s == nil {
		return
	}
	tx, li := s.P.TransactionHash, s.P.LogIndex
	if r.Intn(15) == 0 {
		li++ // mostly no such request
	}
	a := w.brActor()
	if to := w.byAddr[s.P.ToAddress]; to != nil && r.Intn(5) < 2 {
		a = to
	}
	w.brRedeem(a, tx, li, "bridge.redeem random")
	if r.Intn(4) == 0 {
		w.brRedeem(w.brActor(), tx, li, "bridge.redeem random-repeat")
	}
}

func (w *c10World) brRevoke() {
	r := w.br.rng
	s := w.brPickSigned("pending", "redeemed")
	if s == nil {
		return
	}
	a := w.byAddr[g.User5.Address]
	hint := "bridge.revoke admin"
	if r.Intn(4) == 0 {
		a, hint = w.brActor(), "bridge.revoke stranger"
	}
	tx, li := s.P.TransactionHash, s.P.LogIndex
	w.send(a, types.BridgeContract, types.ZnnTokenStandard, nil, definition.ABIBridge.PackMethodPanic(definition.RevokeUnwrapRequestMethodName, tx, li),
		fmt.Sprintf("RevokeUnwrapRequest(%s/%d)", tx.String()[:8], li), hint)
	// afterwards somebody relays the signed call again and tries to redeem
	h, _ := w.frontier()
	if r.Intn(3) != 0 {
		w.atHeight(h+2+uint64(r.Intn(3)), "bridge replay after revoke", func() {
			s.Sent++
			w.c.Count("bridge_replays_sent", 1)
			st := w.brState(s)
			w.c.SetAdd("bridge_replay_of", st)
			w.brSendUnwrap(w.brActor(), &s.P, s.Pair, "bridge.unwrap replay-of-"+st, true)
		})
	}
}

func (w *c10World) brAction() {
	switch k := w.br.rng.Intn(100); {
	case k < 22:
		w.brWrap()
	case k < 46:
		w.brUnwrapNew()
	case k < 64:
		w.brReplay()
	case k < 76:
		w.brForge()
	case k < 91:
		w.brRedeemRandom()
	default:
		w.brRevoke()
	}
}

// ---------------------------------------------------------------------------
// setup and main loop

func (w *c10World) must(b *nom.AccountBlock, what string) bool {
	if b == nil && !w.dead {
		w.c.Inconclusive("setup step rejected: " + what)
		w.dead = true
	}
	return b != nil
}

func (w *c10World) activateSporks() {
	spork := w.byAddr[g.Spork.Address]
	names := []string{"spork-accelerator", "spork-bridge-liquidity", "spork-htlc"}
	targets := []*types.ImplementedSpork{types.AcceleratorSpork, types.BridgeAndLiquiditySpork, types.HtlcSpork}
	var ids []types.Hash
	for _, nm := range names {
		b := w.send(spork, types.SporkContract, types.ZnnTokenStandard, nil, definition.ABISpork.PackMethodPanic(definition.SporkCreateMethodName, nm, "activated by the C10 harness"), "CreateSpork("+nm+")", "")
		if !w.must(b, "create spork") {
			return
		}
		ids = append(ids, b.Hash)
	}
	for i, id := range ids {
		targets[i].SporkId = id
		types.ImplementedSporksMap[id] = true
	}
	w.produce(2)
	for _, id := range ids {
		if !w.must(w.send(spork, types.SporkContract, types.ZnnTokenStandard, nil, definition.ABISpork.PackMethodPanic(definition.SporkActivateMethodName, id), "ActivateSpork", ""), "activate spork") {
			return
		}
	}
	w.produce(10)
	ok, err := w.n.Chain.GetFrontierMomentumStore().IsSporkActive(types.HtlcSpork)
	if err != nil || !ok {
		w.c.Inconclusive("htlc spork not active after setup")
		w.dead = true
	}
}

func (w *c10World) fund() {
	u1 := w.byAddr[g.User1.Address]
	spork := w.byAddr[g.Spork.Address]
	newUsers := []*wallet.KeyPair{g.User6, g.User7, g.User8, g.User9, g.User10}
	for _, kp := range newUsers {
		if b := w.send(u1, types.PlasmaContract, types.QsrTokenStandard, big.NewInt(1000*c10Zexp), definition.ABIPlasma.PackMethodPanic(definition.FuseMethodName, kp.Address), "Fuse(setup)", ""); w.must(b, "fuse for new user") {
			w.protected[u1.Addr.String()+"/"+b.Hash.String()] = true
		}
	}
	// pillars 4..8 and the spork address have funds but (pillars) only the genesis plasma
	w.produce(2)
	for i, kp := range newUsers {
		znn, qsr := int64(1500), int64(15000)
		if i < 2 {
			znn, qsr = 6000, 60000
		}
		w.must(w.send(spork, kp.Address, types.ZnnTokenStandard, big.NewInt(znn*c10Zexp), nil, "transfer", ""), "fund znn")
		w.must(w.send(spork, kp.Address, types.QsrTokenStandard, big.NewInt(qsr*c10Zexp), nil, "transfer", ""), "fund qsr")
	}
	// two custom tokens issued by User1
	for i := 0; i < 2; i++ {
		w.must(w.send(u1, types.TokenContract, types.ZnnTokenStandard, big.NewInt(1*c10Zexp), definition.ABIToken.PackMethodPanic(definition.IssueMethodName,
			fmt.Sprintf("c10-token-%d", i), fmt.Sprintf("CTEN%d", i), "", big.NewInt(1000000*c10Zexp), big.NewInt(2000000*c10Zexp), uint8(8), true, true, false), "IssueToken", ""), "issue token")
	}
	w.produce(3)
	w.receiveInbox(8)
	w.produce(1)
	// find the custom tokens in User1's balance map and spread them
	bm, _ := w.n.Chain.GetFrontierAccountStore(u1.Addr).GetBalanceMap()
	for z := range bm {
		if z != types.ZnnTokenStandard && z != types.QsrTokenStandard && bm[z].Sign() > 0 {
			w.tokens = append(w.tokens, z)
		}
	}
	sort.Slice(w.tokens, func(i, j int) bool { return bytes.Compare(w.tokens[i][:], w.tokens[j][:]) < 0 })
	if len(w.tokens) != 2 {
		w.c.Inconclusive(fmt.Sprintf("expected 2 custom tokens, found %d", len(w.tokens)))
		w.dead = true
		return
	}
	for _, z := range w.tokens {
		for _, kp := range []*wallet.KeyPair{g.User2, g.User3, g.User6, g.User7, g.User8} {
			w.must(w.send(u1, kp.Address, z, big.NewInt(100000*c10Zexp), nil, "transfer token", ""), "spread token")
		}
	}
	w.produce(2)
	w.receiveInbox(8)
	w.produce(1)
}

// liquiditySetup runs the administrator flow (guardians, token tuples) through height probes so the history goes on meanwhile.
func (w *c10World) liquiditySetup() {
	admin := w.byAddr[g.User5.Address]
	guardians := []types.Address{g.User1.Address, g.User2.Address, g.User3.Address, g.User4.Address, g.User6.Address}
	nominate := func() {
		w.send(admin, types.LiquidityContract, types.ZnnTokenStandard, nil, definition.ABILiquidity.PackMethodPanic(definition.NominateGuardiansMethodName, guardians), "NominateGuardians", "")
	}
	second := w.tokens[1]
	if w.cfg.LiqNative {
		second = types.QsrTokenStandard
	}
	tuple := func() {
		w.send(admin, types.LiquidityContract, types.ZnnTokenStandard, nil, definition.ABILiquidity.PackMethodPanic(definition.SetTokenTupleMethodName,
			[]string{w.tokens[0].String(), second.String()}, []uint32{5000, 5000}, []uint32{5000, 5000}, []*big.Int{big.NewInt(1000), big.NewInt(2000)}), "SetTokenTuple", "")
	}
	h, _ := w.frontier()
	nominate()
	w.atHeight(h+26, "liq nominate 2", func() {
		nominate()
		h2, _ := w.frontier()
		w.atHeight(h2+4, "liq tuple 1", func() {
			tuple()
			h3, _ := w.frontier()
			w.atHeight(h3+16, "liq tuple 2", func() {
				tuple()
				h4, _ := w.frontier()
				w.atHeight(h4+4, "liq ready", func() {
					st := w.n.Chain.GetFrontierAccountStore(types.LiquidityContract)
					info, err := definition.GetLiquidityInfo(st.Storage())
					if err == nil && len(info.TokenTuples) == 2 {
						w.liqTokens = []types.ZenonTokenStandard{w.tokens[0], second}
						w.c.Count("liquidity_ready", 1)
						for _, kp := range []*wallet.KeyPair{g.User2, g.User3, g.User6, g.User7} {
							z := w.liqTokens[w.rng.Intn(len(w.liqTokens))]
							amt := big.NewInt(2000 + w.rng.Int63n(5000000))
							if z == types.QsrTokenStandard {
								amt = w.units(1, 100)
							}
							dur := w.cfg.StakeUnit * (1 + w.rng.Int63n(2))
							w.send(w.byAddr[kp.Address], types.LiquidityContract, z, amt, definition.ABILiquidity.PackMethodPanic(definition.LiquidityStakeMethodName, dur), fmt.Sprintf("LiquidityStake(%d)", dur), "")
						}
						u1 := w.byAddr[g.User1.Address]
						w.send(u1, types.LiquidityContract, types.ZnnTokenStandard, big.NewInt(5*c10Zexp), definition.ABILiquidity.PackMethodPanic(definition.DonateMethodName), "Donate", "")
						w.send(u1, types.LiquidityContract, types.QsrTokenStandard, big.NewInt(50*c10Zexp), definition.ABILiquidity.PackMethodPanic(definition.DonateMethodName), "Donate", "")
					} else {
						w.c.Count("liquidity_setup_failed", 1)
					}
				})
			})
		})
	})
}

func (w *c10World) seedGenesis() {
	for _, p := range g.EmbeddedGenesis.PillarConfig.Pillars {
		e := &c10Entry{Kind: "pillar", ID: p.Name, Owner: p.StakeAddress, Amount: new(big.Int).Set(c10PillarZnn), Token: types.ZnnTokenStandard, RegTime: c10Genesis, Born: 1}
		e.History = append(e.History, "genesis pillar")
		w.addEntry(e)
	}
	// fusion entries as the genesis block stored them (colliding zero ids overwrite each other)
	st := w.n.Chain.GetFrontierMomentumStore().GetAccountStore(types.PlasmaContract)
	for _, k := range c10Keys(st, 1) {
		if len(k) != 1+types.AddressSize+types.HashSize {
			continue
		}
		owner, _ := types.BytesToAddress(k[1 : 1+types.AddressSize])
		id, _ := types.BytesToHash(k[1+types.AddressSize:])
		fi, err := definition.GetFusionInfo(st.Storage(), owner, id)
		if err != nil {
			continue
		}
		e := &c10Entry{Kind: "fusion", ID: owner.String() + "/" + id.String(), Hash: id, Owner: owner, Beneficiary: fi.Beneficiary,
			Amount: new(big.Int).Set(fi.Amount), Token: types.QsrTokenStandard, ExpHeight: fi.ExpirationHeight, Born: 1}
		e.History = append(e.History, "genesis fusion")
		if owner != g.User3.Address && owner != g.User4.Address {
			w.protected[e.ID] = true
		}
		w.addEntry(e)
	}
}

func (w *c10World) timeProbesLeft() bool {
	_, f := w.frontier()
	for _, p := range w.probes {
		if p.Time > f {
			return true
		}
	}
	return false
}

func c10Run(c *fw.C, caseID string) {
	rng := c.Rand("c10/" + caseID)
	w := &c10World{c: c, id: caseID, rng: rng, cfg: c10MakeCfg(caseID, rng),
		byAddr: map[types.Address]*c10Actor{}, ts: map[uint64]int64{}, inbox: map[types.Address][]types.Hash{},
		entries: map[string]*c10Entry{}, list: map[string][]*c10Entry{}, qsr: map[types.Address]map[types.Address]*big.Int{},
		proxy: map[types.Address]bool{}, hasProx: map[types.Address]bool{}, pending: map[types.Hash]string{},
		preimages: map[types.Hash][]byte{}, usedProd: map[types.Address]bool{}, protected: map[string]bool{}, reserved: map[string]bool{}, sigSeen: map[string]int{}, treasury: map[types.ZenonTokenStandard]*big.Int{}, treasuryBy: map[types.ZenonTokenStandard]string{}}
	w.cfg.apply()
	c.Note("not_modelled", []string{
		"bridge administration beyond the initial setup (Halt / Unhalt / Emergency, ChangeAdministrator, TSS key rotation, RemoveNetwork, RemoveTokenPair or a changed redeem delay, UpdateWrapRequest): not exercised",
		"accelerator (project and phase payouts, donations): sends ignored",
		"swap RetrieveAssets, token contract mints/burns, spork contract: sends ignored",
		"liquidity treasury operations (Fund, BurnZnn, additional-reward burn in Update, Donate): sends ignored",
		"pillar RegisterLegacy (needs a legacy swap signature): modelled like Register but not exercised",
	})
	w.dir = c.ScratchDir(caseID)
	defer os.RemoveAll(w.dir)
	w.n = simnet.Open("c10", w.dir, simnet.MockGenesis(), g.AllKeyPairs)
	defer w.n.Stop()

	add := func(name string, kp *wallet.KeyPair) {
		a := &c10Actor{Name: name, KP: kp, Addr: kp.Address}
		w.actors = append(w.actors, a)
		w.byAddr[a.Addr] = a
	}
	for i, kp := range []*wallet.KeyPair{g.User1, g.User2, g.User3, g.User4, g.User5, g.User6, g.User7, g.User8, g.User9, g.User10} {
		add(fmt.Sprintf("User%d", i+1), kp)
	}
	for i, kp := range g.PillarKeys {
		add(fmt.Sprintf("Pillar%d", i+1), kp)
	}
	add("Spork", g.Spork)
	for _, kp := range []*wallet.KeyPair{g.Pillar1, g.Pillar2, g.Pillar3} {
		w.usedProd[kp.Address] = true
	}

	w.seedGenesis()
	w.observe()
	w.activateSporks()
	w.fund()
	if w.cfg.Liquidity && !w.dead {
		w.liquiditySetup()
	}
	if w.cfg.Bridge && !w.dead {
		w.bridgeInit()
	}
	// probes around the revoke windows of one genesis pillar
	if e := w.entries["pillar|"+g.Pillar3Name]; e != nil && !w.dead {
		w.onCreated(e)
	}

	for step := 0; !w.dead; step++ {
		// after the planned steps the case only drains the remaining time probes (prodB / prodC), jumping from one to the next
		drain := step >= w.cfg.Steps
		if drain && (w.cfg.Mode != "prod" || w.cfg.HeightPhase || step >= w.cfg.Steps*4 || !w.timeProbesLeft()) {
			break
		}
		build := step < w.cfg.BuildSteps
		w.receiveInbox(3)
		h, f := w.frontier()
		target := f + 10
		if w.chance(0.12) {
			target += 10 * (1 + w.rng.Int63n(4))
		}
		// earliest pending time probe; never skip over it
		var next int64
		for _, p := range w.probes {
			if p.Time > f && (next == 0 || p.Time < next) {
				next = p.Time
			}
		}
		if next > 0 {
			jump := 0.0
			switch {
			case build:
			case w.cfg.Mode == "prod" && w.cfg.HeightPhase:
				jump = 0.01
			case w.cfg.Mode == "prod":
				jump = 0.5
			case step > w.cfg.Steps*2/3:
				jump = 0.35 // towards the end go from lock boundary to lock boundary
			default:
				jump = 0.10
			}
			if next < target || w.chance(jump) || drain {
				target = next
			}
		}
		// run the probes due at this momentum
		var keep, due []*c10Probe
		for _, p := range w.probes {
			switch {
			case p.Time != 0 && p.Time == target, p.Time == 0 && p.Height == h+1:
				due = append(due, p)
			case p.Time != 0 && p.Time < target, p.Time == 0 && p.Height <= h:
				w.c.Count("probes_missed", 1)
			default:
				keep = append(keep, p)
			}
		}
		w.probes = keep
		for _, p := range due {
			w.c.Count("probes_run", 1)
			p.Fn()
		}
		// random part of the history
		k := 0
		switch {
		case drain:
			if w.chance(0.15) {
				k = 1
			}
		case build:
			k = 1 + w.rng.Intn(3)
		case w.cfg.Mode == "prod" && w.cfg.HeightPhase:
			if w.chance(0.06) {
				k = 1
			}
		default:
			k = w.rng.Intn(3)
		}
		for i := 0; i < k; i++ {
			w.randomAction(build)
		}
		if w.br != nil && !drain {
			w.bridgeTick()
			if w.br.ready {
				for i, kb := 0, w.br.rng.Intn(3); i < kb; i++ {
					w.brAction()
				}
			}
		}
		w.produceAt(target)
	}
	if !w.dead {
		w.produce(2) // confirm the last receives
	}
	c.Count("momentums", int(w.scanned))
	for _, kind := range []string{"stake", "fusion", "htlc", "pillar", "sentinel", "liq", "wrap", "unwrap"} {
		c.Count("entries_"+kind, len(w.list[kind]))
		paid := 0
		for _, e := range w.list[kind] {
			if e.Paid {
				paid++
			}
		}
		c.Count("released_"+kind, paid)
	}
	if _, f := w.frontier(); true {
		c.Count("chain_days_covered", int((f-c10Genesis)/c10Day))
	}
	if len(w.list["htlc"]) > 0 {
		c.Sample(map[string]interface{}{"case": caseID, "config": w.cfg, "momentums": w.scanned, "call_sequence_head": w.log[:c10min(len(w.log), 25)]})
	}
}
