package checks

// C03 — only valid account blocks are ever accepted.
//
// Mutation campaign against a real node: valid blocks of every submit-able kind (user send plain / to a
// contract, user receive, contract receive with 0..n descendants, bare contract send, genesis receive)
// are mutated in every field (single and sampled double mutations) under four attacker models (raw,
// re-hashed, re-hashed + re-signed with a foreign key, re-hashed + re-signed by the owner) and offered
// through the gossip path (ChainBridge.AddAccountBlocks). Oracle: an ACCEPTED block must satisfy an
// independent validity predicate V(block, ledger before) that contains exactly the rules of the statement.
// V also runs on every block the honest workload gets accepted (V must hold for all of them, which
// guards the predicate itself against being too strict).

import (
	"bytes"
	"crypto/ed25519"
	"encoding/json"
	"fmt"
	"math/big"
	"math/rand"
	"os"

	g "github.com/zenon-network/go-zenon/chain/genesis/mock"
	"github.com/zenon-network/go-zenon/chain"
	"github.com/zenon-network/go-zenon/chain/nom"
	"github.com/zenon-network/go-zenon/common/db"
	"github.com/zenon-network/go-zenon/common/types"
	"github.com/zenon-network/go-zenon/consensus"
	"github.com/zenon-network/go-zenon/pillar"
	"github.com/zenon-network/go-zenon/protocol"
	"github.com/zenon-network/go-zenon/rpc/api"
	"github.com/zenon-network/go-zenon/verifier"
	"github.com/zenon-network/go-zenon/zenon"
	"github.com/zenon-network/go-zenon/vm/embedded/definition"
	"github.com/zenon-network/go-zenon/wallet"

	"verif/harness/fw"
	"verif/harness/simnet"
)

func init() {
	fw.Register(&fw.Check{
		ID:    "C03",
		Level: "exploration",
		Rule: "each case runs a seeded history on a real producer, takes base blocks of 6 kinds at seeded points and offers every single-field mutation (23 fields, 2–6 operators each) and sampled double mutations under 4 attacker models to a real follower; " +
			"distinct_nontrivial counts distinct (block kind, mutated field/operator, attacker model, outcome class) tuples; evidence lists the distinct rejection reasons observed",
		Cases:            c03Cases,
		Run:              c03Run,
		MinDistinct:      60,
		DeathIsViolation: true,
		DeathSig:         func(caseID, tail string) string { return "node-crash " + topRepoFrame(tail) },
		Assumptions: []string{
			"V contains only the rules the statement lists; fields outside the hash that the receiver recomputes or ignores (plasma totals, changes hash) may vary freely here — that is C13's subject",
			"plasma/PoW sufficiency is C12's subject: a mutant refused for plasma reasons counts as refused, an accepted one is not judged on plasma here",
			"a rejection through a recovered VM panic counts as a rejection",
			"both regimes of the receiver-mismatch rule are run (enforcement height 0 and unreachable); the boundary itself is not",
		},
	})
}

func c03Cases(tier string, seed int64) []string {
	n := 16
	if tier == "thorough" {
		n = 1000
	}
	var l []string
	for i := 0; i < n; i++ {
		l = append(l, fmt.Sprintf("camp:%d", i))
	}
	return l
}

// ---- independent predicate ------------------------------------------------------------------

func c03BlockHash(b *nom.AccountBlock) []byte {
	var desc []byte
	for _, d := range b.DescendantBlocks {
		desc = append(desc, d.Hash.Bytes()...)
	}
	amount := make([]byte, 32)
	if b.Amount != nil && b.Amount.Sign() >= 0 {
		ab := b.Amount.Bytes()
		if len(ab) <= 32 {
			copy(amount[32-len(ab):], ab)
		} else {
			amount = ab
		}
	}
	return c05Sha3(c05u64(b.Version), c05u64(b.ChainIdentifier), c05u64(b.BlockType), b.PreviousHash.Bytes(), c05u64(b.Height),
		b.MomentumAcknowledged.Hash.Bytes(), c05u64(b.MomentumAcknowledged.Height), b.Address.Bytes(), b.ToAddress.Bytes(), amount, b.TokenStandard.Bytes(),
		b.FromBlockHash.Bytes(), c05Sha3(desc), c05Sha3(b.Data), c05u64(b.FusedPlasma), c05u64(b.Difficulty), b.Nonce.Data[:])
}

var c03P255 = new(big.Int).Lsh(big.NewInt(1), 255)

// c03PreEnforcement: the case runs below the receiver-mismatch enforcement height (a foreign account may then
// receive a send, once); set per case, children run cases sequentially.
var c03PreEnforcement bool

// c03Valid judges block b against node n's ledger BEFORE b is offered. Returns "" or the broken rule.
func c03Valid(n *simnet.Node, b *nom.AccountBlock) string {
	// (first, because a negative number has no agreed place in the hash pre-image: the node hashes its absolute value)
	if b.Amount != nil && b.Amount.Sign() < 0 {
		return "negative-amount"
	}
	if !bytes.Equal(c03BlockHash(b), b.Hash.Bytes()) {
		return "hash-does-not-match-content"
	}
	contract := types.IsEmbeddedAddress(b.Address)
	if contract {
		if len(b.PublicKey) != 0 || len(b.Signature) != 0 {
			return "contract-block-carries-key-or-signature"
		}
	} else {
		if len(b.PublicKey) != ed25519.PublicKeySize || !ed25519.Verify(b.PublicKey, b.Hash.Bytes(), b.Signature) {
			return "user-block-signature-invalid"
		}
		if c05Address(b.PublicKey) != b.Address {
			return "user-block-not-signed-by-the-account-owner"
		}
	}
	frontierStore := n.Chain.GetFrontierMomentumStore()
	// chain extension: exactly one height above the stated predecessor, which is the account's current head
	// (for a contract receive with descendants the group extends the head contiguously)
	first := b
	if len(b.DescendantBlocks) > 0 {
		// only the receive block of an embedded contract carries descendants, and they are sends of that contract
		if b.BlockType != nom.BlockTypeContractReceive || !contract {
			return "descendants-on-a-block-that-is-not-a-contract-receive"
		}
		for _, d := range b.DescendantBlocks {
			if d.Address != b.Address || d.BlockType != nom.BlockTypeContractSend {
				return "descendant-is-not-a-contract-send-of-the-same-account"
			}
		}
		first = b.DescendantBlocks[0]
		prev := first
		for i, d := range append(append([]*nom.AccountBlock{}, b.DescendantBlocks[1:]...), b) {
			if d.Height != prev.Height+1 || d.PreviousHash != prev.Hash {
				return fmt.Sprintf("descendant-group-not-contiguous@%d", i)
			}
			prev = d
		}
	}
	as := n.Chain.GetFrontierAccountStore(b.Address)
	head, _ := as.Frontier()
	// the pool lets a block replace unconfirmed blocks: the stated predecessor may be any block of the account's
	// chain at or above the last confirmed one
	var pred *nom.AccountBlock
	if first.Height > 1 {
		pred, _ = as.ByHeight(first.Height - 1)
		if pred == nil || pred.Hash != first.PreviousHash {
			return "does-not-extend-its-stated-predecessor"
		}
		stable, _ := frontierStore.GetAccountStore(b.Address).Frontier()
		if stable != nil && first.Height <= stable.Height {
			return "replaces-a-confirmed-block"
		}
	} else {
		if !first.PreviousHash.IsZero() {
			return "first-block-has-a-predecessor-hash"
		}
		stable, _ := frontierStore.GetAccountStore(b.Address).Frontier()
		if stable != nil {
			return "replaces-a-confirmed-block"
		}
	}
	_ = head
	// acknowledged momentum is on the node's chain
	am, _ := frontierStore.GetMomentumByHeight(b.MomentumAcknowledged.Height)
	if am == nil || am.Hash != b.MomentumAcknowledged.Hash {
		return "acknowledged-momentum-not-on-chain"
	}
	if !contract && pred != nil && pred.MomentumAcknowledged.Height > b.MomentumAcknowledged.Height {
		return "acknowledges-older-momentum-than-predecessor"
	}
	isSend := b.BlockType == nom.BlockTypeUserSend || b.BlockType == nom.BlockTypeContractSend
	isRecv := b.BlockType == nom.BlockTypeUserReceive || b.BlockType == nom.BlockTypeContractReceive
	if !isSend && !isRecv {
		return "block-type-not-acceptable-from-outside"
	}
	if contract != (b.BlockType == nom.BlockTypeContractReceive || b.BlockType == nom.BlockTypeContractSend) {
		return "block-type-does-not-fit-account-kind"
	}
	if b.BlockType == nom.BlockTypeContractSend {
		return "bare-contract-send-accepted"
	}
	if isSend {
		if b.Amount == nil || b.Amount.Sign() < 0 {
			return "negative-amount"
		}
		if b.Amount.Cmp(c03P255) >= 0 {
			return "amount-not-below-2^255"
		}
		if b.Amount.Sign() > 0 && b.TokenStandard == types.ZeroTokenStandard {
			return "positive-amount-without-token"
		}
		// balance before the block = balance in the state of the stated predecessor
		var bal *big.Int
		if pred != nil {
			if st := n.Chain.GetAccountStore(b.Address, pred.Identifier()); st != nil {
				bal, _ = st.GetBalance(b.TokenStandard)
			}
		}
		if bal == nil {
			bal = big.NewInt(0)
		}
		if b.TokenStandard != types.ZeroTokenStandard && b.Amount.Cmp(bal) > 0 {
			return "spends-more-than-the-account-holds"
		}
	} else {
		// the send exists as of the acknowledged momentum
		send, _ := frontierStore.GetAccountBlockByHash(b.FromBlockHash)
		if send == nil {
			return "receive-of-unknown-send"
		}
		ch, _ := frontierStore.GetBlockConfirmationHeight(b.FromBlockHash)
		if ch == 0 || ch > b.MomentumAcknowledged.Height {
			return "receive-of-send-not-confirmed-as-of-acknowledged-momentum"
		}
		if !send.IsSendBlock() {
			return "receive-of-a-non-send"
		}
		if send.ToAddress != b.Address && !c03PreEnforcement {
			return "receive-of-send-addressed-to-another-account"
		}
		if contract && ch != b.MomentumAcknowledged.Height {
			return "contract-receive-does-not-acknowledge-the-confirming-momentum"
		}
		// not yet received on this account (below the block's own position)
		for h := uint64(1); h < first.Height; h++ {
			x, _ := as.ByHeight(h)
			if x != nil && x.IsReceiveBlock() && x.FromBlockHash == b.FromBlockHash {
				return "send-already-received"
			}
		}
	}
	return ""
}

// ---- mutations ------------------------------------------------------------------------------------

type c03Mut struct {
	name string
	f    func(b *nom.AccountBlock, env *c03Env) bool
}

type c03Env struct {
	r          *rand.Rand
	n          *simnet.Node
	owner      *wallet.KeyPair
	attacker   *wallet.KeyPair
	otherSend  types.Hash // a confirmed send addressed to somebody else
	ctrSend    types.Hash // a confirmed send addressed to an embedded contract
	doneSend   types.Hash // a send this account already received
	otherBlock types.Hash
}

func c03Mutations() []c03Mut {
	flipHash := func(h *types.Hash, r *rand.Rand) { h[r.Intn(32)] ^= 1 << uint(r.Intn(8)) }
	return []c03Mut{
		{"Version=0", func(b *nom.AccountBlock, e *c03Env) bool { b.Version = 0; return true }},
		{"Version=2", func(b *nom.AccountBlock, e *c03Env) bool { b.Version = 2; return true }},
		{"ChainIdentifier+1", func(b *nom.AccountBlock, e *c03Env) bool { b.ChainIdentifier++; return true }},
		{"ChainIdentifier=0", func(b *nom.AccountBlock, e *c03Env) bool { b.ChainIdentifier = 0; return true }},
		{"BlockType=other", func(b *nom.AccountBlock, e *c03Env) bool {
			t := uint64(e.r.Intn(7))
			if t == b.BlockType {
				t = (t + 1) % 7
			}
			b.BlockType = t
			return true
		}},
		{"Hash-flip", func(b *nom.AccountBlock, e *c03Env) bool { flipHash(&b.Hash, e.r); return true }},
		{"Hash=zero", func(b *nom.AccountBlock, e *c03Env) bool { b.Hash = types.Hash{}; return true }},
		{"PreviousHash-flip", func(b *nom.AccountBlock, e *c03Env) bool { flipHash(&b.PreviousHash, e.r); return true }},
		{"PreviousHash=zero", func(b *nom.AccountBlock, e *c03Env) bool { b.PreviousHash = types.Hash{}; return true }},
		{"PreviousHash=other-block", func(b *nom.AccountBlock, e *c03Env) bool { b.PreviousHash = e.otherBlock; return !e.otherBlock.IsZero() }},
		{"Height+1", func(b *nom.AccountBlock, e *c03Env) bool { b.Height++; return true }},
		{"Height-1", func(b *nom.AccountBlock, e *c03Env) bool { b.Height--; return true }},
		{"Height=0", func(b *nom.AccountBlock, e *c03Env) bool { b.Height = 0; return true }},
		{"Height=max", func(b *nom.AccountBlock, e *c03Env) bool { b.Height = ^uint64(0); return true }},
		{"MomentumAcknowledged=older", func(b *nom.AccountBlock, e *c03Env) bool {
			h := b.MomentumAcknowledged.Height
			if h < 8 {
				return false
			}
			m, _ := e.n.Chain.GetFrontierMomentumStore().GetMomentumByHeight(h - uint64(1+e.r.Intn(6)))
			if m == nil {
				return false
			}
			b.MomentumAcknowledged = m.Identifier()
			return true
		}},
		{"MomentumAcknowledged=genesis", func(b *nom.AccountBlock, e *c03Env) bool {
			m, _ := e.n.Chain.GetFrontierMomentumStore().GetMomentumByHeight(1)
			b.MomentumAcknowledged = m.Identifier()
			return true
		}},
		{"MomentumAcknowledged-hash-flip", func(b *nom.AccountBlock, e *c03Env) bool { flipHash(&b.MomentumAcknowledged.Hash, e.r); return true }},
		{"MomentumAcknowledged-height+1", func(b *nom.AccountBlock, e *c03Env) bool { b.MomentumAcknowledged.Height++; return true }},
		{"MomentumAcknowledged=zero", func(b *nom.AccountBlock, e *c03Env) bool { b.MomentumAcknowledged = types.HashHeight{}; return true }},
		{"MomentumAcknowledged=future", func(b *nom.AccountBlock, e *c03Env) bool {
			b.MomentumAcknowledged = types.HashHeight{Height: e.n.Height() + 5, Hash: types.NewHash([]byte("future"))}
			return true
		}},
		{"Address=attacker", func(b *nom.AccountBlock, e *c03Env) bool { b.Address = e.attacker.Address; return true }},
		{"Address=contract", func(b *nom.AccountBlock, e *c03Env) bool { b.Address = types.TokenContract; return true }},
		{"Address=zero", func(b *nom.AccountBlock, e *c03Env) bool { b.Address = types.ZeroAddress; return true }},
		{"ToAddress=attacker", func(b *nom.AccountBlock, e *c03Env) bool { b.ToAddress = e.attacker.Address; return true }},
		{"ToAddress=zero", func(b *nom.AccountBlock, e *c03Env) bool { b.ToAddress = types.ZeroAddress; return true }},
		{"Amount+1", func(b *nom.AccountBlock, e *c03Env) bool { b.Amount = new(big.Int).Add(c03Amt(b), big.NewInt(1)); return true }},
		{"Amount=balance+1", func(b *nom.AccountBlock, e *c03Env) bool {
			zts := b.TokenStandard
			if zts == types.ZeroTokenStandard {
				zts = types.ZnnTokenStandard
				b.TokenStandard = zts
			}
			bal, _ := e.n.Chain.GetFrontierAccountStore(b.Address).GetBalance(zts)
			if bal == nil {
				bal = big.NewInt(0)
			}
			b.Amount = new(big.Int).Add(bal, big.NewInt(1))
			return true
		}},
		{"Amount=2^255", func(b *nom.AccountBlock, e *c03Env) bool { b.Amount = new(big.Int).Set(c03P255); return true }},
		{"Amount=2^255-1", func(b *nom.AccountBlock, e *c03Env) bool { b.Amount = new(big.Int).Sub(c03P255, big.NewInt(1)); return true }},
		{"Amount=2^256+1", func(b *nom.AccountBlock, e *c03Env) bool { b.Amount = new(big.Int).Add(new(big.Int).Lsh(big.NewInt(1), 256), big.NewInt(1)); return true }},
		{"Amount=-1", func(b *nom.AccountBlock, e *c03Env) bool { b.Amount = big.NewInt(-1); return true }},
		{"Amount=-1+TokenStandard=zero", func(b *nom.AccountBlock, e *c03Env) bool {
			b.Amount, b.TokenStandard = big.NewInt(-1-e.r.Int63n(1<<40)), types.ZeroTokenStandard
			return true
		}},
		{"Amount=-(2^255-1)+TokenStandard=zero", func(b *nom.AccountBlock, e *c03Env) bool {
			b.Amount, b.TokenStandard = new(big.Int).Neg(new(big.Int).Sub(c03P255, big.NewInt(1))), types.ZeroTokenStandard
			return true
		}},
		{"Amount=2^255+TokenStandard=zero", func(b *nom.AccountBlock, e *c03Env) bool {
			b.Amount, b.TokenStandard = new(big.Int).Set(c03P255), types.ZeroTokenStandard
			return true
		}},
		{"TokenStandard=zero", func(b *nom.AccountBlock, e *c03Env) bool { b.TokenStandard = types.ZeroTokenStandard; return true }},
		{"TokenStandard=other", func(b *nom.AccountBlock, e *c03Env) bool {
			if b.TokenStandard == types.QsrTokenStandard {
				b.TokenStandard = types.ZnnTokenStandard
			} else {
				b.TokenStandard = types.QsrTokenStandard
			}
			return true
		}},
		{"TokenStandard=unknown", func(b *nom.AccountBlock, e *c03Env) bool { b.TokenStandard = types.NewZenonTokenStandard([]byte("nope")); return true }},
		{"FromBlockHash-flip", func(b *nom.AccountBlock, e *c03Env) bool { flipHash(&b.FromBlockHash, e.r); return true }},
		{"FromBlockHash=zero", func(b *nom.AccountBlock, e *c03Env) bool { b.FromBlockHash = types.Hash{}; return true }},
		{"FromBlockHash=send-to-somebody-else", func(b *nom.AccountBlock, e *c03Env) bool { b.FromBlockHash = e.otherSend; return !e.otherSend.IsZero() }},
		{"FromBlockHash=send-to-a-contract", func(b *nom.AccountBlock, e *c03Env) bool { b.FromBlockHash = e.ctrSend; return !e.ctrSend.IsZero() }},
		{"FromBlockHash=already-received", func(b *nom.AccountBlock, e *c03Env) bool { b.FromBlockHash = e.doneSend; return !e.doneSend.IsZero() }},
		{"FromBlockHash=already-received+ack=older", func(b *nom.AccountBlock, e *c03Env) bool {
			// the second receive acknowledges an older momentum (allowed as long as it is not older than the
			// predecessor's): the "already received" marker must still be found
			if e.doneSend.IsZero() {
				return false
			}
			b.FromBlockHash = e.doneSend
			st := e.n.Chain.GetFrontierMomentumStore()
			pred, _ := e.n.Chain.GetFrontierAccountStore(b.Address).ByHeight(b.Height - 1)
			if pred == nil {
				return false
			}
			m, _ := st.GetMomentumByHeight(pred.MomentumAcknowledged.Height)
			if m == nil {
				return false
			}
			b.MomentumAcknowledged = m.Identifier()
			return true
		}},
		{"FromBlockHash=own-hash-of-a-receive", func(b *nom.AccountBlock, e *c03Env) bool { b.FromBlockHash = e.otherBlock; return !e.otherBlock.IsZero() }},
		{"DescendantBlocks+1", func(b *nom.AccountBlock, e *c03Env) bool {
			d := &nom.AccountBlock{Version: 1, ChainIdentifier: b.ChainIdentifier, BlockType: nom.BlockTypeContractSend, Address: b.Address, ToAddress: e.attacker.Address,
				Amount: big.NewInt(1), TokenStandard: types.ZnnTokenStandard, Height: b.Height, PreviousHash: b.PreviousHash, MomentumAcknowledged: b.MomentumAcknowledged}
			d.Hash = d.ComputeHash()
			b.DescendantBlocks = append(b.DescendantBlocks, d)
			return true
		}},
		{"DescendantBlocks+foreign-filler-linked", func(b *nom.AccountBlock, e *c03Env) bool {
			// a user block that carries an (unsigned) send of an embedded contract as descendant and sits on top of it
			if len(b.DescendantBlocks) > 0 || types.IsEmbeddedAddress(b.Address) {
				return false
			}
			d := c03Filler(b)
			b.DescendantBlocks = []*nom.AccountBlock{d}
			b.Height, b.PreviousHash = d.Height+1, d.Hash
			return true
		}},
		{"DescendantBlocks+foreign-filler-unlinked", func(b *nom.AccountBlock, e *c03Env) bool {
			// as above, but the block itself floats: height jumps, previous hash is unknown (every linkage check that keys
			// on Previous() sees the filler's correct link instead)
			if len(b.DescendantBlocks) > 0 || types.IsEmbeddedAddress(b.Address) {
				return false
			}
			d := c03Filler(b)
			b.DescendantBlocks = []*nom.AccountBlock{d}
			b.Height += uint64(2 + e.r.Intn(5))
			b.PreviousHash = types.NewHash([]byte("not a block of this account chain"))
			return true
		}},
		{"DescendantBlocks-drop", func(b *nom.AccountBlock, e *c03Env) bool {
			if len(b.DescendantBlocks) == 0 {
				return false
			}
			b.DescendantBlocks = b.DescendantBlocks[:len(b.DescendantBlocks)-1]
			return true
		}},
		{"Descendant-amount+1", func(b *nom.AccountBlock, e *c03Env) bool {
			if len(b.DescendantBlocks) == 0 {
				return false
			}
			d := b.DescendantBlocks[0]
			d.Amount = new(big.Int).Add(c03Amt(d), big.NewInt(1))
			d.Hash = d.ComputeHash()
			return true
		}},
		{"Data-append", func(b *nom.AccountBlock, e *c03Env) bool {
			// plain transfers only: send validation of embedded calls re-encodes Data canonically
			if types.IsEmbeddedAddress(b.ToAddress) {
				return false
			}
			b.Data = append(append([]byte{}, b.Data...), byte(e.r.Intn(256)))
			return true
		}},
		{"Data-flip", func(b *nom.AccountBlock, e *c03Env) bool {
			if len(b.Data) == 0 {
				return false
			}
			b.Data = append([]byte{}, b.Data...)
			b.Data[e.r.Intn(len(b.Data))] ^= 1 << uint(e.r.Intn(8))
			return true
		}},
		{"FusedPlasma=0", func(b *nom.AccountBlock, e *c03Env) bool { b.FusedPlasma = 0; return true }},
		{"FusedPlasma+1", func(b *nom.AccountBlock, e *c03Env) bool { b.FusedPlasma++; return true }},
		{"FusedPlasma=huge", func(b *nom.AccountBlock, e *c03Env) bool { b.FusedPlasma = 1 << 62; return true }},
		{"Difficulty=1", func(b *nom.AccountBlock, e *c03Env) bool { b.Difficulty = 1; return true }},
		{"Difficulty=huge", func(b *nom.AccountBlock, e *c03Env) bool { b.Difficulty = 1 << 40; return true }},
		{"Nonce-flip", func(b *nom.AccountBlock, e *c03Env) bool { b.Nonce.Data[e.r.Intn(8)] ^= 0x10; return true }},
		{"BasePlasma+1", func(b *nom.AccountBlock, e *c03Env) bool { b.BasePlasma++; return true }},
		{"TotalPlasma=0", func(b *nom.AccountBlock, e *c03Env) bool { b.TotalPlasma = 0; return true }},
		{"ChangesHash-flip", func(b *nom.AccountBlock, e *c03Env) bool { flipHash(&b.ChangesHash, e.r); return true }},
		{"PublicKey=attacker", func(b *nom.AccountBlock, e *c03Env) bool { b.PublicKey = e.attacker.Public; return true }},
		{"PublicKey=garbage", func(b *nom.AccountBlock, e *c03Env) bool { b.PublicKey = bytes.Repeat([]byte{7}, 32); return true }},
		{"PublicKey=empty", func(b *nom.AccountBlock, e *c03Env) bool { b.PublicKey = nil; return true }},
		{"PublicKey=short", func(b *nom.AccountBlock, e *c03Env) bool { b.PublicKey = []byte{1, 2, 3}; return true }},
		{"Signature-flip", func(b *nom.AccountBlock, e *c03Env) bool {
			if len(b.Signature) == 0 {
				b.Signature = bytes.Repeat([]byte{1}, 64)
				return true
			}
			b.Signature = append([]byte{}, b.Signature...)
			b.Signature[e.r.Intn(len(b.Signature))] ^= 1 << uint(e.r.Intn(8))
			return true
		}},
		{"Signature=empty", func(b *nom.AccountBlock, e *c03Env) bool { b.Signature = nil; return true }},
		{"none", func(b *nom.AccountBlock, e *c03Env) bool { return true }},
	}
}

// c03Filler: an unsigned contract send of the token contract that takes b's place in b's account chain.
func c03Filler(b *nom.AccountBlock) *nom.AccountBlock {
	d := &nom.AccountBlock{Version: 1, ChainIdentifier: b.ChainIdentifier, BlockType: nom.BlockTypeContractSend, Address: types.TokenContract, ToAddress: b.Address,
		Amount: big.NewInt(0), Height: b.Height, PreviousHash: b.PreviousHash, MomentumAcknowledged: b.MomentumAcknowledged}
	d.Hash = d.ComputeHash()
	return d
}

func c03Amt(b *nom.AccountBlock) *big.Int {
	if b.Amount == nil {
		return big.NewInt(0)
	}
	return b.Amount
}

var c03Models = []string{"raw", "rehashed", "resigned-by-foreign-key", "resigned-by-owner"}

func c03ApplyModel(b *nom.AccountBlock, model string, e *c03Env) {
	sign := func(kp *wallet.KeyPair) {
		b.Hash = b.ComputeHash()
		if types.IsEmbeddedAddress(b.Address) {
			return
		}
		b.Signature = kp.Sign(b.Hash.Bytes())
		b.PublicKey = kp.Public
	}
	switch model {
	case "rehashed":
		b.Hash = b.ComputeHash()
	case "resigned-by-foreign-key":
		sign(e.attacker)
	case "resigned-by-owner":
		if k := simnet.KeyFor(b.Address); k != nil {
			sign(k)
		} else if e.owner != nil {
			sign(e.owner)
		} else {
			b.Hash = b.ComputeHash()
		}
	}
}

// ---- campaign ---------------------------------------------------------------------------------------

func c03Run(c *fw.C, caseID string) {
	r := c.Rand(caseID)
	base := c.ScratchDir("c03")
	defer os.RemoveAll(base)
	var idx int
	fmt.Sscanf(caseID, "camp:%d", &idx)
	simnet.Setup()
	c03PreEnforcement = idx%2 == 1
	c03PathCounter = idx // the ingress path of an offer is a function of the case and the offer's position in it
	if c03PreEnforcement {
		verifier.ReceiverMismatchEnforcementHeight = 1 << 60
	} else {
		verifier.ReceiverMismatchEnforcementHeight = 0
	}
	defer func() { verifier.ReceiverMismatchEnforcementHeight = 0 }()
	regime := "post-enforcement"
	if c03PreEnforcement {
		regime = "pre-enforcement"
	}
	c.SetAdd("regimes", regime)
	P := simnet.Open("P", base+"/P", simnet.MockGenesis(), g.PillarKeys)
	defer P.Stop()
	N := simnet.Open("N", base+"/N", simnet.MockGenesis(), nil)
	defer N.Stop()
	w := simnet.NewWorkload(rand.New(rand.NewSource(r.Int63())), P)
	w.ContractWeight = 45

	// V on every honestly accepted block (guards V against being too strict): evaluated on N right before
	// N receives the block through gossip
	honest := 0
	var pending []*nom.AccountBlock
	P.OnBlock = func(b *nom.AccountBlock, _ db.Patch, err error) {
		if err == nil {
			pending = append(pending, b)
		}
	}
	syncN := func() bool {
		// N first learns the momentums, then the pool blocks P accepted
		if err := N.SyncFrom(P, 16); err != nil {
			c.Violation("follower-refuses-producers-momentum", err.Error())
			return false
		}
		for _, b := range pending {
			if N.Chain.GetPatch(b.Address, b.Identifier()) != nil {
				continue
			}
			if ch, _ := N.Chain.GetFrontierMomentumStore().GetBlockConfirmationHeight(b.Hash); ch != 0 {
				continue
			}
			why := c03Valid(N, b)
			err := N.Bridge.AddAccountBlocks([]*nom.AccountBlock{simnet.CloneBlock(b)})
			c.Eval(1)
			if err == nil {
				honest++
				if why != "" {
					c.Violation("predicate-rejects-honest-block "+why, map[string]interface{}{"block_type": b.BlockType, "address": b.Address.String(), "height": b.Height,
						"note": "the honest workload's block was accepted by the node but the independent predicate calls it invalid: either the node accepts an invalid block or the predicate is too strict"})
					return false
				}
			}
		}
		pending = nil
		return true
	}

	muts := c03Mutations()
	rounds := 5
	for round := 0; round < rounds; round++ {
		for i := 0; i < 6+r.Intn(8); i++ {
			w.Step(6)
			if _, err := P.Produce(0); err != nil {
				c.Violation("producer-cannot-produce", err.Error())
				return
			}
		}
		// base blocks: generated on P against the current state but NOT inserted anywhere
		if !syncN() {
			return
		}
		bases := c03BaseBlocks(c, P, w, r)
		// the contract receive needs its send confirmed: syncN again because c03BaseBlocks may have produced momentums
		if !syncN() {
			return
		}
		for _, bb := range bases {
			env := &c03Env{r: r, n: N, owner: simnet.KeyFor(bb.block.Address), attacker: g.User9}
			c03FillEnv(env, N, bb.block)
			// the unmutated base block must be acceptable (otherwise the campaign is vacuous for this kind)
			for mi, mu := range muts {
				for _, model := range c03Models {
					if mu.name == "none" && (model == "raw" || model == "rehashed") {
						continue
					}
					// quick tier: sample models for most mutants
					if !c.Thorough() && mu.name != "none" && r.Intn(4) != 0 && model != "resigned-by-owner" {
						continue
					}
					mb := simnet.CloneBlock(bb.block)
					if !mu.f(mb, env) {
						continue
					}
					name := mu.name
					// sampled double mutation
					if r.Intn(7) == 0 {
						m2 := muts[(mi+1+r.Intn(len(muts)-2))%len(muts)]
						if m2.name != "none" && m2.f(mb, env) {
							name += "+" + m2.name
						}
					}
					c03ApplyModel(mb, model, env)
					if !c03Offer(c, N, mb, bb.kind, name, model) {
						return
					}
				}
			}
			// "seen before" pass: the node verifies the GENUINE block first (and forgets it again: its pool is emptied
			// without a restart), then is offered the copies that differ only in what the hash does not cover or in the
			// hash itself. Whatever a node remembers about a block it verified must not vouch for a different block.
			if bb.block.BlockType == nom.BlockTypeUserSend || bb.block.BlockType == nom.BlockTypeUserReceive {
				c03KeepVerifier = true
				if c03Offer(c, N, simnet.CloneBlock(bb.block), bb.kind, "none(genuine, to be remembered)", "raw") {
					c.Count("seen_before_passes", 1)
					for _, mu := range muts {
						switch mu.name {
						case "Signature-flip", "Signature=empty", "PublicKey=attacker", "PublicKey=garbage", "PublicKey=empty", "Nonce-flip", "Difficulty=1", "FusedPlasma+1", "Data-flip", "Amount+1", "Hash-flip":
						default:
							continue
						}
						mb := simnet.CloneBlock(bb.block)
						if !mu.f(mb, env) {
							continue
						}
						if !c03Offer(c, N, mb, bb.kind, mu.name+"(after the genuine block was verified)", "raw") {
							c03KeepVerifier = false
							return
						}
					}
				}
				c03KeepVerifier = false
				N.Restart()
			}
		}
	}
	c.Count("honest_blocks_accepted_and_judged_valid", honest)
	if caseID == "camp:0" {
		c.Sample(map[string]interface{}{"case": caseID, "honest_blocks": honest, "mutation_operators": len(muts), "attacker_models": c03Models})
	}
}

type c03Base struct {
	kind  string
	block *nom.AccountBlock
}

// c03BaseBlocks builds valid, not yet submitted blocks of each kind against P's current state.
func c03BaseBlocks(c *fw.C, P *simnet.Node, w *simnet.Workload, r *rand.Rand) []c03Base {
	var out []c03Base
	u := g.User1
	gen := func(kind string, tpl *nom.AccountBlock, kp *wallet.KeyPair) {
		tx, err := P.Generate(tpl, kp)
		if err == nil {
			out = append(out, c03Base{kind, tx.Block})
		}
	}
	gen("user-send-plain", &nom.AccountBlock{BlockType: nom.BlockTypeUserSend, Address: u.Address, ToAddress: g.User2.Address, TokenStandard: types.ZnnTokenStandard, Amount: big.NewInt(int64(1 + r.Intn(1000))), Data: []byte{1, 2, 3}}, u)
	// a send that names no token at all (amount 0, data only)
	gen("user-send-tokenless", &nom.AccountBlock{BlockType: nom.BlockTypeUserSend, Address: g.User4.Address, ToAddress: g.User5.Address, Amount: big.NewInt(0), Data: []byte("note")}, g.User4)
	gen("user-send-to-contract", &nom.AccountBlock{BlockType: nom.BlockTypeUserSend, Address: g.User2.Address, ToAddress: types.PlasmaContract, TokenStandard: types.QsrTokenStandard, Amount: big.NewInt(20 * g.Zexp),
		Data: c03FuseData(g.User3.Address)}, g.User2)
	// pre-enforcement regime: User3 first receives a send addressed to somebody else (legitimate there, once)
	if c03PreEnforcement {
		for _, other := range []*wallet.KeyPair{g.User2, g.User1, g.User4} {
			if hs := w.Unreceived(other.Address, 3); len(hs) > 0 {
				if _, err := P.Receive(g.User3, hs[0]); err == nil {
					_, _ = P.Produce(0)
					break
				}
			}
		}
	}
	// a user receive: make sure something is waiting for User3
	if hs := w.Unreceived(g.User3.Address, 5); len(hs) > 0 {
		gen("user-receive", &nom.AccountBlock{BlockType: nom.BlockTypeUserReceive, Address: g.User3.Address, FromBlockHash: hs[0]}, g.User3)
	} else {
		_, _ = P.Send(g.User1, g.User3.Address, types.ZnnTokenStandard, big.NewInt(77), nil)
	}
	// a contract receive as the pillar would generate it: confirm a call (failing: refund → descendant; succeeding: none),
	// intercept the generated receive instead of letting it into P's pool
	for _, failing := range []bool{false, true} {
		amt := big.NewInt(15 * g.Zexp)
		zts := types.QsrTokenStandard
		if failing {
			zts = types.ZnnTokenStandard // Fuse with ZNN is refused at send time; use CancelFuse of an unknown id with no value → fails without refund
		}
		var send *nom.AccountBlock
		var err error
		if failing {
			// a failing call that carries value: Delegate with value attached is refused at send time, so use a stake of a bad token?
			// DepositQsr to the pillar contract followed by receive is OK; the simplest failing-with-refund call is token.Burn of a non burnable… keep: Mint by stranger fails (no value).
			send, err = P.Send(g.User4, types.TokenContract, types.ZnnTokenStandard, big.NewInt(0), c03MintData(g.User4.Address))
		} else {
			send, err = P.Send(g.User2, types.PlasmaContract, zts, amt, c03FuseData(g.User2.Address))
		}
		if err != nil || send == nil {
			continue
		}
		// confirm the send without letting the pillar generate receives: insert the momentum only
		var captured *nom.AccountBlock
		old := P.OnBlock
		_ = old
		// Produce generates the receive and puts it into P's pool — that is fine: we take a copy of it as base block;
		// N does not have it yet (N only gets momentums through syncN, and this receive is still unconfirmed).
		if _, err := P.Produce(0); err != nil {
			continue
		}
		for _, b := range P.Chain.GetUncommittedAccountBlocksByAddress(send.ToAddress) {
			if b.BlockType == nom.BlockTypeContractReceive && b.FromBlockHash == send.Hash {
				captured = b
			}
		}
		if captured != nil {
			kind := fmt.Sprintf("contract-receive-descendants=%d", len(captured.DescendantBlocks))
			out = append(out, c03Base{kind, simnet.CloneBlock(captured)})
			if len(captured.DescendantBlocks) > 0 {
				out = append(out, c03Base{"bare-contract-send", simnet.CloneBlock(captured.DescendantBlocks[0])})
			}
		}
	}
	// a genesis-receive kind, as an externally submitted block
	gb, _ := P.Chain.GetFrontierMomentumStore().GetAccountStore(g.User5.Address).ByHeight(1)
	if gb != nil {
		x := simnet.CloneBlock(gb)
		f, _ := P.Chain.GetFrontierAccountStore(g.User5.Address).Frontier()
		x.Height, x.PreviousHash = f.Height+1, f.Hash
		x.MomentumAcknowledged = P.Frontier().Identifier()
		x.Hash = x.ComputeHash()
		x.Signature = g.User5.Sign(x.Hash.Bytes())
		x.PublicKey = g.User5.Public
		out = append(out, c03Base{"genesis-receive-resubmitted", x})
	}
	return out
}

func c03FillEnv(e *c03Env, n *simnet.Node, b *nom.AccountBlock) {
	st := n.Chain.GetFrontierMomentumStore()
	// a confirmed, unreceived send addressed to somebody else
	for _, u := range simnet.DefaultUsers() {
		if u.Address == b.Address {
			continue
		}
		if hs, _ := st.GetAccountMailbox(u.Address).GetUnreceivedAccountBlockHashes(1); len(hs) > 0 {
			e.otherSend = hs[0]
			break
		}
	}
	// a confirmed send addressed to an embedded contract (recent momentums)
	if H := n.Height(); H > 2 {
		for h := H; h >= 2 && h+12 > H && e.ctrSend.IsZero(); h-- {
			if d := n.Detailed(h); d != nil {
				for _, x := range d.AccountBlocks {
					if x.IsSendBlock() && types.IsEmbeddedAddress(x.ToAddress) && x.ToAddress != b.Address {
						e.ctrSend = x.Hash
						break
					}
				}
			}
		}
	}
	// a send this account has already received, and some other block hash of this account
	as := st.GetAccountStore(b.Address)
	if f, _ := as.Frontier(); f != nil {
		for h := f.Height; h >= 1 && h+40 > f.Height; h-- {
			x, _ := as.ByHeight(h)
			if x == nil {
				break
			}
			if x.BlockType == nom.BlockTypeUserReceive && e.doneSend.IsZero() {
				e.doneSend = x.FromBlockHash
			}
			if h+1 < b.Height && e.otherBlock.IsZero() {
				e.otherBlock = x.Hash
			}
		}
	}
}

// c03Offer offers one mutant to N through the gossip path and applies the oracle.
func c03Offer(c *fw.C, N *simnet.Node, mb *nom.AccountBlock, kind, mutation, model string) bool {
	why := ""
	func() {
		defer func() {
			if r := recover(); r != nil {
				why = "predicate-panicked: " + fmt.Sprint(r)
			}
		}()
		why = c03Valid(N, mb)
	}()
	// the gossip path ignores a block whose identifier (hash, height) is already pooled: make sure the node does not
	// hold the honest original of a stale-hash mutant, or "no error" would say nothing about the mutant
	if N.Chain.GetPatch(mb.Address, mb.Identifier()) != nil {
		c03WipePool(c, N)
	}
	var err error
	panicked := ""
	path := c03Paths[c03PathCounter%len(c03Paths)]
	c03PathCounter++
	if c03KeepVerifier && path == "rpc" {
		path = "gossip" // the RPC entry point builds a fresh supervisor per call: nothing to remember there
	}
	var viaRPC *api.AccountBlock
	if path == "rpc" {
		// the block as a JSON-RPC client would submit it; a mutant the JSON form cannot carry travels by gossip instead
		if data, jerr := json.Marshal(mb); jerr == nil {
			viaRPC = new(api.AccountBlock)
			if json.Unmarshal(data, viaRPC) != nil {
				viaRPC = nil
			}
		}
		if viaRPC == nil {
			path = "gossip"
			c.Count("mutants_not_expressible_as_rpc_json", 1)
		}
	}
	func() {
		defer func() {
			if r := recover(); r != nil {
				panicked = fmt.Sprint(r)
			}
		}()
		switch path {
		case "gossip":
			err = N.Bridge.AddAccountBlocks([]*nom.AccountBlock{mb})
		case "rpc":
			err = api.NewLedgerApi(&c03Zenon{N}).PublishRawTransaction(viaRPC)
		case "sync":
			// inside the next momentum, as a peer would serve it during sync: right height, link, slot and producer
			// signature; the state hash cannot be right for a block the honest network never applied, so the momentum
			// itself is refused in any case — the question is whether the block stays behind in the node
			_, err = N.InsertChain([]*nom.DetailedMomentum{c03MomentumWith(N, mb)})
		}
	}()
	c.Eval(1)
	c.SetAdd("ingress_paths", path)
	if panicked != "" {
		c.Violation(path+"-path-panics "+kind+" "+mutation, map[string]interface{}{"model": model, "panic": panicked})
		return false
	}
	stored := N.Chain.GetPatch(mb.Address, mb.Identifier()) != nil
	accepted := err == nil && stored
	if path == "sync" {
		accepted = stored
	}
	if mb.BlockType == nom.BlockTypeContractSend && !stored {
		accepted = false // a bare contract send is silently skipped on every path
	}
	outcome := "refused"
	if accepted {
		outcome = "accepted-valid"
		if why != "" {
			outcome = "accepted-INVALID"
		}
	} else if err != nil {
		c.SetAdd("rejection_reasons", c05ErrClass(err))
	}
	regime := "post"
	if c03PreEnforcement {
		regime = "pre"
	}
	c.Distinct(fmt.Sprintf("%s/%s/%s/%s/%s", regime, kind, mutation, model, outcome))
	c.SetAdd("paths_by_outcome", path+"/"+outcome)
	if accepted {
		c.Count("mutants_accepted", 1)
		// clean N's pool: the pool lives in memory only
		defer c03WipePool(c, N)
		if why != "" {
			c.Violation(fmt.Sprintf("invalid-block-accepted %s-enforcement %s: %s", regime, kind, why), map[string]interface{}{"mutation": mutation, "attacker_model": model, "ingress_path": path,
				"block_type": mb.BlockType, "address": mb.Address.String(), "height": mb.Height})
			return false
		}
	} else {
		c.Count("mutants_refused", 1)
	}
	return true
}

func c03FuseData(beneficiary types.Address) []byte {
	return definition.ABIPlasma.PackMethodPanic(definition.FuseMethodName, beneficiary)
}

func c03MintData(to types.Address) []byte {
	return definition.ABIToken.PackMethodPanic(definition.MintMethodName, types.ZnnTokenStandard, big.NewInt(5), to)
}

// ---- ingress paths ---------------------------------------------------------------------------------

var c03Paths = []string{"gossip", "rpc", "sync"}
var c03PathCounter int

// c03KeepVerifier: the "seen before" pass — the node's long-lived verifier/supervisor (the one behind the chain bridge)
// must survive between offers, so the pool is emptied by rolling the last momentum back and inserting it again instead
// of restarting the node; offers go through the bridge only.
var c03KeepVerifier bool

func c03WipePool(c *fw.C, N *simnet.Node) {
	if !c03KeepVerifier {
		N.Restart()
		return
	}
	top := N.Frontier()
	if top.Height < 3 {
		N.Restart()
		return
	}
	// roll back far enough to take away the youngest momentum that a pooled block acknowledges (at most 6 momentums)
	to := top.Height - 1
	for _, b := range N.Chain.GetAllUncommittedAccountBlocks() {
		if h := b.MomentumAcknowledged.Height; h >= 3 && h-1 < to && top.Height-(h-1) <= 6 {
			to = h - 1
		}
	}
	batch := simnet.CloneBatch(N.Range(to+1, top.Height))
	prev, _ := N.Chain.GetFrontierMomentumStore().GetMomentumByHeight(to)
	ins := N.Chain.AcquireInsert("c03 wipe pool")
	err := N.Chain.RollbackTo(ins, prev.Identifier())
	ins.Unlock()
	if err == nil {
		// between the rollback and the re-insert: whatever the pool still holds counts as accepted, so it must still
		// acknowledge a momentum of the node's chain (the rolled-back one is not on it at this moment)
		st := N.Chain.GetFrontierMomentumStore()
		for _, b := range N.Chain.GetAllUncommittedAccountBlocks() {
			c.Eval(1)
			m, _ := st.GetMomentumByHeight(b.MomentumAcknowledged.Height)
			if m == nil || m.Hash != b.MomentumAcknowledged.Hash {
				c.Violation("pooled-block-survives-rollback-of-the-momentum-it-acknowledges", map[string]interface{}{"block_type": b.BlockType, "address": b.Address.String(), "height": b.Height,
					"acknowledges_height": b.MomentumAcknowledged.Height, "frontier_after_rollback": prev.Height})
				break
			}
		}
		c.Count("pools_audited_between_rollback_and_reinsert", 1)
		_, err = N.InsertChain(batch)
	}
	if err != nil || len(N.Chain.GetAllUncommittedAccountBlocks()) != 0 {
		N.Restart()
	}
}

// c03Zenon: zenon.Zenon over a simnet node for the real LedgerApi; the node is its own broadcaster (inserts the
// transaction the way protocol.broadcaster does).
type c03Zenon struct{ n *simnet.Node }

func (z *c03Zenon) Init() error                         { return nil }
func (z *c03Zenon) Start() error                        { return nil }
func (z *c03Zenon) Stop() error                         { return nil }
func (z *c03Zenon) Chain() chain.Chain                  { return z.n.Chain }
func (z *c03Zenon) Consensus() consensus.Consensus      { return z.n.Cons }
func (z *c03Zenon) Verifier() verifier.Verifier         { return z.n.Ver }
func (z *c03Zenon) Protocol() *protocol.ProtocolManager { return nil }
func (z *c03Zenon) Producer() pillar.Manager            { return nil }
func (z *c03Zenon) Config() *zenon.Config               { return nil }
func (z *c03Zenon) Broadcaster() protocol.Broadcaster   { return z.n }

var _ zenon.Zenon = (*c03Zenon)(nil)

// c03MomentumWith builds the momentum a dishonest (or merely relaying) peer would serve next: it extends N's frontier
// in the next slot, lists mb (and its descendants) as content and is signed by the pillar elected for that slot.
func c03MomentumWith(N *simnet.Node, mb *nom.AccountBlock) *nom.DetailedMomentum {
	f := N.Frontier()
	t := N.NextSlot(0)
	group := append(append([]*nom.AccountBlock{}, mb.DescendantBlocks...), mb)
	m := &nom.Momentum{Version: 1, ChainIdentifier: f.ChainIdentifier, PreviousHash: f.Hash, Height: f.Height + 1, TimestampUnix: uint64(t.Unix()),
		Content: nom.NewMomentumContent(group), ChangesHash: types.NewHash([]byte("unknown"))}
	m.EnsureCache()
	m.Hash = m.ComputeHash()
	if p, err := N.ProducerFor(t); err == nil && p != nil {
		if kp := simnet.KeyFor(*p); kp != nil {
			m.PublicKey = kp.Public
			m.Signature = kp.Sign(m.Hash.Bytes())
		}
	}
	return &nom.DetailedMomentum{Momentum: m, AccountBlocks: group}
}
