//go:build !verif

package checks

// C15 needs the exported wrappers in /repo/p2p/export_verif.go and
// /repo/p2p/discover/export_verif.go, which exist only behind the build tag
// "verif" (bin/check always sets it). Without the tag the check is registered
// as a placeholder that can never pass silently.

import "verif/harness/fw"

func init() {
	fw.Register(&fw.Check{
		ID:          "C15",
		Level:       "exploration",
		Rule:        "placeholder: built without -tags verif",
		Cases:       func(tier string, seed int64) []string { return []string{"needs-verif-tag"} },
		Run:         func(c *fw.C, caseID string) { c.Inconclusive("C15 must be built with -tags verif (bin/check does)") },
		MinDistinct: 1,
	})
}
