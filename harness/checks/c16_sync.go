package checks

// C16 — sync adopts only verified, strictly longer chains within the rollback window.
//
// Specification model over (local chain L, delivered batch D, position and kind of the first invalid
// element — known by construction): expected return value and expected resulting chain. Observed on a
// real node through protocol.ChainBridge.InsertChain: return value, resulting chain (hash per height)
// and full logical dump. Independent audit: the resulting chain is replayed from genesis on a fresh
// node, which must accept it entirely and reach the same dump — a held element that fails verification
// cannot survive that. Re-delivery of known momentums must change nothing. Panics are violations.

import (
	"fmt"
	"math/big"
	"math/rand"
	"os"
	"strings"
	"time"

	g "github.com/zenon-network/go-zenon/chain/genesis/mock"
	"github.com/zenon-network/go-zenon/chain/nom"
	"github.com/zenon-network/go-zenon/common/types"
	"github.com/zenon-network/go-zenon/wallet"

	"verif/harness/fw"
	"verif/harness/simnet"
)

func init() {
	fw.Register(&fw.Check{
		ID:    "C16",
		Level: "exploration",
		Rule: "each case builds a local chain and a competing chain on real producing nodes and offers seeded deliveries to a real node: extensions, forks at depth 1..35, shorter/equal/longer side chains, " +
			"an invalid element of 12 kinds (rotating, so that every kind is applied in every run) at a seeded position, duplicates, overlaps with the known prefix, non-contiguous batches, gaps above the frontier, empty batches; " +
			"distinct_nontrivial counts distinct (delivery shape, fork depth class, invalid kind, invalid position class, outcome) tuples",
		Cases:            c16Cases,
		Run:              c16Run,
		MinDistinct:      15,
		DeathIsViolation: true,
		DeathSig:         func(caseID, tail string) string { return "sync-crash " + topRepoFrame(tail) },
		Assumptions: []string{
			"validity of every delivered element is known by construction (honest producers + one seeded corruption)",
			"deliveries go through ChainBridge.InsertChain (what fetcher and downloader call); their own pre-checks are exercised by C15",
		},
	})
}

func c16Cases(tier string, seed int64) []string {
	n := 64
	if tier == "thorough" {
		n = 1600
	}
	var l []string
	for i := 0; i < n; i++ {
		l = append(l, fmt.Sprintf("net:%d", i))
	}
	if c16PeerCases != nil {
		l = append(l, c16PeerCases(tier)...)
	}
	return l
}

// set by c16_peer.go (needs the verif build tag, like C15's environment it reuses)
var c16PeerCases func(tier string) []string
var c16PeerRun func(c *fw.C, caseID string)

func c16ChainHashes(n *simnet.Node) []types.Hash {
	st := n.Chain.GetFrontierMomentumStore()
	top := n.Height()
	out := make([]types.Hash, 0, top)
	for h := uint64(1); h <= top; h++ {
		m, _ := st.GetMomentumByHeight(h)
		if m == nil {
			break
		}
		out = append(out, m.Hash)
	}
	return out
}

func c16PillarKey(addr types.Address) *wallet.KeyPair {
	for _, k := range g.PillarKeys {
		if k.Address == addr {
			return k
		}
	}
	return nil
}

// c16Resign recomputes hash and signature of a momentum with the key of its (original) producer or another key.
func c16Resign(m *nom.Momentum, kp *wallet.KeyPair) {
	m.Hash = m.ComputeHash()
	sig, _, pub, _ := kp.Signer(m.Hash.Bytes())
	m.Signature = sig
	m.PublicKey = pub
	// drop the cached producer by round-tripping
}

var c16LastMutated string
var c16LastMutatedBlock *nom.AccountBlock

var c16Kinds = []string{"bad-signature", "wrong-producer", "non-pillar-producer", "wrong-changes-hash", "stale-hash", "block-mutated", "block-missing", "block-extra", "content-reordered", "timestamp-not-increasing", "data-not-empty", "block-extra-on-empty"}

// c16NodeSchedule: who produces at time t according to the node under test, on the branch it is on (set per case).
var c16NodeSchedule func(t time.Time) *wallet.KeyPair
var c16WrongProducerFromOwnBranch int

// c16Corrupt corrupts element i of a batch (which was cloned) in the given way. Returns false if the kind is not applicable.
func c16Corrupt(batch []*nom.DetailedMomentum, i int, kind string, r *rand.Rand) bool {
	d := batch[i]
	m := d.Momentum
	// re-deserialize to drop cached producer after key changes
	reload := func() {
		data, _ := m.Serialize()
		nm, _ := nom.DeserializeMomentum(data)
		d.Momentum = nm
	}
	producer := c16PillarKey(types.PubKeyToAddress(m.PublicKey))
	if producer == nil {
		return false
	}
	switch kind {
	case "bad-signature":
		m.Signature[r.Intn(len(m.Signature))] ^= 1 << uint(r.Intn(8))
	case "wrong-producer":
		var other *wallet.KeyPair
		// preferably the pillar that the schedule of the node's OWN branch has for that slot (a supplier that built
		// its momentum with the schedule of the branch the node is on), when the two branches disagree about the slot
		if c16NodeSchedule != nil {
			if k := c16NodeSchedule(*m.Timestamp); k != nil && k.Address != producer.Address {
				other = k
				c16WrongProducerFromOwnBranch++
			}
		}
		if other == nil {
			for _, k := range []*wallet.KeyPair{g.Pillar1, g.Pillar2, g.Pillar3} {
				if k.Address != producer.Address {
					other = k
				}
			}
		}
		c16Resign(m, other)
	case "non-pillar-producer":
		c16Resign(m, g.User1)
	case "wrong-changes-hash":
		m.ChangesHash[r.Intn(32)] ^= 0x40
		c16Resign(m, producer)
	case "stale-hash":
		m.TimestampUnix += 0 // keep
		m.Version = 1
		m.Data = nil
		m.ChangesHash[0] ^= 1 // field changed, hash and signature left stale
	case "block-mutated":
		if len(d.AccountBlocks) == 0 {
			return false
		}
		b := d.AccountBlocks[r.Intn(len(d.AccountBlocks))]
		if b.BlockType == nom.BlockTypeContractSend {
			return false
		}
		// hash of the block no longer matches its content (call data is not used for this: send validation of
		// embedded calls re-encodes Data canonically, which silently repairs a trailing byte)
		if b.IsSendBlock() {
			b.Amount = new(big.Int).Add(b.Amount, big.NewInt(1))
		} else {
			b.FromBlockHash[5] ^= 0x10
		}
		c16LastMutatedBlock = b
		c16LastMutated = fmt.Sprintf("type=%d address=%s height=%d descendants=%d", b.BlockType, b.Address, b.Height, len(b.DescendantBlocks))
	case "block-missing":
		if len(d.AccountBlocks) == 0 {
			return false
		}
		k := r.Intn(len(d.AccountBlocks))
		d.AccountBlocks = append(append([]*nom.AccountBlock{}, d.AccountBlocks[:k]...), d.AccountBlocks[k+1:]...)
	case "block-extra-on-empty":
		// a momentum WITHOUT content that carries a block all the same: the first block of the next non-empty momentum
		// (not yet confirmed at this point, usually applicable)
		if len(d.AccountBlocks) != 0 || len(m.Content) != 0 {
			return false
		}
		// applicable at this point: a user block confirmed later whose acknowledged momentum lies below this one,
		// whose account has no earlier block in between, and (a receive) whose send is not confirmed in between either
		seenAddr, seenHash := map[types.Address]bool{}, map[types.Hash]bool{}
		for j := i + 1; j < len(batch); j++ {
			for _, b := range batch[j].AccountBlocks {
				user := b.BlockType == nom.BlockTypeUserSend || b.BlockType == nom.BlockTypeUserReceive
				if user && !seenAddr[b.Address] && b.MomentumAcknowledged.Height < m.Height && !(b.BlockType == nom.BlockTypeUserReceive && seenHash[b.FromBlockHash]) {
					d.AccountBlocks = append(d.AccountBlocks, simnet.CloneBlock(b))
					return true
				}
				seenAddr[b.Address] = true
				seenHash[b.Hash] = true
				for _, x := range b.DescendantBlocks {
					seenHash[x.Hash] = true
				}
			}
		}
		// otherwise a contract send from anywhere in the delivery (the import path never applies those on their own:
		// only the content check can object), or else a block that an earlier element of the delivery confirms
		var sends, earlier []*nom.AccountBlock
		for j := range batch {
			for _, b := range batch[j].AccountBlocks {
				if b.BlockType == nom.BlockTypeContractSend {
					sends = append(sends, b)
				} else if j < i {
					earlier = append(earlier, b)
				}
			}
		}
		if len(sends) > 0 {
			d.AccountBlocks = append(d.AccountBlocks, simnet.CloneBlock(sends[r.Intn(len(sends))]))
			return true
		}
		if len(earlier) > 0 {
			d.AccountBlocks = append(d.AccountBlocks, simnet.CloneBlock(earlier[r.Intn(len(earlier))]))
			return true
		}
		return false
	case "block-extra":
		// an unrelated block from another momentum of the batch
		for j := range batch {
			if j != i && len(batch[j].AccountBlocks) > 0 {
				d.AccountBlocks = append(d.AccountBlocks, simnet.CloneBlock(batch[j].AccountBlocks[0]))
				return true
			}
		}
		return false
	case "content-reordered":
		// needs two entries of one account so that order matters
		// (a contract-send entry is skipped by verification and application alike: swapping it with its parent receive
		// gives a different but equally valid momentum, so only pairs of non-batched blocks count)
		batched := map[types.Hash]bool{}
		for _, b := range d.AccountBlocks {
			if b.BlockType == nom.BlockTypeContractSend {
				batched[b.Hash] = true
			}
		}
		seen := map[types.Address]int{}
		for k, hd := range m.Content {
			if batched[hd.Hash] {
				continue
			}
			if j, ok := seen[hd.Address]; ok {
				m.Content[j], m.Content[k] = m.Content[k], m.Content[j]
				c16Resign(m, producer)
				reload()
				return true
			}
			seen[hd.Address] = k
		}
		return false
	case "timestamp-not-increasing":
		if i == 0 {
			return false
		}
		m.TimestampUnix = batch[i-1].Momentum.TimestampUnix
		c16Resign(m, producer)
	case "data-not-empty":
		m.Data = []byte{1}
		c16Resign(m, producer)
	}
	reload()
	return true
}

func c16Run(c *fw.C, caseID string) {
	if strings.HasPrefix(caseID, "peer:") && c16PeerRun != nil {
		c16PeerRun(c, caseID)
		return
	}
	r := c.Rand(caseID)
	base := c.ScratchDir("c16")
	defer os.RemoveAll(base)

	A := simnet.Open("A", base+"/A", simnet.MockGenesis(), g.PillarKeys)
	defer A.Stop()
	wA := simnet.NewWorkload(rand.New(rand.NewSource(r.Int63())), A)
	// chains are not gap-free: pillars miss slots, now and then for longer than a tick (which moves the election proof
	// momentum of later ticks into the forked part of the chain)
	grow := func(n *simnet.Node, w *simnet.Workload, k int) bool {
		for i := 0; i < k; i++ {
			w.Step(4)
			skip := 0
			switch x := r.Intn(40); {
			case x < 5:
				skip = 1 + r.Intn(3)
			case x < 7:
				skip = 20 + r.Intn(50)
			}
			var err error
			for try := 0; try < 6; try++ {
				if _, err = n.Produce(skip + try); err == nil {
					break
				}
			}
			if err != nil {
				c.Violation("producer-cannot-produce", err.Error())
				return false
			}
			if skip > 0 {
				c.Count("slots_skipped_by_producers", skip)
			}
		}
		return true
	}
	prefix := 10 + r.Intn(30)
	if !grow(A, wA, prefix) {
		return
	}
	B := simnet.Open("B", base+"/B", simnet.MockGenesis(), g.PillarKeys)
	defer B.Stop()
	if err := B.SyncFrom(A, 64); err != nil {
		c.Violation("sync-failed", err.Error())
		return
	}
	wB := simnet.NewWorkload(rand.New(rand.NewSource(r.Int63())), B)
	forkPoint := A.Height()
	depthA := 1 + r.Intn(36) // local branch length beyond the fork point (up to beyond the 30 window)
	if r.Intn(3) == 0 {
		depthA = 28 + r.Intn(6)
	}
	lenB := depthA - 2 + r.Intn(8) // shorter, equal or longer
	if lenB < 1 {
		lenB = 1
	}
	if !grow(A, wA, depthA) || !grow(B, wB, lenB) {
		return
	}

	// N is the node under test: it follows A (local chain L)
	N := simnet.Open("N", base+"/N", simnet.MockGenesis(), nil)
	defer N.Stop()
	if err := N.SyncFrom(A, 64); err != nil {
		c.Violation("sync-failed", err.Error())
		return
	}

	c16NodeSchedule = func(t time.Time) *wallet.KeyPair {
		a, err := N.Cons.GetMomentumProducer(t)
		if err != nil || a == nil {
			return nil
		}
		return c16PillarKey(*a)
	}
	defer func() {
		c16NodeSchedule = nil
		c.Count("wrong_producers_taken_from_the_schedule_of_the_nodes_own_branch", c16WrongProducerFromOwnBranch)
		c16WrongProducerFromOwnBranch = 0
	}()
	caseIdx, corruptions := 0, 0
	fmt.Sscanf(caseID, "net:%d", &caseIdx)
	nDeliveries := 14
	everHeld := map[types.Hash]bool{} // every momentum the node has held (and verified) at some point of the case
	for di := 0; di < nDeliveries; di++ {
		L := c16ChainHashes(N)
		onChain := map[types.Hash]bool{}
		for _, h := range L {
			everHeld[h] = true
			onChain[h] = true
		}
		dumpBefore := N.DumpFrontier()
		// choose a delivery
		shape := []string{"side-chain", "side-chain", "side-chain-corrupt", "side-chain-corrupt", "extension", "extension-corrupt", "known-prefix", "overlap", "non-contiguous", "gap-above-frontier", "from-genesis", "single-old"}[r.Intn(12)]
		src := B
		if N.Frontier().Hash == B.Frontier().Hash || c16OnChain(N, B) {
			src = A // N currently follows B: the other chain is the side chain
		}
		// the chain N is on right now, as a producer node (for extensions)
		cur := A
		if src == A {
			cur = B
		}
		fp := forkPoint
		var batch []*nom.DetailedMomentum
		var exp c16Expect
		exp.unchanged = true
		corruptAt, kind := -1, ""
		overlap := uint64(0)
		switch shape {
		case "side-chain", "side-chain-corrupt":
			// half of the time the other chain is made longer first, so that the node is asked to switch (back) to a
			// branch it held and verified before — possibly with a corrupted element among the momentums it once held
			if src.Height() <= N.Height() && r.Intn(2) == 0 {
				w := wA
				if src == B {
					w = wB
				}
				if !grow(src, w, int(N.Height()-src.Height())+1+r.Intn(3)) {
					return
				}
				c.Count("side_chains_grown_to_ask_for_a_switch_back", 1)
			}
			from := fp + 1
			if r.Intn(2) == 0 && fp > 8 {
				overlap = uint64(r.Intn(7)) // the delivery starts with momentums the node already holds
				from = fp + 1 - overlap
			}
			batch = simnet.CloneBatch(src.Range(from, src.Height()))
		case "extension", "extension-corrupt":
			// let the current chain's producer grow by a few and deliver the new part
			w := wA
			if cur == B {
				w = wB
			}
			if !grow(cur, w, 1+r.Intn(5)) {
				return
			}
			batch = simnet.CloneBatch(cur.Range(N.Height()+1, cur.Height()))
		case "known-prefix":
			lo := uint64(1 + r.Intn(int(N.Height())))
			hi := lo + uint64(r.Intn(10))
			if hi > N.Height() {
				hi = N.Height()
			}
			batch = simnet.CloneBatch(N.Range(lo, hi))
		case "overlap":
			if cur.Height() <= N.Height() {
				w := wA
				if cur == B {
					w = wB
				}
				if !grow(cur, w, 1+r.Intn(3)) {
					return
				}
			}
			lo := N.Height() - uint64(r.Intn(int(minU64(N.Height()-1, 8))))
			batch = simnet.CloneBatch(cur.Range(lo, cur.Height()))
		case "non-contiguous":
			all := src.Range(fp+1, src.Height())
			if len(all) < 3 {
				continue
			}
			k := 1 + r.Intn(len(all)-2)
			batch = simnet.CloneBatch(append(append([]*nom.DetailedMomentum{}, all[:k]...), all[k+1:]...))
		case "gap-above-frontier":
			if src.Height() < N.Height()+2 {
				continue
			}
			batch = simnet.CloneBatch(src.Range(N.Height()+2, src.Height()))
		case "from-genesis":
			batch = simnet.CloneBatch(src.Range(1, minU64(src.Height(), 5+uint64(r.Intn(20)))))
		case "single-old":
			h := 2 + uint64(r.Intn(int(fp)))
			batch = simnet.CloneBatch(src.Range(h, h))
		}
		if len(batch) == 0 {
			continue
		}
		if strings.HasSuffix(shape, "-corrupt") {
			// kinds rotate (case index and corruptions so far decide) instead of being drawn: every kind is applied
			// several times in every run of the quick tier, whatever the seed
			kind = c16Kinds[(caseIdx*5+corruptions)%len(c16Kinds)]
			corruptions++
			_ = r.Intn(len(c16Kinds)) // keeps the rest of the case's random choices where they were
			corruptAt = r.Intn(len(batch))
			if shape == "side-chain-corrupt" && r.Intn(2) == 0 {
				// aim at the interesting window: the failing element sits around the length of the node's own branch
				// (counted after / before stripping the known prefix)
				own := int(uint64(len(L)) - fp)
				pos := int(overlap) + own - 2 + r.Intn(4)
				if pos >= int(overlap) && pos < len(batch) {
					corruptAt = pos
				}
			}
			if kind == "bad-signature" || kind == "wrong-producer" || kind == "non-pillar-producer" {
				// these keep or re-make the hash of an element: aim preferably at a momentum the node held and verified
				// before and has left since (whatever it remembers about it must not let the broken copy pass)
				var was []int
				for i, d := range batch {
					if everHeld[d.Momentum.Hash] && !onChain[d.Momentum.Hash] {
						was = append(was, i)
					}
				}
				if len(was) > 0 && r.Intn(3) != 0 {
					corruptAt = was[r.Intn(len(was))]
					c.Count("corruption_aimed_at_a_momentum_the_node_held_before "+kind, 1)
				}
			}
			if kind == "block-extra-on-empty" {
				var empties []int
				for i, d := range batch[:len(batch)-1] {
					if len(d.Momentum.Content) == 0 {
						empties = append(empties, i)
					}
				}
				if len(empties) > 0 {
					corruptAt = empties[r.Intn(len(empties))]
				}
			}
			c16LastMutatedBlock = nil
			applied := c16Corrupt(batch, corruptAt, kind, r)
			for off := 1; !applied && off < len(batch); off++ {
				// not applicable to that element (e.g. nothing to reorder in it): the next one that it applies to
				if applied = c16Corrupt(batch, (corruptAt+off)%len(batch), kind, r); applied {
					corruptAt = (corruptAt + off) % len(batch)
				}
			}
			if !applied {
				c.Count("corruption_not_applicable "+kind, 1)
				corruptAt, kind = -1, ""
			} else if kind == "block-mutated" && c16LastMutatedBlock != nil && N.Chain.GetPatch(c16LastMutatedBlock.Address, c16LastMutatedBlock.Identifier()) != nil {
				// the node already holds the genuine block with this identifier in its pool (left there by an earlier
				// delivery whose momentum failed): the delivered copy is ignored, so the corruption has no effect
				corruptAt, kind = -1, "block-mutated-but-already-pooled"
			}
		}
		exp = c16Model(L, batch, corruptAt)
		idx, err, panicked := c16Insert(N, batch)
		c.Eval(1)
		after := c16ChainHashes(N)
		posClass := "none"
		if corruptAt >= 0 {
			switch {
			case corruptAt == 0:
				posClass = "first"
			case corruptAt == len(batch)-1:
				posClass = "last"
			default:
				posClass = "middle"
			}
		}
		depthClass := "n/a"
		if strings.HasPrefix(shape, "side-chain") {
			d := len(L) - int(fp)
			switch {
			case d > 30:
				depthClass = ">30"
			case d >= 25:
				depthClass = "25-30"
			case d > 5:
				depthClass = "6-24"
			default:
				depthClass = "1-5"
			}
		}
		outcome := "accepted"
		if err != nil {
			outcome = "error"
		}
		c.Distinct(fmt.Sprintf("%s/depth=%s/%s@%s/%s/%s", shape, depthClass, kind, posClass, exp.class, outcome))
		if kind != "" {
			es := fmt.Sprint(err)
			if len(es) > 60 {
				es = es[:60]
			}
			c.SetAdd("corruption_outcomes", fmt.Sprintf("%s expected=%s -> %s %s", kind, exp.class, outcome, es))
			c.Count("corruption_applied "+kind, 1)
			if exp.class == "fail-at" {
				c.Count("corruption_reached_by_verification "+kind, 1)
			}
		}
		witness := func(extra map[string]interface{}) map[string]interface{} {
			m := map[string]interface{}{"shape": shape, "local_height": len(L), "fork_point": fp, "batch_from": batch[0].Momentum.Height, "batch_len": len(batch),
				"corrupt_kind": kind, "corrupt_at": corruptAt, "mutated_block": c16LastMutated, "returned_index": idx, "returned_err": fmt.Sprint(err), "expected": exp.class, "height_after": len(after)}
			for k, v := range extra {
				m[k] = v
			}
			return m
		}
		if panicked != "" {
			c.Violation("insertchain-panics "+shape, witness(map[string]interface{}{"panic": panicked}))
			return
		}
		// compare with the model
		ok := true
		switch exp.class {
		case "no-change-ok":
			if err != nil || !c16Same(after, L) {
				c.Violation("known-momentums-redelivered-changes-or-errors", witness(nil))
				ok = false
			}
		case "refuse-no-change":
			if err == nil {
				c.Violation("delivery-that-must-be-refused-accepted "+exp.why, witness(nil))
				ok = false
			} else if !c16Same(after, L) {
				c.Violation("refused-delivery-changed-the-chain "+exp.why, witness(nil))
				ok = false
			}
		case "adopt-all":
			if err != nil {
				c.Violation("valid-longer-chain-refused "+shape, witness(nil))
				ok = false
			} else if !c16Same(after, exp.chain) {
				c.Violation("adopted-chain-is-not-the-delivered-one "+shape, witness(nil))
				ok = false
			}
		case "fail-at":
			if err == nil {
				c.Violation("invalid-element-accepted "+kind, witness(nil))
				ok = false
			} else {
				if idx != exp.failIndex {
					c.Violation("wrong-failing-index-reported "+kind, witness(map[string]interface{}{"expected_index": exp.failIndex}))
					ok = false
				}
				if len(after) <= len(L) && !c16Same(after, L) {
					// it left its own chain for a chain that did not verify and is not longer
					c.Violation("left-own-chain-for-side-chain-that-failed-verification", witness(map[string]interface{}{"own_height": len(L), "height_now": len(after)}))
					ok = false
				} else if !c16Same(after, exp.chain) {
					// the node must hold exactly the verified prefix
					c.Violation("chain-after-failure-is-not-the-verified-prefix "+kind, witness(map[string]interface{}{"expected_height": len(exp.chain)}))
					ok = false
				}
			}
		}
		if !ok {
			return
		}
		if exp.class == "no-change-ok" || exp.class == "refuse-no-change" {
			if diffs := simnet.DiffDumps(dumpBefore, N.DumpFrontier(), 4); len(diffs) > 0 {
				c.Violation("store-changed-by-delivery-that-changes-nothing "+shape, witness(map[string]interface{}{"diffs": diffs}))
				return
			}
		}
		// re-delivery of the same batch must change nothing further
		if err == nil && r.Intn(2) == 0 {
			d2 := N.DumpFrontier()
			_, err2, p2 := c16Insert(N, simnet.CloneBatch(batch))
			c.Eval(1)
			if p2 != "" || err2 != nil || len(simnet.DiffDumps(d2, N.DumpFrontier(), 2)) > 0 {
				c.Violation("redelivery-changes-something", witness(map[string]interface{}{"err2": fmt.Sprint(err2), "panic2": p2}))
				return
			}
		}
		// audit: replay N's chain from genesis on a fresh node
		if di%5 == 4 || di == nDeliveries-1 {
			if !c16Audit(c, N, base, di) {
				return
			}
		}
	}
	if caseID == "net:0" {
		c.Sample(map[string]interface{}{"case": caseID, "prefix": prefix, "local_branch": depthA, "other_branch": lenB, "deliveries": nDeliveries})
	}
}

func minU64(a, b uint64) uint64 {
	if a < b {
		return a
	}
	return b
}

func c16OnChain(n, p *simnet.Node) bool {
	// does n's frontier lie on p's chain?
	f := n.Frontier()
	m, _ := p.Chain.GetFrontierMomentumStore().GetMomentumByHeight(f.Height)
	return m != nil && m.Hash == f.Hash
}

func c16Same(a, b []types.Hash) bool {
	if len(a) != len(b) {
		return false
	}
	for i := range a {
		if a[i] != b[i] {
			return false
		}
	}
	return true
}

func c16Insert(n *simnet.Node, batch []*nom.DetailedMomentum) (idx int, err error, panicked string) {
	defer func() {
		if r := recover(); r != nil {
			panicked = fmt.Sprint(r)
		}
	}()
	idx, err = n.InsertChain(batch)
	return
}

type c16Expect struct {
	class     string // no-change-ok | refuse-no-change | adopt-all | fail-at
	why       string
	chain     []types.Hash
	failIndex int
	unchanged bool
}

// c16Model is the specification: what must happen when batch D (first invalid element at corruptAt, or -1)
// is delivered to a node whose chain is L.
func c16Model(L []types.Hash, D []*nom.DetailedMomentum, corruptAt int) c16Expect {
	at := func(h uint64) (types.Hash, bool) {
		if h == 0 || h > uint64(len(L)) {
			return types.Hash{}, false
		}
		return L[h-1], true
	}
	// strip what is already known (same hash at the same height). A corrupted element keeps its hash unless the
	// corruption changed the hash; if its hash is known it counts as known.
	start := 0
	for ; start < len(D); start++ {
		h, ok := at(D[start].Momentum.Height)
		if !ok || h != D[start].Momentum.Hash {
			break
		}
	}
	if start == len(D) {
		return c16Expect{class: "no-change-ok"}
	}
	// the rest must be contiguous and link
	rest := D[start:]
	head := rest[0].Momentum
	tail := rest[len(rest)-1].Momentum
	parent, ok := at(head.Height - 1)
	if head.Height <= 1 || !ok || parent != head.PreviousHash {
		return c16Expect{class: "refuse-no-change", why: "does-not-link"}
	}
	frontierH := uint64(len(L))
	side := head.Height-1 != frontierH
	if side {
		if frontierH-(head.Height-1) > 30 {
			return c16Expect{class: "refuse-no-change", why: "beyond-rollback-window"}
		}
		if tail.Height <= frontierH {
			return c16Expect{class: "refuse-no-change", why: "not-longer"}
		}
	}
	// walk: first element that is invalid (by construction) or does not link to its predecessor in the batch
	chain := append([]types.Hash{}, L[:head.Height-1]...)
	prevHash := parent
	prevHeight := head.Height - 1
	for i, d := range rest {
		m := d.Momentum
		bad := start+i == corruptAt
		if m.Height != prevHeight+1 || m.PreviousHash != prevHash {
			bad = true
		}
		if bad {
			// a side chain that fails before it got strictly longer than the node's own branch must leave the node on its own chain
			if own := frontierH - (head.Height - 1); side && uint64(i) <= own {
				return c16Expect{class: "fail-at", chain: append([]types.Hash{}, L...), failIndex: start + i}
			}
			return c16Expect{class: "fail-at", chain: chain, failIndex: start + i}
		}
		chain = append(chain, m.Hash)
		prevHash, prevHeight = m.Hash, m.Height
	}
	return c16Expect{class: "adopt-all", chain: chain}
}

func c16Audit(c *fw.C, N *simnet.Node, base string, di int) bool {
	dir := fmt.Sprintf("%s/audit-%d", base, di)
	F := simnet.Open("audit", dir, simnet.MockGenesis(), nil)
	defer func() {
		F.Stop()
		os.RemoveAll(dir)
	}()
	c.Eval(1)
	if err := F.SyncFrom(N, 50); err != nil {
		c.Violation("node-holds-chain-that-does-not-verify-from-genesis", map[string]interface{}{"err": err.Error(), "height": N.Height()})
		return false
	}
	if diffs := simnet.DiffDumps(N.DumpFrontier(), F.DumpFrontier(), 4); len(diffs) > 0 {
		c.Violation("node-state-differs-from-replay-of-its-own-chain", map[string]interface{}{"diffs": diffs, "height": N.Height()})
		return false
	}
	return true
}
