//go:build verif

package checks

// C15 — discovery piece: the genuine packet decoder and a genuine udp transport running over
// an in-memory connection (through p2p/discover/export_verif.go).

import (
	"bytes"
	"crypto/ecdsa"
	"errors"
	"fmt"
	"math"
	"math/rand"
	"net"
	"runtime/debug"
	"sync"
	"time"

	"github.com/ethereum/go-ethereum/crypto"

	"github.com/zenon-network/go-zenon/p2p/discover"

	"verif/harness/fw"
	"verif/harness/simnet"
)

var c15DiscClasses = []string{"decode-bits", "decode-truncate", "decode-random", "decode-rehash", "decode-resigned", "decode-node-packets",
	"ping-valid", "ping-expired", "ping-wrong-version", "findnode-unbonded", "findnode-bonded", "findnode-expired",
	"unsolicited-replies", "replay", "oversize", "hostile-values", "unknown-type", "neighbors-solicited", "blind-pong", "flood"}

const (
	c15Ping      = 1
	c15Pong      = 2
	c15Findnode  = 3
	c15Neighbors = 4
)

// ---- independent packet codec (from the protocol description) ----

func c15Endpoint(ip []byte, udp, tcp uint16) []byte {
	return c15RlpList(c15RlpStr(ip), c15RlpUint(uint64(udp)), c15RlpUint(uint64(tcp)))
}

func c15PingBody(version uint64, from, to []byte, exp uint64) []byte {
	return c15RlpList(c15RlpUint(version), from, to, c15RlpUint(exp))
}

func c15PongBody(to []byte, tok []byte, exp uint64) []byte {
	return c15RlpList(to, c15RlpStr(tok), c15RlpUint(exp))
}

func c15FindnodeBody(target []byte, exp uint64) []byte {
	return c15RlpList(c15RlpStr(target), c15RlpUint(exp))
}

func c15RpcNode(ip []byte, udp, tcp uint16, id []byte) []byte {
	return c15RlpList(c15RlpStr(ip), c15RlpUint(uint64(udp)), c15RlpUint(uint64(tcp)), c15RlpStr(id))
}

func c15NeighborsBody(nodes [][]byte, exp uint64) []byte {
	return c15RlpList(c15RlpList(nodes...), c15RlpUint(exp))
}

// c15Packet = hash(32) || signature(65) || type(1) || rlp body
func c15Packet(key *ecdsa.PrivateKey, ptype byte, body []byte) []byte {
	sigdata := append([]byte{ptype}, body...)
	sig, err := crypto.Sign(crypto.Keccak256(sigdata), key)
	if err != nil {
		panic(err)
	}
	rest := append(sig, sigdata...)
	return append(crypto.Keccak256(rest), rest...)
}

// c15Envelope wraps arbitrary signed data (normally type byte + body) in a VALID envelope: signature by key, hash on top.
func c15Envelope(key *ecdsa.PrivateKey, sigdata []byte) []byte {
	sig, err := crypto.Sign(crypto.Keccak256(sigdata), key)
	if err != nil {
		panic(err)
	}
	rest := append(sig, sigdata...)
	return append(crypto.Keccak256(rest), rest...)
}

func c15Rehash(p []byte) []byte {
	out := append([]byte(nil), p...)
	copy(out, crypto.Keccak256(out[32:]))
	return out
}

// parsed view of a datagram the node sent (own parser)
type c15Dgram struct {
	to    *net.UDPAddr
	data  []byte
	ptype byte
	items [][]byte // top-level items of the body
	hash  []byte
}

// ---- in-memory connection ----

type c15Conn struct {
	mu     sync.Mutex
	log    []c15Dgram
	wake   chan struct{}
	in     chan c15Dgram
	closed chan struct{}
	once   sync.Once
	local  *net.UDPAddr
	auto   map[string]*ecdsa.PrivateKey // destination address -> identity that answers pings there
}

func c15NewConn() *c15Conn {
	return &c15Conn{wake: make(chan struct{}, 1), in: make(chan c15Dgram, 256), closed: make(chan struct{}),
		local: &net.UDPAddr{IP: net.IPv4(127, 0, 0, 1), Port: 30303}, auto: map[string]*ecdsa.PrivateKey{}}
}

func (n *c15Conn) ReadFromUDP(b []byte) (int, *net.UDPAddr, error) {
	select {
	case d := <-n.in:
		return copy(b, d.data), d.to, nil // like UDP: what does not fit is cut off
	case <-n.closed:
		return 0, nil, errors.New("closed")
	}
}

func (n *c15Conn) WriteToUDP(b []byte, addr *net.UDPAddr) (int, error) {
	d := c15Dgram{to: addr, data: append([]byte(nil), b...)}
	if len(b) > 32+65 {
		d.hash = d.data[:32]
		d.ptype = b[32+65]
		d.items, _ = c15RlpItems(b[32+65+1:])
	}
	n.mu.Lock()
	n.log = append(n.log, d)
	key := n.auto[addr.String()]
	n.mu.Unlock()
	select {
	case n.wake <- struct{}{}:
	default:
	}
	if d.ptype == c15Ping && key != nil {
		// a responsive peer: answer the node's ping with a pong carrying the ping's hash
		pong := c15Packet(key, c15Pong, c15PongBody(c15Endpoint(n.local.IP.To4(), uint16(n.local.Port), 0), d.hash, c15Future()))
		go n.inject(addr, pong)
	}
	return len(b), nil
}

func (n *c15Conn) Close() error        { n.once.Do(func() { close(n.closed) }); return nil }
func (n *c15Conn) LocalAddr() net.Addr { return n.local }

func (n *c15Conn) inject(from *net.UDPAddr, data []byte) bool {
	select {
	case n.in <- c15Dgram{to: from, data: data}:
		return true
	case <-n.closed:
		return false
	case <-time.After(c15Watchdog):
		return false
	}
}

func (n *c15Conn) logLen() int {
	n.mu.Lock()
	defer n.mu.Unlock()
	return len(n.log)
}

// sentTo returns the datagrams written to addr from log index `from` on.
func (n *c15Conn) sentTo(addr *net.UDPAddr, from int) []c15Dgram {
	n.mu.Lock()
	defer n.mu.Unlock()
	var l []c15Dgram
	for _, d := range n.log[from:] {
		if d.to.String() == addr.String() {
			l = append(l, d)
		}
	}
	return l
}

// waitFor waits until pred holds for a datagram logged at index >= from.
func (n *c15Conn) waitFor(from int, pred func(d c15Dgram) bool) (c15Dgram, bool) {
	deadline := time.After(c15Watchdog)
	for {
		n.mu.Lock()
		for _, d := range n.log[from:] {
			if pred(d) {
				n.mu.Unlock()
				return d, true
			}
		}
		n.mu.Unlock()
		select {
		case <-n.wake:
		case <-time.After(20 * time.Millisecond):
		case <-deadline:
			return c15Dgram{}, false
		}
	}
}

func c15Future() uint64 { return uint64(time.Now().Add(time.Hour).Unix()) }
func c15Past() uint64   { return uint64(time.Now().Add(-time.Hour).Unix()) }

// ---- one discovery node under test ----

type c15Disc struct {
	c      *fw.C
	conn   *c15Conn
	tab    *discover.Table
	udp    *discover.UDPForVerif
	nodeID discover.NodeID
	rng    *rand.Rand
	nextIP int
	honest *c15Ident
}

type c15Ident struct {
	key  *ecdsa.PrivateKey
	id   discover.NodeID
	addr *net.UDPAddr
}

func c15NewDisc(c *fw.C, rng *rand.Rand) *c15Disc {
	simnet.Setup()
	d := &c15Disc{c: c, conn: c15NewConn(), rng: rng}
	key := c15Key(rng)
	d.nodeID = discover.PubkeyID(&key.PublicKey)
	d.tab, d.udp = discover.NewUDPForVerif(key, d.conn, "")
	d.honest = d.ident(true)
	return d
}

func (d *c15Disc) close() {
	defer func() { _ = recover() }()
	d.tab.Close()
}

func (d *c15Disc) ident(responsive bool) *c15Ident {
	d.nextIP++
	k := c15Key(d.rng)
	id := &c15Ident{key: k, id: discover.PubkeyID(&k.PublicKey), addr: &net.UDPAddr{IP: net.IPv4(10, 0, byte(d.nextIP>>8), byte(d.nextIP)), Port: 30000 + d.nextIP}}
	if responsive {
		d.conn.mu.Lock()
		d.conn.auto[id.addr.String()] = k
		d.conn.mu.Unlock()
	}
	return id
}

func (d *c15Disc) ep(a *net.UDPAddr) []byte {
	return c15Endpoint(a.IP.To4(), uint16(a.Port), uint16(a.Port))
}

func (d *c15Disc) pingFrom(id *c15Ident, exp uint64) []byte {
	return c15Packet(id.key, c15Ping, c15PingBody(4, d.ep(id.addr), d.ep(d.conn.local), exp))
}

// handle feeds a datagram straight to the genuine handlePacket, recovering panics.
func (d *c15Disc) handle(from *net.UDPAddr, data []byte) (err error, pnc interface{}, stack string) {
	defer func() {
		if r := recover(); r != nil {
			pnc, stack = r, string(debug.Stack())
		}
	}()
	err = d.udp.HandlePacket(from, data)
	return
}

// live: a valid ping from the honest identity, through the read loop, must be answered by a pong
// that carries the ping's hash. Proves the read loop survived everything injected before.
func (d *c15Disc) live(after string) bool {
	p := d.pingFrom(d.honest, c15Future())
	mark := d.conn.logLen()
	if !d.conn.inject(d.honest.addr, p) {
		d.c.Inconclusive("discovery: read loop does not take datagrams any more, after " + after)
		return false
	}
	_, ok := d.conn.waitFor(mark, func(g c15Dgram) bool {
		return g.ptype == c15Pong && g.to.String() == d.honest.addr.String() && len(g.items) == 3 && bytes.Contains(g.items[1], p[:32])
	})
	if !ok {
		d.c.Inconclusive("discovery: honest ping unanswered when the watchdog fired, after " + after)
		return false
	}
	d.c.Eval(1)
	return true
}

// bond makes the node bond with a responsive identity (ping -> pong + node's ping -> our pong).
func (d *c15Disc) bond(id *c15Ident) bool {
	if !d.conn.inject(id.addr, d.pingFrom(id, c15Future())) {
		return false
	}
	for i := 0; i < 4000; i++ {
		if d.udp.Bonded(id.id) {
			return true
		}
		time.Sleep(5 * time.Millisecond)
	}
	return false
}

func (d *c15Disc) panicViolation(class, what string, data []byte, pnc interface{}, stack string) {
	_, frame := c15TopFrame("panic: " + fmt.Sprint(pnc) + "\n\ngoroutine 1 [running]:\n" + stack)
	d.c.Violation("discovery-panic "+class, map[string]interface{}{"what": what, "datagram_hex": fmt.Sprintf("%x", data), "panic": fmt.Sprint(pnc), "top_frame": frame, "stack": c15Trim(stack),
		"note": "udp.readLoop has no recover: in the real node this panic terminates the process"})
}

func c15TryDecode(buf []byte) (ptype byte, reenc []byte, id discover.NodeID, err error, pnc interface{}, stack string) {
	defer func() {
		if r := recover(); r != nil {
			pnc, stack = r, string(debug.Stack())
		}
	}()
	ptype, reenc, id, _, err = discover.DecodePacketForVerif(buf)
	return
}

func c15RunDisc(c *fw.C, caseID string, parts []string) {
	class := parts[1]
	rng := c.Rand(caseID)
	d := c15NewDisc(c, rng)
	defer d.close()
	hostile := d.ident(false)
	hostileID := hostile.id
	target := make([]byte, 64)
	rng.Read(target)

	// genuine sample packets made with the independent encoder, all four types
	samples := map[string][]byte{
		"ping":      d.pingFrom(hostile, c15Future()),
		"pong":      c15Packet(hostile.key, c15Pong, c15PongBody(d.ep(d.conn.local), target[:32], c15Future())),
		"findnode":  c15Packet(hostile.key, c15Findnode, c15FindnodeBody(target, c15Future())),
		"neighbors": c15Packet(hostile.key, c15Neighbors, c15NeighborsBody([][]byte{c15RpcNode([]byte{10, 1, 2, 3}, 30303, 30303, target)}, c15Future())),
	}
	names := []string{"ping", "pong", "findnode", "neighbors"}
	ptypeOf := map[string]byte{"ping": c15Ping, "pong": c15Pong, "findnode": c15Findnode, "neighbors": c15Neighbors}
	// control: the decoder accepts them, attributes them to the signer and re-encodes to the same body
	for _, nme := range names {
		pt, re, id, err, pnc, _ := c15TryDecode(samples[nme])
		c.Eval(1)
		if err != nil || pnc != nil || pt != ptypeOf[nme] || id != hostileID || !bytes.Equal(re, samples[nme][32+65+1:]) {
			c.Inconclusive(fmt.Sprintf("discovery control: independently encoded %s not decoded as sent (err=%v panic=%v)", nme, err, pnc))
			return
		}
	}
	c.Distinct("disc control: independently encoded packets decode to the signer and the same body")
	if !d.live("start") {
		return
	}
	ok := 0
	mustFailDecode := func(label string, buf []byte) {
		_, _, _, err, pnc, stack := c15TryDecode(buf)
		c.Eval(1)
		switch {
		case pnc != nil:
			d.panicViolation(class, label, buf, pnc, stack)
		case err == nil:
			c.Violation("discovery-corrupt-packet-accepted "+class, map[string]interface{}{"what": label, "datagram_hex": fmt.Sprintf("%x", buf)})
		default:
			ok++
			c.SetAdd("disc_reject_reasons", c15ErrClass(err))
		}
	}
	// feed: give a hostile datagram to the node (alternating direct call / read loop) and check liveness
	feed := func(label string, from *net.UDPAddr, buf []byte, viaLoop bool) (err error, handled bool) {
		c.Eval(1)
		if viaLoop {
			if !d.conn.inject(from, buf) {
				c.Inconclusive("discovery: read loop stuck before " + label)
				return nil, false
			}
		} else {
			var pnc interface{}
			var stack string
			err, pnc, stack = d.handle(from, buf)
			if pnc != nil {
				d.panicViolation(class, label, buf, pnc, stack)
				return nil, false
			}
		}
		if !d.live(class + ": " + label) {
			return err, false
		}
		ok++
		return err, true
	}
	noReply := func(label string, to *net.UDPAddr, mark int, buf []byte, forbidden ...byte) {
		for _, g := range d.conn.sentTo(to, mark) {
			bad := len(forbidden) == 0
			for _, f := range forbidden {
				if g.ptype == f {
					bad = true
				}
			}
			if bad {
				c.Violation("discovery-reply-sent "+class, map[string]interface{}{"what": label, "datagram_hex": fmt.Sprintf("%x", buf), "reply_type": g.ptype, "reply_len": len(g.data), "to": to.String()})
				return
			}
		}
	}

	switch class {
	case "decode-bits":
		for _, nme := range names {
			p := samples[nme]
			for b := 0; b < len(p)*8; b++ {
				mustFailDecode(fmt.Sprintf("%s bit %d", nme, b), c15FlipBit(p, b))
			}
		}
	case "decode-truncate":
		for _, nme := range names {
			p := samples[nme]
			for l := 0; l < len(p); l++ {
				mustFailDecode(fmt.Sprintf("%s cut to %d", nme, l), p[:l])
			}
		}
	case "decode-random":
		for i := 0; i < 2000; i++ {
			b := make([]byte, rng.Intn(1500))
			rng.Read(b)
			mustFailDecode("random bytes", b)
		}
	case "decode-rehash":
		// the hash is not a secret: the attacker recomputes it after tampering. The packet must then
		// never be attributed to the genuine signer with a different content.
		for i := 0; i < 1500; i++ {
			nme := names[rng.Intn(4)]
			p := append([]byte(nil), samples[nme]...)
			where := "signature"
			if rng.Intn(2) == 0 {
				p[32+rng.Intn(65)] ^= 1 << uint(rng.Intn(8))
			} else {
				where = "body"
				p[32+65+rng.Intn(len(p)-97)] ^= 1 << uint(rng.Intn(8))
			}
			p = c15Rehash(p)
			_, re, id, err, pnc, stack := c15TryDecode(p)
			c.Eval(1)
			if pnc != nil {
				d.panicViolation(class, nme+" tampered "+where+", hash recomputed", p, pnc, stack)
				continue
			}
			if err == nil && id == hostileID && !bytes.Equal(re, samples[nme][32+65+1:]) {
				c.Violation("discovery-forged-packet-attributed-to-signer", map[string]interface{}{"what": nme + " tampered " + where, "datagram_hex": fmt.Sprintf("%x", p)})
				continue
			}
			ok++
			c.SetAdd("disc_reject_reasons", c15ErrClass(err))
		}
	case "decode-resigned":
		// hash and signature are no secrets: the sender signs whatever it sends with its own key. Valid envelopes around
		// every prefix of every packet's signed part (from nothing at all — not even the type byte — to the whole
		// body), around every type byte without a body, and around random bodies: never a panic, the node stays alive,
		// and a truncated body is never decoded as a packet.
		key := hostile.key
		for _, nme := range names {
			full := samples[nme][32+65:]
			for k := 0; k <= len(full); k++ {
				buf := c15Envelope(key, full[:k])
				_, _, _, err, pnc, stack := c15TryDecode(buf)
				c.Eval(1)
				if pnc != nil {
					d.panicViolation(class, fmt.Sprintf("%s signed part cut to %d bytes, valid envelope", nme, k), buf, pnc, stack)
					continue
				}
				if k == 0 && err == nil {
					c.Violation("discovery-corrupt-packet-accepted "+class, map[string]interface{}{"what": "envelope without type byte", "datagram_hex": fmt.Sprintf("%x", buf)})
					continue
				}
				ok++
				c.SetAdd("disc_reject_reasons", c15ErrClass(err))
				if k < 3 || k%7 == 0 {
					feed(fmt.Sprintf("%s signed part cut to %d bytes", nme, k), d.ident(false).addr, buf, k%2 == 0)
				}
			}
		}
		for pt := 0; pt < 256; pt++ {
			buf := c15Envelope(key, []byte{byte(pt)})
			_, _, _, _, pnc, stack := c15TryDecode(buf)
			c.Eval(1)
			if pnc != nil {
				d.panicViolation(class, fmt.Sprintf("type byte %d without body, valid envelope", pt), buf, pnc, stack)
				continue
			}
			ok++
			feed(fmt.Sprintf("type byte %d without body", pt), d.ident(false).addr, buf, pt%2 == 0)
		}
		for i := 0; i < 600; i++ {
			body := make([]byte, rng.Intn(300))
			rng.Read(body)
			if len(body) > 0 && rng.Intn(2) == 0 {
				body[0] = byte(1 + rng.Intn(4))
			}
			buf := c15Envelope(key, body)
			_, _, _, _, pnc, stack := c15TryDecode(buf)
			c.Eval(1)
			if pnc != nil {
				d.panicViolation(class, "random signed part, valid envelope", buf, pnc, stack)
				continue
			}
			ok++
		}
	case "decode-node-packets":
		// genuine packets produced by the node itself (pong, bonding ping, neighbors), every bit flipped
		b := d.ident(true)
		if !d.bond(b) {
			c.Inconclusive("discovery: could not bond a responsive identity")
			return
		}
		mark := d.conn.logLen()
		_, _, _ = d.handle(b.addr, c15Packet(b.key, c15Findnode, c15FindnodeBody(target, c15Future())))
		var own [][]byte
		seen := map[byte]bool{}
		d.conn.mu.Lock()
		for _, g := range d.conn.log {
			if !seen[g.ptype] {
				seen[g.ptype] = true
				own = append(own, g.data)
			}
		}
		d.conn.mu.Unlock()
		_ = mark
		for _, p := range own {
			pt, _, id, err, pnc, _ := c15TryDecode(p)
			if err != nil || pnc != nil || id != d.nodeID {
				c.Inconclusive(fmt.Sprintf("discovery control: the node's own packet (type %d) does not decode to the node id: %v", pt, err))
				continue
			}
			c.Distinct(fmt.Sprintf("disc node-emitted packet type %d decodes to the node id", pt))
			for bit := 0; bit < len(p)*8; bit++ {
				mustFailDecode(fmt.Sprintf("node packet type %d bit %d", pt, bit), c15FlipBit(p, bit))
			}
		}
	case "ping-valid":
		for i := 0; i < 20; i++ {
			id := d.ident(i%2 == 0)
			p := d.pingFrom(id, c15Future())
			mark := d.conn.logLen()
			if _, h := feed("valid ping", id.addr, p, i%3 == 0); !h {
				return
			}
			if _, got := d.conn.waitFor(mark, func(g c15Dgram) bool {
				return g.ptype == c15Pong && g.to.String() == id.addr.String() && len(g.items) == 3 && bytes.Contains(g.items[1], p[:32])
			}); !got {
				c.Inconclusive("discovery: valid ping from a fresh identity not answered")
				return
			}
		}
	case "ping-expired", "ping-wrong-version":
		for i := 0; i < 40; i++ {
			id := d.ident(false)
			exp, ver := c15Future(), uint64(4)
			label := ""
			if class == "ping-expired" {
				exp = []uint64{0, 1, c15Past(), math.MaxUint64, 1 << 63}[i%5]
				label = fmt.Sprintf("ping with expiration %d", exp)
			} else {
				ver = []uint64{0, 3, 5, 255, math.MaxUint64}[i%5]
				label = fmt.Sprintf("ping with version %d", ver)
			}
			p := c15Packet(id.key, c15Ping, c15PingBody(ver, d.ep(id.addr), d.ep(d.conn.local), exp))
			mark := d.conn.logLen()
			err, h := feed(label, id.addr, p, i%2 == 1)
			if !h {
				return
			}
			if i%2 == 0 && err == nil {
				c.Violation("discovery-stale-packet-accepted "+class, map[string]interface{}{"what": label, "datagram_hex": fmt.Sprintf("%x", p)})
			}
			noReply(label, id.addr, mark, p)
			if d.udp.Bonded(id.id) {
				c.Violation("discovery-bonded-without-exchange "+class, map[string]interface{}{"what": label})
			}
		}
	case "findnode-unbonded":
		for i := 0; i < 40; i++ {
			id := d.ident(i%2 == 0)
			rng.Read(target)
			p := c15Packet(id.key, c15Findnode, c15FindnodeBody(target, c15Future()))
			mark := d.conn.logLen()
			err, h := feed("findnode from an id that never bonded", id.addr, p, i%2 == 1)
			if !h {
				return
			}
			if i%2 == 0 && err == nil {
				c.Violation("discovery-findnode-from-unbonded-accepted", map[string]interface{}{"datagram_hex": fmt.Sprintf("%x", p)})
			}
			noReply("findnode from an id that never bonded", id.addr, mark, p, c15Neighbors)
		}
	case "findnode-bonded", "findnode-expired":
		var ids []*c15Ident
		for i := 0; i < 20; i++ {
			b := d.ident(true)
			if !d.bond(b) {
				c.Inconclusive("discovery: could not bond a responsive identity")
				return
			}
			ids = append(ids, b)
		}
		for i := 0; i < 20; i++ {
			b := ids[rng.Intn(len(ids))]
			rng.Read(target)
			exp := c15Future()
			if class == "findnode-expired" {
				exp = []uint64{0, c15Past(), math.MaxUint64}[i%3]
			}
			p := c15Packet(b.key, c15Findnode, c15FindnodeBody(target, exp))
			mark := d.conn.logLen()
			err, h := feed(class, b.addr, p, false)
			if !h {
				return
			}
			replies := d.conn.sentTo(b.addr, mark)
			nodes := 0
			for _, g := range replies {
				if g.ptype == c15Neighbors && len(g.items) == 2 {
					l, _ := c15RlpItems(g.items[0])
					nodes += len(l)
					c.SetAdd("neighbors_datagram_sizes", fmt.Sprint((len(g.data)+99)/100*100))
				}
			}
			if class == "findnode-expired" {
				if err == nil {
					c.Violation("discovery-stale-packet-accepted "+class, map[string]interface{}{"datagram_hex": fmt.Sprintf("%x", p)})
				}
				noReply("expired findnode from a bonded id", b.addr, mark, p, c15Neighbors)
			} else if nodes > 0 {
				c.Distinct("disc findnode from a bonded id answered with neighbors")
			}
		}
	case "unsolicited-replies":
		for i := 0; i < 40; i++ {
			id := d.ident(false)
			var p []byte
			label := "unsolicited pong"
			if i%2 == 0 {
				tok := make([]byte, 32)
				rng.Read(tok)
				p = c15Packet(id.key, c15Pong, c15PongBody(d.ep(d.conn.local), tok, c15Future()))
			} else {
				label = "unsolicited neighbors"
				var nodes [][]byte
				for j := 0; j < rng.Intn(20); j++ {
					rng.Read(target)
					nodes = append(nodes, c15RpcNode([]byte{10, 9, byte(j), 1}, 30303, 30303, target))
				}
				p = c15Packet(id.key, c15Neighbors, c15NeighborsBody(nodes, c15Future()))
			}
			mark := d.conn.logLen()
			err, h := feed(label, id.addr, p, i%4 >= 2)
			if !h {
				return
			}
			if i%4 < 2 && err == nil {
				c.Violation("discovery-unsolicited-reply-accepted", map[string]interface{}{"what": label, "datagram_hex": fmt.Sprintf("%x", p)})
			}
			noReply(label, id.addr, mark, p)
			if d.udp.Bonded(id.id) {
				c.Violation("discovery-bonded-without-exchange "+class, map[string]interface{}{"what": label})
			}
		}
	case "replay":
		for i := 0; i < 10; i++ {
			b := d.ident(false)
			// genuine exchange by hand: our ping, the node's pong and ping, our pong
			mark := d.conn.logLen()
			if !d.conn.inject(b.addr, d.pingFrom(b, c15Future())) {
				return
			}
			g, got := d.conn.waitFor(mark, func(g c15Dgram) bool { return g.ptype == c15Ping && g.to.String() == b.addr.String() })
			if !got {
				c.Inconclusive("discovery: the node did not ping back a new identity")
				return
			}
			pong := c15Packet(b.key, c15Pong, c15PongBody(d.ep(d.conn.local), g.hash, c15Future()))
			err1, pnc, stack := d.handle(b.addr, pong)
			if pnc != nil {
				d.panicViolation(class, "solicited pong", pong, pnc, stack)
				return
			}
			if err1 != nil {
				c.Inconclusive("discovery control: solicited pong refused: " + err1.Error())
				continue
			}
			c.Eval(1)
			// the same datagram again: nothing is pending any more
			err2, h := feed("replayed pong", b.addr, pong, false)
			if !h {
				return
			}
			if err2 == nil {
				c.Violation("discovery-replayed-pong-accepted", map[string]interface{}{"datagram_hex": fmt.Sprintf("%x", pong)})
			} else {
				c.Distinct("disc replayed pong refused")
			}
			// replayed ping / findnode are answered again by design (only the expiry protects); must not crash
			p := d.pingFrom(b, c15Future())
			for r := 0; r < 5; r++ {
				if _, h := feed("replayed ping", b.addr, p, r%2 == 0); !h {
					return
				}
			}
		}
	case "oversize":
		for i := 0; i < 30; i++ {
			id := d.ident(false)
			// correctly hashed and signed, but longer than a discovery datagram may be (1280):
			// the read loop cuts it, so it must be dropped without any reply
			var nodes [][]byte
			n := 40 + rng.Intn(400)
			for j := 0; j < n; j++ {
				nodes = append(nodes, c15RpcNode([]byte{10, 9, 8, 7}, 1, 1, target))
			}
			var p []byte
			label := ""
			switch i % 3 {
			case 0:
				p, label = c15Packet(id.key, c15Neighbors, c15NeighborsBody(nodes, c15Future())), "oversize neighbors"
			case 1:
				big := make([]byte, 1300+rng.Intn(60000))
				p, label = c15Packet(id.key, c15Ping, c15PingBody(4, c15Endpoint(big, 1, 1), d.ep(d.conn.local), c15Future())), "oversize ping (huge IP field)"
			case 2:
				p = append(d.pingFrom(id, c15Future()), make([]byte, 1300+rng.Intn(5000))...)
				p, label = c15Rehash(p), "ping with trailing bytes beyond 1280"
			}
			mark := d.conn.logLen()
			if _, h := feed(fmt.Sprintf("%s (%d bytes)", label, len(p)), id.addr, p, true); !h {
				return
			}
			noReply(label, id.addr, mark, p)
		}
	case "unknown-type":
		for i := 0; i < 60; i++ {
			id := d.ident(false)
			pt := []byte{0, 5, 6, 127, 128, 255}[i%6]
			body := samples[names[i%4]][32+65+1:]
			p := c15Packet(id.key, pt, body)
			mark := d.conn.logLen()
			err, h := feed(fmt.Sprintf("packet type %d", pt), id.addr, p, i%2 == 1)
			if !h {
				return
			}
			if i%2 == 0 && err == nil {
				c.Violation("discovery-unknown-packet-type-accepted", map[string]interface{}{"type": pt})
			}
			noReply("unknown packet type", id.addr, mark, p)
		}
	case "hostile-values":
		b := d.ident(true)
		if !d.bond(b) {
			c.Inconclusive("discovery: could not bond a responsive identity")
			return
		}
		ips := [][]byte{nil, {1}, {1, 2, 3}, {1, 2, 3, 4, 5}, make([]byte, 16), make([]byte, 100), {224, 0, 0, 1}, {0, 0, 0, 0}, {255, 255, 255, 255}}
		for i := 0; i < 120; i++ {
			ip := ips[rng.Intn(len(ips))]
			from := []*c15Ident{b, hostile}[i%2]
			var p []byte
			label := ""
			switch rng.Intn(9) {
			case 0:
				p, label = c15Packet(from.key, c15Ping, c15PingBody(4, c15Endpoint(ip, uint16(rng.Intn(2)*65535), uint16(rng.Intn(2)*65535)), c15Endpoint(ip, 0, 0), c15Future())), fmt.Sprintf("ping with %d-byte IPs and extreme ports", len(ip))
			case 1:
				p, label = c15Packet(from.key, c15Ping, c15RlpList(c15RlpUint(4), d.ep(from.addr), d.ep(d.conn.local), c15RlpUint(c15Future()), c15RlpStr([]byte("extra")), c15RlpList())), "ping with extra fields"
			case 2:
				p, label = c15Packet(from.key, c15Ping, c15RlpList(c15RlpUint(4), d.ep(from.addr))), "ping with missing fields"
			case 3:
				p, label = c15Packet(from.key, c15Ping, c15RlpList(c15RlpList(), c15RlpList(), c15RlpList(), c15RlpList())), "ping made of empty lists"
			case 4:
				t := make([]byte, []int{0, 1, 63, 65, 128}[rng.Intn(5)])
				p, label = c15Packet(from.key, c15Findnode, c15FindnodeBody(t, c15Future())), fmt.Sprintf("findnode with %d-byte target", len(t))
			case 5:
				t := bytes.Repeat([]byte{[]byte{0, 0xff}[rng.Intn(2)]}, 64)
				p, label = c15Packet(from.key, c15Findnode, c15FindnodeBody(t, c15Future())), "findnode with extreme target"
			case 6:
				var nodes [][]byte
				for j := 0; j < rng.Intn(30); j++ {
					nodes = append(nodes, c15RpcNode(ips[rng.Intn(len(ips))], uint16(rng.Intn(3)), uint16(rng.Intn(70000)), d.nodeID[:]))
				}
				p, label = c15Packet(from.key, c15Neighbors, c15NeighborsBody(nodes, c15Future())), "neighbors with odd IPs, zero ports and the node's own id"
			case 7:
				p, label = c15Packet(from.key, c15Pong, c15PongBody(c15Endpoint(ip, 0, 0), make([]byte, rng.Intn(1000)), c15Future())), "pong with odd endpoint and long token"
			case 8:
				body := samples[names[rng.Intn(4)]][32+65+1:]
				p, label = c15Packet(from.key, byte(1+rng.Intn(4)), append(append([]byte(nil), body...), byte(rng.Intn(256)))), "body with a trailing byte / type-body mismatch"
			}
			if len(p) > 1280 {
				continue
			}
			if _, h := feed(label, from.addr, p, i%3 == 2); !h {
				return
			}
			c.SetAdd("disc_hostile_values", label)
		}
	case "neighbors-solicited":
		// make the node ask US (findnode) by starting a lookup, and answer with hostile neighbors
		var ids []*c15Ident
		for i := 0; i < 3; i++ {
			b := d.ident(true)
			if !d.bond(b) {
				c.Inconclusive("discovery: could not bond a responsive identity")
				return
			}
			ids = append(ids, b)
		}
		ips := [][]byte{nil, {1, 2, 3}, make([]byte, 16), make([]byte, 100), {224, 0, 0, 1}, {0, 0, 0, 0}, {10, 3, 3, 3}}
		for round := 0; round < 3; round++ {
			mark := d.conn.logLen()
			done := make(chan struct{})
			go func() {
				defer func() {
					if r := recover(); r != nil {
						d.panicViolation(class, "Lookup with hostile neighbors replies", nil, r, string(debug.Stack()))
					}
					close(done)
				}()
				var wg sync.WaitGroup
				var t discover.NodeID
				copy(t[:], target)
				d.tab.Lookup(t, &wg, false)
			}()
			// answer every findnode the node sends to one of our identities
			answered := 0
			stop := time.After(3 * time.Second)
		serve:
			for {
				select {
				case <-done:
					break serve
				case <-stop:
					break serve
				case <-time.After(10 * time.Millisecond):
				}
				for _, b := range ids {
					for _, g := range d.conn.sentTo(b.addr, mark) {
						if g.ptype != c15Findnode {
							continue
						}
						mark = d.conn.logLen()
						var nodes [][]byte
						for j := 0; j < 1+rng.Intn(16); j++ {
							nid := make([]byte, 64)
							rng.Read(nid)
							switch rng.Intn(4) {
							case 0:
								nid = d.nodeID[:]
							case 1:
								nid = ids[rng.Intn(len(ids))].id[:]
							}
							nodes = append(nodes, c15RpcNode(ips[rng.Intn(len(ips))], uint16(rng.Intn(3)*30303), uint16(rng.Intn(65536)), nid))
						}
						p := c15Packet(b.key, c15Neighbors, c15NeighborsBody(nodes, c15Future()))
						d.conn.inject(b.addr, p)
						answered++
						c.Eval(1)
					}
				}
			}
			select {
			case <-done:
			case <-time.After(c15Watchdog):
				c.Inconclusive("discovery: Lookup did not return")
				return
			}
			if !d.live("hostile neighbors replies") {
				return
			}
			if answered > 0 {
				ok++
				c.Distinct("disc solicited neighbors with hostile nodes processed")
			}
		}
	case "blind-pong":
		// Observation only (outside the statement): a pong is matched to a pending ping by sender id and
		// type alone, the echoed token is not compared. Recorded, not judged.
		bonded := 0
		for i := 0; i < 10; i++ {
			id := d.ident(false)
			mark := d.conn.logLen()
			if !d.conn.inject(id.addr, d.pingFrom(id, c15Future())) {
				return
			}
			if _, got := d.conn.waitFor(mark, func(g c15Dgram) bool { return g.ptype == c15Ping && g.to.String() == id.addr.String() }); !got {
				c.Inconclusive("discovery: the node did not ping back a new identity")
				return
			}
			tok := make([]byte, 32)
			rng.Read(tok)
			if _, h := feed("pong with a random token", id.addr, c15Packet(id.key, c15Pong, c15PongBody(d.ep(d.conn.local), tok, c15Future())), false); !h {
				return
			}
			for w := 0; w < 200 && !d.udp.Bonded(id.id); w++ {
				time.Sleep(5 * time.Millisecond)
			}
			if d.udp.Bonded(id.id) {
				bonded++
			}
		}
		c.Count("observation_bond_completed_by_pong_with_wrong_token", bonded)
		c.Distinct(fmt.Sprintf("disc blind-pong observed (bonded=%v)", bonded > 0))
	case "flood":
		// many datagrams of all kinds back to back through the read loop, then liveness
		for i := 0; i < 1500; i++ {
			id := hostile
			if i%50 == 0 {
				id = d.ident(false)
			}
			var p []byte
			switch rng.Intn(5) {
			case 0:
				p = d.pingFrom(id, c15Future())
			case 1:
				// no pong here: the node does not compare a pong's token with its ping, so ANY pong
				// signed by the hostile key would complete a bond and make neighbors replies legitimate
				p = samples[[]string{"ping", "findnode", "neighbors"}[rng.Intn(3)]]
			case 2:
				p = make([]byte, rng.Intn(1400))
				rng.Read(p)
			case 3:
				p = c15FlipBit(samples["ping"], rng.Intn(len(samples["ping"])*8))
			case 4:
				rng.Read(target)
				p = c15Packet(id.key, c15Findnode, c15FindnodeBody(target, c15Future()))
			}
			if !d.conn.inject(id.addr, p) {
				c.Inconclusive("discovery: read loop stuck during flood")
				return
			}
			c.Eval(1)
		}
		if d.live("flood of 1500 datagrams") {
			ok++
		}
		if !d.udp.Bonded(hostile.id) {
			noReply("flood", hostile.addr, 0, nil, c15Neighbors)
		}
	}
	if ok > 0 {
		c.Distinct(fmt.Sprintf("disc %s: %s", class, "all inputs handled, node alive"))
	}
	c.Count("disc_inputs", ok)
}
