package checks

// C12 part 3 — workloads for the node-level monitor: operation generator (every
// block kind), claim generator (boundaries ±1), scenarios.

import (
	"fmt"
	"math/big"
	"math/rand"
	"sync"

	g "github.com/zenon-network/go-zenon/chain/genesis/mock"
	"github.com/zenon-network/go-zenon/chain/nom"
	"github.com/zenon-network/go-zenon/common/types"
	"github.com/zenon-network/go-zenon/vm/embedded/definition"
	"github.com/zenon-network/go-zenon/wallet"

	"verif/harness/fw"
)

func c12Qsr(units int64) *big.Int { return new(big.Int).Mul(big.NewInt(units), big.NewInt(c12UnitQsr)) }

func (w *c12World) balance(kp *wallet.KeyPair, zts types.ZenonTokenStandard) *big.Int {
	b, err := w.n.Chain.GetFrontierAccountStore(kp.Address).GetBalance(zts)
	if err != nil || b == nil {
		return new(big.Int)
	}
	return b
}

func (w *c12World) randHash() types.Hash {
	var h types.Hash
	w.r.Read(h[:])
	return h
}

var c12DataLens = []int{1, 2, 3, 30, 31, 32, 100, 308, 309, 1080, 1081, 4000, 16383, 16384}

// randomOp picks a block kind the account can currently attempt.
func (w *c12World) randomOp(kp *wallet.KeyPair, actors []*wallet.KeyPair) c12Op {
	r := w.r
	znn := w.balance(kp, types.ZnnTokenStandard)
	qsr := w.balance(kp, types.QsrTokenStandard)
	hasZnn := func(v int64) bool { return znn.Cmp(big.NewInt(v)) >= 0 }
	other := actors[r.Intn(len(actors))].Address
	x := r.Intn(100)
	switch {
	case x < 22:
		// receive a confirmed, not yet received send
		hashes, err := w.n.Chain.GetFrontierMomentumStore().GetAccountMailbox(kp.Address).GetUnreceivedAccountBlockHashes(8)
		if err == nil {
			front := w.n.Chain.GetFrontierAccountStore(kp.Address)
			var open []types.Hash
			for _, h := range hashes {
				if !front.IsReceived(h) {
					open = append(open, h)
				}
			}
			if len(open) > 0 {
				op := c12Op{label: "receive", blockType: nom.BlockTypeUserReceive, from: open[r.Intn(len(open))]}
				if r.Intn(6) == 0 { // receive blocks may carry data; the flat cost applies
					op.data = make([]byte, 1+r.Intn(200))
					r.Read(op.data)
				}
				return op
			}
		}
		fallthrough
	case x < 36:
		op := c12Op{label: "send", blockType: nom.BlockTypeUserSend, to: other}
		if hasZnn(10) && r.Intn(2) == 0 {
			op.zts, op.amount = types.ZnnTokenStandard, big.NewInt(1+int64(r.Intn(9)))
		}
		return op
	case x < 58:
		l := c12DataLens[r.Intn(len(c12DataLens))]
		if r.Intn(3) == 0 {
			l = 1 + r.Intn(600)
		}
		if r.Intn(40) == 0 {
			l = c12MaxDataLen + 1 // refused whatever is paid
		}
		op := c12Op{label: "send-data", blockType: nom.BlockTypeUserSend, to: other, data: make([]byte, l)}
		r.Read(op.data)
		if hasZnn(10) && r.Intn(3) == 0 {
			op.zts, op.amount = types.ZnnTokenStandard, big.NewInt(1)
		}
		return op
	case x < 61:
		// embedded address, selector of no method: no defined cost
		op := c12Op{label: "call-unknown", blockType: nom.BlockTypeUserSend, to: types.PlasmaContract, data: make([]byte, r.Intn(12))}
		r.Read(op.data)
		return op
	}
	// embedded-contract calls
	call := func(name string, to types.Address, data []byte, zts types.ZenonTokenStandard, amount *big.Int) c12Op {
		return c12Op{label: "call " + name, blockType: nom.BlockTypeUserSend, to: to, data: data, zts: zts, amount: amount}
	}
	P, T, S, K, L, A, F := definition.ABIPillars, definition.ABIToken, definition.ABISentinel, definition.ABIStake, definition.ABILiquidity, definition.ABIAccelerator, definition.ABIPlasma
	pillarNames := []string{g.Pillar1Name, g.Pillar2Name, g.Pillar3Name}
	var ops []c12Op
	ops = append(ops,
		call("plasma", types.PlasmaContract, F.PackMethodPanic("CancelFuse", w.randHash()), types.ZnnTokenStandard, nil),
		call("pyllarxx", types.PillarContract, P.PackMethodPanic("Delegate", pillarNames[r.Intn(3)]), types.ZnnTokenStandard, nil),
		call("pyllarxx", types.PillarContract, P.PackMethodPanic("Undelegate"), types.ZnnTokenStandard, nil),
		call("pyllarxx", types.PillarContract, P.PackMethodPanic("Revoke", "no-such-pillar"), types.ZnnTokenStandard, nil),
		call("pyllarxx", types.PillarContract, P.PackMethodPanic("Update"), types.ZnnTokenStandard, nil),
		call("pyllarxx", types.PillarContract, P.PackMethodPanic("WithdrawQsr"), types.ZnnTokenStandard, nil),
		call("pyllarxx", types.PillarContract, P.PackMethodPanic("CollectReward"), types.ZnnTokenStandard, nil),
		call("pyllarxx", types.PillarContract, P.PackMethodPanic("UpdatePillar", "no-such-pillar", kp.Address, other, uint8(10), uint8(20)), types.ZnnTokenStandard, nil),
		call("t0kenxxx", types.TokenContract, T.PackMethodPanic("Mint", types.ZnnTokenStandard, big.NewInt(5), kp.Address), types.ZnnTokenStandard, nil),
		call("t0kenxxx", types.TokenContract, T.PackMethodPanic("UpdateToken", types.QsrTokenStandard, kp.Address, true, true), types.ZnnTokenStandard, nil),
		call("sentynel", types.SentinelContract, S.PackMethodPanic("Revoke"), types.ZnnTokenStandard, nil),
		call("sentynel", types.SentinelContract, S.PackMethodPanic("Update"), types.ZnnTokenStandard, nil),
		call("sentynel", types.SentinelContract, S.PackMethodPanic("WithdrawQsr"), types.ZnnTokenStandard, nil),
		call("sentynel", types.SentinelContract, S.PackMethodPanic("CollectReward"), types.ZnnTokenStandard, nil),
		call("stakexxx", types.StakeContract, K.PackMethodPanic("Cancel", w.randHash()), types.ZnnTokenStandard, nil),
		call("stakexxx", types.StakeContract, K.PackMethodPanic("Update"), types.ZnnTokenStandard, nil),
		call("stakexxx", types.StakeContract, K.PackMethodPanic("CollectReward"), types.ZnnTokenStandard, nil),
		call("lyquydyt", types.LiquidityContract, L.PackMethodPanic("Update"), types.ZnnTokenStandard, nil),
	)
	if qsr.Cmp(c12Qsr(60)) >= 0 {
		ops = append(ops,
			call("plasma", types.PlasmaContract, F.PackMethodPanic("Fuse", other), types.QsrTokenStandard, c12Qsr(10+int64(r.Intn(30)))),
			call("plasma", types.PlasmaContract, F.PackMethodPanic("Fuse", kp.Address), types.QsrTokenStandard, c12Qsr(10+int64(r.Intn(5)))),
			call("pyllarxx", types.PillarContract, P.PackMethodPanic("DepositQsr"), types.QsrTokenStandard, c12Qsr(1+int64(r.Intn(3)))),
			call("sentynel", types.SentinelContract, S.PackMethodPanic("DepositQsr"), types.QsrTokenStandard, c12Qsr(1)),
		)
	}
	if hasZnn(4 * c12UnitQsr) {
		ops = append(ops,
			call("stakexxx", types.StakeContract, K.PackMethodPanic("Stake", int64(30*24*60*60)), types.ZnnTokenStandard, big.NewInt(c12UnitQsr*(1+int64(r.Intn(2))))),
			call("t0kenxxx", types.TokenContract, T.PackMethodPanic("IssueToken", fmt.Sprintf("tok%d", r.Intn(1000)), fmt.Sprintf("T%d", r.Intn(1000)), "", big.NewInt(100), big.NewInt(1000), uint8(1), true, true, false), types.ZnnTokenStandard, big.NewInt(c12UnitQsr)),
			call("t0kenxxx", types.TokenContract, T.PackMethodPanic("Burn"), types.ZnnTokenStandard, big.NewInt(1)),
			call("lyquydyt", types.LiquidityContract, L.PackMethodPanic("Donate"), types.ZnnTokenStandard, big.NewInt(1)),
			call("accelera", types.AcceleratorContract, A.PackMethodPanic("Donate"), types.ZnnTokenStandard, big.NewInt(1)),
		)
	}
	if hasZnn(5000*c12UnitQsr) && r.Intn(4) == 0 {
		ops = append(ops, call("sentynel", types.SentinelContract, S.PackMethodPanic("Register"), types.ZnnTokenStandard, big.NewInt(5000*c12UnitQsr)))
	}
	return ops[r.Intn(len(ops))]
}

// claim shapes. "pay" shapes are meant to be payable when the account can afford the block at all.
var (
	c12ShapesAll = []string{"zero", "fused=base", "fused=base-1", "fused=base+1", "fused=avail", "fused=avail+1", "fused=avail-1",
		"mix-exact", "mix-pow-short", "mix-fused-short", "mix-fused-over-avail", "false-pow", "small-d-pass", "small-d-fail", "sub-plasma-d",
		"huge-d-free", "huge-d-fused", "cap", "cap+pow", "cap-mix-exact", "wrap", "fused=max-uint", "old-ack", "fork-higher", "default",
		"declared-base=fused=base-1", "declared-base=fused=half", "declared-base=1-fused=1", "declared-base=1-pow=1", "declared-base=genuine-fused=base"}
	c12ShapesPay = []string{"fused=base", "fused=base", "mix-exact", "small-d-pass", "fused=avail", "fused=base+1", "default", "fused=avail+1", "mix-fused-over-avail", "mix-pow-short", "fused=base-1"}
	c12ShapesCap = []string{"cap", "cap+pow", "cap-mix-exact", "fused=avail", "fused=avail+1", "fused=avail-1", "fused=base", "mix-exact", "mix-fused-over-avail", "wrap", "fused=max-uint", "huge-d-fused"}
)

// buildClaim turns a shape into concrete (fused, difficulty, nonce) for the state; ok=false if the shape does not apply.
func (w *c12World) buildClaim(shape string, st *c12State, base uint64) (cl c12Claim, ok bool) {
	r := w.r
	cl.name = shape
	needNonce := func() *c12Nonce { return w.nonce(st) }
	pmax := func(nn *c12Nonce) uint64 {
		p := nn.dstar / c12DiffPerPlasma
		if p > 40 {
			p = 40
		}
		return p
	}
	switch shape {
	case "zero", "default":
	// the fields outside the hash (base and total plasma) as the SENDER declares them: the cost is what the block is,
	// not what it says
	case "declared-base=fused=base-1":
		cl.fused, cl.declBase, cl.declTotal = base-1, base-1, base-1
	case "declared-base=fused=half":
		cl.fused, cl.declBase, cl.declTotal = base/2, base/2, base/2
	case "declared-base=1-fused=1":
		cl.fused, cl.declBase, cl.declTotal = 1, 1, 1
	case "declared-base=1-pow=1":
		nn := needNonce()
		if pmax(nn) == 0 {
			return cl, false
		}
		cl.nonce, cl.diff, cl.declBase, cl.declTotal = nn.best, c12DiffPerPlasma, 1, 1
	case "declared-base=genuine-fused=base":
		cl.fused, cl.declBase, cl.declTotal = base, base, base
	case "fused=base":
		cl.fused = base
	case "fused=base-1":
		cl.fused = base - 1
	case "fused=base+1":
		cl.fused = base + 1
	case "fused=avail":
		cl.fused = st.avail
	case "fused=avail+1":
		cl.fused = st.avail + 1
	case "fused=avail-1":
		if st.avail == 0 {
			return cl, false
		}
		cl.fused = st.avail - 1
	case "mix-exact", "mix-pow-short", "mix-fused-short", "mix-fused-over-avail":
		nn := needNonce()
		pm := pmax(nn)
		if pm == 0 {
			return cl, false
		}
		p := 1 + uint64(r.Int63n(int64(pm)))
		cl.nonce = nn.best
		cl.fused = base - p
		cl.diff = p * c12DiffPerPlasma
		switch shape {
		case "mix-exact":
			if x := uint64(r.Intn(c12DiffPerPlasma)); cl.diff+x <= nn.dstar {
				cl.diff += x
			}
		case "mix-pow-short":
			cl.diff--
		case "mix-fused-short":
			cl.fused--
		case "mix-fused-over-avail":
			// total is fine, the fused part is one more than the account has left
			cl.fused = st.avail + 1
		}
	case "false-pow":
		nn := needNonce()
		if nn.dstar == ^uint64(0) {
			return cl, false
		}
		cl.nonce, cl.fused = nn.best, base
		cl.diff = nn.dstar + 1
		if r.Intn(2) == 0 {
			cl.diff += uint64(r.Int63n(1 << 40))
		}
	case "small-d-pass":
		nn := needNonce()
		lim := nn.dstar
		if lim > 4096 {
			lim = 4096
		}
		cl.nonce, cl.fused = nn.best, base
		cl.diff = 1 + uint64(r.Int63n(int64(lim)))
	case "small-d-fail":
		nn := needNonce()
		cl.nonce, cl.fused = nn.worst, base
		cl.diff = 2 + uint64(r.Intn(63))
	case "sub-plasma-d":
		// a claim too small to earn one unit of plasma, fused one short
		nn := needNonce()
		if nn.dstar < 2 {
			return cl, false
		}
		cl.nonce, cl.fused = nn.best, base-1
		cl.diff = 1 + uint64(r.Int63n(c12DiffPerPlasma-1))
		if cl.diff > nn.dstar {
			cl.diff = nn.dstar
		}
	case "huge-d-free", "huge-d-fused":
		cl.nonce = c12RandNonce(r)
		cl.diff = uint64(1)<<63 | r.Uint64()
		switch r.Intn(4) {
		case 0:
			cl.diff = 1 << 63
		case 1:
			cl.diff = ^uint64(0)
		}
		if shape == "huge-d-fused" {
			cl.fused = base
		} else if base > c12MaxPowPlasma {
			cl.fused = base - c12MaxPowPlasma
		}
	case "cap":
		cl.fused = c12Cap
	case "cap+pow", "cap-mix-exact":
		nn := needNonce()
		pm := pmax(nn)
		if pm == 0 {
			return cl, false
		}
		p := 1 + uint64(r.Int63n(int64(pm)))
		cl.nonce, cl.diff = nn.best, p*c12DiffPerPlasma
		cl.fused = c12Cap - p
		if shape == "cap+pow" {
			cl.fused++
		}
	case "wrap":
		// fused + (capped PoW plasma) wraps around 2^64 to exactly the base cost; needs a difficulty above the PoW cap
		if base >= c12MaxPowPlasma {
			return cl, false
		}
		cl.nonce = c12RandNonce(r)
		cl.diff = uint64(1)<<63 | r.Uint64()
		cl.fused = ^uint64(0) - c12MaxPowPlasma + 1 + base
	case "fused=max-uint":
		cl.fused = ^uint64(0)
	case "old-ack", "fork-higher":
		cl.fused = base
		if shape == "fork-higher" {
			cl.fused = base + 1 + uint64(r.Intn(3))*base
		}
	default:
		return cl, false
	}
	return cl, true
}

// explore offers `steps` blocks from random actors.
func (w *c12World) explore(actors []*wallet.KeyPair, steps int, shapes []string, pMomentum float64, maxRun int) {
	r := w.r
	run, target := 0, 1+r.Intn(maxRun)
	for i := 0; i < steps && !w.aborted; i++ {
		kp := actors[r.Intn(len(actors))]
		op := w.randomOp(kp, actors)
		shape := shapes[r.Intn(len(shapes))]
		ackBack, fork := 0, false
		switch shape {
		case "old-ack":
			ackBack = []int{1, 1, 2, 3, 8}[r.Intn(5)]
		case "fork-higher":
			fork = true
		}
		st := w.state(kp, ackBack, fork)
		if fork && !st.fork {
			continue
		}
		_, baseBig, _ := c12Classify(&nom.AccountBlock{BlockType: op.blockType, ToAddress: op.to, Data: op.data})
		base := baseBig.Uint64()
		if base == 0 {
			base = uint64(c12Base + c12PerByte*len(op.data))
		}
		cl, ok := w.buildClaim(shape, st, base)
		if !ok {
			continue
		}
		path := []string{"template", "bridge", "bridge", "apply"}[r.Intn(4)]
		if shape == "default" || (cl.fused == 0 && cl.diff == 0 && r.Intn(2) == 0) {
			// both zero through the template path: the supervisor fills FusedPlasma = its own base cost
			w.offerDefault(st, op)
		} else {
			if cl.fused == 0 && cl.diff == 0 {
				path = "bridge"
			}
			if acc, _ := w.offer(st, op, cl, path); acc {
				run++
			}
		}
		if run >= target || r.Float64() < pMomentum {
			w.produce(1 + r.Intn(2))
			run, target = 0, 1+r.Intn(maxRun)
		}
	}
}

// offerDefault lets the supervisor choose the plasma (FusedPlasma = what the node thinks the base cost is) and judges the result.
func (w *c12World) offerDefault(st *c12State, op c12Op) bool {
	tpl := &nom.AccountBlock{BlockType: op.blockType, Address: st.kp.Address, ToAddress: op.to, TokenStandard: op.zts, Amount: op.amount,
		Data: append([]byte{}, op.data...), FromBlockHash: op.from, PreviousHash: st.prev.Hash, Height: st.prev.Height + 1, MomentumAcknowledged: st.ack}
	tx, err := w.n.Sup.GenerateFromTemplate(tpl, st.kp.Signer)
	if err != nil {
		w.offers++
		w.c.Eval(1)
		w.c.SetAdd("reject_reasons", c12Reason(err))
		w.c.Distinct(fmt.Sprintf("blk %s | default | rejected", op.label))
		return false
	}
	// replay the same signed block through the judge path: it is now a fully explicit claim
	b := tx.Block
	cl := c12Claim{name: "default", fused: b.FusedPlasma, diff: b.Difficulty, nonce: b.Nonce.Data}
	op2 := op
	op2.data = b.Data
	acc, _ := w.offer(st, op2, cl, "apply")
	return acc
}

// ---------------------------------------------------------------------------
// scenarios

var c12FuseUnits = []int64{0, 10, 10, 11, 20, 24, 25, 26, 34, 35, 36, 44, 45, 46, 59, 60, 61, 100, 500, 4999, 5000, 5001}

// setup fuses for the fresh accounts (User6..User10) and funds them; returns the fused units per account.
func (w *c12World) setup(fresh []*wallet.KeyPair, units []int64) bool {
	n := w.n
	if !w.produce(2) {
		return false
	}
	for i, kp := range fresh {
		u := units[i]
		// sometimes two fusions add up
		parts := []int64{u}
		if u >= 20 && w.r.Intn(3) == 0 {
			parts = []int64{10, u - 10}
		}
		for _, p := range parts {
			if p == 0 {
				continue
			}
			if _, err := n.Send(g.User1, types.PlasmaContract, types.QsrTokenStandard, c12Qsr(p), definition.ABIPlasma.PackMethodPanic("Fuse", kp.Address)); err != nil {
				w.c.Inconclusive("setup: fuse failed: " + err.Error())
				return false
			}
		}
		for j := 0; j < 3; j++ {
			if _, err := n.Send(g.User1, kp.Address, types.ZnnTokenStandard, big.NewInt(20*c12UnitQsr), nil); err != nil {
				w.c.Inconclusive("setup: funding failed: " + err.Error())
				return false
			}
		}
		if _, err := n.Send(g.User1, kp.Address, types.QsrTokenStandard, c12Qsr(200), nil); err != nil {
			w.c.Inconclusive("setup: funding failed: " + err.Error())
			return false
		}
	}
	if !w.produce(3) {
		return false
	}
	for i, kp := range fresh {
		st := w.state(kp, 0, false)
		want := units[i]
		if want > c12MaxUnits {
			want = c12MaxUnits
		}
		if st.fusedPlasma != uint64(want)*c12UnitPlasma {
			w.c.Inconclusive(fmt.Sprintf("setup: fused plasma reference %d for %d units", st.fusedPlasma, units[i]))
			return false
		}
		w.c.SetAdd("fused_units_of_fresh_accounts", fmt.Sprintf("%05d", units[i]))
	}
	return true
}

var c12Fresh = []*wallet.KeyPair{g.User6, g.User7, g.User8, g.User9, g.User10}
var c12Rich = []*wallet.KeyPair{g.User2, g.User3, g.User4, g.User5}

func c12RunAcct(c *fw.C, kind, caseID string, r *rand.Rand) {
	w := c12OpenWorld(c, caseID, r)
	defer w.close()
	defer func() {
		if e := recover(); e != nil {
			c.Inconclusive(fmt.Sprintf("panic in workload: %v", e))
		}
	}()
	units := make([]int64, len(c12Fresh))
	for i := range units {
		units[i] = c12FuseUnits[r.Intn(len(c12FuseUnits))]
	}
	all := append(append([]*wallet.KeyPair{}, c12Fresh...), c12Rich...)
	// a node that refuses the ordinary set-up blocks is still probed: the case stays inconclusive, but whatever it accepts is judged
	degraded := func() {
		if !w.aborted {
			w.explore(append([]*wallet.KeyPair{g.User1}, c12Rich...), 80, c12ShapesAll, 0.2, 4)
		}
	}
	switch kind {
	case "boundary":
		if !w.setup(c12Fresh, units) {
			degraded()
			break
		}
		w.explore(all, 170, c12ShapesAll, 0.2, 4)
	case "seq":
		if !w.setup(c12Fresh, units) {
			degraded()
			break
		}
		w.explore(all, 170, c12ShapesPay, 0.0, 12)
	case "cap":
		for i := range units {
			units[i] = []int64{4999, 5000, 5001, 500, 10}[i]
		}
		if !w.setup(c12Fresh, units) {
			degraded()
			break
		}
		w.explore(append([]*wallet.KeyPair{g.User6, g.User7, g.User8}, c12Rich...), 140, c12ShapesCap, 0.15, 5)
	case "cancel":
		w.runCancel(units)
	case "generic":
		if !w.setup(c12Fresh, units) {
			degraded()
			break
		}
		w.explore(append(all, g.User1), 300, []string{"default"}, 0.12, 12)
	case "realpow":
		w.runRealPow()
	}
	c.Count("offers", w.offers)
	c.Count("accepts", w.accepts)
}

// runCancel: an account cancels the fusion that feeds it; blocks acknowledging momentums before and after are offered.
func (w *c12World) runCancel(units []int64) {
	if !w.setup(c12Fresh, units) {
		return
	}
	r := w.r
	// genesis fusions (expiration height 0): User2 by id, User3..5 with the zero id
	victims := []struct {
		kp *wallet.KeyPair
		id types.Hash
	}{
		{g.User2, types.HexToHashPanic("3d3179e499f839b47c60216b57f79e41264d408e2f21aa6f5462f25d5e094924")},
		{g.User3, types.ZeroHash}, {g.User4, types.ZeroHash}, {g.User5, types.ZeroHash},
	}
	v := victims[r.Intn(len(victims))]
	w.explore(c12Rich, 10, c12ShapesPay, 0.3, 3)
	if !w.produce(1) { // empty pool: the cancel itself must be affordable
		return
	}
	st := w.state(v.kp, 0, false)
	op := c12Op{label: "call plasma", blockType: nom.BlockTypeUserSend, to: types.PlasmaContract, data: definition.ABIPlasma.PackMethodPanic("CancelFuse", v.id)}
	if acc, why := w.offer(st, op, c12Claim{name: "fused=base", fused: c12CallResponse}, "bridge"); !acc {
		w.c.Inconclusive("cancel: CancelFuse not accepted: " + why)
		return
	}
	if !w.produce(3) {
		return
	}
	after := w.state(v.kp, 0, false)
	w.c.SetAdd("cancel_fused_plasma_after", fmt.Sprintf("%d", after.fusedPlasma))
	shapes := []string{"old-ack", "old-ack", "fused=base", "fused=avail+1", "mix-exact", "zero", "huge-d-free", "fused=avail"}
	w.explore([]*wallet.KeyPair{v.kp}, 40, shapes, 0.1, 4)
	w.explore(append([]*wallet.KeyPair{v.kp}, c12Fresh...), 60, c12ShapesAll, 0.2, 4)
}

// c12GrindFirst returns the first nonce counter ≥ start whose value reaches the threshold; deterministic whatever the scheduling.
func c12GrindFirst(p *c12PowCtx, threshold uint64, start uint64) (uint64, uint64) {
	const workers, chunk = 8, 1 << 15
	for round := uint64(0); ; round++ {
		found := make([]uint64, workers)
		var wg sync.WaitGroup
		for k := 0; k < workers; k++ {
			wg.Add(1)
			go func(k int) {
				defer wg.Done()
				found[k] = ^uint64(0)
				off := (round*workers + uint64(k)) * chunk
				for i := uint64(0); i < chunk; i++ {
					var nb [8]byte
					x := start + off + i
					for j := 0; j < 8; j++ {
						nb[j] = byte(x >> (8 * uint(j)))
					}
					if p.value(nb) >= threshold {
						found[k] = off + i
						return
					}
				}
			}(k)
		}
		wg.Wait()
		for k := 0; k < workers; k++ {
			if found[k] != ^uint64(0) {
				return start + found[k], found[k] + 1
			}
		}
	}
}

// runRealPow: an account nobody fused for pays its first blocks with real work at the base difficulty.
func (w *c12World) runRealPow() {
	units := []int64{0, 0, 10, 25, 100}
	if !w.setup(c12Fresh, units) {
		return
	}
	kp := c12Fresh[w.r.Intn(2)]
	rounds := 1
	if w.c.Thorough() {
		rounds = 2
	}
	for round := 0; round < rounds && !w.aborted; round++ {
		st := w.state(kp, 0, false)
		var op c12Op
		for tries := 0; tries < 50; tries++ {
			op = w.randomOp(kp, c12Fresh)
			if round == 0 && op.label == "receive" && len(op.data) == 0 {
				break
			}
			if round > 0 && (op.label == "send" || (op.label == "send-data" && len(op.data) <= 32)) {
				break
			}
		}
		_, baseBig, _ := c12Classify(&nom.AccountBlock{BlockType: op.blockType, ToAddress: op.to, Data: op.data})
		base := baseBig.Uint64()
		if base == 0 || base > 24000 {
			w.c.Inconclusive("realpow: no cheap operation available")
			return
		}
		d := base * c12DiffPerPlasma
		p := c12NewPowCtx(kp.Address, st.prev.Hash)
		counter, tries := c12GrindFirst(p, c12Threshold(d).Uint64(), w.r.Uint64())
		w.c.Count("realpow_hashes", int(tries))
		var nonce [8]byte
		for j := 0; j < 8; j++ {
			nonce[j] = byte(counter >> (8 * uint(j)))
		}
		nn := w.nonce(st)
		// one short of the base cost; honest work with a nonce that does not meet it; then the honest block
		w.offer(st, op, c12Claim{name: "realpow-difficulty-1", diff: d - 1, nonce: nonce}, "bridge")
		w.offer(st, op, c12Claim{name: "realpow-wrong-nonce", diff: d, nonce: nn.worst}, "apply")
		other := c12Fresh[2+w.r.Intn(3)]
		w.offer(w.state(other, 0, false), c12Op{label: "send", blockType: nom.BlockTypeUserSend, to: kp.Address}, c12Claim{name: "realpow-nonce-of-another-account", diff: d, nonce: nonce}, "bridge")
		if acc, why := w.offer(st, op, c12Claim{name: "realpow-exact", diff: d, nonce: nonce}, "template"); !acc {
			w.c.Count("realpow_honest_block_rejected: "+why, 1)
		}
		w.produce(2)
	}
	w.explore(c12Fresh, 40, c12ShapesAll, 0.2, 4)
}
