package checks

// C07 — versioned store: a view at commit X shows exactly the state as of X.
//
// Oracle: map-per-version model. Every Get / Has / ordered prefix scan on every
// open view is compared with the model map of the version the view is pinned
// at (plus the view's own overlay of writes). Commits on stale parents must be
// refused and leave the store unchanged. Both managers and the DB combinators
// (Subset, Snapshot, Apply, Changes) go through the same generator. The
// concurrent part runs a writer against readers under the race detector.

import (
	"bytes"
	"crypto/sha256"
	"encoding/binary"
	"encoding/hex"
	"fmt"
	"math/rand"
	"os"
	"runtime"
	"sort"
	"strings"
	"sync"
	"sync/atomic"

	"github.com/syndtr/goleveldb/leveldb"

	"github.com/zenon-network/go-zenon/common/db"
	"github.com/zenon-network/go-zenon/common/types"

	"verif/harness/fw"
)

func init() {
	fw.Register(&fw.Check{
		ID:    "C07",
		Level: "exploration",
		Rule: "cases are PRNG-generated operation sequences (commit on frontier / on stale parent, rollback, open view at any past commit, Get/Has/prefix scan, write through view, Subset, Snapshot, Changes+replay, reopen) " +
			"over a 15-key alphabet (incl. the empty key) with shared prefixes and empty values, on the LevelDB and the in-memory manager, plus concurrent writer/readers runs under -race; " +
			"distinct_nontrivial counts distinct (manager, operation, outcome class) triples and distinct operation-sequence hashes that contained at least one historical read after a later commit or rollback",
		Cases:       c07Cases,
		Run:         c07Run,
		MinDistinct: 20,
		Assumptions: []string{
			"the model is a map per committed version; goleveldb itself is trusted",
			"views are not written by the parent after a Snapshot child was taken (unspecified by the statement)",
			"rollback below the first commit and multi-commit transactions on the LevelDB manager are not exercised (the node never does either)",
		},
	})
}

func c07Cases(tier string, seed int64) []string {
	var l []string
	nSeq, nLong, nConc := 160, 2, 6
	if tier == "thorough" {
		nSeq, nLong, nConc = 12000, 96, 160
	}
	for i := 0; i < nSeq; i++ {
		kind := "ldb"
		if i%3 == 2 {
			kind = "mem"
		}
		l = append(l, fmt.Sprintf("seq:%s:%d", kind, i))
	}
	for i := 0; i < nLong; i++ {
		l = append(l, fmt.Sprintf("long:ldb:%d", i))
	}
	for i := 0; i < nConc; i++ {
		l = append(l, fmt.Sprintf("race:conc:%d", i))
	}
	return l
}

// ---------------------------------------------------------------------------

type c07Commit struct {
	id   types.HashHeight
	prev types.HashHeight
	data []byte
}

func (c *c07Commit) Identifier() types.HashHeight { return c.id }
func (c *c07Commit) Previous() types.HashHeight   { return c.prev }
func (c *c07Commit) Serialize() ([]byte, error)   { return c.data, nil }

type c07Tx struct {
	commits []db.Commit
	changes db.Patch
}

func (t *c07Tx) GetCommits() []db.Commit { return t.commits }
func (t *c07Tx) StealChanges() db.Patch  { p := t.changes; t.changes = nil; return p }

var c07Alphabet = [][]byte{
	[]byte("a"), []byte("ab"), []byte("abc"), []byte("abd"), []byte("b"), []byte("ba"),
	[]byte("a\x00"), []byte("a\xff"), []byte("c"), []byte("ca"), []byte("cb"), []byte("d"),
	{0x7f}, {0xff, 0xff},
	{}, // the empty key (also what a key equal to a Subset prefix becomes inside the Subset)
}
var c07Prefixes = [][]byte{nil, []byte("a"), []byte("ab"), []byte("b"), []byte("c"), []byte("z"), {0xff}}

func c07HashOf(n uint64, salt uint64) types.Hash {
	var buf [16]byte
	binary.BigEndian.PutUint64(buf[:8], n)
	binary.BigEndian.PutUint64(buf[8:], salt)
	return types.Hash(sha256.Sum256(buf[:]))
}

// frontier bookkeeping keys exactly as the property's store writes them on commit
func c07FrontierKeys(id types.HashHeight, data []byte) map[string][]byte {
	h := make([]byte, 8)
	binary.BigEndian.PutUint64(h, id.Height)
	return map[string][]byte{
		string([]byte{0}):                              id.Serialize(),
		string(append([]byte{1}, id.Hash.Bytes()...)):  h,
		string(append([]byte{2}, h...)):                data,
	}
}

type c07State map[string][]byte // present keys only; value may be empty (non-nil)

func (s c07State) clone() c07State {
	n := make(c07State, len(s))
	for k, v := range s {
		n[k] = v
	}
	return n
}

// overlay of one view: nil entry value means deleted
type c07Overlay struct {
	writes map[string]*[]byte
	parent *c07Overlay
	base   c07State
	frozen bool // a snapshot child exists
}

func (o *c07Overlay) lookup(k string) ([]byte, bool) {
	for cur := o; cur != nil; cur = cur.parent {
		if w, ok := cur.writes[k]; ok {
			if w == nil {
				return nil, false
			}
			return *w, true
		}
		if cur.parent == nil {
			v, ok := cur.base[k]
			return v, ok
		}
	}
	return nil, false
}

func (o *c07Overlay) keys() []string {
	set := map[string]struct{}{}
	for cur := o; cur != nil; cur = cur.parent {
		for k := range cur.writes {
			set[k] = struct{}{}
		}
		if cur.parent == nil {
			for k := range cur.base {
				set[k] = struct{}{}
			}
		}
	}
	var l []string
	for k := range set {
		if _, ok := o.lookup(k); ok {
			l = append(l, k)
		}
	}
	sort.Strings(l)
	return l
}

type c07Handle struct {
	view    db.DB
	ov      *c07Overlay
	prefix  string // accumulated Subset prefix
	pinned  types.HashHeight
	history bool // opened through Get(id) with id != frontier at opening time
	staleAt int  // number of commits/rollbacks that happened after opening
	desc    string
}

type c07Env struct {
	c        *fw.C
	r        *rand.Rand
	kind     string
	dir      string
	mgr      db.Manager
	versions map[types.HashHeight]c07State
	chain    []types.HashHeight // committed chain, oldest first
	popped   []types.HashHeight
	handles  []*c07Handle
	salt     uint64
	trace    []string
	failed   bool
	interesting bool
	seenSig  map[string]bool
	groups   []int // number of identifiers per committed transaction (memdb multi-commit)
}

func (e *c07Env) log(format string, a ...interface{}) {
	e.trace = append(e.trace, fmt.Sprintf(format, a...))
}

// c07NonFatal: observations after which the store is still consistent with the model, so the
// sequence goes on (each signature is reported once per sequence).
func c07NonFatal(sig string) bool {
	return strings.HasPrefix(sig, "stale-commit-returned-nil") || strings.HasPrefix(sig, "scan-omits-present-empty-keys")
}

func (e *c07Env) fail(sig string, format string, a ...interface{}) {
	if e.failed {
		return
	}
	if c07NonFatal(sig) {
		if e.seenSig[sig] {
			return
		}
		e.seenSig[sig] = true
	} else {
		e.failed = true
	}
	tr := e.trace
	if len(tr) > 60 {
		tr = tr[len(tr)-60:]
	}
	e.c.Violation(sig, map[string]interface{}{"what": fmt.Sprintf(format, a...), "manager": e.kind, "trace_tail": tr})
}

func (e *c07Env) frontierID() types.HashHeight {
	if len(e.chain) == 0 {
		return types.ZeroHashHeight
	}
	return e.chain[len(e.chain)-1]
}

func (e *c07Env) open() {
	if e.kind == "ldb" {
		e.mgr = db.NewLevelDBManager(e.dir)
	} else {
		e.mgr = db.NewMemDBManager(db.NewMemDB())
	}
}

func c07randVal(r *rand.Rand) []byte {
	switch r.Intn(6) {
	case 0:
		return []byte{}
	case 1:
		return []byte{0}
	case 2:
		return []byte{0, 0}
	default:
		n := 1 + r.Intn(5)
		b := make([]byte, n)
		r.Read(b)
		return b
	}
}

// write performs a random Put/Delete through a handle and mirrors it in the overlay
func (e *c07Env) write(h *c07Handle) {
	k := c07Alphabet[e.r.Intn(len(c07Alphabet))]
	full := h.prefix + string(k)
	if e.r.Intn(4) == 0 {
		if err := h.view.Delete(k); err != nil {
			e.fail("view-delete-error", "Delete(%x) on %s: %v", k, h.desc, err)
		}
		h.ov.writes[full] = nil
		e.log("%s.Delete(%x)", h.desc, full)
	} else {
		v := c07randVal(e.r)
		if err := h.view.Put(k, v); err != nil {
			e.fail("view-put-error", "Put(%x) on %s: %v", k, h.desc, err)
		}
		vv := append([]byte{}, v...)
		h.ov.writes[full] = &vv
		e.log("%s.Put(%x,%x)", h.desc, full, v)
	}
}

func (e *c07Env) class(h *c07Handle) string {
	cl := "frontier-view"
	if h.history {
		cl = "historical-view"
	}
	if h.staleAt > 0 {
		cl += "-after-later-commit"
	}
	if h.prefix != "" {
		cl += "-subset"
	}
	if h.ov.parent != nil {
		cl += "-snapshot"
	}
	return cl
}

// check one Get + Has
func (e *c07Env) readKey(h *c07Handle, k []byte) {
	full := h.prefix + string(k)
	want, present := h.ov.lookup(full)
	got, err := h.view.Get(k)
	e.c.Eval(1)
	outcome := "absent"
	if present {
		outcome = "present"
		if len(want) == 0 {
			outcome = "present-empty"
		}
	}
	e.c.Distinct(fmt.Sprintf("%s/get/%s/%s", e.kind, e.class(h), outcome))
	if h.history && h.staleAt > 0 {
		e.interesting = true
	}
	if present {
		if err != nil || !bytes.Equal(got, want) {
			e.fail(fmt.Sprintf("get-mismatch %s %s %s", e.kind, c07viewKind(h), outcome), "%s.Get(%x) = (%x,%v), model says present with value %x", h.desc, full, got, err, want)
		}
	} else {
		if err != leveldb.ErrNotFound {
			e.fail(fmt.Sprintf("get-mismatch %s %s %s", e.kind, c07viewKind(h), outcome), "%s.Get(%x) = (%x,%v), model says absent (ErrNotFound)", h.desc, full, got, err)
		}
	}
	has, err := h.view.Has(k)
	e.c.Eval(1)
	if err != nil || has != present {
		e.fail(fmt.Sprintf("has-mismatch %s %s %s", e.kind, c07viewKind(h), outcome), "%s.Has(%x) = (%v,%v), model says %v", h.desc, full, has, err, present)
	}
}

func c07viewKind(h *c07Handle) string {
	if h.history {
		return "historical"
	}
	return "frontier"
}

func (e *c07Env) scan(h *c07Handle, prefix []byte) {
	fullPrefix := h.prefix + string(prefix)
	var want []string
	for _, k := range h.ov.keys() {
		if len(k) >= len(fullPrefix) && k[:len(fullPrefix)] == fullPrefix {
			want = append(want, k)
		}
	}
	it := h.view.NewIterator(prefix)
	var got []string
	gotVals := map[string][]byte{}
	var last []byte
	ordered := true
	for it.Next() {
		v := it.Value()
		k := append([]byte{}, it.Key()...)
		if last != nil && bytes.Compare(last, k) >= 0 {
			ordered = false
		}
		last = k
		if v == nil {
			continue // deletion marker by the store's own convention
		}
		fk := h.prefix + string(k)
		got = append(got, fk)
		gotVals[fk] = append([]byte{}, v...)
	}
	err := it.Error()
	it.Release()
	e.c.Eval(1)
	hasEmpty := false
	for _, k := range want {
		if v, _ := h.ov.lookup(k); len(v) == 0 {
			hasEmpty = true
		}
	}
	oc := fmt.Sprintf("n=%d", c07min(len(want), 3))
	if hasEmpty {
		oc += "+empty"
	}
	e.c.Distinct(fmt.Sprintf("%s/scan/%s/%s", e.kind, e.class(h), oc))
	if err != nil {
		e.fail("scan-error "+e.kind, "%s.NewIterator(%x) error %v", h.desc, prefix, err)
		return
	}
	if !ordered {
		e.fail("scan-unordered "+e.kind+" "+c07viewKind(h), "%s.NewIterator(%x) keys not strictly increasing: %x", h.desc, prefix, got)
		return
	}
	if len(got) != len(want) {
		sig := fmt.Sprintf("scan-mismatch %s %s", e.kind, c07viewKind(h))
		if hasEmpty {
			// got ⊆ model with equal values, and every model key that is missing has an empty value?
			gm := map[string][]byte{}
			for _, k := range got {
				gm[k] = gotVals[k]
			}
			wm := c07State{}
			for _, k := range want {
				wm[k], _ = h.ov.lookup(k)
			}
			exact := c07dumpOmitsOnlyEmpty(gm, wm)
			if exact {
				sig = fmt.Sprintf("scan-omits-present-empty-keys %s %s", e.kind, c07viewKind(h))
			}
		}
		e.fail(sig, "%s scan(%x) returned %d present keys %x, model says %d: %x", h.desc, fullPrefix, len(got), got, len(want), want)
		return
	}
	for i := range want {
		wv, _ := h.ov.lookup(want[i])
		if got[i] != want[i] || !bytes.Equal(gotVals[got[i]], wv) {
			e.fail(fmt.Sprintf("scan-mismatch %s %s", e.kind, c07viewKind(h)), "%s scan(%x) entry %d = (%x,%x), model says (%x,%x)", h.desc, fullPrefix, i, got[i], gotVals[got[i]], want[i], wv)
			return
		}
	}
}

func (e *c07Env) openView(id types.HashHeight, viaFrontier bool) *c07Handle {
	var v db.DB
	desc := ""
	if viaFrontier {
		v = e.mgr.Frontier()
		desc = fmt.Sprintf("F@%d", id.Height)
	} else {
		v = e.mgr.Get(id)
		desc = fmt.Sprintf("G@%d", id.Height)
	}
	e.log("open %s", desc)
	base, known := e.versions[id]
	if !known && !id.IsZero() {
		if v != nil {
			e.fail("get-unknown-version "+e.kind, "Get(%v) returned a view for a version that is not on the chain", id)
		}
		return nil
	}
	if v == nil {
		e.fail("get-nil "+e.kind, "manager returned nil view for committed version %v (frontier %v)", id, e.frontierID())
		return nil
	}
	if base == nil {
		base = c07State{}
	}
	h := &c07Handle{view: v, ov: &c07Overlay{writes: map[string]*[]byte{}, base: base}, pinned: id,
		history: !viaFrontier && id != e.frontierID(), desc: desc}
	e.handles = append(e.handles, h)
	if len(e.handles) > 24 {
		e.handles = e.handles[1:]
	}
	return h
}

// commit builds a transaction from writes through a fresh frontier view
func (e *c07Env) commitMulti(nCommits int) {
	fid := e.frontierID()
	v := e.mgr.Frontier()
	if v == nil {
		e.fail("frontier-nil "+e.kind, "Frontier() returned nil")
		return
	}
	next := e.versions[fid].clone()
	if next == nil {
		next = c07State{}
	}
	nw := e.r.Intn(5)
	for i := 0; i < nw; i++ {
		k := c07Alphabet[e.r.Intn(len(c07Alphabet))]
		if e.r.Intn(4) == 0 {
			_ = v.Delete(k)
			delete(next, string(k))
		} else {
			val := c07randVal(e.r)
			_ = v.Put(k, val)
			next[string(k)] = append([]byte{}, val...)
		}
	}
	patch, err := v.Changes()
	if err != nil {
		e.fail("changes-error "+e.kind, "Changes() error %v", err)
		return
	}
	var commits []db.Commit
	prev := fid
	var ids []types.HashHeight
	for i := 0; i < nCommits; i++ {
		e.salt++
		id := types.HashHeight{Hash: c07HashOf(prev.Height+1, e.salt), Height: prev.Height + 1}
		data := append([]byte("data-"), id.Hash.Bytes()[:4]...)
		commits = append(commits, &c07Commit{id: id, prev: prev, data: data})
		for k, val := range c07FrontierKeys(id, data) {
			next[k] = val
		}
		ids = append(ids, id)
		prev = id
	}
	err = e.mgr.Add(&c07Tx{commits: commits, changes: patch})
	e.log("commit %d..%d (%d writes)", fid.Height+1, prev.Height, nw)
	e.c.Eval(1)
	e.c.Distinct(fmt.Sprintf("%s/commit/frontier/n=%d", e.kind, nCommits))
	if err != nil {
		e.fail("commit-refused "+e.kind, "commit on the frontier %v refused: %v", fid, err)
		return
	}
	for _, id := range ids {
		// intermediate identifiers of a multi-commit transaction all map to the final state (memdb manager semantics)
		e.versions[id] = next
		e.chain = append(e.chain, id)
	}
	e.groups = append(e.groups, len(ids))
	for _, h := range e.handles {
		h.staleAt++
	}
	e.verifyFrontier("after-commit")
}

func (e *c07Env) verifyFrontier(when string) {
	fid := e.frontierID()
	v := e.mgr.Frontier()
	got := db.GetFrontierIdentifier(v)
	if got != fid {
		e.fail("frontier-id-mismatch "+e.kind+" "+when, "frontier identifier is %v, model says %v", got, fid)
		return
	}
	h := &c07Handle{view: v, ov: &c07Overlay{writes: map[string]*[]byte{}, base: e.versions[fid]}, desc: "F-verify"}
	if h.ov.base == nil {
		h.ov.base = c07State{}
	}
	e.scan(h, nil)
}

func (e *c07Env) staleCommit() {
	if len(e.chain) < 2 {
		return
	}
	var parent types.HashHeight
	mode := e.r.Intn(4)
	what := ""
	switch {
	case mode == 3:
		parent = types.ZeroHashHeight
		what = "zero-parent"
	case mode == 0 && len(e.popped) > 0:
		parent = e.popped[e.r.Intn(len(e.popped))]
		what = "popped-parent"
		if _, still := e.versions[parent]; still {
			return
		}
	case mode == 1:
		e.salt++
		parent = types.HashHeight{Hash: c07HashOf(999999, e.salt), Height: e.frontierID().Height}
		what = "unknown-parent"
	default:
		parent = e.chain[e.r.Intn(len(e.chain)-1)]
		what = "older-parent"
	}
	patch := db.NewPatch()
	k := c07Alphabet[e.r.Intn(len(c07Alphabet))]
	patch.Put(k, []byte("STALE"))
	e.salt++
	id := types.HashHeight{Hash: c07HashOf(parent.Height+1, e.salt), Height: parent.Height + 1}
	err := e.mgr.Add(&c07Tx{commits: []db.Commit{&c07Commit{id: id, prev: parent, data: []byte("stale")}}, changes: patch})
	e.log("stale commit on %s %v -> err=%v", what, parent, err)
	e.c.Eval(1)
	e.c.Distinct(fmt.Sprintf("%s/commit/%s", e.kind, what))
	if err == nil {
		e.fail(fmt.Sprintf("stale-commit-returned-nil %s %s", e.kind, what), "commit on %s %v returned nil while the frontier is %v", what, parent, e.frontierID())
		// fall through to also show whether the store changed
	}
	e.failedKeep(func() { e.verifyFrontierSig(fmt.Sprintf("stale-commit-changed-store %s %s", e.kind, what)) })
}

// failedKeep runs f even when a failure was already recorded (so one witness may carry two signatures)
func (e *c07Env) failedKeep(f func()) {
	was := e.failed
	e.failed = false
	f()
	e.failed = e.failed || was
}

func (e *c07Env) verifyFrontierSig(sig string) {
	fid := e.frontierID()
	v := e.mgr.Frontier()
	got := db.GetFrontierIdentifier(v)
	dump := map[string][]byte{}
	it := v.NewIterator(nil)
	for it.Next() {
		if it.Value() != nil {
			dump[string(it.Key())] = append([]byte{}, it.Value()...)
		}
	}
	it.Release()
	want := e.versions[fid]
	same := got == fid && len(dump) == len(want)
	if same {
		for k, v := range want {
			if g, ok := dump[k]; !ok || !bytes.Equal(g, v) {
				same = false
				break
			}
		}
	}
	if !same {
		e.fail(sig, "store changed by a refused/stale commit: frontier id %v (model %v), %d keys (model %d)", got, fid, len(dump), len(want))
	}
}

func (e *c07Env) pop() {
	if len(e.groups) < 2 {
		return
	}
	fid := e.frontierID()
	err := e.mgr.Pop()
	e.log("pop %v -> %v", fid, err)
	e.c.Eval(1)
	e.c.Distinct(e.kind + "/rollback")
	if err != nil {
		e.fail("rollback-error "+e.kind, "Pop() of %v failed: %v", fid, err)
		return
	}
	// a multi-commit transaction (memdb manager) pops as one unit
	g := e.groups[len(e.groups)-1]
	e.groups = e.groups[:len(e.groups)-1]
	newLen := len(e.chain) - g
	for i, id := range e.chain[newLen:] {
		delete(e.versions, id)
		if i == g-1 {
			e.popped = append(e.popped, id)
		}
	}
	e.chain = e.chain[:newLen]
	for _, h := range e.handles {
		h.staleAt++
	}
	e.verifyFrontier("after-rollback")
}

func c07Run(c *fw.C, caseID string) {
	var kind, mode string
	var idx int
	if n, _ := fmt.Sscanf(caseID, "race:conc:%d", &idx); n == 1 {
		c07Concurrent(c, caseID, idx)
		return
	}
	parts := bytes.Split([]byte(caseID), []byte(":"))
	mode, kind = string(parts[0]), string(parts[1])
	r := c.Rand(caseID)
	e := &c07Env{c: c, r: r, kind: kind, versions: map[types.HashHeight]c07State{}, seenSig: map[string]bool{}}
	if kind == "ldb" {
		e.dir = c.ScratchDir("c07")
		defer os.RemoveAll(e.dir)
	}
	e.open()
	defer func() {
		if e.mgr != nil {
			_ = e.mgr.Stop()
		}
	}()
	nOps := 60 + r.Intn(240)
	if mode == "long" {
		nOps = 2600
	}
	h := sha256.New()
	for i := 0; i < nOps && !e.failed; i++ {
		op := r.Intn(100)
		if mode == "long" {
			// mostly commits so that >500 identifiers and >360 heights of distance occur, but views far behind the
			// frontier are opened (and thereby cached) before rollbacks and read after them
			switch x := r.Intn(100); {
			case x < 70:
				op = 0 // commit
			case x < 76:
				op = 20 // rollback
			case x < 88:
				op = 32 // open a view at a past commit (a quarter of them at the oldest)
			case x < 96:
				op = 60 // read
			default:
				op = 75 // scan
			}
		}
		h.Write([]byte{byte(op)})
		switch {
		case op < 18 || len(e.chain) == 0:
			n := 1
			if e.kind == "mem" && r.Intn(4) == 0 {
				n = 2 + r.Intn(2)
			}
			e.commitMulti(n)
		case op < 26:
			e.pop()
		case op < 32:
			e.staleCommit()
		case op < 44:
			// open a view at a random past commit (biased to old and to recent ones)
			var id types.HashHeight
			switch r.Intn(4) {
			case 0:
				id = e.chain[0]
			case 1:
				id = e.chain[len(e.chain)-1-r.Intn(c07min(len(e.chain), 4))]
			default:
				id = e.chain[r.Intn(len(e.chain))]
			}
			e.openView(id, false)
		case op < 48:
			e.openView(e.frontierID(), true)
		case op < 51 && len(e.popped) > 0:
			id := e.popped[r.Intn(len(e.popped))]
			if _, still := e.versions[id]; !still {
				v := e.mgr.Get(id)
				e.c.Eval(1)
				e.c.Distinct(e.kind + "/open/popped-version")
				if v != nil {
					e.fail("get-popped-version "+e.kind, "Get(%v) returned a view for a rolled-back version", id)
				}
			}
		case op < 72 && len(e.handles) > 0:
			hd := e.handles[r.Intn(len(e.handles))]
			if r.Intn(8) == 0 {
				// bookkeeping keys too
				keys := c07h0Keys(hd.pinned)
				e.readKey(hd, keys[r.Intn(len(keys))])
			} else {
				e.readKey(hd, c07Alphabet[r.Intn(len(c07Alphabet))])
			}
		case op < 82 && len(e.handles) > 0:
			hd := e.handles[r.Intn(len(e.handles))]
			e.scan(hd, c07Prefixes[r.Intn(len(c07Prefixes))])
		case op < 88 && len(e.handles) > 0:
			hd := e.handles[r.Intn(len(e.handles))]
			if !hd.ov.frozen {
				e.write(hd)
			}
		case op < 91 && len(e.handles) > 0:
			// Subset of an existing handle: same overlay, longer prefix
			hd := e.handles[r.Intn(len(e.handles))]
			p := c07Prefixes[1+r.Intn(4)]
			sub := &c07Handle{view: hd.view.Subset(p), ov: hd.ov, prefix: hd.prefix + string(p), pinned: hd.pinned, history: hd.history, staleAt: hd.staleAt, desc: hd.desc + ".Subset(" + string(p) + ")"}
			e.handles = append(e.handles, sub)
			e.log("%s", sub.desc)
		case op < 94 && len(e.handles) > 0:
			hd := e.handles[r.Intn(len(e.handles))]
			if hd.prefix == "" {
				hd.ov.frozen = true
				child := &c07Handle{view: hd.view.Snapshot(), ov: &c07Overlay{writes: map[string]*[]byte{}, parent: hd.ov}, pinned: hd.pinned, history: hd.history, staleAt: hd.staleAt, desc: hd.desc + ".Snapshot()"}
				e.handles = append(e.handles, child)
				e.log("%s", child.desc)
			}
		case op < 97 && len(e.handles) > 0:
			e.checkChanges(e.handles[r.Intn(len(e.handles))])
		case op < 99 && len(e.handles) > 0:
			// Apply a patch through a view
			hd := e.handles[r.Intn(len(e.handles))]
			if !hd.ov.frozen {
				p := db.NewPatch()
				for j := 0; j < 1+r.Intn(3); j++ {
					k := c07Alphabet[r.Intn(len(c07Alphabet))]
					full := hd.prefix + string(k)
					if r.Intn(3) == 0 {
						p.Delete(k)
						hd.ov.writes[full] = nil
					} else {
						v := c07randVal(r)
						p.Put(k, v)
						vv := append([]byte{}, v...)
						hd.ov.writes[full] = &vv
					}
				}
				if err := hd.view.Apply(p); err != nil {
					e.fail("apply-error "+e.kind, "Apply on %s: %v", hd.desc, err)
				}
				e.log("%s.Apply(%d ops)", hd.desc, p.(interface{ Len() int }).Len())
			}
		default:
			if e.kind == "ldb" && r.Intn(3) == 0 {
				_ = e.mgr.Stop()
				e.open()
				e.handles = nil
				e.log("reopen")
				e.c.Distinct("ldb/reopen")
				e.verifyFrontier("after-reopen")
			}
		}
	}
	// final sweep: every version still on the chain, full scan + every key
	if !e.failed {
		ids := e.chain
		if len(ids) > 40 {
			// first 10, last 20, 10 sampled
			var pick []types.HashHeight
			pick = append(pick, ids[:10]...)
			for j := 0; j < 10; j++ {
				pick = append(pick, ids[10+r.Intn(len(ids)-30)])
			}
			pick = append(pick, ids[len(ids)-20:]...)
			ids = pick
		}
		for _, id := range ids {
			if e.failed {
				break
			}
			hd := e.openView(id, false)
			if hd == nil {
				continue
			}
			hd.staleAt = len(e.chain) - int(id.Height)
			e.scan(hd, nil)
			for _, k := range c07Alphabet {
				e.readKey(hd, k)
			}
		}
	}
	if e.interesting {
		c.Distinct("seq-" + hex.EncodeToString(h.Sum(nil)[:8]))
	}
	c.Count("sequences", 1)
	c.Count("commits_on_chain_at_end", len(e.chain))
	if caseID == "seq:ldb:0" || caseID == "seq:mem:2" {
		tr := e.trace
		if len(tr) > 25 {
			tr = tr[:25]
		}
		c.Sample(map[string]interface{}{"case": caseID, "ops": nOps, "first_ops": tr})
	}
}

func c07h0Keys(id types.HashHeight) [][]byte {
	var l [][]byte
	for k := range c07FrontierKeys(id, nil) {
		l = append(l, []byte(k))
	}
	sort.Slice(l, func(i, j int) bool { return bytes.Compare(l[i], l[j]) < 0 })
	return l
}

func (e *c07Env) checkChanges(h *c07Handle) {
	if h.prefix != "" {
		// a Subset shares the layer of its parent: Changes() reports the parent's writes under the prefix
		p, err := h.view.Changes()
		e.c.Eval(1)
		if err != nil {
			e.fail("changes-error "+e.kind, "%s.Changes(): %v", h.desc, err)
			return
		}
		got := c07replayPatch(p)
		want := map[string]*[]byte{}
		for k, w := range h.ov.writes {
			if len(k) >= len(h.prefix) && k[:len(h.prefix)] == h.prefix {
				want[k[len(h.prefix):]] = w
			}
		}
		e.compareChanges(h, got, want)
		return
	}
	p, err := h.view.Changes()
	e.c.Eval(1)
	if err != nil {
		e.fail("changes-error "+e.kind, "%s.Changes(): %v", h.desc, err)
		return
	}
	e.compareChanges(h, c07replayPatch(p), h.ov.writes)
}

func (e *c07Env) compareChanges(h *c07Handle, got, want map[string]*[]byte) {
	e.c.Distinct(fmt.Sprintf("%s/changes/%s/n=%d", e.kind, e.class(h), c07min(len(want), 3)))
	if len(got) != len(want) {
		e.fail("changes-mismatch "+e.kind, "%s.Changes() has %d entries, the view made %d distinct writes", h.desc, len(got), len(want))
		return
	}
	for k, w := range want {
		g, ok := got[k]
		if !ok || (g == nil) != (w == nil) || (g != nil && !bytes.Equal(*g, *w)) {
			e.fail("changes-mismatch "+e.kind, "%s.Changes() entry for %x differs from the write made", h.desc, k)
			return
		}
	}
}

type c07patchCollector struct{ m map[string]*[]byte }

func (pc *c07patchCollector) Put(k, v []byte) { vv := append([]byte{}, v...); pc.m[string(k)] = &vv }
func (pc *c07patchCollector) Delete(k []byte) { pc.m[string(k)] = nil }

func c07replayPatch(p db.Patch) map[string]*[]byte {
	pc := &c07patchCollector{m: map[string]*[]byte{}}
	_ = p.Replay(pc)
	return pc.m
}

func c07min(a, b int) int {
	if a < b {
		return a
	}
	return b
}

// ---------------------------------------------------------------------------
// concurrent writer / readers (run by the -race build)

func c07Concurrent(c *fw.C, caseID string, idx int) {
	r := c.Rand(caseID)
	kind := "ldb"
	if idx%3 == 2 {
		kind = "mem"
	}
	var mgr db.Manager
	if kind == "ldb" {
		dir := c.ScratchDir("c07c")
		defer os.RemoveAll(dir)
		mgr = db.NewLevelDBManager(dir)
	} else {
		mgr = db.NewMemDBManager(db.NewMemDB())
	}
	defer mgr.Stop()

	var mu sync.Mutex
	versions := map[types.HashHeight]c07State{} // immutable once published
	var chainIDs []types.HashHeight
	var stop int32
	var fails int32
	var reads, frontierReads, nilViews int64
	var omitReported int32
	var wg sync.WaitGroup
	report := func(sig, msg string) {
		if atomic.AddInt32(&fails, 1) == 1 {
			c.Violation(sig, map[string]interface{}{"what": msg, "manager": kind})
		}
	}
	floor := 6 // the writer never rolls back below this many commits

	nReaders := 6
	for ri := 0; ri < nReaders; ri++ {
		wg.Add(1)
		rr := rand.New(rand.NewSource(r.Int63()))
		go func() {
			defer wg.Done()
			for atomic.LoadInt32(&stop) == 0 {
				if rr.Intn(3) == 0 {
					// frontier snapshot must be exactly one committed state
					v := mgr.Frontier()
					if v == nil {
						continue
					}
					id := db.GetFrontierIdentifier(v)
					dump := map[string][]byte{}
					it := v.NewIterator(nil)
					for it.Next() {
						if it.Value() != nil {
							dump[string(it.Key())] = append([]byte{}, it.Value()...)
						}
					}
					it.Release()
					mu.Lock()
					want, ok := versions[id]
					mu.Unlock()
					atomic.AddInt64(&frontierReads, 1)
					if id.IsZero() {
						continue
					}
					if !ok {
						// the writer publishes a version right after Add returns; wait for it
						for k := 0; k < 2000 && !ok; k++ {
							mu.Lock()
							want, ok = versions[id]
							mu.Unlock()
							if !ok {
								runtime.Gosched()
							}
						}
						if !ok {
							report("concurrent-frontier-unknown-version "+kind, fmt.Sprintf("Frontier() reports identifier %v which was never committed", id))
							continue
						}
					}
					if !c07dumpEquals(dump, want) {
						report("concurrent-frontier-mixed-state "+kind, fmt.Sprintf("Frontier() snapshot with identifier %v has %d keys that do not equal the state committed as %v (%d keys): a half-applied commit/rollback was observed", id, len(dump), id, len(want)))
					}
					continue
				}
				mu.Lock()
				n := len(chainIDs)
				var id types.HashHeight
				if n > 0 {
					if rr.Intn(2) == 0 && n > floor {
						id = chainIDs[rr.Intn(floor)]
					} else {
						id = chainIDs[rr.Intn(n)]
					}
				}
				want := versions[id]
				stable := n > 0 && int(id.Height) <= floor
				mu.Unlock()
				if n == 0 {
					continue
				}
				v := mgr.Get(id)
				if v == nil {
					atomic.AddInt64(&nilViews, 1)
					if stable {
						report("concurrent-get-nil "+kind, fmt.Sprintf("Get(%v) returned nil for a version below the rollback floor", id))
					}
					continue
				}
				for j := 0; j < 6; j++ {
					k := c07Alphabet[rr.Intn(len(c07Alphabet))]
					got, err := v.Get(k)
					wv, present := want[string(k)]
					atomic.AddInt64(&reads, 1)
					if present && (err != nil || !bytes.Equal(got, wv)) || !present && err != leveldb.ErrNotFound {
						report("concurrent-get-mismatch "+kind, fmt.Sprintf("view at %v: Get(%x)=(%x,%v), model present=%v value=%x", id, k, got, err, present, wv))
					}
				}
				if rr.Intn(4) == 0 {
					dump := map[string][]byte{}
					it := v.NewIterator(nil)
					for it.Next() {
						if it.Value() != nil {
							dump[string(it.Key())] = append([]byte{}, it.Value()...)
						}
					}
					it.Release()
					atomic.AddInt64(&reads, 1)
					if !c07dumpEquals(dump, want) {
						if c07dumpOmitsOnlyEmpty(dump, want) {
							if atomic.AddInt32(&omitReported, 1) == 1 {
								c.Violation("scan-omits-present-empty-keys "+kind+" historical", map[string]interface{}{"what": fmt.Sprintf("concurrent reader: view at %v: full scan has %d keys, model %d; the missing ones are exactly the present keys with empty value", id, len(dump), len(want))})
							}
						} else {
							report("concurrent-scan-mismatch "+kind, fmt.Sprintf("view at %v: full scan has %d keys, model %d", id, len(dump), len(want)))
						}
					}
				}
			}
		}()
	}

	// writer
	salt := uint64(idx) << 32
	nOps := 220
	if c.Thorough() {
		nOps = 500
	}
	var cur c07State = c07State{}
	var stack []c07State
	for i := 0; i < nOps && atomic.LoadInt32(&fails) == 0; i++ {
		mu.Lock()
		n := len(chainIDs)
		var fid types.HashHeight
		if n > 0 {
			fid = chainIDs[n-1]
		}
		mu.Unlock()
		if n > floor && r.Intn(4) == 0 {
			if err := mgr.Pop(); err != nil {
				report("rollback-error "+kind, err.Error())
				break
			}
			mu.Lock()
			// the popped version stays in `versions`: a reader may still legitimately hold it
			chainIDs = chainIDs[:n-1]
			mu.Unlock()
			cur = stack[len(stack)-1]
			stack = stack[:len(stack)-1]
			continue
		}
		v := mgr.Frontier()
		next := cur.clone()
		for j := 0; j < 1+r.Intn(4); j++ {
			k := c07Alphabet[r.Intn(len(c07Alphabet))]
			if r.Intn(4) == 0 {
				_ = v.Delete(k)
				delete(next, string(k))
			} else {
				val := c07randVal(r)
				_ = v.Put(k, val)
				next[string(k)] = append([]byte{}, val...)
			}
		}
		patch, _ := v.Changes()
		salt++
		id := types.HashHeight{Hash: c07HashOf(fid.Height+1, salt), Height: fid.Height + 1}
		data := []byte("d")
		for k, val := range c07FrontierKeys(id, data) {
			next[k] = val
		}
		// publish before Add so that a reader that sees the new frontier finds its model
		mu.Lock()
		versions[id] = next
		mu.Unlock()
		if err := mgr.Add(&c07Tx{commits: []db.Commit{&c07Commit{id: id, prev: fid, data: data}}, changes: patch}); err != nil {
			report("commit-refused "+kind, err.Error())
			break
		}
		mu.Lock()
		chainIDs = append(chainIDs, id)
		mu.Unlock()
		stack = append(stack, cur)
		cur = next
	}
	atomic.StoreInt32(&stop, 1)
	wg.Wait()
	c.Eval(int(reads + frontierReads))
	c.Count("concurrent_view_reads", int(reads))
	c.Count("concurrent_frontier_snapshots", int(frontierReads))
	c.Count("concurrent_nil_views_in_volatile_region", int(nilViews))
	if reads > 0 && frontierReads > 0 {
		c.Distinct(fmt.Sprintf("%s/concurrent/run-%d", kind, idx))
	}
}

func c07dumpEquals(got map[string][]byte, want c07State) bool {
	if len(got) != len(want) {
		return false
	}
	for k, v := range want {
		if g, ok := got[k]; !ok || !bytes.Equal(g, v) {
			return false
		}
	}
	return true
}

func c07dumpOmitsOnlyEmpty(got map[string][]byte, want c07State) bool {
	n := 0
	for k, v := range want {
		g, ok := got[k]
		if !ok {
			if len(v) != 0 {
				return false
			}
			continue
		}
		if !bytes.Equal(g, v) {
			return false
		}
		n++
	}
	return n == len(got)
}
